(* C17: what the accumulated sum, minimum and maximum are, in exact arithmetic.
   - the exact-mode sum is the rational number  sum_i len_i * val_i ;
   - the folded minimum / maximum is a bound of every value and is one of them (or the start value). *)
From Coq Require Import QArith Qpower.
From BT Require Import Base.Util Base.Float Model.RTree Model.BBIFile Model.BigWigWrite Model.BBIRead
  Model.BedStats Proofs.BedStatsThms.

(* ------------------------------------------------------------------ rational value of a finite float *)
Definition fl_Q (a : fl) : Q :=
  match a with FFin m e => inject_Z m * (2 # 1) ^ e | _ => 0 end.

Lemma two_neq0 : ~ (2 # 1) == 0.
Proof. intro H. discriminate H. Qed.

Lemma shiftl_Q m k : (0 <= k)%Z -> inject_Z (Z.shiftl m k) == inject_Z m * (2 # 1) ^ k.
Proof.
  intros Hk. rewrite Z.shiftl_mul_pow2 by exact Hk. rewrite inject_Z_mult.
  rewrite (Zpower_Qpower 2 k Hk). reflexivity.
Qed.

Lemma scale_Q m e e0 : (e0 <= e)%Z -> inject_Z (Z.shiftl m (e - e0)) * (2 # 1) ^ e0 == inject_Z m * (2 # 1) ^ e.
Proof.
  intros H. rewrite shiftl_Q by lia. rewrite <- Qmult_assoc.
  rewrite <- (Qpower_plus (2 # 1) (e - e0) e0 two_neq0). replace (e - e0 + e0)%Z with e by lia. reflexivity.
Qed.

Lemma fadd_exact_Q m1 e1 m2 e2 :
  exists m e, fadd64 exact (FFin m1 e1) (FFin m2 e2) = FFin m e /\
              inject_Z m * (2 # 1) ^ e == fl_Q (FFin m1 e1) + fl_Q (FFin m2 e2).
Proof.
  unfold fadd64, fadd_with, align. cbn [exact r64].
  eexists. eexists. split; [reflexivity|]. cbn [fl_Q].
  rewrite inject_Z_plus. rewrite Qmult_plus_distr_l.
  rewrite (scale_Q m1 e1 (Z.min e1 e2)) by lia. rewrite (scale_Q m2 e2 (Z.min e1 e2)) by lia. reflexivity.
Qed.

Lemma fmul_exact_Q m1 e1 m2 e2 :
  fmul64 exact (FFin m1 e1) (FFin m2 e2) = FFin (m1 * m2) (e1 + e2) /\
  fl_Q (FFin (m1 * m2) (e1 + e2)) == fl_Q (FFin m1 e1) * fl_Q (FFin m2 e2).
Proof.
  split; [reflexivity|]. cbn [fl_Q]. rewrite inject_Z_mult. rewrite (Qpower_plus (2 # 1) e1 e2 two_neq0). ring.
Qed.

Definition Qlen (v : value) : Q := inject_Z (Z.of_N (vlen v)).
(* sum_i len_i * val_i *)
Fixpoint sumQ (cl : list value) : Q :=
  match cl with [] => 0 | v :: r => Qlen v * fl_Q (v_val v) + sumQ r end.

Definition all_finite (cl : list value) : Prop := Forall (fun v => is_fin (v_val v) = true) cl.

Lemma sum_fold_exact cl : all_finite cl -> forall m e,
  exists m' e', fold_left (fun a v => fadd64 exact a (fmul64 exact (f_of_N (vlen v)) (v_val v))) cl (FFin m e) = FFin m' e' /\
                fl_Q (FFin m' e') == fl_Q (FFin m e) + sumQ cl.
Proof.
  induction 1 as [|v r Hv _ IH]; intros m e.
  - exists m, e. split; [reflexivity|]. cbn [sumQ]. ring.
  - cbn [fold_left]. destruct (v_val v) as [mv ev| |] eqn:Ev; try discriminate Hv.
    unfold f_of_N. destruct (fmul_exact_Q (Z.of_N (vlen v)) 0 mv ev) as [Hm HmQ]. rewrite Hm.
    destruct (fadd_exact_Q m e (Z.of_N (vlen v) * mv) (0 + ev)) as (m1 & e1 & Ha & HaQ). rewrite Ha.
    destruct (IH m1 e1) as (m' & e' & Hf & HfQ). exists m', e'. split; [exact Hf|].
    rewrite HfQ. change (inject_Z m1 * (2 # 1) ^ e1) with (fl_Q (FFin m1 e1)) in HaQ. cbn [fl_Q] in HaQ |- *.
    cbn [sumQ]. rewrite Ev. cbn [fl_Q]. rewrite HaQ. rewrite HmQ. unfold Qlen. cbn [fl_Q].
    replace ((2 # 1) ^ 0) with 1 by reflexivity. ring.
Qed.

(* C17_sum_exact: without rounding, the code's sum is the number  sum len * value  over the clipped values *)
Theorem sum_exact : forall cl, all_finite cl ->
  is_fin (sum_of exact cl) = true /\ fl_Q (sum_of exact cl) == sumQ cl.
Proof.
  intros cl H. unfold sum_of, fzero. destruct (sum_fold_exact cl H 0 0) as (m & e & Hf & HQ).
  rewrite Hf. split; [reflexivity|]. rewrite HQ. cbn [fl_Q]. ring.
Qed.

(* the number of covered bases as a number, for the two means: mean0 = sum / size, mean = sum / bases *)
Lemma bases_Q cl : inject_Z (Z.of_N (bases_of cl)) == fold_right (fun v a => Qlen v + a) 0 cl.
Proof.
  unfold bases_of. induction cl as [|v r IH]; [reflexivity|].
  cbn [map sumN fold_right]. rewrite N2Z.inj_add, inject_Z_plus, IH. reflexivity.
Qed.

(* ------------------------------------------------------------------ order on finite floats *)
Local Open Scope Z_scope.

Lemma fcmp_at m1 e1 m2 e2 E : E <= e1 -> E <= e2 ->
  fcmp (FFin m1 e1) (FFin m2 e2) = Some (m1 * 2 ^ (e1 - E) ?= m2 * 2 ^ (e2 - E)).
Proof.
  intros H1 H2. unfold fcmp, align. f_equal.
  set (e := Z.min e1 e2).
  rewrite !Z.shiftl_mul_pow2 by lia.
  replace (e1 - E) with ((e1 - e) + (e - E)) by lia. replace (e2 - E) with ((e2 - e) + (e - E)) by lia.
  rewrite !Z.pow_add_r by lia. rewrite !Z.mul_assoc.
  apply Zmult_compare_compat_r. apply Z.lt_gt. apply Z.pow_pos_nonneg; lia.
Qed.

Definition fle (a b : fl) : Prop := fleb a b = true.

Lemma fle_at m1 e1 m2 e2 E : E <= e1 -> E <= e2 ->
  (fle (FFin m1 e1) (FFin m2 e2) <-> m1 * 2 ^ (e1 - E) <= m2 * 2 ^ (e2 - E)).
Proof.
  intros H1 H2. unfold fle, fleb. rewrite (fcmp_at m1 e1 m2 e2 E H1 H2).
  destruct (Z.compare_spec (m1 * 2 ^ (e1 - E)) (m2 * 2 ^ (e2 - E))); split; intros; try reflexivity; try lia; try discriminate.
Qed.

Lemma fle_refl a : is_fin a = true -> fle a a.
Proof. destruct a as [m e| |]; try discriminate. intros _. apply (fle_at m e m e e); lia. Qed.

Lemma fle_trans a b c : is_fin a = true -> is_fin b = true -> is_fin c = true -> fle a b -> fle b c -> fle a c.
Proof.
  destruct a as [m1 e1| |]; try discriminate. destruct b as [m2 e2| |]; try discriminate.
  destruct c as [m3 e3| |]; try discriminate. intros _ _ _ H12 H23.
  set (E := Z.min e1 (Z.min e2 e3)).
  apply (fle_at m1 e1 m2 e2 E) in H12; try (unfold E; lia).
  apply (fle_at m2 e2 m3 e3 E) in H23; try (unfold E; lia).
  apply (fle_at m1 e1 m3 e3 E); try (unfold E; lia); lia.
Qed.

Lemma fle_total a b : is_fin a = true -> is_fin b = true -> fle a b \/ fle b a.
Proof.
  destruct a as [m1 e1| |]; try discriminate. destruct b as [m2 e2| |]; try discriminate. intros _ _.
  set (E := Z.min e1 e2).
  destruct (Z.le_ge_cases (m1 * 2 ^ (e1 - E)) (m2 * 2 ^ (e2 - E))).
  - left. apply (fle_at m1 e1 m2 e2 E); try (unfold E; lia); lia.
  - right. apply (fle_at m2 e2 m1 e1 E); try (unfold E; lia); lia.
Qed.

(* fmin / fmax of two finite values: one of them, and a bound of both *)
Lemma fmin_fin a b : is_fin a = true -> is_fin b = true ->
  (fmin a b = a \/ fmin a b = b) /\ fle (fmin a b) a /\ fle (fmin a b) b.
Proof.
  intros Ha Hb. destruct a as [m1 e1| |]; try discriminate. destruct b as [m2 e2| |]; try discriminate.
  set (E := Z.min e1 e2).
  assert (H1 : E <= e1) by (unfold E; lia). assert (H2 : E <= e2) by (unfold E; lia).
  unfold fmin. rewrite (fcmp_at m1 e1 m2 e2 E H1 H2).
  destruct (Z.compare_spec (m1 * 2 ^ (e1 - E)) (m2 * 2 ^ (e2 - E))) as [Hc|Hc|Hc].
  - split; [left; reflexivity|]. split; [apply fle_refl; reflexivity|]. apply (fle_at m1 e1 m2 e2 E H1 H2). lia.
  - split; [left; reflexivity|]. split; [apply fle_refl; reflexivity|]. apply (fle_at m1 e1 m2 e2 E H1 H2). lia.
  - split; [right; reflexivity|]. split; [|apply fle_refl; reflexivity]. apply (fle_at m2 e2 m1 e1 E H2 H1). lia.
Qed.

Lemma fmax_fin a b : is_fin a = true -> is_fin b = true ->
  (fmax a b = a \/ fmax a b = b) /\ fle a (fmax a b) /\ fle b (fmax a b).
Proof.
  intros Ha Hb. destruct a as [m1 e1| |]; try discriminate. destruct b as [m2 e2| |]; try discriminate.
  set (E := Z.min e1 e2).
  assert (H1 : E <= e1) by (unfold E; lia). assert (H2 : E <= e2) by (unfold E; lia).
  unfold fmax. rewrite (fcmp_at m1 e1 m2 e2 E H1 H2).
  destruct (Z.compare_spec (m1 * 2 ^ (e1 - E)) (m2 * 2 ^ (e2 - E))) as [Hc|Hc|Hc].
  - split; [left; reflexivity|]. split; [apply fle_refl; reflexivity|]. apply (fle_at m2 e2 m1 e1 E H2 H1). lia.
  - split; [right; reflexivity|]. split; [|apply fle_refl; reflexivity]. apply (fle_at m1 e1 m2 e2 E H1 H2). lia.
  - split; [left; reflexivity|]. split; [apply fle_refl; reflexivity|]. apply (fle_at m2 e2 m1 e1 E H2 H1). lia.
Qed.

Lemma fold_fmin_spec l : Forall (fun x => is_fin x = true) l -> forall init, is_fin init = true ->
  let r := fold_left fmin l init in
  is_fin r = true /\ fle r init /\ (forall y, In y l -> fle r y) /\ (r = init \/ In r l).
Proof.
  induction 1 as [|x l Hx Hl IH]; intros init Hi; cbv zeta.
  - cbn [fold_left]. split; [exact Hi|]. split; [apply fle_refl; exact Hi|]. split; [intros y []|left; reflexivity].
  - cbn [fold_left]. destruct (fmin_fin init x Hi Hx) as (Hsel & Hle1 & Hle2).
    assert (Hfin : is_fin (fmin init x) = true) by (destruct Hsel as [-> | ->]; assumption).
    destruct (IH (fmin init x) Hfin) as (Hr & Hri & Hall & Hin). cbv zeta in Hr, Hri, Hall, Hin.
    split; [exact Hr|]. split; [eapply (fle_trans _ (fmin init x) init); [exact Hr|exact Hfin|exact Hi|exact Hri|exact Hle1]|]. split.
    + intros y [<-|Hy]; [eapply fle_trans; [exact Hr|exact Hfin|exact Hx|exact Hri|exact Hle2]|apply Hall; exact Hy].
    + destruct Hin as [Hin|Hin]; [|right; right; exact Hin].
      rewrite Hin. destruct Hsel as [-> | ->]; [left; reflexivity|right; left; reflexivity].
Qed.

Lemma fold_fmax_spec l : Forall (fun x => is_fin x = true) l -> forall init, is_fin init = true ->
  let r := fold_left fmax l init in
  is_fin r = true /\ fle init r /\ (forall y, In y l -> fle y r) /\ (r = init \/ In r l).
Proof.
  induction 1 as [|x l Hx Hl IH]; intros init Hi; cbv zeta.
  - cbn [fold_left]. split; [exact Hi|]. split; [apply fle_refl; exact Hi|]. split; [intros y []|left; reflexivity].
  - cbn [fold_left]. destruct (fmax_fin init x Hi Hx) as (Hsel & Hle1 & Hle2).
    assert (Hfin : is_fin (fmax init x) = true) by (destruct Hsel as [-> | ->]; assumption).
    destruct (IH (fmax init x) Hfin) as (Hr & Hri & Hall & Hin). cbv zeta in Hr, Hri, Hall, Hin.
    split; [exact Hr|]. split; [eapply (fle_trans init (fmax init x) _); [exact Hi|exact Hfin|exact Hr|exact Hle1|exact Hri]|]. split.
    + intros y [<-|Hy]; [eapply fle_trans; [exact Hx|exact Hfin|exact Hr|exact Hle2|exact Hri]|apply Hall; exact Hy].
    + destruct Hin as [Hin|Hin]; [|right; right; exact Hin].
      rewrite Hin. destruct Hsel as [-> | ->]; [left; reflexivity|right; left; reflexivity].
Qed.

(* C17_minmax: the reported minimum (maximum) is below (above) the value of every clipped item and is
   the value of one of them, unless it is the start value f64::MAX (f64::MIN) *)
Theorem minmax_spec : forall cl, all_finite cl ->
  let mn := fold_left fmin (map v_val cl) f64_max in
  let mx := fold_left fmax (map v_val cl) f64_min in
  (forall v, In v cl -> fle mn (v_val v) /\ fle (v_val v) mx) /\
  (mn = f64_max \/ In mn (map v_val cl)) /\ (mx = f64_min \/ In mx (map v_val cl)).
Proof.
  intros cl H. cbv zeta.
  assert (Hf : Forall (fun x => is_fin x = true) (map v_val cl)).
  { unfold all_finite in H. induction H; constructor; assumption. }
  destruct (fold_fmin_spec _ Hf f64_max eq_refl) as (_ & _ & Hmn & Hmin).
  destruct (fold_fmax_spec _ Hf f64_min eq_refl) as (_ & _ & Hmx & Hmax).
  cbv zeta in Hmn, Hmin, Hmx, Hmax.
  split; [|split; assumption].
  intros v Hv. split; [apply Hmn|apply Hmx]; apply in_map; exact Hv.
Qed.

Example minmax_example :
  let cl := [ {| v_start := 2; v_end := 4; v_bits := 1065353216 |}; {| v_start := 6; v_end := 8; v_bits := 3212836864 |} ]%N in
  all_finite cl /\ fold_left fmin (map v_val cl) f64_max = f32_of_bits 3212836864 /\
  fold_left fmax (map v_val cl) f64_min = f32_of_bits 1065353216.
Proof. split; [repeat constructor|split; vm_compute; reflexivity]. Qed.
