(* The autoSql text the generator [bed_autosql] emits declares 3 + n fields, for every number n
   of extra columns.  "Declares k fields" is [declared_fields] of Model/AutoSql.v: the number of
   ';' outside double-quoted comments, a measure that does not involve the parser.

   The count is additive over pieces of text in which the quotes are balanced.  The header and
   every entry of the FIELDS table are such pieces (checked by computation on the tables
   translated from the Rust source, so a change of a table is re-checked), and so is the line
   pushed for an undocumented column, whatever its number: decimal digits are neither a double quote
   nor a semicolon. *)
From BT Require Import Base.Util Generated.Consts Model.AutoSql.
Local Open Scope nat_scope.

(* ---- scanning a piece: the quote state it ends in and the semicolons it counted ---- *)
Fixpoint scan (inq : bool) (l : list N) : bool * nat :=
  match l with
  | [] => (inq, 0)
  | c :: r =>
    if (c =? 34)%N then scan (negb inq) r
    else if (c =? 59)%N && negb inq then let '(q, k) := scan inq r in (q, S k)
    else scan inq r
  end.

Lemma count_semis_app : forall a inq b,
  count_semis inq (a ++ b) = snd (scan inq a) + count_semis (fst (scan inq a)) b.
Proof.
  induction a as [|c a IH]; intros inq b; cbn [app scan count_semis fst snd]; [reflexivity|].
  destruct (c =? 34)%N; [apply IH|].
  destruct ((c =? 59)%N && negb inq).
  - rewrite IH. destruct (scan inq a) as [q k]. reflexivity.
  - apply IH.
Qed.

(* a piece with balanced quotes holding k field terminators *)
Definition piece (l : list N) (k : nat) : Prop := scan false l = (false, k).

Lemma piece_app : forall a k b, piece a k -> count_semis false (a ++ b) = k + count_semis false b.
Proof. intros a k b H. rewrite count_semis_app, H. reflexivity. Qed.

Lemma pieces_concat : forall ls b, Forall (fun l => piece l 1) ls ->
  count_semis false (concat ls ++ b) = length ls + count_semis false b.
Proof.
  induction ls as [|l ls IH]; intros b H; [reflexivity|].
  inversion H as [|? ? Hl Hls]; subst.
  cbn [concat length]. rewrite <- app_assoc, (piece_app l 1 _ Hl), IH by exact Hls. reflexivity.
Qed.

(* ---- decimal digits are inert ---- *)
Definition inert (c : N) : Prop := (c =? 34)%N = false /\ (c =? 59)%N = false.

Lemma scan_inert : forall l inq, Forall inert l -> scan inq l = (inq, 0).
Proof.
  induction l as [|c l IH]; intros inq H; [reflexivity|].
  inversion H as [|? ? [H1 H2] Hl]; subst. cbn [scan]. rewrite H1, H2. cbn [andb]. apply IH, Hl.
Qed.

Lemma uint_bytes_inert : forall u, Forall inert (uint_bytes u).
Proof.
  induction u; cbn [uint_bytes]; constructor; try assumption; split; reflexivity.
Qed.

Lemma dec_digits_inert : forall n, Forall inert (dec_digits n).
Proof. intro n. apply uint_bytes_inert. Qed.

Lemma scan_app : forall a inq b,
  scan inq (a ++ b) = let '(q, k) := scan inq a in let '(q', k') := scan q b in (q', k + k').
Proof.
  induction a as [|c a IH]; intros inq b; cbn [app scan].
  - destruct (scan inq b); reflexivity.
  - destruct (c =? 34)%N; [apply IH|].
    destruct ((c =? 59)%N && negb inq); [|apply IH].
    rewrite IH. destruct (scan inq a) as [q k]. destruct (scan q b) as [q' k']. reflexivity.
Qed.

(* ---- the tables (recomputed whenever Generated/Consts.v changes) ---- *)
Lemma header_piece : piece AUTOSQL_BED_HEADER 3.
Proof. vm_compute. reflexivity. Qed.

Lemma fields_pieces : Forall (fun l => piece l 1) AUTOSQL_FIELDS.
Proof. repeat (constructor; [vm_compute; reflexivity|]). constructor. Qed.

Lemma undoc_affixes : scan false AUTOSQL_UNDOC_PREFIX = (false, 0) /\ scan false AUTOSQL_UNDOC_SUFFIX = (false, 1).
Proof. split; vm_compute; reflexivity. Qed.

Lemma undoc_piece : forall i, piece (undoc_line i) 1.
Proof.
  intro i. unfold piece, undoc_line. destruct undoc_affixes as [Hp Hs].
  rewrite scan_app, Hp, scan_app, (scan_inert _ false (dec_digits_inert _)), Hs. reflexivity.
Qed.

Lemma close_piece : count_semis false [AUTOSQL_CLOSE] = 0.
Proof. vm_compute. reflexivity. Qed.

(* ---- the generator ---- *)
Lemma Forall_firstn' : forall (X : Type) (P : X -> Prop) k (l : list X), Forall P l -> Forall P (firstn k l).
Proof.
  intros X P. induction k as [|k IH]; intros l H; [constructor|].
  destruct l as [|x l]; [constructor|]. inversion H; subst. cbn [firstn]. constructor; [assumption|apply IH; assumption].
Qed.
Theorem generated_field_count : forall n, declared_fields (bed_autosql_n n) = 3 + n.
Proof.
  intro n. unfold declared_fields, bed_autosql_n.
  rewrite (piece_app _ 3 _ header_piece).
  rewrite pieces_concat by (apply Forall_firstn', fields_pieces).
  rewrite pieces_concat by (apply Forall_forall; intros l Hl; apply in_map_iff in Hl;
                            destruct Hl as [i [Hi _]]; subst l; apply undoc_piece).
  rewrite close_piece, firstn_length, map_length, seq_length. lia.
Qed.

(* ---- the rest of a BED line: columns joined by the separator ---- *)
Fixpoint join_cols (cols : list (list N)) : list N :=
  match cols with
  | [] => []
  | [c] => c
  | c :: cs => c ++ AUTOSQL_COLUMN_SEP :: join_cols cs
  end.

Definition no_sep (c : list N) : Prop := Forall (fun x => (x =? AUTOSQL_COLUMN_SEP)%N = false) c.

Lemma count_sep_app : forall a b, count_sep (a ++ b) = count_sep a + count_sep b.
Proof.
  induction a as [|x a IH]; intro b; cbn [app count_sep]; [reflexivity|].
  destruct (x =? AUTOSQL_COLUMN_SEP)%N; rewrite IH; reflexivity.
Qed.
Lemma count_sep_no_sep : forall c, no_sep c -> count_sep c = 0.
Proof.
  induction c as [|x c IH]; intro H; [reflexivity|]. inversion H as [|? ? Hx Hc]; subst.
  cbn [count_sep]. rewrite Hx. apply IH, Hc.
Qed.
Lemma count_sep_join : forall cols, Forall no_sep cols -> S (count_sep (join_cols cols)) = Nat.max 1 (length cols).
Proof.
  induction cols as [|c cs IH]; intro H; [reflexivity|].
  inversion H as [|? ? Hc Hcs]; subst. destruct cs as [|c2 cs'].
  - cbn [join_cols length]. rewrite count_sep_no_sep by exact Hc. reflexivity.
  - change (join_cols (c :: c2 :: cs')) with (c ++ AUTOSQL_COLUMN_SEP :: join_cols (c2 :: cs')).
    rewrite count_sep_app, count_sep_no_sep by exact Hc. cbn [count_sep]. rewrite N.eqb_refl.
    specialize (IH Hcs). cbn [length] in *. lia.
Qed.

(* a non-empty rest made of [length cols] separator-free columns has that many extra fields;
   the empty rest (a three-column BED line) has none *)
Lemma extra_fields_join : forall cols, Forall no_sep cols -> join_cols cols <> [] ->
  extra_fields (join_cols cols) = length cols.
Proof.
  intros cols H Hne. unfold extra_fields.
  destruct (join_cols cols) as [|x r] eqn:E; [exfalso; apply Hne; reflexivity|].
  rewrite <- E, (count_sep_join cols H). destruct cols as [|c cs]; [discriminate E|]. cbn [length]. lia.
Qed.

Theorem generated_field_count_rest : forall cols, Forall no_sep cols -> join_cols cols <> [] ->
  declared_fields (bed_autosql (join_cols cols)) = 3 + length cols.
Proof.
  intros cols H Hne. unfold bed_autosql. rewrite extra_fields_join by assumption. apply generated_field_count.
Qed.

Theorem generated_field_count_bed3_line : declared_fields (bed_autosql []) = 3.
Proof. exact (generated_field_count 0). Qed.
