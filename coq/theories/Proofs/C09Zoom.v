(* C09 whole file, part 3a: one zoom level.  The data region and index write_zooms lays out for a
   level whose sections are the encodings of record lists [rsecs] are accepted by the independent
   decoder's zoom_level, which returns exactly those records, provided the records are what the
   decoder demands (one chromosome per section, start < end <= chromosome length, covered bases
   <= width, in order and disjoint) and fit their fields. *)
From BT Require Import Base.Util Base.LE Base.Float Generated.Consts Model.RTree Model.BBIFile Model.BigWigWrite Model.BigWigWriteZ
  Proofs.Chunks Proofs.RTreeAbs Proofs.RTreeBuild Proofs.RTreeCodec Proofs.FileRegions
  Proofs.BigWigFile Proofs.BigWigFileData
  Spec.FormatDecode Proofs.C09Base Proofs.C09Codec Proofs.C09Chrom Proofs.C09RTree Proofs.C09Data.
From Coq Require Import Sorting.Sorted.
Local Open Scope N_scope.

(* ---------- an encoded zoom section ---------- *)
Definition zpsec (fp : fpmode) (rs : list zrec) : sdata :=
  match rs with
  | [] => {| sd_chrom := 0; sd_start := 0; sd_end := 0; sd_bytes := [] |}
  | f :: _ => {| sd_chrom := z_chrom f; sd_start := z_start f; sd_end := z_end (last rs f);
                 sd_bytes := flat_map (zrec_bytes fp) rs |}
  end.
Lemma encode_zpsec fp rs : rs <> [] -> encode_zoom_section fp rs = Ok (zpsec fp rs).
Proof. destruct rs; [congruence|reflexivity]. Qed.

Definition zrec_lt (a b : zrec) : Prop :=
  z_chrom a < z_chrom b \/ (z_chrom a = z_chrom b /\ z_end a <= z_start b).

Definition zrec_good (chroms : list fchrom) (r : zrec) : Prop :=
  zrec_ok r /\ z_start r < z_end r /\ su_bases (z_sum r) <= z_end r - z_start r
  /\ exists len, chrom_size chroms (z_chrom r) = Some len /\ z_end r <= len.

Definition zsec_good (ips : N) (rs : list zrec) : Prop :=
  rs <> [] /\ Nlen rs <= ips /\ forall f r, In r rs -> hd_error rs = Some f -> z_chrom r = z_chrom f.

(* ---------- order facts ---------- *)
Lemma sorted_head_start : forall rs f, StronglySorted zrec_lt (f :: rs) -> Forall (fun r => z_start r < z_end r) (f :: rs) ->
  (forall r, In r rs -> z_chrom r = z_chrom f) -> forall r, In r (f :: rs) -> z_start f <= z_start r.
Proof.
  intros rs f Hs Hpos Hc r [<-|Hr]; [lia|]. inversion Hs as [|? ? _ Hf]; subst. rewrite Forall_forall in Hf.
  destruct (Hf r Hr) as [H|[_ H]]; [rewrite (Hc r Hr) in H; lia|]. apply Forall_inv in Hpos. lia.
Qed.
Lemma sorted_last_end : forall rs f, StronglySorted zrec_lt (f :: rs) -> Forall (fun r => z_start r < z_end r) (f :: rs) ->
  (forall r, In r rs -> z_chrom r = z_chrom f) -> forall r, In r (f :: rs) -> z_end r <= z_end (last (f :: rs) f).
Proof.
  induction rs as [|g rs IH]; intros f Hs Hpos Hc r Hr.
  - destruct Hr as [<-|[]]. cbn. lia.
  - rewrite !last_cons. inversion Hs as [|? ? Hs' Hf]; subst. inversion Hpos as [|? ? Hp Hpos']; subst.
    assert (Hc' : forall r, In r rs -> z_chrom r = z_chrom g).
    { intros x Hx. rewrite (Hc x (or_intror Hx)), (Hc g (or_introl eq_refl)). reflexivity. }
    destruct Hr as [<-|Hr].
    + (* f itself: f.end <= g.start < ... *)
      pose proof (IH g Hs' Hpos' Hc' g (or_introl eq_refl)) as Hg. rewrite last_cons in Hg.
      apply Forall_inv in Hf. destruct Hf as [H|[_ H]]; [rewrite (Hc g (or_introl eq_refl)) in H; lia|].
      apply Forall_inv in Hpos'. lia.
    + pose proof (IH g Hs' Hpos' Hc' r Hr) as H. now rewrite last_cons in H.
Qed.

Lemma SSorted_app_inv_l {X} (R : X -> X -> Prop) : forall a b, StronglySorted R (a ++ b) -> StronglySorted R a.
Proof.
  induction a as [|x a IH]; intros b H; [constructor|]. cbn [app] in H. inversion H as [|? ? Hs Hf]; subst.
  constructor; [eapply IH; exact Hs|]. apply Forall_app in Hf. tauto.
Qed.
Lemma SSorted_app_cross {X} (R : X -> X -> Prop) : forall a b x y, StronglySorted R (a ++ b) -> In x a -> In y b -> R x y.
Proof.
  induction a as [|z a IH]; intros b x y H Hx Hy; [destruct Hx|]. cbn [app] in H. inversion H as [|? ? Hs Hf]; subst.
  destruct Hx as [<-|Hx]; [|eapply IH; eassumption]. rewrite Forall_forall in Hf. apply Hf. apply in_or_app. now right.
Qed.

(* ---------- one zoom block ---------- *)
Lemma zoom_block_gen img n inflate chroms ubuf ips fp rs s :
  block_bytes img n inflate ubuf (lf_of s) = Some (sd_bytes (zpsec fp rs)) ->
  s_chrom s = sd_chrom (zpsec fp rs) -> s_start s = sd_start (zpsec fp rs) -> s_end s = sd_end (zpsec fp rs) ->
  zsec_good ips rs -> Forall (zrec_good chroms) rs ->
  StronglySorted zrec_lt rs ->
  zoom_block img n false inflate true chroms ubuf ips (lf_of s) = Some (map (zr_view fp) rs).
Proof.
  intros Hbytes Hc Hs He (Hne & Hlen & Hsame) Hgood Hsorted.
  destruct rs as [|f r] eqn:Er; [congruence|]. rewrite <- Er in *.
  assert (Hf : In f rs) by (subst rs; now left).
  assert (Hhd : hd_error rs = Some f) by (subst rs; reflexivity).
  assert (Hokall : Forall zrec_ok rs) by (eapply Forall_impl; [|exact Hgood]; now intros x (H & _)).
  assert (Hpos : Forall (fun x => z_start x < z_end x) rs) by (eapply Forall_impl; [|exact Hgood]; now intros x (_ & H & _)).
  destruct (encode_zoom_section_ok fp rs (zpsec fp rs) (encode_zpsec fp rs Hne) Hokall) as (Hbl & Hparse & _).
  assert (Ech : sd_chrom (zpsec fp rs) = z_chrom f) by (subst rs; reflexivity).
  assert (Est : sd_start (zpsec fp rs) = z_start f) by (subst rs; reflexivity).
  assert (Een : sd_end (zpsec fp rs) = z_end (last rs f)) by (subst rs; reflexivity).
  rewrite Forall_forall in Hgood. destruct (Hgood f Hf) as (_ & _ & _ & (len & Hcs & _)).
  unfold zoom_block. rewrite Hbytes. cbn [obind].
  cbn [lf_of fl_off fl_size fl_span fsp p_sc p_sb p_eb sect_span sc sb eb].
  rewrite Hc, Ech, Hcs. cbn [obind]. rewrite Hbl.
  assert (Hdiv : 32 * Nlen rs / 32 = Nlen rs) by (rewrite N.mul_comm; apply N.div_mul; lia).
  assert (Hmod : (32 * Nlen rs) mod 32 = 0) by (rewrite N.mul_comm; apply N.mod_mul; lia).
  rewrite Hdiv, Hmod.
  assert (H1 : 1 <= Nlen rs) by (subst rs; rewrite Nlen_cons; lia).
  rewrite check_true by (rewrite N.eqb_refl; cbn [andb]; apply andb_true_iff; split; apply N.leb_le; lia).
  rewrite Hbl, Hdiv in Hparse. rewrite Hparse.
  rewrite check_true; [reflexivity|].
  apply forallb_forall. intros x Hx. apply in_map_iff in Hx as [z [<- Hz]].
  destruct (Hgood z Hz) as (_ & Hp & Hv & (len' & Hcs' & Hle)).
  assert (Hzc : z_chrom z = z_chrom f) by (apply (Hsame f z Hz Hhd)).
  rewrite Hzc, Hcs in Hcs'. injection Hcs' as <-.
  cbn [zr_view zr_chrom zr_start zr_end zr_valid]. rewrite Hs, He, Est, Een, Hzc, N.eqb_refl. cbn [andb].
  assert (Hsame' : forall x, In x r -> z_chrom x = z_chrom f).
  { intros x Hx. apply (Hsame f x); [subst rs; now right|exact Hhd]. }
  subst rs.
  pose proof (sorted_head_start r f Hsorted Hpos Hsame' z Hz).
  pose proof (sorted_last_end r f Hsorted Hpos Hsame' z Hz).
  rewrite !andb_true_iff. repeat split; try (apply N.leb_le; lia). apply N.ltb_lt. lia.
Qed.

Lemma zoom_block_c compress c img n inflate chroms ubuf ips fp rs s :
  n = Nlen img -> placed img s (zsec compress c (zpsec fp rs)) -> blk_mode c ubuf ->
  (c = true -> inflate_ok compress img inflate /\ Nlen (sd_bytes (zpsec fp rs)) <= ubuf) ->
  zsec_good ips rs -> Forall (zrec_good chroms) rs -> StronglySorted zrec_lt rs ->
  zoom_block img n false inflate true chroms ubuf ips (lf_of s) = Some (map (zr_view fp) rs).
Proof.
  intros Hn Hpl Hm Hc Hg1 Hg2 Hg3.
  pose proof (block_bytes_c compress c img n inflate ubuf s (zpsec fp rs) Hn Hpl Hm Hc) as Hb.
  destruct Hpl as (_ & _ & E1 & E2 & E3). destruct (zsec_spans compress c (zpsec fp rs)) as (Z1 & Z2 & Z3).
  rewrite Z1 in E1. rewrite Z2 in E2. rewrite Z3 in E3.
  exact (zoom_block_gen img n inflate chroms ubuf ips fp rs s Hb E1 E2 E3 Hg1 Hg2 Hg3).
Qed.

(* ---------- the sections of a level, placed ---------- *)
Definition zsecs (fp : fpmode) (rsecs : list (list zrec)) : list sdata := map (zpsec fp) rsecs.

Lemma zsec_bytes_len fp rs : Nlen (sd_bytes (zpsec fp rs)) = 32 * Nlen rs.
Proof. destruct rs; [reflexivity|]. cbn [zpsec sd_bytes]. unfold Nlen. rewrite zrecs_length. lia. Qed.

Section Level.
Variables (fp : fpmode) (chroms : list fchrom) (ips : N) (rsecs : list (list zrec)).
Variables (compress : list N -> list N) (c : bool) (ubuf : N).
Hypothesis Hsecs : Forall (zsec_good ips) rsecs.
Hypothesis Hgood : Forall (zrec_good chroms) (concat rsecs).
Hypothesis Hsorted : StronglySorted zrec_lt (concat rsecs).
Hypothesis Hcne : forall b, compress b <> [].

(* the sections as they are written: compressed when [c] *)
Definition wsecs : list sdata := map (zsec compress c) (zsecs fp rsecs).

Lemma lvl_in_concat rs r : In rs rsecs -> In r rs -> In r (concat rsecs).
Proof. intros H1 H2. apply in_concat. exists rs. split; assumption. Qed.

Lemma lvl_sec_sorted : forall rs, In rs rsecs -> StronglySorted zrec_lt rs.
Proof.
  clear Hsecs Hgood. revert Hsorted. induction rsecs as [|x l IH]; intros Hs rs Hin; [destruct Hin|].
  cbn [concat] in Hs. destruct Hin as [<-|Hin]; [eapply SSorted_app_inv_l; exact Hs|].
  apply IH; [eapply SSorted_app_r; exact Hs|exact Hin].
Qed.

Lemma lvl_blocks img n inflate : n = Nlen img -> blk_mode c ubuf ->
  (c = true -> inflate_ok compress img inflate /\ Forall (fun rs => 32 * Nlen rs <= ubuf) rsecs) ->
  forall ss, Forall2 (placed img) ss wsecs ->
  omap (zoom_block img n false inflate true chroms ubuf ips) (map lf_of ss) = Some (map (map (zr_view fp)) rsecs).
Proof.
  intros -> Hm Hc. set (n := Nlen img). assert (Hn : n = Nlen img) by reflexivity. clearbody n.
  assert (G : forall l ss, (forall rs, In rs l -> In rs rsecs) -> Forall2 (placed img) ss (map (zsec compress c) (zsecs fp l)) ->
              omap (zoom_block img n false inflate true chroms ubuf ips) (map lf_of ss) = Some (map (map (zr_view fp)) l)).
  { induction l as [|rs l IH]; intros ss Hsub HF; inversion HF as [|s d ss' ds' Hsd HF' E1 E2]; subst ss; [reflexivity|].
    cbn [map omap]. rewrite Forall_forall in Hsecs, Hgood.
    rewrite (zoom_block_c compress c img n inflate chroms ubuf ips fp rs s Hn Hsd Hm).
    - cbn [obind]. rewrite (IH ss' (fun x Hx => Hsub x (or_intror Hx)) HF'). reflexivity.
    - intros Ec. destruct (Hc Ec) as [Hi Hu]. split; [exact Hi|]. rewrite zsec_bytes_len.
      rewrite Forall_forall in Hu. apply Hu. apply Hsub. now left.
    - exact (Hsecs rs (Hsub rs (or_introl eq_refl))).
    - apply Forall_forall. intros r Hr. apply Hgood. eapply lvl_in_concat; [apply Hsub; now left|exact Hr].
    - apply lvl_sec_sorted. apply Hsub. now left. }
  intros ss. apply G. auto.
Qed.

Lemma wsec_size rs : rs <> [] -> 1 <= Nlen (sd_bytes (zsec compress c (zpsec fp rs))).
Proof.
  intros Hne. destruct c; cbn [zsec sd_bytes].
  - specialize (Hcne (sd_bytes (zpsec fp rs))). destruct (compress _); [congruence|]. rewrite Nlen_cons. lia.
  - rewrite zsec_bytes_len. destruct rs; [congruence|]. rewrite Nlen_cons. lia.
Qed.

(* spans of the placed sections *)
Lemma lvl_sect_facts pos : Forall (fun s => s_start s <= s_end s /\ 1 <= s_size s /\ s_chrom s < U32 /\ s_start s < U32 /\ s_end s < U32)
                                  (place pos wsecs).
Proof.
  assert (G : forall l pos, (forall rs, In rs l -> In rs rsecs) ->
     Forall (fun s => s_start s <= s_end s /\ 1 <= s_size s /\ s_chrom s < U32 /\ s_start s < U32 /\ s_end s < U32)
            (place pos (map (zsec compress c) (zsecs fp l)))).
  { induction l as [|rs l IH]; intros p Hsub; [constructor|]. cbn [zsecs map place]. constructor.
    - cbn [s_start s_end s_size s_chrom]. destruct (zsec_spans compress c (zpsec fp rs)) as (-> & -> & ->).
      pose proof (Hsub rs (or_introl eq_refl)) as Hin. rewrite Forall_forall in Hsecs. destruct (Hsecs rs Hin) as (Hne & _ & Hsame).
      pose proof (wsec_size rs Hne) as Hsz.
      destruct rs as [|f r] eqn:Er; [congruence|]. rewrite <- Er in *.
      assert (Hf : In f rs) by (subst rs; now left).
      assert (Hl : In (last rs f) rs) by (apply last_in; exact Hne).
      rewrite Forall_forall in Hgood.
      destruct (Hgood f (lvl_in_concat rs f Hin Hf)) as ((C1 & C2 & C3 & _) & P1 & _).
      destruct (Hgood _ (lvl_in_concat rs _ Hin Hl)) as ((_ & _ & L3 & _) & _).
      assert (Hpos : Forall (fun x => z_start x < z_end x) rs).
      { apply Forall_forall. intros x Hx. now destruct (Hgood x (lvl_in_concat rs x Hin Hx)) as (_ & H & _). }
      assert (Hsame' : forall x, In x r -> z_chrom x = z_chrom f).
      { intros x Hx. apply (Hsame f x); [subst rs; now right|subst rs; reflexivity]. }
      pose proof (lvl_sec_sorted rs Hin) as Hso. subst rs.
      pose proof (sorted_last_end r f Hso Hpos Hsame' f (or_introl eq_refl)) as Hle.
      repeat split; try exact Hsz; unfold zpsec; cbn [sd_start sd_end sd_chrom]; unfold U32, W32 in *; lia.
    - apply IH. intros x Hx. apply Hsub. now right. }
  apply G. auto.
Qed.

(* the first records of later sections are later records: the placed sections are sorted *)
Lemma lvl_sorted pos : sorted_starts (map sect_span (place pos wsecs)).
Proof.
  rewrite place_spans. unfold wsecs, zsecs. rewrite !map_map. unfold sorted_starts.
  assert (G : forall l, (forall rs, In rs l -> In rs rsecs) -> StronglySorted zrec_lt (concat l) ->
     StronglySorted start_le (map (fun rs => {| sc := sd_chrom (zsec compress c (zpsec fp rs)); sb := sd_start (zsec compress c (zpsec fp rs));
                                                 ec := sd_chrom (zsec compress c (zpsec fp rs)); eb := sd_end (zsec compress c (zpsec fp rs)) |}) l)).
  { induction l as [|rs l IH]; intros Hsub Hs; [constructor|]. cbn [map concat] in *. constructor.
    - apply IH; [intros x Hx; apply Hsub; now right|eapply SSorted_app_r; exact Hs].
    - rewrite Forall_map. apply Forall_forall. intros rs' Hrs'.
      rewrite Forall_forall in Hsecs.
      destruct (Hsecs rs (Hsub rs (or_introl eq_refl))) as (Hne & _). destruct (Hsecs rs' (Hsub rs' (or_intror Hrs'))) as (Hne' & _).
      destruct (zsec_spans compress c (zpsec fp rs)) as (-> & -> & _). destruct (zsec_spans compress c (zpsec fp rs')) as (-> & -> & _).
      destruct rs as [|f r]; [congruence|]. destruct rs' as [|f' r']; [congruence|].
      unfold start_le, ple. cbn [zpsec sd_chrom sd_start sc sb].
      assert (Hlt : zrec_lt f f').
      { apply (SSorted_app_cross zrec_lt (f :: r) (concat l) f f' Hs); [now left|]. apply in_concat. exists (f' :: r'). split; [exact Hrs'|now left]. }
      rewrite Forall_forall in Hgood.
      destruct (Hgood f (lvl_in_concat (f :: r) f (Hsub _ (or_introl eq_refl)) (or_introl eq_refl))) as (_ & Hp & _).
      destruct Hlt as [H|[H1 H2]]; [left; exact H|right; split; [exact H1|lia]]. }
  apply G; [auto|exact Hsorted].
Qed.

Lemma lvl_recs_order : adjacent zrec_order (map (zr_view fp) (concat rsecs)) = true.
Proof.
  clear Hsecs Hgood Hcne. revert Hsorted. generalize (concat rsecs). intros l0 Hs0.
  induction Hs0 as [|x l Hs IH Hf]; [reflexivity|]. cbn [map]. destruct l as [|y l]; [reflexivity|].
  cbn [map] in *. rewrite adjacent_cons, IH, andb_true_r. apply Forall_inv in Hf.
  unfold zrec_order. cbn [zr_view zr_chrom zr_end zr_start].
  destruct Hf as [H|[H1 H2]].
  - replace (z_chrom x <? z_chrom y) with true; [reflexivity|]. symmetry. now apply N.ltb_lt.
  - rewrite H1, N.eqb_refl. replace (z_end x <=? z_start y) with true; [now rewrite orb_true_r|]. symmetry. now apply N.leb_le.
Qed.
End Level.

(* ---------- the empty index (a level without any record) ---------- *)
Lemma write_index_empty b ips pos : b <> 0 ->
  write_index b ips pos [] = Ok (index_header b ips 0 zero_span pos ++ leaf_bytes [], 0%nat).
Proof.
  intros Hb. unfold write_index, build. destruct (N.to_nat b) eqn:E; [lia|]. cbn [chunks chunks_fuel length map build_loop rbind].
  unfold rtree_bytes. cbn [write_levels write_tree Nat.ltb Nat.leb Nat.eqb negb rbind span_of map hull]. reflexivity.
Qed.

Lemma parse_index_empty img n off lo hi b ips :
  has_at img off (index_header b ips 0 zero_span off ++ leaf_bytes []) -> n = Nlen img ->
  1 <= b < W32 -> 1 <= ips < W32 -> off < W64 ->
  parse_index img n false off lo hi
  = Some ({| ih_block := b; ih_count := 0; ih_span := fsp zero_span; ih_endoff := off; ih_ips := ips; ih_reserved := 0 |}, [], off + 52).
Proof.
  intros Hat Hn Hb Hi Ho. apply has_at_app in Hat as [Hh Hl].
  assert (Hhl : Nlen (index_header b ips 0 zero_span off) = 48) by (unfold Nlen; now rewrite RTreeLayout.index_header_length).
  rewrite Hhl in Hl. unfold parse_index.
  rewrite (parse_index_hdr_ok img n off b ips 0 zero_span off Hh Hn) by (unfold W32, W64 in *; try lia; apply RTreeShape.zero_span_ok).
  cbn [obind ih_block ih_ips ih_count ih_span].
  pose proof (has_at_bound img _ _ Hl) as Hbd. rewrite <- Hn in Hbd. change (Nlen (leaf_bytes [])) with 4 in Hbd.
  rewrite check_true by (rewrite !andb_true_iff; repeat split; apply N.leb_le; lia).
  cbn [rt_walk].
  rewrite (bytes_at_has_w img n (off + 48) (leaf_bytes []) 4 Hl Hn eq_refl). cbn [obind].
  change (dec false (skipn 2 (leaf_bytes []))) with 0. change (nth 0 (leaf_bytes []) 0) with 1.
  rewrite check_true by (apply N.leb_le; lia). change (1 =? 1) with true. cbv iota.
  change (0 * 32) with 0.
  assert (Hz : bytes_at img n (off + 48 + 4) 0 = Some []).
  { unfold bytes_at. replace (off + 48 + 4 + 0 <=? n) with true by (symmetry; apply N.leb_le; lia). apply slice_zero. }
  rewrite Hz. cbn [obind parse_rt_leaf N.to_nat forallb]. rewrite check_true by reflexivity.
  assert (Hq : 13 <= n / 4) by (apply N.div_le_lower_bound; lia).
  cbn [rev_append]. destruct (N.to_nat (n / 4)) eqn:Eq; [exfalso; lia|]. cbn [rt_walk rev]. cbn [obind Nlen length N.of_nat].
  rewrite ?check_true by reflexivity. cbn [forallb adjacent obind]. f_equal. f_equal. lia.
Qed.

(* ---------- one zoom level, data + index ---------- *)
Lemma zoom_level_ok img n inflate fp chroms b ips rsecs compress c ubuf res pos ix lv :
  n = Nlen img -> n < W64 -> 2 <= b <= 65535 -> 1 <= ips <= 65535 ->
  Forall (zsec_good ips) rsecs -> Forall (zrec_good chroms) (concat rsecs) -> StronglySorted zrec_lt (concat rsecs) ->
  (forall x, compress x <> []) -> blk_mode c ubuf ->
  (c = true -> inflate_ok compress img inflate /\ Forall (fun rs => 32 * Nlen rs <= ubuf) rsecs) ->
  let secs := wsecs fp rsecs compress c in
  has_at img pos (data_bytes secs) ->
  write_index b ips (pos + Nlen (data_bytes secs)) (place pos secs) = Ok (ix, lv) ->
  has_at img (pos + Nlen (data_bytes secs)) ix ->
  exists e, zoom_level img n false inflate true chroms ubuf
              {| fz_level := res; fz_reserved := 0; fz_data := pos; fz_index := pos + Nlen (data_bytes secs) |}
            = Some (res, map (zr_view fp) (concat rsecs), (pos, pos + Nlen (data_bytes secs)),
                    (pos + Nlen (data_bytes secs), e))
    /\ pos + Nlen (data_bytes secs) + 48 <= e <= pos + Nlen (data_bytes secs) + Nlen ix.
Proof.
  intros Hn Hn64 Hb Hi Hsecs Hgood Hsorted Hcne Hm Hc secs Hdat Hix Hixat.
  set (zsize := Nlen (data_bytes secs)) in *.
  unfold zoom_level. cbn [fz_reserved fz_data fz_index fz_level].
  rewrite check_true by (rewrite N.eqb_refl; cbn [andb]; apply N.leb_le; lia).
  pose proof (has_at_bound img _ _ Hixat) as Hixb. rewrite <- Hn in Hixb.
  assert (Hcase : rsecs = [] \/ rsecs <> []) by (destruct rsecs; [now left|right; discriminate]).
  destruct Hcase as [Er|Er].
  - (* a level without records *)
    subst rsecs. cbn in secs. subst secs. cbn in zsize. subst zsize. cbn [place] in Hix.
    rewrite write_index_empty in Hix by lia. apply Ok_inj in Hix. pose proof (f_equal fst Hix) as E1. cbn [fst] in E1. subst ix. clear Hix.
    rewrite (parse_index_empty img n (pos + 0) pos (pos + 0) b ips Hixat Hn) by (unfold W32, W64 in *; lia).
    cbn [obind omap concat map adjacent]. rewrite check_true by reflexivity.
    eexists. split; [reflexivity|]. unfold Nlen. rewrite app_length, RTreeLayout.index_header_length. cbn [leaf_bytes length u8 u16 enc_le app flat_map]. lia.
  - assert (Hne : secs <> []).
    { unfold secs, wsecs, zsecs. intros E. apply map_eq_nil in E. apply map_eq_nil in E. contradiction. }
    pose proof (lvl_sect_facts fp chroms ips rsecs compress c Hsecs Hgood Hsorted Hcne pos) as Hfacts. fold secs in Hfacts.
    pose proof (place_bounds secs pos) as Hbounds. fold zsize in Hbounds.
    destruct (parse_index_ok img n (pos + zsize) pos (pos + zsize) b ips (place pos secs) ix lv Hix Hixat Hn Hn64 Hb
                ltac:(unfold W32; lia)) as (h & e & Hparse & _ & Hips & _ & He).
    + intros E. apply place_nil_iff in E. exact (Hne E).
    + exact (lvl_sorted fp chroms ips rsecs compress c Hsecs Hgood Hsorted pos).
    + apply Forall_forall. intros s Hs. rewrite Forall_forall in Hfacts, Hbounds.
      destruct (Hfacts s Hs) as (_ & _ & F1 & F2 & F3). destruct (Hbounds s Hs) as [B1 B2].
      unfold sect_ok. unfold U64, W64 in *. repeat split; try assumption; lia.
    + rewrite place_Nlen. assert (Nlen secs <= zsize); [|lia]. apply (place_count secs pos).
      eapply Forall_impl; [|exact Hfacts]. now intros s (_ & H & _).
    + apply Forall_forall. intros s Hs. rewrite Forall_forall in Hfacts, Hbounds.
      destruct (Hfacts s Hs) as (F0 & F1 & _). destruct (Hbounds s Hs) as [B1 B2]. repeat split; assumption.
    + apply place_offs_chain.
    + rewrite Hparse. cbn [obind]. rewrite Hips.
      rewrite (lvl_blocks fp chroms ips rsecs compress c ubuf Hsecs Hgood Hsorted img n inflate Hn Hm Hc (place pos secs) (place_placed img secs pos Hdat)).
      cbn [obind]. rewrite concat_map_map.
      rewrite check_true by (exact (lvl_recs_order fp rsecs Hsorted)).
      exists e. split; [reflexivity|exact He].
Qed.
