(* C09, bigBed, compressed files, part 1: the file [bb_write_gen_z] lays out (Model/BigBedWriteZ.v: data and zoom
   blocks through a block compressor, uncompress_buf_size in the header) is accepted by the independent
   decoder, given an inflate oracle that inverts the compressor on the byte ranges of the file holding a
   compressed block.  This is Proofs/C09BedFile.v's Section BedWhole with the block store of
   Proofs/C09File.v's WholeFile ([cz]: are the blocks compressed; [ubuf]: the advertised size):
   the uncompressed theorem is the instance cz = false.  One hypothesis is new: the item count (a u64 header
   field) is no longer bounded by the file size when blocks are compressed, so it is asked to fit. *)
From Coq Require Import Sorting.Sorted.
From BT Require Import Base.Util Base.LE Base.Float Generated.Consts Model.RTree Model.BBIFile Model.BigWigWrite Model.BigWigWriteZ
  Model.BigBedWrite Model.BigBedWriteZ Proofs.Chunks Proofs.RTreeAbs Proofs.RTreeBuild Proofs.RTreeCodec Proofs.FileRegions Proofs.RTreeShape
  Spec.FormatDecode Proofs.C09Base Proofs.C09Codec Proofs.C09Chrom Proofs.C09RTree Proofs.C09Data Proofs.C09File Proofs.C09BedBlock Proofs.ZoomBwLevels
  Proofs.C09BedFile.
From BT Require Proofs.BedQuery Proofs.BedCodec Proofs.BedImage Proofs.BedAssemble Proofs.BedReadInfo Proofs.BedEndToEnd Proofs.C08FileRead Proofs.BedFileZ.
From BT Require Model.AutoSql Proofs.BigWigFileRoundTrip.
Local Open Scope N_scope.
Notation opts_ok := BigWigFileRoundTrip.opts_ok.

(* ---------- one data block that went through the block store ---------- *)
Lemma bed_block_c compress c img n inflate chroms ubuf ips (g : N * list entry) s len :
  n = Nlen img -> placed img s (zsec compress c (BedImage.sd_of g)) -> blk_mode c ubuf ->
  (c = true -> inflate_ok compress img inflate /\ Nlen (sd_bytes (BedImage.sd_of g)) <= ubuf) ->
  snd g <> [] -> fst g < W32 -> Forall bentry_ok (snd g) ->
  BedQuery.starts_sorted (snd g) -> Forall (fun x => e_start x <= e_end x /\ e_start x < len) (snd g) ->
  chrom_size chroms (fst g) = Some len -> Nlen (snd g) <= ips ->
  data_block img n false inflate false chroms ubuf ips (lf_of s) = Some (map (brec_of (fst g)) (snd g)).
Proof.
  intros Hn Hpl Hm Hc Hne Hid Hok Hsorted Hwf Hcs Hips.
  pose proof (block_bytes_c compress c img n inflate ubuf s (BedImage.sd_of g) Hn Hpl Hm Hc) as Hb.
  destruct Hpl as (_ & _ & Ec & Es & Ee).
  destruct (zsec_spans compress c (BedImage.sd_of g)) as (Z1 & Z2 & Z3). rewrite Z1 in Ec. rewrite Z2 in Es. rewrite Z3 in Ee.
  rewrite BedImage.sd_of_chrom in Ec. rewrite BedImage.sd_of_bytes in Hb.
  destruct g as [id items]. cbn [fst snd] in *. destruct items as [|f r] eqn:Ei; [congruence|]. rewrite <- Ei in *.
  assert (Est : s_start s = e_start f) by (rewrite Es, Ei; reflexivity).
  assert (Een : s_end s = max_end f r) by (rewrite Ee, Ei; reflexivity).
  unfold data_block. rewrite Hb. cbn [obind].
  cbn [lf_of fl_off fl_size fl_span fsp p_sc p_sb p_eb sect_span sc sb eb].
  rewrite Ec, Hcs. cbn [obind].
  rewrite (parse_bed_items_ok id Hid items _ Hok (Nat.le_refl _)). cbn [obind].
  rewrite check_true by (rewrite Ei; reflexivity).
  rewrite check_true by (apply N.leb_le; unfold Nlen; rewrite map_length; exact Hips).
  rewrite check_true; [reflexivity|].
  apply forallb_forall. intros y Hy. apply in_map_iff in Hy as [x [<- Hx]]. cbn [brec_of fr_chrom fr_start fr_end].
  rewrite N.eqb_refl, Est, Een. cbn [andb].
  rewrite Ei in Hx, Hsorted, Hwf.
  pose proof (BedQuery.sorted_first_start f r x Hsorted Hx) as H1.
  pose proof (BedQuery.max_end_ge f r x Hx) as H2.
  rewrite Forall_forall in Hwf. pose proof (Hwf x Hx) as H3.
  destruct H3 as [H3 H4].
  rewrite !andb_true_iff. repeat split; apply N.leb_le; lia.
Qed.

(* ---------- the written file, described by its parts (blocks possibly compressed) ---------- *)
Definition bed_zassembled (sum : summary) (o : opts) (sizes : list (name * N)) (compress : list N -> list N) (cz : bool) (ubuf : N)
           (bs : list N) (p : bed_parts) : Prop :=
  let wdata := map (zsec compress cz) (bp_data o p) in
  let P := bp_P p in
  let ds := Nlen (data_bytes wdata) in
  chrom_tree_bytes sizes (bp_ids p) = Ok (bp_ct p)
  /\ write_index (o_bs o) (o_ips o) (P + ds + Nlen (bp_ct p)) (place P wdata) = Ok (bp_ix p, bp_lv p)
  /\ bs = bp_pre p ++ data_bytes wdata ++ bp_ct p ++ bp_ix p ++ bp_zbytes p ++ u32 BIGBED_MAGIC
  /\ Nlen (bp_pre p) = P
  /\ has_at (bp_pre p) 0
       (header_bytes BIGBED_MAGIC (Nlen (bp_zhdrs p)) (P + ds) (P - 8) (P + ds + Nlen (bp_ct p)) (bp_fc p) (bp_fc p) 304 (P - 48) ubuf
        ++ flat_map zoom_header_bytes (bp_zhdrs p))
  /\ has_at (bp_pre p) (P - 48) (summary_bytes sum)
  /\ has_at (bp_pre p) (P - 8) (u64 (bb_total_items (bp_outs p)))
  /\ has_at (bp_pre p) 304 (bp_sql p ++ [0]).

(* bb_write_gen_z inverted (cf. C09BedFile.bb_write_gen_inv; the layout is BedFileZ.assemble_z_layout) *)
Lemma bb_write_gen_z_inv compress cz sweep zoom_part o sizes autosql input bs :
  bb_write_gen_z compress cz sweep zoom_part o sizes autosql input = Ok bs ->
  (forall outs sum a b zb zh zu, zoom_part outs sum a b = Ok (zb, zh, zu) -> (length zh <= 10)%nat) ->
  exists p zu,
    2 <= o_bs o /\ 1 <= o_ips o
    /\ bb_schema autosql = Ok (bp_sql p, bp_fc p)
    /\ bb_collect o sizes input = Ok (bp_ids p, bp_outs p)
    /\ zoom_part (bp_outs p) (sweep (bp_outs p)) (Nlen (data_bytes (map (zsec compress cz) (bp_data o p))))
         (bp_P p + Nlen (data_bytes (map (zsec compress cz) (bp_data o p))) + Nlen (bp_ct p) + Nlen (bp_ix p)) = Ok (bp_zbytes p, bp_zhdrs p, zu)
    /\ bed_zassembled (sweep (bp_outs p)) o sizes compress cz (N.max (ubuf_of cz (bp_data o p)) zu) bs p.
Proof.
  intros Hw Hfit. unfold bb_write_gen_z in Hw.
  destruct ((o_bs o <? 2) || (o_ips o <? 1)) eqn:Eopt; [discriminate|].
  apply orb_false_iff in Eopt as [Eopt Eips]. apply N.ltb_ge in Eopt. apply N.ltb_ge in Eips.
  destruct (bb_schema autosql) as [[sql fc]| | |] eqn:Esch; cbn [rbind] in Hw; try discriminate.
  destruct (bb_collect o sizes input) as [[ids outs]| | |] eqn:Ecol; cbn [rbind] in Hw; try discriminate.
  rewrite BedEndToEnd.bb_data_sections in Hw. cbn [rbind] in Hw.
  destruct (BedFileZ.assemble_z_layout _ _ _ _ _ _ _ _ _ _ _ _ _ _ Hw) as [ct [ix [lv [zbytes [zhdrs [zu [Hct [Hix [Hz Hlay]]]]]]]]].
  pose proof (bb_pre_Nlen sql) as HP.
  assert (Lpre : length (bb_pre sql) = (353 + length sql)%nat) by (unfold Nlen in HP; lia).
  pose proof (Hfit _ _ _ _ _ _ _ Hz) as Hzl.
  destruct (Hlay ltac:(lia) ltac:(lia)) as [pre' [Lpre' [Hf [Hhdr [Hsum [Hcnt Hkeep]]]]]]. clear Hlay.
  exists {| bp_sql := sql; bp_fc := fc; bp_ids := ids; bp_outs := outs; bp_pre := pre'; bp_ct := ct; bp_ix := ix; bp_lv := lv;
            bp_zbytes := zbytes; bp_zhdrs := zhdrs |}, zu.
  unfold bed_zassembled, bp_data, bp_gs, bp_P.
  cbn [bp_sql bp_fc bp_ids bp_outs bp_pre bp_ct bp_ix bp_lv bp_zbytes bp_zhdrs]. cbv zeta.
  rewrite HP in *. unfold BedFileZ.hdr_of_z in Hhdr. rewrite HP, asql_offset_304 in Hhdr.
  split; [exact Eopt|]. split; [exact Eips|]. split; [reflexivity|]. split; [reflexivity|]. split; [exact Hz|].
  split; [exact Hct|]. split; [exact Hix|]. split; [exact Hf|].
  split; [unfold Nlen in *; lia|]. split; [exact Hhdr|]. split; [exact Hsum|]. split; [exact Hcnt|].
  apply Hkeep.
  - unfold bb_pre. exists blank_headers, (repeatN 0 40 ++ u64 0). split; [now rewrite <- !app_assoc|].
    now rewrite BedAssemble.blank_headers_length.
  - change (N.to_nat 304) with 304%nat. lia.
  - change (N.to_nat 304) with 304%nat. rewrite app_length. cbn [length]. lia.
Qed.

Section BedWholeZ.
Variables (o : opts) (sizes : list (name * N)) (input : list bitem) (sum : summary).
Variables (bs : list N) (p : bed_parts).
Variables (strict : bool) (inflate : N -> N -> option (list N)).
(* blocks: compressed with [compress] when [cz]; [ubuf] is the advertised buffer size *)
Variables (compress : list N -> list N) (cz : bool) (ubuf : N).
Hypothesis Hcol : bb_collect o sizes input = Ok (bp_ids p, bp_outs p).
Hypothesis HA : bed_zassembled sum o sizes compress cz ubuf bs p.
Hypothesis Hmode : blk_mode cz ubuf.
Hypothesis Hubuf : ubuf < W32.
Hypothesis Hcne : forall b, compress b <> [].
Hypothesis Hinf : cz = true -> inflate_ok compress bs inflate /\ Forall (fun d => Nlen (sd_bytes d) <= ubuf) (bp_data o p).
Hypothesis Hitems : bb_total_items (bp_outs p) < W64.
Hypothesis Hsql : Forall (fun b => b <> 0) (bp_sql p).
Hypothesis Hfc : bp_fc p < W16.
Hypothesis Hopts : opts_ok o.
Hypothesis Hinp : bed_input_ok input.
Hypothesis Hnchr : Nlen (bruns input) < W16.
Hypothesis Hsizes : Forall (fun s : name * N => snd s < W32) sizes.
Hypothesis Hsize : Nlen bs < W64.
Hypothesis Hstrict : strict = true -> names_increasing (map fst (bruns input)).

Let n := Nlen bs.
Let ids := bp_ids p.
Let outs := bp_outs p.
Let sql := bp_sql p.
Let fc := bp_fc p.
Let gs := bp_gs o p.
Let data := bp_data o p.
Let wdata := map (zsec compress cz) data.
Let P := bp_P p.
Let ds := Nlen (data_bytes wdata).
Let ctl := Nlen (bp_ct p).
Let ixl := Nlen (bp_ix p).
Let zpos := P + ds + ctl + ixl.
Let chroms := map (chrom_view sizes) ids.
Let secs := place P wdata.
Let zhdrs := bp_zhdrs p.

(* the zoom part as the decoder sees it *)
Variable zl : list zoom_entry.
Hypothesis Hz_hdrs : Forall zh_ok zhdrs.
Hypothesis Hz_count : Nlen zhdrs <= 10.
Hypothesis Hz_levels : inc_from 0 (map zh_res zhdrs).
Hypothesis Hz_decode : omap (zoom_level bs n false inflate false chroms ubuf) (map zh_view zhdrs) = Some zl.
Hypothesis Hz_regions : reg_chain zpos (zoom_regions zl) /\ chain_end zpos (zoom_regions zl) <= n - 4.

Lemma bfz_P : P = 353 + Nlen sql.
Proof. reflexivity. Qed.

Lemma bfz_len : n = P + ds + ctl + ixl + Nlen (bp_zbytes p) + 4.
Proof.
  destruct HA as (_ & _ & E & L & _). unfold n. rewrite E, !Nlen_app. fold data wdata ds ctl ixl P in L |- *. rewrite L.
  change (Nlen (u32 BIGBED_MAGIC)) with 4. lia.
Qed.

Lemma bfz_in_pre off x : has_at (bp_pre p) off x -> has_at bs off x.
Proof.
  intros H. destruct HA as (_ & _ & -> & _). now apply has_at_app_r.
Qed.
Lemma bfz_data : has_at bs P (data_bytes wdata).
Proof. destruct HA as (_ & _ & -> & L & _). apply has_at_intro; exact L. Qed.
Lemma bfz_ct : has_at bs (P + ds) (bp_ct p).
Proof.
  destruct HA as (_ & _ & -> & L & _). rewrite (app_assoc (bp_pre p)). apply has_at_intro. rewrite Nlen_app, L. reflexivity.
Qed.
Lemma bfz_ix : has_at bs (P + ds + ctl) (bp_ix p).
Proof.
  destruct HA as (_ & _ & -> & L & _). rewrite (app_assoc (bp_pre p)), (app_assoc (bp_pre p ++ _)).
  apply has_at_intro. rewrite !Nlen_app, L. reflexivity.
Qed.
Lemma bfz_magic_at : has_at bs (n - 4) (u32 BIGBED_MAGIC).
Proof.
  pose proof bfz_len as L. destruct HA as (_ & _ & E & Lp & _).
  exists (bp_pre p ++ data_bytes wdata ++ bp_ct p ++ bp_ix p ++ bp_zbytes p), []. split.
  - rewrite app_nil_r, E, <- !app_assoc. reflexivity.
  - unfold Nlen in *. rewrite !app_length. fold data wdata in Lp |- *. unfold ds, ctl, ixl, Nlen in L. lia.
Qed.
Lemma bfz_placed : Forall2 (placed bs) secs wdata.
Proof. apply place_placed. exact bfz_data. Qed.

(* ---------- the accepted input ---------- *)
Lemma bfz_facts :
  map (fun c => (bc_name c, bc_entries c)) outs = bruns input
  /\ ids = combine (map fst (bruns input)) (FormatDecode.seqN 0 (length (bruns input)))
  /\ map bc_id outs = FormatDecode.seqN 0 (length (bruns input))
  /\ NoDup (map fst (bruns input))
  /\ Forall (fun c => lookup (bc_name c) sizes = Some (bc_len c) /\ BedQuery.wf_entries (bc_len c) (bc_entries c)) outs
  /\ bb_total_items outs = Nlen input
  /\ bruns input <> [].
Proof. exact (collect_facts _ _ _ _ _ Hcol). Qed.

Lemma bfz_ids_fst : map fst ids = map fst (bruns input).
Proof. exact (collect_ids_fst _ _ _ _ _ Hcol). Qed.
Lemma bfz_ids_snd : map snd ids = FormatDecode.seqN 0 (length ids).
Proof. exact (collect_ids_snd _ _ _ _ _ Hcol). Qed.
Lemma bfz_ids_len : length ids = length (bruns input).
Proof. exact (collect_ids_len _ _ _ _ _ Hcol). Qed.

Lemma bfz_name_in c : In c (map fst (bruns input)) -> exists x, In (c, x) input.
Proof.
  intros H. apply in_map_iff in H as [[c' es] [E Hr]]. cbn [fst] in E. subst c'.
  pose proof (BedEndToEnd.bruns_nonempty _ _ _ Hr) as Hne. destruct es as [|x es]; [congruence|].
  exists x. eapply run_entry_in_input; [exact Hr|now left].
Qed.

Lemma bfz_names_ok : Forall (fun c : name * N => name_ok (fst c) /\ Nlen (fst c) < W32 /\ size_of sizes c < W32) ids.
Proof.
  apply Forall_forall. intros [k id] Hk. cbn [fst].
  assert (Hkin : In k (map fst (bruns input))) by (rewrite <- bfz_ids_fst; change k with (fst (k, id)); apply in_map; exact Hk).
  destruct (bfz_name_in k Hkin) as [x Hx]. unfold bed_input_ok in Hinp. rewrite Forall_forall in Hinp.
  destruct (Hinp _ Hx) as (H1 & H2 & _). cbn [fst] in H1, H2. split; [exact H1|]. split; [exact H2|].
  unfold size_of. cbn [fst]. destruct (lookup k sizes) as [len|] eqn:El; [|unfold W32; lia].
  destruct (BedEndToEnd.lookup_in _ _ _ El) as [k2 Hk2]. rewrite Forall_forall in Hsizes. exact (Hsizes (k2, len) Hk2).
Qed.

Lemma bfz_chrom_tree : parse_chrom_tree bs n false strict (P + ds) = Some (chroms, P + ds + ctl).
Proof.
  destruct HA as (Hct & _). pose proof bfz_ct as Hat.
  destruct (parse_chrom_tree_ok bs n (P + ds) sizes ids (bp_ct p) strict Hct Hat eq_refl) as [H _].
  - destruct bfz_facts as (_ & _ & _ & _ & _ & _ & Hne). intros E. apply Hne.
    pose proof bfz_ids_len as L. rewrite E in L. destruct (bruns input); [reflexivity|discriminate].
  - unfold Nlen. rewrite bfz_ids_len. exact Hnchr.
  - exact bfz_names_ok.
  - exact bfz_ids_snd.
  - intros Hs. rewrite bfz_ids_fst. exact (Hstrict Hs).
  - exact H.
Qed.

(* each chromosome the writer processed *)
Lemma bfz_out_facts c : In c outs ->
  BedQuery.wf_entries (bc_len c) (bc_entries c) /\ chrom_size chroms (bc_id c) = Some (bc_len c) /\ bc_id c < W16
  /\ Forall bentry_ok (bc_entries c).
Proof. intros Hc. destruct (collect_out_facts _ _ _ _ _ Hcol Hinp Hnchr c Hc) as (A & B & C & D & _). auto. Qed.

Lemma bfz_ips : 1 <= o_ips o <= 65535.
Proof. destruct Hopts as (_ & H). exact H. Qed.

(* each section with its chromosome *)
Lemma bfz_gsec g : In g gs -> exists c, In c outs /\ fst g = bc_id c /\ In (snd g) (chunks (N.to_nat (o_ips o)) (bc_entries c)).
Proof.
  intros Hg. unfold gs, bp_gs, BedImage.gsecs in Hg. apply in_flat_map in Hg as [g2 [Hg2 Hg]].
  apply in_map_iff in Hg as [ch [<- Hch]]. unfold BedEndToEnd.groups_of in Hg2. apply in_map_iff in Hg2 as [c [<- Hc]].
  cbn [fst snd] in *. rewrite BedQuery.sections_are_chunks, slot_ips in Hch by (apply bfz_ips).
  exists c. split; [exact Hc|]. split; [reflexivity|exact Hch].
Qed.

Lemma bfz_gsec_facts g : In g gs -> exists len,
  snd g <> [] /\ fst g < W16 /\ Forall bentry_ok (snd g) /\ BedQuery.starts_sorted (snd g)
  /\ Forall (fun x => e_start x <= e_end x /\ e_start x < len) (snd g)
  /\ chrom_size chroms (fst g) = Some len /\ Nlen (snd g) <= o_ips o.
Proof.
  intros Hg. destruct (bfz_gsec g Hg) as (c & Hc & E & Hch). destruct (bfz_out_facts c Hc) as (Hwf & Hcs & Hid & Hok).
  pose proof bfz_ips as Hi. assert (Hb : (0 < N.to_nat (o_ips o))%nat) by lia.
  pose proof (chunks_concat (N.to_nat (o_ips o)) (bc_entries c) Hb) as Hcat.
  exists (bc_len c). rewrite E. split; [|split; [exact Hid|split; [|split; [|split; [|split; [exact Hcs|]]]]]].
  - pose proof (chunks_nonempty (N.to_nat (o_ips o)) (bc_entries c) Hb) as Hn. rewrite Forall_forall in Hn. exact (Hn _ Hch).
  - rewrite <- Hcat in Hok. apply Forall_concat in Hok. rewrite Forall_forall in Hok. exact (Hok _ Hch).
  - apply (sorted_chunk_of (chunks (N.to_nat (o_ips o)) (bc_entries c))); [exact Hch|]. rewrite Hcat. eapply BedQuery.wfe_sorted. exact Hwf.
  - pose proof (wfe_all _ _ Hwf) as Hall. rewrite <- Hcat in Hall. apply Forall_concat in Hall. rewrite Forall_forall in Hall. exact (Hall _ Hch).
  - pose proof (chunks_len_bound (N.to_nat (o_ips o)) (bc_entries c) (snd g) Hb Hch). unfold Nlen. lia.
Qed.

(* ---------- the main index ---------- *)
Lemma bfz_gs_ne : gs <> [].
Proof.
  destruct bfz_facts as (Hruns & _ & _ & _ & _ & _ & Hne).
  fold outs in Hruns. destruct outs as [|c outs'] eqn:Eo; [cbn [map] in Hruns; congruence|].
  assert (Hr : In (bc_name c, bc_entries c) (bruns input)) by (rewrite <- Hruns; now left).
  pose proof (BedEndToEnd.bruns_nonempty _ _ _ Hr) as Hes.
  unfold gs, bp_gs. fold outs. rewrite Eo.
  apply (BedEndToEnd.gsecs_nonempty (o_ips o) _ (bc_id c) (bc_entries c)); [now left|exact Hes].
Qed.
Lemma bfz_data_ne : wdata <> [].
Proof. unfold wdata, data, bp_data. fold gs. intros E. apply map_eq_nil in E. apply map_eq_nil in E. exact (bfz_gs_ne E). Qed.

Lemma bfz_spans : map sect_span secs = map BedEndToEnd.gspan gs.
Proof. unfold secs, wdata, data, bp_data. fold gs. apply BedFileZ.place_spans_z. Qed.

Lemma bfz_secs_sorted : sorted_starts (map sect_span secs).
Proof.
  rewrite bfz_spans. unfold gs, bp_gs. destruct bfz_facts as (_ & _ & Hbcids & _).
  apply BedEndToEnd.gsecs_sorted.
  - assert (E : map fst (BedEndToEnd.groups_of (bp_outs p)) = map bc_id outs) by (unfold BedEndToEnd.groups_of; rewrite map_map; reflexivity).
    rewrite E, Hbcids. apply seqN_sorted.
  - unfold BedEndToEnd.groups_of. apply Forall_forall. intros g Hg. apply in_map_iff in Hg as [c [<- Hc]]. cbn [snd].
    destruct (bfz_out_facts c Hc) as (Hwf & _). eapply BedQuery.wfe_sorted. exact Hwf.
Qed.

(* the placed sections with the groups they hold *)
Lemma bfz_placed_gs : Forall2 (fun s g => placed bs s (zsec compress cz (BedImage.sd_of g))) secs gs.
Proof.
  pose proof bfz_placed as H. unfold wdata, data, bp_data in H. fold gs in H. rewrite map_map in H.
  clear - H. revert H. generalize secs. induction gs as [|g l IH]; intros ss H; inversion H; subst; constructor; auto.
Qed.

Lemma bfz_sd_facts g : In g gs -> 13 <= Nlen (sd_bytes (BedImage.sd_of g)) /\ sd_start (BedImage.sd_of g) <= sd_end (BedImage.sd_of g)
  /\ sd_start (BedImage.sd_of g) < W32 /\ sd_end (BedImage.sd_of g) < W32.
Proof.
  intros Hg. destruct (bfz_gsec_facts g Hg) as (len & Hne & _ & Hok & _ & Hin & _).
  rewrite BedImage.sd_of_bytes. unfold BedImage.sd_of. destruct (snd g) as [|f r] eqn:E; [congruence|].
  cbn [sd_start sd_end flat_map]. inversion Hok as [|? ? (F1 & F2 & _) Hok']; subst. inversion Hin as [|? ? (I1 & _) _]; subst.
  pose proof (BedQuery.max_end_ge f r f (or_introl eq_refl)) as Hm.
  destruct (BedQuery.max_end_in f r) as [x [Hx Ex]]. rewrite Forall_forall in Hok. destruct (Hok x Hx) as (_ & Hxe & _).
  split; [|split; [lia|split; [exact F1|rewrite Ex; exact Hxe]]].
  rewrite Nlen_app, entry_bytes_Nlen. lia.
Qed.

Lemma bfz_secs_range : Forall (fun s => P <= s_off s /\ s_off s + s_size s <= P + ds + ctl /\ 1 <= s_size s /\ s_start s <= s_end s) secs.
Proof.
  pose proof (place_bounds wdata P) as Hb. fold secs ds in Hb. pose proof bfz_placed_gs as Hpl.
  apply Forall_forall. intros s Hs. rewrite Forall_forall in Hb. destruct (Hb s Hs) as [B1 B2].
  destruct (Forall2_in_l _ _ _ _ Hpl Hs) as [g [Hg (_ & Hsz & _ & Hst & Hen)]].
  destruct (zsec_spans compress cz (BedImage.sd_of g)) as (_ & Z2 & Z3). rewrite Z2 in Hst. rewrite Z3 in Hen.
  destruct (bfz_sd_facts g Hg) as (F1 & F2 & _). rewrite Hst, Hen.
  assert (Hs1 : 1 <= s_size s).
  { rewrite Hsz. destruct cz; cbn [zsec sd_bytes]; [|lia].
    specialize (Hcne (sd_bytes (BedImage.sd_of g))). destruct (compress _); [congruence|]. rewrite Nlen_cons. lia. }
  repeat split; lia.
Qed.

Lemma bfz_secs_ok : Forall sect_ok secs.
Proof.
  pose proof (place_bounds wdata P) as Hb. fold secs ds in Hb. pose proof bfz_len as L. pose proof bfz_placed_gs as Hpl.
  apply Forall_forall. intros s Hs. rewrite Forall_forall in Hb. destruct (Hb s Hs) as [B1 B2].
  destruct (Forall2_in_l _ _ _ _ Hpl Hs) as [g [Hg (_ & _ & Hc & Hst & Hen)]].
  destruct (zsec_spans compress cz (BedImage.sd_of g)) as (Z1 & Z2 & Z3). rewrite Z1 in Hc. rewrite Z2 in Hst. rewrite Z3 in Hen.
  destruct (bfz_sd_facts g Hg) as (_ & _ & F3 & F4). destruct (bfz_gsec_facts g Hg) as (len & _ & Hid & _).
  rewrite BedImage.sd_of_chrom in Hc. unfold sect_ok. rewrite Hc, Hst, Hen. fold n in Hsize.
  unfold U32, U64, W16, W32, W64 in *. repeat split; lia.
Qed.

Lemma bfz_count : Nlen wdata <= ds.
Proof.
  apply (place_count wdata P). fold secs. eapply Forall_impl; [|exact bfz_secs_range]. intros s (_ & _ & H & _). exact H.
Qed.

Lemma bfz_index : exists h e, parse_index bs n false (P + ds + ctl) P (P + ds + ctl) = Some (h, map lf_of secs, e)
  /\ ih_block h = o_bs o /\ ih_ips h = o_ips o /\ P + ds + ctl + 48 <= e <= P + ds + ctl + ixl.
Proof.
  pose proof HA as (_ & Hix & _). fold data wdata P ds ctl secs in Hix. pose proof bfz_ix as Hat.
  destruct Hopts as (Hb & Hi).
  destruct (parse_index_ok bs n _ P (P + ds + ctl) (o_bs o) (o_ips o) secs (bp_ix p) (bp_lv p) Hix Hat eq_refl Hsize Hb) as (h & e & H1 & H2 & H3 & _ & H5).
  - unfold W32. lia.
  - unfold secs. intros E. apply place_nil_iff in E. exact (bfz_data_ne E).
  - exact bfz_secs_sorted.
  - exact bfz_secs_ok.
  - unfold secs. rewrite place_Nlen. pose proof bfz_len as L. pose proof bfz_count. lia.
  - exact bfz_secs_range.
  - apply place_offs_chain.
  - exists h, e. fold ixl in H5. auto.
Qed.

Lemma bfz_data_end : match map lf_of secs with
                    | [] => P - 8 + 8
                    | l :: r => let z := last r l in fl_off z + fl_size z
                    end = P + ds.
Proof.
  pose proof bfz_data_ne as Hne.
  pose proof (place_last_end wdata P {| s_chrom := 0; s_start := 0; s_end := 0; s_off := 0; s_size := 0 |} Hne) as H.
  fold secs ds in H. destruct secs as [|s r] eqn:Es.
  - exfalso. apply place_nil_iff in Es. exact (Hne Es).
  - cbn [map]. cbv zeta. rewrite last_cons in H.
    rewrite (map_last lf_of r s). cbn [lf_of fl_off fl_size]. exact H.
Qed.

(* ---------- skeleton ---------- *)
Lemma bfz_header_at : has_at bs 0 (header_bytes BIGBED_MAGIC (Nlen zhdrs) (P + ds) (P - 8) (P + ds + ctl) fc fc 304 (P - 48) ubuf)
  /\ has_at bs 64 (flat_map zoom_header_bytes zhdrs).
Proof.
  pose proof HA as (_ & _ & _ & _ & H & _). apply bfz_in_pre in H. fold data wdata P ds ctl fc zhdrs in H.
  apply has_at_app in H as [H1 H2]. split; [exact H1|].
  replace 64 with (0 + Nlen (header_bytes BIGBED_MAGIC (Nlen zhdrs) (P + ds) (P - 8) (P + ds + ctl) fc fc 304 (P - 48) ubuf)); [exact H2|].
  unfold Nlen. now rewrite header_bytes_length.
Qed.

Lemma bfz_sniff : sniff bs = Some (false, false).
Proof.
  destruct bfz_header_at as [H _]. pose proof (header_magic bs _ _ _ _ _ _ _ _ _ _ H ltac:(unfold W32, BIGBED_MAGIC; lia)) as Hm.
  unfold sniff. destruct (slice bs 0 4) as [m|]; [|discriminate]. cbn [option_map] in Hm. injection Hm as Hm.
  change (dec false m) with (dec_le m). change (dec true m) with (dec_be m). rewrite Hm. reflexivity.
Qed.

Definition bed_header : fheader :=
  {| fh_version := 4; fh_nzoom := Nlen zhdrs; fh_ctoff := P + ds; fh_dataoff := P - 8; fh_ixoff := P + ds + ctl;
     fh_fc := fc; fh_dfc := fc; fh_asql := 304; fh_sumoff := P - 48; fh_ubuf := ubuf; fh_ext := 0 |}.

Lemma bfz_parse_header : parse_header bs n false = Some bed_header.
Proof.
  destruct bfz_header_at as [H _]. pose proof bfz_len as L. fold n in Hsize. pose proof bfz_P as EP.
  apply (parse_header_ok bs n _ _ _ _ _ _ _ _ _ _ H eq_refl); unfold W16, W32, W64 in *; fold fc in Hfc; lia.
Qed.

Lemma bfz_autosql : read_autosql bs n 304 (P - 48) = Some (sql, 304 + Nlen sql + 1).
Proof.
  pose proof HA as (_ & _ & _ & _ & _ & _ & _ & H). apply bfz_in_pre in H. fold sql in H.
  pose proof bfz_P as EP. unfold read_autosql. change (304 =? 0) with false. cbv iota.
  rewrite check_true by (apply N.ltb_lt; lia).
  rewrite (bytes_at_has_w bs n 304 (sql ++ [0]) (P - 48 - 304) H eq_refl) by (rewrite Nlen_app; change (Nlen [0]) with 1; lia).
  cbn [obind]. rewrite (fd_split_nul_app sql [] Hsql). reflexivity.
Qed.

Theorem bfz_skeleton : exists ih e,
  parse_skeleton bs n false strict false =
    Some {| sk_bigwig := false; sk_hdr := bed_header; sk_zhdrs := map zh_view zhdrs; sk_autosql := sql;
            sk_summary := sum_view_mod sum; sk_chroms := chroms; sk_index := ih; sk_leaves := map lf_of secs;
            sk_data_count := bb_total_items outs;
            sk_regions := [(0, 64 + 24 * Nlen zhdrs); (304, 304 + Nlen sql + 1); (P - 48, P - 48 + 40); (P + ds, P + ds + ctl);
                           (P - 8, P + ds); (P + ds + ctl, e); (n - 4, n)] |}
  /\ ih_block ih = o_bs o /\ ih_ips ih = o_ips o /\ P + ds + ctl + 48 <= e <= zpos.
Proof.
  destruct bfz_index as (ih & e & Hix & Hb & Hi & He). exists ih, e. split; [|repeat split; try assumption; unfold zpos; lia].
  destruct bfz_header_at as [_ Hzh].
  pose proof bfz_len as L. fold n in Hsize. pose proof bfz_P as EP.
  unfold parse_skeleton. rewrite bfz_parse_header. unfold bed_header.
  cbn [obind fh_version fh_nzoom fh_asql fh_fc fh_dfc fh_sumoff fh_ctoff fh_dataoff fh_ixoff].
  rewrite check_true by (change (4 =? FD_VERSION) with true; cbn [andb]; apply N.leb_le; exact Hz_count).
  rewrite (parse_zoomhdrs_ok bs n zhdrs Hzh eq_refl Hz_hdrs). cbn [obind].
  rewrite check_true by (change (304 =? 0) with false; cbn [negb andb]; apply N.leb_refl).
  rewrite bfz_autosql. cbn [obind].
  pose proof HA as (_ & _ & _ & _ & _ & Hsum & Hcnt & _). apply bfz_in_pre in Hsum. apply bfz_in_pre in Hcnt.
  fold P outs in Hsum, Hcnt.
  rewrite (parse_summary_mod bs n (P - 48) sum Hsum eq_refl). cbn [obind].
  rewrite bfz_chrom_tree. cbn [obind].
  rewrite (bytes_at_has_w bs n (P - 8) (u64 (bb_total_items outs)) 8 Hcnt eq_refl eq_refl). cbn [obind].
  assert (Hcv : fld false (u64 (bb_total_items outs)) 0 8 = bb_total_items outs).
  { rewrite <- (app_nil_r (u64 (bb_total_items outs))). unfold u64. apply fld_enc. cbn. unfold W64 in Hitems. exact Hitems. }
  rewrite Hcv.
  replace (P - 8 + 8) with P by lia.
  rewrite check_true by (apply N.leb_le; lia).
  rewrite Hix. cbn [obind].
  destruct (inc_from_adjacent zhdrs 0 Hz_levels) as [Hadj Hlv].
  rewrite check_true by exact Hadj.
  rewrite check_true by exact Hlv.
  rewrite check_true by (apply N.leb_le; lia).
  rewrite (bytes_at_has_w bs n (n - 4) (u32 BIGBED_MAGIC) 4 bfz_magic_at eq_refl eq_refl). cbn [obind].
  rewrite check_true.
  2:{ cbn [dec]. unfold u32. rewrite (dec_enc_le 4 BIGBED_MAGIC) by (unfold BIGBED_MAGIC; cbn; lia). rewrite bb_magic. apply N.eqb_refl. }
  pose proof bfz_data_end as Hde. replace (P - 8 + 8) with P in Hde by lia. cbv zeta in Hde. rewrite Hde.
  replace (64 + 24 * Nlen zhdrs) with (64 + 24 * Nlen zhdrs) by reflexivity. reflexivity.
Qed.

(* ---------- blocks ---------- *)
Lemma bfz_blocks : omap (data_block bs n false inflate false chroms ubuf (o_ips o)) (map lf_of secs) = Some (map gsec_recs gs).
Proof.
  pose proof bfz_placed_gs as Hpl.
  assert (G : forall ss l, Forall2 (fun s g => placed bs s (zsec compress cz (BedImage.sd_of g))) ss l -> (forall g, In g l -> In g gs) ->
              omap (data_block bs n false inflate false chroms ubuf (o_ips o)) (map lf_of ss) = Some (map gsec_recs l)).
  { intros ss l. revert ss. induction l as [|g l IH]; intros ss HF Hsub; inversion HF as [|s d ss' ds' Hsd HF']; subst; [reflexivity|].
    cbn [map omap].
    destruct (bfz_gsec_facts g (Hsub g (or_introl eq_refl))) as (len & Hne & Hid & Hok & Hso & Hin & Hcs & Hl).
    rewrite (bed_block_c compress cz bs n inflate chroms ubuf (o_ips o) g s len eq_refl Hsd Hmode).
    2:{ intros Ec. destruct (Hinf Ec) as [Hi Hu]. split; [exact Hi|]. rewrite Forall_forall in Hu. apply Hu.
        unfold bp_data. fold gs. apply in_map. apply Hsub. now left. }
    2:exact Hne. 2:{ unfold W16, W32 in *; lia. } 2:exact Hok. 2:exact Hso. 2:exact Hin. 2:exact Hcs. 2:exact Hl.
    cbn [obind]. rewrite (IH ss' HF') by (intros x Hx; apply Hsub; now right). reflexivity. }
  apply G; [exact Hpl|auto].
Qed.

Definition bed_content (ih : findexhdr) : content :=
  {| c_bigwig := false; c_bigendian := false; c_field_count := fc; c_defined_fc := fc; c_autosql := sql;
     c_ubuf := ubuf; c_block_size := o_bs o; c_ips := o_ips o; c_chroms := chroms; c_records := brecs_of outs;
     c_blocks := map (fun g : N * list entry => Nlen (snd g)) gs; c_data_count := bb_total_items outs;
     c_summary := sum_view_mod sum; c_zooms := zoom_content zl |}.

Lemma bfz_regions e : P + ds + ctl + 48 <= e <= zpos ->
  all_disjoint ([(0, 64 + 24 * Nlen zhdrs); (304, 304 + Nlen sql + 1); (P - 48, P - 48 + 40); (P + ds, P + ds + ctl);
                 (P - 8, P + ds); (P + ds + ctl, e); (n - 4, n)] ++ zoom_regions zl) = true.
Proof.
  intros He. pose proof bfz_len as L. pose proof bfz_P as EP. destruct Hz_regions as [Hch Hend].
  assert (Hzp : zpos <= n - 4) by (unfold zpos; lia).
  rewrite all_disjoint_app. rewrite !andb_true_iff. split; [split|].
  - cbn [all_disjoint forallb]. unfold reg_disj. cbn [fst snd].
    repeat (apply andb_true_iff; split); try reflexivity;
      rewrite ?orb_true_iff, ?N.eqb_eq, ?N.leb_le; unfold zpos in *; lia.
  - assert (Hz : forall r, In r (zoom_regions zl) -> zpos <= fst r /\ fst r <= snd r /\ snd r <= n - 4).
    { intros r Hr. destruct (reg_chain_lower _ _ _ Hch Hr). pose proof (reg_chain_upper _ _ _ Hch Hr). repeat split; lia. }
    cbn [forallb]. rewrite !andb_true_iff. repeat split; try reflexivity;
      apply forallb_forall; intros r Hr; destruct (Hz r Hr) as (Z1 & Z2 & Z3); unfold reg_disj; cbn [fst snd];
      rewrite !orb_true_iff, !N.eqb_eq, !N.leb_le; unfold zpos in *; lia.
  - exact (reg_chain_disjoint _ _ Hch).
Qed.

Theorem bfz_decode : exists ih, decode_gen strict bs inflate = Some (bed_content ih)
  /\ ih_block ih = o_bs o /\ ih_ips ih = o_ips o.
Proof.
  destruct bfz_skeleton as (ih & e & Hsk & Hb & Hi & He). exists ih. split; [|split; assumption].
  unfold decode_gen, skeleton_of. rewrite bfz_sniff. cbn [obind]. fold n. rewrite Hsk. cbn [obind].
  unfold decode_with. cbn [sk_bigwig sk_hdr sk_index sk_chroms sk_leaves sk_data_count sk_zhdrs sk_regions sk_autosql sk_summary
                           bed_header fh_ubuf fh_fc fh_dfc].
  rewrite Hi, bfz_blocks. cbn [obind].
  unfold gs, bp_gs. rewrite (gsecs_recs (o_ips o) (bp_outs p)) by (apply bfz_ips). fold outs.
  destruct bfz_facts as (_ & _ & Hbcids & _).
  rewrite check_true.
  2:{ apply (sorted_adjacent (rec_order false) brec_lt brec_lt_order). apply brecs_sorted.
      - rewrite Hbcids. apply seqN_sorted.
      - apply Forall_forall. intros c Hc. destruct (bfz_out_facts c Hc) as (Hwf & _). eapply BedQuery.wfe_sorted. exact Hwf. }
  rewrite check_true by (apply N.eqb_eq; apply total_items_recs).
  rewrite Hz_decode. cbn [obind].
  rewrite check_true by (apply bfz_regions; exact He).
  unfold bed_content. rewrite Hb. f_equal. f_equal.
  fold (bp_gs o p). fold gs. rewrite map_map. apply map_ext. intros g. unfold gsec_recs, Nlen. now rewrite map_length.
Qed.
End BedWholeZ.
