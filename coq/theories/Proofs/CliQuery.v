(* C16: the restricted-range output of the converters is the range-query answer; the unrestricted output is
   the list of accepted records, in input order. *)
From BT Require Import Base.Util Generated.Consts Model.BBIFile Model.BigWigWrite Model.BBIRead Model.CliText
  Proofs.Chunks Proofs.BigWigQuery Proofs.CliCompat.
Local Open Scope N_scope.

(* ------------------------------------------------------------------ bigWig *)
Lemma bw_block_hit_is_chunk_hit : bw_block_hit = chunk_hit.
Proof. reflexivity. Qed.

Theorem bw_query_is_clip_filter ips len vals s e : (0 < ips)%nat -> check_chrom len vals = Ok tt ->
  bw_query ips vals s e = clip_filter s e vals.
Proof.
  intros Hi Hc. unfold bw_query. rewrite bw_block_hit_is_chunk_hit.
  apply (query_sections len); [exact Hi|]. now apply check_chrom_wf.
Qed.

(* ------------------------------------------------------------------ bigBed *)
Fixpoint sorted_starts (l : list bed_entry) : Prop :=
  match l with
  | [] => True
  | x :: r => match r with [] => True | y :: _ => be_start x <= be_start y end /\ sorted_starts r
  end.

Lemma bb_check_sorted len l : bb_check_chrom len l = Ok tt -> sorted_starts l.
Proof.
  induction l as [|x r IH]; intros H; [exact I|].
  cbn [bb_check_chrom] in H. unfold bb_check_val in H.
  destruct (be_end x <? be_start x); [discriminate|]. destruct (len <=? be_start x); [discriminate|].
  destruct r as [|y r'].
  - cbn. auto.
  - cbn [hd_error] in H. destruct (be_start y <? be_start x) eqn:E; [discriminate|].
    apply N.ltb_ge in E. cbn [rbind] in H. split; [exact E|]. apply IH. exact H.
Qed.

Lemma sorted_tail x r : sorted_starts (x :: r) -> sorted_starts r.
Proof. intros [_ H]. exact H. Qed.
Lemma sorted_head_le : forall r x, sorted_starts (x :: r) -> Forall (fun y => be_start x <= be_start y) r.
Proof.
  induction r as [|y r IH]; intros x H; [constructor|].
  destruct H as [Hxy Hr]. constructor; [exact Hxy|].
  specialize (IH y Hr). eapply Forall_impl; [|exact IH]. cbv beta. intros z Hz. lia.
Qed.
Lemma sorted_app_l a b : sorted_starts (a ++ b) -> sorted_starts a.
Proof.
  induction a as [|x a IH]; intros H; [exact I|].
  cbn [app] in H. destruct H as [H1 H2]. split; [|apply IH; exact H2].
  destruct a as [|y a']; [exact I|]. exact H1.
Qed.
Lemma sorted_app_r a b : sorted_starts (a ++ b) -> sorted_starts b.
Proof. induction a as [|x a IH]; intros H; [exact H|]. apply IH. eapply sorted_tail. exact H. Qed.

Lemma max_end_ge l x : In x l -> be_end x <= max_end l.
Proof.
  induction l as [|y l IH]; intros Hin; [destruct Hin|].
  unfold max_end. cbn [fold_right]. fold (max_end l). destruct Hin as [->|Hin]; [lia|].
  specialize (IH Hin). lia.
Qed.

Lemma bb_miss_empty s e c : sorted_starts c -> bb_block_hit s e c = false -> filter (bb_keep s e) c = [].
Proof.
  intros Hs Hh. destruct c as [|f r]; [reflexivity|].
  assert (Hall : Forall (fun x => bb_keep s e x = false) (f :: r)).
  { apply Forall_forall. intros x Hx. unfold bb_keep. unfold bb_block_hit in Hh.
    apply andb_false_iff in Hh as [Hh|Hh]; apply N.leb_gt in Hh.
    - pose proof (max_end_ge (f :: r) x Hx). apply andb_false_iff. left. apply N.leb_gt. lia.
    - apply andb_false_iff. right. apply N.leb_gt. destruct Hx as [<-|Hx]; [lia|].
      pose proof (sorted_head_le r f Hs) as Hf. rewrite Forall_forall in Hf. specialize (Hf x Hx). lia. }
  clear Hh Hs. induction Hall as [|x l Hx _ IH]; [reflexivity|]. cbn [filter]. now rewrite Hx.
Qed.

Lemma bb_query_blocks s e (cs : list (list bed_entry)) : sorted_starts (concat cs) ->
  flat_map (filter (bb_keep s e)) (filter (bb_block_hit s e) cs) = filter (bb_keep s e) (concat cs).
Proof.
  induction cs as [|c cs IH]; intros Hs; [reflexivity|].
  cbn [concat] in Hs. cbn [filter concat]. rewrite filter_app.
  destruct (bb_block_hit s e c) eqn:Hh; cbn [flat_map].
  - rewrite IH; [reflexivity|]. eapply sorted_app_r; exact Hs.
  - rewrite (bb_miss_empty s e c); [|eapply sorted_app_l; exact Hs|exact Hh]. cbn [app].
    apply IH. eapply sorted_app_r; exact Hs.
Qed.

Theorem bb_query_is_overlap_filter ips len l s e : (0 < ips)%nat -> bb_check_chrom len l = Ok tt ->
  bb_query ips l s e = filter (bb_keep s e) l.
Proof.
  intros Hi Hc. unfold bb_query. rewrite <- (chunks_concat ips l Hi) at 2.
  apply bb_query_blocks. rewrite chunks_concat by exact Hi. eapply bb_check_sorted; exact Hc.
Qed.

(* ------------------------------------------------------------------ the tools *)
Section Tools.
Context {X : Type}.
Variable check : N -> list X -> res unit.

Lemma accept_runs_checked sizes : forall rs prev file, accept_runs check sizes prev rs = Ok file ->
  Forall (fun w => check (wc_len w) (wc_items w) = Ok tt) file.
Proof.
  induction rs as [|[c items] rest IH]; intros prev file H.
  - cbn in H. injection H as <-. constructor.
  - cbn [accept_runs] in H.
    destruct (negb _); [discriminate|]. destruct (lookup c sizes) as [len|]; [|discriminate].
    destruct (check len items) as [[]| | |] eqn:Ec; try discriminate. cbn [rbind] in H.
    destruct (accept_runs check sizes (Some c) rest) as [outs| | |] eqn:Er; try discriminate. cbn [rbind] in H.
    injection H as <-. constructor; [exact Ec|]. eapply IH. exact Er.
Qed.

Lemma accept_checked sizes items file : accept check sizes items = Ok file ->
  Forall (fun w => check (wc_len w) (wc_items w) = Ok tt) file.
Proof.
  unfold accept. destruct items; [discriminate|]. apply accept_runs_checked.
Qed.

Lemma insert_in (w x : wchrom X) l : In x (insert_by_name w l) -> x = w \/ In x l.
Proof.
  induction l as [|y l IH]; cbn [insert_by_name]; intros H.
  - destruct H as [<-|[]]. now left.
  - destruct (name_cmp (wc_name w) (wc_name y)).
    + destruct H as [<-|H]; [now left|now right].
    + destruct H as [<-|H]; [now left|now right].
    + destruct H as [<-|H]; [right; now left|]. destruct (IH H) as [->|Hin]; [now left|right; now right].
Qed.
Lemma sort_in (x : wchrom X) l : In x (sort_by_name l) -> In x l.
Proof.
  induction l as [|y l IH]; cbn [sort_by_name fold_right]; intros H; [exact H|].
  apply insert_in in H. destruct H as [->|H]; [now left|right; now apply IH].
Qed.

(* restricted by chromosome (and start, end): exactly one get_interval on that chromosome *)
Lemma tool_read_restricted (query : list X -> N -> N -> list X) file c st en w :
  find (fun w => name_eqb (wc_name w) c) (sort_by_name file) = Some w ->
  tool_read query file (Some c) st en =
  map (fun v => (wc_name w, v))
      (query (wc_items w) (match st with Some s => s | None => 0 end) (match en with Some e => e | None => wc_len w end)).
Proof. intros H. unfold tool_read. rewrite H. reflexivity. Qed.
End Tools.

(* the restricted output of bigwigtobedgraph is the clipped range-query answer on the values the writer accepted *)
Theorem bigwig_restrict_is_query fparse cs txt file ips c st en w : (0 < ips)%nat ->
  bedgraph_to_bigwig fparse cs txt = Ok file ->
  find (fun w => name_eqb (wc_name w) c) (sort_by_name file) = Some w ->
  bigwig_to_bedgraph ips file (Some c) st en =
  map (fun v => (wc_name w, v))
      (clip_filter (match st with Some s => s | None => 0 end) (match en with Some e => e | None => wc_len w end) (wc_items w)).
Proof.
  intros Hi Hw Hf. unfold bigwig_to_bedgraph. rewrite (tool_read_restricted _ file c st en w Hf).
  f_equal. unfold bedgraph_to_bigwig in Hw.
  destruct (parse_chrom_sizes cs) as [sizes| | |]; try discriminate Hw. cbn [rbind] in Hw.
  destruct (mapM (parse_bedgraph fparse) (lines txt)) as [items| | |]; try discriminate Hw. cbn [rbind] in Hw.
  pose proof (accept_checked check_chrom sizes items file Hw) as Hall. rewrite Forall_forall in Hall.
  apply (bw_query_is_clip_filter ips (wc_len w)); [exact Hi|]. apply Hall.
  apply sort_in. apply find_some in Hf. exact (proj1 Hf).
Qed.

(* the restricted output of bigbedtobed is the overlap filter the reader applies, on the entries the writer accepted *)
Theorem bigbed_restrict_is_query asql cs txt file ips c st en w : (0 < ips)%nat ->
  bed_to_bigbed asql cs txt = Ok file ->
  find (fun w => name_eqb (wc_name w) c) (sort_by_name file) = Some w ->
  bigbed_to_bed ips file (Some c) st en =
  map (fun v => (wc_name w, v))
      (filter (bb_keep (match st with Some s => s | None => 0 end) (match en with Some e => e | None => wc_len w end)) (wc_items w)).
Proof.
  intros Hi Hw Hf. unfold bigbed_to_bed. rewrite (tool_read_restricted _ file c st en w Hf).
  f_equal. unfold bed_to_bigbed in Hw.
  destruct (parse_chrom_sizes cs) as [sizes| | |]; try discriminate Hw. cbn [rbind] in Hw.
  destruct (if asql then Ok tt else _) as [[]| | |]; try discriminate Hw. cbn [rbind] in Hw.
  destruct (mapM parse_bed (lines txt)) as [items| | |]; try discriminate Hw. cbn [rbind] in Hw.
  pose proof (accept_checked bb_check_chrom sizes items file Hw) as Hall. rewrite Forall_forall in Hall.
  apply (bb_query_is_overlap_filter ips (wc_len w)); [exact Hi|]. apply Hall.
  apply sort_in. apply find_some in Hf. exact (proj1 Hf).
Qed.

(* ------------------------------------------------------------------ unrestricted: every record, in input order *)
Section Unrestricted.
Context {X : Type}.
Variable check : N -> list X -> res unit.

Definition flatten (file : list (wchrom X)) : list (name * X) :=
  flat_map (fun w => map (fun v => (wc_name w, v)) (wc_items w)) file.

Lemma name_eqb_eq a b : name_eqb a b = true -> a = b.
Proof. apply bytes_eqb_eq. Qed.

Lemma runs_aux_flatten : forall (l : list (name * X)) cur acc,
  flat_map (fun cv => map (fun v => (fst cv, v)) (snd cv)) (runs_aux_g cur acc l)
  = map (fun v => (cur, v)) (rev acc) ++ l.
Proof.
  induction l as [|[c v] r IH]; intros cur acc.
  - cbn [runs_aux_g flat_map fst snd]. reflexivity.
  - cbn [runs_aux_g]. destruct (name_eqb c cur) eqn:E.
    + apply name_eqb_eq in E. subst. rewrite IH. cbn [rev]. rewrite map_app. cbn [map]. rewrite <- app_assoc. reflexivity.
    + cbn [flat_map fst snd]. rewrite IH. cbn [rev app map]. reflexivity.
Qed.
Lemma runs_flatten (l : list (name * X)) :
  flat_map (fun cv => map (fun v => (fst cv, v)) (snd cv)) (runs_g l) = l.
Proof.
  destruct l as [|[c v] r]; [reflexivity|]. unfold runs_g. rewrite runs_aux_flatten. reflexivity.
Qed.

(* what accept_runs returns: the runs, with their lengths; names strictly increasing *)
Inductive ascending : option name -> list (wchrom X) -> Prop :=
| asc_nil p : ascending p []
| asc_cons p w r : match p with Some q => name_cmp q (wc_name w) = Lt | None => True end ->
                   ascending (Some (wc_name w)) r -> ascending p (w :: r).

Lemma accept_runs_shape sizes : forall rs prev file, accept_runs check sizes prev rs = Ok file ->
  flatten file = flat_map (fun cv => map (fun v => (fst cv, v)) (snd cv)) rs /\ ascending prev file.
Proof.
  induction rs as [|[c items] rest IH]; intros prev file H.
  - cbn in H. injection H as <-. split; [reflexivity|constructor].
  - cbn [accept_runs] in H.
    destruct (negb _) eqn:Eo; [discriminate|]. destruct (lookup c sizes) as [len|]; [|discriminate].
    destruct (check len items) as [[]| | |]; try discriminate. cbn [rbind] in H.
    destruct (accept_runs check sizes (Some c) rest) as [outs| | |] eqn:Er; try discriminate. cbn [rbind] in H.
    injection H as <-. destruct (IH _ _ Er) as [Hf Ha]. split.
    + unfold flatten in *. cbn [flat_map wc_name wc_items fst snd]. now rewrite Hf.
    + constructor; [|exact Ha]. cbn [wc_name]. destruct prev as [q|]; [|exact I].
      apply negb_false_iff in Eo. destruct (name_cmp q c); try discriminate Eo. reflexivity.
Qed.

Lemma name_cmp_trans_lt : forall a b c, name_cmp a b = Lt -> name_cmp b c = Lt -> name_cmp a c = Lt.
Proof.
  induction a as [|x a IH]; intros [|y b] [|z c] H1 H2; try discriminate; try reflexivity.
  cbn [name_cmp] in *. destruct (x ?= y) eqn:E1; try discriminate H1.
  - apply N.compare_eq in E1. subst. destruct (y ?= z); try discriminate H2; [|reflexivity]. eapply IH; eassumption.
  - destruct (y ?= z) eqn:E2; try discriminate H2.
    + apply N.compare_eq in E2. subst. now rewrite E1.
    + rewrite N.compare_lt_iff in *. replace (x ?= z) with Lt; [reflexivity|]. symmetry. apply N.compare_lt_iff. lia.
Qed.

(* a list whose names strictly increase is already in chroms() order *)
Lemma insert_ascending w r : ascending (Some (wc_name w)) r -> insert_by_name w r = w :: r.
Proof.
  intros H. destruct r as [|x r']; [reflexivity|]. inversion H as [|? ? ? Hlt _]; subst.
  cbn [insert_by_name]. rewrite Hlt. reflexivity.
Qed.
Lemma sort_ascending : forall file p, ascending p file -> sort_by_name file = file.
Proof.
  induction file as [|w r IH]; intros p H; [reflexivity|].
  inversion H as [|? ? ? _ Hr]; subst. cbn [sort_by_name fold_right]. fold (sort_by_name r).
  rewrite (IH _ Hr). now apply insert_ascending.
Qed.

Lemma tool_read_all (query : list X -> N -> N -> list X) file :
  (forall w, In w file -> query (wc_items w) 0 (wc_len w) = wc_items w) ->
  sort_by_name file = file ->
  tool_read query file None None None = flatten file.
Proof.
  intros Hq Hs. unfold tool_read, flatten. rewrite Hs. clear Hs.
  induction file as [|w r IH]; [reflexivity|]. cbn [flat_map].
  rewrite Hq by now left. f_equal. apply IH.
  intros x Hx. apply Hq. now right.
Qed.

Theorem accept_then_read_all sizes items file (query : list X -> N -> N -> list X) :
  accept check sizes items = Ok file ->
  (forall w, In w file -> query (wc_items w) 0 (wc_len w) = wc_items w) ->
  tool_read query file None None None = items.
Proof.
  intros Ha Hq. unfold accept in Ha. destruct items as [|i0 items']; [discriminate|].
  destruct (accept_runs_shape sizes _ _ _ Ha) as [Hf Hasc].
  rewrite tool_read_all; [|exact Hq|eapply sort_ascending; exact Hasc].
  rewrite Hf. apply runs_flatten.
Qed.
End Unrestricted.

(* bedGraph -> bigWig -> bedGraph at record level: every accepted value comes back, in input order, provided no value
   is empty (a zero-length value at a chromosome boundary is C01's known finding) *)
Theorem bedgraph_roundtrip_records fparse cs txt file ips items sizes : (0 < ips)%nat ->
  parse_chrom_sizes cs = Ok sizes -> mapM (parse_bedgraph fparse) (lines txt) = Ok items ->
  bedgraph_to_bigwig fparse cs txt = Ok file ->
  Forall (fun it => v_start (snd it) < v_end (snd it)) items ->
  bigwig_to_bedgraph ips file None None None = items.
Proof.
  intros Hi Hs Hm Hw Hpos. unfold bedgraph_to_bigwig in Hw. rewrite Hs, Hm in Hw. cbn [rbind] in Hw.
  unfold bigwig_to_bedgraph. apply (accept_then_read_all check_chrom sizes items file); [exact Hw|].
  intros w Hin. pose proof (accept_checked check_chrom sizes items file Hw) as Hall.
  rewrite Forall_forall in Hall. specialize (Hall w Hin).
  rewrite (bw_query_is_clip_filter ips (wc_len w)) by assumption.
  apply full_span_read_exact; [now apply check_chrom_wf|].
  (* every value of the file is one of the items *)
  unfold accept in Hw. destruct items as [|i0 items']; [discriminate|].
  destruct (accept_runs_shape check_chrom sizes _ _ _ Hw) as [Hf _]. rewrite runs_flatten in Hf.
  apply Forall_forall. intros v Hv. rewrite Forall_forall in Hpos.
  assert (Hiv : In (wc_name w, v) (i0 :: items')).
  { rewrite <- Hf. unfold flatten. apply in_flat_map. exists w. split; [exact Hin|]. apply in_map. exact Hv. }
  specialize (Hpos _ Hiv). cbn [snd] in Hpos. unfold boundary_zero.
  replace (v_start v =? v_end v) with false; [reflexivity|]. symmetry. apply N.eqb_neq. lia.
Qed.

(* BED -> bigBed -> BED at record level *)
Lemma bb_keep_all len l : bb_check_chrom len l = Ok tt -> filter (bb_keep 0 len) l = l.
Proof.
  induction l as [|x r IH]; intros H; [reflexivity|].
  cbn [bb_check_chrom] in H. unfold bb_check_val in H.
  destruct (be_end x <? be_start x) eqn:E1; [discriminate|]. destruct (len <=? be_start x) eqn:E2; [discriminate|].
  apply N.leb_gt in E2.
  assert (Hr : bb_check_chrom len r = Ok tt).
  { destruct (hd_error r) as [y|]; [destruct (be_start y <? be_start x); [discriminate|]|]; exact H. }
  cbn [filter]. unfold bb_keep at 1.
  replace (0 <=? be_end x) with true by (symmetry; apply N.leb_le; lia).
  replace (be_start x <=? len) with true by (symmetry; apply N.leb_le; lia).
  cbn [andb]. f_equal. apply IH. exact Hr.
Qed.

Theorem bed_roundtrip_records asql cs txt file ips items sizes : (0 < ips)%nat ->
  parse_chrom_sizes cs = Ok sizes -> mapM parse_bed (lines txt) = Ok items ->
  bed_to_bigbed asql cs txt = Ok file ->
  bigbed_to_bed ips file None None None = items.
Proof.
  intros Hi Hs Hm Hw. unfold bed_to_bigbed in Hw. rewrite Hs, Hm in Hw. cbn [rbind] in Hw.
  destruct (if asql then Ok tt else _) as [[]| | |]; try discriminate Hw. cbn [rbind] in Hw.
  unfold bigbed_to_bed. apply (accept_then_read_all bb_check_chrom sizes items file); [exact Hw|].
  intros w Hin. pose proof (accept_checked bb_check_chrom sizes items file Hw) as Hall.
  rewrite Forall_forall in Hall. specialize (Hall w Hin).
  rewrite (bb_query_is_overlap_filter ips (wc_len w)) by assumption.
  now apply bb_keep_all.
Qed.
