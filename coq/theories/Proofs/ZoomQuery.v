(* C07: a zoom range query returns every record that meets the range.
   List level (as Proofs/BigWigQuery.v does for values): reading only the sections the index test
   selects and filtering their records as get_zoom_block_values does, equals filtering all records
   of the level.  Byte level: C05's search_bytes_eq_scan gives that the blocks returned by the
   reader's search of the written index are exactly the sections passing that test. *)
From BT Require Import Base.Util Base.LE Base.Float Generated.Consts Model.RTree Model.BBIFile Model.BigWigWrite Model.BBIRead
  Proofs.RTreeAbs Proofs.RTreeBuild Proofs.RTreeCodec Proofs.RTreeLayout
  Proofs.BigWigQuery Proofs.ZoomLoop Proofs.ZoomInv Proofs.ZoomThms.
Local Open Scope N_scope.

(* get_zoom_block_values' filter *)
Definition zkeep (q s e : N) (z : zrec) : bool := (z_chrom z =? q) && (s <=? z_end z) && (z_start z <=? e).
(* the index test on the span encode_zoom_section records for a section *)
Definition zsec_span (sec : list zrec) : option span :=
  match sec with
  | [] => None
  | f :: _ => Some {| sc := z_chrom f; sb := z_start f; ec := z_chrom f; eb := z_end (last sec f) |}
  end.
Definition zsec_hit (q s e : N) (sec : list zrec) : bool :=
  match zsec_span sec with Some sp => overlaps q s e sp | None => false end.

(* a section: one chromosome, first record starts first, last record ends last *)
Definition sec_ok (sec : list zrec) : Prop :=
  match sec with
  | [] => True
  | f :: _ => forall z, In z sec -> z_chrom z = z_chrom f /\ z_start f <= z_start z /\ z_end z <= z_end (last sec f)
  end.

Lemma overlaps_same q s e c a b :
  overlaps q s e {| sc := c; sb := a; ec := c; eb := b |} = true <-> ple q s c b /\ ple c a q e.
Proof.
  unfold overlaps. cbn [sc sb ec eb]. rewrite andb_true_iff, le_pos_spec, ge_pos_spec. tauto.
Qed.

Lemma keep_hit q s e sec z : sec_ok sec -> In z sec -> zkeep q s e z = true -> zsec_hit q s e sec = true.
Proof.
  intros Hok Hin Hk. destruct sec as [|f r]; [destruct Hin|].
  unfold zsec_hit, zsec_span. apply overlaps_same. destruct (Hok z Hin) as [Hc [Hs He]].
  unfold zkeep in Hk. apply andb_true_iff in Hk as [Hk H3]. apply andb_true_iff in Hk as [H1 H2].
  apply N.eqb_eq in H1. apply N.leb_le in H2, H3. unfold ple. split; right; split; try lia.
Qed.

Lemma miss_none q s e sec : sec_ok sec -> zsec_hit q s e sec = false -> filter (zkeep q s e) sec = [].
Proof.
  intros Hok Hm. assert (H : Forall (fun z => zkeep q s e z = false) sec).
  { apply Forall_forall. intros z Hin. destruct (zkeep q s e z) eqn:E; [|reflexivity].
    rewrite (keep_hit q s e sec z Hok Hin E) in Hm. discriminate. }
  clear Hok Hm. induction H as [|z l Hz _ IH]; [reflexivity|]. cbn [filter]. now rewrite Hz.
Qed.

Theorem zoom_query_sections q s e (secs : list (list zrec)) : Forall sec_ok secs ->
  flat_map (filter (zkeep q s e)) (filter (zsec_hit q s e) secs) = filter (zkeep q s e) (concat secs).
Proof.
  induction 1 as [|sec secs Hok _ IH]; [reflexivity|].
  cbn [filter concat]. rewrite filter_app. destruct (zsec_hit q s e sec) eqn:Hh; cbn [flat_map].
  - now rewrite IH.
  - rewrite (miss_none q s e sec Hok Hh). exact IH.
Qed.

Corollary zoom_query_complete_list q s e secs : Forall sec_ok secs ->
  forall z, In z (concat secs) -> z_chrom z = q -> s < z_end z -> z_start z < e ->
  In z (flat_map (filter (zkeep q s e)) (filter (zsec_hit q s e) secs)).
Proof.
  intros Hok z Hin Hc Hs He. rewrite (zoom_query_sections q s e secs Hok). apply filter_In. split; [exact Hin|].
  unfold zkeep. apply andb_true_iff. split; [apply andb_true_iff; split|].
  - apply N.eqb_eq. exact Hc.
  - apply N.leb_le. lia.
  - apply N.leb_le. lia.
Qed.

(* ---- the writer's sections of one chromosome are such sections ---- *)
Lemma ordered_app2 size chrom : forall a lo b, ordered size chrom lo (a ++ b) ->
  ordered size chrom lo a /\ ordered size chrom (last_end lo a) b.
Proof.
  induction a as [|x a IH]; intros lo b H; cbn [app ordered last_end] in *; [tauto|].
  destruct H as [H1 [H2 H3]]. destruct (IH _ _ H3). tauto.
Qed.
Lemma last_end_last : forall r f lo, last_end lo (f :: r) = z_end (last (f :: r) f).
Proof.
  induction r as [|x r IH]; intros f lo; [reflexivity|].
  change (last_end lo (f :: x :: r)) with (last_end (z_end f) (x :: r)). rewrite IH.
  change (last (f :: x :: r) f) with (last (x :: r) f). now rewrite (last_default x r x f).
Qed.
Lemma ordered_sec_ok size chrom lo sec : ordered size chrom lo sec -> sec_ok sec.
Proof.
  destruct sec as [|f r]; [exact (fun _ => I)|]. intros Ho z Hin.
  destruct (ordered_in size chrom _ _ _ Ho Hin) as [[_ [_ Hgc]] [_ He]].
  rewrite last_end_last in He. split; [|split; [|exact He]].
  - destruct Ho as [_ [[_ [_ Hf]] _]]. congruence.
  - destruct Hin as [<-|Hin]; [lia|]. destruct Ho as [_ [[Hf _] Ho]].
    destruct (ordered_in size chrom _ _ _ Ho Hin) as [_ [Hs _]]. lia.
Qed.
Lemma ordered_concat_sec_ok size chrom : forall secs lo, ordered size chrom lo (concat secs) -> Forall sec_ok secs.
Proof.
  induction secs as [|sec secs IH]; intros lo H; [constructor|]. cbn [concat] in H.
  destruct (ordered_app2 size chrom _ _ _ H) as [H1 H2]. constructor.
  - eapply ordered_sec_ok. exact H1.
  - eapply IH. exact H2.
Qed.

Theorem zoom_sections_ok fp ips size chrom len vals st : 1 <= size -> wf_vals len vals ->
  zoom_chrom fp ips size chrom vals zstate0 = Ok st -> Forall sec_ok (zs_out st).
Proof.
  intros Hsz Hwf Hrun. destruct (zoom_chrom_final fp size chrom len ips vals st Hsz Hwf Hrun) as [[Ho _ _ _ _] _].
  eapply ordered_concat_sec_ok. exact Ho.
Qed.

(* ---- the index test on the placed section is the test on its records ---- *)
Lemma place_length : forall l pos, length (place pos l) = length l.
Proof. induction l as [|x l IH]; intros pos; cbn [place length]; [reflexivity|]. now rewrite IH. Qed.

Lemma zoom_index_test fp q s e : forall rsecs sds pos, mapM (encode_zoom_section fp) rsecs = Ok sds ->
  Forall2 (fun sec sct => overlaps q s e (sect_span sct) = zsec_hit q s e sec) rsecs (place pos sds).
Proof.
  induction rsecs as [|sec rsecs IH]; intros sds pos H; cbn [mapM] in H.
  - injection H as <-. constructor.
  - destruct (encode_zoom_section fp sec) as [sd| | |] eqn:E; try discriminate. cbn [rbind] in H.
    destruct (mapM (encode_zoom_section fp) rsecs) as [sds'| | |] eqn:E2; try discriminate.
    cbn [rbind] in H. injection H as <-. cbn [place]. constructor; [|apply IH; reflexivity].
    unfold encode_zoom_section in E. destruct sec as [|f r]; [discriminate|]. injection E as <-.
    reflexivity.
Qed.

Lemma forall2_filter {X Y} (p : X -> bool) (g : Y -> bool) : forall l1 l2, Forall2 (fun x y => g y = p x) l1 l2 ->
  filter g l2 = map snd (filter (fun xy => p (fst xy)) (combine l1 l2)).
Proof.
  induction 1 as [|x y l1 l2 Hxy _ IH]; [reflexivity|]. cbn [combine filter fst]. rewrite Hxy.
  destruct (p x); cbn [map snd]; now rewrite IH.
Qed.

Lemma f2_length {X Y} (R : X -> Y -> Prop) l1 l2 : Forall2 R l1 l2 -> length l1 = length l2.
Proof. induction 1; cbn [length]; congruence. Qed.

Lemma hit_flat q s e : forall (rsecs : list (list zrec)) (secs : list sect), length rsecs = length secs ->
  flat_map (fun p => filter (zkeep q s e) (fst p)) (filter (fun p => zsec_hit q s e (fst p)) (combine rsecs secs))
  = flat_map (filter (zkeep q s e)) (filter (zsec_hit q s e) rsecs).
Proof.
  induction rsecs as [|sec rsecs IH]; intros secs Hlen; [reflexivity|].
  destruct secs as [|sct secs]; [discriminate|]. cbn [combine filter fst].
  destruct (zsec_hit q s e sec); cbn [flat_map fst]; rewrite IH by (cbn [length] in Hlen; lia); reflexivity.
Qed.

(* ---- with C05: the byte-level search of the level's index returns exactly the blocks of the
   sections that pass the test, and every record meeting the range lies in one of them ---- *)
Theorem zoom_query_complete fp (b ips dpos ipos : N) (rsecs : list (list zrec)) (sds : list sdata) :
  Forall sec_ok rsecs -> mapM (encode_zoom_section fp) rsecs = Ok sds ->
  let secs := place dpos sds in
  2 <= b <= 65535 -> secs <> [] -> sorted_starts (map sect_span secs) -> Forall sect_ok secs ->
  exists bs levels, write_index b ips ipos secs = Ok (bs, levels)
    /\ (ipos + Nlen bs <= U64 ->
        forall pre post q s e fuel, Nlen pre = ipos -> (length bs <= fuel)%nat ->
          let hit := filter (fun p => zsec_hit q s e (fst p)) (combine rsecs secs) in
          search_bytes fuel false (pre ++ bs ++ post) (ipos + 48) q s e
            = Ok (map (fun p => (s_off (snd p), s_size (snd p))) hit)
          /\ flat_map (fun p => filter (zkeep q s e) (fst p)) hit = filter (zkeep q s e) (concat rsecs)
          /\ forall z, In z (concat rsecs) -> z_chrom z = q -> s < z_end z -> z_start z < e ->
               exists p, In p hit /\ In z (fst p)).
Proof.
  intros Hok Henc secs Hb Hne Hsorted Hsok.
  destruct (search_bytes_eq_scan b ips ipos secs Hb Hne Hsorted Hsok) as [bs [levels [Hw Hsearch]]].
  exists bs, levels. split; [exact Hw|]. intros Hfit pre post q s e fuel Hpre Hfuel hit.
  pose proof (zoom_index_test fp q s e rsecs sds dpos Henc) as Hf2. fold secs in Hf2.
  assert (Hlen : length rsecs = length secs) by (eapply f2_length; exact Hf2).
  split; [|split].
  - rewrite (Hsearch Hfit pre post q s e fuel Hpre Hfuel). unfold scan.
    rewrite (forall2_filter (zsec_hit q s e) (fun sct => overlaps q s e (sect_span sct)) rsecs secs Hf2).
    rewrite map_map. reflexivity.
  - rewrite <- (zoom_query_sections q s e rsecs Hok). unfold hit. apply hit_flat. exact Hlen.
  - intros z Hin Hc Hs He. apply in_concat in Hin. destruct Hin as [sec [Hsec Hz]].
    destruct (In_nth _ _ [] Hsec) as [n [Hn Hnth]].
    exists (sec, nth n secs {| s_chrom := 0; s_start := 0; s_end := 0; s_off := 0; s_size := 0 |}).
    split; [|exact Hz]. unfold hit. apply filter_In. split.
    + rewrite <- Hnth at 1. rewrite <- combine_nth by exact Hlen. apply nth_In. rewrite combine_length. lia.
    + cbn [fst]. rewrite Forall_forall in Hok. apply (keep_hit q s e sec z (Hok sec Hsec) Hz).
      unfold zkeep. apply andb_true_iff. split; [apply andb_true_iff; split|].
      * apply N.eqb_eq. exact Hc.
      * apply N.leb_le. lia.
      * apply N.leb_le. lia.
Qed.
