(* split_file_into_chunks_by_size (Model/Chunker.v) terminates, cuts the file into consecutive
   pieces that start at line starts, and reading the pieces in order gives the lines of the file. *)
From BT Require Import Base.Util Model.FileView Model.Chunker Proofs.FileViewSim.
Local Open Scope N_scope.

(* ---------- takeN / dropN / range ---------- *)

Lemma dropN_app_len : forall X (pre post : list X), dropN (pre ++ post) (Nlen pre) = post.
Proof.
  intros X pre post. induction pre as [|x r IH].
  - rewrite Nlen_nil. apply dropN_0.
  - cbn [app]. rewrite Nlen_cons. rewrite dropN_cons_pos by lia.
    replace (Nlen r + 1 - 1) with (Nlen r) by lia. exact IH.
Qed.

Lemma range_empty : forall (file : list N) a, range file a a = [].
Proof. intros file a. unfold range. rewrite N.sub_diag. apply takeN_0. Qed.

Lemma range_app : forall (file : list N) a b e,
  a <= b -> b <= e -> range file a b ++ range file b e = range file a e.
Proof.
  intros file a b e Hab Hbe. unfold range.
  rewrite (takeN_split _ (dropN file a) (b - a) (e - a)) by lia.
  rewrite dropN_dropN.
  replace (a + (b - a)) with b by lia.
  replace (e - a - (b - a)) with (e - b) by lia.
  reflexivity.
Qed.

Lemma range_last_NL : forall (pre post : list N) a,
  a <= Nlen pre ->
  range (pre ++ NL :: post) a (Nlen pre + 1) = range (pre ++ NL :: post) a (Nlen pre) ++ [NL].
Proof.
  intros pre post a Ha.
  rewrite <- (range_app _ a (Nlen pre) (Nlen pre + 1)) by lia.
  f_equal. unfold range. rewrite dropN_app_len.
  replace (Nlen pre + 1 - Nlen pre) with 1 by lia.
  rewrite takeN_cons_pos by lia.
  change (1 - 1) with 0. now rewrite takeN_0.
Qed.

(* a piece that starts before a line start and ends at it ends with a newline *)
Lemma cut_ok_range : forall (file : list N) a b,
  cut_ok file b -> a < b -> exists x, range file a b = x ++ [NL].
Proof.
  intros file a b Hcut Hab.
  destruct Hcut as [-> | (pre & post & -> & ->)]; [exfalso; lia|].
  eexists. apply range_last_NL. lia.
Qed.

(* ---------- line_end ---------- *)

Lemma line_end_spec : forall (bytes : list N) off pos,
  pos <= off + Nlen bytes ->
  pos <= line_end bytes off pos /\
  off <= line_end bytes off pos /\
  line_end bytes off pos <= off + Nlen bytes /\
  (pos < off + Nlen bytes -> pos < line_end bytes off pos) /\
  (line_end bytes off pos = off + Nlen bytes \/
   exists pre post, bytes = pre ++ NL :: post /\ line_end bytes off pos = off + Nlen pre + 1).
Proof.
  intros bytes. induction bytes as [|x t IH]; intros off pos Hpos; cbn [line_end].
  - rewrite Nlen_nil in *.
    split; [lia|]. split; [lia|]. split; [lia|]. split; [lia|]. left. lia.
  - rewrite Nlen_cons in *.
    destruct ((pos <=? off) && (x =? NL)) eqn:E.
    + apply andb_prop in E. destruct E as [E1 E2].
      apply N.leb_le in E1. apply N.eqb_eq in E2. subst x.
      split; [lia|]. split; [lia|]. split; [lia|]. split; [lia|].
      right. exists [], t. split; [reflexivity|]. rewrite Nlen_nil. lia.
    + destruct (IH (off + 1) pos) as (H1 & H2 & H3 & H4 & H5); [lia|].
      split; [lia|]. split; [lia|]. split; [lia|]. split; [lia|].
      destruct H5 as [H5 | (pre & post & Hb & Hr)].
      * left. lia.
      * right. exists (x :: pre), post. split.
        -- cbn [app]. now rewrite Hb.
        -- rewrite Nlen_cons. lia.
Qed.

(* ---------- the loop ---------- *)

Lemma split_loop_ok : forall fuel (file : list N) csz s e,
  s <= e -> e <= Nlen file -> cut_ok file s ->
  (s < Nlen file \/ Nlen file = 0) ->
  (N.to_nat (Nlen file - s) < fuel)%nat ->
  exists l, split_loop fuel file (Nlen file) csz s e = Ok l /\
            chain s l (Nlen file) /\
            Forall (fun ab => cut_ok file (fst ab)) l /\
            (s < Nlen file -> Forall (fun ab => fst ab < snd ab) l).
Proof.
  intros fuel. induction fuel as [|f IH]; intros file csz s e Hse He Hcut Hs Hfuel.
  - exfalso; lia.
  - cbn [split_loop].
    destruct (line_end_spec file 0 e) as (L1 & L2 & L3 & L4 & L5); [lia|].
    rewrite N.add_0_l in *.
    set (le := line_end file 0 e) in *.
    destruct (N.leb_spec (Nlen file) le) as [E|E].
    + assert (Hle : le = Nlen file) by lia.
      exists [(s, le)]. split; [reflexivity|]. rewrite Hle. split.
      * apply chain_last. lia.
      * split.
        -- constructor; [exact Hcut | constructor].
        -- intros Hlt. constructor; [cbn [fst snd]; lia | constructor].
    + assert (Hsl : s < le).
      { destruct Hs as [Hs|Hs]; [|exfalso; lia].
        destruct (N.eq_dec e (Nlen file)) as [Ee|Ee]; lia. }
      assert (Hcut' : cut_ok file le).
      { destruct L5 as [L5 | (pre & post & Hf & Hr)]; [exfalso; lia|].
        right. exists pre, post. split; [exact Hf | lia]. }
      destruct (IH file csz le (N.min (N.max le (s + csz + csz)) (Nlen file)))
        as (l & Hl & Hc & Hcs & Hne); [lia | lia | exact Hcut' | left; exact E | lia |].
      rewrite Hl. cbn [rbind].
      exists ((s, le) :: l). split; [reflexivity|]. split.
      * apply chain_cons; [lia | exact Hc].
      * split.
        -- constructor; [exact Hcut | exact Hcs].
        -- intros _. constructor; [cbn [fst snd]; lia | apply Hne; exact E].
Qed.

(* terminates (never Fuel/Panic/Err) for every file and every chunk count >= 1; the pieces are
   contiguous from 0 to the file size; every piece starts at a line start; no piece is empty
   unless the file is *)
Lemma chunks_partition : forall (file : list N) (n : N), 1 <= n ->
  exists cs, split_file_into_chunks_by_size file n = Ok cs /\
             chain 0 cs (Nlen file) /\
             Forall (fun ab => cut_ok file (fst ab)) cs /\
             (file <> [] -> Forall (fun ab => fst ab < snd ab) cs).
Proof.
  intros file n Hn. unfold split_file_into_chunks_by_size.
  destruct (N.eqb_spec n 0) as [E|E]; [exfalso; lia|]. cbv zeta.
  destruct (split_loop_ok (split_fuel file) file (Nlen file / n) 0 (Nlen file / n))
    as (l & Hl & Hc & Hcut & Hne).
  - apply N.le_0_l.
  - apply N.div_le_upper_bound; [exact E | nia].
  - left. reflexivity.
  - destruct file as [|x r]; [right; reflexivity | left; rewrite Nlen_cons; lia].
  - unfold split_fuel, Nlen. lia.
  - exists l. split; [exact Hl|]. split; [exact Hc|]. split; [exact Hcut|].
    intros Hf. apply Hne.
    destruct file as [|x r]; [contradiction | rewrite Nlen_cons; lia].
Qed.

(* ---------- lines ---------- *)

Lemma split_lines_acc_app : forall (x : list N) acc y,
  split_lines_acc (x ++ NL :: y) acc = split_lines_acc (x ++ [NL]) acc ++ split_lines y.
Proof.
  intros x. induction x as [|c t IH]; intros acc y.
  - cbn [app split_lines_acc]. rewrite N.eqb_refl. reflexivity.
  - cbn [app split_lines_acc]. destruct (c =? NL).
    + rewrite IH. reflexivity.
    + apply IH.
Qed.

Lemma split_lines_app : forall (x y : list N),
  (x = [] \/ exists x', x = x' ++ [NL]) ->
  split_lines (x ++ y) = split_lines x ++ split_lines y.
Proof.
  intros x y [-> | (x' & ->)].
  - reflexivity.
  - unfold split_lines. rewrite <- app_assoc. cbn [app]. apply split_lines_acc_app.
Qed.

Lemma chain_head : forall a cs e, chain a cs e ->
  a <= e /\ exists b t, cs = (a, b) :: t.
Proof.
  intros a cs e H. induction H as [a b Hab | a b cs e Hab Hch [IH _]].
  - split; [exact Hab | now exists b, []].
  - split; [lia | now exists b, cs].
Qed.

Lemma chain_lines : forall (file : list N) a cs e,
  chain a cs e ->
  Forall (fun ab => cut_ok file (fst ab)) cs ->
  concat (map (fun ab => split_lines (range file (fst ab) (snd ab))) cs)
  = split_lines (range file a e).
Proof.
  intros file a cs e H. induction H as [a b Hab | a b cs e Hab Hch IH]; intros Hcut.
  - cbn [map concat fst snd]. apply app_nil_r.
  - cbn [map concat fst snd].
    inversion Hcut as [|ab l _ Hcut']; subst.
    rewrite IH by exact Hcut'.
    destruct (chain_head _ _ _ Hch) as (Hbe & b' & t & ->).
    inversion Hcut' as [|ab l Hb _]; subst. cbn [fst] in Hb.
    rewrite <- (range_app file a b e) by lia.
    symmetry. apply split_lines_app.
    destruct (N.eq_dec a b) as [->|Hne].
    + left. apply range_empty.
    + right. apply cut_ok_range; [exact Hb | lia].
Qed.

(* reading the pieces one after the other gives the same lines as reading the file serially *)
Lemma chunks_lines : forall (file : list N) (n : N) (cs : list (N * N)),
  split_file_into_chunks_by_size file n = Ok cs ->
  concat (map (fun ab => split_lines (range file (fst ab) (snd ab))) cs) = split_lines file.
Proof.
  intros file n cs H.
  destruct (N.eq_dec n 0) as [->|Hn].
  - unfold split_file_into_chunks_by_size in H. rewrite N.eqb_refl in H. discriminate H.
  - destruct (chunks_partition file n) as (cs' & H' & Hc & Hcut & _); [lia|].
    rewrite H in H'. injection H' as <-.
    rewrite (chain_lines file 0 cs (Nlen file) Hc Hcut).
    rewrite range_self by lia. reflexivity.
Qed.

Lemma chunks_line_stream : forall (file : list N) (n : N) (cs : list (N * N)),
  split_file_into_chunks_by_size file n = Ok cs ->
  concat (map (fun ab => line_stream (range file (fst ab) (snd ab))) cs) = line_stream file.
Proof.
  intros file n cs H. unfold line_stream.
  rewrite <- (chunks_lines file n cs H).
  rewrite concat_map, map_map. reflexivity.
Qed.
