(* C01, whole file, part 5: the statements for the two writer models.
   bw_write and bw_write_multipass call [assemble] on the same bw_collect result with a different
   zoom part, so header, chromosome table, data region and main index are the same (bw_same_regions)
   and the round trip holds for both.  The only thing the zoom part must guarantee is that at most
   MAX_ZOOM_LEVELS (10) levels are written, so that the zoom directory stays inside the space
   write_blank_headers reserved; both writers guarantee it since /repo 3a3ac98 (before that repair
   an 11th level made write_info's directory run into the summary slot). *)
From BT Require Import Base.Util Base.LE Base.Float Generated.Consts Model.RTree Model.BBIFile
  Model.BigWigWrite Model.BBIRead Proofs.Chunks Proofs.BigWigQuery Proofs.RTreeCodec Proofs.FileRegions
  Proofs.BigWigFile Proofs.BigWigFileChroms Proofs.BigWigFileData Proofs.BigWigFileRoundTrip.
Local Open Scope N_scope.

(* ---------- how many zoom levels can be written ---------- *)
Lemma mapM_length {X Y} (f : X -> res Y) : forall l r, mapM f l = Ok r -> length r = length l.
Proof.
  induction l as [|x l IH]; intros r H; cbn [mapM] in H.
  - apply Ok_inj in H. now subst.
  - destruct (f x); cbn [rbind] in H; try discriminate. destruct (mapM f l) as [ys| | |]; cbn [rbind] in H; try discriminate.
    apply Ok_inj in H. subst r. cbn [length]. now rewrite (IH ys eq_refl).
Qed.

Lemma write_zooms_loop_len o ds : forall zs pos lc zc zb zh,
  write_zooms_loop o ds pos zs lc zc = Ok (zb, zh) -> (length zh <= length zs)%nat.
Proof.
  induction zs as [|z zs IH]; intros pos lc zc zb zh H; cbn [write_zooms_loop] in H.
  - apply Ok_inj in H. inversion H; subst. cbn; lia.
  - cbv zeta in H.
    destruct (_ && (ds / 2 <? _)); [apply IH in H; cbn [length]; lia|].
    destruct (_ && match lc with None => false | Some l => _ end); [apply IH in H; cbn [length]; lia|].
    destruct (write_index _ _ _ _) as [[ix lv]| | |]; cbn [rbind] in H; try discriminate.
    destruct (_ && (o_maxzooms o <=? zc + 1)).
    + apply Ok_inj in H. inversion H; subst. cbn [length]. lia.
    + destruct (write_zooms_loop _ _ _ _ _ _) as [[more hs]| | |] eqn:E; cbn [rbind] in H; try discriminate.
      apply Ok_inj in H. inversion H; subst. apply IH in E. cbn [length]. lia.
Qed.

Lemma write_zooms_two_pass_len o : forall zs pos zb zh,
  write_zooms_two_pass o pos zs = Ok (zb, zh) -> length zh = length zs.
Proof.
  induction zs as [|z zs IH]; intros pos zb zh H; cbn [write_zooms_two_pass] in H.
  - apply Ok_inj in H. inversion H; subst. reflexivity.
  - cbv zeta in H. destruct (write_index _ _ _ _) as [[ix lv]| | |]; cbn [rbind] in H; try discriminate.
    destruct (write_zooms_two_pass _ _ _) as [[more hs]| | |] eqn:E; cbn [rbind] in H; try discriminate.
    apply Ok_inj in H. inversion H; subst. apply IH in E. cbn [length]. lia.
Qed.

Lemma insert_sorted_length x l : (length (insert_sorted x l) <= S (length l))%nat.
Proof.
  induction l as [|y l IH]; cbn [insert_sorted length]; [lia|].
  destruct (x <? y); [cbn [length]; lia|]. destruct (x =? y); cbn [length]; lia.
Qed.
Lemma sort_dedup_length l : (length (sort_dedup l) <= length l)%nat.
Proof.
  unfold sort_dedup.
  assert (G : forall l acc, (length (fold_left (fun acc x => insert_sorted x acc) l acc) <= length acc + length l)%nat).
  { clear. induction l as [|x l IH]; intros acc; cbn [fold_left length]; [lia|].
    specialize (IH (insert_sorted x acc)). pose proof (insert_sorted_length x acc). lia. }
  specialize (G l []). cbn [length] in G. lia.
Qed.
Lemma filter_length {X} (f : X -> bool) l : (length (filter f l) <= length l)%nat.
Proof. induction l as [|x l IH]; cbn [filter length]; [lia|]. destruct (f x); cbn [length]; lia. Qed.
Lemma take_while_length {X} (f : X -> bool) l : (length (take_while f l) <= length l)%nat.
Proof. induction l as [|x l IH]; cbn [take_while length]; [lia|]. destruct (f x); cbn [length]; lia. Qed.

(* since /repo 3a3ac98 both writers keep at most MAX_ZOOM_LEVELS (10) resolutions, whatever the options *)
Lemma zoom_sizes_single_len o : (length (zoom_sizes_single o) <= 10)%nat.
Proof. unfold zoom_sizes_single. cbv zeta. rewrite firstn_length. change (N.to_nat MAX_ZOOM_LEVELS) with 10%nat. lia. Qed.
Lemma zoom_sizes_two_pass_len o sum counts ds : (length (zoom_sizes_two_pass o sum counts ds) <= 10)%nat.
Proof.
  unfold zoom_sizes_two_pass. destruct (o_manual o) as [zs|].
  - rewrite firstn_length. change (N.to_nat MAX_ZOOM_LEVELS) with 10%nat. lia.
  - cbv zeta. rewrite map_length. eapply Nat.le_trans; [apply take_while_length|].
    rewrite firstn_length. change MAX_ZOOM_LEVELS with 10. lia.
Qed.

(* ---------- the two writers as instances of assemble ---------- *)
Definition single_zoom_part (fp : fpmode) (o : opts) (outs : list chrom_out) (zooms : list zoom_level)
  : N -> N -> res (list N * list zoom_header) :=
  fun data_size zpos => write_zooms_loop o data_size zpos zooms None 0.

Definition zoom_levels_for (fp : fpmode) (o : opts) (outs : list chrom_out) (zsizes : list N) : res (list zoom_level) :=
  mapM (fun size =>
          do secs <- concat_res (map (fun c => zoom_sections fp (o_ips o) size (co_id c) (co_vals c)) outs);
          Ok {| zl_res := size; zl_secs := secs |}) zsizes.

Definition multi_zoom_part (fp : fpmode) (o : opts) (outs : list chrom_out) (sum : summary)
  : N -> N -> res (list N * list zoom_header) :=
  fun data_size zpos =>
    let zsizes := zoom_sizes_two_pass o sum (total_zoom_counts outs) data_size in
    do zooms <- zoom_levels_for fp o outs zsizes;
    write_zooms_two_pass o zpos zooms.

Lemma bw_write_inv fp o sizes inp bs : bw_write fp o sizes inp = Ok bs ->
  exists ids outs sum data zooms,
    bw_collect fp o sizes inp = Ok (ids, outs, sum, data)
    /\ zoom_levels_for fp o outs (zoom_sizes_single o) = Ok zooms
    /\ assemble o BIGWIG_MAGIC sizes ids sum data bw_pre 0 0 0 (single_zoom_part fp o outs zooms) (fun n => n) = Ok bs.
Proof.
  unfold bw_write. destruct (bw_collect fp o sizes inp) as [[[[ids outs] sum] data]| | |]; cbn [rbind]; try discriminate.
  cbv zeta. fold (zoom_levels_for fp o outs (zoom_sizes_single o)).
  destruct (zoom_levels_for fp o outs (zoom_sizes_single o)) as [zooms| | |] eqn:Ez; cbn [rbind]; try discriminate.
  intros H. exists ids, outs, sum, data, zooms. split; [reflexivity|]. split; [exact Ez|exact H].
Qed.

Lemma bw_write_multipass_inv fp o sizes inp bs : bw_write_multipass fp o sizes inp = Ok bs ->
  exists ids outs sum data,
    bw_collect fp o sizes inp = Ok (ids, outs, sum, data)
    /\ assemble o BIGWIG_MAGIC sizes ids sum data bw_pre 0 0 0 (multi_zoom_part fp o outs sum) (fun n => n) = Ok bs.
Proof.
  unfold bw_write_multipass. destruct (bw_collect fp o sizes inp) as [[[[ids outs] sum] data]| | |]; cbn [rbind]; try discriminate.
  cbv zeta. intros H. exists ids, outs, sum, data. split; [reflexivity|exact H].
Qed.

Lemma single_zoom_bound fp o outs zooms :
  zoom_levels_for fp o outs (zoom_sizes_single o) = Ok zooms ->
  forall ds zp zb zh, single_zoom_part fp o outs zooms ds zp = Ok (zb, zh) -> Nlen zh <= 10.
Proof.
  intros Hm ds zp zb zh H. unfold single_zoom_part in H. apply write_zooms_loop_len in H.
  apply mapM_length in Hm. pose proof (zoom_sizes_single_len o). unfold Nlen. lia.
Qed.
Lemma multi_zoom_bound fp o outs sum :
  forall ds zp zb zh, multi_zoom_part fp o outs sum ds zp = Ok (zb, zh) -> Nlen zh <= 10.
Proof.
  intros ds zp zb zh H. unfold multi_zoom_part in H. cbv zeta in H.
  destruct (zoom_levels_for _ _ _ _) as [zooms| | |] eqn:Em; cbn [rbind] in H; try discriminate.
  apply write_zooms_two_pass_len in H. apply mapM_length in Em.
  pose proof (zoom_sizes_two_pass_len o sum (total_zoom_counts outs) ds). unfold Nlen. lia.
Qed.

(* ---------- the round trip, stated once for "a writer" ---------- *)
Definition roundtrip_for (sizes : list (name * N)) (inp : list item) (bs : list N) : Prop :=
  exists i,
    read_info bs = Ok i
    /\ h_big (i_hdr i) = false /\ h_bigwig (i_hdr i) = true /\ h_version (i_hdr i) = 4
    /\ h_ubuf (i_hdr i) = 0 /\ h_full_data_off (i_hdr i) = PRE_DATA - 8 /\ h_summary_off (i_hdr i) = PRE_DATA - 48
    /\ h_zoom_levels (i_hdr i) = Nlen (i_zooms i) /\ Nlen (i_zooms i) <= 10
    /\ i_chroms i = expected_chroms sizes inp
    /\ forall infl c vs s e, In (c, vs) (runs inp) -> bw_interval infl bs i c s e = Ok (clip_filter s e vs).

Lemma roundtrip_of_assemble fp o sizes inp ids outs sum data zoom_part dco bs :
  bw_collect fp o sizes inp = Ok (ids, outs, sum, data) ->
  assemble o BIGWIG_MAGIC sizes ids sum data bw_pre 0 0 0 zoom_part dco = Ok bs ->
  (forall ds zp zb zh, zoom_part ds zp = Ok (zb, zh) -> Nlen zh <= 10) ->
  opts_ok o -> input_ok sizes inp -> Nlen bs < U64 -> roundtrip_for sizes inp bs.
Proof.
  intros Hcol Hasm Hz Ho Hi Hs.
  destruct (assemble_roundtrip _ _ _ _ _ _ _ _ _ _ _ Hcol Hasm Hz Ho Hi Hs)
    as (p & i & HA & Hri & Hh & Hc & Hzl & _ & Hq).
  exists i. split; [exact Hri|]. rewrite Hh. cbn [written_header h_big h_bigwig h_version h_ubuf h_full_data_off
    h_summary_off h_zoom_levels].
  repeat (split; [reflexivity|]).
  assert (Hn : Nlen (i_zooms i) = Nlen (fp_zhdrs p)) by (unfold Nlen; now rewrite Hzl).
  split; [now rewrite Hn|]. split.
  - rewrite Hn. destruct HA as (_ & _ & Hzp & _). exact (Hz _ _ _ _ Hzp).
  - split; [exact Hc|exact Hq].
Qed.

Theorem bw_write_roundtrip fp o sizes inp bs :
  bw_write fp o sizes inp = Ok bs -> opts_ok o -> input_ok sizes inp -> Nlen bs < U64 ->
  roundtrip_for sizes inp bs.
Proof.
  intros H Ho Hi Hs. destruct (bw_write_inv _ _ _ _ _ H) as (ids & outs & sum & data & zooms & Hcol & Hm & Hasm).
  exact (roundtrip_of_assemble _ _ _ _ _ _ _ _ _ _ _ Hcol Hasm (single_zoom_bound fp o outs zooms Hm) Ho Hi Hs).
Qed.

Theorem bw_write_multipass_roundtrip fp o sizes inp bs :
  bw_write_multipass fp o sizes inp = Ok bs -> opts_ok o -> input_ok sizes inp -> Nlen bs < U64 ->
  roundtrip_for sizes inp bs.
Proof.
  intros H Ho Hi Hs. destruct (bw_write_multipass_inv _ _ _ _ _ H) as (ids & outs & sum & data & Hcol & Hasm).
  exact (roundtrip_of_assemble _ _ _ _ _ _ _ _ _ _ _ Hcol Hasm (multi_zoom_bound fp o outs sum) Ho Hi Hs).
Qed.

(* ---------- the two writers produce the same header fields, data region, chromosome tree and index ---------- *)
Theorem bw_same_regions fp o sizes inp bs1 bs2 :
  bw_write fp o sizes inp = Ok bs1 -> bw_write_multipass fp o sizes inp = Ok bs2 ->
  exists data ct ix pre1 pre2 z1 z2,
    bs1 = pre1 ++ data ++ ct ++ ix ++ z1 /\ bs2 = pre2 ++ data ++ ct ++ ix ++ z2
    /\ length pre1 = 352%nat /\ length pre2 = 352%nat.
Proof.
  intros H1 H2.
  destruct (bw_write_inv _ _ _ _ _ H1) as (ids & outs & sum & data & zooms & Hcol & Hm & Hasm1).
  destruct (bw_write_multipass_inv _ _ _ _ _ H2) as (ids' & outs' & sum' & data' & Hcol' & Hasm2).
  rewrite Hcol in Hcol'. apply Ok_inj in Hcol'. inversion Hcol'; subst ids' outs' sum' data'; clear Hcol'.
  destruct (assemble_inv _ _ _ _ _ _ _ _ _ _ _ _ _ Hasm1) as [p1 HA1].
  { intros ds zp zb zh E. pose proof (single_zoom_bound fp o outs zooms Hm _ _ _ _ E). change (Nlen bw_pre) with 352. lia. }
  destruct (assemble_inv _ _ _ _ _ _ _ _ _ _ _ _ _ Hasm2) as [p2 HA2].
  { intros ds zp zb zh E. pose proof (multi_zoom_bound fp o outs sum _ _ _ _ E). change (Nlen bw_pre) with 352. lia. }
  destruct HA1 as (Hct1 & Hix1 & _ & E1 & L1 & _). destruct HA2 as (Hct2 & Hix2 & _ & E2 & L2 & _).
  rewrite Hct1 in Hct2. apply Ok_inj in Hct2. rewrite <- Hct2 in Hix2. rewrite Hix1 in Hix2. apply Ok_inj in Hix2.
  inversion Hix2 as [[Eix Elv]].
  exists (data_bytes data), (fp_ct p1), (fp_ix p1), (fp_pre p1), (fp_pre p2),
    (fp_zbytes p1 ++ u32 BIGWIG_MAGIC), (fp_zbytes p2 ++ u32 BIGWIG_MAGIC).
  split; [exact E1|]. split; [rewrite E2, <- Hct2, <- Eix; reflexivity|]. split; [exact L1|exact L2].
Qed.

(* ---------- the statements Properties/C01.v exports ---------- *)
Lemma roundtrip_read_info sizes inp bs : roundtrip_for sizes inp bs ->
  exists i, read_info bs = Ok i
    /\ h_big (i_hdr i) = false /\ h_bigwig (i_hdr i) = true /\ h_version (i_hdr i) = 4
    /\ h_ubuf (i_hdr i) = 0 /\ h_full_data_off (i_hdr i) = PRE_DATA - 8 /\ h_summary_off (i_hdr i) = PRE_DATA - 48
    /\ h_zoom_levels (i_hdr i) = Nlen (i_zooms i) /\ Nlen (i_zooms i) <= 10.
Proof. intros (i & H & H1 & H2 & H3 & H4 & H5 & H6 & H7 & H8 & _). exists i. repeat (split; [assumption|]). assumption. Qed.

Lemma roundtrip_chroms sizes inp bs i : roundtrip_for sizes inp bs -> read_info bs = Ok i ->
  i_chroms i = expected_chroms sizes inp.
Proof.
  intros (i' & H & _ & _ & _ & _ & _ & _ & _ & _ & Hc & _) Hri. rewrite H in Hri. apply Ok_inj in Hri. now subst.
Qed.

Lemma roundtrip_query sizes inp bs i infl c vs s e : roundtrip_for sizes inp bs -> read_info bs = Ok i ->
  In (c, vs) (runs inp) -> bw_interval infl bs i c s e = Ok (clip_filter s e vs).
Proof.
  intros (i' & H & _ & _ & _ & _ & _ & _ & _ & _ & _ & Hq) Hri. rewrite H in Hri. apply Ok_inj in Hri. subst. apply Hq.
Qed.

Section Statements.
Variables (fp : fpmode) (o : opts) (sizes : list (name * N)) (inp : list item) (bs : list N).
Hypothesis Ho : opts_ok o.
Hypothesis Hi : input_ok sizes inp.
Hypothesis Hs : Nlen bs < U64.

Lemma write_accepted : bw_write fp o sizes inp = Ok bs \/ bw_write_multipass fp o sizes inp = Ok bs ->
  forall c vs, In (c, vs) (runs inp) -> exists len, lookup c sizes = Some len /\ wf_vals len vs /\ vs <> [].
Proof.
  intros [H|H] c vs Hin.
  - destruct (bw_write_inv _ _ _ _ _ H) as (ids & outs & sum & data & zooms & Hcol & _).
    exact (collect_accepted _ _ _ _ _ _ _ _ c vs Hcol Hin).
  - destruct (bw_write_multipass_inv _ _ _ _ _ H) as (ids & outs & sum & data & Hcol & _).
    exact (collect_accepted _ _ _ _ _ _ _ _ c vs Hcol Hin).
Qed.

(* an accepted input has one run per chromosome *)
Lemma write_grouped : bw_write fp o sizes inp = Ok bs \/ bw_write_multipass fp o sizes inp = Ok bs ->
  NoDup (map fst (runs inp)).
Proof.
  intros [H|H].
  - destruct (bw_write_inv _ _ _ _ _ H) as (ids & outs & sum & data & zooms & Hcol & _). exact (collect_grouped _ _ _ _ _ Hcol).
  - destruct (bw_write_multipass_inv _ _ _ _ _ H) as (ids & outs & sum & data & Hcol & _). exact (collect_grouped _ _ _ _ _ Hcol).
Qed.

Lemma write_roundtrip_for : bw_write fp o sizes inp = Ok bs \/ bw_write_multipass fp o sizes inp = Ok bs ->
  roundtrip_for sizes inp bs.
Proof.
  intros [H|H]; [exact (bw_write_roundtrip _ _ _ _ _ H Ho Hi Hs)|exact (bw_write_multipass_roundtrip _ _ _ _ _ H Ho Hi Hs)].
Qed.

(* full-span read of a chromosome: every accepted value back, bit-identical, in order, except
   zero-length values at 0 / at the chromosome end *)
Lemma write_full_span : bw_write fp o sizes inp = Ok bs \/ bw_write_multipass fp o sizes inp = Ok bs ->
  forall i infl c vs len, read_info bs = Ok i -> In (c, vs) (runs inp) -> lookup c sizes = Some len ->
    bw_interval infl bs i c 0 len = Ok (filter (fun v => negb (boundary_zero len v)) vs).
Proof.
  intros H i infl c vs len Hri Hin Hl.
  rewrite (roundtrip_query sizes inp bs i infl c vs 0 len (write_roundtrip_for H) Hri Hin).
  destruct (write_accepted H c vs Hin) as (len' & Hl' & Hwf & _). rewrite Hl in Hl'. inversion Hl'; subst len'.
  now rewrite (full_span_read len vs Hwf).
Qed.
Lemma write_full_span_exact : bw_write fp o sizes inp = Ok bs \/ bw_write_multipass fp o sizes inp = Ok bs ->
  forall i infl c vs len, read_info bs = Ok i -> In (c, vs) (runs inp) -> lookup c sizes = Some len ->
    Forall (fun v => boundary_zero len v = false) vs -> bw_interval infl bs i c 0 len = Ok vs.
Proof.
  intros H i infl c vs len Hri Hin Hl Hb.
  rewrite (roundtrip_query sizes inp bs i infl c vs 0 len (write_roundtrip_for H) Hri Hin).
  destruct (write_accepted H c vs Hin) as (len' & Hl' & Hwf & _). rewrite Hl in Hl'. inversion Hl'; subst len'.
  now rewrite (full_span_read_exact len vs Hwf Hb).
Qed.
End Statements.
