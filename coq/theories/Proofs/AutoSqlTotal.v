(* The autoSql parser model is total: with fuel above the number of characters left (plus the
   declaration cap for the outermost loop) no loop runs out of fuel and no slice panics.
   The measure of every loop that re-enters the parser is the number of characters to the
   right of the start cursor, [length (rest p)]: it never grows, and every turn that continues
   makes it strictly smaller
     - value loop of enum( / set(: the value just eaten is non-empty (an empty one is the error
       that repairs D9);
     - field loop: [try_parse] returned a type, so it took a keyword of at least one character;
     - declaration loop: bounded by the counter [i] (cap AUTOSQL_DECL_CAP).
   The same induction bounds what the parser builds: every pushed value, field and declaration
   is paid for by at least one consumed character. *)
From Coq Require Import String Ascii.
From BT Require Import Base.Util Generated.Consts Model.AutoSql Proofs.AutoSqlLex.
Local Open Scope nat_scope.

(* ---- outcomes: a returned value satisfies Q, an error is fine, Panic and Fuel are excluded ---- *)
Definition post {X} (r : res X) (Q : X -> Prop) : Prop :=
  match r with Ok x => Q x | Err _ => True | Panic => False | Fuel => False end.

Lemma post_bind : forall X Y (r : res X) (k : X -> res Y) (Q : X -> Prop) (R : Y -> Prop),
  post r Q -> (forall x, Q x -> post (k x) R) -> post (rbind r k) R.
Proof. intros X Y [x|c| |] k Q R H HK; cbn in *; auto. Qed.
Lemma post_weaken : forall X (r : res X) (Q Q' : X -> Prop),
  post r Q -> (forall x, Q x -> Q' x) -> post r Q'.
Proof. intros X [x|c| |] Q Q' H HQ; cbn in *; auto. Qed.

Notation rlen p := (length (rest p)).

(* ---- the eaters, as posts ---- *)
Lemma eat_word_post : forall fuel p, rlen p < fuel ->
  post (eat_word fuel p) (fun '(w, p') => rlen p' + length w <= rlen p).
Proof.
  intros fuel p H. rewrite eat_word_spec by exact H. cbn [post rest].
  pose proof (drop_ws_length (rest p)). pose proof (word_of_length (drop_ws (rest p))).
  rewrite skipn_length. lia.
Qed.
Lemma eat_one_post : forall fuel p, rlen p < fuel ->
  post (eat_one fuel p) (fun '(w, p') => rlen p' + length w <= rlen p).
Proof.
  intros fuel p H. rewrite eat_one_spec by exact H. cbn [post rest].
  pose proof (drop_ws_length (rest p)). rewrite skipn_length, firstn_length. lia.
Qed.
Lemma eat_quoted_string_post : forall fuel p, rlen p < fuel ->
  post (eat_quoted_string fuel p) (fun '(w, p') => rlen p' + length w <= rlen p).
Proof.
  intros fuel p H. rewrite eat_quoted_string_spec by exact H. cbn [post rest].
  pose proof (drop_ws_length (rest p)). pose proof (quoted_of_length (drop_ws (rest p))).
  rewrite skipn_length. lia.
Qed.
Lemma peek_word_post : forall fuel p, rlen p < fuel ->
  post (peek_word fuel p) (fun '(w, p') => rlen p' <= rlen p).
Proof.
  intros fuel p H. rewrite peek_word_spec by exact H. cbn [post rest]. apply drop_ws_length.
Qed.
Lemma peek_one_post : forall fuel p, rlen p < fuel ->
  post (peek_one fuel p) (fun '(w, p') => rlen p' <= rlen p).
Proof.
  intros fuel p H. rewrite peek_one_spec by exact H. cbn [post rest]. apply drop_ws_length.
Qed.

Ltac step_with L :=
  eapply post_bind; [apply L; lia|]; cbv beta; intros [? ?] ?.

(* ---- index type and auto ---- *)
Lemma parse_index_auto_post : forall fuel p, rlen p < fuel ->
  post (parse_index_auto fuel p) (fun '(_, p') => rlen p' <= rlen p).
Proof.
  intros fuel p H. unfold parse_index_auto.
  step_with peek_word_post.
  eapply post_bind with (Q := fun '(_, p2) => rlen p2 <= rlen p).
  - destruct (beq l K_primary).
    { step_with eat_word_post. cbn [post]. lia. }
    destruct (beq l K_index).
    { step_with eat_word_post. step_with peek_one_post.
      destruct (beq l1 K_lbrack).
      - step_with eat_one_post. step_with eat_word_post. step_with eat_one_post.
        destruct (negb (beq l4 K_rbrack)); cbn [post]; [exact I|lia].
      - cbn [post]. lia. }
    destruct (beq l K_unique).
    { step_with eat_word_post. cbn [post]. lia. }
    cbn [post]. lia.
  - intros [it p2] H2. step_with peek_word_post.
    destruct (beq l0 K_auto).
    + step_with eat_word_post. cbn [post]. lia.
    + cbn [post]. lia.
Qed.

(* ---- DeclareName::parse ---- *)
Lemma declare_name_parse_post : forall fuel p, rlen p < fuel ->
  post (declare_name_parse fuel p) (fun '(_, p') => rlen p' <= rlen p).
Proof.
  intros fuel p H. unfold declare_name_parse.
  step_with eat_word_post.
  match goal with |- post (if ?b then _ else _) _ => destruct b end; [exact I|].
  step_with parse_index_auto_post. cbn [post]. lia.
Qed.

(* ---- the value loop: rest shrinks; every pushed value is paid for ---- *)
Lemma values_loop_post : forall lf fuel p vs, rlen p < lf -> rlen p < fuel ->
  post (values_loop lf fuel p vs)
       (fun '(vs', p') => rlen p' <= rlen p /\ length vs' + rlen p' <= length vs + rlen p).
Proof.
  induction lf as [|f IH]; intros fuel p vs Hlf Hfuel; [exfalso; lia|].
  cbn [values_loop].
  step_with eat_word_post.
  destruct (beq l K_rparen); [cbn [post]; lia|].
  destruct l as [|c l']; [exact I|].
  cbn [length] in *.
  step_with eat_one_post.
  destruct (beq l K_rparen).
  - cbn [post]. rewrite app_length. cbn [length]. lia.
  - eapply post_weaken; [apply IH; lia|].
    intros [vs' p'] [H1 H2]. rewrite app_length in H2. cbn [length] in H2. lia.
Qed.

(* ---- FieldType::try_parse: a recognised type consumed at least one character ---- *)
Lemma classify_nil : classify_type_word [] = WOther.
Proof. reflexivity. Qed.

Definition type_values (t : field_type) : nat :=
  match t with TEnum vs => length vs | TSet vs => length vs | _ => 0 end.

Lemma classify_basic : forall lw ty, classify_type_word lw = WBasic ty -> type_values ty = 0.
Proof.
  intros lw ty. unfold classify_type_word.
  repeat match goal with |- context [if ?b then _ else _] => destruct b end;
    intro E; inversion E; reflexivity.
Qed.
Lemma classify_values : forall lw mk, classify_type_word lw = WValues mk ->
  forall vs, type_values (mk vs) = length vs.
Proof.
  intros lw mk. unfold classify_type_word.
  repeat match goal with |- context [if ?b then _ else _] => destruct b end;
    intro E; inversion E; reflexivity.
Qed.

Lemma try_parse_post : forall fuel p, rlen p < fuel ->
  post (try_parse fuel p)
       (fun '(oft, p') => rlen p' <= rlen p /\
          match oft with Some t => 1 + type_values t + rlen p' <= rlen p | None => True end).
Proof.
  intros fuel p H. unfold try_parse. rewrite peek_word_spec by exact H. cbn [rbind].
  pose proof (drop_ws_length (rest p)) as Hd.
  destruct (word_of_prefix (drop_ws (rest p))) as [t Ht].
  remember (drop_ws (rest p)) as r eqn:Hr. remember (word_of r) as w eqn:Hw. clear Hr Hw.
  destruct w as [|c w'].
  { cbn [map]. rewrite classify_nil. cbn [post rest]. split; [lia|exact I]. }
  remember (c :: w') as w eqn:Hw.
  assert (Hlw : 1 <= length w) by (subst w; cbn [length]; lia). clear Hw.
  subst r. rewrite app_length in Hd. rewrite take_exact. cbn [rbind].
  destruct (classify_type_word (map to_lower w)) as [ty|mk|dt|] eqn:Ecl.
  - cbn [post rest]. rewrite (classify_basic _ _ Ecl). lia.
  - eapply post_bind; [apply eat_one_post; cbn [rest]; lia|]. cbv beta. intros [ob q1] Hq1. cbn [rest] in Hq1.
    destruct (negb (beq ob K_lparen)); [exact I|].
    eapply post_bind; [apply values_loop_post; lia|]. cbv beta. intros [vs q2] [Hv1 Hv2].
    cbn [post length] in *.
    rewrite (classify_values _ _ Ecl vs). lia.
  - eapply post_bind; [apply declare_name_parse_post; cbn [rest]; lia|]. cbv beta. intros [dn q1] Hq1.
    cbn [post rest type_values] in *. lia.
  - cbn [post rest]. rewrite app_length. split; [lia|exact I].
Qed.

(* ---- what the parser builds, counted: fields plus enum/set values; declarations plus their fields ---- *)
Definition fields_weight (fs : list field) : nat :=
  fold_right (fun f a => 1 + type_values (f_type f) + a) 0 fs.
Definition decls_weight (ds : list declaration) : nat :=
  fold_right (fun d a => 1 + fields_weight (d_fields d) + a) 0 ds.
Lemma fields_weight_snoc : forall fs f, fields_weight (fs ++ [f]) = fields_weight fs + 1 + type_values (f_type f).
Proof.
  unfold fields_weight. induction fs as [|g fs IH]; intro f; cbn [fold_right app]; [lia|]. rewrite IH. lia.
Qed.
Lemma decls_weight_snoc : forall ds d, decls_weight (ds ++ [d]) = decls_weight ds + 1 + fields_weight (d_fields d).
Proof.
  unfold decls_weight. induction ds as [|g ds IH]; intro d; cbn [fold_right app]; [lia|]. rewrite IH. lia.
Qed.
Lemma fields_weight_length : forall fs, length fs <= fields_weight fs.
Proof. unfold fields_weight. induction fs as [|g fs IH]; cbn [fold_right length]; lia. Qed.

Lemma beq_true_length : forall a b, beq a b = true -> length a = length b.
Proof.
  induction a as [|x a IH]; intros [|y b] H; cbn [beq] in H; try discriminate H; [reflexivity|].
  apply andb_true_iff in H. destruct H as [_ H]. cbn [length]. rewrite (IH b H). reflexivity.
Qed.

(* ---- parse_field_list ---- *)
Lemma field_list_loop_post : forall lf fuel p fs, rlen p < lf -> rlen p < fuel ->
  post (field_list_loop lf fuel p fs)
       (fun '(fs', p') => rlen p' <= rlen p /\ fields_weight fs' + rlen p' <= fields_weight fs + rlen p).
Proof.
  induction lf as [|f IH]; intros fuel p fs Hlf Hfuel; [exfalso; lia|].
  cbn [field_list_loop].
  eapply post_bind; [apply try_parse_post; lia|]. cbv beta. intros [oft p1] [Hp1 Hty].
  destruct oft as [ft|]; [|cbn [post]; lia].
  step_with peek_one_post.
  eapply post_bind with (Q := fun '(_, p3) => rlen p3 <= rlen p1).
  { destruct (beq l K_lbrack).
    - step_with eat_one_post. step_with eat_word_post. step_with eat_one_post.
      destruct (negb (beq l2 K_rbrack)); [exact I|].
      step_with eat_word_post. cbn [post]. lia.
    - step_with eat_word_post. cbn [post]. lia. }
  intros [sn p3] Hp3.
  step_with parse_index_auto_post.
  step_with eat_one_post.
  destruct (negb (beq l0 K_semi)); [exact I|].
  step_with eat_quoted_string_post.
  step_with peek_one_post.
  destruct (beq l2 K_rparen).
  - cbn [post]. rewrite fields_weight_snoc. cbn [f_type]. lia.
  - eapply post_weaken; [apply IH; lia|].
    intros [fs' p'] [Hr1 Hr2]. rewrite fields_weight_snoc in Hr2. cbn [f_type] in Hr2. lia.
Qed.

Lemma parse_field_list_post : forall fuel p, rlen p < fuel ->
  post (parse_field_list fuel p)
       (fun '(fs', p') => rlen p' <= rlen p /\ fields_weight fs' + rlen p' <= rlen p).
Proof.
  intros fuel p H. unfold parse_field_list.
  eapply post_weaken; [apply field_list_loop_post; lia|].
  intros [fs' p'] [H1 H2]. cbn [fields_weight fold_right] in H2. lia.
Qed.

(* ---- parse_declaration ---- *)
Lemma parse_declaration_post : forall fuel p, rlen p < fuel ->
  post (parse_declaration fuel p)
       (fun '(od, p') => rlen p' <= rlen p /\
          match od with Some d => 1 + fields_weight (d_fields d) + rlen p' <= rlen p | None => True end).
Proof.
  intros fuel p H. unfold parse_declaration.
  step_with eat_word_post.
  assert (Hcont : forall dt, 1 <= length l ->
    post (do (dn, p2) <- declare_name_parse fuel p0;
          do (comment, p3) <- eat_quoted_string fuel p2;
          do (opening_bracket, p4) <- eat_one fuel p3;
          if negb (beq opening_bracket K_lparen) then Err E_InvalidDeclareBrackets
          else
            do (fields, p5) <- parse_field_list fuel p4;
            do (closing_bracket, p6) <- eat_one fuel p5;
            if negb (beq closing_bracket K_rparen) then Err E_InvalidDeclareBrackets
            else Ok (Some (mkDecl dt dn comment fields), p6))
         (fun '(od, p') => rlen p' <= rlen p /\
            match od with Some d => 1 + fields_weight (d_fields d) + rlen p' <= rlen p | None => True end)).
  { intros dt Hl.
    step_with declare_name_parse_post.
    step_with eat_quoted_string_post.
    step_with eat_one_post.
    destruct (negb (beq l1 K_lparen)); [exact I|].
    eapply post_bind; [apply parse_field_list_post; lia|]. cbv beta. intros [fs p5] [Hf1 Hf2].
    step_with eat_one_post.
    destruct (negb (beq l2 K_rparen)); [exact I|].
    cbn [post d_fields]. lia. }
  destruct (beq l K_simple) eqn:E1.
  { apply Hcont. rewrite (beq_true_length _ _ E1). cbn [K_simple length]. lia. }
  destruct (beq l K_object) eqn:E2.
  { apply Hcont. rewrite (beq_true_length _ _ E2). cbn [K_object length]. lia. }
  destruct (beq l K_table) eqn:E3.
  { apply Hcont. rewrite (beq_true_length _ _ E3). cbn [K_table length]. lia. }
  destruct (beq l []); cbn [post]; [lia|exact I].
Qed.

(* ---- parse_declaration_list / parse_autosql ---- *)
Lemma decl_list_loop_post : forall lf fuel i p ds,
  N.to_nat (AUTOSQL_DECL_CAP + 1 - i) < lf -> rlen p < fuel ->
  post (decl_list_loop lf fuel i p ds)
       (fun ds' => decls_weight ds' <= decls_weight ds + rlen p /\
                   length ds' <= length ds + N.to_nat (AUTOSQL_DECL_CAP + 1 - i)).
Proof.
  induction lf as [|f IH]; intros fuel i p ds Hlf Hfuel; [exfalso; lia|].
  cbn [decl_list_loop].
  destruct (N.ltb_spec AUTOSQL_DECL_CAP i) as [Hi|Hi]; [cbn [post]; lia|].
  eapply post_bind; [apply parse_declaration_post; lia|]. cbv beta. intros [od p1] [Hp1 Hd].
  destruct od as [d|]; [|cbn [post]; lia].
  eapply post_weaken; [apply IH; lia|].
  intros ds' [H1 H2]. rewrite decls_weight_snoc in H1. rewrite app_length in H2. cbn [length] in H2. lia.
Qed.

Theorem parse_autosql_post : forall s fuel, parse_fuel s <= fuel ->
  post (parse_autosql fuel s)
       (fun ds => decls_weight ds <= length s /\ length ds <= N.to_nat AUTOSQL_DECL_CAP + 1).
Proof.
  intros s fuel H. unfold parse_fuel in H. unfold parse_autosql, parser_of.
  eapply post_weaken; [apply decl_list_loop_post; cbn [rest]; lia|].
  intros ds [H1 H2]. cbn [rest decls_weight fold_right length] in *. lia.
Qed.

(* the parser returns declarations or an error: never out of fuel (a hang), never a panic *)
Theorem parser_total : forall (s : list N) (fuel : nat), parse_fuel s <= fuel ->
  (exists ds, parse_autosql fuel s = Ok ds) \/ (exists c, parse_autosql fuel s = Err c).
Proof.
  intros s fuel H. pose proof (parse_autosql_post s fuel H) as P.
  destruct (parse_autosql fuel s) as [ds|c| |]; cbn [post] in P;
    [left; exists ds; reflexivity|right; exists c; reflexivity|contradiction|contradiction].
Qed.

(* and what it returns is bounded by the input: at most cap+1 declarations, and declarations +
   fields + enum/set values together number at most the characters of the input *)
Theorem parser_output_bounded : forall (s : list N) (fuel : nat) ds, parse_fuel s <= fuel ->
  parse_autosql fuel s = Ok ds ->
  length ds <= N.to_nat AUTOSQL_DECL_CAP + 1 /\ decls_weight ds <= length s.
Proof.
  intros s fuel ds H E. pose proof (parse_autosql_post s fuel H) as P. rewrite E in P.
  cbn [post] in P. lia.
Qed.
