(* Progress of the pipeline with the staging buffers in full (Model/PipelineConc.v): the composed system has
   no deadlock, and in particular the splice task, inside await_real_file, never waits on the condition
   variable: when it gets there [closed] is set.

   On top of the simulation relation of Proofs/PipelineRefine.v (CInv) this needs to know where each
   buffer's two threads are (XP):
     - a buffer the splice task has not finished with has handed back no destination;
     - the consumer is between the two shared accesses of await_real_file only in buffer sp_k at SAwaitFile;
     - the consumer of a buffer the splice task has not reached has its whole program before it;
     - byte accounting of the BufWriter: (bytes passed on) ++ x_bw = bytes of the sections written so far, and
       (bytes passed on) ++ (bytes of the remaining write() calls) = the chromosome's bytes; inside a write(w),
       w is at the front of x_bw.
   Then every enabled step of the abstract machine (C11_progress) is matched by an enabled concrete step:
   the abstract "loop ends, writer dropped" by CWrite (leave the loop) or CBuf (the remaining write()s - the
   BufWriter holds exactly their bytes - then the Drop). *)
From BT Require Import Base.Util Model.RTree Model.BBIFile Model.Pipeline Model.PipelineConc
  Proofs.PipelineInv Proofs.PipelineThms Proofs.PipelineRefine.
From BT Require Model.TempBuf Proofs.TempBufInv Proofs.TempBufThms.

(* ---------------------------------------------------------------- facts about single steps of the buffer machine *)
Lemma step_p_dest b b' : TempBuf.step_p b = Some b' -> TempBuf.c_dest b' = TempBuf.c_dest b.
Proof.
  destruct b as [mb cl ps todo mid dr prog cm ob de pn]. cbn. destruct dr; [discriminate|].
  destruct todo as [|[w|] rest]; [| |]; try (intros E; inversion E; subst; reflexivity).
  destruct mid; destruct ps; try destruct mb; intros E; inversion E; subst; reflexivity.
Qed.

Lemma step_c_producer d0 b b' : TempBuf.step_c d0 b = Some b' ->
  TempBuf.p_todo b' = TempBuf.p_todo b /\ TempBuf.p_mid b' = TempBuf.p_mid b.
Proof.
  destruct b as [mb cl ps todo mid dr prog cm ob de pn]. cbn.
  destruct cm as [|y|y].
  - destruct prog as [|[| | | |] rest]; [discriminate| | | | |].
    + destruct mb; intros E; inversion E; auto.
    + intros E; inversion E; auto.
    + destruct cl as [[| |]|]; intros E; inversion E; auto.
    + destruct cl; intros E; inversion E; auto.
    + destruct cl; intros E; inversion E; auto.
  - destruct mb; destruct y; intros E; inversion E; auto.
  - destruct mb; [|destruct y]; intros E; inversion E; auto.
Qed.

(* between calls, a consumer step hands back nothing *)
Lemma step_c_idle_dest d0 b b' : TempBuf.c_mid b = TempBuf.CIdle -> TempBuf.step_c d0 b = Some b' ->
  TempBuf.c_dest b' = TempBuf.c_dest b.
Proof.
  destruct b as [mb cl ps todo mid dr prog cm ob de pn]. cbn. intros ->.
  destruct prog as [|[| | | |] rest]; [discriminate| | | | |].
  - destruct mb; intros E; inversion E; reflexivity.
  - intros E; inversion E; reflexivity.
  - destruct cl as [[| |]|]; intros E; inversion E; reflexivity.
  - destruct cl; intros E; inversion E; reflexivity.
  - destruct cl; intros E; inversion E; reflexivity.
Qed.

Lemma step_c_switch d0 b rest : TempBuf.c_mid b = TempBuf.CIdle -> TempBuf.c_prog b = TempBuf.CSwitch :: rest ->
  exists b', TempBuf.step_c d0 b = Some b'.
Proof.
  destruct b as [mb cl ps todo mid dr prog cm ob de pn]. cbn. intros -> ->. destruct mb; eexists; reflexivity.
Qed.

Lemma step_c_switch_idle d0 b b' rest : TempBuf.c_mid b = TempBuf.CIdle -> TempBuf.c_prog b = TempBuf.CSwitch :: rest ->
  TempBuf.step_c d0 b = Some b' -> TempBuf.c_mid b' = TempBuf.CIdle.
Proof.
  destruct b as [mb cl ps todo mid dr prog cm ob de pn]. cbn. intros -> ->. destruct mb; intros E; inversion E; reflexivity.
Qed.

Lemma step_c_ready_idle d0 b b' rest : TempBuf.c_mid b = TempBuf.CIdle -> TempBuf.c_prog b = TempBuf.CReady :: rest ->
  TempBuf.step_c d0 b = Some b' -> TempBuf.c_mid b' = TempBuf.CIdle.
Proof.
  destruct b as [mb cl ps todo mid dr prog cm ob de pn]. cbn. intros -> ->. intros E; inversion E; reflexivity.
Qed.

(* a destination is handed back by the second access of a call, which ends the call *)
Lemma step_c_dest_idle d0 b b' r : TempBuf.step_c d0 b = Some b' -> TempBuf.c_dest b = None ->
  TempBuf.c_dest b' = Some r -> TempBuf.c_mid b' = TempBuf.CIdle.
Proof.
  destruct b as [mb cl ps todo mid dr prog cm ob de pn]. cbn. intros Hs ->.
  destruct cm as [|y|y].
  - destruct prog as [|[| | | |] rest]; [discriminate| | | | |].
    + destruct mb; inversion Hs; cbn; discriminate.
    + inversion Hs; cbn; discriminate.
    + destruct cl as [[| |]|]; inversion Hs; cbn; discriminate.
    + destruct cl; inversion Hs; cbn; discriminate.
    + destruct cl; inversion Hs; cbn; discriminate.
  - destruct mb; destruct y; inversion Hs; cbn; auto.
  - destruct mb; [|destruct y]; inversion Hs; cbn; auto.
Qed.

Lemma consumes_cprog np : TempBuf.consumes (cprog np) = true.
Proof. apply consumes_polls. Qed.

Lemma prefixb_spec : forall w l, prefixb w l = true -> exists r, l = w ++ r.
Proof.
  induction w as [|a w IH]; intros l; cbn [prefixb].
  - intros _. exists l. reflexivity.
  - destruct l as [|b l]; [discriminate|]. intros H. apply andb_prop in H. destruct H as [Hab Hw].
    apply N.eqb_eq in Hab. subst b. destruct (IH l Hw) as [r ->]. exists r. reflexivity.
Qed.

Lemma prefixb_app : forall w r, prefixb w (w ++ r) = true.
Proof. induction w as [|a w IH]; intros r; cbn [prefixb app]; [reflexivity|]. rewrite N.eqb_refl, IH. reflexivity. Qed.

Lemma skipn_app_len {X} (w r : list X) : skipn (length w) (w ++ r) = r.
Proof. induction w as [|a w IH]; cbn; auto. Qed.

Lemma written_cons_write w rest : TempBuf.written (TempBuf.PWrite w :: rest) = w ++ TempBuf.written rest.
Proof. reflexivity. Qed.
Lemma written_cons_flush rest : TempBuf.written (TempBuf.PFlush :: rest) = TempBuf.written rest.
Proof. reflexivity. Qed.

(* the writer half's accesses and the BufWriter's bytes *)
Definition bytes_ok (out W : bytes) (x : cextra) : Prop :=
  (exists fwd, fwd ++ x_bw x = out /\ fwd ++ TempBuf.written (TempBuf.p_todo (x_buf x)) = W) /\
  (TempBuf.p_mid (x_buf x) = true -> exists w rest r, TempBuf.p_todo (x_buf x) = TempBuf.PWrite w :: rest /\ x_bw x = w ++ r).

Lemma cbuf_bytes c x c' x' out W : cbuf_step c x = Some (c', x') ->
  (TempBuf.p_mid (x_buf x) = true -> TempBuf.p_state (x_buf x) <> TempBuf.NotStarted) ->
  bytes_ok out W x -> bytes_ok out W x'.
Proof.
  unfold cbuf_step, bw_guard, bytes_ok. destruct x as [bw lp b]. cbn [x_bw x_loop x_buf].
  destruct b as [mb cl ps todo mid dr prog cm ob de pn]. cbn [TempBuf.p_todo TempBuf.p_mid TempBuf.p_state TempBuf.step_p].
  intros Hs Hns [[fwd [Hout HW]] Hmid].
  destruct todo as [|[w|] rest].
  - (* the Drop *)
    destruct lp; [|discriminate]. destruct dr; [discriminate|]. inversion Hs; subst c' x'; clear Hs. cbn. split; [eauto|discriminate].
  - destruct mid.
    + (* the local write: w leaves the BufWriter *)
      destruct dr; [discriminate|]. specialize (Hns eq_refl).
      destruct (Hmid eq_refl) as [w0 [rest0 [r [E Hbw]]]]. inversion E; subst w0 rest0; clear E.
      rewrite written_cons_write in HW.
      assert (Hgoal : exists fwd0, fwd0 ++ skipn (length w) bw = out /\ fwd0 ++ TempBuf.written rest = W).
      { exists (fwd ++ w). rewrite Hbw, skipn_app_len, <- !app_assoc. rewrite Hbw in Hout. auto. }
      destruct ps as [|sb|d]; [congruence| |]; inversion Hs; subst c' x'; clear Hs; cbn; (split; [exact Hgoal|discriminate]).
    + (* update(): the write() call is entered *)
      destruct (prefixb w bw) eqn:Hpre; [|discriminate]. destruct (prefixb_spec _ _ Hpre) as [r Hr].
      destruct dr; [discriminate|].
      destruct ps as [|sb|d]; try destruct mb; inversion Hs; subst c' x'; clear Hs; cbn;
        (split; [exists fwd; auto|intros _; exists w, rest, r; auto]).
  - (* flush *)
    destruct dr; [discriminate|]. inversion Hs; subst c' x'; clear Hs. cbn. split; [exists fwd; auto|discriminate].
Qed.

Section Progress.
Variable g : params.
Variable np : nat.
Variable pre : bytes.
Variable Ss : list (list sdata).
Variable opss : list (list TempBuf.pop).
Hypothesis Hg : g_fifo g = true.
Hypothesis Hops : Forall2 (fun ops S => TempBuf.written ops = data_bytes S) opss Ss.

Lemma c12_cfg k b : c12_run np pre Ss opss k b ->
  TempBufInv.Cfg (Dk pre Ss k) (TempBuf.written (nth k opss [])) true b.
Proof.
  intros [sch ->]. rewrite <- (consumes_cprog np). apply TempBufInv.cfg_reach. apply legal_cprog.
Qed.

Lemma c12_mid_started k b : c12_run np pre Ss opss k b -> TempBuf.p_mid b = true -> TempBuf.p_state b <> TempBuf.NotStarted.
Proof.
  intros R. pose proof (c12_cfg k b R) as C. destruct C; cbn; try discriminate. auto.
Qed.

Lemma c12_not_terminal k b : c12_run np pre Ss opss k b -> TempBuf.c_dest b = None -> TempBuf.terminal b = false.
Proof.
  intros R Hd. destruct (TempBuf.terminal b) eqn:E; [|reflexivity].
  rewrite (TempBufThms.cfg_terminal_dest _ _ _ (c12_cfg k b R) E) in Hd. discriminate.
Qed.

(* where the two threads of buffer k are *)
Record xprog (spk : nat) (pc : spc) (k : nat) (c : chrom) (x : cextra) : Prop := {
  xp_dest : (spk <= k)%nat -> TempBuf.c_dest (x_buf x) = None;
  xp_idle : TempBuf.c_mid (x_buf x) <> TempBuf.CIdle -> k = spk /\ pc = SAwaitFile;
  xp_unstarted : (spk < k)%nat \/ (spk = k /\ pc = SRecv) -> TempBuf.c_prog (x_buf x) = cprog np;
  xp_bytes : bytes_ok (data_bytes (c_out c)) (data_bytes (nth k Ss [])) x }.

Definition XP (s : cst) : Prop :=
  forall k c x, nth_error (p_chroms (k_p s)) k = Some c -> nth_error (k_x s) k = Some x ->
    xprog (sp_k (k_p s)) (sp_pc (k_p s)) k c x.

Lemma xp_init : XP (cinit np pre Ss opss).
Proof.
  intros k c x Hc Hx. cbn [cinit k_p k_x init p_chroms sp_k sp_pc] in *. rewrite nth_error_map in Hc, Hx.
  destruct (nth_error Ss k) as [S|] eqn:ES; [|discriminate]. destruct (nth_error opss k) as [ops|] eqn:Eo; [|discriminate].
  cbn in Hc, Hx. inversion Hc; subst c. inversion Hx; subst x. constructor; cbn.
  - reflexivity.
  - congruence.
  - reflexivity.
  - split; [|discriminate]. exists []. cbn. split; [reflexivity|].
    rewrite <- (Forall2_nth_written _ _ Hops k), (nth_error_nth_default _ _ _ [] Eo). reflexivity.
Qed.

Lemma idle_dec (m : TempBuf.cmid) : m = TempBuf.CIdle \/ m <> TempBuf.CIdle.
Proof. destruct m; [left; reflexivity|right; discriminate|right; discriminate]. Qed.

(* an abstract-only change of chromosome k that keeps c_out *)
Lemma xprog_out spk pc k c c' x : c_out c' = c_out c -> xprog spk pc k c x -> xprog spk pc k c' x.
Proof. intros Ho [A B C D]. constructor; auto. rewrite Ho. exact D. Qed.

Lemma xprog_update spk pc chroms xs j c' x' :
  (forall k c x, nth_error chroms k = Some c -> nth_error xs k = Some x -> xprog spk pc k c x) ->
  xprog spk pc j c' x' ->
  forall k c x, nth_error (set_nth j c' chroms) k = Some c -> nth_error (set_nth j x' xs) k = Some x -> xprog spk pc k c x.
Proof.
  intros Hall Hj k c x Hc Hx.
  destruct (nth_error_set_cases _ _ _ _ _ Hc) as [[-> ->]|[Hne Hc']];
    destruct (nth_error_set_cases _ _ _ _ _ Hx) as [[Hk ->]|[Hne' Hx']]; try congruence.
  exact (Hall k c x Hc' Hx').
Qed.

Lemma xprog_update_x spk pc chroms xs j c x' : nth_error chroms j = Some c ->
  (forall k c x, nth_error chroms k = Some c -> nth_error xs k = Some x -> xprog spk pc k c x) ->
  xprog spk pc j c x' ->
  forall k c x, nth_error chroms k = Some c -> nth_error (set_nth j x' xs) k = Some x -> xprog spk pc k c x.
Proof.
  intros Hj Hall Hg' k c0 x Hc Hx. rewrite <- (set_nth_same_eq chroms j c Hj) in Hc.
  eapply xprog_update; eauto.
Qed.

Lemma main_step_ctl win p p' : main_step win p = Some p' -> sp_k p' = sp_k p /\ sp_pc p' = sp_pc p.
Proof.
  unfold main_step. destruct (p_closed p); [discriminate|].
  destruct ((p_started p <? length (p_chroms p))%nat && (p_started p - p_advanced p <? win)%nat); [intros H; inversion H; auto|].
  destruct (p_advanced p <? p_started p)%nat.
  - destruct (nth_error (p_chroms p) (p_advanced p)) as [c|]; [|discriminate]. destruct (c_todo c); [|discriminate].
    intros H; inversion H; auto.
  - destruct (length (p_chroms p) <=? p_started p)%nat; [|discriminate]. intros H; inversion H; auto.
Qed.

Lemma xp_on_chrom k f s p' : (forall c c', f c = Some c' -> c_out c' = c_out c) ->
  XP s -> on_chrom k f (k_p s) = Some p' -> XP (mkcs p' (k_x s)).
Proof.
  intros Hf X Hs. unfold on_chrom in Hs. destruct (k <? p_started (k_p s))%nat; [|discriminate].
  destruct (nth_error (p_chroms (k_p s)) k) as [c|] eqn:En; [|discriminate].
  destruct (f c) as [c'|] eqn:Ef; [|discriminate]. inversion Hs; subst p'; clear Hs.
  intros j cj xj Hc Hx. cbn [k_p k_x p_chroms sp_k sp_pc] in *.
  destruct (nth_error_set_cases _ _ _ _ _ Hc) as [[-> ->]|[Hne Hc']].
  - apply (xprog_out _ _ _ c c' xj (Hf c c' Ef)). apply (X k c xj En Hx).
  - apply (X j cj xj Hc' Hx).
Qed.

(* ---------------------------------------------------------------- preservation *)
Lemma xp_step t s s' : CInv g np pre Ss opss s -> XP s -> cstep g t s = Some s' -> XP s'.
Proof.
  intros C X Hs. pose proof (cinv_inv g np pre Ss opss Hg s C) as I.
  destruct t as [|k|k i|k|k| |]; cbn [cstep] in Hs.
  - (* main *)
    unfold lift_p in Hs. destruct (main_step (g_win g) (k_p s)) as [p'|] eqn:Em; [|discriminate].
    inversion Hs; subst s'; clear Hs. destruct (main_step_ctl _ _ _ Em) as [Hk Hpc].
    intros j c' x Hc Hx. cbn [k_p k_x] in *. rewrite Hk, Hpc.
    destruct (main_step_chroms _ _ _ Em j c' Hc) as [c [Hc0 [->| ->]]].
    + apply (X j c x Hc0 Hx).
    + apply (xprog_out _ _ _ c (close_sender c) x eq_refl). apply (X j c x Hc0 Hx).
  - unfold lift_p in Hs. destruct (on_chrom k (prod_step (g_cap g)) (k_p s)) as [p'|] eqn:Eo; [|discriminate].
    inversion Hs; subst s'; clear Hs. eapply xp_on_chrom; [|exact X|exact Eo].
    intros c c'. unfold prod_step. destruct (c_open c); [|discriminate]. destruct (c_todo c); [discriminate|].
    destruct (length (c_fifo c) <? g_cap g)%nat; [|discriminate]. intros H; inversion H; reflexivity.
  - unfold lift_p in Hs. destruct (on_chrom k (enc_step i) (k_p s)) as [p'|] eqn:Eo; [|discriminate].
    inversion Hs; subst s'; clear Hs. eapply xp_on_chrom; [|exact X|exact Eo].
    intros c c'. unfold enc_step. destruct (complete_at i (c_fifo c)); [|discriminate]. intros H; inversion H; reflexivity.
  - (* write_data *)
    unfold con_both in Hs. destruct (k <? p_started (k_p s))%nat eqn:Hk; [|discriminate].
    destruct (nth_error (p_chroms (k_p s)) k) as [c|] eqn:En; [|discriminate].
    destruct (nth_error (k_x s) k) as [x|] eqn:Ex; [|discriminate].
    destruct (cwrite_step (g_fifo g) c x) as [[c' x']|] eqn:Ew; [|discriminate].
    inversion Hs; subst s'; clear Hs. cbn [k_p k_x p_chroms sp_k sp_pc]. unfold XP. cbn [k_p k_x p_chroms sp_k sp_pc].
    apply xprog_update; [exact X|]. pose proof (X k c x En Ex) as [A B Cc [[fwd [Ho HW]] Hm]].
    rewrite Hg in Ew. unfold cwrite_step in Ew. destruct (x_loop x); [discriminate|].
    destruct (c_fifo c) as [|[s0 b0] q].
    + destruct (c_open c); [discriminate|]. inversion Ew; subst c' x'. constructor; cbn; auto. split; [eauto|exact Hm].
    + cbn [take_head] in Ew. destruct b0; [|discriminate]. inversion Ew; subst c' x'. constructor; cbn [x_buf x_bw c_out]; auto.
      unfold bytes_ok. cbn [x_buf x_bw]. split.
      * exists fwd. split; [|exact HW]. rewrite data_bytes_app, app_assoc, Ho. unfold data_bytes. cbn [flat_map]. rewrite app_nil_r. reflexivity.
      * intros Hmid. destruct (Hm Hmid) as [w [rest [r [E Hbw]]]]. exists w, rest, (r ++ sd_bytes s0). split; [exact E|].
        rewrite Hbw, <- app_assoc. reflexivity.
  - (* the writer half *)
    unfold con_both in Hs. destruct (k <? p_started (k_p s))%nat eqn:Hk; [|discriminate].
    destruct (nth_error (p_chroms (k_p s)) k) as [c|] eqn:En; [|discriminate].
    destruct (nth_error (k_x s) k) as [x|] eqn:Ex; [|discriminate].
    destruct (cbuf_step c x) as [[c' x']|] eqn:Eb; [|discriminate].
    inversion Hs; subst s'; clear Hs. unfold XP. cbn [k_p k_x p_chroms sp_k sp_pc].
    apply xprog_update; [exact X|]. pose proof (X k c x En Ex) as [A B Cc D].
    pose proof (xg_run _ _ _ _ _ _ _ (ci_good _ _ _ _ _ _ C k c x En Ex)) as R.
    pose proof (cbuf_bytes c x c' x' _ _ Eb (c12_mid_started k _ R) D) as D'.
    unfold cbuf_step in Eb. destruct (bw_guard x) as [bw'|]; [|discriminate].
    destruct (TempBuf.step_p (x_buf x)) as [b'|] eqn:Ep; [|discriminate]. inversion Eb; subst c' x'; clear Eb.
    destruct (TempBufThms.step_p_consumer _ _ Ep) as [Hprog Hmid].
    assert (Hout : c_out (if TempBuf.p_dropped b' then set_wdone c else c) = c_out c) by (destruct (TempBuf.p_dropped b'); reflexivity).
    constructor; cbn [x_buf].
    + intros Hle. rewrite (step_p_dest _ _ Ep). apply A. exact Hle.
    + rewrite Hmid. exact B.
    + intros Hu. rewrite Hprog. apply Cc. exact Hu.
    + rewrite Hout. exact D'.
  - (* the splice task *)
    unfold csplice_step in Hs.
    pose proof (i_len _ _ _ I) as HL. pose proof (i_started _ _ _ I) as HS.
    destruct (sp_pc (k_p s)) eqn:Hpc.
    + destruct (sp_k (k_p s) <? p_started (k_p s))%nat eqn:Hlt.
      * (* the switch *)
        destruct (nth_error (k_x s) (sp_k (k_p s))) as [x|] eqn:Ex; [|discriminate].
        destruct (TempBuf.step_c (sp_file (k_p s)) (x_buf x)) as [b'|] eqn:Ec; [|discriminate].
        inversion Hs; subst s'; clear Hs. unfold XP. cbn [k_p k_x set_pc p_chroms sp_k sp_pc].
        apply Nat.ltb_lt in Hlt.
        destruct (nth_error (p_chroms (k_p s)) (sp_k (k_p s))) as [c|] eqn:En.
        2:{ apply nth_error_None in En. exfalso. lia. }
        assert (Xo : forall k c x, nth_error (p_chroms (k_p s)) k = Some c -> nth_error (k_x s) k = Some x ->
                       xprog (sp_k (k_p s)) SAwaitTask k c x).
        { intros k c0 x0 Hc0 Hx0. pose proof (X k c0 x0 Hc0 Hx0) as [A B Cc D]. rewrite Hpc in B, Cc. constructor; auto.
          - intros Hm. destruct (B Hm) as [_ Hbad]. discriminate.
          - intros [Hl|[_ Hbad]]; [|discriminate]. apply Cc. left. exact Hl. }
        apply (xprog_update_x _ _ _ _ _ c _ En Xo).
        pose proof (X _ c x En Ex) as [A B Cc D]. rewrite Hpc in B, Cc.
        assert (Hidle : TempBuf.c_mid (x_buf x) = TempBuf.CIdle).
        { destruct (idle_dec (TempBuf.c_mid (x_buf x))) as [E|E]; [exact E|]. destruct (B E) as [_ Hbad]. discriminate. }
        pose proof (Cc (or_intror (conj eq_refl eq_refl))) as Hprog.
        destruct (step_c_producer _ _ _ Ec) as [Htodo Hmid].
        constructor; cbn [x_buf x_bw set_buf].
        -- intros _. rewrite (step_c_idle_dest _ _ _ Hidle Ec). apply A. lia.
        -- intros Hm. exfalso. apply Hm. apply (step_c_switch_idle _ _ _ _ Hidle Hprog Ec).
        -- intros [Hl|[_ Hbad]]; [lia|discriminate].
        -- unfold bytes_ok in *. cbn [x_buf x_bw set_buf]. rewrite Htodo, Hmid. exact D.
      * destruct (p_closed (k_p s)); [|discriminate]. inversion Hs; subst s'; clear Hs.
        unfold XP. cbn [k_p k_x set_pc p_chroms sp_k sp_pc].
        intros k c0 x0 Hc0 Hx0. pose proof (X k c0 x0 Hc0 Hx0) as [A B Cc D]. rewrite Hpc in B, Cc. constructor; auto.
        -- intros Hm. destruct (B Hm) as [_ Hbad]. discriminate.
        -- intros [Hl|[_ Hbad]]; [|discriminate]. apply Cc. left. exact Hl.
    + (* the write task has returned *)
      destruct (nth_error (k_x s) (sp_k (k_p s))) as [x|] eqn:Ex; [|discriminate].
      destruct (TempBuf.p_dropped (x_buf x)); [|discriminate]. inversion Hs; subst s'; clear Hs.
      unfold XP. cbn [k_p k_x set_pc p_chroms sp_k sp_pc].
      intros k c0 x0 Hc0 Hx0. pose proof (X k c0 x0 Hc0 Hx0) as [A B Cc D]. rewrite Hpc in B, Cc. constructor; auto.
      * intros Hm. destruct (B Hm) as [Hk Hbad]. discriminate.
      * intros [Hl|[_ Hbad]]; [|discriminate]. apply Cc. left. exact Hl.
    + (* inside await_real_file *)
      destruct (nth_error (k_x s) (sp_k (k_p s))) as [x|] eqn:Ex; [|discriminate].
      destruct (TempBuf.step_c (sp_file (k_p s)) (x_buf x)) as [b'|] eqn:Ec; [|discriminate].
      pose proof (i_mid _ _ _ I (or_intror Hpc)) as Hmid.
      destruct (nth_error (p_chroms (k_p s)) (sp_k (k_p s))) as [c|] eqn:En.
      2:{ apply nth_error_None in En. exfalso. lia. }
      pose proof (X _ c x En Ex) as [A B Cc D]. rewrite Hpc in B, Cc.
      destruct (step_c_producer _ _ _ Ec) as [Htodo Hpm].
      assert (D' : bytes_ok (data_bytes (c_out c)) (data_bytes (nth (sp_k (k_p s)) Ss [])) (set_buf x b')).
      { unfold bytes_ok in *. cbn [x_buf x_bw set_buf]. rewrite Htodo, Hpm. exact D. }
      destruct (TempBuf.c_dest b') as [r|] eqn:Edest; inversion Hs; subst s'; clear Hs; unfold XP; cbn [k_p k_x p_chroms sp_k sp_pc].
      * (* handed back: on to the next chromosome *)
        assert (Xo : forall k c x, nth_error (p_chroms (k_p s)) k = Some c -> nth_error (k_x s) k = Some x ->
                       k <> sp_k (k_p s) -> xprog (S (sp_k (k_p s))) SRecv k c x).
        { intros k c0 x0 Hc0 Hx0 Hne. pose proof (X k c0 x0 Hc0 Hx0) as [A0 B0 C0 D0]. rewrite Hpc in B0, C0. constructor; auto.
          - intros Hle. apply A0. lia.
          - intros Hm. destruct (B0 Hm) as [Hk _]. congruence.
          - intros [Hl|[Hk _]]; apply C0; left; lia. }
        intros k c0 x0 Hc0 Hx0. destruct (nth_error_set_cases _ _ _ _ _ Hx0) as [[-> ->]|[Hne Hx0']].
        -- rewrite En in Hc0. inversion Hc0; subst c0. constructor; cbn [x_buf set_buf].
           ++ intros Hle. exfalso. lia.
           ++ intros Hm. exfalso. apply Hm. apply (step_c_dest_idle _ _ _ r Ec (A (Nat.le_refl _)) Edest).
           ++ intros [Hl|[Hk _]]; exfalso; lia.
           ++ exact D'.
        -- apply (Xo k c0 x0 Hc0 Hx0' Hne).
      * rewrite Hpc. apply (xprog_update_x _ _ _ _ _ c _ En).
        { intros k0 c0 x0 H1 H2. pose proof (X k0 c0 x0 H1 H2) as Hx0. rewrite Hpc in Hx0. exact Hx0. }
        constructor; cbn [x_buf set_buf].
        -- intros _. exact Edest.
        -- intros _. auto.
        -- intros [Hl|[_ Hbad]]; [exfalso; lia|discriminate].
        -- exact D'.
    + discriminate.
  - (* a poll *)
    unfold cpoll_step in Hs. pose proof (i_len _ _ _ I) as HL. pose proof (i_started _ _ _ I) as HS.
    destruct (sp_pc (k_p s)) eqn:Hpc; try discriminate.
    destruct (nth_error (k_x s) (sp_k (k_p s))) as [x|] eqn:Ex; [|discriminate].
    destruct (TempBuf.c_prog (x_buf x)) as [|[| | | |] rest] eqn:Eprog; try discriminate.
    destruct (TempBuf.step_c (sp_file (k_p s)) (x_buf x)) as [b'|] eqn:Ec; [|discriminate].
    inversion Hs; subst s'; clear Hs. unfold XP. cbn [k_p k_x].
    pose proof (i_mid _ _ _ I (or_introl Hpc)) as Hmid.
    destruct (nth_error (p_chroms (k_p s)) (sp_k (k_p s))) as [c|] eqn:En.
    2:{ apply nth_error_None in En. exfalso. lia. }
    apply (xprog_update_x _ _ _ _ _ c _ En X).
    pose proof (X _ c x En Ex) as [A B Cc D]. rewrite Hpc in B, Cc |- *.
    assert (Hidle : TempBuf.c_mid (x_buf x) = TempBuf.CIdle).
    { destruct (idle_dec (TempBuf.c_mid (x_buf x))) as [E|E]; [exact E|]. destruct (B E) as [_ Hbad]. discriminate. }
    destruct (step_c_producer _ _ _ Ec) as [Htodo Hpm].
    constructor; cbn [x_buf x_bw set_buf].
    + intros _. rewrite (step_c_idle_dest _ _ _ Hidle Ec). apply A. lia.
    + intros Hm. exfalso. apply Hm. apply (step_c_ready_idle _ _ _ _ Hidle Eprog Ec).
    + intros [Hl|[_ Hbad]]; [exfalso; lia|discriminate].
    + unfold bytes_ok in *. cbn [x_buf x_bw set_buf]. rewrite Htodo, Hpm. exact D.
Qed.

Lemma cgood_step_or_stay t s : CInv g np pre Ss opss s /\ XP s ->
  CInv g np pre Ss opss (cstep_or_stay g t s) /\ XP (cstep_or_stay g t s).
Proof.
  intros [C X]. unfold cstep_or_stay. destruct (cstep g t s) as [s'|] eqn:E; [|auto]. split.
  - apply (refine_step g np pre Ss opss Hg Hops t s s' C E).
  - eapply xp_step; eauto.
Qed.

Lemma cgood_run : forall sched s, CInv g np pre Ss opss s /\ XP s ->
  CInv g np pre Ss opss (crun g sched s) /\ XP (crun g sched s).
Proof.
  induction sched as [|t r IH]; intros s H; cbn [crun]; [exact H|]. apply IH. apply cgood_step_or_stay. exact H.
Qed.

Lemma cgood_reachable sched : CInv g np pre Ss opss (crun g sched (cinit np pre Ss opss)) /\ XP (crun g sched (cinit np pre Ss opss)).
Proof. apply cgood_run. split; [apply cinv_init; assumption|apply xp_init]. Qed.

(* ---------------------------------------------------------------- enabledness *)
Lemma both_exist s k c : CInv g np pre Ss opss s -> nth_error (p_chroms (k_p s)) k = Some c -> exists x, nth_error (k_x s) k = Some x.
Proof.
  intros C Hc. pose proof (cinv_inv g np pre Ss opss Hg s C) as I.
  destruct (nth_error (k_x s) k) as [x|] eqn:E; [eauto|]. apply nth_error_None in E.
  rewrite (ci_len _ _ _ _ _ _ C), <- (i_len _ _ _ I) in E. apply nth_error_lt in Hc. lia.
Qed.

(* at await_real_file the call is enabled: [closed] is set, the Condvar wait is not entered *)
Lemma await_enabled s : CInv g np pre Ss opss s -> XP s -> sp_pc (k_p s) = SAwaitFile -> exists s', cstep g CSplice s = Some s'.
Proof.
  intros C X Hpc. pose proof (cinv_inv g np pre Ss opss Hg s C) as I.
  pose proof (i_mid _ _ _ I (or_intror Hpc)) as Hmid. pose proof (i_len _ _ _ I) as HL. pose proof (i_started _ _ _ I) as HS.
  destruct (nth_error (p_chroms (k_p s)) (sp_k (k_p s))) as [c|] eqn:En.
  2:{ apply nth_error_None in En. exfalso. lia. }
  destruct (both_exist s _ c C En) as [x Ex].
  pose proof (ci_good _ _ _ _ _ _ C _ c x En Ex) as G. pose proof (X _ c x En Ex) as P.
  pose proof (i_await _ _ _ I Hpc c En) as Hwd. rewrite (xg_dropped _ _ _ _ _ _ _ G) in Hwd.
  pose proof (c12_not_terminal _ _ (xg_run _ _ _ _ _ _ _ G) (xp_dest _ _ _ _ _ P (Nat.le_refl _))) as Hnt.
  destruct (TempBufThms.cfg_consumer_enabled _ _ _ _ (c12_cfg _ _ (xg_run _ _ _ _ _ _ _ G)) Hwd Hnt) as [b' Hb'].
  cbn [cstep]. unfold csplice_step. rewrite Hpc, Ex.
  replace (TempBuf.step_c (sp_file (k_p s)) (x_buf x)) with (Some b').
  2:{ rewrite <- Hb'. f_equal. symmetry. apply (i_file _ _ _ I). }
  destruct (TempBuf.c_dest b'); eexists; reflexivity.
Qed.

Lemma cgood_progress s : (1 <= g_cap g)%nat -> (1 <= g_win g)%nat ->
  CInv g np pre Ss opss s -> XP s -> cterminal s = false -> exists t s', cstep g t s = Some s'.
Proof.
  intros Hcap Hwin C X Ht. pose proof (cinv_inv g np pre Ss opss Hg s C) as I.
  destruct (inv_progress pre Ss g (k_p s) Hg Hcap Hwin I Ht) as [t [p' Hst]].
  destruct t as [|k|k i|k|]; cbn [step] in Hst.
  - exists CMain. cbn [cstep]. rewrite Hst. eexists; reflexivity.
  - exists (CProd k). cbn [cstep]. rewrite Hst. eexists; reflexivity.
  - exists (CEnc k i). cbn [cstep]. rewrite Hst. eexists; reflexivity.
  - (* the write task *)
    rewrite Hg in Hst. unfold on_chrom in Hst. destruct (k <? p_started (k_p s))%nat eqn:Hk; [|discriminate].
    destruct (nth_error (p_chroms (k_p s)) k) as [c|] eqn:En; [|discriminate].
    destruct (write_step true c) as [c'|] eqn:Ew; [|discriminate].
    destruct (both_exist s k c C En) as [x Ex].
    pose proof (ci_good _ _ _ _ _ _ C k c x En Ex) as G. pose proof (X k c x En Ex) as P.
    unfold write_step in Ew. destruct (c_wdone c) eqn:Hwd; [discriminate|].
    destruct (x_loop x) eqn:Hl.
    + (* the loop has ended, the writer is not yet dropped: its next access is enabled *)
      destruct (xg_loop _ _ _ _ _ _ _ G Hl) as [Hf Ho].
      assert (Hnd : TempBuf.p_dropped (x_buf x) = false) by (rewrite <- (xg_dropped _ _ _ _ _ _ _ G); exact Hwd).
      destruct (TempBufThms.producer_enabled _ Hnd) as [b' Hb'].
      exists (CBuf k). cbn [cstep]. unfold con_both. rewrite Hk, En, Ex. unfold cbuf_step. rewrite Hb'.
      assert (Hgd : exists bw', bw_guard x = Some bw').
      { unfold bw_guard. rewrite Hl. destruct (TempBuf.p_todo (x_buf x)) as [|[w|] rest] eqn:Etodo; [eauto| |eauto].
        destruct (TempBuf.p_mid (x_buf x)); [eauto|].
        destruct (xp_bytes _ _ _ _ _ P) as [[fwd [Hout HW]] _]. rewrite Etodo, written_cons_write in HW.
        pose proof (i_good _ _ _ I k c En) as Gc. pose proof (cg_local _ _ _ _ _ _ Gc) as Lc.
        pose proof (cl_order _ _ Lc) as Hord. rewrite Hf, (cl_closed _ _ Lc Ho) in Hord. cbn in Hord. rewrite app_nil_r in Hord.
        rewrite Hord, <- HW in Hout. apply app_inv_head in Hout. rewrite Hout, prefixb_app. eauto. }
      destruct Hgd as [bw' ->]. eexists; reflexivity.
    + exists (CWrite k). cbn [cstep]. unfold con_both. rewrite Hk, En, Ex, Hg. unfold cwrite_step. rewrite Hl.
      destruct (c_fifo c) as [|[s0 b0] q].
      * destruct (c_open c); [discriminate|]. eexists; reflexivity.
      * cbn [take_head] in Ew |- *. destruct b0; [|discriminate]. eexists; reflexivity.
  - (* the splice task *)
    unfold splice_step in Hst. pose proof (i_len _ _ _ I) as HL. pose proof (i_started _ _ _ I) as HS.
    destruct (sp_pc (k_p s)) eqn:Hpc.
    + destruct (sp_k (k_p s) <? p_started (k_p s))%nat eqn:Hlt.
      * apply Nat.ltb_lt in Hlt.
        destruct (nth_error (p_chroms (k_p s)) (sp_k (k_p s))) as [c|] eqn:En.
        2:{ apply nth_error_None in En. exfalso. lia. }
        destruct (both_exist s _ c C En) as [x Ex]. pose proof (X _ c x En Ex) as [A B Cc D]. rewrite Hpc in B, Cc.
        assert (Hidle : TempBuf.c_mid (x_buf x) = TempBuf.CIdle).
        { destruct (idle_dec (TempBuf.c_mid (x_buf x))) as [E|E]; [exact E|]. destruct (B E) as [_ Hbad]. discriminate. }
        destruct (step_c_switch (sp_file (k_p s)) (x_buf x) _ Hidle (Cc (or_intror (conj eq_refl eq_refl)))) as [b' Hb'].
        exists CSplice. cbn [cstep]. unfold csplice_step. rewrite Hpc. apply Nat.ltb_lt in Hlt. rewrite Hlt, Ex, Hb'. eexists; reflexivity.
      * destruct (p_closed (k_p s)) eqn:Hc; [|discriminate].
        exists CSplice. cbn [cstep]. unfold csplice_step. rewrite Hpc, Hlt, Hc. eexists; reflexivity.
    + destruct (nth_error (p_chroms (k_p s)) (sp_k (k_p s))) as [c|] eqn:En; [|discriminate].
      destruct (c_wdone c) eqn:Hwd; [|discriminate].
      destruct (both_exist s _ c C En) as [x Ex]. pose proof (ci_good _ _ _ _ _ _ C _ c x En Ex) as G.
      exists CSplice. cbn [cstep]. unfold csplice_step. rewrite Hpc, Ex, <- (xg_dropped _ _ _ _ _ _ _ G), Hwd. eexists; reflexivity.
    + exists CSplice. apply await_enabled; assumption.
    + discriminate.
Qed.

End Progress.

(* ---------------------------------------------------------------- termination measure of the concrete machine
   abstract measure + per buffer: the writer half's and the consumer's remaining accesses (pmeas, cmeas of
   Proofs/TempBufThms.v) + 1 while write_data is in its loop *)
Definition xmeasure (x : cextra) : nat :=
  ((if x_loop x then 0 else 1) + TempBufThms.pmeas (x_buf x) + TempBufThms.cmeas (x_buf x))%nat.
Definition conc_measure (s : cst) : nat := (measure (k_p s) + sum_nat (map xmeasure (k_x s)))%nat.

Lemma sum_nat_set_nth_x {X} (f : X -> nat) : forall (l : list X) k x x', nth_error l k = Some x ->
  (sum_nat (map f (set_nth k x' l)) + f x = sum_nat (map f l) + f x')%nat.
Proof.
  induction l as [|y r IH]; intros [|k] x x' Hn; cbn [nth_error] in Hn; try discriminate.
  - inversion Hn; subst y. cbn [set_nth map sum_nat]. lia.
  - cbn [set_nth map sum_nat]. specialize (IH k x x' Hn). lia.
Qed.

Lemma step_c_cmeas d0 b b' : TempBuf.step_c d0 b = Some b' -> (TempBufThms.cmeas b' < TempBufThms.cmeas b)%nat.
Proof.
  destruct b as [mb cl ps todo mid dr prog cm ob de pn]. unfold TempBufThms.cmeas. cbn [TempBuf.step_c TempBuf.c_prog TempBuf.c_mid].
  destruct cm as [|y|y].
  - destruct prog as [|[| | | |] rest]; [discriminate| | | | |].
    + destruct mb; intros E; inversion E; cbn [TempBuf.c_panic TempBuf.c_prog TempBuf.c_mid TempBuf.is_idle length]; lia.
    + intros E; inversion E; cbn [TempBuf.c_prog TempBuf.c_mid TempBuf.is_idle length]; lia.
    + destruct cl as [[| |]|]; intros E; inversion E; cbn [TempBuf.c_panic TempBuf.c_prog TempBuf.c_mid TempBuf.is_idle length]; lia.
    + destruct cl; intros E; inversion E; cbn [TempBuf.c_prog TempBuf.c_mid TempBuf.is_idle length]; lia.
    + destruct cl; intros E; inversion E; cbn [TempBuf.c_prog TempBuf.c_mid TempBuf.is_idle length]; lia.
  - destruct mb; destruct y; intros E; inversion E; cbn [TempBuf.c_panic TempBuf.c_prog TempBuf.c_mid TempBuf.is_idle length]; lia.
  - destruct mb; [|destruct y]; intros E; inversion E; cbn [TempBuf.c_panic TempBuf.c_prog TempBuf.c_mid TempBuf.is_idle length]; lia.
Qed.

Lemma step_c_pmeas d0 b b' : TempBuf.step_c d0 b = Some b' -> TempBufThms.pmeas b' = TempBufThms.pmeas b.
Proof.
  intros E. unfold TempBufThms.pmeas. destruct (step_c_producer _ _ _ E) as [-> ->]. rewrite (TempBufThms.step_c_dropped _ _ _ E). reflexivity.
Qed.

Lemma step_p_pmeas b b' : TempBuf.step_p b = Some b' -> (TempBufThms.pmeas b' < TempBufThms.pmeas b)%nat.
Proof.
  intros E. pose proof (TempBufThms.pmeas_step [] b) as H. unfold TempBuf.step_or_stay in H. cbn [TempBuf.step] in H. rewrite E in H.
  pose proof (step_p_dropped_before _ _ E) as Hd. unfold TempBufThms.pmeas in *. rewrite Hd in *.
  destruct (TempBuf.p_mid b); lia.
Qed.

Lemma step_p_cmeas b b' : TempBuf.step_p b = Some b' -> TempBufThms.cmeas b' = TempBufThms.cmeas b.
Proof. intros E. unfold TempBufThms.cmeas. destruct (TempBufThms.step_p_consumer _ _ E) as [-> ->]. reflexivity. Qed.

Lemma cstep_measure g np pre Ss opss t s s' : g_fifo g = true -> CInv g np pre Ss opss s ->
  cstep g t s = Some s' -> (conc_measure s' < conc_measure s)%nat.
Proof.
  intros Hg C Hs. pose proof (cinv_inv g np pre Ss opss Hg s C) as I.
  destruct t as [|k|k i|k|k| |]; cbn [cstep] in Hs.
  - unfold lift_p in Hs. destruct (main_step (g_win g) (k_p s)) as [p'|] eqn:Em; [|discriminate].
    inversion Hs; subst s'. unfold conc_measure. cbn [k_p k_x].
    pose proof (step_measure g TMain (k_p s) p' Hg Em). lia.
  - unfold lift_p in Hs. destruct (on_chrom k (prod_step (g_cap g)) (k_p s)) as [p'|] eqn:Eo; [|discriminate].
    inversion Hs; subst s'. unfold conc_measure. cbn [k_p k_x].
    pose proof (step_measure g (TProd k) (k_p s) p' Hg Eo). lia.
  - unfold lift_p in Hs. destruct (on_chrom k (enc_step i) (k_p s)) as [p'|] eqn:Eo; [|discriminate].
    inversion Hs; subst s'. unfold conc_measure. cbn [k_p k_x].
    pose proof (step_measure g (TEnc k i) (k_p s) p' Hg Eo). lia.
  - unfold con_both in Hs. destruct (k <? p_started (k_p s))%nat; [|discriminate].
    destruct (nth_error (p_chroms (k_p s)) k) as [c|] eqn:En; [|discriminate].
    destruct (nth_error (k_x s) k) as [x|] eqn:Ex; [|discriminate].
    destruct (cwrite_step (g_fifo g) c x) as [[c' x']|] eqn:Ew; [|discriminate].
    inversion Hs; subst s'; clear Hs. unfold conc_measure, measure. cbn [k_p k_x p_chroms p_started p_advanced p_closed sp_k sp_pc].
    rewrite set_nth_length.
    pose proof (sum_nat_set_nth cmeasure _ k c c' En) as H1. pose proof (sum_nat_set_nth_x xmeasure _ k x x' Ex) as H2.
    rewrite Hg in Ew. unfold cwrite_step in Ew. destruct (x_loop x) eqn:Hl; [discriminate|].
    destruct (c_fifo c) as [|[s0 b0] q] eqn:Ef.
    + destruct (c_open c); [discriminate|]. inversion Ew; subst c' x'.
      assert (xmeasure (mkx (x_bw x) true (x_buf x)) < xmeasure x)%nat by (unfold xmeasure; cbn [x_loop x_buf]; rewrite Hl; lia). lia.
    + cbn [take_head] in Ew. destruct b0; [|discriminate]. inversion Ew; subst c' x'.
      assert (cmeasure (mkc (c_todo c) (c_open c) q (c_out c ++ [s0]) false) < cmeasure c)%nat.
      { unfold cmeasure, pending. cbn [c_todo c_fifo c_wdone]. rewrite Ef. cbn [length filter snd negb]. destruct (c_wdone c); lia. }
      assert (xmeasure (mkx (x_bw x ++ sd_bytes s0) false (x_buf x)) = xmeasure x) by (unfold xmeasure; cbn [x_loop x_buf]; rewrite Hl; reflexivity).
      lia.
  - unfold con_both in Hs. destruct (k <? p_started (k_p s))%nat; [|discriminate].
    destruct (nth_error (p_chroms (k_p s)) k) as [c|] eqn:En; [|discriminate].
    destruct (nth_error (k_x s) k) as [x|] eqn:Ex; [|discriminate].
    destruct (cbuf_step c x) as [[c' x']|] eqn:Eb; [|discriminate].
    inversion Hs; subst s'; clear Hs. unfold conc_measure, measure. cbn [k_p k_x p_chroms p_started p_advanced p_closed sp_k sp_pc].
    rewrite set_nth_length.
    pose proof (sum_nat_set_nth cmeasure _ k c c' En) as H1. pose proof (sum_nat_set_nth_x xmeasure _ k x x' Ex) as H2.
    unfold cbuf_step in Eb. destruct (bw_guard x) as [bw'|]; [|discriminate].
    destruct (TempBuf.step_p (x_buf x)) as [b'|] eqn:Ep; [|discriminate]. inversion Eb; subst c' x'.
    assert (cmeasure (if TempBuf.p_dropped b' then set_wdone c else c) <= cmeasure c)%nat.
    { destruct (TempBuf.p_dropped b'); [|lia]. unfold cmeasure, set_wdone. cbn [c_todo c_fifo c_wdone]. lia. }
    assert (xmeasure (mkx bw' (x_loop x) b') < xmeasure x)%nat.
    { unfold xmeasure. cbn [x_loop x_buf]. rewrite (step_p_cmeas _ _ Ep). pose proof (step_p_pmeas _ _ Ep). lia. }
    lia.
  - unfold csplice_step in Hs. pose proof (i_len _ _ _ I) as HL. pose proof (i_started _ _ _ I) as HS.
    assert (Hbuf : forall x b', nth_error (k_x s) (sp_k (k_p s)) = Some x -> TempBuf.step_c (sp_file (k_p s)) (x_buf x) = Some b' ->
              (sum_nat (map xmeasure (set_nth (sp_k (k_p s)) (set_buf x b') (k_x s))) < sum_nat (map xmeasure (k_x s)))%nat).
    { intros x b' Ex Ec. pose proof (sum_nat_set_nth_x xmeasure _ _ x (set_buf x b') Ex) as H2.
      assert (xmeasure (set_buf x b') < xmeasure x)%nat.
      { unfold xmeasure, set_buf. cbn [x_loop x_buf]. rewrite (step_c_pmeas _ _ _ Ec). pose proof (step_c_cmeas _ _ _ Ec). lia. }
      lia. }
    destruct (sp_pc (k_p s)) eqn:Hpc.
    + destruct (sp_k (k_p s) <? p_started (k_p s))%nat.
      * destruct (nth_error (k_x s) (sp_k (k_p s))) as [x|] eqn:Ex; [|discriminate].
        destruct (TempBuf.step_c (sp_file (k_p s)) (x_buf x)) as [b'|] eqn:Ec; [|discriminate].
        inversion Hs; subst s'. pose proof (Hbuf x b' eq_refl Ec).
        unfold conc_measure, measure, set_pc. cbn [k_p k_x p_chroms p_started p_advanced p_closed sp_k sp_pc]. rewrite Hpc. cbn [pc_left]. lia.
      * destruct (p_closed (k_p s)); [|discriminate]. inversion Hs; subst s'.
        unfold conc_measure, measure, set_pc. cbn [k_p k_x p_chroms p_started p_advanced p_closed sp_k sp_pc]. rewrite Hpc. cbn [pc_left]. lia.
    + destruct (nth_error (k_x s) (sp_k (k_p s))) as [x|]; [|discriminate].
      destruct (TempBuf.p_dropped (x_buf x)); [|discriminate]. inversion Hs; subst s'.
      unfold conc_measure, measure, set_pc. cbn [k_p k_x p_chroms p_started p_advanced p_closed sp_k sp_pc]. rewrite Hpc. cbn [pc_left]. lia.
    + destruct (nth_error (k_x s) (sp_k (k_p s))) as [x|] eqn:Ex; [|discriminate].
      destruct (TempBuf.step_c (sp_file (k_p s)) (x_buf x)) as [b'|] eqn:Ec; [|discriminate].
      pose proof (Hbuf x b' eq_refl Ec). pose proof (i_mid _ _ _ I (or_intror Hpc)) as Hmid.
      destruct (TempBuf.c_dest b'); inversion Hs; subst s'.
      * unfold conc_measure, measure. cbn [k_p k_x p_chroms p_started p_advanced p_closed sp_k sp_pc]. rewrite Hpc. cbn [pc_left]. lia.
      * unfold conc_measure. cbn [k_p k_x]. lia.
    + discriminate.
  - unfold cpoll_step in Hs. destruct (sp_pc (k_p s)); try discriminate.
    destruct (nth_error (k_x s) (sp_k (k_p s))) as [x|] eqn:Ex; [|discriminate].
    destruct (TempBuf.c_prog (x_buf x)) as [|[| | | |] rest]; try discriminate.
    destruct (TempBuf.step_c (sp_file (k_p s)) (x_buf x)) as [b'|] eqn:Ec; [|discriminate].
    inversion Hs; subst s'. unfold conc_measure. cbn [k_p k_x].
    pose proof (sum_nat_set_nth_x xmeasure _ _ x (set_buf x b') Ex) as H2.
    assert (xmeasure (set_buf x b') < xmeasure x)%nat.
    { unfold xmeasure, set_buf. cbn [x_loop x_buf]. rewrite (step_c_pmeas _ _ _ Ec). pose proof (step_c_cmeas _ _ _ Ec). lia. }
    lia.
Qed.

Lemma crun_app g a : forall b s, crun g (a ++ b) s = crun g b (crun g a s).
Proof. induction a as [|t r IH]; intros b s; cbn [app crun]; [reflexivity|apply IH]. Qed.

Lemma cgood_completion g np pre Ss opss : g_fifo g = true -> (1 <= g_cap g)%nat -> (1 <= g_win g)%nat ->
  Forall2 (fun ops S => TempBuf.written ops = data_bytes S) opss Ss ->
  forall n s, (conc_measure s <= n)%nat -> CInv g np pre Ss opss s /\ XP np Ss s -> exists more, cterminal (crun g more s) = true.
Proof.
  intros Hg Hcap Hwin Hops. induction n as [|n IH]; intros s Hm [C X].
  - destruct (cterminal s) eqn:Ht; [exists []; exact Ht|].
    destruct (cgood_progress g np pre Ss opss Hg s Hcap Hwin C X Ht) as [t [s' Hs]].
    pose proof (cstep_measure g np pre Ss opss t s s' Hg C Hs). lia.
  - destruct (cterminal s) eqn:Ht; [exists []; exact Ht|].
    destruct (cgood_progress g np pre Ss opss Hg s Hcap Hwin C X Ht) as [t [s' Hs]].
    pose proof (cstep_measure g np pre Ss opss t s s' Hg C Hs) as Hlt.
    destruct (IH s') as [more Hmore]; [lia| |].
    + pose proof (cgood_step_or_stay g np pre Ss opss Hg Hops t s (conj C X)) as H. unfold cstep_or_stay in H. rewrite Hs in H. exact H.
    + exists (t :: more). cbn [crun]. unfold cstep_or_stay. rewrite Hs. exact Hmore.
Qed.

(* ---------------------------------------------------------------- the statements used by Properties/C11.v *)
Theorem pipeline_concrete_progress : forall g np pre Ss opss sched, g_fifo g = true -> (1 <= g_cap g)%nat -> (1 <= g_win g)%nat ->
  Forall2 (fun ops S => TempBuf.written ops = data_bytes S) opss Ss ->
  let s := crun g sched (cinit np pre Ss opss) in
  cterminal s = false -> exists t s', cstep g t s = Some s'.
Proof.
  intros g np pre Ss opss sched Hg Hcap Hwin Hops s Ht.
  destruct (cgood_reachable g np pre Ss opss Hg Hops sched) as [C X].
  eapply cgood_progress; eauto.
Qed.

Theorem pipeline_concrete_await_never_blocks : forall g np pre Ss opss sched, g_fifo g = true ->
  Forall2 (fun ops S => TempBuf.written ops = data_bytes S) opss Ss ->
  let s := crun g sched (cinit np pre Ss opss) in
  sp_pc (cabs s) = SAwaitFile -> exists s', cstep g CSplice s = Some s'.
Proof.
  intros g np pre Ss opss sched Hg Hops s Hpc.
  destruct (cgood_reachable g np pre Ss opss Hg Hops sched) as [C X].
  eapply await_enabled; eauto.
Qed.

(* the BufWriter's bytes are accounted for at every moment: what has been passed on to the staging buffer,
   followed by what the BufWriter still holds, is the bytes of the sections written so far *)
Theorem pipeline_concrete_bytes : forall g np pre Ss opss sched, g_fifo g = true ->
  Forall2 (fun ops S => TempBuf.written ops = data_bytes S) opss Ss ->
  let s := crun g sched (cinit np pre Ss opss) in
  forall k c x, nth_error (p_chroms (cabs s)) k = Some c -> nth_error (k_x s) k = Some x ->
    exists fwd, fwd ++ x_bw x = data_bytes (c_out c) /\
                fwd ++ TempBuf.written (TempBuf.p_todo (x_buf x)) = data_bytes (nth k Ss []).
Proof.
  intros g np pre Ss opss sched Hg Hops s k c x Hc Hx.
  destruct (cgood_reachable g np pre Ss opss Hg Hops sched) as [C X].
  destruct (X k c x Hc Hx) as [_ _ _ [D _]]. exact D.
Qed.

(* every effective step decreases a measure, and every schedule prefix can be completed into a finishing run *)
Theorem pipeline_concrete_completion : forall g np pre Ss opss sched, g_fifo g = true -> (1 <= g_cap g)%nat -> (1 <= g_win g)%nat ->
  Forall2 (fun ops S => TempBuf.written ops = data_bytes S) opss Ss ->
  (forall t s', cstep g t (crun g sched (cinit np pre Ss opss)) = Some s' ->
                (conc_measure s' < conc_measure (crun g sched (cinit np pre Ss opss)))%nat) /\
  exists more, cterminal (crun g (sched ++ more) (cinit np pre Ss opss)) = true.
Proof.
  intros g np pre Ss opss sched Hg Hcap Hwin Hops.
  pose proof (cgood_reachable g np pre Ss opss Hg Hops sched) as [C X]. split.
  - intros t s' Hs. eapply cstep_measure; eauto.
  - destruct (cgood_completion g np pre Ss opss Hg Hcap Hwin Hops _ (crun g sched (cinit np pre Ss opss)) (Nat.le_refl _) (conj C X)) as [more H].
    exists more. rewrite crun_app. exact H.
Qed.
