(* The reachable-state invariant of the writer pipeline (Model/Pipeline.v part 1) and its
   preservation by every transition, for every capacity, window and schedule. *)
From BT Require Import Base.Util Model.RTree Model.BBIFile Model.Pipeline.

(* ---------------------------------------------------------------- lists *)
Lemma set_nth_length {X} (x : X) : forall l k, length (set_nth k x l) = length l.
Proof. induction l as [|y r IH]; intros [|k]; cbn [set_nth length]; auto. Qed.

Lemma nth_error_set_same {X} (x : X) : forall l k, (k < length l)%nat -> nth_error (set_nth k x l) k = Some x.
Proof.
  induction l as [|y r IH]; intros [|k]; cbn [set_nth length nth_error]; intros H; try lia; auto.
  apply IH. lia.
Qed.

Lemma nth_error_set_other {X} (x : X) : forall l k j, j <> k -> nth_error (set_nth k x l) j = nth_error l j.
Proof.
  induction l as [|y r IH]; intros [|k] [|j] H; cbn [set_nth nth_error]; auto; try congruence.
Qed.

Lemma nth_error_lt {X} (l : list X) k x : nth_error l k = Some x -> (k < length l)%nat.
Proof. intros H. apply nth_error_Some. congruence. Qed.

Lemma firstn_S_nth_error {X} : forall (l : list X) k x, nth_error l k = Some x -> firstn (S k) l = firstn k l ++ [x].
Proof.
  induction l as [|y r IH]; intros [|k] x; cbn [nth_error]; intros H; try discriminate.
  - inversion H. reflexivity.
  - cbn [firstn]. cbn [firstn] in IH. rewrite (IH k x H). reflexivity.
Qed.

Lemma nth_error_nth_default {X} (l : list X) k x d : nth_error l k = Some x -> nth k l d = x.
Proof. intros H. apply nth_error_nth. exact H. Qed.

Lemma data_bytes_app a b : data_bytes (a ++ b) = data_bytes a ++ data_bytes b.
Proof. unfold data_bytes. apply flat_map_app. Qed.

Lemma firstn_all_length {X} (l : list X) : firstn (length l) l = l.
Proof. apply firstn_all. Qed.

(* ---------------------------------------------------------------- the invariant *)
(* what holds of chromosome k alone; X = its sections in submission order *)
Record clocal (X : list sdata) (c : chrom) : Prop := {
  cl_order : c_out c ++ map fst (c_fifo c) ++ c_todo c = X;
  cl_wdone : c_wdone c = true -> c_fifo c = [] /\ c_open c = false;
  cl_closed : c_open c = false -> c_todo c = [] }.

Record cgood (Ss : list (list sdata)) (started advanced spk k : nat) (c : chrom) : Prop := {
  cg_local : clocal (nth k Ss []) c;
  cg_adv : (k < advanced)%nat -> c_open c = false;
  cg_notadv : (advanced <= k)%nat -> c_open c = true;
  cg_unstarted : (started <= k)%nat -> c_out c = [] /\ c_fifo c = [] /\ c_wdone c = false;
  cg_spliced : (k < spk)%nat -> c_wdone c = true }.

Record Inv (pre : bytes) (Ss : list (list sdata)) (s : pst) : Prop := {
  i_len : length (p_chroms s) = length Ss;
  i_good : forall k c, nth_error (p_chroms s) k = Some c -> cgood Ss (p_started s) (p_advanced s) (sp_k s) k c;
  i_adv : (p_advanced s <= p_started s)%nat;
  i_started : (p_started s <= length Ss)%nat;
  i_closed : p_closed s = true -> p_advanced s = length Ss;
  i_spk : (sp_k s <= p_started s)%nat;
  i_mid : sp_pc s = SAwaitTask \/ sp_pc s = SAwaitFile -> (sp_k s < p_started s)%nat;
  i_await : sp_pc s = SAwaitFile -> forall c, nth_error (p_chroms s) (sp_k s) = Some c -> c_wdone c = true;
  i_done : sp_pc s = SDone -> sp_k s = length Ss /\ p_closed s = true;
  i_file : sp_file s = pre ++ data_bytes (concat (firstn (sp_k s) Ss)) }.

Lemma inv_init pre Ss : Inv pre Ss (init pre Ss).
Proof.
  constructor; cbn.
  - apply map_length.
  - intros k c H. rewrite nth_error_map in H. destruct (nth_error Ss k) as [X|] eqn:E; [|discriminate].
    cbn in H. inversion H; subst c. constructor.
    + constructor; cbn.
      * symmetry. apply nth_error_nth_default. exact E.
      * discriminate.
      * discriminate.
    + lia.
    + reflexivity.
    + auto.
    + lia.
  - lia.
  - lia.
  - discriminate.
  - lia.
  - intros [H|H]; discriminate.
  - discriminate.
  - discriminate.
  - rewrite app_nil_r. reflexivity.
Qed.

(* ---------------------------------------------------------------- chromosome-local steps *)
Definition lstep_ok (f : chrom -> option chrom) : Prop :=
  forall c c', f c = Some c' ->
    c_open c' = c_open c /\ (c_wdone c = true -> c_wdone c' = true) /\
    (forall X, clocal X c -> clocal X c').

Lemma prod_step_ok cap : lstep_ok (prod_step cap).
Proof.
  intros c c'. unfold prod_step. destruct (c_open c) eqn:Ho; [|discriminate].
  destruct (c_todo c) as [|x r] eqn:Et; [discriminate|].
  destruct (length (c_fifo c) <? cap)%nat; [|discriminate]. intros H. inversion H; subst c'; clear H. cbn.
  split; [reflexivity|]. split; [auto|].
  intros X L. constructor; cbn.
  - rewrite map_app. cbn [map fst]. rewrite <- app_assoc. cbn [app]. rewrite <- (cl_order _ _ L), Et. reflexivity.
  - intros E. destruct (cl_wdone _ _ L E). congruence.
  - intros E. congruence.
Qed.

Lemma complete_at_spec : forall q i q', complete_at i q = Some q' -> map fst q' = map fst q /\ q <> [].
Proof.
  induction q as [|[s b] r IH]; intros [|i] q'; cbn [complete_at]; try discriminate.
  - destruct b; [discriminate|]. intros H. inversion H. cbn. split; [reflexivity|discriminate].
  - destruct b; (destruct (complete_at i r) as [r'|] eqn:E; [|discriminate]; intros H; inversion H; cbn;
    destruct (IH i r' E) as [Hm _]; rewrite Hm; split; [reflexivity|discriminate]).
Qed.

Lemma enc_step_ok i : lstep_ok (enc_step i).
Proof.
  intros c c'. unfold enc_step. destruct (complete_at i (c_fifo c)) as [q|] eqn:E; [|discriminate].
  intros H. inversion H; subst c'; clear H. cbn. destruct (complete_at_spec _ _ _ E) as [Hm Hne].
  split; [reflexivity|]. split; [auto|].
  intros X L. constructor; cbn.
  - rewrite Hm. apply (cl_order _ _ L).
  - intros Ew. destruct (cl_wdone _ _ L Ew). congruence.
  - apply (cl_closed _ _ L).
Qed.

Lemma write_step_ok : lstep_ok (write_step true).
Proof.
  intros c c'. unfold write_step. destruct (c_wdone c) eqn:Ew; [discriminate|].
  destruct (c_fifo c) as [|[s b] q] eqn:Ef.
  - destruct (c_open c) eqn:Ho; [discriminate|]. intros H. inversion H; subst c'; clear H. cbn.
    split; [reflexivity|]. split; [auto|].
    intros X L. constructor; cbn.
    + rewrite <- (cl_order _ _ L), Ef. reflexivity.
    + auto.
    + intros _. apply (cl_closed _ _ L). exact Ho.
  - cbn [take_head]. destruct b; [|discriminate]. intros H. inversion H; subst c'; clear H. cbn.
    split; [reflexivity|]. split; [discriminate|].
    intros X L. constructor; cbn.
    + rewrite <- (cl_order _ _ L), Ef. cbn [map fst]. rewrite <- app_assoc. reflexivity.
    + discriminate.
    + apply (cl_closed _ _ L).
Qed.

Lemma inv_on_chrom pre Ss s k f s' : lstep_ok f -> Inv pre Ss s -> on_chrom k f s = Some s' -> Inv pre Ss s'.
Proof.
  intros Hf I. unfold on_chrom. destruct (k <? p_started s)%nat eqn:Hk; [|discriminate].
  apply Nat.ltb_lt in Hk.
  destruct (nth_error (p_chroms s) k) as [c|] eqn:En; [|discriminate].
  destruct (f c) as [c'|] eqn:Efc; [|discriminate]. intros H. inversion H; subst s'; clear H.
  destruct (Hf c c' Efc) as [Hopen [Hmono Hloc]].
  pose proof (nth_error_lt _ _ _ En) as Hlt.
  assert (Hget : forall j x, nth_error (set_nth k c' (p_chroms s)) j = Some x ->
                   (j = k /\ x = c') \/ (j <> k /\ nth_error (p_chroms s) j = Some x)).
  { intros j x Hj. destruct (Nat.eq_dec j k) as [->|Hne].
    - rewrite nth_error_set_same in Hj by exact Hlt. inversion Hj. auto.
    - rewrite nth_error_set_other in Hj by exact Hne. auto. }
  constructor; cbn.
  - rewrite set_nth_length. apply (i_len _ _ _ I).
  - intros j x Hj. destruct (Hget j x Hj) as [[-> ->]|[Hne Hj']].
    + pose proof (i_good _ _ _ I k c En) as G. constructor.
      * apply Hloc. apply (cg_local _ _ _ _ _ _ G).
      * rewrite Hopen. apply (cg_adv _ _ _ _ _ _ G).
      * rewrite Hopen. apply (cg_notadv _ _ _ _ _ _ G).
      * intros Hs. exfalso. lia.
      * intros Hs. apply Hmono. apply (cg_spliced _ _ _ _ _ _ G Hs).
    + apply (i_good _ _ _ I j x Hj').
  - apply (i_adv _ _ _ I).
  - apply (i_started _ _ _ I).
  - apply (i_closed _ _ _ I).
  - apply (i_spk _ _ _ I).
  - apply (i_mid _ _ _ I).
  - intros Hp x Hx. destruct (Hget _ _ Hx) as [[Hk' ->]|[Hne Hx']].
    + apply Hmono. apply (i_await _ _ _ I Hp c). rewrite Hk'. exact En.
    + apply (i_await _ _ _ I Hp x Hx').
  - apply (i_done _ _ _ I).
  - apply (i_file _ _ _ I).
Qed.

(* ---------------------------------------------------------------- main thread *)
Lemma inv_main pre Ss win s s' : Inv pre Ss s -> main_step win s = Some s' -> Inv pre Ss s'.
Proof.
  intros I. unfold main_step. destruct (p_closed s) eqn:Hc; [discriminate|].
  pose proof (i_len _ _ _ I) as HL. pose proof (i_adv _ _ _ I) as HA. pose proof (i_started _ _ _ I) as HS.
  pose proof (i_spk _ _ _ I) as HK.
  destruct ((p_started s <? length (p_chroms s))%nat && (p_started s - p_advanced s <? win)%nat) eqn:Hst.
  - (* start *)
    apply andb_prop in Hst. destruct Hst as [Hlt _]. apply Nat.ltb_lt in Hlt.
    intros H. inversion H; subst s'; clear H. constructor; cbn.
    + exact HL.
    + intros k c Hn. pose proof (i_good _ _ _ I k c Hn) as G. constructor.
      * apply (cg_local _ _ _ _ _ _ G).
      * apply (cg_adv _ _ _ _ _ _ G).
      * apply (cg_notadv _ _ _ _ _ _ G).
      * intros Hs. apply (cg_unstarted _ _ _ _ _ _ G). lia.
      * apply (cg_spliced _ _ _ _ _ _ G).
    + lia.
    + lia.
    + discriminate.
    + lia.
    + intros Hp. pose proof (i_mid _ _ _ I Hp). lia.
    + apply (i_await _ _ _ I).
    + intros Hp. destruct (i_done _ _ _ I Hp). congruence.
    + apply (i_file _ _ _ I).
  - destruct (p_advanced s <? p_started s)%nat eqn:Had.
    + (* advance *)
      apply Nat.ltb_lt in Had.
      destruct (nth_error (p_chroms s) (p_advanced s)) as [c|] eqn:En; [|discriminate].
      destruct (c_todo c) as [|x r] eqn:Et; [|discriminate].
      intros H. inversion H; subst s'; clear H.
      pose proof (nth_error_lt _ _ _ En) as Hlt.
      assert (Hget : forall j x, nth_error (set_nth (p_advanced s) (close_sender c) (p_chroms s)) j = Some x ->
                       (j = p_advanced s /\ x = close_sender c) \/ (j <> p_advanced s /\ nth_error (p_chroms s) j = Some x)).
      { intros j x Hj. destruct (Nat.eq_dec j (p_advanced s)) as [->|Hne].
        - rewrite nth_error_set_same in Hj by exact Hlt. inversion Hj. auto.
        - rewrite nth_error_set_other in Hj by exact Hne. auto. }
      constructor; cbn.
      * rewrite set_nth_length. exact HL.
      * intros j x Hj. destruct (Hget j x Hj) as [[-> ->]|[Hne Hj']].
        -- pose proof (i_good _ _ _ I _ c En) as G. pose proof (cg_local _ _ _ _ _ _ G) as L.
           constructor; cbn.
           ++ constructor; cbn.
              ** apply (cl_order _ _ L).
              ** intros E. destruct (cl_wdone _ _ L E). auto.
              ** intros _. exact Et.
           ++ reflexivity.
           ++ intros Hs. exfalso. lia.
           ++ intros Hs. exfalso. lia.
           ++ apply (cg_spliced _ _ _ _ _ _ G).
        -- pose proof (i_good _ _ _ I j x Hj') as G. constructor.
           ++ apply (cg_local _ _ _ _ _ _ G).
           ++ intros Hs. apply (cg_adv _ _ _ _ _ _ G). lia.
           ++ intros Hs. apply (cg_notadv _ _ _ _ _ _ G). lia.
           ++ apply (cg_unstarted _ _ _ _ _ _ G).
           ++ apply (cg_spliced _ _ _ _ _ _ G).
      * lia.
      * lia.
      * discriminate.
      * lia.
      * apply (i_mid _ _ _ I).
      * intros Hp x Hx. destruct (Hget _ _ Hx) as [[Hk' ->]|[Hne Hx']].
        -- cbn. apply (i_await _ _ _ I Hp c). rewrite Hk'. exact En.
        -- apply (i_await _ _ _ I Hp x Hx').
      * intros Hp. destruct (i_done _ _ _ I Hp). congruence.
      * apply (i_file _ _ _ I).
    + (* drop(send) *)
      apply Nat.ltb_ge in Had.
      destruct (length (p_chroms s) <=? p_started s)%nat eqn:Hall; [|discriminate]. apply Nat.leb_le in Hall.
      intros H. inversion H; subst s'; clear H. constructor; cbn.
      * exact HL.
      * apply (i_good _ _ _ I).
      * lia.
      * lia.
      * intros _. lia.
      * lia.
      * apply (i_mid _ _ _ I).
      * apply (i_await _ _ _ I).
      * intros Hp. destruct (i_done _ _ _ I Hp). congruence.
      * apply (i_file _ _ _ I).
Qed.

(* ---------------------------------------------------------------- splice task *)
Lemma wdone_out Ss st ad spk k c : cgood Ss st ad spk k c -> c_wdone c = true -> c_out c = nth k Ss [].
Proof.
  intros G E. pose proof (cg_local _ _ _ _ _ _ G) as L. destruct (cl_wdone _ _ L E) as [Hf Ho].
  pose proof (cl_closed _ _ L Ho) as Ht. pose proof (cl_order _ _ L) as H.
  rewrite Hf, Ht in H. cbn in H. rewrite app_nil_r in H. exact H.
Qed.

Lemma inv_splice pre Ss s s' : Inv pre Ss s -> splice_step s = Some s' -> Inv pre Ss s'.
Proof.
  intros I. unfold splice_step.
  pose proof (i_len _ _ _ I) as HL. pose proof (i_adv _ _ _ I) as HA. pose proof (i_started _ _ _ I) as HS.
  pose proof (i_spk _ _ _ I) as HK.
  destruct (sp_pc s) eqn:Hpc.
  - (* SRecv *)
    destruct (sp_k s <? p_started s)%nat eqn:Hlt.
    + apply Nat.ltb_lt in Hlt. intros H. inversion H; subst s'; clear H. constructor; cbn;
        try (first [exact HL | exact HA | exact HS | exact HK | apply (i_good _ _ _ I) | apply (i_closed _ _ _ I) | apply (i_file _ _ _ I)]).
      * intros _. exact Hlt.
      * discriminate.
      * discriminate.
    + apply Nat.ltb_ge in Hlt. destruct (p_closed s) eqn:Hc; [|discriminate].
      intros H. inversion H; subst s'; clear H. pose proof (i_closed _ _ _ I Hc) as Hall.
      constructor; cbn;
        try (first [exact HL | exact HA | exact HS | exact HK | apply (i_good _ _ _ I) | apply (i_file _ _ _ I)]).
      * intros _. exact Hall.
      * intros [H|H]; discriminate.
      * discriminate.
      * intros _. split; [lia|reflexivity].
  - (* SAwaitTask *)
    destruct (nth_error (p_chroms s) (sp_k s)) as [c|] eqn:En; [|discriminate].
    destruct (c_wdone c) eqn:Ew; [|discriminate].
    intros H. inversion H; subst s'; clear H. constructor; cbn;
      try (first [exact HL | exact HA | exact HS | exact HK | apply (i_good _ _ _ I) | apply (i_closed _ _ _ I) | apply (i_file _ _ _ I)]).
    + intros _. apply (i_mid _ _ _ I). auto.
    + intros _ x Hx. congruence.
    + discriminate.
  - (* SAwaitFile *)
    destruct (nth_error (p_chroms s) (sp_k s)) as [c|] eqn:En; [|discriminate].
    destruct (c_wdone c) eqn:Ew; [|discriminate].
    intros H. inversion H; subst s'; clear H.
    pose proof (i_mid _ _ _ I (or_intror Hpc)) as Hmid.
    pose proof (i_good _ _ _ I _ c En) as G.
    constructor; cbn [p_chroms p_started p_advanced p_closed sp_k sp_pc sp_file];
      try (first [exact HL | exact HA | exact HS | apply (i_closed _ _ _ I)]).
    + intros k x Hn. pose proof (i_good _ _ _ I k x Hn) as Gk. constructor.
      * apply (cg_local _ _ _ _ _ _ Gk).
      * apply (cg_adv _ _ _ _ _ _ Gk).
      * apply (cg_notadv _ _ _ _ _ _ Gk).
      * apply (cg_unstarted _ _ _ _ _ _ Gk).
      * intros Hs. destruct (Nat.eq_dec k (sp_k s)) as [->|Hne].
        -- congruence.
        -- apply (cg_spliced _ _ _ _ _ _ Gk). lia.
    + lia.
    + intros [H|H]; discriminate.
    + discriminate.
    + discriminate.
    + rewrite (i_file _ _ _ I). rewrite (wdone_out _ _ _ _ _ _ G Ew).
      assert (Hn : nth_error Ss (sp_k s) = Some (nth (sp_k s) Ss [])).
      { apply nth_error_nth'. lia. }
      rewrite (firstn_S_nth_error _ _ _ Hn). rewrite concat_app. cbn [concat]. rewrite app_nil_r.
      rewrite data_bytes_app. rewrite app_assoc. reflexivity.
  - discriminate.
Qed.

(* ---------------------------------------------------------------- every step, every run *)
Lemma inv_step pre Ss g t s s' : g_fifo g = true -> Inv pre Ss s -> step g t s = Some s' -> Inv pre Ss s'.
Proof.
  intros Hg I. destruct t as [|k|k i|k|]; cbn [step].
  - apply inv_main. exact I.
  - apply inv_on_chrom; [apply prod_step_ok|exact I].
  - apply inv_on_chrom; [apply enc_step_ok|exact I].
  - rewrite Hg. apply inv_on_chrom; [apply write_step_ok|exact I].
  - apply inv_splice. exact I.
Qed.

Lemma inv_step_or_stay pre Ss g t s : g_fifo g = true -> Inv pre Ss s -> Inv pre Ss (step_or_stay g t s).
Proof.
  intros Hg I. unfold step_or_stay. destruct (step g t s) eqn:E; [|exact I]. eapply inv_step; eauto.
Qed.

Lemma inv_run pre Ss g : g_fifo g = true -> forall sched s, Inv pre Ss s -> Inv pre Ss (run g sched s).
Proof.
  intros Hg. induction sched as [|t r IH]; intros s I; cbn [run]; [exact I|].
  apply IH. apply inv_step_or_stay; assumption.
Qed.

Lemma inv_reachable pre Ss g sched : g_fifo g = true -> Inv pre Ss (run g sched (init pre Ss)).
Proof. intros Hg. apply inv_run; [exact Hg|apply inv_init]. Qed.
