(* C16 through the file bytes: non-vacuity.  A chrom.sizes text and a two-chromosome bedGraph / BED text go through the
   whole pipeline (text -> parse -> writer model -> bytes -> read_info -> chromosome table -> index search -> blocks ->
   records -> text) by vm_compute, with a toy printer/parser pair for the value column (the decimal reading of the bit
   pattern: toy_pr = print_dec, toy_pf = parse_u32), and every hypothesis of the theorems of Proofs/CliEndToEnd.v is
   shown to hold of the same instance. *)
From BT Require Import Base.Util Base.LE Base.Float Generated.Consts Model.RTree Model.BBIFile Model.BigWigWrite Model.BBIRead
  Model.AutoSql Model.BigBedWrite Model.BBIReadBed Model.CliText Model.CliFile.
From BT Require Import Proofs.RTreeCodec Proofs.BigWigFileChroms Proofs.BigWigFileRoundTrip Proofs.CliTextRoundtrip Proofs.CliEndToEnd.
From BT Require Import Proofs.AcceptRules.
From BT Require Model.Accept Model.AcceptBed Proofs.BedCodec Proofs.BedReadInfo Proofs.BedEndToEnd.
Local Open Scope N_scope.

Definition toy_pf : list N -> option N := parse_u32.
Definition toy_pr : N -> list N := print_dec.
Definition idf (x : list N) : list N := x.

Definition ex_o : opts :=
  {| o_compress := false; o_ips := 2; o_bs := 2; o_izoom := 10; o_maxzooms := 2; o_manual := None; o_sort_all := true |}.
Definition chr1 : name := [99; 104; 114; 49].
Definition chr2 : name := [99; 104; 114; 50].
(* "chr1<TAB>1000<NL>chr2<TAB>500<NL>" *)
Definition ex_cs_text : list N := [99; 104; 114; 49; 9; 49; 48; 48; 48; 10; 99; 104; 114; 50; 9; 53; 48; 48; 10].
Definition ex_szs : list (name * N) := [(chr2, 500); (chr1, 1000)].
(* chr1 0 10 1065353216 / chr1 10 25 7 / chr1 40 41 0 / chr2 5 6 3 *)
Definition ex_bg_text : list N := [99; 104; 114; 49; 9; 48; 9; 49; 48; 9; 49; 48; 54; 53; 51; 53; 51; 50; 49; 54; 10; 99; 104; 114; 49; 9; 49; 48; 9; 50; 53; 9; 55; 10; 99; 104; 114; 49; 9; 52; 48; 9; 52; 49; 9; 48; 10; 99; 104; 114; 50; 9; 53; 9; 54; 9; 51; 10].
Definition ex_bg_items : list item :=
  [(chr1, {| v_start := 0; v_end := 10; v_bits := 1065353216 |}); (chr1, {| v_start := 10; v_end := 25; v_bits := 7 |});
   (chr1, {| v_start := 40; v_end := 41; v_bits := 0 |}); (chr2, {| v_start := 5; v_end := 6; v_bits := 3 |})].
(* --chrom chr1 --start 5 --end 12 *)
Definition ex_bg_restricted : list N := [99; 104; 114; 49; 9; 53; 9; 49; 48; 9; 49; 48; 54; 53; 51; 53; 51; 50; 49; 54; 10; 99; 104; 114; 49; 9; 49; 48; 9; 49; 50; 9; 55; 10].
(* chr1 0 10 n1 0 + / chr1 5 20 n2 / chr1 5 8 / chr2 7 7 "e-acute x": overlapping, nested and zero-length entries *)
Definition ex_bed_text : list N := [99; 104; 114; 49; 9; 48; 9; 49; 48; 9; 110; 49; 9; 48; 9; 43; 10; 99; 104; 114; 49; 9; 53; 9; 50; 48; 9; 110; 50; 10; 99; 104; 114; 49; 9; 53; 9; 56; 10; 99; 104; 114; 50; 9; 55; 9; 55; 9; 195; 169; 32; 120; 10].
Definition ex_bed_items : list (name * bed_entry) :=
  [(chr1, {| be_start := 0; be_end := 10; be_rest := [110;49;9;48;9;43] |}); (chr1, {| be_start := 5; be_end := 20; be_rest := [110;50] |});
   (chr1, {| be_start := 5; be_end := 8; be_rest := [] |}); (chr2, {| be_start := 7; be_end := 7; be_rest := [195;169;32;120] |})].
(* --chrom chr1 --start 9 *)
Definition ex_bed_restricted : list N := [99; 104; 114; 49; 9; 48; 9; 49; 48; 9; 110; 49; 9; 48; 9; 43; 10; 99; 104; 114; 49; 9; 53; 9; 50; 48; 9; 110; 50; 10].

Lemma toy_printer_ok bits : bits <= U32_MAX -> printer_ok toy_pf toy_pr bits.
Proof.
  intros H. unfold printer_ok, toy_pf, toy_pr. split; [apply print_dec_nonempty|]. split; [apply print_dec_no_tab|].
  split; [apply print_dec_no_nl|]. split; [exact (trim_end_after_number [] bits)|exact (dec_roundtrip bits H)].
Qed.

Example ex_bedgraph_hyps :
  parse_chrom_sizes ex_cs_text = Ok ex_szs /\ mapM (parse_bedgraph toy_pf) (lines ex_bg_text) = Ok ex_bg_items
  /\ BigWigFileRoundTrip.opts_ok ex_o /\ BigWigFileRoundTrip.input_ok ex_szs ex_bg_items /\ ex_bg_items <> []
  /\ stream_ok bw_good_val bw_good_pair (o_sort_all ex_o) ex_szs [] None ex_bg_items
  /\ Forall (fun it : item => v_start (snd it) < v_end (snd it)) ex_bg_items
  /\ Forall (fun it : item => printer_ok toy_pf toy_pr (v_bits (snd it))) ex_bg_items.
Proof.
  split; [vm_compute; reflexivity|]. split; [vm_compute; reflexivity|].
  split; [unfold BigWigFileRoundTrip.opts_ok; cbn; lia|].
  assert (Hr : runs ex_bg_items = [(chr1, map snd (firstn 3 ex_bg_items)); (chr2, map snd (skipn 3 ex_bg_items))]) by reflexivity.
  split.
  { unfold BigWigFileRoundTrip.input_ok. rewrite Hr. cbn [map fst].
    split; [repeat constructor; try discriminate; reflexivity|]. split; [reflexivity|].
    split; [unfold ex_szs; repeat constructor|unfold ex_bg_items; repeat constructor]. }
  split; [discriminate|]. split.
  { assert (H : Accept.rule_verdict Accept.bw_val_class (o_sort_all ex_o) ex_szs ex_bg_items = Ok tt) by (vm_compute; reflexivity).
    exact (proj2 (proj1 (rule_accept_iff Accept.bw_val_class bw_good_val bw_good_pair bw_vclass_none _ _ _) H)). }
  split; [unfold ex_bg_items; repeat constructor|].
  unfold ex_bg_items. repeat constructor; cbn [snd v_bits]; apply toy_printer_ok; unfold U32_MAX; lia.
Qed.

(* the whole pipeline, computed: both pass modes; the bedGraph text comes back byte for byte (the toy printer prints what the
   text held), and the restricted run prints the clipped range-query answer *)
Example ex_bedgraph_run : forall two_pass,
  match bedgraphtobigwig_file toy_pf ieee ex_o two_pass ex_cs_text ex_bg_text with
  | Ok bs => Nlen bs < U64
             /\ bigwigtobedgraph_records idf bs None None None = Ok ex_bg_items
             /\ bigwigtobedgraph_file idf toy_pr bs None None None = Ok ex_bg_text
             /\ bigwigtobedgraph_file idf toy_pr bs (Some chr1) (Some 5) (Some 12) = Ok ex_bg_restricted
             /\ bigwigtobedgraph_file idf toy_pr bs (Some [120]) None None = Ok []
             /\ bigwigtobedgraph_file idf toy_pr bs None (Some 5) None = Ok []
  | _ => False
  end.
Proof. intros [|]; vm_compute; repeat split; reflexivity. Qed.

Example ex_bed_hyps :
  parse_chrom_sizes ex_cs_text = Ok ex_szs /\ mapM parse_bed (lines ex_bed_text) = Ok ex_bed_items
  /\ Accept.opts_ok ex_o = true /\ ex_bed_items <> []
  /\ stream_ok bb_good_val bb_good_pair (o_sort_all ex_o) ex_szs [] None (AcceptBed.bb_items (to_bitems ex_bed_items))
  /\ forall two_pass, exists f, bedtobigbed_file ieee ex_o two_pass None ex_cs_text ex_bed_text = Ok f
                                /\ BedEndToEnd.file_hyps ex_o ex_szs (to_bitems ex_bed_items) f.
Proof.
  split; [vm_compute; reflexivity|]. split; [vm_compute; reflexivity|]. split; [reflexivity|]. split; [discriminate|]. split.
  { assert (H : Accept.rule_verdict Accept.bb_val_class (o_sort_all ex_o) ex_szs (AcceptBed.bb_items (to_bitems ex_bed_items)) = Ok tt)
      by (vm_compute; reflexivity).
    exact (proj2 (proj1 (rule_accept_iff Accept.bb_val_class bb_good_val bb_good_pair bb_vclass_none _ _ _) H)). }
  intros two_pass.
  assert (Hin : BedEndToEnd.input_ok (to_bitems ex_bed_items)).
  { unfold BedEndToEnd.input_ok, to_bitems, ex_bed_items. cbn [map fst snd to_entry be_start be_end be_rest].
    repeat (constructor; [unfold BedReadInfo.no_nul_name, BedCodec.entry_ok, BedCodec.no_nul; cbn [fst snd e_start e_end e_rest];
                          repeat (match goal with |- _ /\ _ => split end);
                          first [reflexivity | (repeat constructor; discriminate) | (intros [H1 H2]; discriminate) | idtac]|]).
    constructor. }
  destruct two_pass; eexists; (split; [vm_compute; reflexivity|]); unfold BedEndToEnd.file_hyps;
    (split; [cbn; lia|]); (split; [reflexivity|]); (split; [exact Hin|]);
    (split; [unfold ex_szs; repeat constructor|vm_compute; discriminate]).
Qed.

Example ex_bed_run : forall two_pass,
  match bedtobigbed_file ieee ex_o two_pass None ex_cs_text ex_bed_text with
  | Ok f => bigbedtobed_records idf f None None None = Ok ex_bed_items
            /\ bigbedtobed_file idf f None None None = Ok ex_bed_text
            /\ bigbedtobed_file idf f (Some chr1) (Some 9) None = Ok ex_bed_restricted
            /\ bigbedtobed_file idf f (Some [120]) None None = Ok []
            /\ bigbedtobed_file idf f None None (Some 5) = Ok []
  | _ => False
  end.
Proof. intros [|]; vm_compute; repeat split; reflexivity. Qed.

(* ---- the two exclusions are needed ---- *)
(* K1 (C01's known finding bw-zero-length-at-chrom-boundary) through the tools: the bedGraph parser accepts start = end, the
   writer rule accepts zero-length values, and bigwigtobedgraph does not print the ones at position 0 / at the chromosome end.
   chr1 0 0 5 / chr1 0 10 7 / chr1 1000 1000 9 comes back as chr1 0 10 7 *)
Definition k1_text : list N := [99; 104; 114; 49; 9; 48; 9; 48; 9; 53; 10; 99; 104; 114; 49; 9; 48; 9; 49; 48; 9; 55; 10; 99; 104; 114; 49; 9; 49; 48; 48; 48; 9; 49; 48; 48; 48; 9; 57; 10].
Definition k1_out : list N := [99; 104; 114; 49; 9; 48; 9; 49; 48; 9; 55; 10].
Example ex_k1_zero_length_lost :
  exists items, mapM (parse_bedgraph toy_pf) (lines k1_text) = Ok items
    /\ stream_ok bw_good_val bw_good_pair (o_sort_all ex_o) ex_szs [] None items
    /\ filter (fun it => negb (bzero ex_szs it)) items = [(chr1, {| v_start := 0; v_end := 10; v_bits := 7 |})]
    /\ forall two_pass, match bedgraphtobigwig_file toy_pf ieee ex_o two_pass ex_cs_text k1_text with
                        | Ok bs => bigwigtobedgraph_file idf toy_pr bs None None None = Ok k1_out
                        | _ => False end.
Proof.
  eexists. split; [vm_compute; reflexivity|]. split.
  { match goal with |- stream_ok _ _ _ _ _ _ ?l =>
      assert (H : Accept.rule_verdict Accept.bw_val_class (o_sort_all ex_o) ex_szs l = Ok tt) by (vm_compute; reflexivity) end.
    exact (proj2 (proj1 (rule_accept_iff Accept.bw_val_class bw_good_val bw_good_pair bw_vclass_none _ _ _) H)). }
  split; [vm_compute; reflexivity|]. intros [|]; vm_compute; reflexivity.
Qed.
(* K2 (C02/C04's known finding bb-entry-0-0) through the tools: chr1 0 0 x is accepted and written; bigbedtobed then fails with
   InvalidFile ("Chrom start and end both equal 0.") *)
Definition k2_text : list N := [99; 104; 114; 49; 9; 48; 9; 48; 9; 120; 10; 99; 104; 114; 49; 9; 48; 9; 49; 48; 10].
Example ex_k2_zero_zero_refused : forall two_pass,
  match bedtobigbed_file ieee ex_o two_pass None ex_cs_text k2_text with
  | Ok f => bigbedtobed_file idf f None None None = Err R_INVALID
  | _ => False end.
Proof. intros [|]; vm_compute; reflexivity. Qed.

(* the list-level converters accept the same example texts (hypothesis of the bridge theorems in CliEndToEndBridge.v) *)
Example ex_list_model_accepts :
  (exists file, bedgraph_to_bigwig toy_pf ex_cs_text ex_bg_text = Ok file)
  /\ (exists file, bed_to_bigbed false ex_cs_text ex_bed_text = Ok file).
Proof. split; eexists; vm_compute; reflexivity. Qed.
