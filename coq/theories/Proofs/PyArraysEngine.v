(* C20: the deque loop shared by the four binned routines (Model/PyArrays.v, Section Engine).
   For items whose clipped starts do not decrease, and at most one bin per base, the loop never
   panics and leaves in cell k exactly [fin] of the bin's data after every item that overlaps the
   bin's span has been applied to it, in order -- whatever the bin width. *)
From BT Require Import Base.Util Model.PyArrays Proofs.PyArraysGeom.
Local Open Scope Z_scope.

Lemma foldM_app : forall {S X} (f : S -> X -> res S) l1 l2 s,
  foldM f (l1 ++ l2) s = (do s' <- foldM f l1 s; foldM f l2 s').
Proof.
  intros S X f. induction l1 as [|x l1 IH]; intros l2 s; cbn [foldM app rbind]; [reflexivity|].
  destruct (f s x); cbn [rbind]; try reflexivity. apply IH.
Qed.

Lemma last_opt_snoc : forall {X} (l : list X) x, last_opt (l ++ [x]) = Some x.
Proof.
  intros X l x. destruct l as [|y l]; cbn [app last_opt]; [reflexivity|].
  f_equal. apply last_last.
Qed.

Lemma nth_repeat_in : forall {X} (x d : X) n i, (i < n)%nat -> nth i (repeat x n) d = x.
Proof.
  intros X x d. induction n as [|n IH]; intros i Hi; [exfalso; lia|].
  destruct i; cbn [repeat nth]; [reflexivity|apply IH; lia].
Qed.

Lemma seqZ_snoc : forall n a, seqZ a (S n) = seqZ a n ++ [a + Z.of_nat n].
Proof.
  intros n a. replace (S n) with (n + 1)%nat by lia. rewrite seqZ_app. reflexivity.
Qed.

Ltac zb := repeat match goal with
  | |- context [?a <=? ?b] => destruct (Z.leb_spec a b)
  | |- context [?a <? ?b] => destruct (Z.ltb_spec a b)
  | |- context [?a =? ?b] => destruct (Z.eqb_spec a b)
  end; cbn [andb orb negb]; try reflexivity; try (exfalso; lia).

Section EngineProof.
Context {I D : Type}.
Variable istart iend : I -> Z.
Variable fresh : Z -> Z -> res D.
Variable upd : I -> Z -> Z -> D -> res D.
Variable fin : D -> out.
Variable span bins : Z.
(* the pure content of [fresh] and [upd], and the shape invariant of a bin's data *)
Variable f0 : Z -> Z -> D.
Variable u : I -> Z -> Z -> D -> D.
Variable good : Z -> Z -> D -> Prop.
Variable missing : fl.

Hypothesis Hbins : 0 < bins <= span.
Hypothesis fresh_ok : forall s e, s <= e -> fresh s e = Ok (f0 s e) /\ good s e (f0 s e).
Hypothesis upd_ok : forall it s e d, good s e d -> Z.max s (istart it) < Z.min e (iend it) ->
  upd it s e d = Ok (u it s e d) /\ good s e (u it s e d).
Hypothesis fin_fresh : forall s e, fin (f0 s e) = out_of_fl missing.

Definition E (k : Z) : Z := bin_edge k span bins.
Definition live (it : I) : bool := istart it <? iend it.
Definition lo_bin (it : I) : Z := bin_index (istart it) span bins.
Definition hi_bin (it : I) : Z := bin_index (iend it - 1) span bins.
Definition hits (it : I) (k : Z) : bool := live it && (lo_bin it <=? k) && (k <=? hi_bin it).
Definition inside (it : I) : Prop := 0 <= istart it /\ iend it <= span.
(* starts do not decrease *)
Fixpoint chain (lo : Z) (l : list I) : Prop :=
  match l with [] => True | it :: r => lo <= istart it /\ chain (istart it) r end.

(* data of bin k after the items of [done] *)
Definition acc (done : list I) (k : Z) : D :=
  fold_left (fun d it => if hits it k then u it (E k) (E (k + 1)) d else d) done (f0 (E k) (E (k + 1))).

Lemma acc_snoc : forall done it k,
  acc (done ++ [it]) k = if hits it k then u it (E k) (E (k + 1)) (acc done k) else acc done k.
Proof. intros. unfold acc. rewrite fold_left_app. reflexivity. Qed.

Lemma E_mono : forall a b, 0 <= a <= b -> E a <= E b.
Proof. intros. apply bin_edge_mono; lia. Qed.
Lemma E_strict : forall k, 0 <= k -> E k < E (k + 1).
Proof. intros. apply bin_edge_strict; lia. Qed.

(* a live item inside the range: its bins, and which bins it overlaps *)
Lemma live_bins : forall it, inside it -> live it = true ->
  0 <= lo_bin it /\ lo_bin it <= hi_bin it /\ hi_bin it < bins
  /\ E (lo_bin it) <= istart it < E (lo_bin it + 1).
Proof.
  intros it [H0 H1] Hl. unfold live in Hl. apply Z.ltb_lt in Hl.
  destruct (bin_index_spec (istart it) span bins ltac:(lia) ltac:(lia)) as [[Ha Hb] Hc].
  destruct (bin_index_spec (iend it - 1) span bins ltac:(lia) ltac:(lia)) as [[Hd He] Hf].
  unfold lo_bin, hi_bin, E. repeat split; try lia.
  apply bin_index_mono; lia.
Qed.

Lemma hits_overlap : forall it k, inside it -> 0 <= k -> hits it k = true ->
  Z.max (E k) (istart it) < Z.min (E (k + 1)) (iend it).
Proof.
  intros it k Hin Hk Hh. unfold hits in Hh. apply andb_prop in Hh. destruct Hh as [Hh H3].
  apply andb_prop in Hh. destruct Hh as [Hl H2]. apply Z.leb_le in H2, H3.
  pose proof Hl as Hl'. unfold live in Hl'. apply Z.ltb_lt in Hl'. destruct Hin as [H0 H1].
  assert (Ha : E k <= iend it - 1).
  { apply (bin_le_index_iff k (iend it - 1) span bins); [lia|lia|lia|exact H3]. }
  assert (Hb : istart it < E (k + 1)).
  { destruct (Z.lt_ge_cases (istart it) (E (k + 1))) as [Hlt|Hge]; [exact Hlt|].
    exfalso. apply (bin_le_index_iff (k + 1) (istart it) span bins) in Hge; [|lia|lia|lia].
    unfold lo_bin in H2. lia. }
  pose proof (E_strict k Hk). lia.
Qed.

(* which bins an item reaches, in terms of positions only *)
Lemma hits_iff : forall it k, inside it -> 0 <= k ->
  hits it k = live it && (E k <? iend it) && (istart it <? E (k + 1)).
Proof.
  intros it k Hin Hk. unfold hits. destruct (live it) eqn:Hl; [|reflexivity]. cbn [andb].
  pose proof Hl as Hl'. unfold live in Hl'. apply Z.ltb_lt in Hl'. destruct Hin as [H0 H1].
  assert (Ha : k <= hi_bin it <-> E k <= iend it - 1).
  { apply bin_le_index_iff; lia. }
  assert (Hb : k + 1 <= lo_bin it <-> E (k + 1) <= istart it).
  { apply bin_le_index_iff; lia. }
  destruct (Z.leb_spec (lo_bin it) k), (Z.leb_spec k (hi_bin it)), (Z.ltb_spec (E k) (iend it)),
    (Z.ltb_spec (istart it) (E (k + 1))); cbn [andb]; try reflexivity; exfalso; lia.
Qed.

(* ---- the deque as a run of consecutive bins *)
Definition elemof (g : Z -> D) (k : Z) : @elem D := (k, E k, E (k + 1), g k).
Definition dqof (g : Z -> D) (lo : Z) (cnt : nat) : list (@elem D) := map (elemof g) (seqZ lo cnt).

Lemma dqof_ext : forall g1 g2 cnt lo, (forall k, lo <= k < lo + Z.of_nat cnt -> g1 k = g2 k) ->
  dqof g1 lo cnt = dqof g2 lo cnt.
Proof.
  intros g1 g2 cnt lo H. unfold dqof. apply map_ext_in. intros k Hk. apply seqZ_In in Hk.
  unfold elemof. rewrite H by lia. reflexivity.
Qed.

Lemma dqof_app : forall g n m lo, dqof g lo (n + m) = dqof g lo n ++ dqof g (lo + Z.of_nat n) m.
Proof. intros. unfold dqof. rewrite seqZ_app, map_app. reflexivity. Qed.

Lemma write_ok : forall v k x, 0 <= k < Z.of_nat (length v) -> write v k x = Ok (set_nth (Z.to_nat k) x v).
Proof. intros v k x Hk. unfold write. destruct (Z.ltb_spec k (Z.of_nat (length v))); [reflexivity|exfalso; lia]. Qed.

Definition vget (v : list out) (k : Z) : out := nth (Z.to_nat k) v ONaN.

Lemma vget_set : forall v k j x, 0 <= k < Z.of_nat (length v) -> 0 <= j ->
  vget (set_nth (Z.to_nat k) x v) j = if j =? k then x else vget v j.
Proof.
  intros v k j x Hk Hj. unfold vget. rewrite set_nth_nth by lia.
  destruct (Nat.eqb_spec (Z.to_nat j) (Z.to_nat k)), (Z.eqb_spec j k); try reflexivity; exfalso; lia.
Qed.

Lemma pop_lt_spec : forall g bs cnt lo v, 0 <= lo -> lo + Z.of_nat cnt <= Z.of_nat (length v) ->
  exists c v1, (c <= cnt)%nat
    /\ pop_lt fin bs (dqof g lo cnt) v = Ok (dqof g (lo + Z.of_nat c) (cnt - c), v1)
    /\ length v1 = length v
    /\ (forall k, 0 <= k -> vget v1 k = if (lo <=? k) && (k <? lo + Z.of_nat c) then fin (g k) else vget v k)
    /\ lo + Z.of_nat c <= Z.max lo bs
    /\ ((c < cnt)%nat -> bs <= lo + Z.of_nat c).
Proof.
  intros g bs. induction cnt as [|cnt IH]; intros lo v Hlo Hlen.
  - exists 0%nat, v. cbn [dqof seqZ map pop_lt Nat.sub Z.of_nat]. rewrite Z.add_0_r.
    split; [lia|]. split; [reflexivity|]. split; [reflexivity|]. split; [|split; [lia|intro; exfalso; lia]].
    intros k Hk. zb.
  - unfold dqof. cbn [seqZ map]. unfold elemof at 1. cbn [pop_lt].
    destruct (Z.ltb_spec lo bs) as [Hlt|Hge].
    + rewrite write_ok by lia. cbn [rbind].
      destruct (IH (lo + 1) (set_nth (Z.to_nat lo) (fin (g lo)) v) ltac:(lia) ltac:(rewrite set_nth_length; lia))
        as [c [v1 [Hc [Hp [Hl [Hv [Hm Hr]]]]]]].
      exists (S c), v1. split; [lia|]. split.
      { fold (dqof g (lo + 1) cnt). rewrite Hp. replace (lo + 1 + Z.of_nat c) with (lo + Z.of_nat (S c)) by lia.
        reflexivity. }
      split; [rewrite Hl; apply set_nth_length|]. split; [|split; [lia|intro; lia]].
      intros k Hk. rewrite Hv by exact Hk. rewrite vget_set by lia.
      zb. subst k. reflexivity.
    + exists 0%nat, v. cbn [Z.of_nat Nat.sub]. rewrite Z.add_0_r.
      split; [lia|]. split; [reflexivity|]. split; [reflexivity|]. split; [|split; [lia|intro; lia]].
      intros k Hk. zb.
Qed.

Lemma pop_all_spec : forall g cnt lo v, 0 <= lo -> lo + Z.of_nat cnt <= Z.of_nat (length v) ->
  exists v1, pop_all fin (dqof g lo cnt) v = Ok v1 /\ length v1 = length v
    /\ (forall k, 0 <= k -> vget v1 k = if (lo <=? k) && (k <? lo + Z.of_nat cnt) then fin (g k) else vget v k).
Proof.
  intros g. induction cnt as [|cnt IH]; intros lo v Hlo Hlen.
  - exists v. cbn [dqof seqZ map pop_all Z.of_nat]. rewrite Z.add_0_r.
    split; [reflexivity|]. split; [reflexivity|]. intros k Hk. zb.
  - unfold dqof. cbn [seqZ map]. unfold elemof at 1. cbn [pop_all].
    rewrite write_ok by lia. cbn [rbind].
    destruct (IH (lo + 1) (set_nth (Z.to_nat lo) (fin (g lo)) v) ltac:(lia) ltac:(rewrite set_nth_length; lia))
      as [v1 [Hp [Hl Hv]]].
    exists v1. split; [exact Hp|]. split; [rewrite Hl; apply set_nth_length|].
    intros k Hk. rewrite Hv by exact Hk. rewrite vget_set by lia.
    zb. subst k. reflexivity.
Qed.

Lemma mk_bins_spec : forall cnt first, 0 <= first ->
  mk_bins fresh span bins first cnt = Ok (dqof (fun k => f0 (E k) (E (k + 1))) first cnt).
Proof.
  induction cnt as [|cnt IH]; intros first Hf; cbn [mk_bins dqof seqZ map]; [reflexivity|].
  fold (E first). fold (E (first + 1)).
  destruct (fresh_ok (E first) (E (first + 1))) as [Hfr _]; [apply E_mono; lia|].
  rewrite Hfr. cbn [rbind]. rewrite IH by lia. cbn [rbind]. reflexivity.
Qed.

Lemma last_opt_dqof : forall g lo cnt, last_opt (dqof g lo (S cnt)) = Some (elemof g (lo + Z.of_nat cnt)).
Proof.
  intros. unfold dqof. rewrite seqZ_snoc, map_app. cbn [map]. apply last_opt_snoc.
Qed.

Lemma existsb_dqof : forall g lo cnt k, lo <= k < lo + Z.of_nat cnt ->
  existsb (fun x : @elem D => el_bin x =? k) (dqof g lo cnt) = true.
Proof.
  intros g lo cnt k Hk. apply existsb_exists. exists (elemof g k). split.
  - unfold dqof. apply in_map. apply seqZ_In. lia.
  - unfold elemof, el_bin. apply Z.eqb_refl.
Qed.

Lemma assert_present_dqof : forall g lo cnt bs be, lo <= bs -> be < lo + Z.of_nat cnt ->
  assert_present bs be (dqof g lo cnt) = true.
Proof.
  intros g lo cnt bs be H1 H2. unfold assert_present. apply forallb_forall. intros k Hk.
  apply seqZ_In in Hk. apply existsb_dqof. lia.
Qed.

(* the update loop touches exactly the bins up to the one holding the item's last base *)
Lemma upd_prefix_spec : forall it g, inside it -> live it = true -> forall cnt lo, lo_bin it <= lo ->
  (forall k, lo <= k < lo + Z.of_nat cnt -> good (E k) (E (k + 1)) (g k)) ->
  upd_prefix iend upd it (dqof g lo cnt)
  = Ok (dqof (fun k => if k <=? hi_bin it then u it (E k) (E (k + 1)) (g k) else g k) lo cnt).
Proof.
  intros it g Hin Hl. destruct (live_bins it Hin Hl) as [Hb0 [Hb1 [Hb2 Hb3]]].
  pose proof Hl as Hl'. unfold live in Hl'. apply Z.ltb_lt in Hl'. pose proof Hin as [Hi0 Hi1].
  induction cnt as [|cnt IH]; intros lo Hlo Hg; [reflexivity|].
  unfold dqof. cbn [seqZ map]. unfold elemof at 1 3. cbn [upd_prefix].
  fold (dqof g (lo + 1) cnt).
  assert (Hiff : lo <= hi_bin it <-> E lo <= iend it - 1).
  { apply bin_le_index_iff; lia. }
  destruct (Z.leb_spec (iend it) (E lo)) as [Hstop|Hgo].
  - (* break: this bin and all later ones start at or after the item's end *)
    destruct (Z.leb_spec lo (hi_bin it)) as [Hc|Hc]; [exfalso; lia|].
    f_equal. f_equal. apply dqof_ext. intros k Hk.
    destruct (Z.leb_spec k (hi_bin it)); [exfalso; lia|reflexivity].
  - destruct (Z.leb_spec lo (hi_bin it)) as [Hc|Hc]; [|exfalso; lia].
    assert (Hh : hits it lo = true).
    { unfold hits. rewrite Hl. cbn [andb]. apply andb_true_intro. split; apply Z.leb_le; lia. }
    destruct (upd_ok it (E lo) (E (lo + 1)) (g lo)) as [Hu _];
      [apply Hg; lia | apply hits_overlap; [exact Hin|lia|exact Hh] |].
    rewrite Hu. cbn [rbind]. rewrite IH; [|lia|intros k Hk; apply Hg; lia]. cbn [rbind]. reflexivity.
Qed.

(* ---- the loop invariant *)
Variable n : nat.
Hypothesis Hn : Z.of_nat n = bins.

Record Inv (done : list I) (lo : Z) (cnt : nat) (dq : list (@elem D)) (v : list out) : Prop := {
  inv_dq : dq = dqof (acc done) lo cnt;
  inv_lo : 0 <= lo;
  inv_hi : lo + Z.of_nat cnt <= bins;
  inv_len : length v = n;
  inv_v : forall k, 0 <= k < bins -> k < lo \/ lo + Z.of_nat cnt <= k -> vget v k = fin (acc done k);
  inv_done : forall it, In it done -> live it = true -> hi_bin it < lo + Z.of_nat cnt;
  inv_good : forall k, lo <= k < lo + Z.of_nat cnt -> good (E k) (E (k + 1)) (acc done k)
}.

Lemma acc_untouched : forall done k hi, (forall it, In it done -> live it = true -> hi_bin it < hi) -> hi <= k ->
  acc done k = f0 (E k) (E (k + 1)).
Proof.
  intros done k hi. unfold acc. generalize (f0 (E k) (E (k + 1))) as d.
  induction done as [|it done IH]; intros d H Hk; cbn [fold_left]; [reflexivity|].
  assert (Hh : hits it k = false).
  { unfold hits. destruct (live it) eqn:Hl; [|reflexivity]. cbn [andb].
    pose proof (H it (or_introl eq_refl) Hl). apply andb_false_intro2. apply Z.leb_gt. lia. }
  rewrite Hh. apply IH; [|exact Hk]. intros it' Hi. apply H. right. exact Hi.
Qed.

Lemma step_skip : forall st it, live it = false ->
  step istart iend fresh upd fin span bins st it = Ok st.
Proof.
  intros [dq v] it Hl. unfold step. unfold live in Hl. apply Z.ltb_ge in Hl.
  destruct (Z.leb_spec (iend it) (istart it)); [reflexivity|exfalso; lia].
Qed.

Lemma acc_skip : forall done it k, live it = false -> acc (done ++ [it]) k = acc done k.
Proof. intros. rewrite acc_snoc. unfold hits. rewrite H. reflexivity. Qed.

Lemma step_live : forall done lo cnt dq v it, Inv done lo cnt dq v -> inside it -> live it = true ->
  E lo <= istart it ->
  exists dq' v' cnt', step istart iend fresh upd fin span bins (dq, v) it = Ok (dq', v')
    /\ Inv (done ++ [it]) (lo_bin it) cnt' dq' v'.
Proof.
  intros done lo cnt dq v it HI Hin Hl Hpos. destruct HI as [Hdq Hlo Hhi Hlen Hv Hdone Hgood].
  destruct (live_bins it Hin Hl) as [Hb0 [Hb1 [Hb2 Hb3]]].
  pose proof Hl as Hl'. unfold live in Hl'. apply Z.ltb_lt in Hl'. pose proof Hin as [Hi0 Hi1].
  set (bs := lo_bin it) in *. set (be := hi_bin it) in *.
  assert (Hlobs : lo <= bs).
  { apply (bin_le_index_iff lo (istart it) span bins); [lia|lia|lia|exact Hpos]. }
  unfold step. destruct (Z.leb_spec (iend it) (istart it)) as [Hc|_]; [exfalso; lia|].
  destruct (Z.eqb_spec bins 0) as [Hc|_]; [exfalso; lia|].
  destruct (Z.eqb_spec span 0) as [Hc|_]; [exfalso; lia|]. cbn [orb].
  change (bin_index (istart it) span bins) with bs. change (bin_index (iend it - 1) span bins) with be.
  cbv zeta. subst dq.
  destruct (pop_lt_spec (acc done) bs cnt lo v Hlo ltac:(lia)) as [c [v1 [Hc [Hp [Hl1 [Hv1 [Hm Hr]]]]]]].
  rewrite Hp. cbn [rbind fst snd].
  (* the deque after popping: bins lo1 .. lo + cnt - 1, all >= bs unless empty *)
  set (lo1 := lo + Z.of_nat c) in *. set (cnt1 := (cnt - c)%nat) in *.
  assert (Hv1' : forall k, 0 <= k < bins -> k < bs \/ Z.max (lo + Z.of_nat cnt) (be + 1) <= k ->
                  vget v1 k = fin (acc (done ++ [it]) k)).
  { intros k Hk Hout. rewrite Hv1 by lia.
    assert (Hnh : hits it k = false).
    { unfold hits. fold bs. fold be. rewrite Hl. cbn [andb].
      destruct (Z.leb_spec bs k), (Z.leb_spec k be); cbn [andb]; try reflexivity. exfalso; lia. }
    rewrite acc_snoc, Hnh.
    destruct (Z.leb_spec lo k), (Z.ltb_spec k lo1); cbn [andb]; try reflexivity; apply Hv; lia. }
  assert (Hdone' : forall it', In it' (done ++ [it]) -> live it' = true -> hi_bin it' < Z.max (lo + Z.of_nat cnt) (be + 1)).
  { intros it' Hi Hl2. apply in_app_or in Hi. destruct Hi as [Hi|[Hi|[]]].
    - pose proof (Hdone it' Hi Hl2). lia.
    - subst it'. fold be. lia. }
  assert (Hfresh : forall k, lo + Z.of_nat cnt <= k -> acc done k = f0 (E k) (E (k + 1))).
  { intros k Hk. apply (acc_untouched done k (lo + Z.of_nat cnt)); [exact Hdone|exact Hk]. }
  assert (Hpush : exists cnt2, push fresh span bins bs be (dqof (acc done) lo1 cnt1) = Ok (dqof (acc done) bs cnt2)
                    /\ bs + Z.of_nat cnt2 = Z.max (lo + Z.of_nat cnt) (be + 1)).
  { destruct cnt1 as [|cnt1'] eqn:Ecnt1.
    - (* everything was popped (or the deque was empty): fresh bins bs .. be *)
      exists (S (Z.to_nat (be - bs))). change (dqof (acc done) lo1 0) with (@nil (@elem D)). unfold push. cbn [last_opt].
      rewrite mk_bins_spec by lia. split; [|unfold lo1, cnt1 in *; lia].
      f_equal. apply dqof_ext. intros k Hk. symmetry. apply Hfresh. unfold lo1, cnt1 in *. lia.
    - (* something is left: its front is bin bs; the back is extended up to be *)
      assert (Hlo1 : lo1 = bs) by (unfold lo1, cnt1 in *; lia).
      exists (S cnt1' + Z.to_nat (be - (lo1 + Z.of_nat cnt1')))%nat.
      unfold push. rewrite last_opt_dqof. unfold elemof at 1. cbn [el_bin].
      rewrite mk_bins_spec by lia. cbn [rbind]. split; [|unfold lo1, cnt1 in *; lia].
      f_equal. rewrite dqof_app. rewrite Hlo1. f_equal.
      replace (bs + Z.of_nat (S cnt1')) with (bs + Z.of_nat cnt1' + 1) by lia.
      apply dqof_ext. intros k Hk. symmetry. apply Hfresh. unfold lo1, cnt1 in *. lia. }
  destruct Hpush as [cnt2 [Hpush Hcnt2]]. rewrite Hpush. cbn [rbind].
  rewrite assert_present_dqof by lia. cbn [negb].
  assert (Hgood2 : forall k, bs <= k < bs + Z.of_nat cnt2 -> good (E k) (E (k + 1)) (acc done k)).
  { intros k Hk. destruct (Z.lt_ge_cases k (lo + Z.of_nat cnt)) as [Hin1|Hout1].
    - apply Hgood. lia.
    - rewrite Hfresh by exact Hout1. apply fresh_ok. apply E_mono. lia. }
  rewrite (upd_prefix_spec it (acc done) Hin Hl cnt2 bs); [|fold bs; lia|exact Hgood2].
  cbn [rbind]. eexists _, v1, cnt2. split; [reflexivity|].
  fold be. constructor.
  - apply dqof_ext. intros k Hk. rewrite acc_snoc. unfold hits. fold bs. fold be. rewrite Hl. cbn [andb].
    destruct (Z.leb_spec bs k); [|exfalso; lia]. cbn [andb]. reflexivity.
  - lia.
  - lia.
  - lia.
  - intros k Hk Hout. apply Hv1'; [exact Hk|]. lia.
  - intros it' Hi Hl2. pose proof (Hdone' it' Hi Hl2). lia.
  - intros k Hk. rewrite acc_snoc. destruct (hits it k) eqn:Hh.
    + apply upd_ok; [apply Hgood2; exact Hk|]. apply hits_overlap; [exact Hin|lia|exact Hh].
    + apply Hgood2. exact Hk.
Qed.

(* the whole loop *)
Lemma fold_inv : forall rest done lo cnt dq v pos, Inv done lo cnt dq v -> E lo <= pos -> chain pos rest ->
  Forall inside rest ->
  exists dq' v' lo' cnt', foldM (step istart iend fresh upd fin span bins) rest (dq, v) = Ok (dq', v')
    /\ Inv (done ++ rest) lo' cnt' dq' v'.
Proof.
  induction rest as [|it rest IH]; intros done lo cnt dq v pos HI Hpos Hch Hins.
  - exists dq, v, lo, cnt. rewrite app_nil_r. split; [reflexivity|exact HI].
  - cbn [foldM]. cbn [chain] in Hch. destruct Hch as [Hp1 Hch]. inversion Hins as [|? ? Hin Hins']; subst.
    replace (done ++ it :: rest) with ((done ++ [it]) ++ rest) by (rewrite <- app_assoc; reflexivity).
    destruct (live it) eqn:Hl.
    + destruct (step_live done lo cnt dq v it HI Hin Hl ltac:(lia)) as [dq1 [v1 [cnt1 [Hs HI1]]]].
      rewrite Hs. cbn [rbind].
      apply (IH (done ++ [it]) (lo_bin it) cnt1 dq1 v1 (istart it) HI1); [|exact Hch|exact Hins'].
      apply (live_bins it Hin Hl).
    + rewrite step_skip by exact Hl. cbn [rbind].
      apply (IH (done ++ [it]) lo cnt dq v (istart it)); [|lia|exact Hch|exact Hins'].
      destruct HI as [Hdq Hlo Hhi Hlen Hv Hdone Hgood]. constructor; try assumption.
      * rewrite Hdq. apply dqof_ext. intros k Hk. symmetry. apply acc_skip. exact Hl.
      * intros k Hk Hout. rewrite acc_skip by exact Hl. apply Hv; assumption.
      * intros it' Hi Hl2. apply in_app_or in Hi. destruct Hi as [Hi|[Hi|[]]]; [apply Hdone; assumption|].
        subst it'. rewrite Hl in Hl2. discriminate.
      * intros k Hk. rewrite acc_skip by exact Hl. apply Hgood. exact Hk.
Qed.

(* The binned loop on items whose clipped starts do not decrease, with at most one bin per base:
   no panic, and cell k is [fin] of the data of bin k after all items overlapping it. *)
Theorem run_bins_spec : forall items, chain 0 items -> Forall inside items ->
  run_bins istart iend fresh upd fin span bins items missing n
  = Ok (map (fun k => fin (acc items k)) (seqZ 0 n)).
Proof.
  intros items Hch Hins. unfold run_bins.
  destruct (Z.eqb_spec (Z.of_nat n) bins) as [_|Hc]; [|exfalso; lia]. cbn [negb].
  assert (HI0 : Inv [] 0 0 [] (repeat (out_of_fl missing) n)).
  { constructor.
    - reflexivity.
    - lia.
    - cbn [Z.of_nat]. lia.
    - apply repeat_length.
    - intros k Hk _. unfold vget. rewrite nth_repeat_in by lia. unfold acc. cbn [fold_left].
      symmetry. apply fin_fresh.
    - intros it [].
    - intros k Hk. exfalso. cbn [Z.of_nat] in Hk. lia. }
  destruct (fold_inv items [] 0 0%nat [] _ 0 HI0) as [dq [v [lo [cnt [Hf HI]]]]];
    [unfold E; rewrite bin_edge_0; lia|exact Hch|exact Hins|].
  rewrite Hf. cbn [rbind fst snd app] in *.
  destruct HI as [Hdq Hlo Hhi Hlen Hv Hdone Hgood]. subst dq.
  destruct (pop_all_spec (acc items) cnt lo v Hlo ltac:(lia)) as [v1 [Hp [Hl1 Hv1]]].
  rewrite Hp. f_equal. apply (list_ext ONaN).
  - rewrite map_length, seqZ_length. lia.
  - intros i Hi. rewrite (nth_indep (map (fun k => fin (acc items k)) (seqZ 0 n)) ONaN (fin (acc items 0)))
      by (rewrite map_length, seqZ_length; lia).
    rewrite (map_nth (fun k => fin (acc items k))). rewrite seqZ_nth by lia. cbn [Z.add].
    pose proof (Hv1 (Z.of_nat i) ltac:(lia)) as Hk. unfold vget in Hk at 1. rewrite Nat2Z.id in Hk. rewrite Hk.
    destruct (Z.leb_spec lo (Z.of_nat i)), (Z.ltb_spec (Z.of_nat i) (lo + Z.of_nat cnt)); cbn [andb]; try reflexivity;
      apply Hv; lia.
Qed.

End EngineProof.
