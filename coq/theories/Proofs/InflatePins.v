(* Statement pins for the theorems of Proofs/InflateThms.v (Spec/Inflate.v): each line fails to compile when the
   statement proved under that name is not the one written here. *)
From BT Require Import Base.Util Base.LE Base.Float Generated.Consts Model.RTree Model.BBIFile Model.BigWigWrite Model.BigWigWriteZ
  Proofs.RTreeCodec Proofs.FileRegions Proofs.BigWigFile Proofs.BigWigFileData Proofs.BigWigFileRoundTrip Proofs.ZoomBwLevels
  Spec.FormatDecode Proofs.C09Base Proofs.C09Data Proofs.C09Whole
  Spec.Inflate Proofs.InflateFuel Proofs.InflateStored Proofs.InflateHuffman Proofs.InflateThms.
Local Open Scope N_scope.

Check (inflate_never_fuel : forall input, inflate input <> Fuel /\ inflate input <> Panic).
Check (zlib_decode_res_total : forall input,
  (exists d, zlib_decode_res input = Ok d) \/ (exists e, zlib_decode_res input = Err e)).
Check (inflate_step_consumes : forall st st1, step st = Ok (inl st1) -> (blen (i_bs st1) < blen (i_bs st))%nat).
Check (adler32_closed_form : forall l,
  adler32 l = (sumN (prefix_sums 1 l)) mod 65521 * 65536 + (1 + sumN l) mod 65521).
Check (adler32_fits_u32 : forall l, adler32 l < 4294967296).
Check (adler32_streaming : forall a b,
  adler32 (a ++ b) = let st := fold_left adler_step b (adler_state a) in snd st * 65536 + fst st).
Check (lz_copy_correct : forall len dist out,
  len <= 258 -> 1 <= dist -> dist <= Nlen out ->
  lz_copy 258 len dist out = lz_copy_spec (N.to_nat len) dist out).
Check (length_codes_in_range : forall i s len s1, base_extra len_table E_CODE i s = Ok (len, s1) -> 3 <= len <= 258).
Check (distance_codes_in_range : forall i s d s1, base_extra dist_table E_DCODE i s = Ok (d, s1) -> 1 <= d <= 32768).
Check (huffman_tree_decodes_canonical_code : forall kind bad lens t, build kind bad lens = Ok t ->
  forall sym l, nth_error lens sym = Some l -> l <> 0 ->
  forall r rest, hwalk t (code_bits (N.to_nat l) (canonical_code lens sym) ++ r, rest) = Ok (N.of_nat sym, (r, rest))).
Check (huffman_canonical_code_prefix_free : forall kind bad lens t, build kind bad lens = Ok t ->
  forall s1 s2 l1 l2 tail, nth_error lens s1 = Some l1 -> nth_error lens s2 = Some l2 -> l1 <> 0 -> l2 <> 0 ->
  code_bits (N.to_nat l1) (canonical_code lens s1) ++ tail = code_bits (N.to_nat l2) (canonical_code lens s2) ->
  s1 = s2).
Check (stored_len_check_is_complement : forall len nlen, len < 65536 -> nlen < 65536 ->
  (len + nlen =? 65535) = (nlen =? N.lnot len 16)).
Check (zlib_decode_stored : forall b, zlib_decode (zlib_store b) = Some b).
Check (zlib_store_one_block : forall b, Nlen b < 65536 ->
  zlib_store b = [120; 1] ++ [1; Nlen b mod 256; Nlen b / 256; (65535 - Nlen b) mod 256; (65535 - Nlen b) / 256] ++ b
                 ++ be32 (adler32 b)).
Check (C09_decode_encode_zlib_stored : forall fp o sizes inp bs,
  bw_write_z zlib_store fp o sizes inp = Ok bs -> opts_ok o -> input_ok sizes inp -> Nlen bs < U64 ->
  Forall (fun c : name => c <> []) (map fst (runs inp)) ->
  o_sort_all o = true ->
  Forall (fun z => z < W32) (zoom_sizes_single o) ->
  exists ids outs sum data kept ubuf,
    bw_collect fp o sizes inp = Ok (ids, outs, sum, data)
    /\ incl kept (zoom_sizes_single o) /\ inc_from 0 kept /\ (ubuf = 0 <-> o_compress o = false)
    /\ decode bs (zlib_inflate_at bs) = Some (content_of fp o sizes ids outs sum ubuf kept)).
Check (C09_decode_encode_zlib_stored_multipass : forall fp o sizes inp bs,
  bw_write_multipass_z zlib_store fp o sizes inp = Ok bs -> opts_ok o -> input_ok sizes inp -> Nlen bs < U64 ->
  Forall (fun c : name => c <> []) (map fst (runs inp)) ->
  o_sort_all o = true ->
  manual_u32 o ->
  exists ids outs sum data kept ubuf,
    bw_collect fp o sizes inp = Ok (ids, outs, sum, data)
    /\ inc_from 0 kept /\ (ubuf = 0 <-> o_compress o = false)
    /\ decode bs (zlib_inflate_at bs) = Some (content_of fp o sizes ids outs sum ubuf kept)).
