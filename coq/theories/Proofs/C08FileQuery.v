(* C08 at file level, part 6: the zoom directory and every zoom query of a written bigBed.
   For the bytes of bb_write / bb_write_multipass (any arithmetic mode): read_info succeeds, the zoom
   directory it returns is strictly increasing from a resolution >= 1 with at most MAX_ZOOM_LEVELS
   entries, and for every resolution r of the directory, every chromosome c that had entries and every
   range [s, e], the reader's zoom_interval returns exactly the records bb_zoom_records yields for c
   at resolution r that pass the reader's inclusive overlap test, in order, each statistic replaced by
   its stored f32 ([zrec_read]). *)
From Coq Require Import Sorting.Sorted.
From BT Require Import Base.Util Base.LE Base.Float Generated.Consts Model.RTree Model.BBIFile Model.BigWigWrite Model.BBIRead
  Model.BigBedWrite Proofs.RTreeCodec Proofs.BedQuery Proofs.BedAssemble Proofs.BedReadInfo Proofs.BedEndToEnd Proofs.BedZoomFit
  Proofs.ZoomQuery Proofs.ZoomSorted Proofs.ZoomBwLevels
  Proofs.C08FileGeom Proofs.C08FileCodec Proofs.C08FileLayout Proofs.C08FileLevel Proofs.C08FileRead.
From BT Require Model.BedSweep Proofs.SweepRLE Proofs.BedTile Proofs.BigWigFile Proofs.ZoomFile.
Local Open Scope N_scope.

(* ---- small list lemmas ---- *)
Lemma mapM_app {X Y} (f : X -> res Y) : forall a b x y, mapM f a = Ok x -> mapM f b = Ok y -> mapM f (a ++ b) = Ok (x ++ y).
Proof.
  induction a as [|u a IH]; intros b x y Ha Hb; cbn [mapM app] in *.
  - injection Ha as <-. exact Hb.
  - destruct (f u) as [v| | |]; try discriminate. cbn [rbind] in *.
    destruct (mapM f a) as [vs| | |] eqn:E; try discriminate. cbn [rbind] in Ha. injection Ha as <-.
    rewrite (IH b vs y eq_refl Hb). reflexivity.
Qed.
Lemma concat_concat {X} : forall l : list (list (list X)), concat (concat l) = concat (map (@concat X) l).
Proof. induction l as [|a l IH]; [reflexivity|]. cbn [concat map]. now rewrite concat_app, IH. Qed.
Lemma inc_from_all : forall l lo, inc_from lo l -> Forall (fun x => lo < x) l.
Proof.
  induction l as [|x l IH]; intros lo H; [constructor|]. destruct H as [H1 H2]. constructor; [exact H1|].
  eapply Forall_impl; [|exact (IH _ H2)]. intros y Hy. cbn beta in Hy. lia.
Qed.

(* the directory lookup: resolutions are distinct *)
Lemma find_inc : forall (l : list zoom_header) lo h, inc_from lo (map zh_res l) -> In h l ->
  find (fun z => zh_res z =? zh_res h) l = Some h.
Proof.
  induction l as [|x l IH]; intros lo h Hinc Hin; [destruct Hin|]. cbn [map inc_from] in Hinc. destruct Hinc as [_ Hinc].
  cbn [find]. destruct Hin as [->|Hin]; [now rewrite N.eqb_refl|].
  pose proof (inc_from_all _ _ Hinc) as Hall. rewrite Forall_forall in Hall.
  assert (zh_res x < zh_res h) by (apply Hall; apply in_map; exact Hin).
  replace (zh_res x =? zh_res h) with false by (symmetry; apply N.eqb_neq; lia). eapply IH; eassumption.
Qed.

(* ---- the levels handed to the zoom writers ---- *)
Definition level_recs (fp : fpmode) (o : opts) (outs : list bchrom) (z : zoom_level) : Prop :=
  exists per : list (list (list zrec)),
    Forall2 (fun c recs => BedSweep.bb_zoom_records fp (o_ips o) (zl_res z) (bc_id c) (sw_entries c) = Ok recs) outs per
    /\ mapM (encode_zoom_section fp) (concat per) = Ok (zl_secs z).

Lemma level_sections fp o size : forall outs secs,
  concat_res (map (fun c => do recs <- BedSweep.bb_zoom_records fp (o_ips o) size (bc_id c) (sw_entries c);
                            mapM (encode_zoom_section fp) recs) outs) = Ok secs ->
  exists per, Forall2 (fun c recs => BedSweep.bb_zoom_records fp (o_ips o) size (bc_id c) (sw_entries c) = Ok recs) outs per
              /\ mapM (encode_zoom_section fp) (concat per) = Ok secs.
Proof.
  induction outs as [|c outs IH]; intros secs H; cbn [map concat_res fold_right] in H.
  - injection H as <-. exists []. split; [constructor|reflexivity].
  - fold (concat_res (map (fun c => do recs <- BedSweep.bb_zoom_records fp (o_ips o) size (bc_id c) (sw_entries c);
                                    mapM (encode_zoom_section fp) recs) outs)) in H.
    destruct (BedSweep.bb_zoom_records fp (o_ips o) size (bc_id c) (sw_entries c)) as [recs| | |] eqn:Er; cbn [rbind] in H; try discriminate.
    destruct (mapM (encode_zoom_section fp) recs) as [a| | |] eqn:Ea; cbn [rbind] in H; try discriminate.
    destruct (concat_res _) as [b| | |] eqn:Eb; cbn [rbind] in H; try discriminate. injection H as <-.
    destruct (IH b eq_refl) as [per [Hf Hm]]. exists (recs :: per). split; [constructor; assumption|].
    cbn [concat]. apply mapM_app; assumption.
Qed.

Lemma zoom_level_recs fp o outs size z : bb_zoom_level fp o outs size = Ok z -> zl_res z = size /\ level_recs fp o outs z.
Proof.
  unfold bb_zoom_level. intros H. destruct (concat_res _) as [secs| | |] eqn:E; cbn [rbind] in H; try discriminate.
  injection H as <-. split; [reflexivity|]. unfold level_recs. cbn [zl_res zl_secs]. apply level_sections. exact E.
Qed.

Lemma zoom_levels_recs fp o outs : forall sizes zooms, mapM (bb_zoom_level fp o outs) sizes = Ok zooms ->
  map zl_res zooms = sizes /\ Forall (level_recs fp o outs) zooms.
Proof.
  induction sizes as [|sz sizes IH]; intros zooms H; cbn [mapM] in H.
  - injection H as <-. split; [reflexivity|constructor].
  - destruct (bb_zoom_level fp o outs sz) as [z| | |] eqn:E; try discriminate. cbn [rbind] in H.
    destruct (mapM (bb_zoom_level fp o outs) sizes) as [zs| | |] eqn:E2; try discriminate. cbn [rbind] in H. injection H as <-.
    destruct (zoom_level_recs _ _ _ _ _ E) as [H1 H2]. destruct (IH zs eq_refl) as [H3 H4].
    split; [cbn [map]; now rewrite H1, H3|constructor; assumption].
Qed.

(* ---- accepted entries are what the tiling theorems need ---- *)
Lemma check_entries_valid len : forall es, check_entries len es = Ok tt -> len <= BedSweep.U32_MAX ->
  Forall (fun x => e_end x <= BedSweep.U32_MAX) es -> BedTile.valid_zoom_chrom BedSweep.U32_MAX (map to_sw es).
Proof.
  intros es Hc Hlen Hend. unfold BedTile.valid_zoom_chrom. split; [lia|].
  induction es as [|x r IH]; [split; [constructor|split; [exact I|constructor]]|].
  cbn [check_entries] in Hc. unfold check_entry in Hc.
  destruct (e_end x <? e_start x) eqn:E1; [discriminate|].
  destruct (len <=? e_start x) eqn:E2; [discriminate|].
  apply N.ltb_ge in E1. apply N.leb_gt in E2. inversion Hend as [|? ? Hx Hr]; subst.
  assert (Hc' : check_entries len r = Ok tt /\ match r with [] => True | y :: _ => e_start x <= e_start y end).
  { destruct r as [|y r']; [split; [reflexivity|exact I]|]. cbn [hd_error] in Hc.
    destruct (e_start y <? e_start x) eqn:E3; [discriminate|]. apply N.ltb_ge in E3. cbn [rbind] in Hc. split; [exact Hc|exact E3]. }
  destruct Hc' as [Hc' Hord]. destruct (IH Hc' Hr) as (A & B & C). cbn [map].
  split; [constructor; [|exact A]|split; [|constructor; [|exact C]]].
  - unfold SweepRLE.entry_ok, to_sw. cbn [BedSweep.e_start BedSweep.e_end]. lia.
  - cbn [SweepRLE.starts_sorted]. split; [|exact B]. destruct r as [|y r']; [exact I|]. cbn [map to_sw BedSweep.e_start]. exact Hord.
  - cbn [to_sw BedSweep.e_start]. lia.
Qed.

(* ---- records of the other chromosomes never pass the reader's filter ---- *)
Lemma filter_zkeep_chrom q s e : forall R, Forall (fun z => z_chrom z = q) R ->
  filter (zkeep q s e) R = filter (fun z => (s <=? z_end z) && (z_start z <=? e)) R.
Proof.
  induction 1 as [|z R Hz _ IH]; [reflexivity|]. cbn [filter]. unfold zkeep at 1. rewrite Hz, N.eqb_refl. cbn [andb]. now rewrite IH.
Qed.
Lemma filter_zkeep_other q s e : forall R, Forall (fun z => z_chrom z <> q) R -> filter (zkeep q s e) R = [].
Proof.
  induction 1 as [|z R Hz _ IH]; [reflexivity|]. cbn [filter]. unfold zkeep at 1.
  replace (z_chrom z =? q) with false by (symmetry; apply N.eqb_neq; exact Hz). cbn [andb]. exact IH.
Qed.

Lemma level_filter_chrom q s e : forall (outs : list bchrom) (per : list (list (list zrec))) bc recs,
  Forall2 (fun c rs => Forall (fun z => z_chrom z = bc_id c) (concat rs)) outs per ->
  NoDup (map bc_id outs) -> In (bc, recs) (combine outs per) -> bc_id bc = q ->
  filter (zkeep q s e) (concat (concat per)) = filter (fun z => (s <=? z_end z) && (z_start z <=? e)) (concat recs).
Proof.
  intros outs per bc recs H. revert bc recs. induction H as [|c rs outs per Hc H1 IH]; intros bc recs Hnd Hin Hq; [destruct Hin|].
  cbn [concat]. rewrite concat_app, filter_app. cbn [map] in Hnd. apply NoDup_cons_iff in Hnd as [Hnotin Hnd'].
  cbn [combine] in Hin. destruct Hin as [E|Hin].
  - injection E as -> ->. rewrite <- Hq. rewrite (filter_zkeep_chrom _ s e _ Hc).
    assert (Hrest : filter (zkeep (bc_id bc) s e) (concat (concat per)) = []).
    { apply filter_zkeep_other. rewrite concat_concat. apply Forall_forall. intros z Hz.
      apply in_concat in Hz as [R [HR Hz]]. apply in_map_iff in HR as [rs' [<- Hrs']].
      clear IH Hc. revert Hnotin H1 Hrs'. clear - Hz. intros Hnotin H1 Hrs'.
      induction H1 as [|c' r' outs per Hc' _ IH']; [destruct Hrs'|]. destruct Hrs' as [->|Hrs'].
      - rewrite Forall_forall in Hc'. rewrite (Hc' z Hz). intros E. apply Hnotin. cbn [map]. left. exact E.
      - apply IH'; [|exact Hrs']. intros Hi. apply Hnotin. cbn [map]. right. exact Hi. }
    rewrite Hrest. now rewrite app_nil_r.
  - assert (Hne : bc_id c <> q).
    { intros E. apply Hnotin. rewrite E, <- Hq. apply in_map. apply in_combine_l in Hin. exact Hin. }
    rewrite (filter_zkeep_other q s e (concat rs)).
    + cbn [app]. eapply IH; eassumption.
    + eapply Forall_impl; [|exact Hc]. intros z Hz. cbn beta in Hz. congruence.
Qed.

(* ---- resolutions fit their 32-bit field ---- *)
Definition zoom_res_u32 (two_pass : bool) (o : opts) : Prop :=
  if two_pass then Proofs.ZoomFile.manual_u32 o else Forall (fun z => z < U32) (zoom_sizes_single o).

Definition zoom_file_hyps (o : opts) (sizes : list (name * N)) (input : list bitem) (f : list N) : Prop :=
  o_bs o <= 65535 /\ Nlen (bruns input) < U16
  /\ Forall (fun it => no_nul_name (fst it) /\ Nlen (fst it) < U32 /\ e_end (snd it) < U32) input
  /\ Forall (fun s => snd s < U32) sizes /\ Nlen f <= U64.

Lemma file_hyps_zoom o sizes input f : file_hyps o sizes input f -> zoom_file_hyps o sizes input f.
Proof.
  intros (A & B & C & D & E). split; [exact A|]. split; [exact B|]. split; [|split; assumption].
  eapply Forall_impl; [|exact C]. intros it (H1 & H2 & H3). split; [exact H1|]. split; [exact H2|]. apply H3.
Qed.

(* what both zoom writers return: the levels are built from the records, every directory entry is
   placed, the directory increases from >= 1 and has at most MAX_ZOOM_LEVELS entries below 2^32 *)
Lemma zoom_part_spec two_pass fp o outs sum ds zpos zbytes zhdrs : zoom_res_u32 two_pass o ->
  (if two_pass then bb_zoom_two_pass fp o outs sum ds zpos else bb_zoom_single fp o outs sum ds zpos) = Ok (zbytes, zhdrs) ->
  exists zooms, Forall (level_recs fp o outs) zooms /\ Forall (fun z => 1 <= zl_res z) zooms
    /\ Forall (placed_in o zpos zbytes zooms) zhdrs
    /\ inc_from 0 (map zh_res zhdrs) /\ Nlen zhdrs <= MAX_ZOOM_LEVELS /\ Forall (fun h => zh_res h < U32) zhdrs.
Proof.
  intros Hu H. destruct two_pass.
  - unfold bb_zoom_two_pass in H. cbv zeta in H.
    set (zsizes := zoom_sizes_two_pass o sum (total_zoom_counts (map chrom_out_of outs)) ds) in *.
    destruct (mapM (bb_zoom_level fp o outs) zsizes) as [zooms| | |] eqn:E; cbn [rbind] in H; try discriminate.
    destruct (zoom_levels_recs _ _ _ _ _ E) as [Hres Hrecs]. exists zooms. split; [exact Hrecs|].
    pose proof (zoom_sizes_two_pass_inc o sum (map chrom_out_of outs) ds) as Hinc. fold zsizes in Hinc.
    pose proof (write_zooms_two_pass_res _ _ _ _ _ H) as Hdir. rewrite Hres in Hdir.
    split; [|split; [eapply w2p_layout; exact H|split; [rewrite Hdir; exact Hinc|split]]].
    + apply Forall_forall. intros z Hz. pose proof (inc_from_all _ _ Hinc) as Hall. rewrite Forall_forall in Hall.
      assert (0 < zl_res z) by (apply Hall; rewrite <- Hres; apply in_map; exact Hz). lia.
    + pose proof (zoom_sizes_two_pass_cap o sum (total_zoom_counts (map chrom_out_of outs)) ds) as Hcap. fold zsizes in Hcap.
      unfold Nlen in *. rewrite <- (map_length zh_res), Hdir. exact Hcap.
    + pose proof (Proofs.ZoomFile.two_pass_sizes_u32 o sum (total_zoom_counts (map chrom_out_of outs)) ds Hu) as Hall.
      fold zsizes in Hall. rewrite <- Hdir in Hall. rewrite Forall_map in Hall. exact Hall.
  - unfold bb_zoom_single in H.
    destruct (mapM (bb_zoom_level fp o outs) (zoom_sizes_single o)) as [zooms| | |] eqn:E; cbn [rbind] in H; try discriminate.
    destruct (zoom_levels_recs _ _ _ _ _ E) as [Hres Hrecs]. exists zooms. split; [exact Hrecs|].
    pose proof (zoom_sizes_single_inc o) as Hinc.
    assert (Hinc' : inc_from 0 (map zl_res zooms)) by (rewrite Hres; exact Hinc).
    destruct (write_zooms_loop_inc _ _ _ _ _ _ _ _ _ Hinc' H) as [Hdir Hlen].
    split; [|split; [eapply wzl_layout; exact H|split; [exact Hdir|split]]].
    + apply Forall_forall. intros z Hz. pose proof (inc_from_all _ _ Hinc') as Hall. rewrite Forall_forall in Hall.
      assert (0 < zl_res z) by (apply Hall; apply in_map; exact Hz). lia.
    + pose proof (zoom_sizes_single_cap o) as Hcap. unfold Nlen in *. rewrite <- Hres, map_length in Hcap. lia.
    + destruct (Proofs.ZoomFile.wzl_bounds _ _ _ _ _ _ _ _ H) as [_ Hincl]. rewrite Hres in Hincl.
      apply Forall_forall. intros h Hh. unfold zoom_res_u32 in Hu. rewrite Forall_forall in Hu. apply Hu. apply Hincl.
      apply in_map. exact Hh.
Qed.

Theorem zoom_query_on_file two_pass fp o sizes autosql input f :
  bb_write_either two_pass fp o sizes autosql input = Ok f ->
  zoom_file_hyps o sizes input f -> zoom_res_u32 two_pass o ->
  exists i, read_info f = Ok i
    /\ inc_from 0 (map zh_res (i_zooms i)) /\ Nlen (i_zooms i) <= MAX_ZOOM_LEVELS
    /\ forall r, In r (map zh_res (i_zooms i)) -> 1 <= r /\
       forall infl c es s e, In (c, es) (bruns input) ->
         exists q secs, chrom_id i c = Ok q
           /\ BedSweep.bb_zoom_records fp (o_ips o) r q (map to_sw es) = Ok secs
           /\ zoom_interval infl f i c s e r
              = Ok (map (zrec_read fp) (filter (fun z => (s <=? z_end z) && (z_start z <=? e)) (concat secs))).
Proof.
  intros Hw (Hbs' & Hnchr & Hin & Hsizes & Hflen) Hu.
  set (zp := if two_pass then bb_zoom_two_pass fp o else bb_zoom_single fp o).
  assert (Hw' : bb_write_gen (bb_sweep fp) zp o sizes autosql input = Ok f).
  { unfold zp. destruct two_pass; exact Hw. }
  assert (Hfit : forall outs sum a b zb zh, zp outs sum a b = Ok (zb, zh) -> (length zh <= 10)%nat).
  { unfold zp. destruct two_pass; intros outs sum a b zb zh; [apply two_pass_fits|apply single_fits]. }
  assert (Hnames : names_ok input).
  { eapply Forall_impl; [|exact Hin]. intros it (H1 & H2 & _). split; assumption. }
  destruct (bb_file_zoom_read (bb_sweep fp) zp Hfit o sizes autosql input f Hw' Hbs' Hnchr Hnames Hsizes Hflen)
    as (ids & outs & ds & P & zbytes & zhdrs & Hcol & Hbs2 & Hips & Hzp & Hf & HP & Hread).
  assert (Hzp' : (if two_pass then bb_zoom_two_pass fp o outs (bb_sweep fp outs) ds (Nlen P)
                  else bb_zoom_single fp o outs (bb_sweep fp outs) ds (Nlen P)) = Ok (zbytes, zhdrs)).
  { unfold zp in Hzp. destruct two_pass; exact Hzp. }
  destruct (zoom_part_spec two_pass fp o outs _ ds (Nlen P) zbytes zhdrs Hu Hzp')
    as (zooms & Hrecs & Hpos & Hplaced & Hinc & Hcap & Hres32).
  assert (Hflen' : Nlen f = Nlen P + Nlen zbytes + 4).
  { rewrite Hf, !NlenA. unfold Nlen at 3. unfold u32. rewrite enc_len. lia. }
  assert (Hzok : Forall Proofs.BigWigFile.zh_ok zhdrs).
  { apply Forall_forall. intros h Hh. rewrite Forall_forall in Hplaced, Hres32.
    destruct (Hplaced h Hh) as (z & _ & _ & Hidx & ix & lv & a & b & _ & Ez & Hd).
    assert (Nlen zbytes = Nlen a + Nlen (data_bytes (zl_secs z)) + Nlen ix + Nlen b) by (rewrite Ez, !NlenA; lia).
    unfold Proofs.BigWigFile.zh_ok. split; [apply Hres32; exact Hh|]. unfold U64 in *. lia. }
  destruct (Hread Hzok) as (i & Hri & Hiz & Hbig & Hubuf & Hcid).
  exists i. split; [exact Hri|]. rewrite Hiz. split; [exact Hinc|]. split; [exact Hcap|].
  intros r Hr. apply in_map_iff in Hr as [h [<- Hh]].
  rewrite Forall_forall in Hplaced. destruct (Hplaced h Hh) as (z & Hz & Hzres & Hidx & ix & lv & a & b & Hwi & Ez & Hd).
  rewrite Forall_forall in Hpos, Hrecs. pose proof (Hpos z Hz) as Hsz. rewrite Hzres in Hsz. split; [exact Hsz|].
  intros infl c es s e Hce.
  destruct (collect_outs _ _ _ _ _ Hcol) as (Hruns & Hbcids & Hchk).
  assert (Hbc : exists bc, In bc outs /\ bc_name bc = c /\ bc_entries bc = es).
  { rewrite <- Hruns in Hce. apply in_map_iff in Hce as [bc [E Hbc]]. inversion E; subst. exists bc. auto. }
  destruct Hbc as (bc & Hbc & Hbn & Hbe).
  destruct (Hrecs z Hz) as (per & Hper & Henc). rewrite Hzres in Hper.
  (* every chromosome's records at this resolution: sorted, one chromosome, fields in range *)
  assert (Hids16 : forall c', In c' outs -> bc_id c' < U16).
  { intros c' Hc'. assert (In (bc_id c') (seqN 0 (length (bruns input)))) by (rewrite <- Hbcids; apply in_map; exact Hc').
    apply seqN_bound in H. unfold Nlen in Hnchr. lia. }
  assert (Hends : forall c', In c' outs -> Forall (fun x => e_end x <= BedSweep.U32_MAX) (bc_entries c')).
  { intros c' Hc'. apply Forall_forall. intros x Hx. rewrite <- (bruns_untag input) in Hin. rewrite Forall_forall in Hin.
    assert (Hi : In (bc_name c', x) (untag (bruns input))).
    { unfold untag. apply in_flat_map. exists (bc_name c', bc_entries c'). split.
      - rewrite <- Hruns. apply (in_map (fun c => (bc_name c, bc_entries c))). exact Hc'.
      - cbn [fst snd]. unfold tag. apply in_map. exact Hx. }
    destruct (Hin _ Hi) as (_ & _ & H3). cbn [snd] in H3. unfold BedSweep.U32_MAX, U32 in *. lia. }
  assert (Hfits : Forall2 (fun c' rs => BedTile.recs_sorted 0 (concat rs) /\ Forall (rec_fits (bc_id c')) (concat rs)) outs per).
  { clear - Hper Hchk Hends Hsizes Hsz. induction Hper as [|c' rs outs per Hr _ IH]; [constructor|].
    inversion Hchk as [|? ? [Hl Hc] Hchk']; subst. constructor.
    - eapply (zoom_records_fit fp BedSweep.U32_MAX); [exact Hsz| |exact Hr].
      apply (check_entries_valid (bc_len c')); [exact Hc| |apply Hends; now left].
      destruct (lookup_in _ _ _ Hl) as [k Hk]. rewrite Forall_forall in Hsizes. specialize (Hsizes _ Hk). cbn [snd] in Hsizes.
      unfold BedSweep.U32_MAX, U32 in *. lia.
    - apply IH; [exact Hchk'|]. intros c'' Hc''. apply Hends. now right. }
  assert (Hchroms : Forall2 (fun c' rs => Forall (fun z => z_chrom z = bc_id c') (concat rs)) outs per).
  { clear - Hfits. induction Hfits as [|c' rs outs per [_ Hf'] _ IH]; [constructor|]. constructor; [|exact IH].
    eapply Forall_impl; [|exact Hf']. intros z0 (A & _). exact A. }
  assert (Hsecok : Forall sec_ok (concat per)).
  { clear - Hfits. induction Hfits as [|c' rs outs per [Hs Hf'] _ IH]; [constructor|]. cbn [concat]. apply Forall_app. split; [|exact IH].
    eapply (sorted_concat_sec_ok (bc_id c')); [exact Hs|]. eapply Forall_impl; [|exact Hf']. intros z0 (A & _). exact A. }
  assert (Hsorted : StronglySorted rec_le (concat (concat per))).
  { rewrite concat_concat.
    assert (E : map (@concat zrec) per = map snd (map (fun p => (bc_id (fst p), concat (snd p))) (combine outs per))).
    { rewrite map_map. cbn [snd]. clear - Hfits. induction Hfits as [|c' rs outs per _ _ IH]; [reflexivity|]. cbn [combine map]. now rewrite IH. }
    rewrite E. rewrite <- flat_map_concat_map. apply chroms_sorted_rec_le.
    - rewrite map_map. cbn [fst].
      assert (E2 : map (fun p : bchrom * list (list zrec) => bc_id (fst p)) (combine outs per) = map bc_id outs).
      { clear - Hfits. induction Hfits as [|c' rs outs per _ _ IH]; [reflexivity|]. cbn [combine map fst]. now rewrite IH. }
      rewrite E2, Hbcids. apply seqN_lt_sorted.
    - clear - Hfits. induction Hfits as [|c' rs outs per [Hs Hf'] _ IH]; [constructor|]. cbn [combine map]. constructor; [|exact IH].
      cbn [fst snd]. split; [exact Hs|]. eapply Forall_impl; [|exact Hf']. intros z0 (A & _). exact A. }
  assert (Hu32 : Forall rec_u32 (concat (concat per))).
  { rewrite concat_concat. apply Forall_forall. intros z0 Hz0. apply in_concat in Hz0 as [R [HR Hz0]].
    apply in_map_iff in HR as [rs [<- Hrs]].
    assert (Hex : exists c', In c' outs /\ BedTile.recs_sorted 0 (concat rs) /\ Forall (rec_fits (bc_id c')) (concat rs)).
    { clear - Hfits Hrs. induction Hfits as [|c' rs' outs per Hh _ IH]; [destruct Hrs|]. destruct Hrs as [->|Hrs].
      - exists c'. split; [now left|exact Hh].
      - destruct (IH Hrs) as [c'' [H1 H2]]. exists c''. split; [now right|exact H2]. }
    destruct Hex as (c' & Hc' & Hs' & Hf').
    rewrite Forall_forall in Hf'. destruct (Hf' z0 Hz0) as (A & B & C).
    destruct (recs_sorted_in _ _ _ Hs' Hz0) as (_ & D & _).
    pose proof (Hids16 c' Hc') as Hid. unfold rec_u32, BedSweep.U32_MAX, U16, U32 in *. rewrite A. repeat split; lia. }
  (* this chromosome *)
  assert (Hpair : exists recs, In (bc, recs) (combine outs per)
                               /\ BedSweep.bb_zoom_records fp (o_ips o) (zh_res h) (bc_id bc) (sw_entries bc) = Ok recs).
  { clear - Hper Hbc. induction Hper as [|c' rs outs per Hr _ IH]; [destruct Hbc|]. destruct Hbc as [->|Hbc].
    - exists rs. split; [now left|exact Hr].
    - destruct (IH Hbc) as [recs [H1 H2]]. exists recs. split; [now right|exact H2]. }
  destruct Hpair as (recs & Hpair & Hrecs_bc).
  exists (bc_id bc), recs. split; [rewrite <- Hbn; apply Hcid; exact Hbc|]. split.
  { unfold sw_entries in Hrecs_bc. rewrite Hbe in Hrecs_bc. exact Hrecs_bc. }
  assert (Hnd : NoDup (map bc_id outs)).
  { rewrite Hbcids. apply SSorted_lt_NoDup. apply seqN_lt_sorted. }
  rewrite <- (level_filter_chrom (bc_id bc) s e outs per bc recs Hchroms Hnd Hpair eq_refl).
  assert (Hcid' : chrom_id i c = Ok (bc_id bc)) by (rewrite <- Hbn; apply Hcid; exact Hbc).
  assert (Hfind : find (fun z0 => zh_res z0 =? zh_res h) (i_zooms i) = Some h).
  { rewrite Hiz. eapply find_inc; [exact Hinc|exact Hh]. }
  apply (zoom_level_on_image infl i Hbig Hubuf fp f (o_bs o) (o_ips o) (concat per) (zl_secs z) h ix lv
           (P ++ a) (b ++ u32 BIGBED_MAGIC) c (bc_id bc) s e (zh_res h) Hfind Hcid' (conj Hbs2 Hbs') Henc Hsecok Hsorted Hu32 Hidx Hwi).
  - rewrite Hf, Ez. now rewrite <- !app_assoc.
  - rewrite NlenA. lia.
  - exact Hflen.
Qed.

(* ---- C05's hypothesis, stand-alone: the sections of a level, as the writer lays them out, are sorted by
   (chromosome, start) whenever the chromosome ids increase in file order (they are 0,1,2,.. for an accepted
   input) and every chromosome's entries are what the writer accepts ---- *)
Theorem bb_level_sections_sorted fp ips size (chs : list (N * list BedSweep.entry)) per sds pos :
  1 <= size -> StronglySorted N.lt (map fst chs) ->
  Forall (fun c => BedTile.valid_zoom_chrom BedSweep.U32_MAX (snd c)) chs ->
  Forall2 (fun c recs => BedSweep.bb_zoom_records fp ips size (fst c) (snd c) = Ok recs) chs per ->
  mapM (encode_zoom_section fp) (concat per) = Ok sds ->
  RTreeBuild.sorted_starts (map sect_span (place pos sds)).
Proof.
  intros Hsz Hid Hv Hper Henc. eapply sections_sorted; [|exact Henc].
  assert (Hfits : Forall2 (fun c rs => BedTile.recs_sorted 0 (concat rs) /\ Forall (fun z => z_chrom z = fst c) (concat rs)) chs per).
  { clear - Hsz Hv Hper. induction Hper as [|c rs chs per Hr _ IH]; [constructor|]. inversion Hv as [|? ? Hc Hv']; subst.
    constructor; [|apply IH; exact Hv'].
    destruct (zoom_records_fit fp BedSweep.U32_MAX ips size (fst c) (snd c) rs Hsz Hc Hr) as [A B]. split; [exact A|].
    eapply Forall_impl; [|exact B]. intros z (C & _). exact C. }
  rewrite concat_concat.
  assert (E : map (@concat zrec) per = map snd (map (fun p => (fst (fst p), concat (snd p))) (combine chs per))).
  { rewrite map_map. cbn [snd]. clear - Hfits. induction Hfits as [|c' rs chs per _ _ IH]; [reflexivity|]. cbn [combine map]. now rewrite IH. }
  rewrite E. rewrite <- flat_map_concat_map. apply chroms_sorted_rec_le.
  - rewrite map_map. cbn [fst].
    assert (E2 : map (fun p : (N * list BedSweep.entry) * list (list zrec) => fst (fst p)) (combine chs per) = map fst chs).
    { clear - Hfits. induction Hfits as [|c' rs chs per _ _ IH]; [reflexivity|]. cbn [combine map fst]. now rewrite IH. }
    rewrite E2. exact Hid.
  - clear - Hfits. induction Hfits as [|c' rs chs per Hh _ IH]; [constructor|]. cbn [combine map]. constructor; [exact Hh|exact IH].
Qed.
