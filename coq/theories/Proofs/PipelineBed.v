(* C11: the sequential data region of the bigBed writer model (Model/BigBedWrite.v) is what every
   finishing run of the pipeline machine (Model/Pipeline.v) on the per-chromosome sections produces.
   bb_write_gen hands  pre = bb_pre sql,  data = bb_data o outs  to the shared [assemble], which lays
   out  pre ++ data_bytes data ++ ..  and indexes  place (Nlen pre) data : exactly the two terms below.
   Both pass modes and every summary sweep / zoom part share them (they are parameters of
   bb_write_gen that the data region does not depend on). *)
From BT Require Import Base.Util Base.LE Base.Float Generated.Consts Model.RTree Model.BBIFile Model.BigWigWrite
  Model.TempBuf Model.Pipeline Proofs.PipelineInv Proofs.PipelineThms.
From BT Require Model.BigBedWrite Proofs.BedAssemble Proofs.BedZoomFit.
Local Open Scope N_scope.
Module B := BT.Model.BigBedWrite.

Theorem pipeline_bb_data : forall o (outs : list B.bchrom) data (pre : list N),
  B.bb_data o outs = Ok data ->
  exists Ss,
    Forall2 (fun c S => B.bed_sections (o_ips o) (B.bc_id c) (B.bc_entries c) = Ok S) outs Ss /\
    concat Ss = data /\
    forall g sched, g_fifo g = true ->
      let s := Pipeline.run g sched (Pipeline.init pre Ss) in
      Pipeline.terminal s = true ->
      sp_file s = pre ++ data_bytes data /\ final_index (Nlen pre) s = place (Nlen pre) data.
Proof.
  intros o outs data pre E. unfold B.bb_data in E.
  destruct (concat_res_ok _ _ E) as [Ss [HF Hd]]. exists Ss. split; [|split].
  - clear -HF. remember (map (fun c => B.bed_sections (o_ips o) (B.bc_id c) (B.bc_entries c)) outs) as l eqn:El.
    revert outs El. induction HF as [|r S l Ss Hr HF IH]; intros [|c outs] El; cbn [map] in El; try discriminate.
    + constructor.
    + inversion El. constructor; [congruence|]. apply IH. assumption.
  - symmetry. exact Hd.
  - intros g sched Hg s Ht. destruct (pipeline_splice g pre Ss sched Hg Ht) as [Hf Hi].
    subst s. rewrite Hf, Hi. unfold seq_file, seq_index. rewrite <- Hd. auto.
Qed.

(* the accepted call: the file the model returns starts with the spliced data region as far as the
   data go (the three later patches of write_info only touch the pre-data region: Proofs/BedAssemble.v) *)
Theorem pipeline_bb_write : forall sweep zoom_part o sizes autosql input f,
  B.bb_write_gen sweep zoom_part o sizes autosql input = Ok f ->
  exists sql fc ids outs data,
    B.bb_schema autosql = Ok (sql, fc) /\ B.bb_collect o sizes input = Ok (ids, outs) /\ B.bb_data o outs = Ok data /\
    exists Ss,
      Forall2 (fun c S => B.bed_sections (o_ips o) (B.bc_id c) (B.bc_entries c) = Ok S) outs Ss /\
      concat Ss = data /\
      forall g sched, g_fifo g = true ->
        let s := Pipeline.run g sched (Pipeline.init (B.bb_pre sql) Ss) in
        Pipeline.terminal s = true ->
        sp_file s = B.bb_pre sql ++ data_bytes data /\
        final_index (Nlen (B.bb_pre sql)) s = place (Nlen (B.bb_pre sql)) data.
Proof.
  intros sweep zoom_part o sizes autosql input f H. unfold B.bb_write_gen in H.
  destruct (_ || _); [discriminate|].
  destruct (B.bb_schema autosql) as [[sql fc]| | |] eqn:Es; cbn [rbind] in H; try discriminate.
  destruct (B.bb_collect o sizes input) as [[ids outs]| | |] eqn:Ec; cbn [rbind] in H; try discriminate.
  destruct (B.bb_data o outs) as [data| | |] eqn:Ed; cbn [rbind] in H; try discriminate.
  exists sql, fc, ids, outs, data. split; [reflexivity|]. split; [reflexivity|]. split; [exact Ed|].
  exact (pipeline_bb_data o outs data (B.bb_pre sql) Ed).
Qed.

(* ---- the two real write paths: the bytes of the returned FILE between offset |bb_pre sql| and the
   chromosome tree are the spliced data region (the header, summary and item-count patches stay
   inside the pre-data region because at most 10 zoom levels are written: Proofs/BedZoomFit.v) ---- *)
Lemma bb_pre_length sql : length (B.bb_pre sql) = (304 + length sql + 49)%nat.
Proof.
  unfold B.bb_pre. rewrite !app_length, BedAssemble.blank_headers_length, BedAssemble.repeatN_length.
  unfold u64. rewrite BedAssemble.enc_len. cbn [length]. lia.
Qed.

Theorem pipeline_bb_file : forall two_pass fp o sizes autosql input f,
  BedZoomFit.bb_write_either two_pass fp o sizes autosql input = Ok f ->
  exists sql fc ids outs data,
    B.bb_schema autosql = Ok (sql, fc) /\ B.bb_collect o sizes input = Ok (ids, outs) /\ B.bb_data o outs = Ok data /\
    (exists pre' rest, length pre' = length (B.bb_pre sql) /\ f = pre' ++ data_bytes data ++ rest) /\
    exists Ss,
      Forall2 (fun c S => B.bed_sections (o_ips o) (B.bc_id c) (B.bc_entries c) = Ok S) outs Ss /\
      concat Ss = data /\
      forall g sched, g_fifo g = true ->
        let s := Pipeline.run g sched (Pipeline.init (B.bb_pre sql) Ss) in
        Pipeline.terminal s = true ->
        sp_file s = B.bb_pre sql ++ data_bytes data /\
        final_index (Nlen (B.bb_pre sql)) s = place (Nlen (B.bb_pre sql)) data.
Proof.
  intros two_pass fp o sizes autosql input f H.
  assert (G : forall sweep zoom_part,
            (forall outs sum a b zb zh, zoom_part outs sum a b = Ok (zb, zh) -> (length zh <= 10)%nat) ->
            B.bb_write_gen sweep zoom_part o sizes autosql input = Ok f ->
            exists sql fc ids outs data,
              B.bb_schema autosql = Ok (sql, fc) /\ B.bb_collect o sizes input = Ok (ids, outs) /\ B.bb_data o outs = Ok data /\
              (exists pre' rest, length pre' = length (B.bb_pre sql) /\ f = pre' ++ data_bytes data ++ rest)).
  { intros sweep zoom_part Hfit Hw. unfold B.bb_write_gen in Hw.
    destruct (_ || _); [discriminate|].
    destruct (B.bb_schema autosql) as [[sql fc]| | |] eqn:Es; cbn [rbind] in Hw; try discriminate.
    destruct (B.bb_collect o sizes input) as [[ids outs]| | |] eqn:Ec; cbn [rbind] in Hw; try discriminate.
    destruct (B.bb_data o outs) as [data| | |] eqn:Ed; cbn [rbind] in Hw; try discriminate.
    exists sql, fc, ids, outs, data. split; [reflexivity|]. split; [reflexivity|]. split; [exact Ed|].
    destruct (BedAssemble.assemble_layout _ _ _ _ _ _ _ _ _ _ _ _ _ Hw) as (ct & ix & lv & zbytes & zhdrs & _ & _ & Hz & Hl).
    apply Hfit in Hz. pose proof (bb_pre_length sql) as Hp.
    destruct Hl as (pre' & Hlen & Hf & _); [lia|lia|].
    exists pre', (ct ++ ix ++ zbytes ++ u32 BIGBED_MAGIC). split; [exact Hlen|exact Hf]. }
  assert (G' : exists sql fc ids outs data,
              B.bb_schema autosql = Ok (sql, fc) /\ B.bb_collect o sizes input = Ok (ids, outs) /\ B.bb_data o outs = Ok data /\
              (exists pre' rest, length pre' = length (B.bb_pre sql) /\ f = pre' ++ data_bytes data ++ rest)).
  { destruct two_pass; unfold BedZoomFit.bb_write_either, B.bb_write, B.bb_write_multipass in H.
    - eapply G; [|exact H]. intros outs sum a b zb zh. apply BedZoomFit.two_pass_fits.
    - eapply G; [|exact H]. intros outs sum a b zb zh. apply BedZoomFit.single_fits. }
  destruct G' as (sql & fc & ids & outs & data & Es & Ec & Ed & Hf).
  exists sql, fc, ids, outs, data. split; [exact Es|]. split; [exact Ec|]. split; [exact Ed|]. split; [exact Hf|].
  exact (pipeline_bb_data o outs data (B.bb_pre sql) Ed).
Qed.
