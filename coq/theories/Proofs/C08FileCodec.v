(* C08 at file level, part 2: the zoom record codec on the reader's side.
   A record is stored as eight little-endian 32-bit fields; the four statistics are narrowed to f32
   ([to_f32 fp]) and stored as their bit pattern.  Reading back ([parse_zrecs], the body of
   get_zoom_block_values) returns the record with the same chromosome, start, end and covered count and
   with every statistic replaced by what the four stored bytes decode to: [f32_stored]. *)
From BT Require Import Base.Util Base.LE Base.Float Generated.Consts Model.RTree Model.BBIFile Model.BigWigWrite Model.BBIRead
  Proofs.RTreeCodec Proofs.ZoomQuery.
From BT Require Proofs.ZoomReadCodec.
Local Open Scope N_scope.

(* what the reader gets back for a statistic x: x narrowed to f32 ([to_f32 fp], `as f32`), through its bit
   pattern.  The pattern of every value fits the four bytes (C07's Proofs/ZoomReadCodec.v bits_of_f32_lt), so
   nothing is truncated. *)
Definition f32_stored (fp : fpmode) (x : fl) : fl := f32_of_bits (bits_of_f32 (to_f32 fp x)).

Definition zrec_read (fp : fpmode) (z : zrec) : zrec :=
  let s := z_sum z in
  {| z_chrom := z_chrom z; z_start := z_start z; z_end := z_end z;
     z_sum := {| su_items := 0; su_bases := su_bases s;
                 su_min := f32_stored fp (su_min s); su_max := f32_stored fp (su_max s);
                 su_sum := f32_stored fp (su_sum s); su_sumsq := f32_stored fp (su_sumsq s) |} |}.

(* the integer fields fit their 32 bits *)
Definition rec_u32 (z : zrec) : Prop :=
  z_chrom z < U32 /\ z_start z < U32 /\ z_end z < U32 /\ su_bases (z_sum z) < U32.

Lemma zrec_bytes_length fp z : length (zrec_bytes fp z) = 32%nat.
Proof. unfold zrec_bytes, f32_bytes, u32. rewrite !app_length, !enc_le_length. reflexivity. Qed.
Lemma zrecs_bytes_length fp : forall l, length (flat_map (zrec_bytes fp) l) = (32 * length l)%nat.
Proof. induction l as [|z l IH]; [reflexivity|]. cbn [flat_map length]. rewrite app_length, zrec_bytes_length, IH. lia. Qed.

Lemma dec_le4_mod' x : dec_le [x mod 256; x / 256 mod 256; x / 256 / 256 mod 256; x / 256 / 256 / 256 mod 256] = x mod 4294967296.
Proof. apply (dec_enc_le_mod 4 x). Qed.

Lemma parse_zrec_one fp z rest n : rec_u32 z ->
  parse_zrecs false (S n) (zrec_bytes fp z ++ rest) = zrec_read fp z :: parse_zrecs false n rest.
Proof.
  intros (H1 & H2 & H3 & H4). unfold U32 in *. cbn [parse_zrecs].
  assert (Esk : skipn 32 (zrec_bytes fp z ++ rest) = rest).
  { rewrite <- (zrec_bytes_length fp z). apply skipn_exact. }
  rewrite Esk. f_equal.
  unfold zrec_bytes, f32_bytes, u32. cbn [enc_le app firstn skipn dec].
  rewrite !dec_le4 by assumption. rewrite !dec_le4_mod'. unfold zrec_read, f32_stored. cbv zeta.
  rewrite !N.mod_small by apply Proofs.ZoomReadCodec.bits_of_f32_lt. reflexivity.
Qed.

Theorem parse_zrecs_written fp : forall recs rest, Forall rec_u32 recs ->
  parse_zrecs false (length recs) (flat_map (zrec_bytes fp) recs ++ rest) = map (zrec_read fp) recs.
Proof.
  induction recs as [|z recs IH]; intros rest H; [reflexivity|]. inversion H as [|? ? Hz Hr]; subst.
  cbn [length flat_map map]. rewrite <- app_assoc. rewrite parse_zrec_one by exact Hz. now rewrite IH.
Qed.

(* the record filter only looks at fields that come back unchanged *)
Lemma zkeep_read fp q s e z : zkeep q s e (zrec_read fp z) = zkeep q s e z.
Proof. reflexivity. Qed.
Lemma filter_read fp q s e : forall l, filter (zkeep q s e) (map (zrec_read fp) l) = map (zrec_read fp) (filter (zkeep q s e) l).
Proof.
  induction l as [|z l IH]; [reflexivity|]. cbn [map filter]. rewrite zkeep_read. destruct (zkeep q s e z); cbn [map]; now rewrite IH.
Qed.

Section Reader.
Variable infl : list N -> list N.
Variable i : info.
Hypothesis Hbig : h_big (i_hdr i) = false.
Hypothesis Hubuf : h_ubuf (i_hdr i) = 0.

(* get_zoom_block_values on a block holding the encoded records of one section *)
Lemma zoom_block_written fp img off recs q s e : has_at img off (flat_map (zrec_bytes fp) recs) -> Forall rec_u32 recs ->
  zoom_block_values infl i img (off, Nlen (flat_map (zrec_bytes fp) recs)) q s e
  = Ok (Some (map (zrec_read fp) (filter (zkeep q s e) recs))).
Proof.
  intros Hat Hok. unfold zoom_block_values, block_data. cbn [fst snd].
  rewrite (has_at_slice_w img off _ _ Hat) by (unfold Nlen; now rewrite Nat2N.id).
  cbn [rdo rbind]. rewrite Hubuf. replace (0 <? 0) with false by reflexivity.
  rewrite zrecs_bytes_length. rewrite Hbig.
  replace (32 * length recs)%nat with (length recs * 32)%nat by lia.
  rewrite Nat.mod_mul by discriminate. cbn [Nat.eqb negb]. rewrite Nat.div_mul by discriminate.
  rewrite <- (app_nil_r (flat_map (zrec_bytes fp) recs)). rewrite parse_zrecs_written by exact Hok.
  change (fun z => (z_chrom z =? q) && (s <=? z_end z) && (z_start z <=? e)) with (zkeep q s e).
  now rewrite filter_read.
Qed.

(* where a level's sections lie when its data is at [dpos] *)
Lemma placed_sections fp img : forall (rsecs : list (list zrec)) sds dpos,
  mapM (encode_zoom_section fp) rsecs = Ok sds -> has_at img dpos (data_bytes sds) ->
  Forall (fun p => has_at img (s_off (snd p)) (flat_map (zrec_bytes fp) (fst p))
                   /\ s_size (snd p) = Nlen (flat_map (zrec_bytes fp) (fst p)))
         (combine rsecs (place dpos sds)).
Proof.
  induction rsecs as [|sec rsecs IH]; intros sds dpos H Hat; cbn [mapM] in H; [constructor|].
  destruct (encode_zoom_section fp sec) as [sd| | |] eqn:E; try discriminate. cbn [rbind] in H.
  destruct (mapM (encode_zoom_section fp) rsecs) as [sds'| | |] eqn:E2; try discriminate.
  cbn [rbind] in H. injection H as <-. cbn [place combine].
  unfold data_bytes in Hat. cbn [flat_map] in Hat. apply has_at_app in Hat as [Hat1 Hat2].
  assert (Eb : sd_bytes sd = flat_map (zrec_bytes fp) sec).
  { unfold encode_zoom_section in E. destruct sec as [|f r]; [discriminate|]. injection E as <-. reflexivity. }
  constructor.
  - cbn [fst snd s_off s_size]. rewrite <- Eb. split; [exact Hat1|reflexivity].
  - apply IH; [reflexivity|exact Hat2].
Qed.

(* reading the blocks of any selection of placed sections *)
Lemma collect_zoom_blocks fp img q s e : forall (hit : list (list zrec * sect)),
  Forall (fun p => has_at img (s_off (snd p)) (flat_map (zrec_bytes fp) (fst p))
                   /\ s_size (snd p) = Nlen (flat_map (zrec_bytes fp) (fst p))) hit ->
  Forall (fun p => Forall rec_u32 (fst p)) hit ->
  collect_blocks (fun b => zoom_block_values infl i img b q s e) (map (fun p => (s_off (snd p), s_size (snd p))) hit)
  = Ok (map (zrec_read fp) (flat_map (fun p => filter (zkeep q s e) (fst p)) hit)).
Proof.
  induction hit as [|p hit IH]; intros H1 H2; [reflexivity|].
  inversion H1 as [|? ? [Hat Hsz] H1']; subst. inversion H2 as [|? ? Hok H2']; subst.
  cbn [map collect_blocks flat_map]. rewrite Hsz. rewrite (zoom_block_written fp img _ _ q s e Hat Hok). cbn [rbind].
  rewrite (IH H1' H2'). cbn [rbind]. now rewrite map_app.
Qed.
End Reader.
