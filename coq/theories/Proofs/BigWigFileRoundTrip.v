(* C01, whole file, part 4: composition.  For the bytes [bs] produced by [assemble] from what
   bw_collect accepted (this covers bw_write and bw_write_multipass, which differ in the zoom part
   only):  read_info bs succeeds with the header fields and the chromosome table as written, and
   bw_interval on any chromosome with data and any range [s,e) returns clip_filter s e of that
   chromosome's accepted value list, bit-identical and in order.  Uses: the region lemmas
   (FileRegions, BigWigFile), the chromosome tree codec (BigWigFileChroms), the section codec and
   piece lemmas (BigWigFileData), C05's search_bytes_eq_scan, and BigWigQuery's query_sections. *)
From Coq Require Import Sorting.Sorted.
From BT Require Import Base.Util Base.LE Base.Float Generated.Consts Model.RTree Model.BBIFile
  Model.BigWigWrite Model.BBIRead Proofs.Chunks Proofs.BigWigQuery Proofs.RTreeAbs Proofs.RTreeBuild
  Proofs.RTreeCodec Proofs.RTreeShape Proofs.RTreeLayout Proofs.FileRegions Proofs.BigWigFile
  Proofs.BigWigFileChroms Proofs.BigWigFileData.
Local Open Scope N_scope.

(* ---------- the input as runs ---------- *)
Lemma rev_nonempty {X} (l : list X) : l <> [] -> rev l <> [].
Proof. destruct l as [|x l]; [congruence|]. intros _ E. cbn [rev] in E. apply app_eq_nil in E as [_ E]. discriminate. Qed.

Lemma runs_aux_nonempty : forall l cur acc, acc <> [] -> Forall (fun r : name * list value => snd r <> []) (runs_aux cur acc l).
Proof.
  induction l as [|[c v] l IH]; intros cur acc Ha; cbn [runs_aux].
  - constructor; [cbn [snd]; now apply rev_nonempty|constructor].
  - destruct (name_eqb c cur).
    + apply IH. discriminate.
    + constructor; [cbn [snd]; now apply rev_nonempty|]. apply IH. discriminate.
Qed.
Lemma runs_nonempty inp : Forall (fun r : name * list value => snd r <> []) (runs inp).
Proof. destruct inp as [|[c v] l]; [constructor|]. cbn [runs]. apply runs_aux_nonempty. discriminate. Qed.

Lemma runs_aux_forall (P : value -> Prop) : forall l cur acc, Forall P acc -> Forall (fun it : item => P (snd it)) l ->
  Forall (fun r : name * list value => Forall P (snd r)) (runs_aux cur acc l).
Proof.
  induction l as [|[c v] l IH]; intros cur acc Ha Hl; cbn [runs_aux].
  - constructor; [cbn [snd]; now apply Forall_rev|constructor].
  - inversion Hl as [|? ? Hv Hl']; subst. cbn [snd] in Hv. destruct (name_eqb c cur).
    + apply IH; [constructor; assumption|assumption].
    + constructor; [cbn [snd]; now apply Forall_rev|]. apply IH; [repeat constructor; assumption|assumption].
Qed.
Lemma runs_forall (P : value -> Prop) inp : Forall (fun it : item => P (snd it)) inp ->
  Forall (fun r : name * list value => Forall P (snd r)) (runs inp).
Proof.
  destruct inp as [|[c v] l]; intros H; [constructor|]. cbn [runs]. inversion H; subst.
  apply runs_aux_forall; [repeat constructor; assumption|assumption].
Qed.
Lemma runs_aux_not_nil : forall l cur acc, runs_aux cur acc l <> [].
Proof.
  induction l as [|[c v] l IH]; intros cur acc; cbn [runs_aux]; [discriminate|].
  destruct (name_eqb c cur); [apply IH|discriminate].
Qed.
Lemma runs_nil_iff inp : runs inp = [] <-> inp = [].
Proof.
  destruct inp as [|[c v] l]; [tauto|]. split; [|discriminate]. cbn [runs]. intros E.
  exfalso. exact (runs_aux_not_nil _ _ _ E).
Qed.

Lemma number_sorted : forall l base, StronglySorted N.lt (map snd (number base l)).
Proof.
  induction l as [|c l IH]; intros base; [constructor|]. cbn [number map snd]. constructor; [apply IH|].
  apply Forall_forall. intros x Hx. apply in_map_iff in Hx as [[c' id] [<- Hin]]. cbn [snd].
  apply number_ids_range in Hin. lia.
Qed.

Lemma lookup_range (sizes : list (name * N)) c len : Forall (fun s => snd s < U32) sizes ->
  lookup c sizes = Some len -> len < U32.
Proof.
  induction 1 as [|[k v] sizes Hk _ IH]; [discriminate|]. cbn [lookup]. destruct (name_eqb c k); [|exact IH].
  intros E. inversion E; subst. exact Hk.
Qed.
Lemma len_of_range (sizes : list (name * N)) c : Forall (fun s => snd s < U32) sizes -> len_of sizes c < U32.
Proof.
  intros H. unfold len_of. destruct (lookup c sizes) eqn:E; [eapply lookup_range; eauto|unfold U32; lia].
Qed.

Lemma run_outs_values_ok sizes rs outs : Forall2 (run_out sizes) rs outs -> Forall (fun s => snd s < U32) sizes ->
  Forall (fun r : name * list value => Forall (fun v => v_bits v < U32) (snd r)) rs ->
  Forall (fun c => Forall value_ok (co_vals c)) outs.
Proof.
  intros HF Hsz. induction HF as [|r c rs outs Hrc _ IH]; intros Hrb; constructor.
  - inversion Hrb as [|? ? Hr Hrb']; subst. destruct Hrc as (_ & Hv & Hl & Hc). apply (wf_values_ok (co_len c)).
    + apply check_chrom_wf. now rewrite Hv.
    + eapply lookup_range; eauto.
    + now rewrite Hv.
  - apply IH. now inversion Hrb.
Qed.

Lemma bw_collect_inv fp o sizes inp ids outs sum data :
  bw_collect fp o sizes inp = Ok (ids, outs, sum, data) ->
  inp <> [] /\ process_runs o sizes None [] (runs inp) = Ok (ids, outs)
  /\ concat_res (map (fun c => data_sections (o_ips o) (co_id c) (co_vals c)) outs) = Ok data.
Proof.
  unfold bw_collect. destruct inp as [|it inp]; [discriminate|].
  destruct (process_runs o sizes None [] (runs (it :: inp))) as [[ids' outs']| | |] eqn:Ep; cbn [rbind]; try discriminate.
  destruct (concat_res _) as [d| | |] eqn:Ec; cbn [rbind]; try discriminate.
  intros H. apply Ok_inj in H. inversion H; subst. split; [discriminate|]. split; [reflexivity|exact Ec].
Qed.

(* an accepted input has one run per chromosome (a chromosome whose run reappears is refused) *)
Lemma collect_grouped fp o sizes inp r : bw_collect fp o sizes inp = Ok r -> NoDup (map fst (runs inp)).
Proof.
  destruct r as [[[ids outs] sum] data]. intros H. destruct (bw_collect_inv _ _ _ _ _ _ _ _ H) as (_ & Hp & _).
  exact (proj1 (process_runs_spec o sizes (runs inp) None [] ids outs Hp)).
Qed.

(* ---------- hypotheses on options and input (the guards the Rust types impose) ---------- *)
Definition opts_ok (o : opts) : Prop := 2 <= o_bs o <= 65535 /\ 1 <= o_ips o <= 65535.

Definition input_ok (sizes : list (name * N)) (inp : list item) : Prop :=
  Forall (fun c : name => no_zero c /\ Nlen c < U32) (map fst (runs inp))   (* names: no NUL byte *)
  /\ Nlen (runs inp) < U16                                              (* chromosome count fits u16 *)
  /\ Forall (fun s => snd s < U32) sizes                                (* lengths are u32 *)
  /\ Forall (fun it : item => v_bits (snd it) < U32) inp.               (* values are f32 patterns *)

(* the header the reader must see *)
Definition written_header (ds ctlen nz : N) : header :=
  {| h_big := false; h_bigwig := true; h_version := 4; h_zoom_levels := nz;
     h_chrom_tree_off := PRE_DATA + ds; h_full_data_off := PRE_DATA - 8;
     h_full_index_off := PRE_DATA + ds + ctlen; h_field_count := 0; h_defined_fc := 0;
     h_asql_off := 0; h_summary_off := PRE_DATA - 48; h_ubuf := 0 |}.

Section Core.
Variables (fp : fpmode) (o : opts) (sizes : list (name * N)) (inp : list item).
Variables (ids : idmap) (outs : list chrom_out) (sum : summary) (data : list sdata).
Variables (zoom_part : N -> N -> res (list N * list zoom_header)) (dco : N -> N) (bs : list N) (p : file_parts).
Hypothesis Hcol : bw_collect fp o sizes inp = Ok (ids, outs, sum, data).
Hypothesis HA : assembled o BIGWIG_MAGIC sizes ids sum data bw_pre 0 0 0 zoom_part dco bs p.
Hypothesis Hopts : opts_ok o.
Hypothesis Hinp : input_ok sizes inp.
Hypothesis Hsize : Nlen bs < U64.

Let names := map fst (runs inp).
Let ips := N.to_nat (o_ips o).
Let ds := Nlen (data_bytes data).

Lemma core_runs : ids = number 0 names /\ Forall2 (run_out sizes) (runs inp) outs
  /\ map (fun c => (co_name c, co_id c)) outs = number 0 names.
Proof.
  destruct (bw_collect_inv _ _ _ _ _ _ _ _ Hcol) as (_ & Hp & _).
  exact (proj2 (proj2 (process_runs_spec o sizes (runs inp) None [] ids outs Hp))).
Qed.

Lemma core_data : data = map psec (pieces_of ips outs).
Proof.
  destruct (bw_collect_inv _ _ _ _ _ _ _ _ Hcol) as (_ & _ & Hd). destruct Hopts as (_ & Hi).
  apply (collect_data (o_ips o) outs data); [lia|exact Hd].
Qed.

Lemma core_ids_outs : map co_id outs = map snd (number 0 names).
Proof.
  destruct core_runs as (_ & _ & E). rewrite <- E, map_map. reflexivity.
Qed.
Lemma core_ids_sorted : StronglySorted N.lt (map co_id outs).
Proof. rewrite core_ids_outs. apply number_sorted. Qed.

Lemma core_out_in c0 : In c0 outs -> In (co_name c0, co_id c0) (number 0 names).
Proof. intros H. destruct core_runs as (_ & _ & E). rewrite <- E. apply in_map_iff. exists c0. auto. Qed.

Lemma core_wf : Forall (fun c => exists len, wf_vals len (co_vals c)) outs.
Proof.
  destruct core_runs as (_ & HF & _). clear -HF. induction HF as [|r c rs outs Hrc _ IH]; constructor; [|exact IH].
  destruct Hrc as (_ & Hv & _ & Hc). exists (co_len c). apply check_chrom_wf. now rewrite Hv.
Qed.

Lemma core_outs_ok : Forall (fun c => co_id c < U32 /\ Forall value_ok (co_vals c)) outs.
Proof.
  destruct core_runs as (_ & HF & _). destruct Hinp as (_ & Hn & Hsz & Hb).
  pose proof (runs_forall (fun v => v_bits v < U32) inp Hb) as Hrb.
  apply Forall_forall. intros c0 Hc0. split.
  - apply core_out_in in Hc0. apply number_ids_range in Hc0. unfold names in Hc0.
    unfold Nlen in *. rewrite map_length in Hc0. unfold U16, U32 in *. lia.
  - pose proof (run_outs_values_ok sizes _ _ HF Hsz Hrb) as H. rewrite Forall_forall in H. apply H. exact Hc0.
Qed.

Lemma core_pieces_ok : Forall piece_ok (pieces_of ips outs).
Proof.
  destruct Hopts as (_ & Hi). apply pieces_ok; [unfold ips; lia| |exact core_outs_ok].
  unfold ips. rewrite N2Nat.id. unfold U16. lia.
Qed.

(* ---- offsets ---- *)
Lemma core_Nlen : Nlen bs = 352 + ds + Nlen (fp_ct p) + Nlen (fp_ix p) + Nlen (fp_zbytes p) + 4.
Proof. pose proof (asm_Nlen _ _ _ _ _ _ _ _ _ _ _ _ _ _ HA) as H. cbv zeta in H. exact H. Qed.

Lemma core_nz : Nlen (fp_zhdrs p) <= 12.
Proof.
  destruct HA as (_ & _ & _ & _ & Hl & Hh & _). apply has_at_bound in Hh.
  apply Nlen_eq_length in Hl. rewrite Hl in Hh. change (Nlen bw_pre) with 352 in Hh.
  match type of Hh with 0 + Nlen ?x <= _ => assert (E : Nlen x = 64 + 24 * Nlen (fp_zhdrs p)) end.
  { unfold Nlen. rewrite app_length, header_bytes_length, zoom_dir_length. lia. }
  rewrite E in Hh. lia.
Qed.

Lemma core_ct : Forall (fun c => lookup (fst c) sizes <> None) ids
  /\ fp_ct p = ct_header (Nlen ids) (maxlen ids) ++ node_hdr 1 (Nlen ids) ++ flat_map (ct_item sizes (maxlen ids)) ids.
Proof. destruct HA as (Hct & _). apply chrom_tree_inv. exact Hct. Qed.

Lemma core_chroms_ok : Forall (chrom_ok sizes (maxlen ids)) ids.
Proof.
  destruct Hinp as (Hnm & Hn & Hsz & _). destruct core_runs as (Eids & _).
  apply Forall_forall. intros [c id] Hin. unfold chrom_ok. cbn [fst snd].
  split; [apply (maxlen_ge ids (c, id) Hin)|].
  rewrite Eids in Hin. pose proof (number_in_name _ _ _ _ Hin) as Hc. pose proof (number_ids_range _ _ _ _ Hin) as Hr.
  rewrite Forall_forall in Hnm. destruct (Hnm c Hc) as [Hz _]. split; [exact Hz|]. split.
  - unfold names, Nlen in *. rewrite map_length in Hr. unfold U16, U32 in *. lia.
  - apply len_of_range. exact Hsz.
Qed.

Lemma core_maxlen : N.of_nat (maxlen ids) < U32.
Proof.
  destruct Hinp as (Hnm & _). destruct core_runs as (Eids & _). unfold maxlen.
  assert (G : forall (l : idmap) a, N.of_nat a < U32 -> Forall (fun c => Nlen (fst c) < U32) l ->
              N.of_nat (fold_left (fun a c => Nat.max a (length (fst c))) l a) < U32).
  { induction l as [|x l IH]; intros a Ha Hl; [exact Ha|]. inversion Hl; subst. cbn [fold_left]. apply IH; [|assumption].
    unfold Nlen in *. lia. }
  apply G; [unfold U32; lia|]. rewrite Eids. apply Forall_forall. intros [c id] Hin. cbn [fst].
  apply number_in_name in Hin. rewrite Forall_forall in Hnm. apply (Hnm c Hin).
Qed.

Definition core_header : header := written_header ds (Nlen (fp_ct p)) (Nlen (fp_zhdrs p)).

(* ---- read_info ---- *)
Theorem core_read_info : exists zs,
  read_info bs = Ok {| i_hdr := core_header; i_zooms := zs; i_chroms := map (ci_of sizes) (number 0 names) |}
  /\ length zs = length (fp_zhdrs p) /\ (Forall zh_ok (fp_zhdrs p) -> zs = fp_zhdrs p).
Proof.
  pose proof core_Nlen as HN. pose proof core_nz as Hnz.
  pose proof (asm_header _ _ _ _ _ _ _ _ _ _ _ _ _ _ HA) as HH. cbv zeta in HH.
  change (Nlen bw_pre) with 352 in HH. fold ds in HH.
  assert (Hrh : read_header bs = Ok core_header).
  { apply has_at_prefix in HH. unfold core_header, written_header. change PRE_DATA with 352.
    apply (read_header_ok bs _ _ _ _ _ _ _ _ _ HH).
    unfold hdr_in_range, U16, U32, U64 in *. repeat split; lia. }
  unfold read_info. rewrite Hrh. cbn [rbind].
  change (h_big core_header) with false. change (h_zoom_levels core_header) with (Nlen (fp_zhdrs p)).
  change (h_chrom_tree_off core_header) with (352 + ds).
  destruct (read_zoom_headers_total bs (N.to_nat (Nlen (fp_zhdrs p))) 64) as [zs [Hzs Hzl]].
  { rewrite N2Nat.id. lia. }
  rewrite Hzs. cbn [rbind].
  pose proof (asm_ct _ _ _ _ _ _ _ _ _ _ _ _ _ _ HA) as HC. cbv zeta in HC.
  change (Nlen bw_pre) with 352 in HC. fold ds in HC.
  destruct core_ct as [_ Ect]. rewrite Ect in HC.
  rewrite (has_at_slice_w bs (352 + ds) (ct_header (Nlen ids) (maxlen ids)) 32 (has_at_prefix _ _ _ _ HC) eq_refl).
  cbn [rdo rbind].
  destruct (ct_header_fields (Nlen ids) (maxlen ids) core_maxlen) as (F1 & F2 & F3).
  rewrite F1, F2, F3, N.eqb_refl. cbn [negb]. change (8 =? 8) with true. cbn [negb]. rewrite Nat2N.id.
  apply has_at_suffix in HC. change (Nlen (ct_header (Nlen ids) (maxlen ids))) with 32 in HC.
  rewrite (read_chrom_block_ok sizes bs (352 + ds + 32) (maxlen ids) ids (length bs) HC).
  - destruct core_runs as (Eids & _). rewrite <- Eids. exists zs. split; [reflexivity|].
    rewrite Nlen_to_nat in Hzl. split; [exact Hzl|]. intros Hok.
    apply has_at_suffix in HH. unfold Nlen in HH at 1. rewrite header_bytes_length in HH. cbn in HH.
    pose proof (read_zoom_headers_ok bs (fp_zhdrs p) 64 HH Hok) as E.
    rewrite Nlen_to_nat in Hzs. rewrite E in Hzs. now apply Ok_inj in Hzs.
  - destruct Hinp as (_ & Hn & _). destruct core_runs as (Eids & _). rewrite Eids.
    unfold Nlen in *. rewrite number_length. unfold names. rewrite map_length. exact Hn.
  - exact core_chroms_ok.
Qed.

(* ---- the index: what C05 needs ---- *)
Let secs := place 352 (map psec (pieces_of ips outs)).

Lemma core_secs_sorted : sorted_starts (map sect_span secs).
Proof.
  unfold secs. rewrite place_pieces_spans. destruct Hopts as (_ & Hi).
  apply pieces_sorted; [unfold ips; lia|exact core_ids_sorted|exact core_wf].
Qed.
Lemma core_secs_ok : Forall sect_ok secs.
Proof.
  unfold secs. apply (placed_sect_ok (Nlen bs) Hsize); [exact core_pieces_ok|].
  rewrite <- core_data. pose proof core_Nlen. fold ds. lia.
Qed.

Lemma core_placed : Forall2 (placed bs) secs (map psec (pieces_of ips outs)).
Proof.
  pose proof (asm_placed _ _ _ _ _ _ _ _ _ _ _ _ _ _ HA) as H. cbv zeta in H.
  change (Nlen bw_pre) with 352 in H. rewrite core_data in H. exact H.
Qed.

(* ---- the query ---- *)
Theorem core_query (infl : list N -> list N) i c vs s e :
  read_info bs = Ok i -> In (c, vs) (runs inp) ->
  bw_interval infl bs i c s e = Ok (clip_filter s e vs).
Proof.
  intros Hri Hin. destruct core_read_info as [zs [Hri' _]]. rewrite Hri' in Hri. apply Ok_inj in Hri. subst i.
  destruct core_runs as (Eids & HF & Eouts). pose proof (collect_grouped _ _ _ _ _ Hcol) as Hnd. destruct Hopts as (Hb & Hi).
  (* the chrom_out of c *)
  destruct (Forall2_in_l _ _ _ _ HF Hin) as [c0 [Hc0 (Hn0 & Hv0 & Hl0 & Hk0)]]. cbn [fst snd] in *.
  pose proof (core_out_in c0 Hc0) as Hid. rewrite Hn0 in Hid.
  unfold bw_interval, chrom_id. cbn [i_chroms i_hdr].
  rewrite (find_chrom sizes names 0 c (co_id c0) Hnd Hid). cbn [ci_of ci_id snd rbind].
  (* the index header *)
  pose proof HA as (_ & Hix & _). cbv zeta in Hix. change (Nlen bw_pre) with 352 in Hix. fold ds in Hix.
  rewrite core_data in Hix. fold secs in Hix.
  destruct (write_index_inv _ _ _ _ _ _ Hix) as [t [body [_ Eix]]].
  pose proof (asm_ix _ _ _ _ _ _ _ _ _ _ _ _ _ _ HA) as HI. cbv zeta in HI.
  change (Nlen bw_pre) with 352 in HI. fold ds in HI.
  change (h_big core_header) with false. change (h_full_index_off core_header) with (352 + ds + Nlen (fp_ct p)).
  pose proof HI as HI'. rewrite Eix in HI'. rewrite (cir_tree_root_ok bs _ _ _ _ _ _ _ HI'). cbn [rbind].
  (* the search = the scan (C05) *)
  assert (Hne : secs <> []).
  { unfold secs. intros E. apply place_nil_iff in E. apply map_eq_nil in E.
    pose proof (runs_nonempty inp) as Hrn. rewrite Forall_forall in Hrn. specialize (Hrn _ Hin). cbn [snd] in Hrn.
    assert (Hch : chunks ips (co_vals c0) <> []) by (rewrite chunks_nil_iff, Hv0; exact Hrn).
    destruct (chunks ips (co_vals c0)) as [|ch chs] eqn:Ech; [congruence|].
    assert (Hp : In (co_id c0, ch) (pieces_of ips outs)).
    { unfold pieces_of. apply in_flat_map. exists c0. split; [exact Hc0|]. rewrite Ech. left; reflexivity. }
    rewrite E in Hp. destruct Hp. }
  destruct (search_bytes_eq_scan (o_bs o) (o_ips o) (352 + ds + Nlen (fp_ct p)) secs Hb Hne core_secs_sorted core_secs_ok)
    as [ix' [lv' [Hw Hs]]].
  rewrite Hix in Hw. apply Ok_inj in Hw. inversion Hw; subst ix' lv'; clear Hw.
  destruct (asm_ix_split _ _ _ _ _ _ _ _ _ _ _ _ _ _ HA) as [A [B [EB LA]]]. cbv zeta in LA.
  change (Nlen bw_pre) with 352 in LA. fold ds in LA.
  pose proof core_Nlen as HN.
  assert (HS : search_bytes (S (length bs)) false bs (352 + ds + Nlen (fp_ct p) + 48) (co_id c0) s e
               = Ok (scan secs (co_id c0) s e)).
  { rewrite EB at 2. apply Hs; [lia|exact LA|]. rewrite EB. rewrite !app_length. lia. }
  unfold search_blocks. cbn [i_hdr]. change (h_big core_header) with false. rewrite HS. cbn [rbind].
  (* the blocks *)
  rewrite (collect_pieces infl {| i_hdr := core_header; i_zooms := zs; i_chroms := map (ci_of sizes) (number 0 names) |}
             bs eq_refl eq_refl (co_id c0) s e (pieces_of ips outs) secs core_placed core_pieces_ok).
  f_equal. etransitivity; [apply (pieces_answer (co_id c0) s e ips outs ltac:(unfold ips; lia) core_wf)|].
  rewrite (flat_map_single (fun c => clip_filter s e (co_vals c)) outs c0 (SSorted_lt_NoDup _ core_ids_sorted) Hc0).
  now rewrite Hv0.
Qed.
End Core.

(* what the writer's checks guarantee for a run it accepted *)
Lemma collect_accepted fp o sizes inp ids outs sum data c vs :
  bw_collect fp o sizes inp = Ok (ids, outs, sum, data) -> In (c, vs) (runs inp) ->
  exists len, lookup c sizes = Some len /\ wf_vals len vs /\ vs <> [].
Proof.
  intros Hcol Hin. destruct (bw_collect_inv _ _ _ _ _ _ _ _ Hcol) as (_ & Hp & _).
  destruct (process_runs_spec o sizes (runs inp) None [] ids outs Hp) as (_ & _ & _ & HF & _).
  destruct (Forall2_in_l _ _ _ _ HF Hin) as [c0 [_ (_ & _ & Hl & Hk)]]. cbn [fst snd] in *.
  exists (co_len c0). split; [exact Hl|]. split; [now apply check_chrom_wf|].
  pose proof (runs_nonempty inp) as Hrn. rewrite Forall_forall in Hrn. exact (Hrn _ Hin).
Qed.

(* ---------- both writers: everything follows from [assemble] on what bw_collect returned ---------- *)
Definition expected_chroms (sizes : list (name * N)) (inp : list item) : list chrom_info :=
  map (ci_of sizes) (number 0 (map fst (runs inp))).

Theorem assemble_roundtrip fp o sizes inp ids outs sum data zoom_part dco bs :
  bw_collect fp o sizes inp = Ok (ids, outs, sum, data) ->
  assemble o BIGWIG_MAGIC sizes ids sum data bw_pre 0 0 0 zoom_part dco = Ok bs ->
  (forall ds zp zb zh, zoom_part ds zp = Ok (zb, zh) -> Nlen zh <= 10) ->
  opts_ok o -> input_ok sizes inp -> Nlen bs < U64 ->
  exists p i,
    assembled o BIGWIG_MAGIC sizes ids sum data bw_pre 0 0 0 zoom_part dco bs p
    /\ read_info bs = Ok i
    /\ i_hdr i = written_header (Nlen (data_bytes data)) (Nlen (fp_ct p)) (Nlen (fp_zhdrs p))
    /\ i_chroms i = expected_chroms sizes inp
    /\ length (i_zooms i) = length (fp_zhdrs p)
    /\ (Forall zh_ok (fp_zhdrs p) -> i_zooms i = fp_zhdrs p)
    /\ forall infl c vs s e, In (c, vs) (runs inp) -> bw_interval infl bs i c s e = Ok (clip_filter s e vs).
Proof.
  intros Hcol Hasm Hz Hopts Hinp Hsize.
  destruct (assemble_inv _ _ _ _ _ _ _ _ _ _ _ _ _ Hasm) as [p HA].
  { intros ds zp zb zh E. specialize (Hz _ _ _ _ E). change (Nlen bw_pre) with 352. lia. }
  destruct (core_read_info fp o sizes inp ids outs sum data zoom_part dco bs p Hcol HA Hinp Hsize)
    as [zs [Hri [Hzl Hzs]]].
  exists p. eexists. split; [exact HA|]. split; [exact Hri|]. cbn [i_hdr i_chroms i_zooms].
  split; [reflexivity|]. split; [reflexivity|]. split; [exact Hzl|]. split; [exact Hzs|].
  intros infl c vs s e Hin.
  exact (core_query fp o sizes inp ids outs sum data zoom_part dco bs p Hcol HA Hopts Hinp Hsize infl _ c vs s e Hri Hin).
Qed.
