(* C14: crash points that include the header operation, seen through the readers: the trace
   theorems (Proofs/SinkPhases.v) composed with the reader theorems (Proofs/SinkRead.v, after C01). *)
From Coq Require Import Sorting.Sorted.
From BT Require Import Base.Util Base.LE Base.Float Generated.Consts Model.RTree Model.BBIFile
  Model.BigWigWrite Model.BBIRead Model.SinkTrace Proofs.BigWigQuery
  Proofs.RTreeCodec Proofs.FileRegions Proofs.BigWigFile Proofs.BigWigFileRoundTrip Proofs.BigWigFileThms
  Proofs.SinkBytes Proofs.SinkExec Proofs.SinkPhases Proofs.SinkRefine Proofs.SinkRead.
Local Open Scope N_scope.

Lemma final_length p : parts_ok p -> length (final_bytes p) = (length (body p) + 4)%nat.
Proof.
  intros K. rewrite (final_is_replay p K).
  pose proof (body_length p K) as HL.
  assert (Hhi : (352 <= length (body p))%nat) by (unfold Nlen in HL; lia).
  (* the last write appends the four bytes of the magic *)
  unfold tail_ops. cbn [fold_left apply_op].
  rewrite write_at_length.
  set (f3 := write_at (write_at (after_header p) (p_so p) (p_sum p)) (p_fdo p) (p_cnt p)).
  assert (L3 : length f3 = length (body p)).
  { unfold f3. rewrite !write_at_length, (after_header_length p K), (pk_so p K), (pk_fdo p K).
    pose proof (Nlen_nat _ 40 (pk_sum p K)). pose proof (Nlen_nat _ 8 (pk_cnt p K)). lia. }
  rewrite L3. pose proof (Nlen_nat _ 4 (pk_magic p K)) as H4. unfold Nlen. rewrite Nat2N.id. lia.
Qed.

Lemma complete_agrees p X : parts_ok p -> complete_state p X -> agrees X (final_bytes p).
Proof.
  intros K [Hl Hn]. pose proof (final_length p K) as HF. split; [lia|].
  intros i Hi Hout. apply Hn; [lia|exact Hout].
Qed.

(* what the readers answer on an image that agrees with the file a writer produced *)
Definition serves (sizes : list (name * N)) (inp : list item) (F X : list N) : Prop :=
  exists i, read_info F = Ok i /\ read_info X = Ok i
    /\ forall infl c vs s e, In (c, vs) (runs inp) ->
         bw_interval infl X i c s e = Ok (clip_filter s e vs)
         /\ bw_interval infl F i c s e = Ok (clip_filter s e vs).

Lemma assembled_serves fp o sizes inp ids outs sum data zoom_part F X :
  bw_collect fp o sizes inp = Ok (ids, outs, sum, data) ->
  assemble o BIGWIG_MAGIC sizes ids sum data bw_pre 0 0 0 zoom_part (fun n => n) = Ok F ->
  (forall ds zp zb zh, zoom_part ds zp = Ok (zb, zh) -> Nlen zh <= 10) ->
  opts_ok o -> input_ok sizes inp -> Nlen F < U64 -> agrees X F -> serves sizes inp F X.
Proof.
  intros Hcol Hasm Hz Ho Hi Hs HX.
  destruct (assemble_inv _ _ _ _ _ _ _ _ _ _ _ _ _ Hasm) as [fpart HA].
  { intros ds zp zb zh E. specialize (Hz _ _ _ _ E). change (Nlen bw_pre) with 352. lia. }
  assert (Hnz : Nlen (fp_zhdrs fpart) <= 10) by (destruct HA as (_ & _ & Hzp & _); exact (Hz _ _ _ _ Hzp)).
  destruct (agreeing_images_serve fp o sizes inp ids outs sum data zoom_part (fun n => n) F fpart Hcol HA Hnz Ho Hi Hs X HX)
    as [RF [RX Q]].
  eexists. split; [exact RF|]. split; [exact RX|exact Q].
Qed.

Theorem written_serves fp o sizes inp F X :
  bw_write fp o sizes inp = Ok F \/ bw_write_multipass fp o sizes inp = Ok F ->
  opts_ok o -> input_ok sizes inp -> Nlen F < U64 -> agrees X F -> serves sizes inp F X.
Proof.
  intros [H|H] Ho Hi Hs HX.
  - destruct (bw_write_inv fp o sizes inp F H) as (ids & outs & sum & data & zooms & Hcol & Hz & Hasm).
    exact (assembled_serves fp o sizes inp ids outs sum data _ F X Hcol Hasm (single_zoom_bound fp o outs zooms Hz) Ho Hi Hs HX).
  - destruct (bw_write_multipass_inv fp o sizes inp F H) as (ids & outs & sum & data & Hcol & Hasm).
    exact (assembled_serves fp o sizes inp ids outs sum data _ F X Hcol Hasm (multi_zoom_bound fp o outs sum) Ho Hi Hs HX).
Qed.

(* every crash point that includes the header operation serves what the finished file serves *)
Theorem crash_after_serves ck fp kind o sizes input p n c :
  chunker_ok ck -> bw_parts fp kind o sizes input = Ok p -> kind = 0 \/ kind = 1 ->
  opts_ok o -> input_ok sizes input -> Nlen (final_bytes p) < U64 ->
  (header_index ck kind p < n)%nat ->
  let T := snd (bw_sink_run None ck fp kind o sizes input) in
  serves sizes input (replay T) (replay (cut_ops T n c)).
Proof.
  intros Hck Hp Hkind Ho Hi Hs Hn T.
  pose proof (bw_parts_ok fp kind o sizes input p Hp (bw_parts_zooms_le fp kind o sizes input p Hp)) as K.
  assert (ET : T = snd (run None (Ok tt) (calls_accept ck false true kind p))).
  { unfold T, bw_sink_run, sink_run. rewrite Hp. reflexivity. }
  assert (EF : replay T = final_bytes p) by (rewrite ET; exact (replay_final ck kind p Hck K)).
  rewrite EF. apply (written_serves fp o sizes input).
  - destruct Hkind as [-> | ->].
    + left. rewrite bw_write_refines, Hp. reflexivity.
    + right. rewrite bw_write_multipass_refines, Hp. reflexivity.
  - exact Ho.
  - exact Hi.
  - exact Hs.
  - apply (complete_agrees p _ K). rewrite ET. exact (crash_after_complete ck kind p Hck K n c Hn).
Qed.

(* per-base values (BigWigRead::values) are a function of the interval answer *)
Lemma serves_values sizes inp F X : serves sizes inp F X ->
  exists i, read_info F = Ok i /\ read_info X = Ok i
    /\ forall infl c vs s e, In (c, vs) (runs inp) -> bw_values infl X i c s e = bw_values infl F i c s e.
Proof.
  intros [i [RF [RX Q]]]. exists i. split; [exact RF|]. split; [exact RX|].
  intros infl c vs s e Hin. destruct (Q infl c vs s e Hin) as [QX QF]. unfold bw_values. now rewrite QX, QF.
Qed.
