(* C06, last link, part 3: get_summary / item_count on the BYTES of a written bigBed.
   For the bytes returned by bb_write / bb_write_multipass (Model/BigBedWrite.v; read_info by C02's
   whole-file theorem) the reader finds the summary block at the header's summary offset and the item
   count at the data offset: read_summary returns [stored (number of input entries) (bb_sweep fp outs)].
   The sweep summary is BedSweep.bb_total_summary over the chromosome runs, so with C06's sweep
   theorems the reader's answer is the per-base statistics of the coverage depth ([sform_num]): each
   covered base once, whenever the sum of squared depths is below 2^53 (every field then is a binary64
   number; the same bound under which the IEEE instance equals the exact one). *)
From Coq Require Import Sorting.Sorted.
From BT Require Import Base.Util Base.LE Base.Float Generated.Consts Model.RTree Model.BBIFile Model.BigWigWrite Model.BBIRead
  Model.BigBedWrite Model.BBIReadBed Proofs.RTreeCodec Proofs.FileRegions Proofs.BedQuery Proofs.BedCodec Proofs.BedAssemble
  Proofs.BedReadInfo Proofs.BedImage Proofs.Chunks Proofs.BedEndToEnd Proofs.BedZoomFit Proofs.C06FileFloat Proofs.C06FileRead.
From BT Require Model.AutoSql Model.BedSweep Spec.Depth Proofs.DepthStats Proofs.SweepRLE Proofs.BedSummary Proofs.BedIeee.
Local Open Scope N_scope.

(* ---------- read_info keeps the header it read ---------- *)
Lemma read_info_hdr bs i h : read_info bs = Ok i -> read_header bs = Ok h -> i_hdr i = h.
Proof.
  unfold read_info. intros H Hh. rewrite Hh in H. cbn [rbind] in H.
  destruct (read_zoom_headers _ _ _ _); cbn [rbind] in H; try discriminate.
  destruct (rdo _); cbn [rbind] in H; try discriminate.
  destruct (negb _); [discriminate|]. destruct (negb _); [discriminate|].
  destruct (read_chrom_block _ _ _ _ _); try discriminate.
  apply Ok_inj in H. subst i. reflexivity.
Qed.

(* ---------- every entry takes at least one byte of the data region: the item count fits its u64 slot ---------- *)
Lemma entries_bytes_len chrom : forall es : list entry, (length es <= length (flat_map (entry_bytes chrom) es))%nat.
Proof.
  induction es as [|x r IH]; [cbn; lia|]. cbn [flat_map]. rewrite app_length. cbn [length].
  assert (1 <= length (entry_bytes chrom x))%nat by (unfold entry_bytes, u32; rewrite !app_length, !enc_len; lia). lia.
Qed.
Lemma sections_bytes_len chrom : forall cs : list (list entry),
  (length (concat cs) <= length (data_bytes (map sd_of (map (fun c => (chrom, c)) cs))))%nat.
Proof.
  induction cs as [|c cs IH]; [cbn; lia|]. cbn [map concat]. unfold data_bytes in *. cbn [flat_map]. rewrite !app_length.
  assert (length c <= length (sd_bytes (sd_of (chrom, c))))%nat.
  { unfold sd_of. cbn [fst snd]. destruct c as [|x r]; [cbn; lia|]. cbn [sd_bytes]. apply entries_bytes_len. }
  lia.
Qed.
Lemma data_len_ge o outs data : bb_data o outs = Ok data -> bb_total_items outs <= Nlen (data_bytes data).
Proof.
  rewrite bb_data_sections. intros H. apply Ok_inj in H. subst data. unfold bb_total_items, Nlen.
  induction outs as [|c outs IH]; [cbn; lia|].
  unfold groups_of, gsecs in *. cbn [map flat_map sumN fst snd]. rewrite map_app. unfold data_bytes in *. rewrite flat_map_app, app_length.
  pose proof (sections_bytes_len (bc_id c) (sections_loop (o_ips o) [] (bc_entries c))) as H.
  rewrite sections_are_chunks, chunks_concat in H by (unfold slot; lia). unfold data_bytes in H.
  rewrite (sections_are_chunks (o_ips o) (bc_entries c)). unfold Nlen. lia.
Qed.

(* ---------- any summary sweep, any zoom part of at most 10 levels ---------- *)
Section BbGen.
Variable sweep : list bchrom -> summary.
Variable zoom_part : list bchrom -> summary -> N -> N -> res (list N * list zoom_header).
Hypothesis zoom_levels_fit : forall outs sum a b zb zh, zoom_part outs sum a b = Ok (zb, zh) -> (length zh <= 10)%nat.

(* the file holds every entry, so a file below 2^64 bytes has fewer than 2^64 entries *)
Lemma bb_gen_input_bound o sizes autosql input f :
  bb_write_gen sweep zoom_part o sizes autosql input = Ok f -> Nlen f <= U64 -> Nlen input < U64.
Proof.
  intros Hw H6. unfold bb_write_gen in Hw.
  destruct ((o_bs o <? 2) || (o_ips o <? 1)); [discriminate|].
  destruct (bb_schema autosql) as [[sql fc]| | |] eqn:Esch; cbn [rbind] in Hw; try discriminate.
  destruct (bb_collect o sizes input) as [[ids outs]| | |] eqn:Hcol; cbn [rbind] in Hw; try discriminate.
  destruct (bb_data o outs) as [data| | |] eqn:Edata; cbn [rbind] in Hw; try discriminate.
  set (pre := bb_pre sql) in *.
  destruct (assemble_layout _ _ _ _ _ _ _ _ _ _ _ _ _ Hw) as [ct [ix [lv [zbytes [zhdrs [Hct [Hix [Hz Hlay]]]]]]]].
  assert (Lpre : length pre = (304 + length sql + 1 + 40 + 8)%nat).
  { unfold pre, bb_pre, u64. rewrite !app_length, blank_headers_length, repeatN_length, enc_len. cbn [length]. lia. }
  pose proof (zoom_levels_fit _ _ _ _ _ _ Hz) as Hzl.
  destruct (Hlay ltac:(lia) ltac:(lia)) as [pre' [Lpre' [Hf _]]].
  destruct (collect_partition _ _ _ _ _ Hcol) as (_ & _ & Hcount).
  pose proof (data_len_ge o outs data Edata) as Hd. rewrite Hcount in Hd.
  assert (Hfl : Nlen f = Nlen pre' + Nlen (data_bytes data) + Nlen ct + Nlen ix + Nlen zbytes + 4).
  { rewrite Hf. rewrite !Nlen_app. unfold Nlen at 6. unfold u32. rewrite enc_len. lia. }
  assert (Nlen pre' = Nlen pre) by (unfold Nlen; now rewrite Lpre').
  assert (353 <= Nlen pre) by (unfold Nlen; rewrite Lpre; lia).
  unfold U64 in *. lia.
Qed.

Theorem bb_gen_stored o sizes autosql input f ids outs :
  bb_write_gen sweep zoom_part o sizes autosql input = Ok f -> file_hyps o sizes input f ->
  bb_collect o sizes input = Ok (ids, outs) -> su_bases (sweep outs) < U64 ->
  exists i, read_info f = Ok i /\ read_summary f i = Ok (stored (Nlen input) (sweep outs))
            /\ bb_item_count f i = Ok (Nlen input).
Proof.
  intros Hw Hhyp Hcol Hb.
  destruct (file_roundtrip sweep zoom_part zoom_levels_fit o sizes autosql input f Hw Hhyp) as (i & Hri & _ & Hic & _).
  destruct Hhyp as (H1 & H3 & H4 & H5 & H6).
  pose proof (bb_gen_input_bound o sizes autosql input f Hw H6) as Hn.
  exists i. split; [exact Hri|]. split; [|exact (Hic Hn)].
  unfold bb_write_gen in Hw.
  destruct ((o_bs o <? 2) || (o_ips o <? 1)); [discriminate|].
  destruct (bb_schema autosql) as [[sql fc]| | |] eqn:Esch; cbn [rbind] in Hw; try discriminate.
  rewrite Hcol in Hw. cbn [rbind] in Hw.
  destruct (bb_data o outs) as [data| | |] eqn:Edata; cbn [rbind] in Hw; try discriminate.
  set (pre := bb_pre sql) in *.
  destruct (assemble_layout _ _ _ _ _ _ _ _ _ _ _ _ _ Hw) as [ct [ix [lv [zbytes [zhdrs [Hct [Hix [Hz Hlay]]]]]]]].
  assert (Lpre : length pre = (304 + length sql + 1 + 40 + 8)%nat).
  { unfold pre, bb_pre, u64. rewrite !app_length, blank_headers_length, repeatN_length, enc_len. cbn [length]. lia. }
  pose proof (zoom_levels_fit _ _ _ _ _ _ Hz) as Hzl.
  destruct (Hlay ltac:(lia) ltac:(lia)) as [pre' [Lpre' [Hf [Hhdr [Hsum [Hcnt _]]]]]]. clear Hlay.
  set (dbytes := data_bytes data) in *.
  assert (HNpre' : Nlen pre' = Nlen pre) by (unfold Nlen; now rewrite Lpre').
  assert (HNprelen : Nlen pre = 304 + Nlen sql + 1 + 40 + 8) by (unfold Nlen; rewrite Lpre; lia).
  assert (Hfl : Nlen f = Nlen pre + Nlen dbytes + Nlen ct + Nlen ix + Nlen zbytes + 4).
  { rewrite Hf. rewrite !Nlen_app. rewrite HNpre'. unfold Nlen at 6. unfold u32. rewrite enc_len. lia. }
  (* the header as read_header sees it *)
  assert (Hhdr_f : has_at f 0 (hdr_of BIGBED_MAGIC pre dbytes ct fc fc ASQL_OFFSET zhdrs)).
  { rewrite Hf. apply has_at_app_r. exact Hhdr. }
  unfold hdr_of in Hhdr_f. apply has_at_app in Hhdr_f as [Hh64 _].
  assert (Hfc16 : fc < U16).
  { unfold bb_schema, AutoSql.write_pre_schema in Esch.
    destruct (match AutoSql.parse _ with Ok _ => _ | Err _ => _ | Panic => _ | Fuel => _ end) as [x| | |]; cbn [rbind] in Esch; try discriminate.
    destruct (existsb _ _); [discriminate|]. apply Ok_inj in Esch. inversion Esch. apply N.mod_lt. discriminate. }
  assert (Hasql : ASQL_OFFSET = 304) by (unfold ASQL_OFFSET, Nlen; now rewrite blank_headers_length).
  pose proof (read_header_written f (Nlen zhdrs) (Nlen pre + Nlen dbytes) (Nlen pre - 8) (Nlen pre + Nlen dbytes + Nlen ct)
                fc fc ASQL_OFFSET (Nlen pre - 48) 0 Hh64) as Hrh.
  specialize (Hrh ltac:(unfold hdr_ok, U16, U32, U64 in *; rewrite Hasql; unfold Nlen at 1; repeat split; lia)).
  pose proof (read_info_hdr f i _ Hri Hrh) as Hh.
  (* the two slots *)
  assert (Hsum_f : has_at f (Nlen pre - 48) (summary_bytes (sweep outs))) by (rewrite Hf; apply has_at_app_r; exact Hsum).
  assert (Hcnt_f : has_at f (Nlen pre - 8) (u64 (bb_total_items outs))) by (rewrite Hf; apply has_at_app_r; exact Hcnt).
  destruct (collect_partition _ _ _ _ _ Hcol) as (_ & _ & Hcount). rewrite Hcount in Hcnt_f.
  apply (read_summary_at f i (Nlen pre - 48) (sweep outs) (Nlen input)).
  - rewrite Hh. reflexivity.
  - rewrite Hh. reflexivity.
  - lia.
  - exact Hsum_f.
  - rewrite Hh. exact Hcnt_f.
  - exact Hb.
  - exact Hn.
Qed.
End BbGen.

(* ---------- the statistics side (Model/BedSweep.v types) ---------- *)
Definition chroms_of (input : list bitem) : list (list BedSweep.entry) :=
  map (fun r => map to_sw (snd r)) (bruns input).

Lemma collect_chroms o sizes input ids outs : bb_collect o sizes input = Ok (ids, outs) ->
  map sw_entries outs = chroms_of input /\ chroms_of input <> [].
Proof.
  intros H. unfold bb_collect in H. destruct input as [|i0 rest]; [discriminate|].
  destruct (process_bruns_outs _ _ _ _ _ _ _ H) as [H1 _]. unfold chroms_of. rewrite <- H1. split.
  - rewrite map_map. reflexivity.
  - rewrite H1. intro C. apply map_eq_nil in C. destruct i0 as [c v]. unfold bruns in C.
    revert C. generalize [v]. generalize c. clear. induction rest as [|[a b] l IH]; intros c acc; cbn [bruns_aux]; [discriminate|].
    destruct (name_eqb a c); [apply IH|discriminate].
Qed.

Lemma chroms_concat input : concat (chroms_of input) = map (fun it => to_sw (snd it)) input.
Proof.
  rewrite <- (bruns_untag input) at 2. unfold chroms_of, untag. induction (bruns input) as [|r rs IH]; [reflexivity|].
  cbn [map concat flat_map]. rewrite map_app, IH. f_equal. unfold tag. rewrite map_map. reflexivity.
Qed.

Lemma wf_valid U len : forall es, U <= BedSweep.U32_MAX -> wf_entries len es -> Forall (fun x => e_end x <= U) es ->
  BedSummary.valid_chrom U (map to_sw es).
Proof.
  intros es HU Hwf Hend. split; [exact HU|]. split.
  - clear HU. induction Hwf as [|x Hs Hl|x y r Hs Hl Hn Hw IH].
    + constructor.
    + inversion Hend; subst. repeat constructor; cbn; assumption.
    + inversion Hend as [|? ? Hx Hr]; subst. cbn [map]. constructor; [split; cbn; assumption|]. apply IH. exact Hr.
  - clear HU Hend. induction Hwf as [|x Hs Hl|x y r Hs Hl Hn Hw IH]; cbn [map SweepRLE.starts_sorted]; auto.
Qed.

Lemma chroms_valid U o sizes input ids outs : bb_collect o sizes input = Ok (ids, outs) ->
  U <= BedSweep.U32_MAX -> Forall (fun it : bitem => e_end (snd it) <= U) input ->
  Forall (BedSummary.valid_chrom U) (chroms_of input).
Proof.
  intros Hcol HU Hend. unfold chroms_of. apply Forall_forall. intros es Hin.
  apply in_map_iff in Hin as ([c es0] & <- & Hr). cbn [snd].
  destruct (accepted_runs_wf _ _ _ _ _ Hcol c es0 Hr) as (len & _ & Hwf).
  apply (wf_valid U len); [exact HU|exact Hwf|].
  apply Forall_forall. intros x Hx. rewrite Forall_forall in Hend.
  apply (Hend (c, x)). rewrite <- (bruns_untag input). unfold untag. apply in_flat_map. exists (c, es0).
  split; [exact Hr|]. cbn [fst snd]. unfold tag. apply in_map. exact Hx.
Qed.

(* ---------- every statistic is bounded by the sum of squared depths ---------- *)
Import Spec.Depth.
Lemma sumN_in : forall l y, In y l -> y <= sumN l.
Proof. induction l as [|x l IH]; intros y H; [destruct H|]. destruct H as [->|H]; cbn [sumN]; [lia|]. specialize (IH y H). lia. Qed.
Lemma sumN_le {X} (f g : X -> N) : forall l, (forall x, f x <= g x) -> sumN (map f l) <= sumN (map g l).
Proof. induction l as [|x l IH]; intros H; cbn [map sumN]; [lia|]. specialize (IH H). specialize (H x). lia. Qed.

Lemma st_cov_le_sumsq d xs : st_cov d xs <= st_sumsq d xs.
Proof.
  unfold st_cov, st_sumsq. induction xs as [|x r IH]; cbn [filter map sumN]; [cbn; lia|].
  destruct (N.ltb_spec 0 (d x)); unfold Nlen in *; cbn [length]; nia.
Qed.
Lemma st_ext_in (f : option N -> N -> option N) (d : N -> N) : (forall a v, f a v = Some v \/ f a v = a) ->
  forall (xs : list N) a0 m, fold_left (fun a x => if 0 <? d x then f a (d x) else a) xs a0 = Some m ->
    a0 = Some m \/ exists x, In x xs /\ m = d x.
Proof.
  intros Hf. induction xs as [|x r IH]; intros a0 m H; cbn [fold_left] in H; [left; exact H|].
  destruct (IH _ _ H) as [E|(y & Hy & Ey)]; [|right; exists y; split; [right; exact Hy|exact Ey]].
  destruct (0 <? d x); [|left; exact E].
  destruct (Hf a0 (d x)) as [E2|E2]; rewrite E2 in E; [|left; exact E].
  right. exists x. split; [left; reflexivity|]. congruence.
Qed.
Lemma st_min_le_sumsq d xs m : st_min d xs = Some m -> m <= st_sumsq d xs.
Proof.
  intros H. apply (st_ext_in opt_min d) in H.
  - destruct H as [C|(x & Hx & ->)]; [discriminate|]. unfold st_sumsq.
    pose proof (sumN_in (map (fun x => d x * d x) xs) (d x * d x) ltac:(apply in_map_iff; exists x; auto)). nia.
  - intros [a|] v; cbn [opt_min]; [|left; reflexivity]. destruct (N.min_spec a v) as [[_ ->]|[_ ->]]; auto.
Qed.
Lemma st_max_le_sumsq d xs m : st_max d xs = Some m -> m <= st_sumsq d xs.
Proof.
  intros H. apply (st_ext_in opt_max d) in H.
  - destruct H as [C|(x & Hx & ->)]; [discriminate|]. unfold st_sumsq.
    pose proof (sumN_in (map (fun x => d x * d x) xs) (d x * d x) ltac:(apply in_map_iff; exists x; auto)). nia.
  - intros [a|] v; cbn [opt_max]; [|left; reflexivity]. destruct (N.max_spec a v) as [[_ ->]|[_ ->]]; auto.
Qed.
Lemma meet_in {X} (f : N -> N -> N) (g : X -> option N) : (forall x y, f x y = x \/ f x y = y) ->
  forall l a0 m, fold_left (fun a es => opt_meet f a (g es)) l a0 = Some m -> a0 = Some m \/ exists es, In es l /\ g es = Some m.
Proof.
  intros Hf. induction l as [|c l IH]; intros a0 m H; cbn [fold_left] in H; [left; exact H|].
  destruct (IH _ _ H) as [E|(es & He & Ee)]; [|right; exists es; split; [right; exact He|exact Ee]].
  destruct a0 as [a|], (g c) as [v|] eqn:Eg; cbn [opt_meet] in E.
  - destruct (Hf a v) as [E2|E2]; rewrite E2 in E; [left; exact E|right; exists c; split; [left; reflexivity|congruence]].
  - left. exact E.
  - right. exists c. split; [left; reflexivity|congruence].
  - left. exact E.
Qed.

Section Bounds.
Variable U : N.
Variable chroms : list (list BedSweep.entry).
Let Q := sumN (map (BedSummary.c_sumsq U) chroms).
Lemma cov_le_Q : sumN (map (BedSummary.c_cov U) chroms) <= Q.
Proof. apply sumN_le. intros es. apply st_cov_le_sumsq. Qed.
Lemma sum_le_Q : sumN (map (BedSummary.c_sum U) chroms) <= Q.
Proof. apply sumN_le. intros es. apply BedIeee.st_sum_le_sumsq. Qed.
Lemma min_le_Q m : fold_left (fun a es => opt_meet N.min a (BedSummary.c_min U es)) chroms None = Some m -> m <= Q.
Proof.
  intros H. apply meet_in in H; [|intros x y; destruct (N.min_spec x y) as [[_ ->]|[_ ->]]; auto].
  destruct H as [C|(es & He & Hm)]; [discriminate|]. apply st_min_le_sumsq in Hm.
  pose proof (sumN_in (map (BedSummary.c_sumsq U) chroms) (BedSummary.c_sumsq U es) ltac:(apply in_map; exact He)).
  unfold Q, BedSummary.c_sumsq in *. lia.
Qed.
Lemma max_le_Q m : fold_left (fun a es => opt_meet N.max a (BedSummary.c_max U es)) chroms None = Some m -> m <= Q.
Proof.
  intros H. apply meet_in in H; [|intros x y; destruct (N.max_spec x y) as [[_ ->]|[_ ->]]; auto].
  destruct H as [C|(es & He & Hm)]; [discriminate|]. apply st_max_le_sumsq in Hm.
  pose proof (sumN_in (map (BedSummary.c_sumsq U) chroms) (BedSummary.c_sumsq U es) ltac:(apply in_map; exact He)).
  unfold Q, BedSummary.c_sumsq in *. lia.
Qed.
End Bounds.

(* ---------- the reader's summary as numbers ---------- *)
(* like BedSummary.sform, with the four statistics compared as numbers (the reader returns the
   normalised binary64 mantissa/exponent pair, not the pair the writer computed with) *)
Definition sform_num (s : summary) (items b su q : N) (mn mx : option N) : Prop :=
  su_items s = items /\ su_bases s = b /\ same_num (su_sum s) (f_of_N su) /\ same_num (su_sumsq s) (f_of_N q) /\
  same_num (su_min s) (BedSummary.optf mn) /\ same_num (su_max s) (BedSummary.optf mx).

Lemma rt_N n : n < BedIeee.P53 -> same_num (f64_rt (f_of_N n)) (f_of_N n).
Proof. intros H. exact (proj1 (f64_roundtrip _ (rep64_N n H))). Qed.
Lemma rt_optf o : (forall m, o = Some m -> m < BedIeee.P53) -> same_num (f64_rt (BedSummary.optf o)) (BedSummary.optf o).
Proof.
  intros H. destruct o as [m|]; cbn [BedSummary.optf]; [apply rt_N, H; reflexivity|].
  exact (proj1 (f64_roundtrip FNaN I)).
Qed.

Lemma stored_sform s cnt items b su q mn mx :
  BedSummary.sform s items b su q mn mx -> su < BedIeee.P53 -> q < BedIeee.P53 ->
  (forall m, mn = Some m -> m < BedIeee.P53) -> (forall m, mx = Some m -> m < BedIeee.P53) ->
  sform_num (stored cnt s) cnt b su q mn mx.
Proof.
  intros (A & B & C & D & M & X) Hsu Hq Hmn Hmx. unfold sform_num, stored.
  cbn [su_items su_bases su_sum su_sumsq su_min su_max]. rewrite C, D, M, X.
  split; [reflexivity|]. split; [exact B|]. split; [apply rt_N; exact Hsu|]. split; [apply rt_N; exact Hq|].
  split; [apply rt_optf; exact Hmn|apply rt_optf; exact Hmx].
Qed.

(* ---------- the two write paths ---------- *)
Theorem bb_file_summary_read U two_pass fp o sizes autosql input f :
  fp = exact \/ fp = ieee ->
  U <= BedSweep.U32_MAX -> Forall (fun it : bitem => e_end (snd it) <= U) input ->
  bb_write_either two_pass fp o sizes autosql input = Ok f -> file_hyps o sizes input f ->
  let chroms := chroms_of input in
  sumN (map (BedSummary.c_sumsq U) chroms) < BedIeee.P53 ->
  exists i s, read_info f = Ok i /\ read_summary f i = Ok s /\ bb_item_count f i = Ok (Nlen input)
    /\ concat chroms = map (fun it => to_sw (snd it)) input /\ Forall (BedSummary.valid_chrom U) chroms
    /\ sform_num s (Nlen input) (sumN (map (BedSummary.c_cov U) chroms)) (sumN (map (BedSummary.c_sum U) chroms))
                 (sumN (map (BedSummary.c_sumsq U) chroms))
                 (fold_left (fun a es => opt_meet N.min a (BedSummary.c_min U es)) chroms None)
                 (fold_left (fun a es => opt_meet N.max a (BedSummary.c_max U es)) chroms None).
Proof.
  intros Hfp HU Hend Hw Hhyp chroms HQ.
  assert (Hgen : exists zoom_part, bb_write_gen (bb_sweep fp) zoom_part o sizes autosql input = Ok f
                   /\ forall outs sum a b zb zh, zoom_part outs sum a b = Ok (zb, zh) -> (length zh <= 10)%nat).
  { destruct two_pass; unfold bb_write_either, bb_write, bb_write_multipass in Hw.
    - exists (bb_zoom_two_pass fp o). split; [exact Hw|]. intros outs sum a b zb zh. apply two_pass_fits.
    - exists (bb_zoom_single fp o). split; [exact Hw|]. intros outs sum a b zb zh. apply single_fits. }
  destruct Hgen as (zoom_part & Hgen & Hfit).
  assert (Hcol : exists ids outs, bb_collect o sizes input = Ok (ids, outs)).
  { unfold bb_write_gen in Hgen. destruct ((o_bs o <? 2) || (o_ips o <? 1)); [discriminate|].
    destruct (bb_schema autosql) as [[sql fc]| | |]; cbn [rbind] in Hgen; try discriminate.
    destruct (bb_collect o sizes input) as [[ids outs]| | |]; try discriminate. eauto. }
  destruct Hcol as (ids & outs & Hcol).
  destruct (collect_chroms _ _ _ _ _ Hcol) as (Hch & Hne). fold chroms in Hch, Hne.
  pose proof (chroms_valid U _ _ _ _ _ Hcol HU Hend) as Hval. fold chroms in Hval.
  (* the sweep summary: exact, or ieee = exact below 2^53 *)
  destruct chroms as [|c0 cr] eqn:Ech; [congruence|].
  assert (Hsw : bb_sweep fp outs = BedSweep.bb_total_summary exact (c0 :: cr)).
  { unfold bb_sweep. rewrite Hch. destruct Hfp as [->| ->]; [reflexivity|]. exact (BedIeee.bb_total_summary_ieee U c0 cr Hval HQ). }
  pose proof (BedSummary.bb_total_summary_spec U c0 cr Hval) as Hform. rewrite <- Hsw in Hform.
  pose proof (cov_le_Q U (c0 :: cr)) as B1. pose proof (sum_le_Q U (c0 :: cr)) as B2.
  destruct (bb_gen_stored (bb_sweep fp) zoom_part Hfit o sizes autosql input f ids outs Hgen Hhyp Hcol) as (i & Hri & Hrs & Hic).
  { destruct Hform as (_ & -> & _). unfold BedIeee.P53, U64 in *. cbv zeta in B1. lia. }
  exists i, (stored (Nlen input) (bb_sweep fp outs)). split; [exact Hri|]. split; [exact Hrs|]. split; [exact Hic|].
  split; [rewrite <- Ech; apply chroms_concat|]. split; [exact Hval|].
  apply (stored_sform _ _ _ _ _ _ _ _ Hform).
  - cbv zeta in B2. lia.
  - exact HQ.
  - intros m Hm. pose proof (min_le_Q U (c0 :: cr) m Hm). cbv zeta in H. lia.
  - intros m Hm. pose proof (max_le_Q U (c0 :: cr) m Hm). cbv zeta in H. lia.
Qed.

(* the item count alone: no condition on the depths, every rounding mode *)
Theorem bb_file_item_count two_pass fp o sizes autosql input f :
  bb_write_either two_pass fp o sizes autosql input = Ok f -> file_hyps o sizes input f ->
  exists i, read_info f = Ok i /\ bb_item_count f i = Ok (Nlen input).
Proof.
  intros Hw Hhyp. destruct (written_file_roundtrip two_pass fp o sizes autosql input f Hw Hhyp) as (i & Hri & _ & Hic & _).
  exists i. split; [exact Hri|]. apply Hic. destruct Hhyp as (_ & _ & _ & _ & H6).
  destruct two_pass; unfold bb_write_either, bb_write, bb_write_multipass in Hw.
  - refine (bb_gen_input_bound (bb_sweep fp) (bb_zoom_two_pass fp o) _ o sizes autosql input f Hw H6).
    intros outs sum a b zb zh. apply two_pass_fits.
  - refine (bb_gen_input_bound (bb_sweep fp) (bb_zoom_single fp o) _ o sizes autosql input f Hw H6).
    intros outs sum a b zb zh. apply single_fits.
Qed.
