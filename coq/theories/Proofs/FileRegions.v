(* Reusable region lemmas for whole-file proofs (C01, C09, ...): where things are in a byte image.
   Offsets are N (file positions), lengths of regions are [Nlen].  Builds on [has_at] of
   Proofs/RTreeCodec.v:  has_at img off x  :=  img = A ++ x ++ B with length A = off.

   Contents
   - Nlen/nat conversions;
   - has_at: introduction, transport under app on either side, nesting (a region inside a region),
     bounds, slice/rd on a region (fixed-width little-endian fields);
   - patch_at (the writer's seek-back-and-overwrite): length preserved, distributes over a suffix
     that lies after the patch, the patch is there afterwards, regions disjoint from the patch are
     untouched;
   - place / data_bytes (write_data / write_mid: sections laid out contiguously): every placed
     section's (offset, size) points at exactly its bytes, offsets are inside the data region,
     spans/ids are copied.
   No model-specific facts here (no header layout): only list/offset algebra. *)
From BT Require Import Base.Util Base.LE Model.RTree Model.BBIFile Proofs.RTreeCodec.
Local Open Scope N_scope.

(* ---------- Nlen / nat ---------- *)
Lemma Nlen_to_nat {X} (l : list X) : N.to_nat (Nlen l) = length l.
Proof. unfold Nlen. apply Nat2N.id. Qed.
Lemma Nlen_eq_length {X Y} (a : list X) (b : list Y) : Nlen a = Nlen b <-> length a = length b.
Proof. unfold Nlen. lia. Qed.
Lemma Nlen_le_length {X Y} (a : list X) (b : list Y) : Nlen a <= Nlen b <-> (length a <= length b)%nat.
Proof. unfold Nlen. lia. Qed.
Lemma repeatN_length {X} (x : X) n : length (repeatN x n) = n.
Proof. induction n as [|n IH]; cbn [repeatN length]; [reflexivity|]. now rewrite IH. Qed.
Lemma Nlen_repeatN {X} (x : X) n : Nlen (repeatN x n) = N.of_nat n.
Proof. unfold Nlen. now rewrite repeatN_length. Qed.
Lemma Nlen_enc_le w x : Nlen (enc_le w x) = N.of_nat w.
Proof. unfold Nlen. now rewrite enc_le_length. Qed.
Lemma Nlen_firstn_le {X} n (l : list X) : (n <= length l)%nat -> Nlen (firstn n l) = N.of_nat n.
Proof. intros H. unfold Nlen. rewrite firstn_length. lia. Qed.

(* ---------- has_at ---------- *)
Lemma has_at_intro (A x B : list N) off : Nlen A = off -> has_at (A ++ x ++ B) off x.
Proof. intros <-. apply has_at_mid. Qed.
Lemma has_at_whole x : has_at x 0 x.
Proof. exists [], []. split; [now rewrite app_nil_r|reflexivity]. Qed.
Lemma has_at_head x B : has_at (x ++ B) 0 x.
Proof. exists [], B. split; reflexivity. Qed.
Lemma has_at_nil img off : off <= Nlen img -> has_at img off [].
Proof.
  intros H. exists (firstn (N.to_nat off) img), (skipn (N.to_nat off) img). split.
  - cbn [app]. now rewrite firstn_skipn.
  - rewrite firstn_length. unfold Nlen in H. lia.
Qed.

Lemma has_at_bound img off x : has_at img off x -> off + Nlen x <= Nlen img.
Proof. intros [A [B [-> L]]]. unfold Nlen. rewrite !app_length. lia. Qed.

(* transport: bytes appended after / prepended before the image *)
Lemma has_at_app_r img t off x : has_at img off x -> has_at (img ++ t) off x.
Proof. intros [A [B [-> L]]]. exists A, (B ++ t). split; [now rewrite <- !app_assoc|exact L]. Qed.
Lemma has_at_app_l pre img off x : has_at img off x -> has_at (pre ++ img) (Nlen pre + off) x.
Proof.
  intros [A [B [-> L]]]. exists (pre ++ A), B. split; [now rewrite <- app_assoc|].
  rewrite app_length, L. unfold Nlen. lia.
Qed.
Lemma has_at_app_l' pre img off off' x : has_at img off x -> off' = Nlen pre + off -> has_at (pre ++ img) off' x.
Proof. intros H ->. now apply has_at_app_l. Qed.

(* nesting: y sits at o inside x, x sits at off inside img *)
Lemma has_at_inside img off x o y : has_at img off x -> has_at x o y -> has_at img (off + o) y.
Proof.
  intros [A [B [-> L]]] [A' [B' [-> L']]]. exists (A ++ A'), (B' ++ B). split.
  - now rewrite <- !app_assoc.
  - rewrite app_length, L, L'. lia.
Qed.
Lemma has_at_inside' img off x o y off' : has_at img off x -> has_at x o y -> off' = off + o -> has_at img off' y.
Proof. intros H1 H2 ->. eapply has_at_inside; eauto. Qed.

(* the three parts of a region a ++ y ++ b *)
Lemma has_at_mid_part img off a y b : has_at img off (a ++ y ++ b) -> has_at img (off + Nlen a) y.
Proof. intros H. apply has_at_app in H as [_ H]. now apply has_at_prefix in H. Qed.
Lemma has_at_suffix img off a y : has_at img off (a ++ y) -> has_at img (off + Nlen a) y.
Proof. intros H. now apply has_at_app in H as [_ H]. Qed.

(* a sub-range of a region, by firstn/skipn *)
Lemma has_at_sub img off x (o w : nat) : has_at img off x -> (o + w <= length x)%nat ->
  has_at img (off + N.of_nat o) (firstn w (skipn o x)).
Proof.
  intros H Hb. eapply has_at_inside; [exact H|].
  exists (firstn o x), (skipn w (skipn o x)). split.
  - now rewrite firstn_skipn, firstn_skipn.
  - rewrite firstn_length, Nat2N.id. lia.
Qed.

(* reading a region *)
Lemma slice_has_at img off w x : (0 < w)%nat -> slice img off w = Some x -> has_at img off x /\ length x = w.
Proof.
  intros Hw. unfold slice. destruct (Nat.eqb _ w) eqn:E; [|discriminate]. intros H. inversion H; subst x; clear H.
  apply Nat.eqb_eq in E. split; [|exact E].
  exists (firstn (N.to_nat off) img), (skipn w (skipn (N.to_nat off) img)). split.
  - now rewrite firstn_skipn, firstn_skipn.
  - rewrite firstn_length. rewrite firstn_length, skipn_length in E. lia.
Qed.
Lemma has_at_slice_N img off x n : has_at img off x -> n = Nlen x -> slice img off (N.to_nat n) = Some x.
Proof. intros H ->. rewrite Nlen_to_nat. now apply has_at_slice. Qed.
Lemma has_at_slice_sub img off x (o w : nat) : has_at img off x -> (o + w <= length x)%nat ->
  slice img (off + N.of_nat o) w = Some (firstn w (skipn o x)).
Proof.
  intros H Hb. eapply has_at_slice_w; [apply has_at_sub; eassumption|].
  rewrite firstn_length, skipn_length. lia.
Qed.
(* slicing a prefix of a region *)
Lemma has_at_slice_prefix img off x w : has_at img off x -> (w <= length x)%nat ->
  slice img off w = Some (firstn w x).
Proof.
  intros H Hb. pose proof (has_at_slice_sub img off x 0 w H ltac:(lia)) as E.
  rewrite N.add_0_r in E. exact E.
Qed.

(* fixed-width little-endian fields *)
Lemma has_at_rd img off w x : has_at img off (enc_le w x) -> x < 256 ^ N.of_nat w ->
  rd false img off w = Some x.
Proof.
  intros H Hx. unfold rd. rewrite (has_at_slice_w img off (enc_le w x) w H) by now rewrite enc_le_length.
  cbn [dec]. now rewrite dec_enc_le.
Qed.
Lemma dec_enc_app w x rest : x < 256 ^ N.of_nat w -> dec false (firstn w (enc_le w x ++ rest)) = x.
Proof.
  intros Hx. rewrite <- (enc_le_length w x) at 1. rewrite firstn_exact. cbn [dec]. now apply dec_enc_le.
Qed.
Lemma skipn_enc_app w x rest : skipn w (enc_le w x ++ rest) = rest.
Proof. rewrite <- (enc_le_length w x) at 1. apply skipn_exact. Qed.

(* ---------- patch_at ---------- *)
Lemma patch_at_length bs off p : off + Nlen p <= Nlen bs -> length (patch_at bs off p) = length bs.
Proof.
  intros H. unfold patch_at. rewrite !app_length, firstn_length, skipn_length. unfold Nlen in H. lia.
Qed.
Lemma patch_at_Nlen bs off p : off + Nlen p <= Nlen bs -> Nlen (patch_at bs off p) = Nlen bs.
Proof. intros H. unfold Nlen. now rewrite patch_at_length. Qed.

(* a patch that ends inside A does not see what follows A *)
Lemma patch_at_app A R off p : off + Nlen p <= Nlen A -> patch_at (A ++ R) off p = patch_at A off p ++ R.
Proof.
  intros H. unfold patch_at. unfold Nlen in H.
  rewrite firstn_app, skipn_app.
  replace (N.to_nat off - length A)%nat with 0%nat by lia.
  replace (N.to_nat off + length p - length A)%nat with 0%nat by lia.
  cbn [firstn skipn]. now rewrite app_nil_r, <- !app_assoc.
Qed.

(* after the patch, the patch is there *)
Lemma patch_at_has bs off p : off + Nlen p <= Nlen bs -> has_at (patch_at bs off p) off p.
Proof.
  intros H. unfold patch_at. eexists _, _. split; [reflexivity|].
  rewrite firstn_length. unfold Nlen in H. lia.
Qed.

(* regions before / after the patch are untouched *)
Lemma patch_at_keeps_before bs off p o x : has_at bs o x -> o + Nlen x <= off ->
  has_at (patch_at bs off p) o x.
Proof.
  intros [A [B [-> L]]] H. unfold patch_at. unfold Nlen in H.
  exists A, (firstn (N.to_nat off - length A - length x) B ++ p ++ skipn (N.to_nat off + length p) (A ++ x ++ B)).
  split; [|exact L].
  rewrite firstn_app. rewrite (firstn_all2 A) by lia. rewrite firstn_app. rewrite (firstn_all2 x) by lia.
  now rewrite <- !app_assoc.
Qed.
Lemma patch_at_keeps_after bs off p o x : has_at bs o x -> off + Nlen p <= o ->
  has_at (patch_at bs off p) o x.
Proof.
  intros [A [B [-> L]]] H. unfold patch_at. unfold Nlen in H.
  exists (firstn (N.to_nat off) A ++ p ++ skipn (N.to_nat off + length p) A), B. split.
  - rewrite firstn_app, skipn_app.
    replace (N.to_nat off - length A)%nat with 0%nat by lia.
    replace (N.to_nat off + length p - length A)%nat with 0%nat by lia.
    cbn [firstn skipn]. now rewrite app_nil_r, <- !app_assoc.
  - rewrite !app_length, firstn_length, skipn_length. lia.
Qed.
Lemma patch_at_keeps bs off p o x : has_at bs o x -> (o + Nlen x <= off \/ off + Nlen p <= o) ->
  has_at (patch_at bs off p) o x.
Proof. intros H [Hb|Ha]; [now apply patch_at_keeps_before|now apply patch_at_keeps_after]. Qed.

(* ---------- data_bytes / place ---------- *)
Lemma data_bytes_nil : data_bytes [] = [].
Proof. reflexivity. Qed.
Lemma data_bytes_cons d l : data_bytes (d :: l) = sd_bytes d ++ data_bytes l.
Proof. reflexivity. Qed.
Lemma data_bytes_app a b : data_bytes (a ++ b) = data_bytes a ++ data_bytes b.
Proof. unfold data_bytes. apply flat_map_app. Qed.

Lemma place_length off l : length (place off l) = length l.
Proof. revert off. induction l as [|d l IH]; intros off; cbn [place length]; [reflexivity|]. now rewrite IH. Qed.
Lemma place_Nlen off l : Nlen (place off l) = Nlen l.
Proof. unfold Nlen. now rewrite place_length. Qed.
Lemma place_app off a b : place off (a ++ b) = place off a ++ place (off + Nlen (data_bytes a)) b.
Proof.
  revert off. induction a as [|d a IH]; intros off.
  - cbn [app place data_bytes flat_map]. now rewrite Nlen_nil, N.add_0_r.
  - cbn [app place]. rewrite IH, data_bytes_cons, Nlen_app, N.add_assoc. reflexivity.
Qed.
Lemma place_nil_iff off l : place off l = [] <-> l = [].
Proof. destruct l; cbn [place]; split; intros H; try reflexivity; discriminate. Qed.

(* what a placed section record says about its data section *)
Definition placed (img : list N) (s : sect) (d : sdata) : Prop :=
  has_at img (s_off s) (sd_bytes d) /\ s_size s = Nlen (sd_bytes d)
  /\ s_chrom s = sd_chrom d /\ s_start s = sd_start d /\ s_end s = sd_end d.

(* the data region sits at [off] in the image: every index record points at its section's bytes *)
Lemma place_placed img : forall l off, has_at img off (data_bytes l) -> Forall2 (placed img) (place off l) l.
Proof.
  induction l as [|d l IH]; intros off H; [constructor|].
  rewrite data_bytes_cons in H. apply has_at_app in H as [H1 H2].
  cbn [place]. constructor; [|apply IH; exact H2].
  unfold placed. cbn [s_off s_size s_chrom s_start s_end]. auto.
Qed.

Lemma place_bounds : forall l off,
  Forall (fun s => off <= s_off s /\ s_off s + s_size s <= off + Nlen (data_bytes l)) (place off l).
Proof.
  induction l as [|d l IH]; intros off; [constructor|].
  cbn [place]. rewrite data_bytes_cons, Nlen_app. constructor.
  - cbn [s_off s_size]. lia.
  - eapply Forall_impl; [|apply IH]. intros s [H1 H2]. lia.
Qed.

Lemma place_spans off l :
  map sect_span (place off l)
  = map (fun d => {| sc := sd_chrom d; sb := sd_start d; ec := sd_chrom d; eb := sd_end d |}) l.
Proof. revert off. induction l as [|d l IH]; intros off; cbn [place map]; [reflexivity|]. now rewrite IH. Qed.

(* (offset, size) of a placed record reads back exactly the section's bytes: what the reader's
   read_block_data does with an index hit *)
Lemma placed_slice img s d : placed img s d -> slice img (s_off s) (N.to_nat (s_size s)) = Some (sd_bytes d).
Proof. intros (H & E & _). eapply has_at_slice_N; eauto. Qed.

(* Forall2 utilities used with [place_placed] *)
Lemma Forall2_in_l {A B} (R : A -> B -> Prop) l1 l2 a : Forall2 R l1 l2 -> In a l1 -> exists b, In b l2 /\ R a b.
Proof.
  induction 1 as [|x y l1 l2 Hxy _ IH]; intros Hin; [destruct Hin|].
  destruct Hin as [<-|Hin]; [exists y; split; [left; reflexivity|exact Hxy]|].
  destruct (IH Hin) as [b [Hb Hr]]. exists b. split; [right; exact Hb|exact Hr].
Qed.
Lemma Forall2_impl {A B} (R S : A -> B -> Prop) l1 l2 : (forall a b, R a b -> S a b) -> Forall2 R l1 l2 -> Forall2 S l1 l2.
Proof. intros H. induction 1; constructor; auto. Qed.

(* placed is stable under everything that keeps the region *)
Lemma placed_transport img img' s d :
  (forall off x, has_at img off x -> has_at img' off x) -> placed img s d -> placed img' s d.
Proof. intros H (H1 & H2). split; [apply H; exact H1|exact H2]. Qed.
