(* C10, byte level: fixed-width codecs in EITHER byte order, records of fixed-width fields
   (Spec/FormatEmit.v enc_flds) and what the readers' field accessors
   [dec big (firstn w (skipn o d))], [nth o d 0], [rd big bs off w] return on them. *)
From BT Require Import Base.Util Base.LE Generated.Consts Model.RTree Proofs.RTreeCodec Spec.FormatEmit.
Local Open Scope N_scope.

(* ---------- both byte orders ---------- *)
Lemma enc_length big w x : length (enc big w x) = w.
Proof. unfold enc, enc_be. destruct big; [rewrite rev_length|]; apply enc_le_length. Qed.

Lemma dec_enc big w x : x < 256 ^ N.of_nat w -> dec big (enc big w x) = x.
Proof.
  intros H. unfold dec, enc, dec_be, enc_be. destruct big; [rewrite rev_involutive|]; now apply dec_enc_le.
Qed.

(* the big-endian encoding is the little-endian one reversed; decoding commutes with reversal *)
Lemma enc_flip big w x : enc big w x = rev (enc (negb big) w x).
Proof. unfold enc, enc_be. destruct big; cbn [negb]; [reflexivity|now rewrite rev_involutive]. Qed.
Lemma dec_flip big bs : dec big bs = dec (negb big) (rev bs).
Proof. unfold dec, dec_be. destruct big; cbn [negb]; [reflexivity|now rewrite rev_involutive]. Qed.

Lemma enc1 big x : x < 256 -> enc big 1 x = [x].
Proof.
  intros H. unfold enc, enc_be. cbn [enc_le rev app]. rewrite N.mod_small by exact H. now destruct big.
Qed.

(* ---------- small list facts ---------- *)
Lemma skipn_app_le {X} n (a b : list X) : (length a <= n)%nat -> skipn n (a ++ b) = skipn (n - length a) b.
Proof. intros H. rewrite skipn_app. rewrite skipn_all2 by exact H. reflexivity. Qed.
Lemma firstn_app_exact {X} n (a b : list X) : length a = n -> firstn n (a ++ b) = a.
Proof. intros <-. apply firstn_exact. Qed.
Lemma skipn_app_exact {X} n (a b : list X) : length a = n -> skipn n (a ++ b) = b.
Proof. intros <-. apply skipn_exact. Qed.
Lemma nth_of_firstn_skipn {X} (l : list X) o x d : firstn 1 (skipn o l) = [x] -> nth o l d = x.
Proof.
  revert l. induction o as [|o IH]; intros l H.
  - destruct l as [|a l]; cbn in H; [discriminate|]. now injection H as ->.
  - destruct l as [|a l]; [cbn in H; discriminate|]. cbn [skipn] in H. cbn [nth]. now apply IH.
Qed.
Lemma skipn_add {X} a b (l : list X) : skipn (a + b) l = skipn b (skipn a l).
Proof.
  revert l. induction a as [|a IH]; intros l; [reflexivity|]. destruct l as [|x l]; [now rewrite !skipn_nil|].
  cbn [Nat.add skipn]. apply IH.
Qed.
Lemma repeatN_length {X} (x : X) n : length (repeatN x n) = n.
Proof. induction n as [|n IH]; cbn [repeatN length]; [reflexivity|now rewrite IH]. Qed.

(* ---------- records ---------- *)
Definition flds_width (fs : list fld) : nat := fold_right (fun f a => (fst f + a)%nat) 0%nat fs.

Lemma enc_flds_cons big f fs : enc_flds big (f :: fs) = enc big (fst f) (snd f) ++ enc_flds big fs.
Proof. reflexivity. Qed.
Lemma enc_flds_app big a b : enc_flds big (a ++ b) = enc_flds big a ++ enc_flds big b.
Proof. unfold enc_flds. apply flat_map_app. Qed.
Lemma enc_flds_length big fs : length (enc_flds big fs) = flds_width fs.
Proof.
  induction fs as [|f fs IH]; [reflexivity|]. rewrite enc_flds_cons, app_length, enc_length, IH. reflexivity.
Qed.

(* the field that starts at byte offset o *)
Fixpoint fld_at (fs : list fld) (o : nat) : option fld :=
  match fs with
  | [] => None
  | f :: r => match o with
              | O => Some f
              | _ => if (fst f <=? o)%nat then fld_at r (o - fst f) else None
              end
  end.

Lemma bytes_of_fld big fs : forall o w x rest, fld_at fs o = Some (w, x) ->
  firstn w (skipn o (enc_flds big fs ++ rest)) = enc big w x.
Proof.
  induction fs as [|f fs IH]; intros o w x rest H; [discriminate|].
  rewrite enc_flds_cons, <- app_assoc.
  destruct o as [|o].
  - cbn [fld_at] in H. injection H as ->. cbn [skipn fst snd]. apply firstn_app_exact, enc_length.
  - cbn [fld_at] in H. destruct (fst f <=? S o)%nat eqn:E; [|discriminate].
    apply Nat.leb_le in E. rewrite skipn_app_le by (rewrite enc_length; exact E).
    rewrite enc_length. apply IH. exact H.
Qed.

Definition fits (w : nat) (x : N) : Prop := x < 256 ^ N.of_nat w.

Lemma dec_fld big fs o w x rest : fld_at fs o = Some (w, x) -> fits w x ->
  dec big (firstn w (skipn o (enc_flds big fs ++ rest))) = x.
Proof. intros H Hx. rewrite (bytes_of_fld big fs o w x rest H). apply dec_enc. exact Hx. Qed.

Lemma dec_fld0 big fs w x rest : fld_at fs 0 = Some (w, x) -> fits w x ->
  dec big (firstn w (enc_flds big fs ++ rest)) = x.
Proof. intros H Hx. apply (dec_fld big fs 0 w x rest H Hx). Qed.

Lemma nth_fld big fs o x rest : fld_at fs o = Some (1%nat, x) -> x < 256 ->
  nth o (enc_flds big fs ++ rest) 0 = x.
Proof.
  intros H Hx. apply nth_of_firstn_skipn. rewrite (bytes_of_fld big fs o 1%nat x rest H). now apply enc1.
Qed.

Lemma skipn_flds big fs rest n : n = flds_width fs -> skipn n (enc_flds big fs ++ rest) = rest.
Proof. intros ->. apply skipn_app_exact, enc_flds_length. Qed.

(* reading a field of a record that sits at [off] in an image *)
Lemma slice_fld big img off fs tail o w x : has_at img off (enc_flds big fs ++ tail) ->
  fld_at fs o = Some (w, x) -> slice img (off + N.of_nat o) w = Some (enc big w x).
Proof.
  intros [A [B [E Len]]] H. unfold slice.
  replace (N.to_nat (off + N.of_nat o)) with (length A + o)%nat by lia.
  rewrite E. rewrite skipn_add. rewrite skipn_exact.
  rewrite <- app_assoc. rewrite (bytes_of_fld big fs o w x (tail ++ B) H).
  rewrite enc_length, Nat.eqb_refl. reflexivity.
Qed.
Lemma rd_fld big img off fs tail o w x : has_at img off (enc_flds big fs ++ tail) ->
  fld_at fs o = Some (w, x) -> fits w x -> rd big img (off + N.of_nat o) w = Some x.
Proof.
  intros Hh H Hx. unfold rd. rewrite (slice_fld big img off fs tail o w x Hh H). now rewrite dec_enc.
Qed.

Lemma has_at_0 img post : has_at (img ++ post) 0 img.
Proof. exists [], post. split; reflexivity. Qed.
Lemma has_at_weaken img off x post : has_at img off x -> has_at (img ++ post) off x.
Proof. intros [A [B [E L]]]. exists A, (B ++ post). split; [|exact L]. rewrite E. now rewrite <- !app_assoc. Qed.
Lemma has_at_shift pre img off x : has_at img off x -> has_at (pre ++ img) (Nlen pre + off) x.
Proof.
  intros [A [B [E L]]]. exists (pre ++ A), B. split.
  - rewrite E. now rewrite <- app_assoc.
  - rewrite app_length, L. unfold Nlen. lia.
Qed.
Lemma has_at_slice_n img off x n : has_at img off x -> n = length x -> slice img off n = Some x.
Proof. intros H ->. now apply has_at_slice. Qed.
Lemma has_at_sub img off a x b : has_at img off (a ++ x ++ b) -> has_at img (off + Nlen a) x.
Proof.
  intros H. apply has_at_app in H as [_ H]. now apply has_at_prefix in H.
Qed.

(* fits: closed numerals *)
Lemma fits1 x : x < 256 -> fits 1 x. Proof. exact (fun H => H). Qed.
Lemma fits2 x : x < 65536 -> fits 2 x. Proof. exact (fun H => H). Qed.
Lemma fits4 x : x < 4294967296 -> fits 4 x. Proof. exact (fun H => H). Qed.
Lemma fits8 x : x < 18446744073709551616 -> fits 8 x. Proof. exact (fun H => H). Qed.
