(* C08 in IEEE arithmetic: the zoom records of a bigBed chromosome.  Depths are whole numbers, so every
   statistic is a whole number; the IEEE run of the tiling (Model/BedSweep.v bb_zoom_records) is EQUAL to the
   exact run as long as the sum of squared depths of the chromosome stays below 2^53.  Lock-step argument
   with a budget: (sum of squares in the live record) + (what the segments still to come can add) never
   exceeds the total. *)
From BT Require Import Base.Util Base.Float Model.BBIFile Model.BigWigWrite Model.BedSweep Spec.Depth
  Proofs.DepthStats Proofs.SweepRLE Proofs.BedSummary Proofs.BedIeee Proofs.BedTile.
Local Open Scope N_scope.

(* the live record holds whole-number sums; B = its sum of squares (0 when nothing is live) *)
Definition LV (st : zstate) (B : N) : Prop :=
  match zs_live st with
  | None => B = 0
  | Some z => exists A, su_sum (z_sum z) = f_of_N A /\ su_sumsq (z_sum z) = f_of_N B /\ A <= B
  end.

Lemma zrec_add_ieee_eq z a b v A B : su_sum (z_sum z) = f_of_N A -> su_sumsq (z_sum z) = f_of_N B -> A <= B ->
  B + (b - a) * v * v < P53 ->
  zrec_add ieee z a b (f_of_N v) = zrec_add exact z a b (f_of_N v) /\
  su_sum (z_sum (zrec_add exact z a b (f_of_N v))) = f_of_N (A + (b - a) * v) /\
  su_sumsq (z_sum (zrec_add exact z a b (f_of_N v))) = f_of_N (B + (b - a) * v * v) /\
  A + (b - a) * v <= B + (b - a) * v * v.
Proof.
  intros HA HB Hle Hb.
  assert (Hv0 : v <= v * v) by (destruct (N.eq_dec v 0) as [->|Hn]; [lia|nia]).
  assert (Hv : (b - a) * v <= (b - a) * v * v) by (rewrite <- N.mul_assoc; apply N.mul_le_mono_l; exact Hv0).
  unfold zrec_add. cbn [z_sum su_sum su_sumsq]. rewrite HA, HB.
  rewrite (fmul_ieee_N (b - a) v) by lia. rewrite (fmul_ieee_N ((b - a) * v) v) by lia.
  rewrite (fadd_ieee_N A) by lia. rewrite (fadd_ieee_N B) by lia.
  rewrite !fmul_exact_N, !fadd_exact_N. repeat split; lia.
Qed.

Lemma LV_sec ips st B : LV (sec ips st) B <-> LV st B.
Proof. unfold LV. rewrite live_sec'. tauto. Qed.

(* one iteration *)
Lemma tile_iter_sim ips size chrom rs re v a st B : 1 <= size -> rs <= a -> a < re ->
  (a = rs \/ zs_live st = None) -> LV st B -> B + (re - a) * v * v < P53 ->
  tile_iter ieee ips size chrom rs re v a st = tile_iter exact ips size chrom rs re v a st /\
  let r := tile_iter exact ips size chrom rs re v a st in
  a <= fst r /\ fst r <= re /\ (zs_live (snd r) = None \/ fst r = re) /\
  exists B', LV (snd r) B' /\ B' + (re - fst r) * v * v <= B + (re - a) * v * v.
Proof.
  intros Hsz Hrs Hre Hfirst HL Hb. cbv zeta.
  destruct (zs_live st) as [z|] eqn:El.
  - unfold LV in HL. rewrite El in HL. destruct HL as (A & HA & HB & Hle).
    destruct Hfirst as [->|C]; [|discriminate].
    destruct (N.le_gt_cases (z_start z + size) rs) as [Hc|Hlt].
    + (* the live record ended before the segment: closed unchanged *)
      rewrite !(tile_iter_close _ _ _ _ _ _ _ _ _ z El Hc Hre). cbn [fst snd]. split; [reflexivity|].
      rewrite live_sec'. cbn [push_live zs_live].
      split; [lia|]. split; [lia|]. split; [left; reflexivity|].
      exists 0. split; [apply LV_sec; unfold LV; cbn [push_live zs_live]; reflexivity|].
      replace (N.max (z_start z + size) rs) with rs by lia. lia.
    + (* extended by [rs, b) *)
      rewrite !(tile_iter_extend _ _ _ _ _ _ _ _ _ z El Hlt Hre). cbv zeta. cbn [fst snd].
      set (b := N.min (z_start z + size) re).
      assert (Hbb : (b - rs) * v * v + (re - b) * v * v = (re - rs) * v * v) by (unfold b; nia).
      destruct (zrec_add_ieee_eq z rs b v A B HA HB Hle ltac:(nia)) as (Eq & S1 & S2 & S3).
      rewrite Eq. split; [reflexivity|]. rewrite live_sec'.
      replace (N.max b rs) with b by (unfold b; lia).
      split; [unfold b; lia|]. split; [unfold b; lia|].
      destruct (N.eqb_spec b (z_start z + size)) as [Ec|Ec].
      * cbn [push_live zs_live]. split; [left; reflexivity|]. exists 0.
        split; [apply LV_sec; unfold LV; cbn [push_live zs_live]; reflexivity|]. nia.
      * cbn [set_live zs_live]. split; [right; unfold b in *; lia|].
        exists (B + (b - rs) * v * v). split; [|nia].
        apply LV_sec. unfold LV. cbn [set_live zs_live]. exists (A + (b - rs) * v). auto.
  - unfold LV in HL. rewrite El in HL. subst B.
    rewrite !(tile_iter_fresh _ _ _ _ _ _ _ _ _ El Hsz Hre). cbv zeta. cbn [fst snd].
    set (b := N.min (a + size) re).
    assert (Hbb : (b - a) * v * v + (re - b) * v * v = (re - a) * v * v) by (unfold b; nia).
    destruct (zrec_add_ieee_eq (zrec_new chrom a (f_of_N v)) a b v 0 0 eq_refl eq_refl (N.le_refl _) ltac:(nia)) as (Eq & S1 & S2 & S3).
    rewrite Eq. split; [reflexivity|]. rewrite live_sec'.
    replace (N.max b rs) with b by (unfold b; lia).
    split; [unfold b; lia|]. split; [unfold b; lia|].
    destruct (N.eqb_spec b (a + size)) as [Ec|Ec].
    + cbn [push_live zs_live]. split; [left; reflexivity|]. exists 0.
      split; [apply LV_sec; unfold LV; cbn [push_live zs_live]; reflexivity|]. nia.
    + cbn [set_live zs_live]. split; [right; unfold b in *; lia|].
      exists (0 + (b - a) * v * v). split; [|nia].
      apply LV_sec. unfold LV. cbn [set_live zs_live]. exists (0 + (b - a) * v). auto.
Qed.

Lemma LV_exit has_next st B : LV st B -> exists B', LV (tile_exit has_next st) B' /\ B' <= B.
Proof.
  intros H. unfold tile_exit. destruct has_next; [exists B; split; [exact H|lia]|].
  exists 0. split; [|lia].
  assert (Hn : zs_live (match zs_live st with Some z => push_live st z | None => st end) = None).
  { destruct (zs_live st) eqn:El; [reflexivity|exact El]. }
  set (st1 := match zs_live st with Some z => push_live st z | None => st end) in *.
  unfold LV. destruct (zs_records st1); [rewrite Hn; reflexivity|]. cbn [send_records zs_live]. rewrite Hn. reflexivity.
Qed.

(* the inner loop over one segment *)
Lemma tile_loop_sim ips size chrom rs re v has_next : 1 <= size -> forall fuel a st B,
  rs <= a -> a <= re -> (a = rs \/ zs_live st = None \/ a = re) -> LV st B -> B + (re - a) * v * v < P53 ->
  tile_loop fuel ieee ips size chrom rs re v has_next a st = tile_loop fuel exact ips size chrom rs re v has_next a st /\
  forall st', tile_loop fuel exact ips size chrom rs re v has_next a st = Ok st' ->
    exists B', LV st' B' /\ B' <= B + (re - a) * v * v.
Proof.
  intros Hsz. induction fuel as [|f IH]; intros a st B Ha1 Ha2 Hd HL Hb; [split; [reflexivity|discriminate]|].
  rewrite !tile_loop_S. destruct (N.leb_spec re a) as [Hdone|Hmore].
  - split; [reflexivity|]. intros st' E. inversion E; subst st'.
    destruct (LV_exit has_next st B HL) as (B' & L & Le). exists B'. split; [exact L|lia].
  - assert (Hfirst : a = rs \/ zs_live st = None) by (destruct Hd as [?|[?|?]]; [now left|now right|exfalso; lia]).
    destruct (tile_iter_sim ips size chrom rs re v a st B Hsz Ha1 Hmore Hfirst HL Hb) as (Eq & Hr). cbv zeta in Hr.
    rewrite Eq. destruct (tile_iter exact ips size chrom rs re v a st) as [a' st1]. cbn [fst snd] in Hr.
    destruct Hr as (I1 & I2 & I3 & B1 & L1 & Le1).
    destruct (IH a' st1 B1 ltac:(lia) I2 ltac:(destruct I3; [right; now left|right; now right]) L1 ltac:(lia)) as (E2 & H2).
    split; [exact E2|]. intros st' Es. destruct (H2 st' Es) as (B' & L & Le). exists B'. split; [exact L|lia].
Qed.

Definition sqw (em : list seg) : N := sumN (map (fun g => seg_len g * (g_val g * g_val g)) em).

Lemma tile_segs_sim ips size chrom has_next : 1 <= size -> forall em st B,
  Forall (fun g => g_start g <= g_end g) em -> LV st B -> B + sqw em < P53 ->
  tile_segs ieee ips size chrom has_next em st = tile_segs exact ips size chrom has_next em st /\
  forall st', tile_segs exact ips size chrom has_next em st = Ok st' -> exists B', LV st' B' /\ B' <= B + sqw em.
Proof.
  intros Hsz. induction em as [|g r IH]; intros st B Hse HL Hb.
  - split; [reflexivity|]. intros st' E. inversion E; subst. exists B. split; [exact HL|lia].
  - inversion Hse as [|? ? Hg Hr]; subst. unfold sqw in *. cbn [map sumN] in *. cbn [tile_segs].
    assert (Hl : (g_end g - g_start g) * g_val g * g_val g = seg_len g * (g_val g * g_val g)) by (unfold seg_len; lia).
    destruct (tile_loop_sim ips size chrom (g_start g) (g_end g) (g_val g) has_next Hsz (tile_fuel size g) (g_start g) st B
                (N.le_refl _) Hg (or_introl eq_refl) HL ltac:(lia)) as (E1 & H1).
    rewrite E1. destruct (tile_loop (tile_fuel size g) exact ips size chrom (g_start g) (g_end g) (g_val g) has_next (g_start g) st)
      as [st1| | |] eqn:El; cbn [rbind]; try (split; [reflexivity|discriminate]).
    destruct (H1 st1 eq_refl) as (B1 & L1 & Le1).
    destruct (IH st1 B1 Hr L1 ltac:(lia)) as (E2 & H2). split; [exact E2|].
    intros st' Es. destruct (H2 st' Es) as (B' & L & Le). exists B'. split; [exact L|lia].
Qed.

(* the segments the sweep emits are never inverted *)
Lemma flush_wf : forall l ns, Forall (fun g => g_start g <= g_end g) l ->
  Forall (fun g => g_start g <= g_end g) (fst (flush ns l)) /\ Forall (fun g => g_start g <= g_end g) (snd (flush ns l)).
Proof.
  induction l as [|o r IH]; intros ns H; cbn [flush]; [split; constructor|].
  inversion H as [|? ? Ho Hr]; subst.
  destruct (N.ltb_spec (g_start o) ns).
  - destruct (N.leb_spec (g_end o) ns).
    + specialize (IH ns Hr). destruct (flush ns r) as [em rest]. cbn [fst snd] in *. destruct IH. split; [constructor|]; assumption.
    + cbn [fst snd]. split; repeat constructor; cbn [g_start g_end]; try lia. exact Hr.
  - cbn [fst snd]. split; [constructor|exact H].
Qed.
Lemma zoom_chrom_sim ips size chrom : 1 <= size -> forall es l st B,
  Forall (Forall (fun g => g_start g <= g_end g)) (sweep_groups l es) ->
  LV st B -> B + sqw (concat (sweep_groups l es)) < P53 ->
  bb_zoom_chrom ieee ips size chrom l es st = bb_zoom_chrom exact ips size chrom l es st.
Proof.
  intros Hsz. induction es as [|e r IH]; intros l st B Hw HL Hb; [reflexivity|].
  cbn [bb_zoom_chrom]. rewrite sweep_groups_cons in Hw, Hb.
  destruct (sweep_step l e (hd_error r)) as [em l'] eqn:Es. cbn [fst snd] in *.
  inversion Hw as [|? ? Hem Hrest]; subst. cbn [concat] in Hb.
  assert (Hsq : sqw (em ++ concat (sweep_groups l' r)) = sqw em + sqw (concat (sweep_groups l' r))).
  { unfold sqw. rewrite map_app. induction (map (fun g => seg_len g * (g_val g * g_val g)) em) as [|x xs IHx]; cbn [app sumN]; lia. }
  rewrite Hsq in Hb.
  destruct (tile_segs_sim ips size chrom (match r with [] => false | _ => true end) Hsz em st B Hem HL ltac:(lia)) as (E1 & H1).
  rewrite E1. destruct (tile_segs exact ips size chrom _ em st) as [st1| | |] eqn:Et; cbn [rbind]; try reflexivity.
  destruct (H1 st1 eq_refl) as (B1 & L1 & Le1). apply (IH l' st1 B1 Hrest L1). lia.
Qed.

Lemma segs_sorted_wf : forall l lo, segs_sorted lo l -> Forall (fun g => g_start g <= g_end g) l.
Proof. induction l as [|g r IH]; intros lo H; [constructor|]. cbn [segs_sorted] in H. destruct H as (_ & H1 & H2). constructor; [exact H1|exact (IH _ H2)]. Qed.
Lemma Forall_concat_inv {X} (P : X -> Prop) : forall L, Forall P (concat L) -> Forall (Forall P) L.
Proof. induction L as [|l L IH]; intros H; [constructor|]. cbn [concat] in H. apply Forall_app in H. destruct H. constructor; auto. Qed.

(* C08 for the IEEE instance: below 2^53 the tiling computes exactly the records of the exact instance *)
Theorem bb_zoom_records_ieee U ips size chrom es : 1 <= size -> valid_chrom U es ->
  st_sumsq (depth es) (span 0 U) < P53 ->
  bb_zoom_records ieee ips size chrom es = bb_zoom_records exact ips size chrom es.
Proof.
  intros Hsz Hv Hb. destruct (stats_of_emitted U es Hv) as (_ & _ & S3 & _).
  destruct Hv as (HU & Hok & Hs). destruct (sweep_eq_rle_depth U es HU Hok Hs) as (A & _ & _).
  unfold bb_zoom_records. rewrite (zoom_chrom_sim ips size chrom Hsz es [] zstate0 0); [reflexivity| |reflexivity|].
  - apply Forall_concat_inv. exact (segs_sorted_wf _ _ A).
  - fold (sweep_emitted es). unfold sqw. rewrite S3. lia.
Qed.

Theorem zoom_records_spec_ieee U ips size chrom es secs : 1 <= size -> valid_zoom_chrom U es ->
  st_sumsq (depth es) (span 0 U) < P53 ->
  bb_zoom_records ieee ips size chrom es = Ok secs ->
  bb_zoom_records exact ips size chrom es = Ok secs /\
  let R := concat secs in
  recs_sorted 0 R /\ Forall (zshape size chrom) R /\ Forall (zstats_spec (depth es)) R /\
  (forall x, 0 < depth es x -> covered_by R x).
Proof.
  intros Hsz Hv Hb Hr. assert (Hv' : valid_chrom U es) by (destruct Hv as (A & B & C & _); repeat split; assumption).
  rewrite (bb_zoom_records_ieee U ips size chrom es Hsz Hv' Hb) in Hr. split; [exact Hr|].
  exact (zoom_records_spec U ips size chrom es secs Hsz Hv Hr).
Qed.

(* non-vacuity: overlapping, nested and identical entries (depth up to 3), resolution 4 *)
Example zoom_ieee_example :
  let es := [ {| e_start := 0; e_end := 10; e_rest := [] |}; {| e_start := 0; e_end := 10; e_rest := [] |};
              {| e_start := 5; e_end := 15; e_rest := [] |}; {| e_start := 20; e_end := 22; e_rest := [] |} ] in
  valid_zoom_chrom 30 es /\ st_sumsq (depth es) (span 0 30) = 72 /\
  exists secs, bb_zoom_records ieee 2 4 0 es = Ok secs /\
    map (fun z => (z_start z, z_end z, su_sumsq (z_sum z))) (concat secs)
    = [(0, 4, f_of_N 16); (4, 8, f_of_N 31); (8, 12, f_of_N 20); (12, 15, f_of_N 3); (20, 22, f_of_N 2)].
Proof.
  cbv zeta. split; [|split; [vm_compute; reflexivity|]].
  - unfold valid_zoom_chrom, U32_MAX, entry_ok. repeat split; repeat constructor; cbn; lia.
  - eexists. split; [vm_compute; reflexivity|]. vm_compute. reflexivity.
Qed.
