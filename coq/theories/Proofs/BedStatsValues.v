(* C17: bigwigvaluesoverbed's per-base fill.  Cell i of a region [s,e) holds the bit pattern of the stored
   value covering base s+i (the last such value in file order; for an accepted value list there is at
   most one) and 0.0 when no value covers it. *)
From BT Require Import Base.Util Base.Float Model.RTree Model.BBIFile Model.BigWigWrite Model.BBIRead
  Model.BedStats Proofs.BigWigQuery.
Local Open Scope N_scope.

Definition covers (p : N) (v : value) : bool := (v_start v <=? p) && (p <? v_end v).

Definition paint (s : N) (acc : list N) (v : value) : list N :=
  if v_start v <? v_end v then
    let a := N.to_nat (v_start v - s) in
    let b := N.to_nat (v_end v - s) in
    firstn a acc ++ repeatN (v_bits v) (b - a) ++ skipn b acc
  else acc.
Lemma vob_fill_paint s e vals : vob_fill s e vals = fold_left (paint s) vals (repeatN 0 (N.to_nat (e - s))).
Proof. reflexivity. Qed.

(* ------------------------------------------------------------------ list facts *)
Lemma repeatN_length {X} (x : X) k : length (repeatN x k) = k.
Proof. induction k; cbn [repeatN length]; congruence. Qed.
Lemma repeatN_nth {X} (x : X) k : forall j, (j < k)%nat -> nth_error (repeatN x k) j = Some x.
Proof. induction k as [|k IH]; intros j Hj; [lia|]. destruct j; [reflexivity|]. cbn [repeatN nth_error]. apply IH. lia. Qed.
Lemma nth_firstn {X} (l : list X) : forall a i, (i < a)%nat -> nth_error (firstn a l) i = nth_error l i.
Proof.
  induction l as [|x l IH]; intros a i Hi; [destruct a, i; reflexivity|].
  destruct a; [lia|]. destruct i; [reflexivity|]. cbn [firstn nth_error]. apply IH. lia.
Qed.
Lemma nth_skipn {X} (l : list X) : forall b j, nth_error (skipn b l) j = nth_error l (b + j).
Proof.
  induction l as [|x l IH]; intros b j; [destruct b, j; reflexivity|].
  destruct b; [reflexivity|]. cbn [skipn Nat.add nth_error]. apply IH.
Qed.
Lemma find_app {X} (f : X -> bool) l1 l2 :
  find f (l1 ++ l2) = match find f l1 with Some x => Some x | None => find f l2 end.
Proof. induction l1 as [|x l1 IH]; [reflexivity|]. cbn [app find]. destruct (f x); [reflexivity|exact IH]. Qed.

(* ------------------------------------------------------------------ one assignment loop *)
Definition in_region (s : N) (n : nat) (v : value) : Prop :=
  v_start v < v_end v -> s <= v_start v /\ v_end v <= s + N.of_nat n.

Lemma paint_length s n acc v : length acc = n -> in_region s n v -> length (paint s acc v) = n.
Proof.
  intros Hl Hr. unfold paint. destruct (v_start v <? v_end v) eqn:E; [|exact Hl].
  apply N.ltb_lt in E. destruct (Hr E) as [H1 H2].
  cbv zeta. rewrite !app_length, repeatN_length, firstn_length, skipn_length. lia.
Qed.

Lemma paint_nth s n acc v i : length acc = n -> in_region s n v -> (i < n)%nat ->
  nth_error (paint s acc v) i = if covers (s + N.of_nat i) v then Some (v_bits v) else nth_error acc i.
Proof.
  intros Hl Hr Hi. unfold paint, covers. destruct (v_start v <? v_end v) eqn:E.
  - apply N.ltb_lt in E. destruct (Hr E) as [H1 H2]. cbv zeta.
    set (a := N.to_nat (v_start v - s)). set (b := N.to_nat (v_end v - s)).
    assert (Ha : (a < b)%nat) by (unfold a, b; lia). assert (Hb : (b <= n)%nat) by (unfold b; lia).
    destruct (v_start v <=? s + N.of_nat i) eqn:E1; destruct (s + N.of_nat i <? v_end v) eqn:E2; cbn [andb].
    + apply N.leb_le in E1. apply N.ltb_lt in E2.
      assert (Hai : (a <= i)%nat) by (unfold a; lia). assert (Hib : (i < b)%nat) by (unfold b; lia).
      rewrite nth_error_app2 by (rewrite firstn_length; lia). rewrite firstn_length, Hl.
      rewrite nth_error_app1 by (rewrite repeatN_length; lia). apply repeatN_nth. lia.
    + apply N.leb_le in E1. apply N.ltb_ge in E2.
      assert (Hbi : (b <= i)%nat) by (unfold b; lia).
      rewrite nth_error_app2 by (rewrite firstn_length; lia). rewrite firstn_length, Hl.
      rewrite nth_error_app2 by (rewrite repeatN_length; lia). rewrite repeatN_length, nth_skipn. f_equal. lia.
    + apply N.leb_gt in E1. assert (Hia : (i < a)%nat) by (unfold a; lia).
      rewrite nth_error_app1 by (rewrite firstn_length; lia). apply nth_firstn. exact Hia.
    + apply N.leb_gt in E1. assert (Hia : (i < a)%nat) by (unfold a; lia).
      rewrite nth_error_app1 by (rewrite firstn_length; lia). apply nth_firstn. exact Hia.
  - apply N.ltb_ge in E.
    destruct (v_start v <=? s + N.of_nat i) eqn:E1; destruct (s + N.of_nat i <? v_end v) eqn:E2; cbn [andb]; try reflexivity.
    apply N.leb_le in E1. apply N.ltb_lt in E2. lia.
Qed.

Lemma fold_paint s n vals : Forall (in_region s n) vals -> forall acc, length acc = n ->
  length (fold_left (paint s) vals acc) = n /\
  forall i, (i < n)%nat ->
    nth_error (fold_left (paint s) vals acc) i =
    match find (covers (s + N.of_nat i)) (rev vals) with Some v => Some (v_bits v) | None => nth_error acc i end.
Proof.
  induction 1 as [|v r Hv _ IH]; intros acc Hl.
  - split; [exact Hl|]. intros i _. reflexivity.
  - cbn [fold_left]. destruct (IH (paint s acc v) (paint_length s n acc v Hl Hv)) as [Hlen Hnth].
    split; [exact Hlen|]. intros i Hi. rewrite (Hnth i Hi). cbn [rev]. rewrite find_app.
    destruct (find (covers (s + N.of_nat i)) (rev r)); [reflexivity|].
    rewrite (paint_nth s n acc v i Hl Hv Hi). cbn [find]. destruct (covers (s + N.of_nat i) v); reflexivity.
Qed.

(* ------------------------------------------------------------------ over a query answer *)
Lemma clip_in_region s e v : s <= e -> in_region s (N.to_nat (e - s)) (clip s e v).
Proof. intros Hse. unfold in_region, clip. cbn [v_start v_end]. intros _. lia. Qed.

Lemma clip_filter_in_region s e vals : s <= e -> Forall (in_region s (N.to_nat (e - s))) (clip_filter s e vals).
Proof.
  intros Hse. unfold clip_filter. induction vals as [|v r IH]; [constructor|].
  cbn [filter]. destruct (keep s e v); [|exact IH]. cbn [map]. constructor; [apply clip_in_region; exact Hse|exact IH].
Qed.

(* no index ever falls outside the vector *)
Lemma clip_filter_no_oob s e vals : existsb (out_of_region s e) (clip_filter s e vals) = false.
Proof.
  unfold clip_filter. induction vals as [|v r IH]; [reflexivity|].
  cbn [filter]. destruct (keep s e v); [|exact IH]. cbn [map existsb]. rewrite IH, orb_false_r.
  unfold out_of_region, clip. cbn [v_start v_end].
  destruct (N.max (v_start v) s <? N.min (v_end v) e) eqn:E; [|reflexivity]. cbn [andb].
  apply orb_false_iff. split; apply N.ltb_ge; lia.
Qed.

Lemma covers_clip s e p v : s <= p -> p < e -> covers p (clip s e v) = covers p v.
Proof.
  intros H1 H2. unfold covers, clip. cbn [v_start v_end].
  destruct (v_start v <=? p) eqn:E1; destruct (p <? v_end v) eqn:E2; cbn [andb].
  - apply N.leb_le in E1. apply N.ltb_lt in E2. apply andb_true_iff. split; [apply N.leb_le|apply N.ltb_lt]; lia.
  - apply N.ltb_ge in E2. apply andb_false_iff. right. apply N.ltb_ge. lia.
  - apply N.leb_gt in E1. apply andb_false_iff. left. apply N.leb_gt. lia.
  - apply N.leb_gt in E1. apply andb_false_iff. left. apply N.leb_gt. lia.
Qed.
Lemma covers_keep s e p v : s <= p -> p < e -> covers p v = true -> keep s e v = true.
Proof.
  intros H1 H2 Hc. unfold covers in Hc. apply andb_true_iff in Hc as [Ha Hb].
  apply N.leb_le in Ha. apply N.ltb_lt in Hb. unfold keep. apply andb_true_iff. split; apply N.ltb_lt; lia.
Qed.

Lemma find_rev_clip_filter s e p vals : s <= p -> p < e ->
  find (covers p) (rev (clip_filter s e vals)) = option_map (clip s e) (find (covers p) (rev vals)).
Proof.
  intros H1 H2. induction vals as [|v r IH]; [reflexivity|].
  cbn [rev]. rewrite find_app. unfold clip_filter in *. cbn [filter].
  destruct (keep s e v) eqn:Hk.
  - cbn [map rev]. rewrite find_app, IH. destruct (find (covers p) (rev r)); [reflexivity|].
    cbn [option_map find]. rewrite (covers_clip s e p v H1 H2). destruct (covers p v); reflexivity.
  - rewrite IH. destruct (find (covers p) (rev r)); [reflexivity|]. cbn [option_map find].
    destruct (covers p v) eqn:Hc; [|reflexivity]. rewrite (covers_keep s e p v H1 H2 Hc) in Hk. discriminate.
Qed.

(* C17_values_over_bed, over any stored list: the last covering value wins *)
Theorem values_spec_last : forall s e vals, s <= e ->
  existsb (out_of_region s e) (clip_filter s e vals) = false /\
  length (vob_fill s e (clip_filter s e vals)) = N.to_nat (e - s) /\
  forall i, (i < N.to_nat (e - s))%nat ->
    nth_error (vob_fill s e (clip_filter s e vals)) i =
    Some (match find (covers (s + N.of_nat i)) (rev vals) with Some v => v_bits v | None => 0 end).
Proof.
  intros s e vals Hse. split; [apply clip_filter_no_oob|].
  rewrite vob_fill_paint.
  destruct (fold_paint s (N.to_nat (e - s)) _ (clip_filter_in_region s e vals Hse) _ (repeatN_length 0 _)) as [Hl Hn].
  split; [exact Hl|]. intros i Hi. rewrite (Hn i Hi).
  rewrite (find_rev_clip_filter s e (s + N.of_nat i) vals) by lia.
  destruct (find (covers (s + N.of_nat i)) (rev vals)); cbn [option_map]; [reflexivity|].
  apply repeatN_nth. exact Hi.
Qed.

(* for a value list the writer accepts, at most one value covers a base *)
Lemma find_none {X} (f : X -> bool) l : Forall (fun x => f x = false) l -> find f l = None.
Proof. induction 1 as [|x l Hx _ IH]; [reflexivity|]. cbn [find]. now rewrite Hx. Qed.

Lemma wf_find_rev len vals p : wf_vals len vals -> find (covers p) (rev vals) = find (covers p) vals.
Proof.
  induction vals as [|v r IH]; intros Hwf; [reflexivity|].
  cbn [rev find]. rewrite find_app, (IH (wf_tail _ _ _ Hwf)). cbn [find].
  destruct (covers p v) eqn:Hc.
  - rewrite find_none; [reflexivity|].
    pose proof (wf_after_head _ _ _ Hwf) as Ha. eapply Forall_impl; [|exact Ha]. cbv beta. intros w Hw.
    unfold covers in *. apply andb_true_iff in Hc as [_ Hb]. apply N.ltb_lt in Hb.
    apply andb_false_iff. left. apply N.leb_gt. lia.
  - destruct (find (covers p) r); reflexivity.
Qed.

(* C17_values_over_bed *)
Theorem values_spec : forall len s e vals, wf_vals len vals -> s <= e ->
  existsb (out_of_region s e) (clip_filter s e vals) = false /\
  length (vob_fill s e (clip_filter s e vals)) = N.to_nat (e - s) /\
  forall i, (i < N.to_nat (e - s))%nat ->
    nth_error (vob_fill s e (clip_filter s e vals)) i =
    Some (match find (covers (s + N.of_nat i)) vals with Some v => v_bits v | None => 0 end).
Proof.
  intros len s e vals Hwf Hse. destruct (values_spec_last s e vals Hse) as (H1 & H2 & H3).
  split; [exact H1|]. split; [exact H2|]. intros i Hi. rewrite (H3 i Hi). now rewrite (wf_find_rev len vals _ Hwf).
Qed.

(* the row of one well-formed line, tool level: its cells are that fill *)
Lemma vob_line_cells q l chrom st en s e cl uniq :
  piece 0 (trim l) = Some chrom -> piece 1 (trim l) = Some st -> piece 2 (trim l) = Some en ->
  parse_u32 st = Some s -> parse_u32 en = Some e -> s <= e ->
  q chrom s e = Ok cl -> existsb (out_of_region s e) cl = false ->
  vob_line q false uniq l = Ok (None, vob_fill s e cl).
Proof.
  intros H0 H1 H2 Hs He Hse Hq Ho. unfold vob_line. rewrite H0, H1, H2, Hs, He, Hq. cbn [rbind].
  destruct (e <? s) eqn:E; [apply N.ltb_lt in E; lia|]. rewrite Ho. reflexivity.
Qed.

Example values_example :
  let vals := [ {| v_start := 1; v_end := 3; v_bits := 1065353216 |}; {| v_start := 4; v_end := 6; v_bits := 1073741824 |} ] in
  wf_vals 10 vals /\ vob_fill 0 7 (clip_filter 0 7 vals) = [0; 1065353216; 1065353216; 0; 1073741824; 1073741824; 0].
Proof. split; [repeat constructor; cbn; lia|vm_compute; reflexivity]. Qed.

(* one output row per line of the BED file, in line order *)
Theorem values_rows_in_order : forall q withnames bed rows,
  values_over_bed q withnames bed = Ok rows <->
  Forall2 (fun l r => vob_line q withnames (unique_names withnames bed) l = Ok r) (file_lines bed) rows.
Proof.
  intros q withnames bed. unfold values_over_bed.
  generalize (unique_names withnames bed) as uniq. intros uniq.
  induction (file_lines bed) as [|l ls IH]; intros rows.
  - cbn [vob_rows]. split.
    + intros H. injection H as <-. constructor.
    + intros H. inversion H. reflexivity.
  - cbn [vob_rows]. split.
    + destruct (vob_line q withnames uniq l) as [a| | |] eqn:El; cbn [rbind]; try discriminate.
      destruct (vob_rows q withnames uniq ls) as [b| | |] eqn:Er; cbn [rbind]; try discriminate.
      intros H. injection H as <-. constructor; [exact El|]. apply IH. reflexivity.
    + intros H. inversion H as [|? r ? rs Hl Hr]; subst. rewrite Hl. cbn [rbind].
      rewrite (proj2 (IH rs) Hr). reflexivity.
Qed.
