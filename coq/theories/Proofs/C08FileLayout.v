(* C08 at file level, part 3: where write_zooms (single pass) and write_zoom_vals (two passes) put the
   levels.  Every directory entry they return belongs to one of the levels handed in; the level's
   section data lies at the entry's data offset, immediately followed by the index write_index lays
   out for the sections placed there, which is where the entry's index offset points. *)
From BT Require Import Base.Util Base.LE Base.Float Generated.Consts Model.RTree Model.BBIFile Model.BigWigWrite.
Local Open Scope N_scope.

Lemma Nlen_app' {X} (a b : list X) : Nlen (a ++ b) = Nlen a + Nlen b.
Proof. unfold Nlen. rewrite app_length. lia. Qed.

(* [bytes] were written from file position [pos]; entry [h] describes level [z] *)
Definition level_placed (o : opts) (pos : N) (bytes : list N) (z : zoom_level) (h : zoom_header) : Prop :=
  zl_res z = zh_res h /\ zh_index h = zh_data h + Nlen (data_bytes (zl_secs z)) /\
  exists ix lv a b,
    write_index (o_bs o) (o_ips o) (zh_index h) (place (zh_data h) (zl_secs z)) = Ok (ix, lv)
    /\ bytes = a ++ data_bytes (zl_secs z) ++ ix ++ b /\ zh_data h = pos + Nlen a.

Lemma level_placed_shift o pos here more z h :
  level_placed o (pos + Nlen here) more z h -> level_placed o pos (here ++ more) z h.
Proof.
  intros (A & B & ix & lv & a & b & W & E & P). split; [exact A|]. split; [exact B|].
  exists ix, lv, (here ++ a), b. split; [exact W|]. split; [rewrite E; now rewrite <- app_assoc|].
  rewrite Nlen_app'. lia.
Qed.

Definition placed_in (o : opts) (pos : N) (bytes : list N) (zs : list zoom_level) (h : zoom_header) : Prop :=
  exists z, In z zs /\ level_placed o pos bytes z h.

Lemma placed_in_tl o pos bytes z zs h : placed_in o pos bytes zs h -> placed_in o pos bytes (z :: zs) h.
Proof. intros [z' [Hin Hp]]. exists z'. split; [now right|exact Hp]. Qed.

Theorem wzl_layout o ds : forall zs pos lc zc bytes hdrs,
  write_zooms_loop o ds pos zs lc zc = Ok (bytes, hdrs) -> Forall (placed_in o pos bytes zs) hdrs.
Proof.
  induction zs as [|z rest IH]; intros pos lc zc bytes hdrs H; cbn [write_zooms_loop] in H.
  - injection H as <- <-. constructor.
  - destruct (_ && (ds / 2 <? _)).
    { eapply Forall_impl; [|exact (IH _ _ _ _ _ H)]. intros h. apply placed_in_tl. }
    destruct (_ && match lc with None => false | Some l => _ end).
    { eapply Forall_impl; [|exact (IH _ _ _ _ _ H)]. intros h. apply placed_in_tl. }
    destruct (write_index _ _ _ _) as [[ix lv]| | |] eqn:W; try discriminate. cbn [rbind] in H.
    assert (Hhere : forall more, placed_in o pos ((data_bytes (zl_secs z) ++ ix) ++ more) (z :: rest)
                      {| zh_res := zl_res z; zh_data := pos; zh_index := pos + Nlen (data_bytes (zl_secs z)) |}).
    { intros more. exists z. split; [now left|]. split; [reflexivity|]. split; [reflexivity|].
      exists ix, lv, [], more. cbn [zh_index zh_data]. split; [exact W|]. split; [now rewrite <- app_assoc|].
      unfold Nlen. cbn [length]. lia. }
    destruct (_ && (o_maxzooms o <=? zc + 1)).
    + injection H as <- <-. constructor; [|constructor]. rewrite <- (app_nil_r (_ ++ ix)). apply Hhere.
    + destruct (write_zooms_loop o ds _ rest _ _) as [[more hs]| | |] eqn:E; try discriminate.
      cbn [rbind] in H. injection H as <- <-. constructor; [apply Hhere|].
      eapply Forall_impl; [|exact (IH _ _ _ _ _ E)]. intros h [z' [Hin Hp]]. exists z'. split; [now right|].
      apply level_placed_shift. exact Hp.
Qed.

Theorem w2p_layout o : forall zs pos bytes hdrs,
  write_zooms_two_pass o pos zs = Ok (bytes, hdrs) -> Forall (placed_in o pos bytes zs) hdrs.
Proof.
  induction zs as [|z rest IH]; intros pos bytes hdrs H; cbn [write_zooms_two_pass] in H.
  - injection H as <- <-. constructor.
  - destruct (write_index _ _ _ _) as [[ix lv]| | |] eqn:W; try discriminate. cbn [rbind] in H.
    destruct (write_zooms_two_pass o _ rest) as [[more hs]| | |] eqn:E; try discriminate.
    cbn [rbind] in H. injection H as <- <-. constructor.
    + exists z. split; [now left|]. split; [reflexivity|]. split; [reflexivity|].
      exists ix, lv, [], more. cbn [zh_index zh_data]. split; [exact W|]. split; [now rewrite <- app_assoc|].
      unfold Nlen. cbn [length]. lia.
    + eapply Forall_impl; [|exact (IH _ _ _ E)]. intros h [z' [Hin Hp]]. exists z'. split; [now right|].
      apply level_placed_shift. exact Hp.
Qed.
