(* C01 / C03, list level: what the writer's input checks guarantee, and why reading only the
   blocks that the index search returns loses nothing. *)
From BT Require Import Base.Util Base.Float Model.RTree Model.BBIFile Model.BigWigWrite Model.BBIRead Proofs.Chunks.
Local Open Scope N_scope.

(* the values of one chromosome as the writer accepts them *)
Inductive wf_vals (len : N) : list value -> Prop :=
| wf_nil : wf_vals len []
| wf_one : forall v, v_start v <= v_end v -> v_end v <= len -> wf_vals len [v]
| wf_cons : forall v w r, v_start v <= v_end v -> v_end v <= len -> v_end v <= v_start w ->
            wf_vals len (w :: r) -> wf_vals len (v :: w :: r).

Lemma check_chrom_wf len vals : check_chrom len vals = Ok tt -> wf_vals len vals.
Proof.
  induction vals as [|v r IH]; intros H; [constructor|].
  cbn [check_chrom] in H. unfold check_val in H.
  destruct (v_end v <? v_start v) eqn:E1; [discriminate|].
  destruct (len <? v_end v) eqn:E2; [discriminate|].
  apply N.ltb_ge in E1. apply N.ltb_ge in E2.
  destruct r as [|w r'].
  - constructor; assumption.
  - cbn [hd_error] in H. destruct (v_start w <? v_end v) eqn:E3; [discriminate|].
    apply N.ltb_ge in E3. cbn [rbind] in H. constructor; auto.
Qed.
Lemma wf_check_chrom len vals : wf_vals len vals -> check_chrom len vals = Ok tt.
Proof.
  induction 1 as [|v Hs He|v w r Hs He Hn Hw IH]; [reflexivity| |].
  - cbn [check_chrom]. unfold check_val. cbn [hd_error].
    destruct (v_end v <? v_start v) eqn:E1; [apply N.ltb_lt in E1; lia|].
    destruct (len <? v_end v) eqn:E2; [apply N.ltb_lt in E2; lia|]. reflexivity.
  - cbn [check_chrom]. unfold check_val. cbn [hd_error].
    destruct (v_end v <? v_start v) eqn:E1; [apply N.ltb_lt in E1; lia|].
    destruct (len <? v_end v) eqn:E2; [apply N.ltb_lt in E2; lia|].
    destruct (v_start w <? v_end v) eqn:E3; [apply N.ltb_lt in E3; lia|]. cbn [rbind]. exact IH.
Qed.

Lemma wf_tail len v r : wf_vals len (v :: r) -> wf_vals len r.
Proof. inversion 1; subst; [constructor|assumption]. Qed.
Lemma wf_head len v r : wf_vals len (v :: r) -> v_start v <= v_end v /\ v_end v <= len.
Proof. inversion 1; subst; auto. Qed.

(* in an accepted list everything after the head starts at or after the head's end *)
Lemma wf_after_head len v r : wf_vals len (v :: r) -> Forall (fun w => v_end v <= v_start w) r.
Proof.
  revert v. induction r as [|w r IH]; intros v H; [constructor|].
  inversion H as [| |? ? ? Hs He Hn Hw]; subst. constructor; [exact Hn|].
  specialize (IH w Hw). eapply Forall_impl; [|exact IH]. cbv beta. intros x Hx.
  destruct (wf_head _ _ _ Hw) as [Hsw _]. lia.
Qed.

Lemma wf_app_l len a b : wf_vals len (a ++ b) -> wf_vals len a.
Proof.
  induction a as [|v a IH]; intros H; [constructor|].
  destruct a as [|w a'].
  - destruct (wf_head _ _ _ H). constructor; assumption.
  - cbn [app] in *. inversion H; subst. constructor; auto.
Qed.
Lemma wf_app_r len a b : wf_vals len (a ++ b) -> wf_vals len b.
Proof. induction a as [|v a IH]; intros H; [exact H|]. apply IH. eapply wf_tail. exact H. Qed.

Lemma last_default {X} (b : X) l d1 d2 : last (b :: l) d1 = last (b :: l) d2.
Proof. revert b. induction l as [|c l IH]; intros b; [reflexivity|]. exact (IH c). Qed.

(* every element starts at or after the first start and ends at or before the last end *)
Lemma wf_first_start len f r x : wf_vals len (f :: r) -> In x (f :: r) -> v_start f <= v_start x.
Proof.
  intros H [<-|Hin]; [lia|]. pose proof (wf_after_head _ _ _ H) as Ha. rewrite Forall_forall in Ha.
  specialize (Ha x Hin). destruct (wf_head _ _ _ H). lia.
Qed.
Lemma wf_last_end len : forall f r x, wf_vals len (f :: r) -> In x (f :: r) -> v_end x <= v_end (last (f :: r) f).
Proof.
  intros f r. revert f. induction r as [|w r IH]; intros f x H Hin.
  - destruct Hin as [<-|[]]. cbn. lia.
  - change (last (f :: w :: r) f) with (last (w :: r) f).
    rewrite (last_default w r f w). pose proof (wf_tail _ _ _ H) as Hw. destruct Hin as [<-|Hin].
    + inversion H; subst. specialize (IH w w Hw (or_introl eq_refl)).
      destruct (wf_head _ _ _ Hw). lia.
    + apply IH; assumption.
Qed.

(* ---- reading only the blocks the index returns ---- *)
(* the index test for a block with span [first start, last end] against the query [s,e]: inclusive *)
Definition chunk_hit (s e : N) (c : list value) : bool :=
  match c with
  | [] => false
  | f :: _ => (s <=? v_end (last c f)) && (v_start f <=? e)
  end.

Lemma clip_filter_app s e a b : clip_filter s e (a ++ b) = clip_filter s e a ++ clip_filter s e b.
Proof. unfold clip_filter. now rewrite filter_app, map_app. Qed.
Lemma clip_filter_concat s e cs : clip_filter s e (concat cs) = flat_map (clip_filter s e) cs.
Proof. induction cs as [|c cs IH]; [reflexivity|]. cbn [concat flat_map]. now rewrite clip_filter_app, IH. Qed.

Lemma miss_empty len s e c : wf_vals len c -> chunk_hit s e c = false -> clip_filter s e c = [].
Proof.
  intros Hwf Hh. destruct c as [|f r]; [reflexivity|].
  unfold clip_filter. replace (filter (keep s e) (f :: r)) with (@nil value); [reflexivity|].
  symmetry.
  assert (Hall : Forall (fun x => keep s e x = false) (f :: r)).
  { apply Forall_forall. intros x Hx. unfold keep. unfold chunk_hit in Hh.
    apply andb_false_iff in Hh as [Hh|Hh].
    - apply N.leb_gt in Hh. pose proof (wf_last_end _ _ _ _ Hwf Hx).
      apply andb_false_iff. left. apply N.ltb_ge. lia.
    - apply N.leb_gt in Hh. pose proof (wf_first_start _ _ _ _ Hwf Hx).
      apply andb_false_iff. right. apply N.ltb_ge. lia. }
  clear Hh Hwf. induction Hall as [|x l Hx _ IH]; [reflexivity|]. cbn [filter]. now rewrite Hx.
Qed.

(* any split of an accepted value list into consecutive blocks: answering from the hit blocks
   only is answering from the whole list *)
Theorem query_blocks len s e (cs : list (list value)) :
  wf_vals len (concat cs) ->
  flat_map (clip_filter s e) (filter (chunk_hit s e) cs) = clip_filter s e (concat cs).
Proof.
  intros Hwf. rewrite clip_filter_concat.
  induction cs as [|c cs IH]; [reflexivity|].
  cbn [concat] in Hwf. cbn [filter flat_map].
  destruct (chunk_hit s e c) eqn:Hh; cbn [flat_map].
  - rewrite IH; [reflexivity|]. eapply wf_app_r; exact Hwf.
  - rewrite (miss_empty len s e c); [|eapply wf_app_l; exact Hwf|exact Hh]. cbn [app].
    apply IH. eapply wf_app_r; exact Hwf.
Qed.

(* the writer's blocks are chunks of items_per_slot values *)
Corollary query_sections len ips s e vals : (0 < ips)%nat -> wf_vals len vals ->
  flat_map (clip_filter s e) (filter (chunk_hit s e) (chunks ips vals)) = clip_filter s e vals.
Proof.
  intros Hi Hwf. rewrite <- (chunks_concat ips vals Hi) at 2. apply (query_blocks len).
  rewrite chunks_concat by exact Hi. exact Hwf.
Qed.

(* full-span read: everything comes back unchanged, except zero-length values sitting exactly at
   position 0 or at the chromosome end (known finding K1) *)
Definition boundary_zero (len : N) (v : value) : bool :=
  (v_start v =? v_end v) && ((v_start v =? 0) || (v_start v =? len)).

Lemma clip_id len v : v_start v <= v_end v -> v_end v <= len -> clip 0 len v = v.
Proof.
  intros Hs He. unfold clip. destruct v as [a b c]. cbn in *.
  rewrite N.max_l by lia. rewrite N.min_l by lia. reflexivity.
Qed.

Theorem full_span_read len vals : wf_vals len vals ->
  clip_filter 0 len vals = filter (fun v => negb (boundary_zero len v)) vals.
Proof.
  intros Hwf. unfold clip_filter.
  induction vals as [|v r IH]; [reflexivity|].
  destruct (wf_head _ _ _ Hwf) as [Hs He]. specialize (IH (wf_tail _ _ _ Hwf)).
  cbn [filter]. unfold keep at 1, boundary_zero at 1.
  destruct (0 <? v_end v) eqn:E1; destruct (v_start v <? len) eqn:E2; cbn [andb].
  - apply N.ltb_lt in E1, E2.
    replace ((v_start v =? v_end v) && ((v_start v =? 0) || (v_start v =? len))) with false.
    + cbn [negb map]. rewrite clip_id by assumption. f_equal. exact IH.
    + symmetry. apply andb_false_iff.
      destruct (v_start v =? v_end v) eqn:E3; [right|left; reflexivity].
      apply N.eqb_eq in E3. apply orb_false_iff. split; apply N.eqb_neq; lia.
  - apply N.ltb_lt in E1. apply N.ltb_ge in E2.
    assert (v_start v = len) by lia. assert (v_end v = len) by lia.
    replace (v_start v =? v_end v) with true by (symmetry; apply N.eqb_eq; lia).
    replace (v_start v =? len) with true by (symmetry; apply N.eqb_eq; lia).
    rewrite orb_true_r. cbn [andb negb]. exact IH.
  - apply N.ltb_ge in E1. assert (v_end v = 0) by lia. assert (v_start v = 0) by lia.
    replace (v_start v =? v_end v) with true by (symmetry; apply N.eqb_eq; lia).
    replace (v_start v =? 0) with true by (symmetry; apply N.eqb_eq; lia).
    cbn [orb andb negb]. exact IH.
  - apply N.ltb_ge in E1. assert (v_end v = 0) by lia. assert (v_start v = 0) by lia.
    replace (v_start v =? v_end v) with true by (symmetry; apply N.eqb_eq; lia).
    replace (v_start v =? 0) with true by (symmetry; apply N.eqb_eq; lia).
    cbn [orb andb negb]. exact IH.
Qed.

Corollary full_span_read_exact len vals : wf_vals len vals ->
  Forall (fun v => boundary_zero len v = false) vals -> clip_filter 0 len vals = vals.
Proof.
  intros Hwf Hb. rewrite (full_span_read len vals Hwf). clear Hwf.
  induction Hb as [|v r Hv _ IH]; [reflexivity|]. cbn [filter]. rewrite Hv. cbn [negb]. now rewrite IH.
Qed.
