(* Refinement: the writer pipeline with the staging buffers in full (Model/PipelineConc.v: one
   Model/TempBuf.v machine per chromosome) is simulated by the abstract pipeline machine of
   Model/Pipeline.v (forward simulation with stuttering; abstraction function [cabs] = forget the buffers).

   Simulation relation / invariant [CInv] of a concrete state s, for every chromosome k with abstract
   part c and concrete part x:
     - the abstract part k_p s is a reachable state of the abstract machine;
     - x_buf x is a state the C12 machine reaches from TempBuf.init (ops k) [switch; polls; await] under
       SOME schedule of its two threads, with the destination
           D k = pre ++ bytes of chromosomes 0..k-1      (what the splice task's file holds at the switch);
     - c_wdone c  =  "Drop for TempFileBufferWriter has run" in x_buf x;
     - write_data has left its loop  ->  channel k is empty and closed;   c_wdone c -> the loop was left.
   Each concrete transition is an abstract transition or leaves the abstract state unchanged:
     CMain/CProd/CEnc  the same abstract step            CWrite k (a section)  TWrite k
     CWrite k (loop ends), CBuf k (update / local write), CPoll, CSplice inside await_real_file
                                                         before the mailbox swap:  stutter
     CBuf k (the Drop)   TWrite k (the abstract "loop ends, writer dropped")
     CSplice (switch / task awaited / await_real_file returns r)  TSplice, where  r = file ++ bytes of
                         chromosome k  is C12's delivery theorem applied to buffer k. *)
From BT Require Import Base.Util Model.RTree Model.BBIFile Model.Pipeline Model.PipelineConc
  Proofs.PipelineInv Proofs.PipelineThms.
From BT Require Model.TempBuf Proofs.TempBufInv Proofs.TempBufThms.

(* ---------------------------------------------------------------- lists *)
Lemma set_nth_same_eq {X} : forall (l : list X) k x, nth_error l k = Some x -> set_nth k x l = l.
Proof.
  induction l as [|y r IH]; intros [|k] x; cbn [nth_error set_nth]; intros H; try discriminate.
  - inversion H. reflexivity.
  - rewrite (IH k x H). reflexivity.
Qed.

Lemma nth_error_set_cases {X} (l : list X) k x j y : nth_error (set_nth k x l) j = Some y ->
  (j = k /\ y = x) \/ (j <> k /\ nth_error l j = Some y).
Proof.
  intros H. destruct (Nat.eq_dec j k) as [->|Hne].
  - left. split; [reflexivity|]. assert (Hlt : (k < length l)%nat).
    { rewrite <- (set_nth_length x l k). eapply nth_error_lt; eauto. }
    rewrite nth_error_set_same in H by exact Hlt. inversion H. reflexivity.
  - right. rewrite nth_error_set_other in H by exact Hne. auto.
Qed.

Lemma Forall2_nth_written (opss : list (list TempBuf.pop)) (Ss : list (list sdata)) :
  Forall2 (fun ops S => TempBuf.written ops = data_bytes S) opss Ss ->
  forall k, TempBuf.written (nth k opss []) = data_bytes (nth k Ss []).
Proof.
  induction 1 as [|ops S opss Ss H HF IH]; intros [|k]; cbn [nth]; auto.
Qed.

Lemma Forall2_len {X Y} (P : X -> Y -> Prop) l m : Forall2 P l m -> length l = length m.
Proof. induction 1; cbn; auto. Qed.

(* ---------------------------------------------------------------- the buffer machine, step by step *)
Lemma tb_run_snoc d0 sch t b0 b' :
  TempBuf.step d0 t (TempBuf.run d0 sch b0) = Some b' -> b' = TempBuf.run d0 (sch ++ [t]) b0.
Proof.
  intros H. rewrite TempBufThms.run_app. cbn [TempBuf.run]. unfold TempBuf.step_or_stay. rewrite H. reflexivity.
Qed.

Lemma step_p_dropped_before b b' : TempBuf.step_p b = Some b' -> TempBuf.p_dropped b = false.
Proof.
  destruct b as [mb cl ps todo mid dr prog cm ob de pn]. cbn. destruct dr; [discriminate|reflexivity].
Qed.

Lemma step_p_drop_todo b b' : TempBuf.step_p b = Some b' -> TempBuf.p_dropped b' = true -> TempBuf.p_todo b = [].
Proof.
  destruct b as [mb cl ps todo mid dr prog cm ob de pn]. cbn. destruct dr; [discriminate|].
  destruct todo as [|[w|] rest]; [reflexivity| |].
  - destruct mid; destruct ps; try destruct mb; intros E; inversion E; subst; cbn; discriminate.
  - intros E; inversion E; subst; cbn; discriminate.
Qed.

Lemma legal_cprog np : TempBuf.legal false (cprog np) = true.
Proof. unfold cprog. cbn [TempBuf.legal negb andb]. apply legal_polls. Qed.

Definition Dk (pre : bytes) (Ss : list (list sdata)) (k : nat) : bytes := pre ++ data_bytes (concat (firstn k Ss)).

Section Refine.
Variable g : params.
Variable np : nat.
Variable pre : bytes.
Variable Ss : list (list sdata).
Variable opss : list (list TempBuf.pop).
Hypothesis Hg : g_fifo g = true.
Hypothesis Hops : Forall2 (fun ops S => TempBuf.written ops = data_bytes S) opss Ss.

(* buffer k is the C12 machine, somewhere on one of its runs *)
Definition c12_run (k : nat) (b : TempBuf.st) : Prop :=
  exists sch, b = TempBuf.run (Dk pre Ss k) sch (TempBuf.init (nth k opss []) (cprog np)).

Record xgood (k : nat) (c : chrom) (x : cextra) : Prop := {
  xg_run : c12_run k (x_buf x);
  xg_dropped : c_wdone c = TempBuf.p_dropped (x_buf x);
  xg_loop : x_loop x = true -> c_fifo c = [] /\ c_open c = false;
  xg_wdone : c_wdone c = true -> x_loop x = true }.

Record CInv (s : cst) : Prop := {
  ci_abs : exists sched', k_p s = run g sched' (init pre Ss);
  ci_len : length (k_x s) = length Ss;
  ci_good : forall k c x, nth_error (p_chroms (k_p s)) k = Some c -> nth_error (k_x s) k = Some x -> xgood k c x }.

Lemma cinv_inv s : CInv s -> Inv pre Ss (k_p s).
Proof. intros C. destruct (ci_abs _ C) as [sched' E]. rewrite E. apply inv_reachable. exact Hg. Qed.

Lemma c12_step k b d0 t b' : c12_run k b -> d0 = Dk pre Ss k -> TempBuf.step d0 t b = Some b' -> c12_run k b'.
Proof. intros [sch ->] -> H. exists (sch ++ [t]). eapply tb_run_snoc; eauto. Qed.

Lemma cinv_init : CInv (cinit np pre Ss opss).
Proof.
  constructor; cbn [cinit k_p k_x].
  - exists []. reflexivity.
  - rewrite map_length. eapply Forall2_len; eauto.
  - intros k c x Hc Hx. cbn [init p_chroms] in Hc. rewrite nth_error_map in Hc, Hx.
    destruct (nth_error Ss k) as [S|]; [|discriminate]. destruct (nth_error opss k) as [ops|] eqn:Eo; [|discriminate].
    cbn in Hc, Hx. inversion Hc; subst c. inversion Hx; subst x. constructor; cbn.
    + exists []. cbn. rewrite (nth_error_nth_default _ _ _ [] Eo). reflexivity.
    + reflexivity.
    + discriminate.
    + discriminate.
Qed.

(* updating chromosome j in both components *)
Lemma good_update chroms xs j c' x' :
  (forall k c x, nth_error chroms k = Some c -> nth_error xs k = Some x -> xgood k c x) ->
  xgood j c' x' ->
  forall k c x, nth_error (set_nth j c' chroms) k = Some c -> nth_error (set_nth j x' xs) k = Some x -> xgood k c x.
Proof.
  intros Hall Hj k c x Hc Hx.
  destruct (nth_error_set_cases _ _ _ _ _ Hc) as [[-> ->]|[Hne Hc']];
    destruct (nth_error_set_cases _ _ _ _ _ Hx) as [[Hk ->]|[Hne' Hx']]; try congruence.
  exact (Hall k c x Hc' Hx').
Qed.

Lemma good_update_x chroms xs j c x' : nth_error chroms j = Some c ->
  (forall k c x, nth_error chroms k = Some c -> nth_error xs k = Some x -> xgood k c x) ->
  xgood j c x' ->
  forall k c x, nth_error chroms k = Some c -> nth_error (set_nth j x' xs) k = Some x -> xgood k c x.
Proof.
  intros Hj Hall Hg' k c0 x Hc Hx. rewrite <- (set_nth_same_eq chroms j c Hj) in Hc.
  eapply good_update; eauto.
Qed.

Lemma abs_snoc p sched' t p' : p = run g sched' (init pre Ss) -> step g t p = Some p' ->
  exists sched'', p' = run g sched'' (init pre Ss).
Proof.
  intros -> H. exists (sched' ++ [t]). rewrite PipelineThms.run_app. cbn [run]. unfold step_or_stay. rewrite H. reflexivity.
Qed.

(* the main thread only ever closes a sender *)
Lemma main_step_chroms win p p' : main_step win p = Some p' ->
  forall k c', nth_error (p_chroms p') k = Some c' ->
    exists c, nth_error (p_chroms p) k = Some c /\ (c' = c \/ c' = close_sender c).
Proof.
  unfold main_step. destruct (p_closed p); [discriminate|].
  destruct ((p_started p <? length (p_chroms p))%nat && (p_started p - p_advanced p <? win)%nat).
  - intros H; inversion H; subst p'; cbn. intros k c' Hc. exists c'. auto.
  - destruct (p_advanced p <? p_started p)%nat.
    + destruct (nth_error (p_chroms p) (p_advanced p)) as [c|] eqn:En; [|discriminate].
      destruct (c_todo c); [|discriminate]. intros H; inversion H; subst p'; cbn. intros k c' Hc.
      destruct (nth_error_set_cases _ _ _ _ _ Hc) as [[-> ->]|[Hne Hc']].
      * exists c. auto.
      * exists c'. auto.
    + destruct (length (p_chroms p) <=? p_started p)%nat; [|discriminate].
      intros H; inversion H; subst p'; cbn. intros k c' Hc. exists c'. auto.
Qed.

Lemma xgood_close k c x : xgood k c x -> xgood k (close_sender c) x.
Proof.
  intros G. constructor; cbn.
  - apply (xg_run _ _ _ G).
  - apply (xg_dropped _ _ _ G).
  - intros H. destruct (xg_loop _ _ _ G H). auto.
  - apply (xg_wdone _ _ _ G).
Qed.

(* a chromosome-local abstract step that is impossible once write_data has left its loop *)
Lemma refine_on_chrom k f t s p' :
  (forall q, step g t q = on_chrom k f q) ->
  (forall c c', f c = Some c' -> c_wdone c' = c_wdone c /\ (c_fifo c = [] /\ c_open c = false -> False)) ->
  CInv s -> on_chrom k f (k_p s) = Some p' ->
  CInv (mkcs p' (k_x s)) /\ exists t', step g t' (k_p s) = Some p'.
Proof.
  intros Ht Hf C Hs. split; [|exists t; rewrite Ht; exact Hs].
  destruct (ci_abs _ C) as [sched' Ea].
  constructor; cbn [k_p k_x].
  - eapply abs_snoc; [exact Ea|]. rewrite Ht. exact Hs.
  - apply (ci_len _ C).
  - unfold on_chrom in Hs. destruct (k <? p_started (k_p s))%nat; [|discriminate].
    destruct (nth_error (p_chroms (k_p s)) k) as [c|] eqn:En; [|discriminate].
    destruct (f c) as [c'|] eqn:Ef; [|discriminate]. inversion Hs; subst p'; clear Hs. cbn [p_chroms].
    destruct (Hf c c' Ef) as [Hw Hno].
    intros j cj xj Hc Hx. destruct (nth_error_set_cases _ _ _ _ _ Hc) as [[-> ->]|[Hne Hc']].
    + pose proof (ci_good _ C k c xj En Hx) as G. constructor.
      * apply (xg_run _ _ _ G).
      * rewrite Hw. apply (xg_dropped _ _ _ G).
      * intros Hl. exfalso. apply Hno. apply (xg_loop _ _ _ G Hl).
      * rewrite Hw. apply (xg_wdone _ _ _ G).
    + apply (ci_good _ C j cj xj Hc' Hx).
Qed.

Lemma pst_eta p : mkp (p_chroms p) (p_started p) (p_advanced p) (p_closed p) (sp_k p) (sp_pc p) (sp_file p) = p.
Proof. destruct p; reflexivity. Qed.

(* ---------------------------------------------------------------- the simulation, one step *)
Lemma refine_step t s s' : CInv s -> cstep g t s = Some s' ->
  CInv s' /\ (cabs s' = cabs s \/ exists t', step g t' (cabs s) = Some (cabs s')).
Proof.
  intros C Hs. unfold cabs. pose proof (cinv_inv s C) as I. destruct (ci_abs _ C) as [sched' Ea].
  destruct t as [|k|k i|k|k| |]; cbn [cstep] in Hs.
  - (* main *)
    unfold lift_p in Hs. destruct (main_step (g_win g) (k_p s)) as [p'|] eqn:Em; [|discriminate].
    inversion Hs; subst s'; clear Hs. cbn [k_p]. split; [|right; exists TMain; exact Em].
    constructor; cbn [k_p k_x].
    + eapply abs_snoc with (t := TMain); [exact Ea|exact Em].
    + apply (ci_len _ C).
    + intros j c' x Hc Hx. destruct (main_step_chroms _ _ _ Em j c' Hc) as [c [Hc0 [->| ->]]].
      * apply (ci_good _ C j c x Hc0 Hx).
      * apply xgood_close. apply (ci_good _ C j c x Hc0 Hx).
  - (* producer *)
    unfold lift_p in Hs. destruct (on_chrom k (prod_step (g_cap g)) (k_p s)) as [p'|] eqn:Eo; [|discriminate].
    inversion Hs; subst s'; clear Hs. cbn [k_p].
    destruct (refine_on_chrom k _ (TProd k) s p' (fun q => eq_refl)) with (3 := Eo) as [C' Hst]; [|exact C|auto].
    intros c c'. unfold prod_step. destruct (c_open c) eqn:Ho; [|discriminate].
    destruct (c_todo c); [discriminate|]. destruct (length (c_fifo c) <? g_cap g)%nat; [|discriminate].
    intros H; inversion H; cbn. split; [reflexivity|]. intros [_ Hf]. congruence.
  - (* an encode task completes *)
    unfold lift_p in Hs. destruct (on_chrom k (enc_step i) (k_p s)) as [p'|] eqn:Eo; [|discriminate].
    inversion Hs; subst s'; clear Hs. cbn [k_p].
    destruct (refine_on_chrom k _ (TEnc k i) s p' (fun q => eq_refl)) with (3 := Eo) as [C' Hst]; [|exact C|auto].
    intros c c'. unfold enc_step. destruct (complete_at i (c_fifo c)) as [q|] eqn:Ec; [|discriminate].
    intros H; inversion H; cbn. split; [reflexivity|]. intros [Hf _].
    destruct (complete_at_spec _ _ _ Ec) as [_ Hne]. congruence.
  - (* write_data: a section, or the loop ends *)
    unfold con_both in Hs. destruct (k <? p_started (k_p s))%nat eqn:Hk; [|discriminate].
    destruct (nth_error (p_chroms (k_p s)) k) as [c|] eqn:En; [|discriminate].
    destruct (nth_error (k_x s) k) as [x|] eqn:Ex; [|discriminate].
    pose proof (ci_good _ C k c x En Ex) as G.
    destruct (cwrite_step (g_fifo g) c x) as [[c' x']|] eqn:Ew; [|discriminate].
    inversion Hs; subst s'; clear Hs. cbn [k_p].
    rewrite Hg in Ew. unfold cwrite_step in Ew. destruct (x_loop x) eqn:Hl; [discriminate|].
    assert (Hwd : c_wdone c = false).
    { destruct (c_wdone c) eqn:E; [|reflexivity]. rewrite (xg_wdone _ _ _ G E) in Hl. discriminate. }
    destruct (c_fifo c) as [|[s0 b0] q] eqn:Ef.
    + (* the loop ends: stutter *)
      destruct (c_open c) eqn:Ho; [discriminate|]. inversion Ew; subst c' x'; clear Ew.
      rewrite (set_nth_same_eq _ _ _ En), pst_eta. split; [|left; reflexivity].
      constructor; cbn [k_p k_x].
      * exists sched'. exact Ea.
      * rewrite set_nth_length. apply (ci_len _ C).
      * apply (good_update_x _ _ k c _ En (ci_good _ C)). constructor; cbn.
        -- apply (xg_run _ _ _ G).
        -- apply (xg_dropped _ _ _ G).
        -- auto.
        -- auto.
    + (* a section *)
      cbn [take_head] in Ew. destruct b0; [|discriminate]. inversion Ew; subst c' x'; clear Ew.
      assert (Hst : step g (TWrite k) (k_p s) =
                    Some (mkp (set_nth k (mkc (c_todo c) (c_open c) q (c_out c ++ [s0]) false) (p_chroms (k_p s)))
                              (p_started (k_p s)) (p_advanced (k_p s)) (p_closed (k_p s)) (sp_k (k_p s)) (sp_pc (k_p s)) (sp_file (k_p s)))).
      { cbn [step]. unfold on_chrom. rewrite Hk, En, Hg. unfold write_step. rewrite Hwd, Ef. cbn [take_head]. reflexivity. }
      split; [|right; exists (TWrite k); exact Hst].
      constructor; cbn [k_p k_x].
      * eapply abs_snoc; [exact Ea|exact Hst].
      * rewrite set_nth_length. apply (ci_len _ C).
      * cbn [p_chroms]. apply good_update; [apply (ci_good _ C)|]. constructor; cbn.
        -- apply (xg_run _ _ _ G).
        -- rewrite <- Hwd. apply (xg_dropped _ _ _ G).
        -- discriminate.
        -- discriminate.
  - (* the writer half: update(), the local write, the Drop *)
    unfold con_both in Hs. destruct (k <? p_started (k_p s))%nat eqn:Hk; [|discriminate].
    destruct (nth_error (p_chroms (k_p s)) k) as [c|] eqn:En; [|discriminate].
    destruct (nth_error (k_x s) k) as [x|] eqn:Ex; [|discriminate].
    pose proof (ci_good _ C k c x En Ex) as G.
    destruct (cbuf_step c x) as [[c' x']|] eqn:Eb; [|discriminate].
    inversion Hs; subst s'; clear Hs. cbn [k_p].
    unfold cbuf_step in Eb. destruct (bw_guard x) as [bw'|] eqn:Egd; [|discriminate].
    destruct (TempBuf.step_p (x_buf x)) as [b'|] eqn:Ep; [|discriminate]. inversion Eb; subst c' x'; clear Eb.
    pose proof (step_p_dropped_before _ _ Ep) as Hnd.
    assert (Hwd : c_wdone c = false) by (rewrite (xg_dropped _ _ _ G); exact Hnd).
    assert (Hrun : c12_run k b').
    { apply (c12_step k (x_buf x) (Dk pre Ss k) TempBuf.TP b' (xg_run _ _ _ G) eq_refl). exact Ep. }
    destruct (TempBuf.p_dropped b') eqn:Hd'.
    + (* the Drop = the abstract "loop ends, writer dropped" *)
      pose proof (step_p_drop_todo _ _ Ep Hd') as Htodo.
      unfold bw_guard in Egd. rewrite Htodo in Egd. destruct (x_loop x) eqn:Hl; [|discriminate].
      destruct (xg_loop _ _ _ G Hl) as [Hf Ho].
      assert (Hst : step g (TWrite k) (k_p s) =
                    Some (mkp (set_nth k (set_wdone c) (p_chroms (k_p s)))
                              (p_started (k_p s)) (p_advanced (k_p s)) (p_closed (k_p s)) (sp_k (k_p s)) (sp_pc (k_p s)) (sp_file (k_p s)))).
      { cbn [step]. unfold on_chrom. rewrite Hk, En, Hg. unfold write_step. rewrite Hwd, Hf, Ho.
        unfold set_wdone. rewrite Hf, Ho. reflexivity. }
      split; [|right; exists (TWrite k); exact Hst].
      constructor; cbn [k_p k_x].
      * eapply abs_snoc; [exact Ea|exact Hst].
      * rewrite set_nth_length. apply (ci_len _ C).
      * cbn [p_chroms]. apply good_update; [apply (ci_good _ C)|]. constructor; cbn.
        -- exact Hrun.
        -- symmetry. exact Hd'.
        -- intros _. auto.
        -- intros _. reflexivity.
    + (* anything else: stutter *)
      rewrite (set_nth_same_eq _ _ _ En), pst_eta. split; [|left; reflexivity].
      constructor; cbn [k_p k_x].
      * exists sched'. exact Ea.
      * rewrite set_nth_length. apply (ci_len _ C).
      * apply (good_update_x _ _ k c _ En (ci_good _ C)). constructor; cbn.
        -- exact Hrun.
        -- rewrite Hwd. symmetry. exact Hd'.
        -- apply (xg_loop _ _ _ G).
        -- intros E. congruence.
  - (* the splice task *)
    unfold csplice_step in Hs.
    pose proof (i_file _ _ _ I) as Hfile. fold (Dk pre Ss (sp_k (k_p s))) in Hfile.
    pose proof (i_len _ _ _ I) as HL. pose proof (i_started _ _ _ I) as HS.
    destruct (sp_pc (k_p s)) eqn:Hpc.
    + (* SRecv *)
      destruct (sp_k (k_p s) <? p_started (k_p s))%nat eqn:Hlt.
      * destruct (nth_error (k_x s) (sp_k (k_p s))) as [x|] eqn:Ex; [|discriminate].
        destruct (TempBuf.step_c (sp_file (k_p s)) (x_buf x)) as [b'|] eqn:Ec; [|discriminate].
        inversion Hs; subst s'; clear Hs. cbn [k_p].
        assert (Hst : step g TSplice (k_p s) = Some (set_pc (k_p s) SAwaitTask)).
        { cbn [step]. unfold splice_step. rewrite Hpc, Hlt. reflexivity. }
        split; [|right; exists TSplice; exact Hst].
        constructor; cbn [k_p k_x].
        -- eapply abs_snoc; [exact Ea|exact Hst].
        -- rewrite set_nth_length. apply (ci_len _ C).
        -- cbn [set_pc p_chroms]. apply Nat.ltb_lt in Hlt.
           destruct (nth_error (p_chroms (k_p s)) (sp_k (k_p s))) as [c|] eqn:En.
           2:{ apply nth_error_None in En. exfalso. lia. }
           pose proof (ci_good _ C _ c x En Ex) as G.
           apply (good_update_x _ _ _ c _ En (ci_good _ C)). constructor; cbn.
           ++ apply (c12_step _ (x_buf x) (sp_file (k_p s)) TempBuf.TC b' (xg_run _ _ _ G) Hfile). exact Ec.
           ++ rewrite (TempBufThms.step_c_dropped _ _ _ Ec). apply (xg_dropped _ _ _ G).
           ++ apply (xg_loop _ _ _ G).
           ++ apply (xg_wdone _ _ _ G).
      * destruct (p_closed (k_p s)) eqn:Hc; [|discriminate]. inversion Hs; subst s'; clear Hs. cbn [k_p].
        assert (Hst : step g TSplice (k_p s) = Some (set_pc (k_p s) SDone)).
        { cbn [step]. unfold splice_step, set_pc. rewrite Hpc, Hlt, Hc. reflexivity. }
        split; [|right; exists TSplice; exact Hst].
        constructor; cbn [k_p k_x].
        -- eapply abs_snoc; [exact Ea|exact Hst].
        -- apply (ci_len _ C).
        -- cbn [set_pc p_chroms]. apply (ci_good _ C).
    + (* SAwaitTask: the write task has returned *)
      destruct (nth_error (k_x s) (sp_k (k_p s))) as [x|] eqn:Ex; [|discriminate].
      destruct (TempBuf.p_dropped (x_buf x)) eqn:Hd; [|discriminate].
      inversion Hs; subst s'; clear Hs. cbn [k_p].
      pose proof (i_mid _ _ _ I (or_introl Hpc)) as Hmid.
      destruct (nth_error (p_chroms (k_p s)) (sp_k (k_p s))) as [c|] eqn:En.
      2:{ apply nth_error_None in En. exfalso. lia. }
      pose proof (ci_good _ C _ c x En Ex) as G.
      assert (Hst : step g TSplice (k_p s) = Some (set_pc (k_p s) SAwaitFile)).
      { cbn [step]. unfold splice_step. rewrite Hpc, En, (xg_dropped _ _ _ G), Hd. reflexivity. }
      split; [|right; exists TSplice; exact Hst].
      constructor; cbn [k_p k_x].
      * eapply abs_snoc; [exact Ea|exact Hst].
      * apply (ci_len _ C).
      * cbn [set_pc p_chroms]. apply (ci_good _ C).
    + (* SAwaitFile: inside await_real_file *)
      destruct (nth_error (k_x s) (sp_k (k_p s))) as [x|] eqn:Ex; [|discriminate].
      destruct (TempBuf.step_c (sp_file (k_p s)) (x_buf x)) as [b'|] eqn:Ec; [|discriminate].
      pose proof (i_mid _ _ _ I (or_intror Hpc)) as Hmid.
      destruct (nth_error (p_chroms (k_p s)) (sp_k (k_p s))) as [c|] eqn:En.
      2:{ apply nth_error_None in En. exfalso. lia. }
      pose proof (ci_good _ C _ c x En Ex) as G.
      assert (Hrun : c12_run (sp_k (k_p s)) b').
      { apply (c12_step _ (x_buf x) (sp_file (k_p s)) TempBuf.TC b' (xg_run _ _ _ G) Hfile). exact Ec. }
      assert (G' : xgood (sp_k (k_p s)) c (set_buf x b')).
      { constructor; cbn.
        - exact Hrun.
        - rewrite (TempBufThms.step_c_dropped _ _ _ Ec). apply (xg_dropped _ _ _ G).
        - apply (xg_loop _ _ _ G).
        - apply (xg_wdone _ _ _ G). }
      destruct (TempBuf.c_dest b') as [r|] eqn:Edest; inversion Hs; subst s'; clear Hs; cbn [k_p].
      * (* await_real_file returns r: C12's delivery theorem for this buffer *)
        pose proof (i_await _ _ _ I Hpc c En) as Hwd.
        assert (Hr : r = sp_file (k_p s) ++ data_bytes (c_out c)).
        { destruct Hrun as [sch Hb].
          destruct (TempBufThms.tempbuf_delivery (Dk pre Ss (sp_k (k_p s))) (nth (sp_k (k_p s)) opss []) (cprog np) sch
                      (legal_cprog np)) as [Hdel _].
          rewrite <- Hb in Hdel. rewrite (Hdel r Edest), <- Hfile.
          rewrite (Forall2_nth_written _ _ Hops).
          rewrite (wdone_out _ _ _ _ _ _ (i_good _ _ _ I _ c En) Hwd). reflexivity. }
        assert (Hst : step g TSplice (k_p s) =
                      Some (mkp (p_chroms (k_p s)) (p_started (k_p s)) (p_advanced (k_p s)) (p_closed (k_p s))
                                (S (sp_k (k_p s))) SRecv r)).
        { cbn [step]. unfold splice_step. rewrite Hpc, En, Hwd, Hr. reflexivity. }
        split; [|right; exists TSplice; exact Hst].
        constructor; cbn [k_p k_x].
        -- eapply abs_snoc; [exact Ea|exact Hst].
        -- rewrite set_nth_length. apply (ci_len _ C).
        -- cbn [p_chroms]. apply (good_update_x _ _ _ c _ En (ci_good _ C)). exact G'.
      * (* [closed] taken, the mailbox not yet swapped: stutter *)
        split; [|left; reflexivity].
        constructor; cbn [k_p k_x].
        -- exists sched'. exact Ea.
        -- rewrite set_nth_length. apply (ci_len _ C).
        -- apply (good_update_x _ _ _ c _ En (ci_good _ C)). exact G'.
    + discriminate.
  - (* a readiness poll: stutter *)
    unfold cpoll_step in Hs.
    pose proof (i_file _ _ _ I) as Hfile. fold (Dk pre Ss (sp_k (k_p s))) in Hfile.
    pose proof (i_len _ _ _ I) as HL. pose proof (i_started _ _ _ I) as HS.
    destruct (sp_pc (k_p s)) eqn:Hpc; try discriminate.
    destruct (nth_error (k_x s) (sp_k (k_p s))) as [x|] eqn:Ex; [|discriminate].
    destruct (TempBuf.c_prog (x_buf x)) as [|[| | | |] rest]; try discriminate.
    destruct (TempBuf.step_c (sp_file (k_p s)) (x_buf x)) as [b'|] eqn:Ec; [|discriminate].
    inversion Hs; subst s'; clear Hs. cbn [k_p]. split; [|left; reflexivity].
    pose proof (i_mid _ _ _ I (or_introl Hpc)) as Hmid.
    destruct (nth_error (p_chroms (k_p s)) (sp_k (k_p s))) as [c|] eqn:En.
    2:{ apply nth_error_None in En. exfalso. lia. }
    pose proof (ci_good _ C _ c x En Ex) as G.
    constructor; cbn [k_p k_x].
    + exists sched'. exact Ea.
    + rewrite set_nth_length. apply (ci_len _ C).
    + apply (good_update_x _ _ _ c _ En (ci_good _ C)). constructor; cbn.
      * apply (c12_step _ (x_buf x) (sp_file (k_p s)) TempBuf.TC b' (xg_run _ _ _ G) Hfile). exact Ec.
      * rewrite (TempBufThms.step_c_dropped _ _ _ Ec). apply (xg_dropped _ _ _ G).
      * apply (xg_loop _ _ _ G).
      * apply (xg_wdone _ _ _ G).
Qed.

Lemma cinv_step_or_stay t s : CInv s -> CInv (cstep_or_stay g t s).
Proof.
  intros C. unfold cstep_or_stay. destruct (cstep g t s) as [s'|] eqn:E; [|exact C].
  apply (refine_step t s s' C E).
Qed.

Lemma cinv_run : forall sched s, CInv s -> CInv (crun g sched s).
Proof.
  induction sched as [|t r IH]; intros s C; cbn [crun]; [exact C|]. apply IH. apply cinv_step_or_stay. exact C.
Qed.

Lemma cinv_reachable sched : CInv (crun g sched (cinit np pre Ss opss)).
Proof. apply cinv_run. apply cinv_init. Qed.

End Refine.

(* ---------------------------------------------------------------- the statements used by Properties/C11.v *)
(* forward simulation: every transition of the concrete machine from a reachable state is a transition of
   the abstract machine between the abstractions, or leaves the abstraction unchanged *)
Theorem pipeline_refine_step : forall g np pre Ss opss sched t s', g_fifo g = true ->
  Forall2 (fun ops S => TempBuf.written ops = data_bytes S) opss Ss ->
  let s := crun g sched (cinit np pre Ss opss) in
  cstep g t s = Some s' ->
  cabs s' = cabs s \/ exists t', step g t' (cabs s) = Some (cabs s').
Proof.
  intros g np pre Ss opss sched t s' Hg Hops s Hs.
  apply (refine_step g np pre Ss opss Hg Hops t s s' (cinv_reachable g np pre Ss opss Hg Hops sched) Hs).
Qed.

(* hence every run of the concrete machine, seen through the abstraction, is a run of the abstract machine *)
Theorem pipeline_refines : forall g np pre Ss opss sched, g_fifo g = true ->
  Forall2 (fun ops S => TempBuf.written ops = data_bytes S) opss Ss ->
  exists sched', cabs (crun g sched (cinit np pre Ss opss)) = run g sched' (init pre Ss).
Proof.
  intros g np pre Ss opss sched Hg Hops.
  apply (ci_abs _ _ _ _ _ _ (cinv_reachable g np pre Ss opss Hg Hops sched)).
Qed.

(* every buffer of every reachable state is a state of the C12 machine on one of its runs from its initial
   state, with the destination the sequential prefix; so C12's theorems apply to it: it has not panicked,
   and whatever destination it has handed back is that prefix followed by the chromosome's bytes *)
Theorem pipeline_buffers_c12 : forall g np pre Ss opss sched, g_fifo g = true ->
  Forall2 (fun ops S => TempBuf.written ops = data_bytes S) opss Ss ->
  let s := crun g sched (cinit np pre Ss opss) in
  length (k_x s) = length Ss /\
  forall k x, nth_error (k_x s) k = Some x ->
    (exists sch, x_buf x = TempBuf.run (Dk pre Ss k) sch (TempBuf.init (nth k opss []) (cprog np))) /\
    TempBuf.panicked (x_buf x) = false /\
    (forall r, TempBuf.c_dest (x_buf x) = Some r -> r = Dk pre Ss (S k)).
Proof.
  intros g np pre Ss opss sched Hg Hops s.
  pose proof (cinv_reachable g np pre Ss opss Hg Hops sched) as C. fold s in C.
  split; [apply (ci_len _ _ _ _ _ _ C)|]. intros k x Hx.
  pose proof (cinv_inv g np pre Ss opss Hg s C) as I.
  assert (Hk : (k < length (p_chroms (k_p s)))%nat).
  { rewrite (i_len _ _ _ I), <- (ci_len _ _ _ _ _ _ C). eapply nth_error_lt; eauto. }
  destruct (nth_error (p_chroms (k_p s)) k) as [c|] eqn:En.
  2:{ apply nth_error_None in En. exfalso. lia. }
  destruct (xg_run _ _ _ _ _ _ _ (ci_good _ _ _ _ _ _ C k c x En Hx)) as [sch Hb].
  split; [exists sch; exact Hb|]. rewrite Hb. split.
  - apply TempBufThms.tempbuf_no_panic. apply legal_cprog.
  - intros r Hr.
    destruct (TempBufThms.tempbuf_delivery (Dk pre Ss k) (nth k opss []) (cprog np) sch (legal_cprog np)) as [Hdel _].
    rewrite (Hdel r Hr), (Forall2_nth_written _ _ Hops). unfold Dk. rewrite <- app_assoc, <- data_bytes_app. f_equal. f_equal.
    rewrite (i_len _ _ _ I) in Hk.
    assert (Hn : nth_error Ss k = Some (nth k Ss [])) by (apply nth_error_nth'; exact Hk).
    rewrite (firstn_S_nth_error _ _ _ Hn), concat_app. cbn [concat]. rewrite app_nil_r. reflexivity.
Qed.

(* the concrete machine writes the sequential function's bytes *)
Theorem pipeline_splice_concrete : forall g np pre Ss opss sched, g_fifo g = true ->
  Forall2 (fun ops S => TempBuf.written ops = data_bytes S) opss Ss ->
  let s := crun g sched (cinit np pre Ss opss) in
  (forall k x, nth_error (k_x s) k = Some x -> TempBuf.panicked (x_buf x) = false) /\
  sp_file (cabs s) = pre ++ data_bytes (concat (firstn (sp_k (cabs s)) Ss)) /\
  (cterminal s = true ->
     sp_file (cabs s) = seq_file pre Ss /\ final_index (Nlen pre) (cabs s) = seq_index pre Ss).
Proof.
  intros g np pre Ss opss sched Hg Hops s.
  destruct (pipeline_buffers_c12 g np pre Ss opss sched Hg Hops) as [_ Hb]. fold s in Hb.
  destruct (pipeline_refines g np pre Ss opss sched Hg Hops) as [sched' Ea]. fold s in Ea.
  split; [|split].
  - intros k x Hx. apply (Hb k x Hx).
  - rewrite Ea. apply pipeline_file_prefix. exact Hg.
  - unfold cterminal. fold (cabs s). rewrite Ea. apply pipeline_splice. exact Hg.
Qed.
