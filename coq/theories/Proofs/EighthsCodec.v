(* C15: the value codec of the correspondence check (f32 bit patterns <-> exact eighths) is lossless. *)
From Coq Require Import NArith ZArith Lia List.
From BT Require Import Model.Entry_C15.
Import ListNotations.
Local Open Scope N_scope.

(* The interchange codec of C15's cases (values as f32 bit patterns of multiples of 1/8) loses nothing on
   values whose magnitude fits the 24-bit significand: decoding the encoding gives the value back. *)
Lemma enc_pos_dec_sign (s : N) (p : positive) :
  s <= 1 -> N.pos p < 2 ^ 24 ->
  eighths_of_bits (s * 2 ^ 31 + enc_pos p) = Some (if s =? 0 then Z.pos p else Z.neg p).
Proof.
  intros Hs Hlt.
  unfold enc_pos, eighths_of_bits.
  set (m := N.pos p) in *.
  assert (Hm : 0 < m) by (unfold m; lia).
  destruct (N.log2_spec m Hm) as [Hlo Hhi].
  set (e := N.log2 m) in *.
  assert (He : e <= 23).
  { destruct (N.le_gt_cases e 23) as [H|H]; [exact H|].
    exfalso. assert (2 ^ 24 <= 2 ^ e) by (apply N.pow_le_mono_r; lia). lia. }
  assert (Hle : (e <=? 23) = true) by (apply N.leb_le; exact He).
  rewrite Hle.
  set (k := 2 ^ (23 - e)).
  assert (Hk : 0 < k) by (unfold k; apply N.neq_0_lt_0, N.pow_nonzero; lia).
  assert (Hke : k * 2 ^ e = 2 ^ 23).
  { unfold k. rewrite <- N.pow_add_r. f_equal. lia. }
  assert (Hmk_lo : 2 ^ 23 <= m * k) by nia.
  assert (Hmk_hi : m * k < 2 ^ 24).
  { replace (N.succ e) with (e + 1) in Hhi by lia. rewrite N.pow_add_r in Hhi.
    change (2 ^ 24) with (2 ^ 23 * 2). nia. }
  set (mant := m * k - 2 ^ 23).
  assert (Hmant : mant < 2 ^ 23) by (unfold mant; change (2 ^ 24) with (2 ^ 23 + 2 ^ 23) in Hmk_hi; lia).
  set (b0 := (e + 124) * 2 ^ 23 + mant).
  assert (Hb0 : b0 < 2 ^ 31).
  { unfold b0. change (2 ^ 31) with (256 * 2 ^ 23). nia. }
  set (b := s * 2 ^ 31 + b0).
  assert (Hb31 : b / 2 ^ 31 = s).
  { unfold b. rewrite N.div_add_l by (apply N.pow_nonzero; lia). rewrite (N.div_small b0) by exact Hb0. lia. }
  assert (Hb23 : b / 2 ^ 23 = s * 256 + (e + 124)).
  { unfold b, b0. change (2 ^ 31) with (256 * 2 ^ 23).
    replace (s * (256 * 2 ^ 23) + ((e + 124) * 2 ^ 23 + mant)) with ((s * 256 + (e + 124)) * 2 ^ 23 + mant) by lia.
    rewrite N.div_add_l by (apply N.pow_nonzero; lia). rewrite (N.div_small mant) by exact Hmant. lia. }
  assert (Hbm : b mod 2 ^ 23 = mant).
  { unfold b, b0. change (2 ^ 31) with (256 * 2 ^ 23).
    replace (s * (256 * 2 ^ 23) + ((e + 124) * 2 ^ 23 + mant)) with (mant + (s * 256 + (e + 124)) * 2 ^ 23) by lia.
    rewrite N.mod_add by (apply N.pow_nonzero; lia). apply N.mod_small; exact Hmant. }
  rewrite Hb31, Hb23, Hbm.
  assert (Hex : (s * 256 + (e + 124)) mod 256 = e + 124).
  { rewrite N.add_comm, N.mod_add by lia. apply N.mod_small; lia. }
  rewrite Hex.
  assert (H0 : (e + 124 =? 0) = false) by (apply N.eqb_neq; lia). rewrite H0.
  assert (H1 : (190 <? e + 124) = false) by (apply N.ltb_ge; lia). rewrite H1.
  assert (Hsum : 2 ^ 23 + mant = m * k) by (unfold mant; lia). rewrite Hsum.
  assert (Hval : (if 147 <=? e + 124
                  then Some (m * k * 2 ^ (e + 124 - 147))
                  else if (m * k) mod 2 ^ (147 - (e + 124)) =? 0 then Some (m * k / 2 ^ (147 - (e + 124))) else None)
                 = Some m).
  { destruct (147 <=? e + 124) eqn:E.
    - apply N.leb_le in E. assert (He23 : e = 23) by lia.
      replace (e + 124 - 147) with 0 by lia.
      assert (Hk1 : k = 1) by (unfold k; rewrite He23; reflexivity).
      rewrite Hk1, N.pow_0_r, !N.mul_1_r. reflexivity.
    - apply N.leb_gt in E.
      replace (147 - (e + 124)) with (23 - e) by lia. fold k.
      rewrite N.mod_mul by lia. rewrite N.eqb_refl.
      rewrite N.div_mul by lia. reflexivity. }
  rewrite Hval.
  destruct (s =? 0) eqn:Es; reflexivity.
Qed.

Theorem eighths_codec_roundtrip (z : Z) :
  (Z.abs z < 2 ^ 24)%Z -> eighths_of_bits (bits_of8 z) = Some z.
Proof.
  intros H. destruct z as [|p|p]; cbn [bits_of8].
  - reflexivity.
  - change (enc_pos p) with (0 * 2 ^ 31 + enc_pos p). apply (enc_pos_dec_sign 0 p); lia.
  - change (2 ^ 31 + enc_pos p) with (1 * 2 ^ 31 + enc_pos p). apply (enc_pos_dec_sign 1 p); lia.
Qed.

(* the magnitude cases (2^24 and +-1, +-2 in eighths) lie outside the 24-bit range above but are exact too *)
Example eighths_codec_magnitudes :
  forallb (fun z => match eighths_of_bits (bits_of8 z) with Some z' => Z.eqb z z' | None => false end)
          [2 ^ 27; 2 ^ 27 + 16; 2 ^ 27 + 32; - (2 ^ 27); - (2 ^ 27 + 16); 8; 16; 24; -8]%Z = true.
Proof. vm_compute. reflexivity. Qed.
