(* C09, bigBed, part 4: decode (bb_write ...) = Some (bed_content_of ...), both writers, any arithmetic mode. *)
From Coq Require Import Sorting.Sorted.
From BT Require Import Base.Util Base.LE Base.Float Generated.Consts Model.RTree Model.BBIFile Model.BigWigWrite Model.BigWigWriteZ
  Model.BigBedWrite Proofs.Chunks Proofs.RTreeCodec Proofs.FileRegions Proofs.RTreeShape
  Spec.FormatDecode Proofs.C09Base Proofs.C09Codec Proofs.C09Chrom Proofs.C09RTree Proofs.C09Data Proofs.C09Zoom Proofs.C09File Proofs.C09Levels
  Proofs.ZoomBwLevels Proofs.C09BedBlock Proofs.C09BedFile Proofs.C09BedZoom.
From BT Require Model.BedSweep Proofs.BedQuery Proofs.BedCodec Proofs.BedImage Proofs.BedEndToEnd Proofs.BedZoomFit Proofs.C08FileQuery
  Proofs.BigWigFileRoundTrip.
Local Open Scope N_scope.
Notation opts_ok := BigWigFileRoundTrip.opts_ok.

(* ---------- what the decoder must return ---------- *)
Definition bed_content_of (fp : fpmode) (o : opts) (sizes : list (name * N)) (input : list bitem) (sql : list N) (fc : N)
           (ids : idmap) (outs : list bchrom) (kept : list N) : content :=
  {| c_bigwig := false; c_bigendian := false; c_field_count := fc; c_defined_fc := fc; c_autosql := sql;
     c_ubuf := 0; c_block_size := o_bs o; c_ips := o_ips o;
     c_chroms := map (chrom_view sizes) ids;                            (* (name, id, size) in id order *)
     c_records := brecs_of outs;                                        (* every entry, in input order *)
     c_blocks := map (fun g : N * list entry => Nlen (snd g)) (BedImage.gsecs (o_ips o) (BedEndToEnd.groups_of outs));
     c_data_count := Nlen input;                                        (* the item count *)
     c_summary := sum_view_mod (bb_sweep fp outs);                      (* BedSweep's total summary, bit patterns *)
     c_zooms := map (bb_level_content fp o outs) kept |}.

(* field widths: counts that are stored in 16 bits, names / coordinates / sizes in 32 bits, offsets in 64 bits;
   rest-of-line without NUL (it is NUL-terminated in the block); names non-empty (the decoder refuses an empty key) *)
Definition bed_hyps (o : opts) (sizes : list (name * N)) (input : list bitem) (bs : list N) : Prop :=
  o_bs o <= 65535 /\ o_ips o <= 65535 /\ Nlen (bruns input) < W16 /\ bed_input_ok input
  /\ Forall (fun s : name * N => snd s < W32) sizes /\ Nlen bs < W64.

Theorem bb_write_decodes two_pass fp o sizes autosql input bs strict inflate :
  BedZoomFit.bb_write_either two_pass fp o sizes autosql input = Ok bs ->
  bed_hyps o sizes input bs -> C08FileQuery.zoom_res_u32 two_pass o ->
  (strict = true -> names_increasing (map fst (bruns input))) ->
  exists sql fc ids outs kept,
    bb_schema autosql = Ok (sql, fc) /\ bb_collect o sizes input = Ok (ids, outs)
    /\ inc_from 0 kept /\ Nlen kept <= 10 /\ (two_pass = false -> incl kept (zoom_sizes_single o))
    /\ Forall (level_runs fp o outs) kept
    /\ decode_gen strict bs inflate = Some (bed_content_of fp o sizes input sql fc ids outs kept).
Proof.
  intros Hw (Hbs & Hips & Hnchr & Hinp & Hsizes & Hsize) Hu Hstrict.
  set (zp := if two_pass then bb_zoom_two_pass fp o else bb_zoom_single fp o).
  assert (Hw' : bb_write_gen (bb_sweep fp) zp o sizes autosql input = Ok bs).
  { unfold zp. destruct two_pass; exact Hw. }
  assert (Hfit : forall outs sum a b zb zh, zp outs sum a b = Ok (zb, zh) -> (length zh <= 10)%nat).
  { unfold zp. destruct two_pass; intros outs sum a b zb zh; [apply BedZoomFit.two_pass_fits|apply BedZoomFit.single_fits]. }
  destruct (bb_write_gen_inv (bb_sweep fp) zp o sizes autosql input bs Hw' Hfit) as (p & Hb2 & Hi1 & Hsch & Hcol & Hzp & HA).
  assert (Hopts : opts_ok o) by (split; split; assumption).
  destruct (BedCodec.bb_schema_verbatim _ _ _ Hsch) as [_ Hsqlnn].
  pose proof (schema_fc16 _ _ _ Hsch) as Hfc.
  set (zpos := bp_P p + Nlen (data_bytes (bp_data o p)) + Nlen (bp_ct p) + Nlen (bp_ix p)) in *.
  assert (Hat : has_at bs zpos (bp_zbytes p)).
  { destruct HA as (_ & _ & E & L & _). rewrite E.
    rewrite (app_assoc (bp_pre p)), (app_assoc (bp_pre p ++ _)), (app_assoc ((bp_pre p ++ _) ++ _)).
    apply has_at_intro. rewrite !Nlen_app, L. reflexivity. }
  assert (Hlen : Nlen bs = zpos + Nlen (bp_zbytes p) + 4).
  { destruct HA as (_ & _ & E & L & _). rewrite E, !Nlen_app, L. change (Nlen (u32 BIGBED_MAGIC)) with 4. unfold zpos. lia. }
  assert (Hzp' : (if two_pass then bb_zoom_two_pass fp o (bp_outs p) (bb_sweep fp (bp_outs p)) (Nlen (data_bytes (bp_data o p))) zpos
                  else bb_zoom_single fp o (bp_outs p) (bb_sweep fp (bp_outs p)) (Nlen (data_bytes (bp_data o p))) zpos)
                 = Ok (bp_zbytes p, bp_zhdrs p)).
  { unfold zp in Hzp. destruct two_pass; exact Hzp. }
  destruct (bed_zoom_laid fp o sizes input (bp_ids p) (bp_outs p) bs inflate Hcol Hopts Hinp Hnchr Hsizes Hsize
              two_pass _ _ zpos _ _ Hu Hzp' Hat) as (zl & Hdec & Hzok & Hcap & Hinc & Hch & Hend & Hcont & Hruns & Hincl).
  destruct (bf_decode o sizes input (bb_sweep fp (bp_outs p)) bs p strict inflate Hcol HA Hsqlnn Hfc Hopts Hinp Hnchr Hsizes Hsize Hstrict
              zl Hzok Hcap Hinc Hdec) as (ih & Hd & _).
  { split; [exact Hch|]. fold zpos. lia. }
  exists (bp_sql p), (bp_fc p), (bp_ids p), (bp_outs p), (map zh_res (bp_zhdrs p)).
  split; [exact Hsch|]. split; [exact Hcol|]. split; [exact Hinc|]. split; [unfold Nlen in *; rewrite map_length; exact Hcap|].
  split; [exact Hincl|]. split; [rewrite Forall_map; exact Hruns|].
  rewrite Hd. f_equal. unfold bed_content, bed_content_of. f_equal.
  - destruct (collect_facts _ _ _ _ _ Hcol) as (_ & _ & _ & _ & _ & E & _). exact E.
  - rewrite Hcont, map_map. reflexivity.
Qed.

(* ---------- what [bed_content_of] holds, in terms of the input ---------- *)
Lemma lookup_nodup : forall (l : idmap) c id, NoDup (map fst l) -> In (c, id) l -> lookup c l = Some id.
Proof.
  induction l as [|[k v] l IH]; intros c id Hnd Hin; [destruct Hin|]. cbn [map fst] in Hnd. inversion Hnd as [|? ? Hni Hnd']; subst.
  cbn [lookup]. destruct Hin as [E|Hin].
  - inversion E; subst. now rewrite BedReadInfo.name_eqb_refl.
  - destruct (name_eqb c k) eqn:E; [|now apply IH].
    apply BedReadInfo.name_eqb_true in E. subst k. exfalso. apply Hni. change c with (fst (c, id)). now apply in_map.
Qed.

Definition bidx (ids : idmap) (c : name) : N := match lookup c ids with Some i => i | None => 0 end.
Definition bed_input_records (ids : idmap) (input : list bitem) : list frec :=
  map (fun it => brec_of (bidx ids (fst it)) (snd it)) input.

(* the decoded records are the input entries, in input order, each with the id of its chromosome *)
Theorem bed_records_are_input o sizes input ids outs :
  bb_collect o sizes input = Ok (ids, outs) -> brecs_of outs = bed_input_records ids input.
Proof.
  intros Hcol. destruct (collect_facts _ _ _ _ _ Hcol) as (Hruns & Eids & Hbcids & Hnd & _).
  destruct (BedQuery.collect_partition _ _ _ _ _ Hcol) as (Hpart & _).
  unfold bed_input_records. rewrite <- Hpart.
  assert (Hnd' : NoDup (map fst ids)) by (rewrite (collect_ids_fst _ _ _ _ _ Hcol); exact Hnd).
  assert (Hin : forall c, In c outs -> In (bc_name c, bc_id c) ids).
  { intros c Hc. rewrite Eids, <- Hbcids, <- Hruns, map_map. cbn [fst]. exact (in_combine_maps bc_name bc_id c outs Hc). }
  clear - Hnd' Hin. unfold brecs_of, BedQuery.untag. induction outs as [|c outs IH]; [reflexivity|].
  cbn [map flat_map fst snd]. rewrite map_app, IH by (intros x Hx; apply Hin; now right). f_equal.
  unfold BedQuery.tag. rewrite map_map. cbn [fst snd]. unfold bidx.
  rewrite (lookup_nodup ids (bc_name c) (bc_id c) Hnd' (Hin c (or_introl eq_refl))). reflexivity.
Qed.

(* ids are first-appearance positions: the runs of equal names are pairwise distinct chromosomes numbered 0,1,2,..;
   the chromosomes the writer processed are exactly those runs; the runs concatenate to the input *)
Theorem bed_outs_are_runs o sizes input ids outs : bb_collect o sizes input = Ok (ids, outs) ->
  map (fun c => (bc_name c, bc_entries c)) outs = bruns input
  /\ map bc_id outs = FormatDecode.seqN 0 (length (bruns input))
  /\ ids = combine (map fst (bruns input)) (FormatDecode.seqN 0 (length (bruns input)))
  /\ NoDup (map fst (bruns input))
  /\ BedQuery.untag (bruns input) = input
  /\ Forall (fun c => lookup (bc_name c) sizes = Some (bc_len c)) outs.
Proof.
  intros Hcol. destruct (collect_facts _ _ _ _ _ Hcol) as (A & B & C & D & E & _).
  repeat split; try assumption; [apply BedQuery.bruns_untag|]. eapply Forall_impl; [|exact E]. now intros c [H _].
Qed.

(* blocks: between 1 and items_per_slot entries, all of one chromosome (the blocks are the chunks of the
   per-chromosome entry lists) *)
Theorem bed_blocks_sized ips (outs : list bchrom) : 1 <= ips ->
  Forall (fun g : N * list entry => 1 <= Nlen (snd g) <= ips) (BedImage.gsecs ips (BedEndToEnd.groups_of outs))
  /\ concat (map (fun g : N * list entry => map (brec_of (fst g)) (snd g)) (BedImage.gsecs ips (BedEndToEnd.groups_of outs))) = brecs_of outs.
Proof.
  intros Hi. split; [|exact (gsecs_recs ips outs Hi)].
  apply Forall_forall. intros g Hg. unfold BedImage.gsecs in Hg. apply in_flat_map in Hg as [g2 [_ Hg]].
  apply in_map_iff in Hg as [ch [<- Hch]]. cbn [snd]. rewrite BedQuery.sections_are_chunks, slot_ips in Hch by exact Hi.
  assert (Hb : (0 < N.to_nat ips)%nat) by lia.
  pose proof (chunks_nonempty (N.to_nat ips) (snd g2) Hb) as Hn. rewrite Forall_forall in Hn. specialize (Hn _ Hch).
  pose proof (chunks_len_bound (N.to_nat ips) (snd g2) ch Hb Hch). destruct ch as [|x ch]; [congruence|]. rewrite Nlen_cons.
  unfold Nlen in *. cbn [length] in *. lia.
Qed.

(* the total summary is BedSweep's, a function of the runs of the input alone (C06 ties it to depth) *)
Theorem bed_summary_is_sweep fp o sizes input ids outs : bb_collect o sizes input = Ok (ids, outs) ->
  bb_sweep fp outs = BedSweep.bb_total_summary fp (map (fun r : name * list entry => map to_sw (snd r)) (bruns input)).
Proof.
  intros Hcol. destruct (collect_facts _ _ _ _ _ Hcol) as (Hruns & _). unfold bb_sweep. f_equal.
  rewrite <- Hruns, map_map. reflexivity.
Qed.

(* the zoom records of a level are, chromosome by chromosome in file order, what bb_zoom_records returns
   (C08 ties them to depth), and every run succeeded *)
Theorem bed_level_is_records fp o outs size : level_runs fp o outs size ->
  exists per : list (list (list zrec)),
    Forall2 (fun c recs => BedSweep.bb_zoom_records fp (o_ips o) size (bc_id c) (sw_entries c) = Ok recs) outs per
    /\ bb_level_content fp o outs size = (size, map (zr_view fp) (concat (concat per))).
Proof.
  unfold level_runs, bb_level_content, bb_rsecs. induction outs as [|c outs IH]; intros H.
  - exists []. split; [constructor|reflexivity].
  - inversion H as [|? ? [recs Hr] H']; subst. destruct (IH H') as (per & Hf & E).
    exists (recs :: per). split; [constructor; assumption|]. cbn [flat_map concat]. unfold chrom_rsecs at 1. rewrite Hr.
    injection E as E. rewrite !concat_app, !map_app, E. reflexivity.
Qed.

(* ---------- with input_sort_type = ALL the writer's own order check makes the names increasing ---------- *)
Lemma process_bruns_increasing o sizes : o_sort_all o = true -> forall rs prev ids0 r,
  process_bruns o sizes prev ids0 rs = Ok r ->
  names_increasing (map fst rs)
  /\ match prev, rs with Some pn, (c, _) :: _ => name_cmp pn c = Lt | _, _ => True end.
Proof.
  intros Hs. induction rs as [|[c es] rest IH]; intros prev ids0 r H; [split; [exact I|destruct prev; exact I]|].
  cbn [process_bruns] in H. rewrite Hs in H.
  destruct (negb _) eqn:Eord in H; [discriminate|].
  destruct (lookup c sizes) as [len|]; [|discriminate].
  destruct (lookup c ids0); [discriminate|].
  destruct (get_id ids0 c) as [ids' id].
  destruct (check_entries len es) as [[]| | |]; cbn [rbind] in H; [|discriminate|discriminate|discriminate].
  destruct (process_bruns o sizes (Some c) ids' rest) as [[ids'' outs']| | |] eqn:Er; cbn [rbind] in H; [|discriminate|discriminate|discriminate].
  destruct (IH _ _ _ Er) as [Hinc Hfirst]. split.
  - cbn [map fst]. destruct rest as [|[c' v'] rest']; [exact I|]. cbn [map fst names_increasing]. split; [exact Hfirst|exact Hinc].
  - destruct prev as [pn|]; [|exact I]. apply negb_false_iff in Eord. destruct (name_cmp pn c); try discriminate. reflexivity.
Qed.

Lemma bed_sorted_names_increasing o sizes input ids outs : o_sort_all o = true ->
  bb_collect o sizes input = Ok (ids, outs) -> names_increasing (map fst (bruns input)).
Proof.
  intros Hs Hcol. unfold bb_collect in Hcol. destruct input as [|i0 rest] eqn:Ei; [discriminate|]. rewrite <- Ei in *.
  now destruct (process_bruns_increasing o sizes Hs _ _ _ _ Hcol).
Qed.

Lemma bb_write_collects two_pass fp o sizes autosql input bs :
  BedZoomFit.bb_write_either two_pass fp o sizes autosql input = Ok bs -> exists ids outs, bb_collect o sizes input = Ok (ids, outs).
Proof.
  intros H. assert (H' : exists zp, bb_write_gen (bb_sweep fp) zp o sizes autosql input = Ok bs).
  { destruct two_pass; eexists; exact H. }
  destruct H' as [zp H']. unfold bb_write_gen in H'. destruct (_ || _); [discriminate|].
  destruct (bb_schema autosql) as [[sql fc]| | |]; cbn [rbind] in H'; try discriminate.
  destruct (bb_collect o sizes input) as [[ids outs]| | |]; try discriminate. eauto.
Qed.

(* ---------- the two writers, in the form of the bigWig theorems ---------- *)
From BT Require Proofs.C09Whole Proofs.ZoomFile.

Lemma manual_u32_zf o : C09Whole.manual_u32 o -> ZoomFile.manual_u32 o.
Proof. unfold C09Whole.manual_u32, ZoomFile.manual_u32. intros H. destruct (o_manual o) as [zs|]; [exact (H zs eq_refl)|exact I]. Qed.

Definition stored_autosql (autosql : option (list N)) : list N :=
  match autosql with Some s => s | None => AUTOSQL_LIBRARY_DEFAULT end.

Theorem bb_write_single_decodes fp o sizes autosql input bs strict inflate :
  bb_write fp o sizes autosql input = Ok bs -> bed_hyps o sizes input bs ->
  Forall (fun z => z < W32) (zoom_sizes_single o) ->
  (strict = true -> o_sort_all o = true) ->
  exists fc ids outs kept,
    bb_schema autosql = Ok (stored_autosql autosql, fc) /\ bb_collect o sizes input = Ok (ids, outs)
    /\ incl kept (zoom_sizes_single o) /\ inc_from 0 kept /\ Nlen kept <= 10
    /\ Forall (level_runs fp o outs) kept
    /\ decode_gen strict bs inflate = Some (bed_content_of fp o sizes input (stored_autosql autosql) fc ids outs kept).
Proof.
  intros H Hh Hu Hs.
  destruct (bb_write_collects false fp o sizes autosql input bs H) as (ids0 & outs0 & Hcol0).
  destruct (bb_write_decodes false fp o sizes autosql input bs strict inflate H Hh Hu) as (sql & fc & ids & outs & kept & A & B & C & D & E & F & G).
  { intros Es. exact (bed_sorted_names_increasing o sizes input ids0 outs0 (Hs Es) Hcol0). }
  destruct (BedCodec.bb_schema_verbatim _ _ _ A) as [Esql _]. fold (stored_autosql autosql) in Esql. subst sql.
  exists fc, ids, outs, kept. split; [exact A|]. split; [exact B|]. split; [exact (E eq_refl)|]. split; [exact C|]. split; [exact D|]. split; [exact F|exact G].
Qed.

Theorem bb_write_multipass_decodes fp o sizes autosql input bs strict inflate :
  bb_write_multipass fp o sizes autosql input = Ok bs -> bed_hyps o sizes input bs ->
  C09Whole.manual_u32 o ->
  (strict = true -> o_sort_all o = true) ->
  exists fc ids outs kept,
    bb_schema autosql = Ok (stored_autosql autosql, fc) /\ bb_collect o sizes input = Ok (ids, outs)
    /\ inc_from 0 kept /\ Nlen kept <= 10
    /\ Forall (level_runs fp o outs) kept
    /\ decode_gen strict bs inflate = Some (bed_content_of fp o sizes input (stored_autosql autosql) fc ids outs kept).
Proof.
  intros H Hh Hu Hs.
  destruct (bb_write_collects true fp o sizes autosql input bs H) as (ids0 & outs0 & Hcol0).
  destruct (bb_write_decodes true fp o sizes autosql input bs strict inflate H Hh (manual_u32_zf o Hu)) as (sql & fc & ids & outs & kept & A & B & C & D & E & F & G).
  { intros Es. exact (bed_sorted_names_increasing o sizes input ids0 outs0 (Hs Es) Hcol0). }
  destruct (BedCodec.bb_schema_verbatim _ _ _ A) as [Esql _]. fold (stored_autosql autosql) in Esql. subst sql.
  exists fc, ids, outs, kept. split; [exact A|]. split; [exact B|]. split; [exact C|]. split; [exact D|]. split; [exact F|exact G].
Qed.
