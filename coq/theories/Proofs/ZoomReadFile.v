(* C07, reading zoom records back, part 3: composition on the whole written file.
   For the bytes [bs] that bw_write / bw_write_multipass return on accepted input, every resolution
   [r] of the zoom directory read back by read_info, every chromosome [c] with data and every range
   [s, e]:   zoom_interval bs i c s e r  =  Ok (map (zrec_read fp) (filter (ztouch s e) R))
   where R = the records the zoom accumulator produced for that chromosome at resolution r
   (characterised by C07_ordered_disjoint / C07_partition / C07_stats), [ztouch] is the reader's
   test  s <= end && start <= e  (inclusive on both sides; the reader does not clip zoom records) and
   [zrec_read] is the f32 narrowing of the four statistics (Proofs/ZoomReadCodec.v).
   Pieces: the record codec (ZoomReadCodec), the regions of the level in the file (ZoomReadRegions),
   C05's search_bytes_eq_scan on the level's index through ZoomQuery.zoom_query_complete, the
   sortedness of a level's sections (ZoomSorted), C01's read_info / chromosome table. *)
From Coq Require Import Sorting.Sorted.
From BT Require Import Base.Util Base.LE Base.Float Generated.Consts Model.RTree Model.BBIFile
  Model.BigWigWrite Model.BBIRead Proofs.Chunks Proofs.BigWigQuery Proofs.RTreeAbs Proofs.RTreeBuild
  Proofs.RTreeCodec Proofs.RTreeShape Proofs.RTreeLayout Proofs.FileRegions Proofs.BigWigFile
  Proofs.BigWigFileChroms Proofs.BigWigFileData Proofs.BigWigFileRoundTrip Proofs.BigWigFileThms
  Proofs.ZoomLoop Proofs.ZoomInv Proofs.ZoomThms Proofs.ZoomSections Proofs.ZoomBwLevels Proofs.ZoomQuery
  Proofs.ZoomSorted Proofs.ZoomFile Proofs.ZoomReadCodec Proofs.ZoomReadRegions.
Local Open Scope N_scope.

(* the reader's range test on a record of the queried chromosome *)
Definition ztouch (s e : N) (z : zrec) : bool := (s <=? z_end z) && (z_start z <=? e).

(* ---------- small list facts ---------- *)
Lemma mapM_app {X Y} (f : X -> res Y) a b x y : mapM f a = Ok x -> mapM f b = Ok y -> mapM f (a ++ b) = Ok (x ++ y).
Proof.
  revert x. induction a as [|h a IH]; intros x Ha Hb; cbn [mapM app] in *.
  - injection Ha as <-. exact Hb.
  - destruct (f h) as [h'| | |]; try discriminate. cbn [rbind] in *.
    destruct (mapM f a) as [a'| | |]; try discriminate. cbn [rbind] in Ha. injection Ha as <-.
    rewrite (IH a' eq_refl Hb). reflexivity.
Qed.
Lemma mapM_len {X Y} (f : X -> res Y) : forall l r, mapM f l = Ok r -> length r = length l.
Proof.
  induction l as [|x l IH]; intros r H; cbn [mapM] in H.
  - injection H as <-. reflexivity.
  - destruct (f x); try discriminate. cbn [rbind] in H. destruct (mapM f l) as [ys| | |]; try discriminate.
    cbn [rbind] in H. injection H as <-. cbn [length]. now rewrite (IH ys eq_refl).
Qed.
Lemma find_in_map {X} (f : X -> N) r : forall l, In r (map f l) -> exists x, find (fun z => f z =? r) l = Some x /\ In x l /\ f x = r.
Proof.
  induction l as [|y l IH]; intros H; [destruct H|]. cbn [find]. destruct (N.eqb_spec (f y) r) as [E|E].
  - exists y. split; [reflexivity|]. split; [now left|exact E].
  - destruct H as [H|H]; [contradiction|]. destruct (IH H) as [x [H1 [H2 H3]]]. exists x. split; [exact H1|]. split; [now right|exact H3].
Qed.

(* covered bases of overlaps never exceed the width they are cut to (also Proofs/C09Levels.v) *)
Lemma overlap_sum_bound len s e : forall vals a, wf_vals len vals -> (forall v, In v vals -> a <= v_start v) ->
  sumN (map (overlap_len s e) vals) <= e - N.max a s.
Proof.
  induction vals as [|v r IH]; intros a Hwf Ha; [cbn; lia|]. cbn [map sumN].
  pose proof (wf_after_head _ _ _ Hwf) as Hafter. rewrite Forall_forall in Hafter.
  specialize (IH (v_end v) (wf_tail _ _ _ Hwf) Hafter).
  destruct (wf_head _ _ _ Hwf) as [Hse _]. pose proof (Ha v (or_introl eq_refl)) as Hav.
  unfold overlap_len at 1. lia.
Qed.

(* ---------- the records of one chromosome at one resolution ---------- *)
(* the accumulator's final state (it always returns one for size >= 1: zoom_chrom_terminates) *)
Definition zst (fp : fpmode) (ips size : N) (c : chrom_out) : zstate :=
  match zoom_chrom fp ips size (co_id c) (co_vals c) zstate0 with Ok st => st | _ => zstate0 end.
Definition chrom_ok32 (c : chrom_out) : Prop :=
  co_id c < U32 /\ co_len c < U32 /\ wf_vals (co_len c) (co_vals c).

Lemma zst_run fp ips size c : 1 <= size -> zoom_chrom fp ips size (co_id c) (co_vals c) zstate0 = Ok (zst fp ips size c).
Proof.
  intros Hs. unfold zst. destruct (zoom_chrom_terminates fp ips size (co_id c) Hs (co_vals c) zstate0) as [st ->]. reflexivity.
Qed.

Lemma chrom_recs_u32 fp ips size c : 1 <= size -> chrom_ok32 c ->
  Forall (fun r => zrec_u32 r /\ z_chrom r = co_id c) (concat (zs_out (zst fp ips size c))).
Proof.
  intros Hs (Hid & Hlen & Hwf). pose proof (zst_run fp ips size c Hs) as Hrun.
  destruct (zoom_ordered_disjoint fp ips size (co_id c) (co_len c) (co_vals c) _ Hs Hwf Hrun) as (_ & _ & Hall & _).
  destruct (zoom_partition fp ips size (co_id c) (co_len c) (co_vals c) _ Hs Hwf Hrun) as (_ & _ & Hcov).
  cbv zeta in Hall, Hcov. apply Forall_forall. intros r Hr. rewrite Forall_forall in Hall, Hcov.
  destruct (Hall r Hr) as (Hch & Hp & _ & Hle). pose proof (Hcov r Hr) as Hc. unfold cov in Hc.
  pose proof (overlap_sum_bound (co_len c) (z_start r) (z_end r) (co_vals c) 0 Hwf ltac:(intros; lia)) as Hb.
  split; [|exact Hch]. unfold zrec_u32. rewrite Hch, Hc. unfold U32 in *. repeat split; lia.
Qed.

(* ---------- one level: all chromosomes ---------- *)
Definition level_rsecs (fp : fpmode) (ips size : N) (outs : list chrom_out) : list (list zrec) :=
  flat_map (fun c => zs_out (zst fp ips size c)) outs.

Lemma level_secs_inv fp o size : 1 <= size -> forall outs secs, level_secs fp o outs size = Ok secs ->
  mapM (encode_zoom_section fp) (level_rsecs fp (o_ips o) size outs) = Ok secs.
Proof.
  intros Hs. induction outs as [|c outs IH]; intros secs H; unfold level_secs in H; cbn [map concat_res fold_right] in H.
  - injection H as <-. reflexivity.
  - fold (concat_res (map (fun c => zoom_sections fp (o_ips o) size (co_id c) (co_vals c)) outs)) in H.
    fold (level_secs fp o outs size) in H.
    destruct (zoom_sections fp (o_ips o) size (co_id c) (co_vals c)) as [a| | |] eqn:Ea; try discriminate. cbn [rbind] in H.
    destruct (level_secs fp o outs size) as [b| | |] eqn:Eb; try discriminate. cbn [rbind] in H. injection H as <-.
    unfold level_rsecs. cbn [flat_map]. apply mapM_app; [|apply IH; reflexivity].
    unfold zoom_sections in Ea. rewrite (zst_run fp (o_ips o) size c Hs) in Ea. exact Ea.
Qed.

Section Level.
Variables (fp : fpmode) (ips size : N) (outs : list chrom_out).
Hypothesis Hs : 1 <= size.
Hypothesis Houts : Forall chrom_ok32 outs.
Hypothesis Hids : StronglySorted N.lt (map co_id outs).
Let rsecs := level_rsecs fp ips size outs.

Lemma level_sec_ok : Forall sec_ok rsecs.
Proof.
  unfold rsecs, level_rsecs. apply Forall_forall. intros sec Hin. apply in_flat_map in Hin as [c [Hc Hin]].
  rewrite Forall_forall in Houts. destruct (Houts c Hc) as (_ & _ & Hwf).
  pose proof (zoom_sections_ok fp ips size (co_id c) (co_len c) (co_vals c) _ Hs Hwf (zst_run fp ips size c Hs)) as H.
  rewrite Forall_forall in H. exact (H sec Hin).
Qed.

Lemma level_recs_u32 : Forall (Forall zrec_u32) rsecs.
Proof.
  unfold rsecs, level_rsecs. apply Forall_forall. intros sec Hin. apply in_flat_map in Hin as [c [Hc Hin]].
  rewrite Forall_forall in Houts. pose proof (chrom_recs_u32 fp ips size c Hs (Houts c Hc)) as H.
  apply Forall_forall. intros r Hr. rewrite Forall_forall in H. apply H. apply in_concat. exists sec. split; assumption.
Qed.

Lemma level_sorted sds pos : mapM (encode_zoom_section fp) rsecs = Ok sds -> sorted_starts (map sect_span (place pos sds)).
Proof.
  intros Henc. apply (level_sections_sorted fp size (map (fun c => (co_id c, zs_out (zst fp ips size c))) outs) sds pos).
  - rewrite map_map. cbn [fst]. exact Hids.
  - apply Forall_map. cbn [fst snd]. apply Forall_forall. intros c Hc. rewrite Forall_forall in Houts.
    destruct (Houts c Hc) as (_ & _ & Hwf).
    exact (zoom_chrom_ordered fp ips size (co_id c) (co_len c) (co_vals c) _ Hs Hwf (zst_run fp ips size c Hs)).
  - rewrite flat_map_concat_map, map_map. cbn [snd]. rewrite <- flat_map_concat_map. exact Henc.
Qed.

(* the records of the level that carry chromosome id [co_id c0] are c0's records *)
Lemma level_filter_chrom c0 s e : In c0 outs ->
  filter (zkeep (co_id c0) s e) (concat rsecs) = filter (ztouch s e) (concat (zs_out (zst fp ips size c0))).
Proof.
  intros Hc0. unfold rsecs, level_rsecs. rewrite concat_flat_map, filter_flat_map.
  rewrite <- (flat_map_single (fun c => filter (ztouch s e) (concat (zs_out (zst fp ips size c)))) outs c0
                (SSorted_lt_NoDup _ Hids) Hc0).
  apply flat_map_ext_in. intros c Hc. rewrite Forall_forall in Houts.
  pose proof (chrom_recs_u32 fp ips size c Hs (Houts c Hc)) as H.
  induction H as [|r R [_ Hr] _ IH]; [now destruct (co_id c =? co_id c0)|].
  cbn [filter]. unfold zkeep at 1. rewrite Hr. destruct (co_id c =? co_id c0) eqn:E; cbn [andb].
  - fold (ztouch s e r). rewrite IH. reflexivity.
  - exact IH.
Qed.
End Level.

(* ---------- the placed sections of a level ---------- *)
Lemma zoom_placed_ok fp limit : limit < U64 -> forall rsecs sds pos,
  mapM (encode_zoom_section fp) rsecs = Ok sds -> Forall (Forall zrec_u32) rsecs ->
  pos + Nlen (data_bytes sds) <= limit -> Forall sect_ok (place pos sds).
Proof.
  intros Hlim. induction rsecs as [|sec rsecs IH]; intros sds pos H Hok Hend; cbn [mapM] in H.
  - injection H as <-. constructor.
  - destruct (encode_zoom_section fp sec) as [sd| | |] eqn:E; try discriminate. cbn [rbind] in H.
    destruct (mapM (encode_zoom_section fp) rsecs) as [sds'| | |] eqn:E2; try discriminate.
    cbn [rbind] in H. injection H as <-. inversion Hok as [|? ? Hsec Hok']; subst.
    rewrite data_bytes_cons, Nlen_app in Hend. cbn [place]. constructor; [|apply (IH sds' _ eq_refl Hok'); lia].
    destruct sec as [|f r]; [discriminate|]. cbn [encode_zoom_section] in E. injection E as <-.
    assert (Hf : zrec_u32 f) by (inversion Hsec; assumption).
    assert (Hl : zrec_u32 (last (f :: r) f)).
    { rewrite Forall_forall in Hsec. apply Hsec. clear. generalize f at 1 3. induction r as [|x r IHr]; intros d; [now left|].
      change (last (d :: x :: r) f) with (last (x :: r) f). right. apply IHr. }
    destruct Hf as (H1 & H2 & _). destruct Hl as (_ & _ & H3 & _).
    unfold sect_ok. cbn [s_chrom s_start s_end s_off s_size sd_chrom sd_start sd_end sd_bytes] in *.
    repeat split; try assumption; lia.
Qed.

Lemma zoom_placed_slices fp bs : forall rsecs sds pos,
  mapM (encode_zoom_section fp) rsecs = Ok sds -> has_at bs pos (data_bytes sds) ->
  Forall (fun p : list zrec * sect =>
            slice bs (s_off (snd p)) (N.to_nat (s_size (snd p))) = Some (flat_map (zrec_bytes fp) (fst p)))
         (combine rsecs (place pos sds)).
Proof.
  induction rsecs as [|sec rsecs IH]; intros sds pos H Hat; cbn [mapM] in H.
  - injection H as <-. constructor.
  - destruct (encode_zoom_section fp sec) as [sd| | |] eqn:E; try discriminate. cbn [rbind] in H.
    destruct (mapM (encode_zoom_section fp) rsecs) as [sds'| | |] eqn:E2; try discriminate.
    cbn [rbind] in H. injection H as <-. rewrite data_bytes_cons in Hat. apply has_at_app in Hat as [H1 H2].
    cbn [place combine]. constructor; [|apply IH; [reflexivity|exact H2]].
    cbn [fst snd s_off s_size]. destruct sec as [|f r]; [discriminate|]. cbn [encode_zoom_section] in E. injection E as <-.
    cbn [sd_bytes] in *. eapply has_at_slice_N; [exact H1|reflexivity].
Qed.

(* ---------- the empty index (a level without any record: only zero-length values) ---------- *)
Lemma write_index_nil b ips pos : 1 <= b ->
  write_index b ips pos [] = Ok (index_header b ips 0 zero_span pos ++ [1; 0; 0; 0], 0%nat).
Proof.
  intros Hb. unfold write_index, build. destruct (N.to_nat b) as [|n] eqn:E; [lia|]. reflexivity.
Qed.
Lemma search_empty_index img off b ips n sp pos q s e fuel :
  has_at img off (index_header b ips n sp pos ++ [1; 0; 0; 0]) -> (2 <= fuel)%nat ->
  search_bytes fuel false img (off + 48) q s e = Ok [].
Proof.
  intros H Hf. apply has_at_suffix in H. replace (Nlen (index_header b ips n sp pos)) with 48 in H
    by (unfold Nlen; now rewrite index_header_length).
  destruct fuel as [|[|f]]; try lia. unfold search_bytes. cbn [search_loop]. unfold read_node.
  rewrite (has_at_slice_w img (off + 48) [1; 0; 0; 0] 4 H eq_refl). cbn [nth N.eqb orb negb skipn dec dec_le].
  change (N.to_nat (0 + 256 * (0 + 256 * 0))) with 0%nat. cbn [Nat.mul]. unfold slice. cbn [firstn length Nat.eqb].
  cbn [rbind parse_leaf_items filter map app]. reflexivity.
Qed.

Lemma Forall2_in_r {A B} (R : A -> B -> Prop) l1 l2 b : Forall2 R l1 l2 -> In b l2 -> exists a, In a l1 /\ R a b.
Proof.
  induction 1 as [|x y l1 l2 Hxy _ IH]; intros Hin; [destruct Hin|].
  destruct Hin as [<-|Hin]; [exists x; split; [now left|exact Hxy]|].
  destruct (IH Hin) as [a [Ha Hr]]. exists a. split; [now right|exact Hr].
Qed.
Lemma flat_map_nil_in {X Y} (f : X -> list Y) l x : flat_map f l = [] -> In x l -> f x = [].
Proof.
  induction l as [|a l IH]; intros H Hin; [destruct Hin|]. cbn [flat_map] in H. apply app_eq_nil in H as [H1 H2].
  destruct Hin as [<-|Hin]; [exact H1|now apply IH].
Qed.

(* ---------- the whole file ---------- *)
Section ZoomRead.
Variables (fp : fpmode) (o : opts) (sizes : list (name * N)) (inp : list item).
Variables (ids : idmap) (outs : list chrom_out) (sum : summary) (data : list sdata).
Variables (zoom_part : N -> N -> res (list N * list zoom_header)) (dco : N -> N) (bs : list N) (p : file_parts).
Variable zooms : list zoom_level.
Hypothesis Hcol : bw_collect fp o sizes inp = Ok (ids, outs, sum, data).
Hypothesis HA : assembled o BIGWIG_MAGIC sizes ids sum data bw_pre 0 0 0 zoom_part dco bs p.
Hypothesis Hopts : opts_ok o.
Hypothesis Hinp : input_ok sizes inp.
Hypothesis Hsize : Nlen bs < U64.
(* what the zoom part guarantees (both writers: ZoomReadRegions) *)
Hypothesis Hlv : Forall (level_at o bs zooms) (fp_zhdrs p).
Hypothesis Hzs : forall z, In z zooms -> 1 <= zl_res z /\ level_secs fp o outs (zl_res z) = Ok (zl_secs z).
Hypothesis Hzok : Forall zh_ok (fp_zhdrs p).

Lemma zr_outs_ok : Forall chrom_ok32 outs.
Proof.
  destruct (core_runs _ _ _ _ _ _ _ _ Hcol) as (_ & HF & _).
  pose proof (core_outs_ok _ _ _ _ _ _ _ _ bs Hcol Hinp Hsize) as Hok.
  destruct Hinp as (_ & _ & Hsz & _).
  apply Forall_forall. intros c Hc. rewrite Forall_forall in Hok. destruct (Hok c Hc) as [Hid _].
  destruct (Forall2_in_r _ _ _ _ HF Hc) as [r [_ (_ & Hv & Hl & Hk)]].
  split; [exact Hid|]. split; [eapply lookup_range; eauto|]. rewrite Hv. now apply check_chrom_wf.
Qed.

Theorem core_zoom_query (infl : list N -> list N) i c vs s e r :
  read_info bs = Ok i -> In (c, vs) (runs inp) -> In r (map zh_res (i_zooms i)) ->
  exists c0, In c0 outs /\ co_name c0 = c /\ co_vals c0 = vs /\ 1 <= r
    /\ chrom_id i c = Ok (co_id c0)
    /\ zoom_interval infl bs i c s e r
       = Ok (map (zrec_read fp) (filter (ztouch s e) (concat (zs_out (zst fp (o_ips o) r c0))))).
Proof.
  intros Hri Hin Hr.
  destruct (core_read_info _ _ _ _ _ _ _ _ _ _ _ _ Hcol HA Hinp Hsize) as [zs [Hri' [_ Hzs']]].
  rewrite (Hzs' Hzok) in Hri'. rewrite Hri' in Hri. apply Ok_inj in Hri. subst i. cbn [i_zooms] in Hr.
  destruct (core_runs _ _ _ _ _ _ _ _ Hcol) as (Eids & HF & Eouts).
  pose proof (collect_grouped _ _ _ _ _ Hcol) as Hnd. destruct Hopts as (Hb & Hi).
  destruct (Forall2_in_l _ _ _ _ HF Hin) as [c0 [Hc0 (Hn0 & Hv0 & Hl0 & Hk0)]]. cbn [fst snd] in *.
  pose proof (core_out_in _ _ _ _ _ _ _ _ Hcol c0 Hc0) as Hid. rewrite Hn0 in Hid.
  destruct (find_in_map zh_res r (fp_zhdrs p) Hr) as [zh [Hfind [Hzh Hres]]].
  rewrite Forall_forall in Hlv. destruct (Hlv zh Hzh) as (z & ix & lv & Hz & Hzres & Hidx & Hw & Hdat & Hixat).
  destruct (Hzs z Hz) as [Hpos Hsecs]. rewrite Hzres, Hres in Hpos, Hsecs.
  pose proof (level_secs_inv fp o r Hpos outs _ Hsecs) as Henc.
  pose proof zr_outs_ok as Houts. pose proof (core_ids_sorted _ _ _ _ _ _ _ _ Hcol) as Hids.
  assert (Hcid : chrom_id {| i_hdr := core_header data p; i_zooms := fp_zhdrs p;
                            i_chroms := map (ci_of sizes) (number 0 (map fst (runs inp))) |} c = Ok (co_id c0)).
  { unfold chrom_id. cbn [i_chroms]. rewrite (find_chrom sizes (map fst (runs inp)) 0 c (co_id c0) Hnd Hid). reflexivity. }
  exists c0. split; [exact Hc0|]. split; [exact Hn0|]. split; [exact Hv0|]. split; [exact Hpos|]. split; [exact Hcid|].
  unfold zoom_interval. cbn [i_zooms i_hdr]. rewrite Hfind.
  change (h_big (core_header data p)) with false.
  destruct (write_index_inv _ _ _ _ _ _ Hw) as [t [body [_ Eix]]].
  pose proof Hixat as Hixat'. rewrite Eix in Hixat'. rewrite (cir_tree_root_ok bs _ _ _ _ _ _ _ Hixat'). cbn [rbind].
  rewrite Hcid. cbn [rbind].
  set (rsecs := level_rsecs fp (o_ips o) r outs) in *.
  rewrite <- (level_filter_chrom fp (o_ips o) r outs Hpos Houts Hids c0 s e Hc0). fold rsecs.
  pose proof (has_at_bound _ _ _ Hixat) as Hixend.
  assert (Hcase : zl_secs z = [] \/ zl_secs z <> []) by (destruct (zl_secs z); [now left|right; discriminate]).
  destruct Hcase as [Esds|Hne0].
  - (* a level without records: the index is the empty leaf *)
    assert (Ers : rsecs = []).
    { apply mapM_len in Henc. rewrite Esds in Henc. cbn [length] in Henc. destruct rsecs; [reflexivity|discriminate]. }
    rewrite Esds in Hw. cbn [place] in Hw. rewrite write_index_nil in Hw by lia. apply Ok_inj in Hw. apply (f_equal fst) in Hw. cbn [fst] in Hw.
    clear Eix Hixat' Hixend. subst ix.
    unfold search_blocks. cbn [i_hdr]. change (h_big (core_header data p)) with false.
    rewrite (search_empty_index bs (zh_index zh) _ _ _ _ _ (co_id c0) s e (S (length bs)) Hixat).
    + rewrite Ers. reflexivity.
    + apply has_at_bound in Hixat. unfold Nlen in Hixat. rewrite app_length in Hixat. cbn [length] in Hixat. lia.
  - assert (Hne : place (zh_data zh) (zl_secs z) <> []).
    { intros E. apply place_nil_iff in E. contradiction. }
    pose proof (has_at_bound _ _ _ Hdat) as Hdend.
    destruct (zoom_query_complete fp (o_bs o) (o_ips o) (zh_data zh) (zh_index zh) rsecs (zl_secs z)
                (level_sec_ok fp (o_ips o) r outs Hpos Houts) Henc Hb Hne
                (level_sorted fp (o_ips o) r outs Hpos Houts Hids (zl_secs z) (zh_data zh) Henc)
                (zoom_placed_ok fp (Nlen bs) Hsize rsecs (zl_secs z) (zh_data zh) Henc
                   (level_recs_u32 fp (o_ips o) r outs Hpos Houts) Hdend))
      as [ix' [lv' [Hw' Hq]]].
    rewrite Hw in Hw'. apply Ok_inj in Hw'. injection Hw' as <- <-.
    destruct Hixat as [A [B [EB LA]]].
    assert (LA' : Nlen A = zh_index zh) by (unfold Nlen; rewrite LA; apply N2Nat.id).
    specialize (Hq ltac:(unfold U64 in *; lia) A B (co_id c0) s e (S (length bs)) LA'
                   ltac:(rewrite EB, !app_length; lia)).
    cbv zeta in Hq. destruct Hq as (Hsearch & Hflat & _). rewrite <- EB in Hsearch.
    unfold search_blocks. cbn [i_hdr]. change (h_big (core_header data p)) with false.
    rewrite Hsearch. cbn [rbind].
    rewrite (collect_zoom_sections infl {| i_hdr := core_header data p; i_zooms := fp_zhdrs p;
                 i_chroms := map (ci_of sizes) (number 0 (map fst (runs inp))) |} bs eq_refl eq_refl fp (co_id c0) s e).
    + rewrite Hflat. reflexivity.
    + pose proof (zoom_placed_slices fp bs rsecs (zl_secs z) (zh_data zh) Henc Hdat) as Hsl.
      pose proof (level_recs_u32 fp (o_ips o) r outs Hpos Houts) as Hu. fold rsecs in Hu.
      apply Forall_forall. intros q Hq. apply filter_In in Hq as [Hq _]. rewrite Forall_forall in Hsl, Hu.
      split; [exact (Hsl q Hq)|]. apply Hu. destruct q as [a b']. eapply in_combine_l. exact Hq.
Qed.
End ZoomRead.

(* ---------- both writers ---------- *)
(* the statement, for a written file [bs] *)
Definition zoom_read_for (fp : fpmode) (o : opts) (sizes : list (name * N)) (inp : list item) (bs : list N) : Prop :=
  exists i, read_info bs = Ok i /\
    forall (infl : list N -> list N) r c vs s e, In r (map zh_res (i_zooms i)) -> In (c, vs) (runs inp) ->
      exists id len st, chrom_id i c = Ok id /\ 1 <= r
        /\ lookup c sizes = Some len /\ wf_vals len vs
        /\ zoom_chrom fp (o_ips o) r id vs zstate0 = Ok st
        /\ zoom_interval infl bs i c s e r
           = Ok (map (zrec_read fp) (filter (ztouch s e) (concat (zs_out st)))).

(* what a zoom part must guarantee *)
Definition zoom_part_ok (fp : fpmode) (o : opts) (outs : list chrom_out)
           (zoom_part : N -> N -> res (list N * list zoom_header)) : Prop :=
  forall ds zp zb zh img, zoom_part ds zp = Ok (zb, zh) -> has_at img zp zb ->
    Nlen zh <= 10 /\ Forall (hdr_in zp (zp + Nlen zb)) zh /\ Forall (fun h => zh_res h < U32) zh
    /\ exists zooms, Forall (level_at o img zooms) zh
         /\ forall z, In z zooms -> 1 <= zl_res z /\ level_secs fp o outs (zl_res z) = Ok (zl_secs z).

Lemma zoom_read_of_assemble fp o sizes inp ids outs sum data zoom_part dco bs :
  bw_collect fp o sizes inp = Ok (ids, outs, sum, data) ->
  assemble o BIGWIG_MAGIC sizes ids sum data bw_pre 0 0 0 zoom_part dco = Ok bs ->
  zoom_part_ok fp o outs zoom_part ->
  opts_ok o -> input_ok sizes inp -> Nlen bs < U64 -> zoom_read_for fp o sizes inp bs.
Proof.
  intros Hcol Hasm Hzp Hopts Hinp Hsize.
  assert (Hz10 : forall ds zp zb zh, zoom_part ds zp = Ok (zb, zh) -> Nlen zh <= 10).
  { intros ds zp zb zh E. exact (proj1 (Hzp ds zp zb zh (repeatN 0 (N.to_nat zp) ++ zb) E
      ltac:(rewrite <- (app_nil_r zb) at 1; apply has_at_intro; rewrite Nlen_repeatN; apply N2Nat.id))). }
  destruct (assemble_roundtrip _ _ _ _ _ _ _ _ _ _ _ Hcol Hasm Hz10 Hopts Hinp Hsize)
    as (p & i & HA & Hri & _ & _ & _ & _ & _).
  pose proof (zooms_end_in_file o sizes bs _ _ _ _ _ _ HA) as Hend.
  pose proof (asm_zooms _ _ _ _ _ _ _ _ _ _ _ _ _ _ HA) as Hzat.
  pose proof HA as (_ & _ & Hpart & _).
  destruct (Hzp _ _ _ _ bs Hpart Hzat) as (_ & Hb & Hu & zooms & Hlv & Hzs).
  assert (Hok : Forall zh_ok (fp_zhdrs p)).
  { apply Forall_forall. intros h Hh. rewrite Forall_forall in Hb, Hu. destruct (Hb h Hh) as [A [B C]].
    unfold zh_ok. split; [exact (Hu h Hh)|]. lia. }
  exists i. split; [exact Hri|]. intros infl r c vs s e Hr Hin.
  destruct (core_zoom_query fp o sizes inp ids outs sum data zoom_part dco bs p zooms Hcol HA Hopts Hinp Hsize Hlv Hzs Hok
              infl i c vs s e r Hri Hin Hr) as (c0 & Hc0 & Hn0 & Hv0 & Hpos & Hcid & Hq).
  destruct (collect_accepted _ _ _ _ _ _ _ _ c vs Hcol Hin) as (len & Hl & Hwf & _).
  exists (co_id c0), len, (zst fp (o_ips o) r c0). split; [exact Hcid|]. split; [exact Hpos|].
  split; [exact Hl|]. split; [exact Hwf|]. split; [|exact Hq].
  rewrite <- Hv0. apply zst_run. exact Hpos.
Qed.

Lemma single_part_ok fp o outs zooms : Forall (fun z => z < U32) (zoom_sizes_single o) ->
  zoom_levels_for fp o outs (zoom_sizes_single o) = Ok zooms -> zoom_part_ok fp o outs (single_zoom_part fp o outs zooms).
Proof.
  intros Hu Hz ds zp zb zh img Hw Hat. unfold single_zoom_part in Hw.
  change (zoom_levels_for fp o outs (zoom_sizes_single o)) with (build_levels fp o outs (zoom_sizes_single o)) in Hz.
  destruct (wzl_bounds _ _ _ _ _ _ _ _ Hw) as [Hb Hincl]. rewrite (build_levels_res _ _ _ _ _ Hz) in Hincl.
  split; [exact (single_zoom_bound fp o outs zooms Hz ds zp zb zh Hw)|]. split; [exact Hb|]. split.
  - apply Forall_forall. intros h Hh. rewrite Forall_forall in Hu. apply Hu, Hincl. now apply in_map.
  - exists zooms. split; [exact (wzl_regions o ds img zooms zp None 0 zb zh Hw Hat)|].
    intros z Hin. destruct (build_levels_in fp o outs _ zooms z Hz Hin) as [Hs Hl]. split; [|exact Hl].
    pose proof (inc_from_pos _ _ _ (zoom_sizes_single_inc o) Hs). lia.
Qed.

Lemma multi_part_ok fp o outs sum : manual_u32 o -> zoom_part_ok fp o outs (multi_zoom_part fp o outs sum).
Proof.
  intros Hu ds zp zb zh img Hw Hat. pose proof (multi_zoom_bound fp o outs sum ds zp zb zh Hw) as H10.
  unfold multi_zoom_part in Hw. cbv zeta in Hw.
  change (zoom_levels_for fp o outs) with (build_levels fp o outs) in Hw.
  destruct (build_levels fp o outs _) as [zooms| | |] eqn:Hz; try discriminate. cbn [rbind] in Hw.
  destruct (levels_increasing_two_pass fp o outs sum _ _ zooms _ _ Hz Hw) as [Hres [Hinc _]].
  split; [exact H10|]. split; [exact (w2p_bounds _ _ _ _ _ Hw)|]. split.
  - pose proof (two_pass_sizes_u32 o sum (total_zoom_counts outs) ds Hu) as Hall. rewrite <- Hres in Hall.
    apply Forall_forall. intros h Hh. rewrite Forall_forall in Hall. apply Hall. now apply in_map.
  - exists zooms. split; [exact (w2p_regions o img zooms zp zb zh Hw Hat)|].
    intros z Hin. destruct (build_levels_in fp o outs _ zooms z Hz Hin) as [Hs Hl]. split; [|exact Hl].
    pose proof (inc_from_pos _ _ _ (zoom_sizes_two_pass_inc o sum outs ds) Hs). lia.
Qed.

Theorem file_zoom_query_single fp o sizes inp bs :
  opts_ok o -> input_ok sizes inp -> Nlen bs < U64 -> Forall (fun z => z < U32) (zoom_sizes_single o) ->
  bw_write fp o sizes inp = Ok bs -> zoom_read_for fp o sizes inp bs.
Proof.
  intros Hopts Hinp Hsize Hu H.
  destruct (bw_write_inv fp o sizes inp bs H) as (ids & outs & sum & data & zooms & Hcol & Hz & Hasm).
  exact (zoom_read_of_assemble _ _ _ _ _ _ _ _ _ _ _ Hcol Hasm (single_part_ok fp o outs zooms Hu Hz) Hopts Hinp Hsize).
Qed.

Theorem file_zoom_query_two_pass fp o sizes inp bs :
  opts_ok o -> input_ok sizes inp -> Nlen bs < U64 -> manual_u32 o ->
  bw_write_multipass fp o sizes inp = Ok bs -> zoom_read_for fp o sizes inp bs.
Proof.
  intros Hopts Hinp Hsize Hu H.
  destruct (bw_write_multipass_inv fp o sizes inp bs H) as (ids & outs & sum & data & Hcol & Hasm).
  exact (zoom_read_of_assemble _ _ _ _ _ _ _ _ _ _ _ Hcol Hasm (multi_part_ok fp o outs sum Hu) Hopts Hinp Hsize).
Qed.

(* ---------- corollary: completeness, soundness, order ---------- *)
Lemma ztouch_of_meet s e z : s < z_end z -> z_start z < e -> ztouch s e z = true.
Proof. intros H1 H2. unfold ztouch. apply andb_true_iff. split; apply N.leb_le; lia. Qed.

Theorem zoom_answer_complete fp s e (R : list zrec) :
  let ans := map (zrec_read fp) (filter (ztouch s e) R) in
  (* every record meeting the range is returned (with its statistics narrowed to f32) *)
  (forall z, In z R -> s < z_end z -> z_start z < e -> In (zrec_read fp z) ans)
  (* nothing else: every returned record is the narrowing of a record of this chromosome's list that
     touches the range *)
  /\ (forall z', In z' ans -> exists z, In z R /\ z' = zrec_read fp z /\ s <= z_end z /\ z_start z <= e)
  (* in the order of the list, spans unchanged *)
  /\ map (fun z => (z_chrom z, z_start z, z_end z, cov z)) ans
     = map (fun z => (z_chrom z, z_start z, z_end z, cov z)) (filter (ztouch s e) R).
Proof.
  cbv zeta. split; [|split].
  - intros z Hin H1 H2. apply in_map. apply filter_In. split; [exact Hin|now apply ztouch_of_meet].
  - intros z' Hin. apply in_map_iff in Hin as [z [<- Hz]]. apply filter_In in Hz as [Hz Ht].
    exists z. split; [exact Hz|]. split; [reflexivity|]. unfold ztouch in Ht. apply andb_true_iff in Ht as [H1 H2].
    apply N.leb_le in H1, H2. split; assumption.
  - rewrite map_map. reflexivity.
Qed.

(* ---------- minimum and maximum are read back exactly ---------- *)
Lemma fmin_pick a b : fmin a b = a \/ fmin a b = b.
Proof. unfold fmin. destruct (fcmp a b) as [[| |]|]; auto. destruct a; auto. Qed.
Lemma fmax_pick a b : fmax a b = a \/ fmax a b = b.
Proof. unfold fmax. destruct (fcmp a b) as [[| |]|]; auto. destruct a; auto. Qed.
Lemma fold_pick (f : fl -> fl -> fl) : (forall a b, f a b = a \/ f a b = b) -> forall (cs : list piece) x,
  fold_left (fun m p => f m (p_val p)) cs x = x \/ In (fold_left (fun m p => f m (p_val p)) cs x) (map p_val cs).
Proof.
  intros Hf. induction cs as [|p cs IH]; intros x; [now left|]. cbn [fold_left map].
  destruct (IH (f x (p_val p))) as [E|Hin]; [|right; now right].
  rewrite E. destruct (Hf x (p_val p)) as [-> | ->]; [now left|right; now left].
Qed.

(* the minimum and the maximum of a record are the values of stored values, hence f32 values: the
   reader returns them unchanged (IEEE and exact arithmetic) *)
Theorem zoom_minmax_read fp ips size chrom len vals st : fp = ieee \/ fp = exact ->
  1 <= size -> wf_vals len vals -> Forall (fun v => v_bits v < U32) vals ->
  zoom_chrom fp ips size chrom vals zstate0 = Ok st ->
  Forall (fun r => su_min (z_sum (zrec_read fp r)) = su_min (z_sum r)
                   /\ su_max (z_sum (zrec_read fp r)) = su_max (z_sum r)
                   /\ exists v w, In v vals /\ In w vals /\ su_min (z_sum r) = v_val v /\ su_max (z_sum r) = v_val w)
         (concat (zs_out st)).
Proof.
  intros Hfp Hs Hwf Hbits Hrun. pose proof (zoom_stats fp ips size chrom len vals st Hs Hwf Hrun) as Hst.
  eapply Forall_impl; [|exact Hst]. cbv beta zeta. intros r [_ Hso]. unfold stats_of in Hso.
  destruct (contribs (z_start r) (z_end r) vals) as [|p0 ps] eqn:Ec; [contradiction|].
  destruct Hso as (_ & _ & Hmin & Hmax & _).
  assert (Hval : forall x, In x (map p_val (p0 :: ps)) -> exists v, In v vals /\ x = v_val v).
  { intros x Hx. apply in_map_iff in Hx as [p [<- Hp]]. rewrite <- Ec in Hp. apply contribs_spec in Hp as [v [Hv [-> _]]].
    exists v. split; [exact Hv|reflexivity]. }
  assert (Hmn : exists v, In v vals /\ su_min (z_sum r) = v_val v).
  { rewrite Hmin. destruct (fold_pick fmin fmin_pick (p0 :: ps) (p_val p0)) as [E|Hin].
    - rewrite E. apply Hval. now left.
    - apply Hval. exact Hin. }
  assert (Hmx : exists v, In v vals /\ su_max (z_sum r) = v_val v).
  { rewrite Hmax. destruct (fold_pick fmax fmax_pick (p0 :: ps) (p_val p0)) as [E|Hin].
    - rewrite E. apply Hval. now left.
    - apply Hval. exact Hin. }
  destruct Hmn as [v [Hv Ev]]. destruct Hmx as [w [Hw Ew]]. rewrite Forall_forall in Hbits.
  cbn [zrec_read z_sum su_min su_max]. rewrite Ev, Ew. unfold v_val.
  rewrite !(stat_read_f32 fp _ Hfp) by (apply Hbits; assumption).
  split; [reflexivity|]. split; [reflexivity|]. exists v, w. repeat split; assumption.
Qed.
