(* C09, bigBed, part 1: one data block of the bigBed writer model as the independent decoder sees it.
   The bytes encode_section (bigbedwrite.rs) writes for a non-empty list of accepted entries
   (chromId, start, end, rest, NUL per entry) are parsed by the decoder's [parse_bed_items] into exactly
   those entries, and [data_block] (bigBed branch) accepts the block: 1..itemsPerSlot records, all of
   the leaf's chromosome, start <= end, start inside the chromosome, every record inside the span the
   leaf records ([first start, LARGEST end]).  Unlike the reader model (K2), the decoder has no
   padding rule, so an entry [0,0) needs no exclusion here. *)
From Coq Require Import Sorting.Sorted.
From BT Require Import Base.Util Base.LE Base.Float Generated.Consts Model.RTree Model.BBIFile Model.BigWigWrite Model.BigWigWriteZ
  Model.BigBedWrite Proofs.RTreeCodec Proofs.FileRegions
  Spec.FormatDecode Proofs.C09Base Proofs.C09Codec Proofs.C09Chrom Proofs.C09RTree Proofs.C09Data.
From BT Require Proofs.BedQuery Proofs.BedImage.
Local Open Scope N_scope.

(* what the decoder returns for an entry of chromosome [chrom] *)
Definition brec_of (chrom : N) (x : entry) : frec :=
  {| fr_chrom := chrom; fr_start := e_start x; fr_end := e_end x; fr_rest := e_rest x |}.

(* an entry fits its record: 32-bit coordinates, no NUL inside the rest-of-line *)
Definition bentry_ok (x : entry) : Prop :=
  e_start x < W32 /\ e_end x < W32 /\ Forall (fun b => b <> 0) (e_rest x).

Lemma fd_split_nul_app : forall rest tail, Forall (fun b => b <> 0) rest ->
  split_nul (rest ++ 0 :: tail) = Some (rest, tail).
Proof.
  induction 1 as [|b r Hb _ IH]; cbn [app split_nul]; [reflexivity|].
  destruct b as [|p]; [congruence|]. rewrite IH. reflexivity.
Qed.

Lemma entry_bytes_length chrom x : length (entry_bytes chrom x) = (13 + length (e_rest x))%nat.
Proof. unfold entry_bytes, u32. rewrite !app_length, !enc_le_length. cbn [length]. lia. Qed.

Lemma skipn_add {X} (a b : nat) (l : list X) : skipn (a + b) l = skipn b (skipn a l).
Proof.
  revert l. induction a as [|a IH]; intros l; [reflexivity|].
  destruct l as [|x l]; [cbn [Nat.add skipn]; now rewrite skipn_nil|]. cbn [Nat.add skipn]. apply IH.
Qed.

Lemma parse_bed_items_S big f d : d <> [] ->
  parse_bed_items big (S f) d =
  (check (12 <=? Nlen d) in
   let? (rest, more) := split_nul (skipn 12 d) in
   let? rs := parse_bed_items big f more in
   Some ({| fr_chrom := fld big d 0 4; fr_start := fld big d 4 4; fr_end := fld big d 8 4; fr_rest := rest |} :: rs)).
Proof. destruct d; [congruence|reflexivity]. Qed.

Lemma parse_bed_items_ok chrom : chrom < W32 -> forall items fuel, Forall bentry_ok items ->
  (length (flat_map (entry_bytes chrom) items) <= fuel)%nat ->
  parse_bed_items false fuel (flat_map (entry_bytes chrom) items) = Some (map (brec_of chrom) items).
Proof.
  intros Hc. induction items as [|x items IH]; intros fuel Hok Hf.
  - destruct fuel; reflexivity.
  - inversion Hok as [|? ? (Hs & He & Hn) Hok']; subst. cbn [flat_map map] in *.
    rewrite app_length, entry_bytes_length in Hf.
    destruct fuel as [|fuel]; [exfalso; lia|].
    set (tail := flat_map (entry_bytes chrom) items) in *.
    assert (Ed : entry_bytes chrom x ++ tail
                 = enc_le 4 chrom ++ enc_le 4 (e_start x) ++ enc_le 4 (e_end x) ++ (e_rest x ++ 0 :: tail)).
    { unfold entry_bytes, u32. rewrite <- !app_assoc. reflexivity. }
    rewrite Ed. set (d := enc_le 4 chrom ++ enc_le 4 (e_start x) ++ enc_le 4 (e_end x) ++ (e_rest x ++ 0 :: tail)).
    assert (Hlen : (12 <= length d)%nat) by (unfold d; rewrite !app_length, !enc_le_length; lia).
    assert (Hsk : skipn 12 d = e_rest x ++ 0 :: tail).
    { unfold d. change 12%nat with (4 + (4 + 4))%nat. rewrite !skipn_add, !skipn_enc_app. reflexivity. }
    assert (F0 : fld false d 0 4 = chrom) by (unfold d; apply fld_enc; exact Hc).
    assert (F1 : fld false d 4 4 = e_start x).
    { unfold d. rewrite (fld_skip_enc' false 4 chrom _ 4 0 4 eq_refl). apply fld_enc. exact Hs. }
    assert (F2 : fld false d 8 4 = e_end x).
    { unfold d. rewrite (fld_skip_enc' false 4 chrom _ 8 4 4 eq_refl), (fld_skip_enc' false 4 (e_start x) _ 4 0 4 eq_refl).
      apply fld_enc. exact He. }
    clearbody d. rewrite parse_bed_items_S by (intros E; rewrite E in Hlen; cbn [length] in Hlen; lia).
    rewrite check_true by (apply N.leb_le; unfold Nlen; lia).
    rewrite Hsk, (fd_split_nul_app _ _ Hn). cbn [obind].
    rewrite (IH fuel Hok') by (fold tail; lia). cbn [obind].
    rewrite F0, F1, F2. reflexivity.
Qed.

(* ---------- one data block ---------- *)
Lemma bed_block_ok img n inflate chroms ips (g : N * list entry) s len :
  n = Nlen img -> placed img s (BedImage.sd_of g) -> snd g <> [] -> fst g < W32 -> Forall bentry_ok (snd g) ->
  BedQuery.starts_sorted (snd g) -> Forall (fun x => e_start x <= e_end x /\ e_start x < len) (snd g) ->
  chrom_size chroms (fst g) = Some len -> Nlen (snd g) <= ips ->
  data_block img n false inflate false chroms 0 ips (lf_of s) = Some (map (brec_of (fst g)) (snd g)).
Proof.
  intros Hn Hpl Hne Hid Hok Hsorted Hwf Hcs Hips.
  pose proof (block_bytes_c (fun b => b) false img n inflate 0 s (BedImage.sd_of g) Hn Hpl
                (or_introl (conj eq_refl eq_refl)) ltac:(discriminate)) as Hb.
  destruct Hpl as (_ & _ & Ec & Es & Ee).
  rewrite BedImage.sd_of_chrom in Ec. rewrite BedImage.sd_of_bytes in Hb.
  destruct g as [id items]. cbn [fst snd] in *. destruct items as [|f r] eqn:Ei; [congruence|]. rewrite <- Ei in *.
  assert (Est : s_start s = e_start f) by (rewrite Es, Ei; reflexivity).
  assert (Een : s_end s = max_end f r) by (rewrite Ee, Ei; reflexivity).
  unfold data_block. rewrite Hb. cbn [obind].
  cbn [lf_of fl_off fl_size fl_span fsp p_sc p_sb p_eb sect_span sc sb eb].
  rewrite Ec, Hcs. cbn [obind].
  rewrite (parse_bed_items_ok id Hid items _ Hok (Nat.le_refl _)). cbn [obind].
  rewrite check_true by (rewrite Ei; reflexivity).
  rewrite check_true by (apply N.leb_le; unfold Nlen; rewrite map_length; exact Hips).
  rewrite check_true; [reflexivity|].
  apply forallb_forall. intros y Hy. apply in_map_iff in Hy as [x [<- Hx]]. cbn [brec_of fr_chrom fr_start fr_end].
  rewrite N.eqb_refl, Est, Een. cbn [andb].
  rewrite Ei in Hx, Hsorted, Hwf.
  pose proof (BedQuery.sorted_first_start f r x Hsorted Hx) as H1.
  pose proof (BedQuery.max_end_ge f r x Hx) as H2.
  rewrite Forall_forall in Hwf. pose proof (Hwf x Hx) as H3.
  destruct H3 as [H3 H4].
  rewrite !andb_true_iff. repeat split; apply N.leb_le; lia.
Qed.
