(* Simulation between the FileView model (Model/FileView.v) and the reference cursor machine on
   the isolated byte range, and the read-to-end loop over a view. *)
From BT Require Import Base.Util Model.FileView.
Local Open Scope N_scope.

(* ---------- Nlen ---------- *)

Lemma Nlen_nil : forall X, Nlen (@nil X) = 0.
Proof. reflexivity. Qed.

Lemma Nlen_cons : forall X (x : X) (r : list X), Nlen (x :: r) = Nlen r + 1.
Proof. intros X x r. unfold Nlen. cbn [length]. lia. Qed.

Lemma Nlen_0_nil : forall X (l : list X), Nlen l = 0 -> l = [].
Proof.
  intros X [|x r] H; [reflexivity|].
  rewrite Nlen_cons in H. exfalso; lia.
Qed.

Lemma Nlen_app : forall X (l1 l2 : list X), Nlen (l1 ++ l2) = Nlen l1 + Nlen l2.
Proof. intros X l1 l2. unfold Nlen. rewrite app_length. lia. Qed.

(* ---------- takeN / dropN ---------- *)

Lemma takeN_0 : forall X (l : list X), takeN l 0 = [].
Proof. intros X [|x r]; reflexivity. Qed.

Lemma dropN_0 : forall X (l : list X), dropN l 0 = l.
Proof. intros X [|x r]; reflexivity. Qed.

Lemma takeN_cons_pos : forall X (x : X) r n,
  n <> 0 -> takeN (x :: r) n = x :: takeN r (n - 1).
Proof.
  intros X x r n Hn. cbn [takeN].
  destruct (N.eqb_spec n 0) as [E|E]; [exfalso; lia|].
  now rewrite N.sub_1_r.
Qed.

Lemma dropN_cons_pos : forall X (x : X) r n,
  n <> 0 -> dropN (x :: r) n = dropN r (n - 1).
Proof.
  intros X x r n Hn. cbn [dropN].
  destruct (N.eqb_spec n 0) as [E|E]; [exfalso; lia|].
  now rewrite N.sub_1_r.
Qed.

Lemma Nlen_takeN : forall X (l : list X) n, Nlen (takeN l n) = N.min n (Nlen l).
Proof.
  intros X l. induction l as [|x r IH]; intros n.
  - cbn [takeN]. rewrite Nlen_nil. lia.
  - destruct (N.eq_dec n 0) as [->|Hn].
    + rewrite takeN_0, Nlen_nil. lia.
    + rewrite takeN_cons_pos by exact Hn. rewrite !Nlen_cons, IH. lia.
Qed.

Lemma Nlen_dropN : forall X (l : list X) n, Nlen (dropN l n) = Nlen l - n.
Proof.
  intros X l. induction l as [|x r IH]; intros n.
  - cbn [dropN]. rewrite Nlen_nil. lia.
  - destruct (N.eq_dec n 0) as [->|Hn].
    + rewrite dropN_0. lia.
    + rewrite dropN_cons_pos by exact Hn. rewrite Nlen_cons, IH. lia.
Qed.

Lemma dropN_dropN : forall X (l : list X) a p, dropN (dropN l a) p = dropN l (a + p).
Proof.
  intros X l. induction l as [|x r IH]; intros a p.
  - reflexivity.
  - destruct (N.eq_dec a 0) as [->|Ha].
    + rewrite dropN_0. now rewrite N.add_0_l.
    + rewrite (dropN_cons_pos _ x r a) by exact Ha.
      rewrite (dropN_cons_pos _ x r (a + p)) by lia.
      rewrite IH. f_equal. lia.
Qed.

Lemma dropN_takeN : forall X (l : list X) m p,
  dropN (takeN l m) p = takeN (dropN l p) (m - p).
Proof.
  intros X l. induction l as [|x r IH]; intros m p.
  - reflexivity.
  - destruct (N.eq_dec m 0) as [->|Hm].
    + rewrite takeN_0. replace (0 - p) with 0 by lia. now rewrite takeN_0.
    + rewrite takeN_cons_pos by exact Hm.
      destruct (N.eq_dec p 0) as [->|Hp].
      * rewrite !dropN_0. rewrite N.sub_0_r. now rewrite takeN_cons_pos by exact Hm.
      * rewrite !dropN_cons_pos by exact Hp. rewrite IH. f_equal. lia.
Qed.

Lemma takeN_takeN : forall X (l : list X) m n,
  takeN (takeN l m) n = takeN l (N.min n m).
Proof.
  intros X l. induction l as [|x r IH]; intros m n.
  - reflexivity.
  - destruct (N.eq_dec m 0) as [->|Hm].
    + rewrite takeN_0. replace (N.min n 0) with 0 by lia. now rewrite takeN_0.
    + rewrite takeN_cons_pos by exact Hm.
      destruct (N.eq_dec n 0) as [->|Hn].
      * replace (N.min 0 m) with 0 by lia. now rewrite !takeN_0.
      * rewrite takeN_cons_pos by exact Hn.
        rewrite (takeN_cons_pos _ x r (N.min n m)) by lia.
        rewrite IH. f_equal. f_equal. lia.
Qed.

Lemma takeN_all : forall X (l : list X) n, Nlen l <= n -> takeN l n = l.
Proof.
  intros X l. induction l as [|x r IH]; intros n Hn.
  - reflexivity.
  - rewrite Nlen_cons in Hn.
    rewrite takeN_cons_pos by lia. f_equal. apply IH. lia.
Qed.

Lemma takeN_min_len : forall X (l : list X) n, takeN l n = takeN l (N.min n (Nlen l)).
Proof.
  intros X l n.
  rewrite <- (takeN_all _ l (Nlen l)) at 1 by lia.
  apply takeN_takeN.
Qed.

Lemma takeN_split : forall X (l : list X) k m,
  k <= m -> takeN l m = takeN l k ++ takeN (dropN l k) (m - k).
Proof.
  intros X l. induction l as [|x r IH]; intros k m Hkm.
  - reflexivity.
  - destruct (N.eq_dec k 0) as [->|Hk].
    + rewrite takeN_0, dropN_0, N.sub_0_r. reflexivity.
    + rewrite (takeN_cons_pos _ x r m) by lia.
      rewrite (takeN_cons_pos _ x r k) by exact Hk.
      rewrite dropN_cons_pos by exact Hk.
      cbn [app]. f_equal.
      rewrite (IH (k - 1) (m - 1)) by lia.
      f_equal. f_equal. lia.
Qed.

(* ---------- the isolated range ---------- *)

Lemma Nlen_range : forall (file : list N) a b,
  Nlen (range file a b) = N.min b (Nlen file) - a.
Proof.
  intros file a b. unfold range. rewrite Nlen_takeN, Nlen_dropN. lia.
Qed.

Lemma range_clamp : forall (file : list N) a b,
  range file a b = takeN (dropN file a) (N.min b (Nlen file) - a).
Proof.
  intros file a b. unfold range.
  rewrite (takeN_min_len _ (dropN file a) (b - a)).
  rewrite (takeN_min_len _ (dropN file a) (N.min b (Nlen file) - a)).
  f_equal. rewrite Nlen_dropN. lia.
Qed.

Lemma range_self : forall (l : list N) n, Nlen l <= n -> range l 0 n = l.
Proof.
  intros l n Hn. unfold range. rewrite dropN_0. apply takeN_all. lia.
Qed.

Lemma read_range : forall (file : list N) a b pos n,
  file_read file (a + pos) (N.min n (N.min b (Nlen file) - (a + pos)))
  = takeN (dropN (range file a b) pos) n.
Proof.
  intros file a b pos n. unfold file_read, range.
  rewrite dropN_takeN, dropN_dropN, takeN_takeN.
  set (L := dropN file (a + pos)).
  rewrite (takeN_min_len _ L (N.min n (N.min b (Nlen file) - (a + pos)))).
  rewrite (takeN_min_len _ L (N.min n (b - a - pos))).
  f_equal. unfold L. rewrite Nlen_dropN. lia.
Qed.

(* ---------- constants ---------- *)

Lemma pow63N : 2 ^ 63 = 9223372036854775808.
Proof. reflexivity. Qed.
Lemma pow64N : 2 ^ 64 = 18446744073709551616.
Proof. reflexivity. Qed.
Lemma pow63Z : (2 ^ 63 = 9223372036854775808)%Z.
Proof. reflexivity. Qed.

(* ---------- one step ---------- *)

Definition inv (a e : N) (v : view) (pos : N) : Prop :=
  v_start v = a /\ v_end v = e /\ v_cur v = a + pos /\ pos <= e - a.

Lemma seek_to_ok : forall v t,
  v_start v <= t -> t <= v_end v ->
  seek_to v t = Ok (t - v_start v, {| v_start := v_start v; v_end := v_end v; v_cur := t |}).
Proof.
  intros v t H1 H2. unfold seek_to.
  apply N.leb_le in H1. apply N.leb_le in H2. now rewrite H1, H2.
Qed.

Lemma view_read_ok : forall file v n,
  v_cur v <= v_end v ->
  view_read file v n =
  Ok (file_read file (v_cur v) (N.min n (v_end v - v_cur v)),
      {| v_start := v_start v; v_end := v_end v;
         v_cur := v_cur v + Nlen (file_read file (v_cur v) (N.min n (v_end v - v_cur v))) |}).
Proof.
  intros file v n H. unfold view_read.
  destruct (N.ltb_spec (v_end v) (v_cur v)) as [E|E]; [exfalso; lia|reflexivity].
Qed.

Lemma step_sim : forall (file : list N) a b v pos o,
  a <= b -> a <= Nlen file -> Nlen file < 2 ^ 63 ->
  inv a (N.min b (Nlen file)) v pos ->
  exists v',
    step file v o = Ok (fst (cursor_step (range file a b) pos o), v') /\
    inv a (N.min b (Nlen file)) v' (snd (cursor_step (range file a b) pos o)).
Proof.
  intros file a b v pos o Hab Ha Hlen Hinv.
  rewrite pow63N in Hlen.
  destruct v as [s e c]. unfold inv in *. cbn [v_start v_end v_cur] in *.
  destruct Hinv as (-> & -> & -> & Hpos).
  set (e := N.min b (Nlen file)) in *.
  assert (He : a <= e) by (unfold e; lia).
  assert (Hlen_e : e < 9223372036854775808) by (unfold e; lia).
  destruct o as [n | [k | d | d]].
  - (* Read *)
    unfold step. rewrite view_read_ok by (cbn [v_start v_end v_cur]; lia).
    cbn [v_start v_end v_cur rbind fst snd cursor_step].
    unfold e. rewrite read_range. fold e.
    eexists; split; [reflexivity|].
    cbn [v_start v_end v_cur].
    assert (Hg : Nlen (takeN (dropN (range file a b) pos) n) <= e - a - pos).
    { rewrite Nlen_takeN, Nlen_dropN, Nlen_range. fold e. lia. }
    repeat split; lia.
  - (* Seek Start *)
    unfold step, view_seek, sat_add_u64, u64_max.
    cbn [v_start v_end v_cur]. rewrite pow64N.
    rewrite seek_to_ok by (cbn [v_start v_end v_cur]; lia).
    cbn [v_start v_end v_cur rbind fst snd cursor_step].
    rewrite Nlen_range. fold e.
    eexists; split.
    + f_equal. f_equal. f_equal. lia.
    + cbn [v_start v_end v_cur]. repeat split; lia.
  - (* Seek Current *)
    unfold step, view_seek, sat_add_i64, i64_max, i64_min, clampZ.
    cbn [v_start v_end v_cur]. rewrite pow63Z.
    rewrite seek_to_ok by (cbn [v_start v_end v_cur]; lia).
    cbn [v_start v_end v_cur rbind fst snd cursor_step].
    unfold clampZ. rewrite Nlen_range. fold e.
    eexists; split.
    + f_equal. f_equal. f_equal. lia.
    + cbn [v_start v_end v_cur]. repeat split; lia.
  - (* Seek End *)
    unfold step, view_seek.
    cbn [v_start v_end v_cur].
    rewrite seek_to_ok by (cbn [v_start v_end v_cur]; lia).
    cbn [v_start v_end v_cur rbind fst snd cursor_step].
    unfold clampZ. rewrite Nlen_range. fold e.
    eexists; split.
    + f_equal. f_equal. f_equal. lia.
    + cbn [v_start v_end v_cur]. repeat split; lia.
Qed.

(* ---------- runs ---------- *)

Lemma run_sim : forall (file : list N) a b ops v pos,
  a <= b -> a <= Nlen file -> Nlen file < 2 ^ 63 ->
  inv a (N.min b (Nlen file)) v pos ->
  run file v ops = cursor_run (range file a b) pos ops.
Proof.
  intros file a b ops. induction ops as [|o r IH]; intros v pos Hab Ha Hlen Hinv.
  - reflexivity.
  - cbn [run cursor_run].
    destruct (step_sim file a b v pos o Hab Ha Hlen Hinv) as (v' & Hs & Hi).
    rewrite Hs.
    destruct (cursor_step (range file a b) pos o) as [out pos'].
    cbn [fst snd] in *. f_equal. apply IH; assumption.
Qed.

Lemma view_new_ok : forall (file : list N) a b,
  a <= Nlen file -> Nlen file < 2 ^ 63 ->
  view_new (Nlen file) a b =
  Ok {| v_start := a; v_end := N.min b (Nlen file); v_cur := a |}.
Proof.
  intros file a b Ha Hlen. unfold view_new, two63.
  destruct (N.leb_spec (2 ^ 63) a) as [E|E]; [exfalso; lia|reflexivity].
Qed.

Lemma inv_init : forall a e, a <= e ->
  inv a e {| v_start := a; v_end := e; v_cur := a |} 0.
Proof. intros a e H. unfold inv. cbn [v_start v_end v_cur]. repeat split; lia. Qed.

Lemma view_eq_cursor : forall (file : list N) (a b : N) (ops : list op),
  a <= b -> a <= Nlen file -> Nlen file < 2 ^ 63 ->
  run_view file a b ops = cursor_run (range file a b) 0 ops.
Proof.
  intros file a b ops Hab Ha Hlen.
  unfold run_view. rewrite view_new_ok by assumption.
  apply run_sim; try assumption.
  apply inv_init. lia.
Qed.

Lemma view_translation : forall (file : list N) (a b : N) (ops : list op),
  a <= b -> a <= Nlen file -> Nlen file < 2 ^ 63 ->
  run_view file a b ops = run_view (range file a b) 0 (b - a) ops.
Proof.
  intros file a b ops Hab Ha Hlen.
  rewrite (view_eq_cursor file a b ops Hab Ha Hlen).
  assert (Hr : Nlen (range file a b) <= b - a) by (rewrite Nlen_range; lia).
  rewrite (view_eq_cursor (range file a b) 0 (b - a) ops).
  - now rewrite range_self by exact Hr.
  - lia.
  - lia.
  - rewrite Nlen_range. lia.
Qed.

(* ---------- the read-to-end loop ---------- *)

Lemma read_all_S : forall fuel (file : list N) v bufsize,
  read_all (S fuel) file v bufsize =
  (do r <- view_read file v bufsize;
   match fst r with
   | [] => Ok []
   | got => do rest <- read_all fuel file (snd r) bufsize; Ok (got ++ rest)
   end).
Proof. reflexivity. Qed.

Lemma read_all_rest : forall (file : list N) bufsize fuel v,
  1 <= bufsize -> v_cur v <= v_end v ->
  (N.to_nat (Nlen (takeN (dropN file (v_cur v)) (v_end v - v_cur v))) <= fuel)%nat ->
  read_all (S fuel) file v bufsize =
  Ok (takeN (dropN file (v_cur v)) (v_end v - v_cur v)).
Proof.
  intros file bufsize fuel. induction fuel as [|f IH]; intros v Hbuf Hcur Hfuel.
  - (* nothing left *)
    assert (Hz : Nlen (takeN (dropN file (v_cur v)) (v_end v - v_cur v)) = 0) by lia.
    rewrite read_all_S, view_read_ok by exact Hcur.
    cbn [rbind fst snd]. unfold file_read.
    set (L := dropN file (v_cur v)) in *.
    rewrite (Nlen_0_nil _ _ Hz).
    rewrite Nlen_takeN in Hz.
    assert (Hg : takeN L (N.min bufsize (v_end v - v_cur v)) = []).
    { apply Nlen_0_nil. rewrite Nlen_takeN. lia. }
    rewrite Hg. reflexivity.
  - rewrite read_all_S, view_read_ok by exact Hcur.
    cbn [rbind fst snd]. unfold file_read.
    set (L := dropN file (v_cur v)) in *.
    set (m := v_end v - v_cur v) in *.
    set (got := takeN L (N.min bufsize m)).
    assert (Hgl : Nlen got = N.min (N.min bufsize m) (Nlen L)) by (unfold got; apply Nlen_takeN).
    assert (Hgot : got = takeN L (Nlen got)).
    { unfold got at 1. rewrite takeN_min_len. now rewrite <- Hgl. }
    destruct got as [|x g] eqn:Eg.
    + (* empty read: the window or the file is exhausted *)
      f_equal. symmetry. apply Nlen_0_nil. rewrite Nlen_takeN. rewrite Nlen_nil in Hgl. lia.
    + rewrite <- Eg in *.
      assert (Hpos : 1 <= Nlen got) by (rewrite Eg, Nlen_cons; lia).
      set (v' := {| v_start := v_start v; v_end := v_end v; v_cur := v_cur v + Nlen got |}).
      assert (Hrest : read_all (S f) file v' bufsize =
                      Ok (takeN (dropN L (Nlen got)) (m - Nlen got))).
      { rewrite IH.
        - unfold v'. cbn [v_start v_end v_cur]. unfold L, m.
          rewrite dropN_dropN. f_equal. f_equal. lia.
        - exact Hbuf.
        - unfold v'. cbn [v_start v_end v_cur]. unfold m in Hgl. lia.
        - unfold v'. cbn [v_start v_end v_cur].
          rewrite Nlen_takeN, Nlen_dropN.
          rewrite Nlen_takeN in Hfuel. fold L in Hfuel. fold m in Hfuel.
          unfold L in Hgl. rewrite Nlen_dropN in Hgl. unfold L in Hfuel.
          rewrite Nlen_dropN in Hfuel. unfold m in *. lia. }
      rewrite Hrest. cbn [rbind].
      rewrite (takeN_split _ L (Nlen got) m) by lia.
      rewrite <- Hgot. reflexivity.
Qed.

(* a BufReader-style loop over the view delivers exactly the byte range, in order *)
Lemma view_read_all : forall (file : list N) (a b bufsize : N) (v : view),
  a <= b -> a <= Nlen file -> Nlen file < 2 ^ 63 -> 1 <= bufsize ->
  view_new (Nlen file) a b = Ok v ->
  exists fuel, read_all fuel file v bufsize = Ok (range file a b).
Proof.
  intros file a b bufsize v Hab Ha Hlen Hbuf Hnew.
  rewrite view_new_ok in Hnew by assumption.
  injection Hnew as <-.
  eexists (S _).
  rewrite read_all_rest.
  - cbn [v_start v_end v_cur]. now rewrite range_clamp.
  - exact Hbuf.
  - cbn [v_start v_end v_cur]. lia.
  - apply Nat.le_refl.
Qed.
