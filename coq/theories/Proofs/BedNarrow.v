(* C04: narrowing a range query on a written bigBed = filtering the wider answer again
   (corollary of written_file_query). *)
From Coq Require Import Sorting.Sorted.
From BT Require Import Base.Util Base.Float Model.RTree Model.BBIFile Model.BigWigWrite Model.BBIRead Model.CachedRead
  Model.BigBedWrite Model.BBIReadBed Proofs.Chunks Proofs.RTreeCodec Proofs.BedQuery Proofs.BedCached Proofs.BedEndToEnd Proofs.BedZoomFit.
Local Open Scope N_scope.

Lemma bkeep_widen : forall s e s' e' x, s' <= s -> e <= e' -> bkeep s e x = true -> bkeep s' e' x = true.
Proof.
  intros s e s' e' x H1 H2. unfold bkeep. intros H. apply andb_prop in H. destruct H as [Ha Hb].
  apply N.leb_le in Ha. apply N.leb_le in Hb. apply andb_true_intro. split; apply N.leb_le; lia.
Qed.

Lemma filter_bkeep_narrow : forall s e s' e' (l : list entry), s' <= s -> e <= e' ->
  filter (bkeep s e) l = filter (bkeep s e) (filter (bkeep s' e') l).
Proof.
  intros s e s' e' l H1 H2. induction l as [|x l IH]; [reflexivity|].
  cbn [filter]. destruct (bkeep s e x) eqn:E.
  - rewrite (bkeep_widen _ _ _ _ _ H1 H2 E). cbn [filter]. rewrite E. f_equal. exact IH.
  - destruct (bkeep s' e' x); [cbn [filter]; rewrite E|]; exact IH.
Qed.

Theorem written_file_narrow : forall two_pass fp o sizes autosql input f,
  bb_write_either two_pass fp o sizes autosql input = Ok f -> file_hyps o sizes input f ->
  exists i, read_info f = Ok i /\ forall infl c es s e s' e', In (c, es) (bruns input) ->
    s' <= s -> e <= e' ->
    exists wide, bb_interval infl f i c s' e' = Ok wide
      /\ bb_interval infl f i c s e = Ok (filter (bkeep s e) wide).
Proof.
  intros two_pass fp o sizes autosql input f Hw Hh.
  destruct (written_file_query two_pass fp o sizes autosql input f Hw Hh) as [i [Hi Hq]].
  exists i. split; [exact Hi|]. intros infl c es s e s' e' Hin H1 H2.
  exists (filter (bkeep s' e') es). split; [apply Hq; exact Hin|].
  rewrite (Hq infl c es s e Hin). f_equal. apply filter_bkeep_narrow; assumption.
Qed.
