(* C17: the statistics read base by base.  For a value list the writer accepts (sorted, disjoint):
   "bases" is the number of bases of the region that some stored value covers, and the exact sum is the
   sum over the bases of the region of the value stored there (0 where there is none). *)
From Coq Require Import QArith.
From BT Require Import Base.Util Base.Float Model.RTree Model.BBIFile Model.BigWigWrite Model.BBIRead
  Model.BedStats Proofs.BigWigQuery Proofs.BedStatsThms Proofs.BedStatsFloat Proofs.BedStatsValues.
Local Open Scope N_scope.

(* the bases s, s+1, ..., s+n-1 *)
Fixpoint positions (s : N) (n : nat) : list N :=
  match n with O => [] | S k => s :: positions (s + 1) k end.
Definition region_bases (s e : N) : list N := positions s (N.to_nat (e - s)).
Definition covered_by (vals : list value) (p : N) : bool := existsb (covers p) vals.
Definition covered_count (vals : list value) (s e : N) : nat :=
  length (filter (covered_by vals) (region_bases s e)).

Lemma positions_ge n : forall s p, In p (positions s n) -> s <= p.
Proof.
  induction n as [|n IH]; intros s p H; [destruct H|].
  cbn [positions In] in H. destruct H as [<-|H]; [lia|]. specialize (IH _ _ H). lia.
Qed.

Lemma count_interval a b n : forall s,
  length (filter (fun p => (a <=? p) && (p <? b)) (positions s n)) =
  N.to_nat (N.min b (s + N.of_nat n) - N.max a s).
Proof.
  induction n as [|n IH]; intros s.
  - cbn [positions filter length]. lia.
  - cbn [positions filter]. rewrite Nat2N.inj_succ.
    destruct (a <=? s) eqn:E1; destruct (s <? b) eqn:E2; cbn [andb length]; rewrite IH.
    + apply N.leb_le in E1. apply N.ltb_lt in E2. lia.
    + apply N.leb_le in E1. apply N.ltb_ge in E2. lia.
    + apply N.leb_gt in E1. lia.
    + apply N.leb_gt in E1. lia.
Qed.

Lemma filter_or_exclusive {X} (f g : X -> bool) l : (forall x, In x l -> f x = true -> g x = false) ->
  length (filter (fun x => f x || g x) l) = (length (filter f l) + length (filter g l))%nat.
Proof.
  induction l as [|x l IH]; intros H; [reflexivity|].
  cbn [filter]. specialize (IH (fun y Hy => H y (or_intror Hy))).
  destruct (f x) eqn:Ef.
  - rewrite (H x (or_introl eq_refl) Ef). cbn [orb length]. rewrite IH. reflexivity.
  - cbn [orb]. destruct (g x); cbn [length]; rewrite IH; lia.
Qed.

(* a value after [v] in an accepted list covers nothing [v] covers *)
Lemma wf_exclusive len v r p : wf_vals len (v :: r) -> covers p v = true -> covered_by r p = false.
Proof.
  intros Hwf Hc. pose proof (wf_after_head _ _ _ Hwf) as Ha.
  unfold covers in Hc. apply andb_true_iff in Hc as [_ Hb]. apply N.ltb_lt in Hb.
  clear Hwf. unfold covered_by. induction Ha as [|w r' Hw _ IH]; [reflexivity|].
  cbn [existsb]. rewrite IH. rewrite orb_false_r. unfold covers. apply andb_false_iff. left. apply N.leb_gt. lia.
Qed.

Lemma clip_len s e v : s <= e -> v_start v <= v_end v ->
  (if keep s e v then vlen (clip s e v) else 0) = N.min (v_end v) e - N.max (v_start v) s.
Proof.
  intros Hse Hv. unfold keep, vlen, clip. cbn [v_start v_end].
  destruct (s <? v_end v) eqn:E1; destruct (v_start v <? e) eqn:E2; cbn [andb]; try reflexivity.
  - apply N.ltb_lt in E1. apply N.ltb_ge in E2. lia.
  - apply N.ltb_ge in E1. lia.
  - apply N.ltb_ge in E1. lia.
Qed.

Lemma bases_of_cons s e v r :
  bases_of (clip_filter s e (v :: r)) = (if keep s e v then vlen (clip s e v) else 0) + bases_of (clip_filter s e r).
Proof.
  unfold bases_of, clip_filter. cbn [filter]. destruct (keep s e v); [reflexivity|]. now rewrite N.add_0_l.
Qed.

(* bases = the number of covered bases of the region *)
Theorem bases_per_base : forall len s e vals, wf_vals len vals -> s <= e ->
  bases_of (clip_filter s e vals) = N.of_nat (covered_count vals s e).
Proof.
  intros len s e vals Hwf Hse. unfold covered_count, region_bases.
  induction vals as [|v r IH]; intros.
  - cbn. induction (positions s (N.to_nat (e - s))); [reflexivity|]. cbn [filter]. assumption.
  - rewrite bases_of_cons. rewrite (IH (wf_tail _ _ _ Hwf)).
    rewrite (clip_len s e v Hse (proj1 (wf_head _ _ _ Hwf))).
    change (covered_by (v :: r)) with (fun p => covers p v || covered_by r p).
    rewrite filter_or_exclusive by (intros p _ Hp; eapply wf_exclusive; eassumption).
    unfold covers at 1. rewrite count_interval. lia.
Qed.

(* ------------------------------------------------------------------ the sum, base by base *)
Definition base_val (vals : list value) (p : N) : Q :=
  match find (covers p) vals with Some v => fl_Q (v_val v) | None => 0%Q end.
Fixpoint sum_over (g : N -> Q) (l : list N) : Q :=
  match l with [] => 0%Q | p :: r => (g p + sum_over g r)%Q end.

Lemma sum_over_ext g h l : (forall p, In p l -> (g p == h p)%Q) -> (sum_over g l == sum_over h l)%Q.
Proof.
  induction l as [|p l IH]; intros H; [reflexivity|].
  cbn [sum_over]. rewrite (H p (or_introl eq_refl)). rewrite IH; [reflexivity|]. intros x Hx. apply H. right. exact Hx.
Qed.
Lemma sum_over_plus g h l : (sum_over (fun p => g p + h p) l == sum_over g l + sum_over h l)%Q.
Proof. induction l as [|p l IH]; cbn [sum_over]; [ring|]. rewrite IH. ring. Qed.
Lemma sum_over_indicator (c : N -> bool) (a : Q) l :
  (sum_over (fun p => if c p then a else 0) l == inject_Z (Z.of_nat (length (filter c l))) * a)%Q.
Proof.
  induction l as [|p l IH]; [cbn; ring|].
  cbn [sum_over filter]. rewrite IH. destruct (c p); [|ring].
  cbn [length]. rewrite Nat2Z.inj_succ. unfold Z.succ. rewrite inject_Z_plus. ring.
Qed.

Lemma covered_none vals p : covered_by vals p = false -> find (covers p) vals = None.
Proof.
  unfold covered_by. induction vals as [|v r IH]; [reflexivity|].
  cbn [existsb find]. intros H. apply orb_false_iff in H as [H1 H2]. rewrite H1. exact (IH H2).
Qed.

Lemma sumQ_cons s e v r :
  (sumQ (clip_filter s e (v :: r)) ==
   inject_Z (Z.of_N (if keep s e v then vlen (clip s e v) else 0)) * fl_Q (v_val v) + sumQ (clip_filter s e r))%Q.
Proof.
  unfold clip_filter. cbn [filter]. destruct (keep s e v).
  - cbn [map sumQ]. unfold Qlen. replace (v_val (clip s e v)) with (v_val v) by reflexivity. reflexivity.
  - cbn. ring.
Qed.

(* the exact sum = the sum over the region's bases of the value stored at the base *)
Theorem sum_per_base : forall len s e vals, wf_vals len vals -> s <= e ->
  (sumQ (clip_filter s e vals) == sum_over (base_val vals) (region_bases s e))%Q.
Proof.
  intros len s e vals Hwf Hse. unfold region_bases.
  induction vals as [|v r IH].
  - cbn [clip_filter filter map sumQ]. unfold clip_filter. cbn [filter map sumQ].
    induction (positions s (N.to_nat (e - s))) as [|p l IHl]; [reflexivity|].
    cbn [sum_over]. rewrite <- IHl. unfold base_val. cbn [find]. ring.
  - rewrite sumQ_cons. rewrite (IH (wf_tail _ _ _ Hwf)).
    rewrite (clip_len s e v Hse (proj1 (wf_head _ _ _ Hwf))).
    rewrite (sum_over_ext (base_val (v :: r))
               (fun p => (if covers p v then fl_Q (v_val v) else 0) + base_val r p)%Q).
    + rewrite sum_over_plus. rewrite sum_over_indicator. unfold covers at 1. rewrite count_interval.
      replace (Z.of_nat (N.to_nat (N.min (v_end v) (s + N.of_nat (N.to_nat (e - s))) - N.max (v_start v) s)))
        with (Z.of_N (N.min (v_end v) e - N.max (v_start v) s)) by lia.
      reflexivity.
    + intros p _. unfold base_val at 1. cbn [find]. destruct (covers p v) eqn:Hc.
      * unfold base_val. rewrite (covered_none r p (wf_exclusive len v r p Hwf Hc)). ring.
      * fold (base_val r p). ring.
Qed.

(* C17_stats_per_base: both together, on the exact carrier *)
Theorem stats_per_base : forall len s e vals, wf_vals len vals -> s <= e -> all_finite (clip_filter s e vals) ->
  bases_of (clip_filter s e vals) = N.of_nat (covered_count vals s e) /\
  (fl_Q (sum_of exact (clip_filter s e vals)) == sum_over (base_val vals) (region_bases s e))%Q.
Proof.
  intros len s e vals Hwf Hse Hfin. split; [eapply bases_per_base; eassumption|].
  rewrite (proj2 (sum_exact _ Hfin)). eapply sum_per_base; eassumption.
Qed.

Example per_base_example :
  let vals := [ {| v_start := 0; v_end := 4; v_bits := 1065353216 |}; {| v_start := 6; v_end := 10; v_bits := 1077936128 |} ] in
  wf_vals 20 vals /\ covered_count vals 2 8 = 4%nat /\ all_finite (clip_filter 2 8 vals) /\
  (sum_over (base_val vals) (region_bases 2 8) == 8)%Q.
Proof. split; [repeat constructor; cbn; lia|]. split; [reflexivity|]. split; [repeat constructor|vm_compute; reflexivity]. Qed.
