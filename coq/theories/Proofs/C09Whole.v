(* C09 whole file, part 4: decode (bw_write ...) = Some (content_of ...), both writers. *)
From BT Require Import Base.Util Base.LE Base.Float Generated.Consts Model.RTree Model.BBIFile Model.BigWigWrite Model.BigWigWriteZ
  Proofs.Chunks Proofs.BigWigQuery Proofs.RTreeCodec Proofs.FileRegions
  Proofs.BigWigFile Proofs.BigWigFileData Proofs.BigWigFileRoundTrip Proofs.BigWigFileThms
  Proofs.ZoomBwLevels
  Spec.FormatDecode Proofs.C09Base Proofs.C09Codec Proofs.C09Chrom Proofs.C09RTree Proofs.C09Data Proofs.C09Zoom Proofs.C09File Proofs.C09Levels Proofs.C09BufSize.
From Coq Require Import Sorting.Sorted.
Local Open Scope N_scope.

(* ---------- what the decoder must return ---------- *)
(* the records of one zoom level: per chromosome, what process_val_zoom produced at that resolution *)
Definition level_records (fp : fpmode) (o : opts) (outs : list chrom_out) (size : N) : N * list fzrec :=
  (size, map (zr_view fp) (concat (level_rsecs fp o outs size))).

Definition content_of (fp : fpmode) (o : opts) (sizes : list (name * N)) (ids : idmap) (outs : list chrom_out)
           (sum : summary) (ubuf : N) (kept : list N) : content :=
  {| c_bigwig := true; c_bigendian := false; c_field_count := 0; c_defined_fc := 0; c_autosql := [];
     c_ubuf := ubuf; c_block_size := o_bs o; c_ips := o_ips o;
     c_chroms := map (chrom_view sizes) ids;                          (* (name, id, size) in id order *)
     c_records := recs_of outs;                                       (* every value, in input order *)
     c_blocks := map (fun pc : piece => Nlen (snd pc)) (pieces_of (N.to_nat (o_ips o)) outs);
     c_data_count := Nlen (pieces_of (N.to_nat (o_ips o)) outs);
     c_summary := sum_view_mod sum;                                   (* the folded total summary *)
     c_zooms := map (level_records fp o outs) kept |}.

Lemma inc_from_pos : forall l lo, inc_from lo l -> Forall (fun z => 1 <= z) l.
Proof.
  induction l as [|x l IH]; intros lo H; [constructor|]. destruct H as [H1 H2]. constructor; [lia|]. exact (IH _ H2).
Qed.

Lemma write_zooms_loop_incl o ds : forall zs pos lc zc bytes hdrs,
  write_zooms_loop o ds pos zs lc zc = Ok (bytes, hdrs) -> incl (map zh_res hdrs) (map zl_res zs).
Proof.
  induction zs as [|z rest IH]; intros pos lc zc bytes hdrs H; cbn [write_zooms_loop] in H.
  - apply Ok_inj in H. pose proof (f_equal snd H) as E. cbn [snd] in E. subst hdrs. intros x [].
  - cbn [map]. cbv zeta in H.
    destruct (_ && (ds / 2 <? _)); [apply incl_tl; exact (IH _ _ _ _ _ H)|].
    destruct (_ && match lc with None => false | Some l => _ end); [apply incl_tl; exact (IH _ _ _ _ _ H)|].
    destruct (write_index _ _ _ _) as [[ix lv]| | |]; cbn [rbind] in H; try discriminate.
    destruct (_ && (o_maxzooms o <=? zc + 1)).
    + apply Ok_inj in H. pose proof (f_equal snd H) as E. cbn [snd] in E. subst hdrs. cbn [map zh_res]. intros x [<-|[]]. now left.
    + destruct (write_zooms_loop o ds _ rest _ _) as [[more hs]| | |] eqn:E; cbn [rbind] in H; try discriminate.
      apply Ok_inj in H. pose proof (f_equal snd H) as E2. cbn [snd] in E2. subst hdrs. cbn [map zh_res].
      intros x [<-|Hx]; [now left|right; exact (IH _ _ _ _ _ E x Hx)].
Qed.

(* both writers: everything follows from the assembled parts plus a laid-out zoom part *)
Section FromAssemble.
Variables (fp : fpmode) (o : opts) (sizes : list (name * N)) (inp : list item).
Variables (ids : idmap) (outs : list chrom_out) (sum : summary) (data : list sdata).
Variables (bs : list N) (p : file_parts).
Variables (strict : bool) (inflate : N -> N -> option (list N)).
Variables (compress : list N -> list N) (cz : bool) (ubuf : N).
Hypothesis Hcol : bw_collect fp o sizes inp = Ok (ids, outs, sum, data).
Hypothesis HA : zassembled o sizes ids sum (map (zsec compress cz) data) ubuf bs p.
Hypothesis Hmode : blk_mode cz ubuf.
Hypothesis Hubuf : ubuf < W32.
Hypothesis Hcne : forall b, compress b <> [].
Hypothesis Hinf : cz = true -> inflate_ok compress bs inflate /\ Forall (fun d => Nlen (sd_bytes d) <= ubuf) data.
Hypothesis Hopts : opts_ok o.
Hypothesis Hinp : input_ok sizes inp.
Hypothesis Hsize : Nlen bs < U64.
Hypothesis Hnames : Forall (fun c : name => c <> []) (map fst (runs inp)).
Hypothesis Hstrict : strict = true -> names_increasing (map fst (runs inp)).
Hypothesis Hlaid : laid_out fp (map (chrom_view sizes) ids) bs (Nlen bs) inflate ubuf (level_rsecs fp o outs)
                     (352 + Nlen (data_bytes (map (zsec compress cz) data)) + Nlen (fp_ct p) + Nlen (fp_ix p)) (fp_zbytes p) (fp_zhdrs p).
Hypothesis Hcount : Nlen (fp_zhdrs p) <= 10.
Hypothesis Hlevels : inc_from 0 (map zh_res (fp_zhdrs p)).

Theorem assembled_decodes :
  decode_gen strict bs inflate = Some (content_of fp o sizes ids outs sum ubuf (map zh_res (fp_zhdrs p))).
Proof.
  destruct Hlaid as (zlist & Hdec & Hok & Hch & Hend & Hcont).
  pose proof (zasm_Nlen _ _ _ _ _ _ _ _ HA) as L.
  destruct (wf_decode fp o sizes inp ids outs sum data bs p strict inflate compress cz ubuf Hcol HA Hmode Hubuf Hcne Hinf Hopts Hinp Hsize Hnames Hstrict
              zlist Hok Hcount Hlevels Hdec) as (ih & Hd & _).
  - split; [exact Hch|]. lia.
  - rewrite Hd. f_equal. unfold the_content, content_of. f_equal.
    + rewrite (core_data _ _ _ _ _ _ _ _ bs Hcol Hopts Hsize). unfold Nlen. now rewrite map_length.
    + rewrite Hcont, map_map. reflexivity.
Qed.
End FromAssemble.

(* ---------- the advertised buffer size fits u32 and covers every section ---------- *)
Lemma max_len_lt B l : 0 < B -> Forall (fun s => Nlen (sd_bytes s) < B) l -> max_len l < B.
Proof.
  intros HB H. unfold max_len.
  assert (G : forall l a, a < B -> Forall (fun x => x < B) l -> fold_left N.max l a < B).
  { induction l0 as [|x l0 IH]; intros a Ha Hl; cbn [fold_left]; [exact Ha|]. inversion Hl; subst. apply IH; [lia|assumption]. }
  apply G; [exact HB|]. rewrite Forall_map. exact H.
Qed.

Section Sizes.
Variables (fp : fpmode) (o : opts) (sizes : list (name * N)) (inp : list item).
Variables (ids : idmap) (outs : list chrom_out) (sum : summary) (data : list sdata) (bs : list N).
Hypothesis Hcol : bw_collect fp o sizes inp = Ok (ids, outs, sum, data).
Hypothesis Hopts : opts_ok o.
Hypothesis Hinp : input_ok sizes inp.
Hypothesis Hsize : Nlen bs < U64.

Lemma data_sizes_u32 : Forall (fun s => Nlen (sd_bytes s) < W32) data.
Proof.
  rewrite (core_data _ _ _ _ _ _ _ _ bs Hcol Hopts Hsize).
  pose proof (core_pieces_ok _ _ _ _ _ _ _ _ bs Hcol Hopts Hinp Hsize) as Hok.
  rewrite Forall_map. eapply Forall_impl; [|exact Hok]. intros [id items] (Hne & Hl & _). cbn [fst snd] in *.
  destruct items as [|f r]; [congruence|]. unfold psec, section_of. cbn [fst snd sd_bytes].
  unfold Nlen in *. rewrite app_length, (C09Codec.values_length (f :: r)). unfold sec_hdr, u8, u16, u32.
  rewrite !app_length, !enc_le_length. unfold U16, W32 in *. lia.
Qed.

Lemma level_sizes_u32 size : 1 <= size -> Forall (fun s => Nlen (sd_bytes s) < W32) (zsecs fp (level_rsecs fp o outs size)).
Proof.
  intros Hs. destruct (level_good fp o sizes inp ids outs sum data bs Hcol Hopts Hinp Hsize size Hs) as (G1 & _).
  unfold zsecs. rewrite Forall_map. eapply Forall_impl; [|exact G1]. intros rs (_ & Hl & _).
  rewrite zsec_bytes_len. destruct Hopts as (_ & Hi). unfold W32. lia.
Qed.

Lemma ubuf_u32 c zsizes : Forall (fun z => 1 <= z) zsizes ->
  N.max (ubuf_of c data) (ubuf_of c (flat_map zl_secs (map (zl_of fp o outs) zsizes))) < W32.
Proof.
  intros Hz. unfold ubuf_of. destruct c; [|unfold W32; lia].
  pose proof (max_len_lt W32 data ltac:(unfold W32; lia) data_sizes_u32) as H1.
  assert (H2 : max_len (flat_map zl_secs (map (zl_of fp o outs) zsizes)) < W32).
  { apply max_len_lt; [unfold W32; lia|]. apply Forall_forall. intros s Hs. apply in_flat_map in Hs as [zl [Hzl Hs]].
    apply in_map_iff in Hzl as [z [<- Hzin]]. cbn [zl_of zl_secs] in Hs. rewrite Forall_forall in Hz.
    pose proof (level_sizes_u32 z (Hz z Hzin)) as Hall. rewrite Forall_forall in Hall. exact (Hall s Hs). }
  lia.
Qed.

(* every resolution whose level is among the computed ones fits the advertised size *)
Lemma sizes_ok c zsizes u : Forall (fun z => 1 <= z < W32) zsizes ->
  (c = true -> max_len (flat_map zl_secs (map (zl_of fp o outs) zsizes)) <= u) ->
  Forall (size_ok c u (level_rsecs fp o outs)) zsizes.
Proof.
  intros Hz Hu. apply Forall_forall. intros z Hzin. rewrite Forall_forall in Hz. split; [exact (Hz z Hzin)|].
  intros Ec. apply Forall_forall. intros rs Hrs. rewrite <- (zsec_bytes_len fp rs).
  eapply N.le_trans; [|exact (Hu Ec)]. apply max_len_ge. apply in_flat_map. exists (zl_of fp o outs z).
  split; [now apply in_map|]. cbn [zl_of zl_secs]. unfold zsecs. now apply in_map.
Qed.
End Sizes.

(* ---------- single pass, blocks compressed or not ---------- *)
Theorem bw_write_zc_decodes compress cz fp o sizes inp bs strict inflate :
  bw_write_zc compress cz fp o sizes inp = Ok bs -> opts_ok o -> input_ok sizes inp -> Nlen bs < U64 ->
  Forall (fun c : name => c <> []) (map fst (runs inp)) ->
  (strict = true -> names_increasing (map fst (runs inp))) ->
  Forall (fun z => z < W32) (zoom_sizes_single o) ->
  (forall b, compress b <> []) -> (cz = true -> inflate_ok compress bs inflate) ->
  exists ids outs sum data kept ubuf,
    bw_collect fp o sizes inp = Ok (ids, outs, sum, data)
    /\ incl kept (zoom_sizes_single o) /\ inc_from 0 kept /\ (ubuf = 0 <-> cz = false)
    /\ decode_gen strict bs inflate = Some (content_of fp o sizes ids outs sum ubuf kept).
Proof.
  intros H Hopts Hinp Hsize Hnames Hstrict Hu Hcne Hinfl. unfold bw_write_zc in H.
  destruct (bw_collect fp o sizes inp) as [[[[ids outs] sum] data]| | |] eqn:Hcol; cbn [rbind] in H; try discriminate.
  change (bw_zoom_levels fp o outs (zoom_sizes_single o)) with (build_levels fp o outs (zoom_sizes_single o)) in H.
  destruct (build_levels fp o outs (zoom_sizes_single o)) as [zooms| | |] eqn:Hz; cbn [rbind] in H; try discriminate.
  pose proof (inc_from_pos _ _ (zoom_sizes_single_inc o)) as Hpos.
  pose proof (levels_built fp o outs bs Hopts Hsize _ _ Hpos Hz) as Ezooms.
  destruct (assemble_z_inv _ _ _ _ _ _ _ _ H) as (p & zu & Hzp & HA).
  { intros ds zp zb zh zu E. destruct (write_zooms_loop o ds zp _ None 0) as [[b0 h0]| | |] eqn:Ew; cbn [rbind] in E; try discriminate.
    apply Ok_inj in E. inversion E; subst. apply write_zooms_loop_len in Ew. rewrite map_length in Ew.
    apply mapM_length in Hz. pose proof (zoom_sizes_single_len o). unfold Nlen. lia. }
  cbv beta in Hzp.
  destruct (write_zooms_loop o _ _ (map (zlevel compress cz) zooms) None 0) as [[zb0 zh0]| | |] eqn:Ew; cbn [rbind] in Hzp; try discriminate.
  apply Ok_inj in Hzp. inversion Hzp as [[E1 E2 E3]]. subst zb0 zh0 zu. clear Hzp.
  set (ubuf := N.max (ubuf_of cz data) (ubuf_of cz (flat_map zl_secs zooms))) in *.
  assert (Hres : map zl_res (map (zlevel compress cz) zooms) = zoom_sizes_single o).
  { rewrite map_map. cbn [zlevel zl_res]. exact (build_levels_res _ _ _ _ _ Hz). }
  destruct (write_zooms_loop_inc o _ _ _ _ _ _ _ 0 ltac:(rewrite Hres; apply zoom_sizes_single_inc) Ew) as [Hinc Hcap].
  rewrite map_length in Hcap. apply mapM_length in Hz. pose proof (zoom_sizes_single_len o) as Hl10.
  pose proof (zasm_zooms _ _ _ _ _ _ _ _ HA) as Hat.
  (* mode, bounds *)
  assert (Hmode : blk_mode cz ubuf).
  { unfold ubuf, ubuf_of. destruct cz; [right|left; split; [reflexivity|lia]]. split; [reflexivity|].
    destruct (data_first_section fp o sizes inp ids outs sum data Hcol Hopts) as (s0 & Hs0 & Hl0).
    pose proof (max_len_ge data s0 Hs0). lia. }
  assert (Hub32 : ubuf < W32).
  { unfold ubuf. rewrite Ezooms. exact (ubuf_u32 fp o sizes inp ids outs sum data bs Hcol Hopts Hinp Hsize cz _ Hpos). }
  assert (Hinf : cz = true -> inflate_ok compress bs inflate /\ Forall (fun d => Nlen (sd_bytes d) <= ubuf) data).
  { intros Ec. split; [exact (Hinfl Ec)|]. apply Forall_forall. intros d Hd. unfold ubuf, ubuf_of. rewrite Ec.
    pose proof (max_len_ge data d Hd). lia. }
  assert (Hsok : Forall (size_ok cz ubuf (level_rsecs fp o outs)) (zoom_sizes_single o)).
  { apply (sizes_ok fp o outs cz).
    - apply Forall_forall. intros z Hzin. rewrite Forall_forall in Hpos, Hu. split; [exact (Hpos z Hzin)|exact (Hu z Hzin)].
    - intros Ec. rewrite <- Ezooms. unfold ubuf, ubuf_of. rewrite Ec. lia. }
  assert (Hlaid : laid_out fp (map (chrom_view sizes) ids) bs (Nlen bs) inflate ubuf (level_rsecs fp o outs)
                    (352 + Nlen (data_bytes (map (zsec compress cz) data)) + Nlen (fp_ct p) + Nlen (fp_ix p)) (fp_zbytes p) (fp_zhdrs p)).
  { apply (loop_layout fp o (map (chrom_view sizes) ids) bs (Nlen bs) inflate compress cz ubuf eq_refl Hsize Hopts Hcne Hmode Hinfl
             (level_rsecs fp o outs)
             (fun size Hs => level_good fp o sizes inp ids outs sum data bs Hcol Hopts Hinp Hsize size Hs)
             (zoom_sizes_single o) (Nlen (data_bytes (map (zsec compress cz) data))) _ None 0 _ _ Hsok); [|exact Hat].
    rewrite Ezooms, map_map in Ew. exact Ew. }
  exists ids, outs, sum, data, (map zh_res (fp_zhdrs p)), ubuf. split; [reflexivity|]. split; [|split; [exact Hinc|split]].
  - pose proof (write_zooms_loop_incl o _ _ _ _ _ _ _ Ew) as Hincl. rewrite Hres in Hincl. exact Hincl.
  - unfold ubuf, ubuf_of. destruct cz; [|split; [reflexivity|intros _; lia]]. split; [|discriminate]. intros E0. exfalso.
    destruct Hmode as [[Ef _]|[_ Hp]]; [discriminate|]. unfold ubuf, ubuf_of in Hp. lia.
  - apply (assembled_decodes fp o sizes inp ids outs sum data bs p strict inflate compress cz ubuf Hcol HA Hmode Hub32 Hcne Hinf Hopts Hinp Hsize Hnames Hstrict Hlaid);
      [unfold Nlen; lia|exact Hinc].
Qed.

(* ---------- two passes, blocks compressed or not ---------- *)
Lemma insert_sorted_in y x : forall l, In y (insert_sorted x l) -> y = x \/ In y l.
Proof.
  induction l as [|z l IH]; cbn [insert_sorted]; intros H.
  - destruct H as [<-|[]]. now left.
  - destruct (x <? z); [destruct H as [<-|H]; [now left|now right]|].
    destruct (x =? z); [now right|]. destruct H as [<-|H]; [right; now left|].
    destruct (IH H) as [->|H']; [now left|right; now right].
Qed.
Lemma sort_dedup_in y l : In y (sort_dedup l) -> In y l.
Proof.
  unfold sort_dedup.
  assert (G : forall l acc, In y (fold_left (fun acc x => insert_sorted x acc) l acc) -> In y acc \/ In y l).
  { induction l0 as [|x l0 IH]; intros acc H; cbn [fold_left] in H; [now left|].
    destruct (IH _ H) as [H'|H']; [|right; now right].
    destruct (insert_sorted_in y x acc H') as [->|H'']; [right; now left|now left]. }
  intros H. destruct (G l [] H) as [[]|H']. exact H'.
Qed.
Lemma firstn_in {X} (x : X) : forall k l, In x (firstn k l) -> In x l.
Proof. induction k as [|k IH]; intros [|a l] H; cbn [firstn] in H; try destruct H as [<-|H]; try (now left); try contradiction. right. now apply IH. Qed.
Lemma take_while_in {X} (f : X -> bool) x : forall l, In x (take_while f l) -> f x = true.
Proof.
  induction l as [|a l IH]; cbn [take_while]; intros H; [destruct H|]. destruct (f a) eqn:E; [|destruct H].
  destruct H as [<-|H]; [exact E|now apply IH].
Qed.

Definition manual_u32 (o : opts) : Prop := forall zs, o_manual o = Some zs -> Forall (fun z => z < W32) zs.

Lemma two_pass_sizes_u32 o sum counts ds : manual_u32 o -> Forall (fun z => z < W32) (zoom_sizes_two_pass o sum counts ds).
Proof.
  intros Hm. unfold zoom_sizes_two_pass. destruct (o_manual o) as [zs|] eqn:E.
  - specialize (Hm zs E). apply Forall_forall. intros z Hz. apply firstn_in, sort_dedup_in in Hz.
    apply filter_In in Hz as [Hz _]. rewrite Forall_forall in Hm. exact (Hm z Hz).
  - cbv zeta. apply Forall_forall. intros z Hz. apply in_map_iff in Hz as [[z' c] [<- Hz]].
    apply take_while_in in Hz. cbn [fst] in *. apply N.leb_le in Hz. unfold W32. lia.
Qed.

Theorem bw_write_multipass_zc_decodes compress cz fp o sizes inp bs strict inflate :
  bw_write_multipass_zc compress cz fp o sizes inp = Ok bs -> opts_ok o -> input_ok sizes inp -> Nlen bs < U64 ->
  Forall (fun c : name => c <> []) (map fst (runs inp)) ->
  (strict = true -> names_increasing (map fst (runs inp))) ->
  manual_u32 o ->
  (forall b, compress b <> []) -> (cz = true -> inflate_ok compress bs inflate) ->
  exists ids outs sum data kept ubuf,
    bw_collect fp o sizes inp = Ok (ids, outs, sum, data)
    /\ inc_from 0 kept /\ (ubuf = 0 <-> cz = false)
    /\ decode_gen strict bs inflate = Some (content_of fp o sizes ids outs sum ubuf kept).
Proof.
  intros H Hopts Hinp Hsize Hnames Hstrict Hu Hcne Hinfl. unfold bw_write_multipass_zc in H.
  destruct (bw_collect fp o sizes inp) as [[[[ids outs] sum] data]| | |] eqn:Hcol; cbn [rbind] in H; try discriminate.
  cbv zeta in H.
  destruct (assemble_z_inv _ _ _ _ _ _ _ _ H) as (p & zu & Hzp & HA).
  { intros ds zp zb zh zu E. cbv beta in E.
    destruct (bw_zoom_levels fp o outs _) as [zooms| | |] eqn:Hz; cbn [rbind] in E; try discriminate.
    destruct (write_zooms_two_pass o zp _) as [[b0 h0]| | |] eqn:Ew; cbn [rbind] in E; try discriminate.
    apply Ok_inj in E. inversion E; subst. apply write_zooms_two_pass_len in Ew. rewrite map_length in Ew.
    unfold bw_zoom_levels in Hz. apply mapM_length in Hz.
    pose proof (zoom_sizes_two_pass_len o sum (total_zoom_counts outs) ds). unfold Nlen. lia. }
  cbv beta in Hzp.
  set (wd := map (zsec compress cz) data) in *.
  set (zsizes := zoom_sizes_two_pass o sum (total_zoom_counts outs) (Nlen (data_bytes wd))) in *.
  change (bw_zoom_levels fp o outs zsizes) with (build_levels fp o outs zsizes) in Hzp.
  destruct (build_levels fp o outs zsizes) as [zooms| | |] eqn:Hz; cbn [rbind] in Hzp; try discriminate.
  destruct (write_zooms_two_pass o _ (map (zlevel compress cz) zooms)) as [[zb0 zh0]| | |] eqn:Ew; cbn [rbind] in Hzp; try discriminate.
  apply Ok_inj in Hzp. inversion Hzp as [[E1 E2 E3]]. subst zb0 zh0 zu. clear Hzp.
  pose proof (inc_from_pos _ _ (zoom_sizes_two_pass_inc o sum outs (Nlen (data_bytes wd)))) as Hpos. fold zsizes in Hpos.
  pose proof (levels_built fp o outs bs Hopts Hsize _ _ Hpos Hz) as Ezooms.
  set (ubuf := N.max (ubuf_of cz data) (ubuf_of cz (flat_map zl_secs zooms))) in *.
  pose proof (write_zooms_two_pass_res o _ _ _ _ Ew) as Hres. rewrite map_map in Hres. cbn [zlevel zl_res] in Hres.
  change (map (fun x : BBIFile.zoom_level => zl_res x) zooms) with (map zl_res zooms) in Hres.
  rewrite (build_levels_res _ _ _ _ _ Hz) in Hres.
  assert (Hinc : inc_from 0 (map zh_res (fp_zhdrs p))) by (rewrite Hres; apply zoom_sizes_two_pass_inc).
  assert (Hcap : Nlen (fp_zhdrs p) <= 10).
  { pose proof (f_equal (@length _) Hres) as El. rewrite map_length in El.
    pose proof (zoom_sizes_two_pass_len o sum (total_zoom_counts outs) (Nlen (data_bytes wd))). fold zsizes in H0. unfold Nlen. lia. }
  pose proof (zasm_zooms _ _ _ _ _ _ _ _ HA) as Hat.
  assert (Hmode : blk_mode cz ubuf).
  { unfold ubuf, ubuf_of. destruct cz; [right|left; split; [reflexivity|lia]]. split; [reflexivity|].
    destruct (data_first_section fp o sizes inp ids outs sum data Hcol Hopts) as (s0 & Hs0 & Hl0).
    pose proof (max_len_ge data s0 Hs0). lia. }
  assert (Hub32 : ubuf < W32).
  { unfold ubuf. rewrite Ezooms. exact (ubuf_u32 fp o sizes inp ids outs sum data bs Hcol Hopts Hinp Hsize cz _ Hpos). }
  assert (Hinf : cz = true -> inflate_ok compress bs inflate /\ Forall (fun d => Nlen (sd_bytes d) <= ubuf) data).
  { intros Ec. split; [exact (Hinfl Ec)|]. apply Forall_forall. intros d Hd. unfold ubuf, ubuf_of. rewrite Ec.
    pose proof (max_len_ge data d Hd). lia. }
  assert (Hsok : Forall (size_ok cz ubuf (level_rsecs fp o outs)) zsizes).
  { apply (sizes_ok fp o outs cz).
    - pose proof (two_pass_sizes_u32 o sum (total_zoom_counts outs) (Nlen (data_bytes wd)) Hu) as Hall. fold zsizes in Hall.
      apply Forall_forall. intros z Hzin. rewrite Forall_forall in Hpos, Hall. split; [exact (Hpos z Hzin)|exact (Hall z Hzin)].
    - intros Ec. rewrite <- Ezooms. unfold ubuf, ubuf_of. rewrite Ec. lia. }
  assert (Hlaid : laid_out fp (map (chrom_view sizes) ids) bs (Nlen bs) inflate ubuf (level_rsecs fp o outs)
                    (352 + Nlen (data_bytes wd) + Nlen (fp_ct p) + Nlen (fp_ix p)) (fp_zbytes p) (fp_zhdrs p)).
  { apply (two_pass_layout fp o (map (chrom_view sizes) ids) bs (Nlen bs) inflate compress cz ubuf eq_refl Hsize Hopts Hcne Hmode Hinfl
             (level_rsecs fp o outs)
             (fun size Hs => level_good fp o sizes inp ids outs sum data bs Hcol Hopts Hinp Hsize size Hs)
             zsizes _ _ _ Hsok); [|exact Hat].
    rewrite Ezooms, map_map in Ew. exact Ew. }
  exists ids, outs, sum, data, (map zh_res (fp_zhdrs p)), ubuf. split; [reflexivity|]. split; [exact Hinc|split].
  - unfold ubuf, ubuf_of. destruct cz; [|split; [reflexivity|intros _; lia]]. split; [|discriminate]. intros E0. exfalso.
    destruct Hmode as [[Ef _]|[_ Hp]]; [discriminate|]. unfold ubuf, ubuf_of in Hp. lia.
  - exact (assembled_decodes fp o sizes inp ids outs sum data bs p strict inflate compress cz ubuf Hcol HA Hmode Hub32 Hcne Hinf Hopts Hinp Hsize Hnames Hstrict Hlaid Hcap Hinc).
Qed.

(* ---------- the uncompressed writers of Model/BigWigWrite.v ---------- *)
Definition pad1 (b : list N) : list N := 0 :: b.     (* any compressor: it is not called when blocks are raw *)

Theorem bw_write_decodes fp o sizes inp bs strict inflate :
  bw_write fp o sizes inp = Ok bs -> opts_ok o -> input_ok sizes inp -> Nlen bs < U64 ->
  Forall (fun c : name => c <> []) (map fst (runs inp)) ->
  (strict = true -> names_increasing (map fst (runs inp))) ->
  Forall (fun z => z < W32) (zoom_sizes_single o) ->
  exists ids outs sum data kept,
    bw_collect fp o sizes inp = Ok (ids, outs, sum, data)
    /\ incl kept (zoom_sizes_single o) /\ inc_from 0 kept
    /\ decode_gen strict bs inflate = Some (content_of fp o sizes ids outs sum 0 kept).
Proof.
  intros H Hopts Hinp Hsize Hnames Hstrict Hu.
  destruct (bw_write_zc_false pad1 fp o sizes inp) as [E _]. rewrite <- E in H.
  destruct (bw_write_zc_decodes pad1 false fp o sizes inp bs strict inflate H Hopts Hinp Hsize Hnames Hstrict Hu
              ltac:(discriminate) ltac:(discriminate)) as (ids & outs & sum & data & kept & ubuf & H1 & H2 & H3 & H4 & H5).
  assert (ubuf = 0) by (now apply H4). subst ubuf. exists ids, outs, sum, data, kept. auto.
Qed.

Theorem bw_write_multipass_decodes fp o sizes inp bs strict inflate :
  bw_write_multipass fp o sizes inp = Ok bs -> opts_ok o -> input_ok sizes inp -> Nlen bs < U64 ->
  Forall (fun c : name => c <> []) (map fst (runs inp)) ->
  (strict = true -> names_increasing (map fst (runs inp))) ->
  manual_u32 o ->
  exists ids outs sum data kept,
    bw_collect fp o sizes inp = Ok (ids, outs, sum, data)
    /\ inc_from 0 kept
    /\ decode_gen strict bs inflate = Some (content_of fp o sizes ids outs sum 0 kept).
Proof.
  intros H Hopts Hinp Hsize Hnames Hstrict Hu.
  destruct (bw_write_zc_false pad1 fp o sizes inp) as [_ E]. rewrite <- E in H.
  destruct (bw_write_multipass_zc_decodes pad1 false fp o sizes inp bs strict inflate H Hopts Hinp Hsize Hnames Hstrict Hu
              ltac:(discriminate) ltac:(discriminate)) as (ids & outs & sum & data & kept & ubuf & H1 & H3 & H4 & H5).
  assert (ubuf = 0) by (now apply H4). subst ubuf. exists ids, outs, sum, data, kept. auto.
Qed.

(* ---------- the decoded records are exactly the input records; the summary is the folded one ---------- *)
From BT Require Import Proofs.BigWigFileChroms Proofs.BigWigFileInput.

Definition idx (ids : idmap) (c : name) : N := match lookup c ids with Some i => i | None => 0 end.
Definition input_records (ids : idmap) (inp : list item) : list frec :=
  map (fun it => rec_of (idx ids (fst it)) (snd it)) inp.

Lemma runs_aux_expand : forall l cur acc,
  flat_map (fun r : name * list value => map (pair (fst r)) (snd r)) (runs_aux cur acc l) = map (pair cur) (rev acc) ++ l.
Proof.
  induction l as [|[c v] l IH]; intros cur acc; cbn [runs_aux].
  - cbn [flat_map fst snd]. now rewrite !app_nil_r.
  - destruct (name_eqb c cur) eqn:E.
    + apply name_eqb_eq in E. subst c. rewrite IH. cbn [rev]. rewrite map_app, <- app_assoc. reflexivity.
    + rewrite fm_cons, IH. cbn [fst snd rev map app]. reflexivity.
Qed.
Lemma runs_expand inp : flat_map (fun r : name * list value => map (pair (fst r)) (snd r)) (runs inp) = inp.
Proof. destruct inp as [|[c v] l]; [reflexivity|]. cbn [runs]. rewrite runs_aux_expand. reflexivity. Qed.

Lemma lookup_number : forall l base c id, NoDup l -> In (c, id) (number base l) -> lookup c (number base l) = Some id.
Proof.
  induction l as [|x l IH]; intros base c id Hnd Hin; [destruct Hin|]. cbn [number lookup] in *.
  inversion Hnd as [|? ? Hni Hnd']; subst. destruct Hin as [E|Hin].
  - inversion E; subst. now rewrite name_eqb_refl.
  - destruct (name_eqb c x) eqn:E.
    + apply name_eqb_eq in E. subst c. exfalso. apply Hni. eapply number_in_name. exact Hin.
    + now apply IH.
Qed.

Theorem records_are_input fp o sizes inp ids outs sum data :
  bw_collect fp o sizes inp = Ok (ids, outs, sum, data) -> recs_of outs = input_records ids inp.
Proof.
  intros Hcol. pose proof (collect_grouped fp o sizes inp _ Hcol) as Hnd.
  destruct (core_runs _ _ _ _ _ _ _ _ Hcol) as (Eids & HF & Hnum).
  unfold input_records. rewrite <- (runs_expand inp).
  assert (G : forall rs os, Forall2 (run_out sizes) rs os -> (forall c, In c os -> In (co_name c, co_id c) ids) ->
              recs_of os = map (fun it : item => rec_of (idx ids (fst it)) (snd it))
                             (flat_map (fun r : name * list value => map (pair (fst r)) (snd r)) rs)).
  { induction 1 as [|r c rs os Hrc _ IH]; intros Hin; [reflexivity|]. unfold recs_of. rewrite !fm_cons, map_app. fold (recs_of os).
    rewrite IH by (intros x Hx; apply Hin; now right). f_equal.
    destruct Hrc as (Hn & Hv & _). rewrite map_map. cbn [fst snd]. rewrite <- Hv.
    assert (E : idx ids (fst r) = co_id c).
    { unfold idx. rewrite <- Hn. rewrite Eids. rewrite (lookup_number _ 0 (co_name c) (co_id c) Hnd); [reflexivity|].
      rewrite <- Eids. apply Hin. now left. }
    now rewrite E. }
  apply G; [exact HF|]. intros c Hc. rewrite Eids, <- Hnum. apply in_map_iff. exists c. split; [reflexivity|exact Hc].
Qed.

Theorem summary_is_folded fp o sizes inp ids outs sum data :
  bw_collect fp o sizes inp = Ok (ids, outs, sum, data) ->
  sum = match fold_left (summary_merge fp) (map (fun c => chrom_summary fp (co_vals c)) outs) None with
        | Some s => s | None => summary_zero end.
Proof.
  unfold bw_collect. destruct inp as [|it l]; [discriminate|].
  destruct (process_runs o sizes None [] (runs (it :: l))) as [[ids' outs']| | |]; cbn [rbind]; try discriminate.
  destruct (concat_res _) as [d| | |]; cbn [rbind]; try discriminate.
  intros H. apply Ok_inj in H. now inversion H.
Qed.

(* the chromosome ids are first-appearance positions *)
Theorem ids_first_appearance fp o sizes inp ids outs sum data :
  bw_collect fp o sizes inp = Ok (ids, outs, sum, data) -> ids = number 0 (first_app (map fst inp)).
Proof.
  intros Hcol. destruct (core_runs _ _ _ _ _ _ _ _ Hcol) as (E & _). rewrite E.
  now rewrite (run_names inp (collect_grouped fp o sizes inp _ Hcol)).
Qed.

(* ---------- with input_sort_type = ALL the writer's own order check makes the names increasing ---------- *)
Lemma process_runs_increasing o sizes : o_sort_all o = true -> forall rs prev ids0 r,
  process_runs o sizes prev ids0 rs = Ok r ->
  names_increasing (map fst rs)
  /\ match prev, rs with Some pn, (c, _) :: _ => name_cmp pn c = Lt | _, _ => True end.
Proof.
  intros Hs. induction rs as [|[c vals] rest IH]; intros prev ids0 r H; [split; [exact I|destruct prev; exact I]|].
  cbn [process_runs] in H. rewrite Hs in H.
  destruct (negb _) eqn:Eord in H; [discriminate|].
  destruct (lookup c sizes) as [len|]; [|discriminate].
  destruct (lookup c ids0); [discriminate|].
  destruct (get_id ids0 c) as [ids' id].
  destruct (check_chrom len vals) as [[]| | |]; cbn [rbind] in H; [|discriminate|discriminate|discriminate].
  destruct (process_runs o sizes (Some c) ids' rest) as [[ids'' outs']| | |] eqn:Er; cbn [rbind] in H; [|discriminate|discriminate|discriminate].
  destruct (IH _ _ _ Er) as [Hinc Hfirst]. split.
  - cbn [map fst]. destruct rest as [|[c' v'] rest']; [exact I|]. cbn [map fst names_increasing]. split; [exact Hfirst|exact Hinc].
  - destruct prev as [pn|]; [|exact I]. apply negb_false_iff in Eord. destruct (name_cmp pn c); try discriminate. reflexivity.
Qed.

Lemma sorted_names_increasing fp o sizes inp ids outs sum data : o_sort_all o = true ->
  bw_collect fp o sizes inp = Ok (ids, outs, sum, data) -> names_increasing (map fst (runs inp)).
Proof.
  intros Hs Hcol. destruct (bw_collect_inv _ _ _ _ _ _ _ _ Hcol) as (_ & Hp & _).
  now destruct (process_runs_increasing o sizes Hs _ _ _ _ Hp).
Qed.
