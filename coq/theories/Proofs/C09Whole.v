(* C09 whole file, part 4: decode (bw_write ...) = Some (content_of ...), both writers. *)
From BT Require Import Base.Util Base.LE Base.Float Generated.Consts Model.RTree Model.BBIFile Model.BigWigWrite
  Proofs.Chunks Proofs.BigWigQuery Proofs.RTreeCodec Proofs.FileRegions
  Proofs.BigWigFile Proofs.BigWigFileData Proofs.BigWigFileRoundTrip Proofs.BigWigFileThms
  Proofs.ZoomBwLevels
  Spec.FormatDecode Proofs.C09Base Proofs.C09Codec Proofs.C09Chrom Proofs.C09RTree Proofs.C09Data Proofs.C09Zoom Proofs.C09File Proofs.C09Levels.
From Coq Require Import Sorting.Sorted.
Local Open Scope N_scope.

(* ---------- what the decoder must return ---------- *)
(* the records of one zoom level: per chromosome, what process_val_zoom produced at that resolution *)
Definition level_records (fp : fpmode) (o : opts) (outs : list chrom_out) (size : N) : N * list fzrec :=
  (size, map (zr_view fp) (concat (level_rsecs fp o outs size))).

Definition content_of (fp : fpmode) (o : opts) (sizes : list (name * N)) (ids : idmap) (outs : list chrom_out)
           (sum : summary) (kept : list N) : content :=
  {| c_bigwig := true; c_bigendian := false; c_field_count := 0; c_defined_fc := 0; c_autosql := [];
     c_ubuf := 0; c_block_size := o_bs o; c_ips := o_ips o;
     c_chroms := map (chrom_view sizes) ids;                          (* (name, id, size) in id order *)
     c_records := recs_of outs;                                       (* every value, in input order *)
     c_blocks := map (fun pc : piece => Nlen (snd pc)) (pieces_of (N.to_nat (o_ips o)) outs);
     c_data_count := Nlen (pieces_of (N.to_nat (o_ips o)) outs);
     c_summary := sum_view_mod sum;                                   (* the folded total summary *)
     c_zooms := map (level_records fp o outs) kept |}.

Lemma inc_from_pos : forall l lo, inc_from lo l -> Forall (fun z => 1 <= z) l.
Proof.
  induction l as [|x l IH]; intros lo H; [constructor|]. destruct H as [H1 H2]. constructor; [lia|]. exact (IH _ H2).
Qed.

Lemma write_zooms_loop_incl o ds : forall zs pos lc zc bytes hdrs,
  write_zooms_loop o ds pos zs lc zc = Ok (bytes, hdrs) -> incl (map zh_res hdrs) (map zl_res zs).
Proof.
  induction zs as [|z rest IH]; intros pos lc zc bytes hdrs H; cbn [write_zooms_loop] in H.
  - apply Ok_inj in H. pose proof (f_equal snd H) as E. cbn [snd] in E. subst hdrs. intros x [].
  - cbn [map]. cbv zeta in H.
    destruct (_ && (ds / 2 <? _)); [apply incl_tl; exact (IH _ _ _ _ _ H)|].
    destruct (_ && match lc with None => false | Some l => _ end); [apply incl_tl; exact (IH _ _ _ _ _ H)|].
    destruct (write_index _ _ _ _) as [[ix lv]| | |]; cbn [rbind] in H; try discriminate.
    destruct (_ && (o_maxzooms o <=? zc + 1)).
    + apply Ok_inj in H. pose proof (f_equal snd H) as E. cbn [snd] in E. subst hdrs. cbn [map zh_res]. intros x [<-|[]]. now left.
    + destruct (write_zooms_loop o ds _ rest _ _) as [[more hs]| | |] eqn:E; cbn [rbind] in H; try discriminate.
      apply Ok_inj in H. pose proof (f_equal snd H) as E2. cbn [snd] in E2. subst hdrs. cbn [map zh_res].
      intros x [<-|Hx]; [now left|right; exact (IH _ _ _ _ _ E x Hx)].
Qed.

(* both writers: everything follows from [assemble] plus a laid-out zoom part *)
Section FromAssemble.
Variables (fp : fpmode) (o : opts) (sizes : list (name * N)) (inp : list item).
Variables (ids : idmap) (outs : list chrom_out) (sum : summary) (data : list sdata).
Variables (zoom_part : N -> N -> res (list N * list zoom_header)) (bs : list N) (p : file_parts).
Variables (strict : bool) (inflate : N -> N -> option (list N)).
Hypothesis Hcol : bw_collect fp o sizes inp = Ok (ids, outs, sum, data).
Hypothesis HA : assembled o BIGWIG_MAGIC sizes ids sum data bw_pre 0 0 0 zoom_part (fun k => k) bs p.
Hypothesis Hopts : opts_ok o.
Hypothesis Hinp : input_ok sizes inp.
Hypothesis Hsize : Nlen bs < U64.
Hypothesis Hnames : Forall (fun c : name => c <> []) (map fst (runs inp)).
Hypothesis Hstrict : strict = true -> names_increasing (map fst (runs inp)).
Hypothesis Hlaid : laid_out fp (map (chrom_view sizes) ids) bs (Nlen bs) inflate (level_rsecs fp o outs)
                     (352 + Nlen (data_bytes data) + Nlen (fp_ct p) + Nlen (fp_ix p)) (fp_zbytes p) (fp_zhdrs p).
Hypothesis Hcount : Nlen (fp_zhdrs p) <= 10.
Hypothesis Hlevels : inc_from 0 (map zh_res (fp_zhdrs p)).

Theorem assembled_decodes :
  decode_gen strict bs inflate = Some (content_of fp o sizes ids outs sum (map zh_res (fp_zhdrs p))).
Proof.
  destruct Hlaid as (zlist & Hdec & Hok & Hch & Hend & Hcont).
  pose proof (core_Nlen _ _ _ _ _ _ _ _ _ HA) as L.
  destruct (wf_decode fp o sizes inp ids outs sum data zoom_part bs p strict inflate Hcol HA Hopts Hinp Hsize Hnames Hstrict
              zlist Hok Hcount Hlevels Hdec) as (ih & Hd & _).
  - split; [exact Hch|]. lia.
  - rewrite Hd. f_equal. unfold the_content, content_of. f_equal.
    + rewrite (core_data _ _ _ _ _ _ _ _ bs Hcol Hopts Hsize). unfold Nlen. now rewrite map_length.
    + rewrite Hcont, map_map. reflexivity.
Qed.
End FromAssemble.

(* ---------- single pass ---------- *)
Theorem bw_write_decodes fp o sizes inp bs strict inflate :
  bw_write fp o sizes inp = Ok bs -> opts_ok o -> input_ok sizes inp -> Nlen bs < U64 ->
  Forall (fun c : name => c <> []) (map fst (runs inp)) ->
  (strict = true -> names_increasing (map fst (runs inp))) ->
  Forall (fun z => z < W32) (zoom_sizes_single o) ->
  exists ids outs sum data kept,
    bw_collect fp o sizes inp = Ok (ids, outs, sum, data)
    /\ incl kept (zoom_sizes_single o) /\ inc_from 0 kept
    /\ decode_gen strict bs inflate = Some (content_of fp o sizes ids outs sum kept).
Proof.
  intros H Hopts Hinp Hsize Hnames Hstrict Hu.
  destruct (bw_write_inv fp o sizes inp bs H) as (ids & outs & sum & data & zooms & Hcol & Hz & Hasm).
  destruct (assemble_inv _ _ _ _ _ _ _ _ _ _ _ _ _ Hasm) as [p HA].
  { intros ds zp zb zh E. pose proof (single_zoom_bound fp o outs zooms Hz _ _ _ _ E). change (Nlen bw_pre) with 352. lia. }
  change (zoom_levels_for fp o outs (zoom_sizes_single o)) with (build_levels fp o outs (zoom_sizes_single o)) in Hz.
  pose proof (inc_from_pos _ _ (zoom_sizes_single_inc o)) as Hpos.
  pose proof (levels_built fp o outs bs Hopts Hsize _ _ Hpos Hz) as Ezooms.
  pose proof HA as (_ & _ & Hzp & _). unfold single_zoom_part in Hzp. rewrite wf_pd in Hzp.
  destruct (levels_increasing_single fp o outs _ _ zooms _ _ Hz Hzp) as [Hinc Hcap].
  pose proof (asm_zooms _ _ _ _ _ _ _ _ _ _ _ _ _ _ HA) as Hat. cbv zeta in Hat. rewrite wf_pd in Hat.
  assert (Hlaid : laid_out fp (map (chrom_view sizes) ids) bs (Nlen bs) inflate (level_rsecs fp o outs)
                    (352 + Nlen (data_bytes data) + Nlen (fp_ct p) + Nlen (fp_ix p)) (fp_zbytes p) (fp_zhdrs p)).
  { apply (loop_layout fp o (map (chrom_view sizes) ids) bs (Nlen bs) inflate eq_refl Hsize Hopts (level_rsecs fp o outs)
             (fun size Hs => level_good fp o sizes inp ids outs sum data bs Hcol Hopts Hinp Hsize size Hs)
             (zoom_sizes_single o) (Nlen (data_bytes data)) _ None 0); [|rewrite Ezooms in Hzp; exact Hzp|exact Hat].
    apply Forall_forall. intros z Hzin. rewrite Forall_forall in Hpos, Hu. split; [exact (Hpos z Hzin)|exact (Hu z Hzin)]. }
  exists ids, outs, sum, data, (map zh_res (fp_zhdrs p)). split; [exact Hcol|]. split; [|split; [exact Hinc|]].
  - pose proof (write_zooms_loop_incl o _ _ _ _ _ _ _ Hzp) as Hincl. rewrite (build_levels_res _ _ _ _ _ Hz) in Hincl. exact Hincl.
  - apply (assembled_decodes fp o sizes inp ids outs sum data _ bs p strict inflate Hcol HA Hopts Hinp Hsize Hnames Hstrict Hlaid);
      [unfold MAX_ZOOM_LEVELS in Hcap; exact Hcap|exact Hinc].
Qed.

(* ---------- two passes ---------- *)
Lemma insert_sorted_in y x : forall l, In y (insert_sorted x l) -> y = x \/ In y l.
Proof.
  induction l as [|z l IH]; cbn [insert_sorted]; intros H.
  - destruct H as [<-|[]]. now left.
  - destruct (x <? z); [destruct H as [<-|H]; [now left|now right]|].
    destruct (x =? z); [now right|]. destruct H as [<-|H]; [right; now left|].
    destruct (IH H) as [->|H']; [now left|right; now right].
Qed.
Lemma sort_dedup_in y l : In y (sort_dedup l) -> In y l.
Proof.
  unfold sort_dedup.
  assert (G : forall l acc, In y (fold_left (fun acc x => insert_sorted x acc) l acc) -> In y acc \/ In y l).
  { induction l0 as [|x l0 IH]; intros acc H; cbn [fold_left] in H; [now left|].
    destruct (IH _ H) as [H'|H']; [|right; now right].
    destruct (insert_sorted_in y x acc H') as [->|H'']; [right; now left|now left]. }
  intros H. destruct (G l [] H) as [[]|H']. exact H'.
Qed.
Lemma firstn_in {X} (x : X) : forall k l, In x (firstn k l) -> In x l.
Proof. induction k as [|k IH]; intros [|a l] H; cbn [firstn] in H; try destruct H as [<-|H]; try (now left); try contradiction. right. now apply IH. Qed.
Lemma take_while_in {X} (f : X -> bool) x : forall l, In x (take_while f l) -> f x = true.
Proof.
  induction l as [|a l IH]; cbn [take_while]; intros H; [destruct H|]. destruct (f a) eqn:E; [|destruct H].
  destruct H as [<-|H]; [exact E|now apply IH].
Qed.

Definition manual_u32 (o : opts) : Prop := forall zs, o_manual o = Some zs -> Forall (fun z => z < W32) zs.

Lemma two_pass_sizes_u32 o sum counts ds : manual_u32 o -> Forall (fun z => z < W32) (zoom_sizes_two_pass o sum counts ds).
Proof.
  intros Hm. unfold zoom_sizes_two_pass. destruct (o_manual o) as [zs|] eqn:E.
  - specialize (Hm zs E). apply Forall_forall. intros z Hz. apply firstn_in, sort_dedup_in in Hz.
    apply filter_In in Hz as [Hz _]. rewrite Forall_forall in Hm. exact (Hm z Hz).
  - cbv zeta. apply Forall_forall. intros z Hz. apply in_map_iff in Hz as [[z' c] [<- Hz]].
    apply take_while_in in Hz. cbn [fst] in *. apply N.leb_le in Hz. unfold W32. lia.
Qed.

Theorem bw_write_multipass_decodes fp o sizes inp bs strict inflate :
  bw_write_multipass fp o sizes inp = Ok bs -> opts_ok o -> input_ok sizes inp -> Nlen bs < U64 ->
  Forall (fun c : name => c <> []) (map fst (runs inp)) ->
  (strict = true -> names_increasing (map fst (runs inp))) ->
  manual_u32 o ->
  exists ids outs sum data kept,
    bw_collect fp o sizes inp = Ok (ids, outs, sum, data)
    /\ inc_from 0 kept
    /\ decode_gen strict bs inflate = Some (content_of fp o sizes ids outs sum kept).
Proof.
  intros H Hopts Hinp Hsize Hnames Hstrict Hu.
  destruct (bw_write_multipass_inv fp o sizes inp bs H) as (ids & outs & sum & data & Hcol & Hasm).
  destruct (assemble_inv _ _ _ _ _ _ _ _ _ _ _ _ _ Hasm) as [p HA].
  { intros ds zp zb zh E. pose proof (multi_zoom_bound fp o outs sum _ _ _ _ E). change (Nlen bw_pre) with 352. lia. }
  pose proof HA as (_ & _ & Hzp & _). unfold multi_zoom_part in Hzp. cbv zeta in Hzp. rewrite wf_pd in Hzp.
  change (zoom_levels_for fp o outs) with (build_levels fp o outs) in Hzp.
  set (zsizes := zoom_sizes_two_pass o sum (total_zoom_counts outs) (Nlen (data_bytes data))) in *.
  destruct (build_levels fp o outs zsizes) as [zooms| | |] eqn:Hz; cbn [rbind] in Hzp; try discriminate.
  pose proof (inc_from_pos _ _ (zoom_sizes_two_pass_inc o sum outs (Nlen (data_bytes data)))) as Hpos. fold zsizes in Hpos.
  pose proof (levels_built fp o outs bs Hopts Hsize _ _ Hpos Hz) as Ezooms.
  destruct (levels_increasing_two_pass fp o outs sum _ _ zooms _ _ Hz Hzp) as (_ & Hinc & Hcap).
  pose proof (asm_zooms _ _ _ _ _ _ _ _ _ _ _ _ _ _ HA) as Hat. cbv zeta in Hat. rewrite wf_pd in Hat.
  assert (Hlaid : laid_out fp (map (chrom_view sizes) ids) bs (Nlen bs) inflate (level_rsecs fp o outs)
                    (352 + Nlen (data_bytes data) + Nlen (fp_ct p) + Nlen (fp_ix p)) (fp_zbytes p) (fp_zhdrs p)).
  { apply (two_pass_layout fp o (map (chrom_view sizes) ids) bs (Nlen bs) inflate eq_refl Hsize Hopts (level_rsecs fp o outs)
             (fun size Hs => level_good fp o sizes inp ids outs sum data bs Hcol Hopts Hinp Hsize size Hs) zsizes);
      [|rewrite Ezooms in Hzp; exact Hzp|exact Hat].
    pose proof (two_pass_sizes_u32 o sum (total_zoom_counts outs) (Nlen (data_bytes data)) Hu) as Hall. fold zsizes in Hall.
    apply Forall_forall. intros z Hzin. rewrite Forall_forall in Hpos, Hall. split; [exact (Hpos z Hzin)|exact (Hall z Hzin)]. }
  exists ids, outs, sum, data, (map zh_res (fp_zhdrs p)). split; [exact Hcol|]. split; [exact Hinc|].
  apply (assembled_decodes fp o sizes inp ids outs sum data _ bs p strict inflate Hcol HA Hopts Hinp Hsize Hnames Hstrict Hlaid);
    [unfold MAX_ZOOM_LEVELS in Hcap; exact Hcap|exact Hinc].
Qed.

(* ---------- the decoded records are exactly the input records; the summary is the folded one ---------- *)
From BT Require Import Proofs.BigWigFileChroms Proofs.BigWigFileInput.

Definition idx (ids : idmap) (c : name) : N := match lookup c ids with Some i => i | None => 0 end.
Definition input_records (ids : idmap) (inp : list item) : list frec :=
  map (fun it => rec_of (idx ids (fst it)) (snd it)) inp.

Lemma runs_aux_expand : forall l cur acc,
  flat_map (fun r : name * list value => map (pair (fst r)) (snd r)) (runs_aux cur acc l) = map (pair cur) (rev acc) ++ l.
Proof.
  induction l as [|[c v] l IH]; intros cur acc; cbn [runs_aux].
  - cbn [flat_map fst snd]. now rewrite !app_nil_r.
  - destruct (name_eqb c cur) eqn:E.
    + apply name_eqb_eq in E. subst c. rewrite IH. cbn [rev]. rewrite map_app, <- app_assoc. reflexivity.
    + rewrite fm_cons, IH. cbn [fst snd rev map app]. reflexivity.
Qed.
Lemma runs_expand inp : flat_map (fun r : name * list value => map (pair (fst r)) (snd r)) (runs inp) = inp.
Proof. destruct inp as [|[c v] l]; [reflexivity|]. cbn [runs]. rewrite runs_aux_expand. reflexivity. Qed.

Lemma lookup_number : forall l base c id, NoDup l -> In (c, id) (number base l) -> lookup c (number base l) = Some id.
Proof.
  induction l as [|x l IH]; intros base c id Hnd Hin; [destruct Hin|]. cbn [number lookup] in *.
  inversion Hnd as [|? ? Hni Hnd']; subst. destruct Hin as [E|Hin].
  - inversion E; subst. now rewrite name_eqb_refl.
  - destruct (name_eqb c x) eqn:E.
    + apply name_eqb_eq in E. subst c. exfalso. apply Hni. eapply number_in_name. exact Hin.
    + now apply IH.
Qed.

Theorem records_are_input fp o sizes inp ids outs sum data :
  bw_collect fp o sizes inp = Ok (ids, outs, sum, data) -> recs_of outs = input_records ids inp.
Proof.
  intros Hcol. pose proof (collect_grouped fp o sizes inp _ Hcol) as Hnd.
  destruct (core_runs _ _ _ _ _ _ _ _ Hcol) as (Eids & HF & Hnum).
  unfold input_records. rewrite <- (runs_expand inp).
  assert (G : forall rs os, Forall2 (run_out sizes) rs os -> (forall c, In c os -> In (co_name c, co_id c) ids) ->
              recs_of os = map (fun it : item => rec_of (idx ids (fst it)) (snd it))
                             (flat_map (fun r : name * list value => map (pair (fst r)) (snd r)) rs)).
  { induction 1 as [|r c rs os Hrc _ IH]; intros Hin; [reflexivity|]. unfold recs_of. rewrite !fm_cons, map_app. fold (recs_of os).
    rewrite IH by (intros x Hx; apply Hin; now right). f_equal.
    destruct Hrc as (Hn & Hv & _). rewrite map_map. cbn [fst snd]. rewrite <- Hv.
    assert (E : idx ids (fst r) = co_id c).
    { unfold idx. rewrite <- Hn. rewrite Eids. rewrite (lookup_number _ 0 (co_name c) (co_id c) Hnd); [reflexivity|].
      rewrite <- Eids. apply Hin. now left. }
    now rewrite E. }
  apply G; [exact HF|]. intros c Hc. rewrite Eids, <- Hnum. apply in_map_iff. exists c. split; [reflexivity|exact Hc].
Qed.

Theorem summary_is_folded fp o sizes inp ids outs sum data :
  bw_collect fp o sizes inp = Ok (ids, outs, sum, data) ->
  sum = match fold_left (summary_merge fp) (map (fun c => chrom_summary fp (co_vals c)) outs) None with
        | Some s => s | None => summary_zero end.
Proof.
  unfold bw_collect. destruct inp as [|it l]; [discriminate|].
  destruct (process_runs o sizes None [] (runs (it :: l))) as [[ids' outs']| | |]; cbn [rbind]; try discriminate.
  destruct (concat_res _) as [d| | |]; cbn [rbind]; try discriminate.
  intros H. apply Ok_inj in H. now inversion H.
Qed.

(* the chromosome ids are first-appearance positions *)
Theorem ids_first_appearance fp o sizes inp ids outs sum data :
  bw_collect fp o sizes inp = Ok (ids, outs, sum, data) -> ids = number 0 (first_app (map fst inp)).
Proof.
  intros Hcol. destruct (core_runs _ _ _ _ _ _ _ _ Hcol) as (E & _). rewrite E.
  now rewrite (run_names inp (collect_grouped fp o sizes inp _ Hcol)).
Qed.

(* ---------- with input_sort_type = ALL the writer's own order check makes the names increasing ---------- *)
Lemma process_runs_increasing o sizes : o_sort_all o = true -> forall rs prev ids0 r,
  process_runs o sizes prev ids0 rs = Ok r ->
  names_increasing (map fst rs)
  /\ match prev, rs with Some pn, (c, _) :: _ => name_cmp pn c = Lt | _, _ => True end.
Proof.
  intros Hs. induction rs as [|[c vals] rest IH]; intros prev ids0 r H; [split; [exact I|destruct prev; exact I]|].
  cbn [process_runs] in H. rewrite Hs in H.
  destruct (negb _) eqn:Eord in H; [discriminate|].
  destruct (lookup c sizes) as [len|]; [|discriminate].
  destruct (lookup c ids0); [discriminate|].
  destruct (get_id ids0 c) as [ids' id].
  destruct (check_chrom len vals) as [[]| | |]; cbn [rbind] in H; [|discriminate|discriminate|discriminate].
  destruct (process_runs o sizes (Some c) ids' rest) as [[ids'' outs']| | |] eqn:Er; cbn [rbind] in H; [|discriminate|discriminate|discriminate].
  destruct (IH _ _ _ Er) as [Hinc Hfirst]. split.
  - cbn [map fst]. destruct rest as [|[c' v'] rest']; [exact I|]. cbn [map fst names_increasing]. split; [exact Hfirst|exact Hinc].
  - destruct prev as [pn|]; [|exact I]. apply negb_false_iff in Eord. destruct (name_cmp pn c); try discriminate. reflexivity.
Qed.

Lemma sorted_names_increasing fp o sizes inp ids outs sum data : o_sort_all o = true ->
  bw_collect fp o sizes inp = Ok (ids, outs, sum, data) -> names_increasing (map fst (runs inp)).
Proof.
  intros Hs Hcol. destruct (bw_collect_inv _ _ _ _ _ _ _ _ Hcol) as (_ & Hp & _).
  now destruct (process_runs_increasing o sizes Hs _ _ _ _ Hp).
Qed.
