(* C14: after a failure of the destination, what has reached it is a prefix of what the
   undisturbed run would have written — the failing operation never happens, the call that issued it
   returns the error, nothing else is attempted, and the drop of the BufWriter at most retries the
   very write that failed.  Hence every state of the destination after a failure is one of the
   crash points of the undisturbed trace. *)
From BT Require Import Base.Util Base.LE Model.BBIFile Model.SinkTrace Proofs.SinkFault.
Local Open Scope N_scope.

Definition prefix (a b : list sop) : Prop := exists t, b = a ++ t.
Lemma prefix_refl a : prefix a a. Proof. exists []. now rewrite app_nil_r. Qed.
Lemma prefix_trans a b c : prefix a b -> prefix b c -> prefix a c.
Proof. intros [t ->] [u ->]. exists (t ++ u). now rewrite app_assoc. Qed.
Lemma prefix_app a t : prefix a (a ++ t). Proof. now exists t. Qed.

(* the failing operation has been attempted *)
Definition fired (f : fault) (s : st) : Prop :=
  match f with Some (kd, k) => kd <= 2 /\ (k < cnt kd s)%nat | None => False end.
(* the faulted run stopped in s'; the undisturbed run went on to sN *)
Definition stuck (f : fault) (s' sN : st) : Prop :=
  fired f s' /\ prefix (s_ops s') (s_ops sN)
  /\ (s_buf s' = [] \/ prefix (s_ops s' ++ [SWrite (s_pos s') (s_buf s')]) (s_ops sN)).

Definition sim_at (f : fault) (mf mN : M) (s : st) : Prop :=
  forall r s', mf s = (r, s') ->
    exists rN sN, mN s = (rN, sN) /\ ((r = rN /\ s' = sN) \/ (r <> Ok tt /\ stuck f s' sN)).
Definition grows (m : M) : Prop := forall s r s', m s = (r, s') -> prefix (s_ops s) (s_ops s').

Lemma stuck_extend f s' sN sN' : stuck f s' sN -> prefix (s_ops sN) (s_ops sN') -> stuck f s' sN'.
Proof.
  intros (Hf & Hp & Hb) He. split; [exact Hf|]. split; [eapply prefix_trans; eauto|].
  destruct Hb as [Hb|Hb]; [left; exact Hb|right; eapply prefix_trans; eauto].
Qed.

Lemma sim_bind f mf mN kf kN s :
  sim_at f mf mN s -> (forall s1, mf s = (Ok tt, s1) -> sim_at f kf kN s1) -> grows kN ->
  sim_at f (bindM mf kf) (bindM mN kN) s.
Proof.
  intros Hm Hk Hg r s' H. unfold bindM in H. destruct (mf s) as [r1 s1] eqn:E1.
  destruct (Hm r1 s1 E1) as [rN1 [sN1 [EN [[-> ->]|[Hne Hst]]]]].
  - (* identical so far *)
    unfold bindM. rewrite EN. destruct rN1 as [[]| | |].
    + exact (Hk sN1 eq_refl r s' H).
    + inversion H; subst. eexists _, _. split; [reflexivity|left; split; reflexivity].
    + inversion H; subst. eexists _, _. split; [reflexivity|left; split; reflexivity].
    + inversion H; subst. eexists _, _. split; [reflexivity|left; split; reflexivity].
  - (* the failure happened in the first part *)
    assert (Hr : (r, s') = (r1, s1)) by (destruct r1 as [[]| | |]; [congruence| | |]; symmetry; exact H).
    inversion Hr; subst r s'. unfold bindM. rewrite EN. destruct rN1 as [[]| | |].
    + destruct (kN sN1) as [rN sN] eqn:EK. eexists _, _. split; [reflexivity|]. right. split; [exact Hne|].
      eapply stuck_extend; [exact Hst|exact (Hg sN1 rN sN EK)].
    + eexists _, _. split; [reflexivity|right; split; assumption].
    + eexists _, _. split; [reflexivity|right; split; assumption].
    + eexists _, _. split; [reflexivity|right; split; assumption].
Qed.

Lemma sim_ext f (mf mN mf' mN' : M) s : mf s = mf' s -> mN s = mN' s -> sim_at f mf' mN' s -> sim_at f mf mN s.
Proof. intros E1 E2 H r s' E. rewrite E1 in E. rewrite E2. exact (H r s' E). Qed.

Lemma sim_same f m s : sim_at f m m s.
Proof. intros r s' H. eexists _, _. split; [exact H|left; split; reflexivity]. Qed.

(* one sink operation, issued with an empty buffer or being the write of the buffer itself *)
Lemma sim_sink f op s : s_buf s = [] \/ op = SWrite (s_pos s) (s_buf s) ->
  sim_at f (sink f op) (sink None op) s.
Proof.
  intros Hc r s' H. unfold sink in *. cbn [hit].
  destruct (hit f (kind_of op) (cnt (kind_of op) s)) eqn:Hh; inversion H; subst; clear H.
  - eexists _, _. split; [reflexivity|]. right. split; [discriminate|].
    unfold hit in Hh. destruct f as [[kd k]|]; [|discriminate].
    apply andb_true_iff in Hh as [H1 H2]. apply N.eqb_eq in H1. apply Nat.eqb_eq in H2. subst kd k.
    split; [|split].
    + cbn [fired]. split; [destruct op; cbn; lia|]. destruct op; cbn; lia.
    + cbn [emit bump s_ops]. apply prefix_app.
    + cbn [bump s_buf s_pos s_ops emit]. destruct Hc as [Hc|Hc]; [left; exact Hc|right]. rewrite <- Hc. apply prefix_refl.
  - eexists _, _. split; [reflexivity|left; split; reflexivity].
Qed.

Lemma grows_ret : grows ret.
Proof. intros s r s' H. inversion H; subst. apply prefix_refl. Qed.
Lemma grows_upd g : (forall s, s_ops (g s) = s_ops s) -> grows (upd g).
Proof. intros Hg s r s' H. unfold upd in H. inversion H; subst. rewrite Hg. apply prefix_refl. Qed.
Lemma grows_sink f op : grows (sink f op).
Proof.
  intros s r s' H. unfold sink in H. destruct (hit _ _ _); inversion H; subst; cbn [bump emit s_ops];
    [apply prefix_refl|apply prefix_app].
Qed.
Lemma grows_bind m k : grows m -> grows k -> grows (bindM m k).
Proof.
  intros Hm Hk s r s' H. unfold bindM in H. destruct (m s) as [r1 s1] eqn:E1.
  pose proof (Hm s r1 s1 E1) as P1. destruct r1 as [[]| | |]; [eapply prefix_trans; [exact P1|exact (Hk s1 r s' H)]| | |];
    inversion H; subst; exact P1.
Qed.
Lemma grows_pointwise (m : M) : (forall s, exists m', grows m' /\ m s = m' s) -> grows m.
Proof. intros H s r s' E. destruct (H s) as [m' [G Em]]. rewrite Em in E. exact (G s r s' E). Qed.

Lemma grows_flush_buf f : grows (flush_buf f).
Proof.
  apply grows_pointwise. intros s. unfold flush_buf. destruct (s_buf s) as [|x b].
  - exists ret. split; [exact grows_ret|reflexivity].
  - exists (bindM (sink_write f (x :: b)) (upd (set_buf []))). split; [|reflexivity].
    apply grows_bind; [intros s0; apply grows_sink|apply grows_upd; reflexivity].
Qed.
Lemma grows_buffer b : grows (buffer b).
Proof. apply grows_upd. reflexivity. Qed.
Lemma grows_sink_write f b : grows (sink_write f b).
Proof. intros s. apply grows_sink. Qed.
Lemma grows_write_all f b : grows (bw_write_all f b).
Proof.
  apply grows_pointwise. intros s. unfold bw_write_all.
  destruct (Nlen b <? CAP - Nlen (s_buf s)); [exists (buffer b); split; [apply grows_buffer|reflexivity]|].
  eexists. split; [|reflexivity]. apply grows_bind.
  - destruct (CAP - Nlen (s_buf s) <? Nlen b); [apply grows_flush_buf|exact grows_ret].
  - destruct (CAP <=? Nlen b); [apply grows_sink_write|apply grows_buffer].
Qed.
Lemma grows_copy_loop f : forall fuel b, grows (copy_loop fuel f b).
Proof.
  induction fuel as [|fu IH]; intros b.
  - intros s r s' H. cbn in H. inversion H; subst. apply prefix_refl.
  - apply grows_pointwise. intros s. cbn [copy_loop].
    destruct (CAP <=? CAP - Nlen (s_buf s)).
    + destruct b as [|x b']; [exists ret; split; [exact grows_ret|reflexivity]|].
      eexists. split; [|reflexivity]. apply grows_bind; [apply grows_buffer|apply IH].
    + eexists. split; [|reflexivity]. apply grows_bind; [apply grows_flush_buf|apply IH].
Qed.
Lemma grows_unwrapped u (m : M) : grows m -> grows (fun s => unwrapped u (m s)).
Proof.
  intros Hm s r s' H. destruct (m s) as [r1 s1] eqn:E. pose proof (Hm s r1 s1 E) as P.
  unfold unwrapped in H. destruct r1; [|destruct u| |]; inversion H; subst; exact P.
Qed.
Lemma grows_exec1 f c : grows (exec1 f c).
Proof.
  destruct c as [u b|u b|t|]; cbn [exec1].
  - apply grows_unwrapped, grows_write_all.
  - apply grows_unwrapped. unfold bw_copy. apply grows_copy_loop.
  - unfold bw_seek. apply grows_bind; [apply grows_flush_buf|intros s; apply grows_sink].
  - unfold bw_flush. apply grows_bind; [apply grows_flush_buf|intros s; apply grows_sink].
Qed.
Lemma grows_exec f cs : grows (exec f cs).
Proof.
  induction cs as [|c cs IH]; cbn [exec]; [exact grows_ret|]. apply grows_bind; [apply grows_exec1|exact IH].
Qed.

(* ---- the pieces of the BufWriter model ---- *)
Lemma sim_flush_buf f s : sim_at f (flush_buf f) (flush_buf None) s.
Proof.
  destruct (s_buf s) as [|x b] eqn:Eb.
  - apply (sim_ext f _ _ ret ret); [unfold flush_buf; now rewrite Eb|unfold flush_buf; now rewrite Eb|apply sim_same].
  - apply (sim_ext f _ _ (bindM (sink_write f (x :: b)) (upd (set_buf []))) (bindM (sink_write None (x :: b)) (upd (set_buf []))));
      [unfold flush_buf; now rewrite Eb|unfold flush_buf; now rewrite Eb|].
    apply sim_bind.
    + apply (sim_ext f _ _ (sink f (SWrite (s_pos s) (x :: b))) (sink None (SWrite (s_pos s) (x :: b)))); [reflexivity|reflexivity|].
      apply sim_sink. right. now rewrite Eb.
    + intros s1 _. apply sim_same.
    + apply grows_upd. reflexivity.
Qed.

Lemma flush_buf_ok_buf f s s1 : flush_buf f s = (Ok tt, s1) -> s_buf s1 = [].
Proof. exact (flush_buf_ok_empty f s s1). Qed.

Lemma sim_sink_write_empty f b s : s_buf s = [] -> sim_at f (sink_write f b) (sink_write None b) s.
Proof.
  intros Hb. apply (sim_ext f _ _ (sink f (SWrite (s_pos s) b)) (sink None (SWrite (s_pos s) b))); [reflexivity|reflexivity|].
  apply sim_sink. left. exact Hb.
Qed.

Lemma sim_write_all f b s : sim_at f (bw_write_all f b) (bw_write_all None b) s.
Proof.
  destruct (N.ltb_spec (Nlen b) (CAP - Nlen (s_buf s))) as [H1|H1].
  - apply (sim_ext f _ _ (buffer b) (buffer b)); try apply sim_same;
      unfold bw_write_all; destruct (N.ltb_spec (Nlen b) (CAP - Nlen (s_buf s))); try lia; reflexivity.
  - set (pre := fun g : fault => if CAP - Nlen (s_buf s) <? Nlen b then flush_buf g else ret).
    set (post := fun g : fault => if CAP <=? Nlen b then sink_write g b else buffer b).
    apply (sim_ext f _ _ (bindM (pre f) (post f)) (bindM (pre None) (post None)));
      try (unfold bw_write_all, pre, post; destruct (N.ltb_spec (Nlen b) (CAP - Nlen (s_buf s))); try lia; reflexivity).
    apply sim_bind.
    + unfold pre. destruct (CAP - Nlen (s_buf s) <? Nlen b); [apply sim_flush_buf|apply sim_same].
    + intros s1 E1. unfold post. destruct (N.leb_spec CAP (Nlen b)) as [H3|H3]; [|apply sim_same].
      apply sim_sink_write_empty. unfold pre in E1.
      destruct (N.ltb_spec (CAP - Nlen (s_buf s)) (Nlen b)) as [H2|H2].
      * exact (flush_buf_ok_buf f s s1 E1).
      * unfold ret in E1. inversion E1; subst s1.
        destruct (s_buf s) as [|x l] eqn:Eb; [reflexivity|]. exfalso. unfold Nlen in *. cbn [length] in *. unfold CAP in *.
        rewrite Nat2N.inj_succ in *. lia.
    + unfold post. destruct (CAP <=? Nlen b); [apply grows_sink_write|apply grows_buffer].
Qed.

Lemma sim_copy_loop f : forall fuel b s, sim_at f (copy_loop fuel f b) (copy_loop fuel None b) s.
Proof.
  induction fuel as [|fu IH]; intros b s; [apply sim_same|].
  destruct (CAP <=? CAP - Nlen (s_buf s)) eqn:E.
  - destruct b as [|x b'].
    + apply (sim_ext f _ _ ret ret); [cbn [copy_loop]; now rewrite E|cbn [copy_loop]; now rewrite E|apply sim_same].
    + set (n := N.to_nat (CAP - Nlen (s_buf s))).
      apply (sim_ext f _ _ (bindM (buffer (firstn n (x :: b'))) (copy_loop fu f (skipn n (x :: b'))))
                           (bindM (buffer (firstn n (x :: b'))) (copy_loop fu None (skipn n (x :: b')))));
        [cbn [copy_loop]; now rewrite E|cbn [copy_loop]; now rewrite E|].
      apply sim_bind; [apply sim_same|intros s1 _; apply IH|apply grows_copy_loop].
  - apply (sim_ext f _ _ (bindM (flush_buf f) (copy_loop fu f b)) (bindM (flush_buf None) (copy_loop fu None b)));
      [cbn [copy_loop]; now rewrite E|cbn [copy_loop]; now rewrite E|].
    apply sim_bind; [apply sim_flush_buf|intros s1 _; apply IH|apply grows_copy_loop].
Qed.

Lemma sim_unwrapped f u (mf mN : M) s : sim_at f mf mN s ->
  sim_at f (fun s => unwrapped u (mf s)) (fun s => unwrapped u (mN s)) s.
Proof.
  intros Hm r s' H. cbv beta in H. destruct (mf s) as [r1 s1] eqn:E1.
  destruct (Hm r1 s1 E1) as [rN [sN [EN [[-> ->]|[Hne Hst]]]]]; cbv beta; rewrite EN.
  - exists r, s'. split; [exact H|left; split; reflexivity].
  - assert (Hs : s' = s1) by (unfold unwrapped in H; destruct r1; [|destruct u| |]; inversion H; reflexivity).
    subst s'. destruct (unwrapped u (rN, sN)) as [r2 s2] eqn:E2.
    assert (HsN : s2 = sN) by (unfold unwrapped in E2; destruct rN; [|destruct u| |]; inversion E2; reflexivity).
    subst s2. exists r2, sN. split; [reflexivity|]. right. split; [|exact Hst].
    unfold unwrapped in H. destruct r1 as [[]| | |]; [congruence|destruct u| |]; inversion H; discriminate.
Qed.

Lemma sim_exec1 f c s : sim_at f (exec1 f c) (exec1 None c) s.
Proof.
  destruct c as [u b|u b|t|]; cbn [exec1].
  - apply (sim_unwrapped f u (bw_write_all f b) (bw_write_all None b)). apply sim_write_all.
  - apply (sim_unwrapped f u (bw_copy f b) (bw_copy None b)). unfold bw_copy. apply sim_copy_loop.
  - unfold bw_seek. apply sim_bind; [apply sim_flush_buf| |intros s0; apply grows_sink].
    intros s1 E1.
    apply (sim_ext f _ _ (sink f (SSeek (target t s1))) (sink None (SSeek (target t s1)))); [reflexivity|reflexivity|].
    apply sim_sink. left. exact (flush_buf_ok_buf f s s1 E1).
  - unfold bw_flush. apply sim_bind; [apply sim_flush_buf| |intros s0; apply grows_sink].
    intros s1 E1. unfold sink_flush. apply sim_sink. left. exact (flush_buf_ok_buf f s s1 E1).
Qed.

Lemma sim_exec f cs : forall s, sim_at f (exec f cs) (exec None cs) s.
Proof.
  induction cs as [|c cs IH]; intros s; cbn [exec]; [apply sim_same|].
  apply sim_bind; [apply sim_exec1|intros s1 _; apply IH|apply grows_exec].
Qed.

(* once the failure has happened the sink operations succeed again *)
Lemma fired_no_hit f s kind : fired f s -> hit f kind (cnt kind s) = false.
Proof.
  unfold fired, hit. destruct f as [[kd k]|]; [|reflexivity]. intros [_ Hk].
  destruct (N.eqb_spec kd kind) as [->|]; [|reflexivity]. cbn [andb]. apply Nat.eqb_neq. lia.
Qed.
Lemma flush_buf_fired f s : fired f s -> flush_buf f s = flush_buf None s.
Proof.
  intros Hf. unfold flush_buf. destruct (s_buf s) as [|x b]; [reflexivity|].
  unfold bindM, sink_write, sink. rewrite (fired_no_hit f s _ Hf). reflexivity.
Qed.

(* ---- the theorem ---- *)
Theorem fault_prefix f status cs : prefix (snd (run f status cs)) (snd (run None status cs)).
Proof.
  unfold run. destruct (exec f cs st0) as [r s'] eqn:E.
  destruct (sim_exec f cs st0 r s' E) as [rN [sN [EN [[-> ->]|[Hne (Hf & Hp & Hb)]]]]]; rewrite EN.
  - (* no failure during the calls: the drop *)
    destruct (flush_buf f sN) as [r2 s2] eqn:E2.
    destruct (sim_flush_buf f sN r2 s2 E2) as [r3 [s3 [E3 [[-> ->]|[_ (_ & Hp2 & _)]]]]]; rewrite E3; cbn [snd].
    + apply prefix_refl.
    + exact Hp2.
  - (* the failure happened: the drop writes the buffer if there is one *)
    rewrite (flush_buf_fired f s' Hf).
    destruct (flush_buf None sN) as [r3 s3] eqn:E3. pose proof (grows_flush_buf None sN r3 s3 E3) as G3.
    unfold flush_buf. destruct (s_buf s') as [|x b] eqn:Eb; cbn [ret snd].
    + eapply prefix_trans; [exact Hp|exact G3].
    + unfold bindM, sink_write, sink. cbn [hit]. unfold upd. cbn [snd set_buf emit bump s_ops].
      destruct Hb as [Hb|Hb]; [discriminate|]. eapply prefix_trans; [exact Hb|exact G3].
Qed.
