(* C20 in binary64: the sums the Python-binding array routines accumulate in f64 (Model/PyArraysIeee.v,
   IEEE operations of Base/Float.v) denote exactly the whole-number sums (in eighths) that Model/PyArrays.v
   forms, on the generator's domain: values multiples of 1/8 with |v| <= 1024, at most 2^24 bases per bin.
   Uses the generic grid lemmas of Proofs/FloatExact.v ([fold_sum_grid], [gval_fadd], [mode_ok64_ieee]).
   (a) any carrier of the values (e.g. the pair an f32 pattern decodes to): the accumulated f64 is finite and
       denotes exactly the model's sum ([gval E (-3) x k]: x = k/8);
   (b) the canonical carrier [f8 z]: the accumulated pair IS [f8 sum], so the mean cell is Base/Float.v's
       division applied to exactly the numerator and denominator of the model's cell [OQ sum count]. *)
From BT Require Import Base.Util Base.Float Model.PyArrays Model.PyArraysIeee
  Proofs.BwSummary Proofs.C06FileFloat Proofs.FloatExact Proofs.PyArraysWig.
Local Open Scope Z_scope.

(* ---------------- whole-number bookkeeping *)
Lemma fold_add_acc {T} (f : T -> Z) l : forall a, fold_left (fun a t => a + f t) l a = a + zsum (map f l).
Proof.
  induction l as [|t l IH]; intros a; cbn [fold_left map zsum fold_right]; [lia|].
  rewrite IH. unfold zsum. lia.
Qed.
Lemma py_sum_exact_zsum l : py_sum_exact l = zsum (map (fun t => fst t * snd t) l).
Proof. unfold py_sum_exact. rewrite (fold_add_acc (fun t => fst t * snd t)). lia. Qed.
Lemma py_count_zsum l : py_count l = zsum (map fst l).
Proof. unfold py_count. rewrite (fold_add_acc fst). lia. Qed.

Definition contrib_ok (t : Z * Z) : Prop := 0 <= fst t /\ Z.abs (snd t) <= 8192.
Lemma py_in_domain_spec l : py_in_domain l = true -> Forall contrib_ok l /\ py_count l <= 2 ^ 24.
Proof.
  unfold py_in_domain. intros H. apply andb_prop in H. destruct H as (H1 & H2). apply Z.leb_le in H2.
  split; [|exact H2]. rewrite Forall_forall. intros t Ht. rewrite forallb_forall in H1. specialize (H1 t Ht).
  apply andb_prop in H1. destruct H1 as (A & B). apply Z.leb_le in A, B. split; assumption.
Qed.

Definition lenN (t : Z * Z) : N := Z.to_N (fst t).
Lemma ksum_py l : Forall contrib_ok l -> ksum lenN snd l = py_sum_exact l.
Proof.
  intros H. rewrite py_sum_exact_zsum. unfold ksum. f_equal. apply map_ext_in. intros t Ht.
  rewrite Forall_forall in H. destruct (H t Ht) as (A & _). unfold lenN. rewrite Z2N.id by exact A. reflexivity.
Qed.
Lemma kabs_py l : Forall contrib_ok l -> kabs lenN snd l <= 8192 * py_count l.
Proof.
  rewrite py_count_zsum. unfold kabs. induction 1 as [|t l (A & B) _ IH]; cbn [map zsum fold_right]; [lia|].
  unfold zsum in IH. unfold lenN at 1. rewrite Z2N.id by exact A. nia.
Qed.
Lemma py_count_nonneg l : Forall contrib_ok l -> 0 <= py_count l.
Proof.
  rewrite py_count_zsum. induction 1 as [|t l (A & _) _ IH]; cbn [map zsum fold_right]; [lia|]. unfold zsum in IH. lia.
Qed.
Lemma py_sum_bound l : Forall contrib_ok l -> Z.abs (py_sum_exact l) <= 8192 * py_count l.
Proof. intros H. rewrite <- (ksum_py l H). pose proof (ksum_le_kabs lenN snd l). pose proof (kabs_py l H). lia. Qed.

(* ---------------- (a) any carrier: the accumulation of one bin of to_array_bins *)
Section Carrier.
Variable v64 : Z -> Float.fl.                 (* the f64 `interval.value as f64` of a value given in eighths *)
Definition lift (l : list (Z * Z)) : list (Z * Float.fl) := map (fun t => (fst t, v64 (snd t))) l.

Lemma f_of_Z_N sz : 0 <= sz -> f_of_Z sz = f_of_N (Z.to_N sz).
Proof. intros H. unfold f_of_Z, f_of_N. rewrite Z2N.id by exact H. reflexivity. Qed.

Lemma py_sum_is_step_sum fp l : Forall contrib_ok l -> forall a,
  fold_left (sum_step64 fp) (lift l) a = fold_left (step_sum lenN (fun t => v64 (snd t)) fp) l a.
Proof.
  induction 1 as [|t l (A & _) _ IH]; intros a; [reflexivity|]. cbn [lift map fold_left]. fold (lift l). rewrite <- IH.
  f_equal. unfold sum_step64, step_sum, lenN. cbn [fst snd]. rewrite (f_of_Z_N _ A). reflexivity.
Qed.

Theorem py_sum_grid fp E l : E <= -3 -> mode_ok64 fp E (-3) ->
  py_in_domain l = true -> (forall t, In t l -> gval E (-3) (v64 (snd t)) (snd t)) ->
  gval E (-3) (py_sum_ieee fp (lift l)) (py_sum_exact l).
Proof.
  intros HE Hfp Hd Hv. destruct (py_in_domain_spec l Hd) as (Hok & Hc).
  unfold py_sum_ieee. rewrite (py_sum_is_step_sum fp l Hok).
  assert (Hz : gval E (-3) fzero 0) by (apply gval_zero; lia).
  pose proof (fold_sum_grid lenN (fun t => v64 (snd t)) snd fp E (-3) HE Hfp l fzero 0) as H.
  rewrite (ksum_py l Hok), Z.add_0_l in H. apply H; [rewrite Forall_forall; exact Hv|exact Hz|].
  pose proof (kabs_py l Hok). unfold P53. change (2 ^ 24) with 16777216 in Hc. change (2 ^ 53) with 9007199254740992.
  cbn [Z.abs]. lia.
Qed.
End Carrier.

(* ---------------- (b) the canonical carrier *)
Lemma canon_small m : m <> 0 -> Z.abs m < 2 ^ 53 -> round_dy 53 (-1074) 1024 m (-3) = FFin m (-3).
Proof.
  intros Hm Hb. apply round_canon; [exact Hm|]. split; [exact Hb|]. split; [lia|].
  pose proof (bitlen_le m 53 ltac:(lia) Hb). lia.
Qed.
Lemma round_zero e : round_dy 53 (-1074) 1024 0 e = FFin 0 0.
Proof. reflexivity. Qed.
Lemma r64_f8 m : Z.abs m < 2 ^ 53 -> round_dy 53 (-1074) 1024 m (-3) = f8 m.
Proof.
  intros Hb. unfold f8. destruct (Z.eqb_spec m 0) as [->|Hm]; [reflexivity|]. apply canon_small; assumption.
Qed.

Lemma fadd_f8 a b : Z.abs (a + b) < 2 ^ 53 -> fadd64 ieee (f8 a) (f8 b) = f8 (a + b).
Proof.
  intros Hb. unfold f8 at 1 2. unfold fadd64, fadd_with, fzero, align. cbn [ieee r64].
  destruct (Z.eqb_spec a 0) as [->|Ha]; destruct (Z.eqb_spec b 0) as [->|Hb0].
  - reflexivity.
  - change (Z.min 0 (-3)) with (-3). change (0 - -3) with 3. change (-3 - -3) with 0.
    rewrite Z.shiftl_0_l, Z.shiftl_0_r. apply r64_f8. exact Hb.
  - change (Z.min (-3) 0) with (-3). change (0 - -3) with 3. change (-3 - -3) with 0.
    rewrite Z.shiftl_0_l, Z.shiftl_0_r. apply r64_f8. exact Hb.
  - change (Z.min (-3) (-3)) with (-3). change (-3 - -3) with 0. rewrite !Z.shiftl_0_r. apply r64_f8. exact Hb.
Qed.
Lemma fmul_f8 n k : Z.abs (n * k) < 2 ^ 53 -> fmul64 ieee (f_of_Z n) (f8 k) = f8 (n * k).
Proof.
  intros Hb. unfold f8 at 1. unfold fmul64, fmul_with, f_of_Z, fzero. cbn [ieee r64].
  destruct (Z.eqb_spec k 0) as [->|Hk].
  - rewrite Z.mul_0_r. reflexivity.
  - change (0 + -3) with (-3). apply r64_f8. exact Hb.
Qed.

(* the IEEE accumulation of a bin on canonical carriers IS the canonical carrier of the exact sum *)
Lemma py_sum_f8_acc : forall l a, Forall contrib_ok l -> Z.abs a + 8192 * py_count l < 2 ^ 53 ->
  fold_left (sum_step64 ieee) (lift f8 l) (f8 a) = f8 (a + py_sum_exact l).
Proof.
  induction l as [|t l IH]; intros a Hl Hb.
  - cbn [lift map fold_left]. rewrite py_sum_exact_zsum. cbn [map zsum fold_right]. f_equal. lia.
  - inversion Hl as [|? ? (A & B) Hr]; subst. cbn [lift map fold_left]. fold (lift f8 l).
    rewrite py_count_zsum in Hb. cbn [map zsum fold_right] in Hb. fold (zsum (map fst l)) in Hb. rewrite <- py_count_zsum in Hb.
    pose proof (py_count_nonneg l Hr) as Hn.
    assert (Hp : Z.abs (fst t * snd t) <= 8192 * fst t) by (rewrite Z.abs_mul, (Z.abs_eq (fst t)) by exact A; nia).
    unfold sum_step64 at 2. cbn [fst snd]. rewrite fmul_f8 by lia. rewrite fadd_f8 by lia.
    rewrite IH; [|exact Hr|lia]. f_equal. rewrite !py_sum_exact_zsum. cbn [map zsum fold_right]. unfold zsum. lia.
Qed.
Theorem py_sum_f8 l : py_in_domain l = true -> py_sum_ieee ieee (lift f8 l) = f8 (py_sum_exact l).
Proof.
  intros Hd. destruct (py_in_domain_spec l Hd) as (Hok & Hc). unfold py_sum_ieee.
  change fzero with (f8 0). rewrite py_sum_f8_acc; [reflexivity|exact Hok|].
  change (2 ^ 24) with 16777216 in Hc. change (2 ^ 53) with 9007199254740992. cbn [Z.abs]. lia.
Qed.
Lemma lift_count v64 l : fold_left (fun a (t : Z * Float.fl) => a + fst t) (lift v64 l) 0 = py_count l.
Proof.
  unfold py_count. generalize 0. induction l as [|t l IH]; intros a; [reflexivity|]. cbn [lift map fold_left fst]. apply IH.
Qed.
Theorem py_mean_f8 l : py_in_domain l = true ->
  py_mean_ieee ieee (lift f8 l) = fdiv64 ieee (f8 (py_sum_exact l)) (f_of_Z (py_count l)).
Proof. intros Hd. unfold py_mean_ieee. rewrite lift_count, (py_sum_f8 l Hd). reflexivity. Qed.

(* [f8 z] denotes z/8 *)
Lemma gval_f8 E z : E <= -3 -> gval E (-3) (f8 z) z.
Proof.
  intros HE. unfold f8. destruct (Z.eqb_spec z 0) as [->|_]; [apply gval_zero; lia|].
  split; [cbn [fin_ge]; exact HE|reflexivity].
Qed.

(* ---------------- the tie to Model/PyArrays.v: the Mean arm of wig_upd, folded over the items of one bin *)
Section Bin.
Variables (is_ ie : wval -> Z) (bs be : Z).
Notation contribs := (wig_contribs is_ ie bs be).

Lemma wig_model_fold : forall items c s,
  foldM (fun d iv => wig_upd Mean (is_ iv) (ie iv) (w_val iv) bs be d) items (Some (c, FV s))
  = Ok (Some (c + py_count (contribs items), FV (s + py_sum_exact (contribs items)))).
Proof.
  induction items as [|iv r IH]; intros c s.
  - cbn [foldM wig_contribs map]. rewrite py_count_zsum, py_sum_exact_zsum. cbn [map zsum fold_right]. rewrite !Z.add_0_r. reflexivity.
  - cbn [foldM]. rewrite wig_upd_u. cbn [rbind]. unfold wig_u. cbn [fst snd PyArrays.fadd]. rewrite IH. do 3 f_equal.
    + rewrite !py_count_zsum. unfold wig_contribs; cbn [map zsum fold_right fst]. unfold zsum. lia.
    + f_equal. rewrite !py_sum_exact_zsum. unfold wig_contribs; cbn [map zsum fold_right fst snd]. unfold zsum. lia.
Qed.
Lemma wig_model_fold_none iv r :
  foldM (fun d iv => wig_upd Mean (is_ iv) (ie iv) (w_val iv) bs be d) (iv :: r) None
  = Ok (Some (py_count (contribs (iv :: r)), FV (py_sum_exact (contribs (iv :: r))))).
Proof.
  cbn [foldM]. rewrite wig_upd_u. cbn [rbind]. unfold wig_u. cbn [fst snd PyArrays.fadd]. rewrite wig_model_fold. do 3 f_equal.
  - rewrite !py_count_zsum. unfold wig_contribs; cbn [map zsum fold_right fst]. unfold zsum. lia.
  - f_equal. rewrite !py_sum_exact_zsum. unfold wig_contribs; cbn [map zsum fold_right fst snd]. unfold zsum. lia.
Qed.

Variable v64 : Z -> Float.fl.
Lemma wig_ieee_fold fp : forall items c v,
  fold_left (fun d iv => wig_mean_upd64 fp (is_ iv) (ie iv) (v64 (w_val iv)) bs be d) items (Some (c, v))
  = Some (fold_left (fun a (t : Z * Float.fl) => a + fst t) (lift v64 (contribs items)) c,
          fold_left (sum_step64 fp) (lift v64 (contribs items)) v).
Proof.
  induction items as [|iv r IH]; intros c v; [reflexivity|].
  cbn [fold_left wig_contribs map lift]. unfold wig_mean_upd64 at 2. cbn [fst snd]. rewrite IH. reflexivity.
Qed.
Lemma wig_ieee_fold_none fp iv r :
  fold_left (fun d iv => wig_mean_upd64 fp (is_ iv) (ie iv) (v64 (w_val iv)) bs be d) (iv :: r) None
  = Some (py_count (contribs (iv :: r)), py_sum_ieee fp (lift v64 (contribs (iv :: r)))).
Proof.
  cbn [fold_left]. unfold wig_mean_upd64 at 2. cbn [fst snd]. rewrite wig_ieee_fold. f_equal. f_equal.
  rewrite <- (lift_count v64). reflexivity.
Qed.
End Bin.

(* one bin of to_array_bins, Summary::Mean, on the domain: model cell and f64 cell *)
Theorem wig_mean_cell is_ ie bs be iv r missing m64 :
  let items := iv :: r in
  let l := wig_contribs is_ ie bs be items in
  py_in_domain l = true ->
  (exists d, foldM (fun d iv => wig_upd Mean (is_ iv) (ie iv) (w_val iv) bs be d) items None = Ok d
             /\ wig_fin Mean missing d = fdiv (FV (py_sum_exact l)) (py_count l))
  /\ wig_mean_fin64 ieee m64
       (fold_left (fun d iv => wig_mean_upd64 ieee (is_ iv) (ie iv) (f8 (w_val iv)) bs be d) items None)
     = fdiv64 ieee (f8 (py_sum_exact l)) (f_of_Z (py_count l)).
Proof.
  intros items l Hd. split.
  - eexists. split; [apply wig_model_fold_none|]. reflexivity.
  - unfold items. rewrite wig_ieee_fold_none. cbn [wig_mean_fin64]. fold items. fold l. rewrite (py_sum_f8 l Hd). reflexivity.
Qed.

(* ---------------- to_entry_array_bins: the per-base depth cells of a bin *)
(* a model cell and the f64 it stands for *)
Definition cell_rel (E : Z) (x : PyArrays.fl) (y : Float.fl) : Prop :=
  match x with PyArrays.FNaN => y = Float.FNaN | FV z => gval E (-3) y z end.
Definition c64 (x : PyArrays.fl) : Float.fl := match x with PyArrays.FNaN => Float.FNaN | FV z => f8 z end.
Lemma cell_rel_c64 E x : E <= -3 -> cell_rel E x (c64 x).
Proof. intros HE. destruct x as [|z]; [reflexivity|]. apply gval_f8. exact HE. Qed.

Lemma gval_fmax0 E y z : E <= -3 -> gval E (-3) y z -> gval E (-3) (Float.fmax y fzero) (Z.max z 0).
Proof.
  intros HE (F & V). assert (Fz : fin_ge E fzero) by (cbn [fzero fin_ge]; lia).
  destruct (fmax_val E y fzero F Fz) as (F' & V' & _). split; [exact F'|]. rewrite V', V.
  assert (P : 0 < 2 ^ (-3 - E)) by (apply Z.pow_pos_nonneg; lia).
  cbn [fzero fval]. rewrite Z.mul_0_l. destruct (Z.max_spec z 0) as [(A & ->)|(A & ->)]; nia.
Qed.
Lemma cell_max0 E x y : E <= -3 -> cell_rel E x y -> gval E (-3) (Float.fmax y fzero) (cell_z x).
Proof.
  intros HE H. destruct x as [|z]; cbn [cell_rel cell_z] in *.
  - subst y. apply gval_zero. lia.
  - apply gval_fmax0; assumption.
Qed.
(* the cell update  cell.max(0.0) + 1.0  is exact *)
Lemma bed_cell_step fp E x y : E <= -3 -> mode_ok64 fp E (-3) -> cell_rel E x y -> cell_z x + 8 < P53 ->
  cell_rel E (PyArrays.fadd (PyArrays.fmax x (FV 0)) (FV 8)) (bed_cell_upd64 fp y).
Proof.
  intros HE Hfp H Hb. pose proof (cell_max0 E x y HE H) as Hm.
  assert (H1 : gval E (-3) (FFin 1 0) 8).
  { split; [cbn [fin_ge]; lia|]. cbn [fval]. replace (0 - E) with (3 + (-3 - E)) by lia. rewrite Z.pow_add_r by lia. change (2 ^ 3) with 8. lia. }
  assert (Hz : 0 <= cell_z x) by (destruct x; cbn [cell_z]; lia).
  pose proof (gval_fadd fp E (-3) _ _ _ _ Hfp Hm H1 ltac:(rewrite Z.abs_eq by lia; exact Hb)) as Hs.
  destruct x as [|z]; cbn [PyArrays.fmax PyArrays.fadd cell_rel cell_z] in *; exact Hs.
Qed.

Lemma py_cells_spec cells : py_cells_in_domain cells = true ->
  Forall (fun x => 0 <= cell_z x <= 8 * 2 ^ 24) cells /\ Z.of_nat (length cells) <= 2 ^ 24.
Proof.
  unfold py_cells_in_domain. intros H. apply andb_prop in H. destruct H as (H1 & H2). apply Z.leb_le in H2.
  split; [|exact H2]. rewrite Forall_forall. intros x Hx. rewrite forallb_forall in H1. specialize (H1 x Hx).
  destruct x as [|z]; cbn [cell_z]; [lia|]. apply Z.leb_le in H1. lia.
Qed.
Lemma bed_sum_exact_acc cells : forall a, fold_left Z.add (map cell_z cells) a = a + bed_sum_exact cells.
Proof.
  unfold bed_sum_exact. induction cells as [|x r IH]; intros a; cbn [map fold_left]; [lia|].
  rewrite IH, (IH (0 + cell_z x)). lia.
Qed.
Lemma bed_sum_bound cells : Forall (fun x => 0 <= cell_z x <= 8 * 2 ^ 24) cells ->
  0 <= bed_sum_exact cells <= 8 * 2 ^ 24 * Z.of_nat (length cells).
Proof.
  induction 1 as [|x r Hx _ IH]; [unfold bed_sum_exact; cbn; lia|].
  unfold bed_sum_exact in *. cbn [map fold_left length]. rewrite bed_sum_exact_acc. unfold bed_sum_exact. lia.
Qed.

(* the final sum of a bin, any carriers *)
Theorem bed_sum_grid fp E : E <= -3 -> mode_ok64 fp E (-3) -> forall cells ys,
  py_cells_in_domain cells = true -> Forall2 (cell_rel E) cells ys ->
  gval E (-3) (bed_sum64 fp ys) (bed_sum_exact cells).
Proof.
  intros HE Hfp cells ys Hd Hr. destruct (py_cells_spec cells Hd) as (Hc & Hn).
  pose proof (bed_sum_bound cells Hc) as Hb.
  assert (Hlim : bed_sum_exact cells < P53).
  { unfold P53. change (2 ^ 24) with 16777216 in *. change (2 ^ 53) with 9007199254740992. nia. }
  clear Hd Hn Hb. unfold bed_sum64.
  assert (G : forall a ka, gval E (-3) a ka -> 0 <= ka -> ka + bed_sum_exact cells < P53 ->
              gval E (-3) (fold_left (fadd64 fp) (map (fun x => Float.fmax x fzero) ys) a) (ka + bed_sum_exact cells)).
  { clear Hlim. induction Hr as [|x y cells ys Hxy _ IH]; intros a ka Ha Hk Hl.
    - unfold bed_sum_exact. cbn [map fold_left]. rewrite Z.add_0_r. exact Ha.
    - inversion Hc as [|? ? Hx Hc']; subst. cbn [map fold_left].
      unfold bed_sum_exact in Hl |- *. cbn [map fold_left] in Hl |- *. rewrite bed_sum_exact_acc in Hl |- *.
      pose proof (bed_sum_bound cells Hc') as Hb.
      rewrite Z.add_0_l, Z.add_assoc. apply IH; [exact Hc'| |lia|lia].
      apply gval_fadd; [exact Hfp|exact Ha|apply cell_max0; assumption|]. rewrite Z.abs_eq by lia. lia. }
  specialize (G fzero 0 (gval_zero E (-3) ltac:(lia)) ltac:(lia) ltac:(lia)). rewrite Z.add_0_l in G. exact G.
Qed.

(* ... and on canonical carriers the pair itself *)
Lemma fmax_c64 x : Float.fmax (c64 x) fzero = f8 (cell_z x).
Proof.
  destruct x as [|z]; [reflexivity|]. cbn [c64 cell_z]. unfold f8. destruct (Z.eqb_spec z 0) as [->|Hz]; [reflexivity|].
  unfold Float.fmax, fcmp, align, fzero. change (Z.min (-3) 0) with (-3). change (-3 - -3) with 0. change (0 - -3) with 3.
  rewrite Z.shiftl_0_r, Z.shiftl_0_l.
  destruct (Z.compare_spec z 0) as [C|C|C]; [exfalso; exact (Hz C)| |].
  - rewrite Z.max_r by lia. reflexivity.
  - rewrite Z.max_l by lia. destruct (Z.eqb_spec z 0) as [C'|_]; [exfalso; lia|reflexivity].
Qed.
Theorem bed_sum_f8 cells : py_cells_in_domain cells = true ->
  bed_sum64 ieee (map c64 cells) = f8 (bed_sum_exact cells).
Proof.
  intros Hd. destruct (py_cells_spec cells Hd) as (Hc & Hn). pose proof (bed_sum_bound cells Hc) as Hb.
  assert (Hlim : bed_sum_exact cells < 2 ^ 53).
  { change (2 ^ 24) with 16777216 in *. change (2 ^ 53) with 9007199254740992. nia. }
  clear Hd Hn Hb. unfold bed_sum64. rewrite map_map.
  assert (G : forall a, 0 <= a -> a + bed_sum_exact cells < 2 ^ 53 ->
              fold_left (fadd64 ieee) (map (fun x => Float.fmax (c64 x) fzero) cells) (f8 a) = f8 (a + bed_sum_exact cells)).
  { clear Hlim. induction Hc as [|x r Hx Hr IH]; intros a Ha Hl.
    - unfold bed_sum_exact. cbn [map fold_left]. rewrite Z.add_0_r. reflexivity.
    - unfold bed_sum_exact in Hl |- *. cbn [map fold_left] in Hl |- *. rewrite bed_sum_exact_acc in Hl |- *.
      pose proof (bed_sum_bound r Hr) as Hb.
      rewrite fmax_c64, fadd_f8 by (rewrite Z.abs_eq by lia; lia). rewrite IH by lia. f_equal. lia. }
  specialize (G 0 ltac:(lia) ltac:(lia)). rewrite Z.add_0_l in G. exact G.
Qed.

(* the model's final sum [fsum0] is the whole-number sum *)
Lemma fsum0_acc cells : forall a,
  fold_left PyArrays.fadd (map (fun x => PyArrays.fmax x (FV 0)) cells) (FV a) = FV (a + bed_sum_exact cells).
Proof.
  induction cells as [|x r IH]; intros a; cbn [map fold_left].
  - unfold bed_sum_exact. cbn [map fold_left]. rewrite Z.add_0_r. reflexivity.
  - unfold bed_sum_exact. cbn [map fold_left]. rewrite bed_sum_exact_acc.
    destruct x as [|z]; cbn [PyArrays.fmax PyArrays.fadd cell_z]; rewrite IH; f_equal; lia.
Qed.
Lemma fsum0_exact cells : fsum0 cells = FV (bed_sum_exact cells).
Proof. unfold fsum0. rewrite fsum0_acc. reflexivity. Qed.

(* one bin of to_entry_array_bins, Summary::Mean: the model's cell and the f64 cell *)
Theorem bed_mean_cell missing m64 cov cells : py_cells_in_domain cells = true ->
  existsb (fun c => 0 <? c) cov = true ->
  bed_fin Mean missing (cov, cells) = fdiv (FV (bed_sum_exact cells)) (fold_left Z.add cov 0)
  /\ bed_mean64 ieee m64 cov (map c64 cells) = fdiv64 ieee (f8 (bed_sum_exact cells)) (f_of_Z (fold_left Z.add cov 0)).
Proof.
  intros Hd He. split.
  - cbn [bed_fin]. unfold bed_mean. cbn [fst snd]. rewrite He. f_equal. apply fsum0_exact.
  - unfold bed_mean64. rewrite He, (bed_sum_f8 cells Hd). reflexivity.
Qed.
