(* The autoSql parser model parses every text the generator [bed_autosql] emits, for EVERY number n
   of extra columns, to exactly one declaration ("table bed") with 3 + n fields.

   Method.  One turn of the parser's field loop on a line of the plain shape
       blank*  basic-type ( '[' size ']' )?  name  ';'  quoted-comment
   is described by a fuel-free structural function [step_field] ([field_loop_step]); the same for
   the declaration head ([step_decl_head], [parse_declaration_head]).  Whether a given line has the
   plain shape, and what field it yields, is then a computation on the line followed by an
   ARBITRARY tail r: the tokens of the line end inside the line.  That computation is run on the
   three field lines of the header and on every entry of the FIELDS table as translated from the
   Rust source (so it is re-run when they change); for the line pushed for undocumented column i
   the name token  field<i+4>  is handled symbolically (decimal digits are not delimiters).  The
   theorem follows by induction over the list of lines. *)
From BT Require Import Base.Util Generated.Consts Model.AutoSql Proofs.AutoSqlLex Proofs.AutoSqlGen.
Local Open Scope nat_scope.

Notation rlen p := (length (rest p)).

(* ------------------------------------------------------------------ length bookkeeping *)
Lemma skipn_le : forall (k : nat) (l : list N), length (skipn k l) <= length l.
Proof. intros k l. rewrite skipn_length. lia. Qed.

Ltac shrink :=
  cbn [rest];
  repeat first [ apply Nat.le_refl
               | eapply Nat.le_trans; [apply drop_ws_length|]
               | eapply Nat.le_trans; [apply skipn_le|]
               | eapply Nat.le_trans; [apply (skipn_le 1)|] ].
(* goal [length X < fuel] where X is the text of H : [length .. < fuel] after some drop_ws / skipn *)
Ltac fuel_ok H := eapply Nat.le_lt_trans; [|exact H]; shrink.

Lemma take_word : forall l,
  take (mkP l (length (word_of l))) = Ok (word_of l, mkP (skipn (length (word_of l)) l) 0).
Proof.
  intro l. destruct (word_of_prefix l) as [t Ht]. remember (word_of l) as w eqn:Hw. clear Hw.
  subst l. rewrite take_exact, skipn_app_exact. reflexivity.
Qed.

(* ------------------------------------------------------------------ no index keyword, no `auto` *)
Definition kw_free (w : list N) : bool :=
  negb (beq w K_primary || beq w K_index || beq w K_unique || beq w K_auto).

Lemma kw_free_inv : forall w, kw_free w = true ->
  beq w K_primary = false /\ beq w K_index = false /\ beq w K_unique = false /\ beq w K_auto = false.
Proof.
  intros w H. unfold kw_free in H. apply negb_true_iff in H.
  repeat (apply orb_false_iff in H; destruct H as [H ?]). auto.
Qed.

Lemma parse_index_auto_none : forall fuel p, rlen p < fuel ->
  kw_free (word_of (drop_ws (rest p))) = true ->
  parse_index_auto fuel p
  = Ok ((None, false), mkP (drop_ws (rest p)) (length (word_of (drop_ws (rest p))))).
Proof.
  intros fuel p H K. destruct (kw_free_inv _ K) as [K1 [K2 [K3 K4]]].
  unfold parse_index_auto. rewrite peek_word_spec by exact H. cbn [rbind].
  rewrite K1, K2, K3. cbn [rbind].
  rewrite peek_word_spec by (fuel_ok H). cbn [rbind rest]. rewrite drop_ws_idem, K4. reflexivity.
Qed.

(* ------------------------------------------------------------------ one turn of the field loop, fuel-free *)
(* basic type and optional [size]: the type, the size, and the text at which the name starts *)
Definition step_type (l : list N) : option (field_type * option (list N) * list N) :=
  let l0 := drop_ws l in
  let w := word_of l0 in
  match classify_type_word (map to_lower w) with
  | WBasic t =>
    let l1 := drop_ws (skipn (length w) l0) in
    if beq (firstn 1 l1) K_lbrack then
      let l2 := drop_ws (skipn 1 l1) in
      let size := word_of l2 in
      let l3 := drop_ws (skipn (length size) l2) in
      if beq (firstn 1 l3) K_rbrack then Some (t, Some size, skipn 1 l3) else None
    else Some (t, None, l1)
  | _ => None
  end.
(* after the name: no index keyword, the ';', the comment; returns the comment and what follows it *)
Definition step_tail (l : list N) : option (list N * list N) :=
  let l6 := drop_ws l in
  if kw_free (word_of l6) && beq (firstn 1 l6) K_semi then
    let l7 := drop_ws (skipn 1 l6) in
    let q := quoted_of l7 in Some (q, skipn (length q) l7)
  else None.
Definition step_field (l : list N) : option (field * list N) :=
  match step_type l with
  | Some (t, sz, l4) =>
    let l5 := drop_ws l4 in
    let name := word_of l5 in
    match step_tail (skipn (length name) l5) with
    | Some (q, r) => Some (mkField t sz name None false q, r)
    | None => None
    end
  | None => None
  end.

Lemma step_field_drop_ws : forall l, step_field (drop_ws l) = step_field l.
Proof. intro l. unfold step_field, step_type. rewrite drop_ws_idem. reflexivity. Qed.

Definition after_field (r : list N) : parser := mkP (drop_ws r) (length (firstn 1 (drop_ws r))).

(* the part of a turn that follows the name (the text of the model, verbatim) *)
Definition field_loop_rest (f fuel : nat) (ft : field_type) (sn : option (list N) * list N) (p3 : parser)
  (fs : list field) : res (list field * parser) :=
  do (ia, p4) <- parse_index_auto fuel p3;
  do (semicolon, p5) <- eat_one fuel p4;
  if negb (beq semicolon K_semi) then Err E_InvalidFieldCommentSeparater
  else
    do (comment, p6) <- eat_quoted_string fuel p5;
    let fields' := fs ++ [mkField ft (fst sn) (snd sn) (fst ia) (snd ia) comment] in
    do (nx, p7) <- peek_one fuel p6;
    if beq nx K_rparen then Ok (fields', p7) else field_list_loop f fuel p7 fields'.

Lemma field_loop_tail : forall f fuel ft sn p3 fs q r,
  rlen p3 < fuel -> step_tail (rest p3) = Some (q, r) ->
  field_loop_rest f fuel ft sn p3 fs =
    if beq (firstn 1 (drop_ws r)) K_rparen
    then Ok (fs ++ [mkField ft (fst sn) (snd sn) None false q], after_field r)
    else field_list_loop f fuel (after_field r) (fs ++ [mkField ft (fst sn) (snd sn) None false q]).
Proof.
  intros f fuel ft sn p3 fs q r H T. unfold step_tail in T.
  destruct (kw_free (word_of (drop_ws (rest p3)))) eqn:K; [|discriminate T].
  destruct (beq (firstn 1 (drop_ws (rest p3))) K_semi) eqn:SC; [|discriminate T].
  cbn [andb] in T. inversion T; subst q r; clear T.
  unfold field_loop_rest.
  rewrite parse_index_auto_none by assumption. cbn [rbind fst snd].
  rewrite eat_one_spec by (fuel_ok H). cbn [rbind rest]. rewrite drop_ws_idem, SC. cbn [negb].
  rewrite eat_quoted_string_spec by (fuel_ok H). cbn [rbind rest].
  rewrite peek_one_spec by (fuel_ok H). cbn [rbind rest]. reflexivity.
Qed.

Lemma field_loop_step : forall f fuel p fs fld r,
  rlen p < fuel -> step_field (rest p) = Some (fld, r) ->
  field_list_loop (S f) fuel p fs =
    if beq (firstn 1 (drop_ws r)) K_rparen then Ok (fs ++ [fld], after_field r)
    else field_list_loop f fuel (after_field r) (fs ++ [fld]).
Proof.
  intros f fuel p fs fld r H S. unfold step_field in S.
  destruct (step_type (rest p)) as [[[t sz] l4]|] eqn:ST; [|discriminate S].
  destruct (step_tail (skipn (length (word_of (drop_ws l4))) (drop_ws l4))) as [[q r0]|] eqn:TL; [|discriminate S].
  inversion S; subst fld r0; clear S.
  cbn [field_list_loop]. unfold try_parse. rewrite peek_word_spec by exact H. cbn [rbind].
  unfold step_type in ST.
  destruct (classify_type_word (map to_lower (word_of (drop_ws (rest p))))) as [t0| | |]; try discriminate ST.
  rewrite take_word. cbn [rbind].
  rewrite peek_one_spec by (fuel_ok H). cbn [rbind rest].
  destruct (beq (firstn 1 (drop_ws (skipn (length (word_of (drop_ws (rest p)))) (drop_ws (rest p))))) K_lbrack).
  - rewrite eat_one_spec by (fuel_ok H). cbn [rbind rest]. rewrite drop_ws_idem.
    rewrite eat_word_spec by (fuel_ok H). cbn [rbind rest].
    rewrite eat_one_spec by (fuel_ok H). cbn [rbind rest].
    match type of ST with (if beq ?a ?b then _ else _) = _ => destruct (beq a b) end; [|discriminate ST].
    inversion ST; subst t0 sz l4; clear ST. cbn [negb].
    rewrite eat_word_spec by (fuel_ok H). cbn [rbind rest].
    refine (field_loop_tail f fuel _ (_, _) (mkP _ 0) fs q r _ TL). fuel_ok H.
  - inversion ST; subst t0 sz l4; clear ST. rewrite drop_ws_idem in TL.
    rewrite eat_word_spec by (fuel_ok H). cbn [rbind rest]. rewrite drop_ws_idem.
    refine (field_loop_tail f fuel _ (_, _) (mkP _ 0) fs q r _ TL). fuel_ok H.
Qed.

(* ------------------------------------------------------------------ the declaration head, fuel-free *)
Definition decl_kind (w : list N) : option decl_type :=
  if beq w K_simple then Some Simple else if beq w K_object then Some Object
  else if beq w K_table then Some Table else None.

Definition step_decl_head (l : list N) : option (decl_type * list N * list N * list N) :=
  let l0 := drop_ws l in
  let w := word_of l0 in
  match decl_kind w with
  | None => None
  | Some dt =>
    let l1 := drop_ws (skipn (length w) l0) in
    let name := word_of l1 in
    let first := match name with c :: _ => c | [] => 32%N end in
    if negb (is_alpha first) || existsb (fun c => negb (is_alnum c)) name then None
    else
      let l2 := drop_ws (skipn (length name) l1) in
      if kw_free (word_of l2) then
        let q := quoted_of l2 in
        let l3 := drop_ws (skipn (length q) l2) in
        if beq (firstn 1 l3) K_lparen then Some (dt, name, q, skipn 1 l3) else None
      else None
  end.

Lemma parse_declaration_head : forall fuel p dt name q l4,
  rlen p < fuel -> step_decl_head (rest p) = Some (dt, name, q, l4) ->
  length l4 <= rlen p /\
  parse_declaration fuel p =
    do (fields, p5) <- parse_field_list fuel (mkP l4 0);
    do (closing_bracket, p6) <- eat_one fuel p5;
    if negb (beq closing_bracket K_rparen) then Err E_InvalidDeclareBrackets
    else Ok (Some (mkDecl dt (mkDN name None false) q fields), p6).
Proof.
  intros fuel p dt name q l4 H S. unfold step_decl_head in S.
  destruct (decl_kind (word_of (drop_ws (rest p)))) as [dt0|] eqn:DK; [|discriminate S].
  match type of S with (if ?c then _ else _) = _ => destruct c eqn:NM end; [discriminate S|].
  match type of S with (if ?c then _ else _) = _ => destruct c eqn:KW end; [|discriminate S].
  match type of S with (if ?c then _ else _) = _ => destruct c eqn:LP end; [|discriminate S].
  injection S as E1 E2 E3 E4. subst dt0.
  split; [subst l4; shrink|].
  unfold parse_declaration. rewrite eat_word_spec by exact H. cbn [rbind]. cbv zeta.
  assert (CONT : forall dt',
    (do (dn, p2) <- declare_name_parse fuel
                      (mkP (skipn (length (word_of (drop_ws (rest p)))) (drop_ws (rest p))) 0);
     do (comment, p3) <- eat_quoted_string fuel p2;
     do (opening_bracket, p4) <- eat_one fuel p3;
     if negb (beq opening_bracket K_lparen) then Err E_InvalidDeclareBrackets
     else
       do (fields, p5) <- parse_field_list fuel p4;
       do (closing_bracket, p6) <- eat_one fuel p5;
       if negb (beq closing_bracket K_rparen) then Err E_InvalidDeclareBrackets
       else Ok (Some (mkDecl dt' dn comment fields), p6))
    = (do (fields, p5) <- parse_field_list fuel (mkP l4 0);
       do (closing_bracket, p6) <- eat_one fuel p5;
       if negb (beq closing_bracket K_rparen) then Err E_InvalidDeclareBrackets
       else Ok (Some (mkDecl dt' (mkDN name None false) q fields), p6))).
  { intro dt'. subst name q l4. unfold declare_name_parse.
    rewrite eat_word_spec by (fuel_ok H). cbn [rbind rest]. rewrite NM.
    rewrite parse_index_auto_none by (first [exact KW | fuel_ok H]). cbn [rbind rest fst snd].
    rewrite eat_quoted_string_spec by (fuel_ok H). cbn [rbind rest]. rewrite drop_ws_idem.
    rewrite eat_one_spec by (fuel_ok H). cbn [rbind rest]. rewrite LP. cbn [negb]. reflexivity. }
  unfold decl_kind in DK.
  destruct (beq (word_of (drop_ws (rest p))) K_simple); [inversion DK; subst dt; apply CONT|].
  destruct (beq (word_of (drop_ws (rest p))) K_object); [inversion DK; subst dt; apply CONT|].
  destruct (beq (word_of (drop_ws (rest p))) K_table); [inversion DK; subst dt; apply CONT|].
  discriminate DK.
Qed.

(* ------------------------------------------------------------------ good lines *)
(* a line L of the plain shape: whatever text r follows it, one turn of the loop consumes L up to
   its final newline and yields a field that does not depend on r; and L does not start the
   closing bracket *)
Definition good_line (L : list N) : Prop :=
  1 <= length L /\
  exists fld, forall r,
    step_field (L ++ r) = Some (fld, 10%N :: r) /\ beq (firstn 1 (drop_ws (L ++ r))) K_rparen = false.

Definition line_field (L : list N) : field :=
  match step_field L with
  | Some (f, _) => f
  | None => mkField TInt None [] None false []
  end.

(* for a concrete line: by computation, the tail r being a variable *)
Ltac concrete_good_line :=
  split; [cbn [length]; lia|];
  match goal with |- exists fld, forall r, step_field (?L ++ r) = _ /\ _ =>
    exists (line_field L); intro r; split; vm_compute; reflexivity end.

Lemma drop_ws_nl : forall l, drop_ws (10%N :: l) = drop_ws l.
Proof. reflexivity. Qed.

(* the field loop over a non-empty list of good lines followed by ')' *)
Lemma field_loop_lines : forall lines, Forall good_line lines -> lines <> [] ->
  forall lf fuel p fs,
    length lines <= lf ->
    drop_ws (rest p) = drop_ws (concat lines ++ [41%N]) ->
    rlen p < fuel ->
    length (concat lines ++ [41%N]) < fuel ->
    exists flds, length flds = length lines /\
      field_list_loop lf fuel p fs = Ok (fs ++ flds, mkP [41%N] 1).
Proof.
  induction lines as [|L lines IH]; intros G NE lf fuel p fs Hlf Hp Hlen Hfuel; [exfalso; apply NE; reflexivity|].
  inversion G as [|? ? [HL [fld HS]] G']; subst.
  destruct lf as [|f]; [cbn [length] in Hlf; exfalso; lia|].
  cbn [concat] in *. rewrite <- app_assoc in *.
  destruct (HS (concat lines ++ [41%N])) as [HS1 _].
  assert (STEP : step_field (rest p) = Some (fld, 10%N :: concat lines ++ [41%N])).
  { rewrite <- step_field_drop_ws, Hp, step_field_drop_ws. exact HS1. }
  rewrite (field_loop_step f fuel p fs fld _ ltac:(lia) STEP).
  unfold after_field. rewrite drop_ws_nl.
  destruct lines as [|L2 lines'].
  - exists [fld]. split; [reflexivity|]. reflexivity.
  - inversion G' as [|? ? [HL2 [fld2 HS2]] G'']; subst.
    assert (NP : beq (firstn 1 (drop_ws (concat (L2 :: lines') ++ [41%N]))) K_rparen = false).
    { cbn [concat]. rewrite <- app_assoc. apply (HS2 (concat lines' ++ [41%N])). }
    rewrite NP.
    destruct (IH G' ltac:(discriminate) f fuel
                (mkP (drop_ws (concat (L2 :: lines') ++ [41%N]))
                     (length (firstn 1 (drop_ws (concat (L2 :: lines') ++ [41%N])))))
                (fs ++ [fld])) as [flds [Hn Hr]].
    + cbn [length] in *. lia.
    + cbn [rest]. apply drop_ws_idem.
    + cbn [rest]. eapply Nat.le_lt_trans; [apply drop_ws_length|]. rewrite !app_length in *. lia.
    + rewrite !app_length in *. lia.
    + exists (fld :: flds). split; [cbn [length]; rewrite Hn; reflexivity|].
      rewrite Hr, <- app_assoc. reflexivity.
Qed.

(* ------------------------------------------------------------------ the lines of the generator *)
(* the header is three head lines ("table bed", its comment, "(") and the three BED3 field lines *)
Fixpoint lines_of (cur : list N) (l : list N) : list (list N) :=
  match l with
  | [] => match cur with [] => [] | _ => [rev cur] end
  | c :: r => if (c =? 10)%N then rev (c :: cur) :: lines_of [] r else lines_of (c :: cur) r
  end.
Definition header_head : list N := Eval vm_compute in concat (firstn 3 (lines_of [] AUTOSQL_BED_HEADER)).
Definition header_fields : list (list N) := Eval vm_compute in skipn 3 (lines_of [] AUTOSQL_BED_HEADER).

Lemma header_split : AUTOSQL_BED_HEADER = header_head ++ concat header_fields.
Proof. vm_compute. reflexivity. Qed.
Lemma header_fields_count : length header_fields = 3.
Proof. reflexivity. Qed.

Lemma header_fields_good : Forall good_line header_fields.
Proof. repeat (constructor; [concrete_good_line|]). constructor. Qed.

Lemma table_fields_good : Forall good_line AUTOSQL_FIELDS.
Proof. repeat (constructor; [concrete_good_line|]). constructor. Qed.

Lemma header_head_step : forall X,
  step_decl_head (header_head ++ X)
  = Some (Table, [98; 101; 100]%N,
          [34; 66; 114; 111; 119; 115; 101; 114; 32; 69; 120; 116; 101; 110; 115; 105; 98; 108; 101; 32; 68; 97; 116; 97; 34]%N,
          10%N :: X).
Proof. intro X. vm_compute. reflexivity. Qed.

(* ---- the line of an undocumented column: "   lstring field" digits ";\t\"Undocumented field\"\n" ---- *)
Definition nondelim (c : N) : Prop := is_word_delimiter c = false.

Lemma span_nondelim_stop : forall w X, Forall nondelim w ->
  match X with [] => True | d :: _ => is_word_delimiter d = true end ->
  span_nondelim (w ++ X) = w.
Proof.
  induction w as [|c w IH]; intros X Hw HX.
  - destruct X as [|d X]; [reflexivity|]. cbn [app span_nondelim]. rewrite HX. reflexivity.
  - inversion Hw as [|? ? Hc Hw']; subst. cbn [app span_nondelim]. unfold nondelim in Hc. rewrite Hc.
    rewrite (IH X Hw' HX). reflexivity.
Qed.

Lemma uint_bytes_nondelim : forall u, Forall nondelim (uint_bytes u).
Proof. induction u; cbn [uint_bytes]; constructor; try assumption; reflexivity. Qed.

Definition undoc_stem : list N := [102; 105; 101; 108; 100]%N.       (* field *)

Lemma undoc_prefix_type : forall X,
  step_type (AUTOSQL_UNDOC_PREFIX ++ X) = Some (TLstring, None, undoc_stem ++ X)
  /\ beq (firstn 1 (drop_ws (AUTOSQL_UNDOC_PREFIX ++ X))) K_rparen = false.
Proof. intro X. split; vm_compute; reflexivity. Qed.

Lemma undoc_suffix_tail : forall r,
  step_tail (AUTOSQL_UNDOC_SUFFIX ++ r)
  = Some ([34; 85; 110; 100; 111; 99; 117; 109; 101; 110; 116; 101; 100; 32; 102; 105; 101; 108; 100; 34]%N, 10%N :: r)
  /\ match AUTOSQL_UNDOC_SUFFIX ++ r with [] => True | d :: _ => is_word_delimiter d = true end.
Proof. intro r. split; vm_compute; reflexivity. Qed.

Definition undoc_field (i : nat) : field :=
  mkField TLstring None (undoc_stem ++ dec_digits (N.of_nat i + AUTOSQL_UNDOC_OFFSET)%N) None false
          [34; 85; 110; 100; 111; 99; 117; 109; 101; 110; 116; 101; 100; 32; 102; 105; 101; 108; 100; 34]%N.

Lemma undoc_good : forall i, good_line (undoc_line i).
Proof.
  intro i. unfold good_line, undoc_line. split.
  { rewrite app_length. assert (1 <= length AUTOSQL_UNDOC_PREFIX) by (cbn [AUTOSQL_UNDOC_PREFIX length]; lia). lia. }
  exists (undoc_field i). intro r.
  set (D := dec_digits (N.of_nat i + AUTOSQL_UNDOC_OFFSET)%N).
  rewrite <- !app_assoc.
  destruct (undoc_prefix_type (D ++ AUTOSQL_UNDOC_SUFFIX ++ r)) as [HT HP].
  split; [|exact HP].
  destruct (undoc_suffix_tail r) as [HTL HD].
  unfold step_field. rewrite HT.
  assert (NAME : word_of (drop_ws (undoc_stem ++ D ++ AUTOSQL_UNDOC_SUFFIX ++ r)) = undoc_stem ++ D
                 /\ drop_ws (undoc_stem ++ D ++ AUTOSQL_UNDOC_SUFFIX ++ r) = (undoc_stem ++ D) ++ AUTOSQL_UNDOC_SUFFIX ++ r).
  { change (drop_ws (undoc_stem ++ D ++ AUTOSQL_UNDOC_SUFFIX ++ r))
      with (102%N :: ([105; 101; 108; 100]%N ++ D) ++ AUTOSQL_UNDOC_SUFFIX ++ r) at 1 2.
    cbn [word_of]. split.
    - rewrite span_nondelim_stop; [reflexivity| |exact HD].
      apply Forall_app. split; [repeat constructor|apply uint_bytes_nondelim].
    - unfold undoc_stem. rewrite <- !app_assoc. reflexivity. }
  destruct NAME as [N1 N2]. cbv zeta. rewrite N1, N2, skipn_app_exact, HTL. reflexivity.
Qed.

(* ------------------------------------------------------------------ the generated text, as lines *)
Definition gen_lines (n : nat) : list (list N) :=
  let nf := length AUTOSQL_FIELDS in
  header_fields ++ firstn (Nat.min n nf) AUTOSQL_FIELDS ++ map undoc_line (seq nf (Nat.max n nf - nf)).

Lemma bed_autosql_lines : forall n, bed_autosql_n n = header_head ++ concat (gen_lines n) ++ [41%N].
Proof.
  intro n. unfold bed_autosql_n, gen_lines. cbv zeta. rewrite header_split, !concat_app, <- !app_assoc. reflexivity.
Qed.

Lemma gen_lines_length : forall n, length (gen_lines n) = 3 + n.
Proof.
  intro n. unfold gen_lines. cbv zeta.
  rewrite !app_length, header_fields_count, firstn_length, map_length, seq_length. lia.
Qed.

Lemma gen_lines_good : forall n, Forall good_line (gen_lines n).
Proof.
  intro n. unfold gen_lines. cbv zeta. apply Forall_app. split; [exact header_fields_good|].
  apply Forall_app. split; [apply Forall_firstn', table_fields_good|].
  apply Forall_forall. intros l Hl. apply in_map_iff in Hl. destruct Hl as [i [Hi _]]. subst l. apply undoc_good.
Qed.

Lemma parse_declaration_end : forall fuel, 0 < fuel ->
  exists p, parse_declaration fuel (mkP [] 0) = Ok (None, p).
Proof.
  intros fuel H. unfold parse_declaration. rewrite eat_word_spec by (cbn [rest length]; exact H).
  cbn [rbind rest drop_ws word_of]. eexists. reflexivity.
Qed.

(* the parser parses every generated schema to one declaration, `table bed`, with 3 + n fields *)
Theorem parse_generated : forall n, exists d,
  parse (bed_autosql_n n) = Ok [d] /\ length (d_fields d) = 3 + n
  /\ d_type d = Table /\ dn_name (d_name d) = [98; 101; 100]%N.
Proof.
  intro n. rewrite bed_autosql_lines.
  pose proof (gen_lines_good n) as G. pose proof (gen_lines_length n) as GL.
  set (lines := gen_lines n) in *.
  assert (NE : lines <> []) by (intro E; rewrite E in GL; discriminate GL).
  assert (LL : length lines <= length (concat lines)).
  { clear GL NE. induction G as [|L ls [HL _] G' IH]; [cbn; lia|]. cbn [concat length]. rewrite app_length. lia. }
  set (T := header_head ++ concat lines ++ [41%N]).
  unfold parse, parse_autosql.
  assert (HF : parse_fuel T = S (S (length T + 3))).
  { unfold parse_fuel. change (N.to_nat AUTOSQL_DECL_CAP) with 3. lia. }
  set (fuel := parse_fuel T) in *.
  assert (HT : length T = length header_head + length (concat lines ++ [41%N])) by (unfold T; apply app_length).
  assert (HH : length (concat lines ++ [41%N]) = length (concat lines) + 1) by (rewrite app_length; reflexivity).
  destruct (parse_declaration_head fuel (parser_of T) _ _ _ _ ltac:(cbn [parser_of rest]; lia)
              (header_head_step (concat lines ++ [41%N]))) as [_ PD].
  destruct (field_loop_lines lines G NE fuel fuel (mkP (10%N :: concat lines ++ [41%N]) 0) [])
    as [flds [FN FR]].
  { lia. }
  { reflexivity. }
  { cbn [rest length]. lia. }
  { lia. }
  destruct (parse_declaration_end fuel ltac:(lia)) as [pe PE].
  eexists. split; [|split; [|split]].
  - rewrite HF. cbn [decl_list_loop]. change ((AUTOSQL_DECL_CAP <? 0)%N) with false. cbv iota.
    rewrite <- HF. fold fuel. rewrite PD. unfold parse_field_list. rewrite FR. cbn [rbind app].
    rewrite eat_one_spec by (cbn [rest length]; lia). cbn [rbind rest].
    change (beq (firstn 1 (drop_ws [41%N])) K_rparen) with true. cbn [negb rbind].
    change ((AUTOSQL_DECL_CAP <? 0 + 1)%N) with false. cbv iota.
    change (mkP (skipn 1 (drop_ws [41%N])) 0) with (mkP [] 0). rewrite PE. reflexivity.
  - cbn [d_fields]. rewrite FN, GL. reflexivity.
  - reflexivity.
  - reflexivity.
Qed.
