(* C07: what the zoom tiling loop computes.  An invariant of the section-free loop [aloop]
   (Proofs/ZoomLoop.v) over the values of one chromosome, from which the theorems of
   Properties/C07.v follow: records ordered and disjoint, each at most [size] wide, every base of
   every value in exactly one record, covered counts add up, and every record is the fold of
   [zrec_add] over exactly the overlaps of the stored values with its span ([contribs]). *)
From BT Require Import Base.Util Base.Float Model.RTree Model.BBIFile Model.BigWigWrite Model.BBIRead
  Proofs.BigWigQuery Proofs.ZoomLoop.
Local Open Scope N_scope.

Definition cov (r : zrec) : N := su_bases (z_sum r).
Definition vlen (v : value) : N := v_end v - v_start v.

Lemma sumN_app l1 l2 : sumN (l1 ++ l2) = sumN l1 + sumN l2.
Proof. induction l1 as [|x l IH]; cbn [sumN app]; [reflexivity|]. rewrite IH. lia. Qed.

(* ---- what a value contributes to the span [s,e): its overlap, if not empty ---- *)
Definition piece := (N * N * fl)%type.
Definition p_start (p : piece) : N := fst (fst p).
Definition p_end (p : piece) : N := snd (fst p).
Definition p_val (p : piece) : fl := snd p.

Definition contrib (s e : N) (v : value) : list piece :=
  let a := N.max (v_start v) s in
  let b := N.min (v_end v) e in
  if a <? b then [(a, b, v_val v)] else [].
Definition contribs (s e : N) (vals : list value) : list piece := flat_map (contrib s e) vals.

Lemma contribs_app s e l1 l2 : contribs s e (l1 ++ l2) = contribs s e l1 ++ contribs s e l2.
Proof. unfold contribs. apply flat_map_app. Qed.

Lemma contrib_nil s e v : N.min (v_end v) e <= N.max (v_start v) s -> contrib s e v = [].
Proof. intros H. unfold contrib. destruct (N.ltb_spec (N.max (v_start v) s) (N.min (v_end v) e)); [exfalso; lia|reflexivity]. Qed.
Lemma contribs_nil s e l : Forall (fun v => N.min (v_end v) e <= N.max (v_start v) s) l -> contribs s e l = [].
Proof.
  induction 1 as [|v l Hv _ IH]; [reflexivity|]. unfold contribs in *. cbn [flat_map].
  rewrite (contrib_nil s e v Hv), IH. reflexivity.
Qed.
(* a value that ends inside the shorter span (or is empty) contributes the same to a longer one *)
Lemma contrib_ext s e1 e2 v : (v_start v < v_end v -> v_end v <= e1) -> e1 <= e2 -> contrib s e2 v = contrib s e1 v.
Proof.
  intros H He. unfold contrib.
  destruct (N.ltb_spec (N.max (v_start v) s) (N.min (v_end v) e2)) as [H2|H2];
    destruct (N.ltb_spec (N.max (v_start v) s) (N.min (v_end v) e1)) as [H1|H1]; try reflexivity.
  - do 3 f_equal. lia.
  - exfalso. lia.
  - exfalso. lia.
Qed.
Lemma contribs_ext s e1 e2 l : Forall (fun v => v_start v < v_end v -> v_end v <= e1) l -> e1 <= e2 ->
  contribs s e2 l = contribs s e1 l.
Proof.
  intros H He. induction H as [|v l Hv _ IH]; [reflexivity|]. unfold contribs in *. cbn [flat_map].
  rewrite (contrib_ext s e1 e2 v Hv He), IH. reflexivity.
Qed.

Section ZoomInv.
Context (fp : fpmode) (size chrom : N).

Definition add_piece (z : zrec) (p : piece) : zrec := zrec_add fp z (p_start p) (p_end p) (p_val p).
(* the record over span start [s] built from a list of contributions *)
Definition build (s : N) (ps : list piece) : option zrec :=
  match ps with
  | [] => None
  | p :: _ => Some (fold_left add_piece ps (zrec_new chrom s (p_val p)))
  end.
Definition rec_ok (vals : list value) (z : zrec) : Prop :=
  build (z_start z) (contribs (z_start z) (z_end z) vals) = Some z.

Lemma build_snoc s ps z p : build s ps = Some z -> build s (ps ++ [p]) = Some (add_piece z p).
Proof.
  destruct ps as [|q ps]; [discriminate|]. cbn [build app]. intros H. injection H as <-.
  rewrite app_comm_cons, fold_left_app. reflexivity.
Qed.

(* ---- order ---- *)
Definition good (z : zrec) : Prop := z_start z < z_end z /\ z_end z <= z_start z + size /\ z_chrom z = chrom.
Fixpoint ordered (lo : N) (R : list zrec) : Prop :=
  match R with [] => True | r :: R' => lo <= z_start r /\ good r /\ ordered (z_end r) R' end.
Fixpoint last_end (lo : N) (R : list zrec) : N :=
  match R with [] => lo | r :: R' => last_end (z_end r) R' end.

Lemma ordered_app : forall R lo z, ordered lo (R ++ [z]) <-> ordered lo R /\ last_end lo R <= z_start z /\ good z.
Proof.
  induction R as [|r R IH]; intros lo z; cbn [app ordered last_end].
  - tauto.
  - rewrite IH. tauto.
Qed.
Lemma last_end_app : forall R lo z, last_end lo (R ++ [z]) = z_end z.
Proof. induction R as [|r R IH]; intros lo z; cbn [app last_end]; [reflexivity|apply IH]. Qed.
Lemma ordered_last_ge : forall R lo, ordered lo R -> lo <= last_end lo R.
Proof.
  induction R as [|r R IH]; intros lo H; cbn [last_end]; [lia|].
  destruct H as [H1 [[H2 _] H3]]. specialize (IH _ H3). lia.
Qed.
Lemma ordered_in : forall R lo r, ordered lo R -> In r R -> good r /\ lo <= z_start r /\ z_end r <= last_end lo R.
Proof.
  induction R as [|x R IH]; intros lo r H Hin; [destruct Hin|].
  destruct H as [H1 [H2 H3]]. cbn [last_end]. destruct Hin as [<-|Hin].
  - pose proof (ordered_last_ge _ _ H3). tauto.
  - destruct (IH _ _ H3 Hin) as [Hg [Hs He]]. destruct H2 as [H2 _]. split; [exact Hg|split; [lia|exact He]].
Qed.
Lemma ordered_adjacent : forall R1 lo r1 r2 R2, ordered lo (R1 ++ r1 :: r2 :: R2) -> z_end r1 <= z_start r2.
Proof.
  induction R1 as [|x R1 IH]; intros lo r1 r2 R2 H; cbn [app ordered] in H.
  - tauto.
  - destruct H as [_ [_ H]]. eapply IH. exact H.
Qed.
Lemma ordered_unique : forall R lo r r' p, ordered lo R -> In r R -> In r' R ->
  z_start r <= p < z_end r -> z_start r' <= p < z_end r' -> r' = r.
Proof.
  induction R as [|x R IH]; intros lo r r' p H Hr Hr' Hp Hp'; [destruct Hr|].
  destruct H as [_ [_ H3]]. destruct Hr as [<-|Hr]; destruct Hr' as [<-|Hr'].
  - reflexivity.
  - exfalso. destruct (ordered_in _ _ _ H3 Hr') as [_ [Hs _]]. lia.
  - exfalso. destruct (ordered_in _ _ _ H3 Hr) as [_ [Hs _]]. lia.
  - eapply IH; eauto.
Qed.

(* ---- the invariant ---- *)
Definition allrecs (C : list zrec) (L : option zrec) : list zrec :=
  match L with Some z => C ++ [z] | None => C end.

Definition covers (R : list zrec) (p : N) : Prop := exists r, In r R /\ z_start r <= p < z_end r.

(* [pre]: values already processed, [cur]: the value being processed, up to the cursor [a] *)
Record Core (pre : list value) (cur : value) (post : list value) (a : N) (R : list zrec) : Prop := {
  c_range : v_start cur <= a <= v_end cur;
  c_ord : ordered 0 R;
  c_last : last_end 0 R <= a;
  c_rec : Forall (rec_ok (pre ++ cur :: post)) R;
  c_cover : forall v p, In v (pre ++ [cur]) -> v_start v <= p < v_end v -> p < a -> covers R p;
  c_sum : sumN (map cov R) = sumN (map vlen pre) + (a - v_start cur) }.

Definition LiveOk (pre : list value) (cur : value) (a : N) (L : option zrec) : Prop :=
  forall z, L = Some z ->
    Forall (fun v => v_start v < v_end v -> v_end v <= z_end z) pre /\
    ((z_end z <= v_start cur /\ a = v_start cur) \/ (z_end z = v_end cur /\ a = v_end cur)).

Definition Inv pre cur post a C L : Prop := Core pre cur post a (allrecs C L) /\ LiveOk pre cur a L.

Definition split_ok (pre : list value) (cur : value) (post : list value) : Prop :=
  Forall (fun v => v_start v <= v_end v /\ v_end v <= v_start cur) pre /\ v_start cur <= v_end cur /\
  Forall (fun w => v_end cur <= v_start w) post.

Lemma inv_close pre cur post a C z : Inv pre cur post a C (Some z) -> Inv pre cur post a (C ++ [z]) None.
Proof. intros [H _]. split; [exact H|]. intros z' Hz. discriminate. Qed.

Lemma covers_app_l R z p : covers R p -> covers (R ++ [z]) p.
Proof. intros [r [Hin Hp]]. exists r. split; [apply in_or_app; now left|exact Hp]. Qed.
Lemma covers_last R z p : z_start z <= p < z_end z -> covers (R ++ [z]) p.
Proof. intros Hp. exists z. split; [apply in_or_app; right; now left|exact Hp]. Qed.

(* a new record is opened at the cursor *)
Lemma step_new pre cur post a C : 1 <= size -> split_ok pre cur post ->
  Inv pre cur post a C None -> a < v_end cur ->
  let ae := N.min (a + size) (v_end cur) in
  let z := zrec_add fp (zrec_new chrom a (v_val cur)) a ae (v_val cur) in
  Core pre cur post ae (C ++ [z]) /\ (ae <> a + size -> LiveOk pre cur ae (Some z)).
Proof.
  intros Hsz [Hpre [Hcur Hpost]] [Hc _] Ha ae z. cbn [allrecs] in Hc.
  destruct Hc as [Hr Ho Hl Hrec Hcov Hsum].
  assert (Hae : a < ae /\ ae <= v_end cur /\ ae <= a + size) by (unfold ae; lia).
  assert (Hzs : z_start z = a) by reflexivity. assert (Hze : z_end z = ae) by reflexivity.
  split.
  - constructor.
    + lia.
    + apply ordered_app. split; [exact Ho|]. split; [rewrite Hzs; exact Hl|].
      unfold good. rewrite Hzs, Hze. split; [lia|split; [lia|reflexivity]].
    + rewrite last_end_app, Hze. lia.
    + apply Forall_app. split; [exact Hrec|]. constructor; [|constructor].
      unfold rec_ok. rewrite Hzs, Hze. rewrite contribs_app. change (cur :: post) with ([cur] ++ post).
      rewrite contribs_app.
      rewrite (contribs_nil a ae pre).
      2:{ eapply Forall_impl; [|exact Hpre]. cbv beta. intros v [Hv1 Hv2]. lia. }
      rewrite (contribs_nil a ae post).
      2:{ eapply Forall_impl; [|exact Hpost]. cbv beta. intros w Hw. lia. }
      unfold contribs. cbn [flat_map app]. unfold contrib.
      replace (N.max (v_start cur) a) with a by lia. replace (N.min (v_end cur) ae) with ae by lia.
      destruct (N.ltb_spec a ae); [|exfalso; lia]. reflexivity.
    + intros v p Hin Hp Hpa. destruct (N.lt_ge_cases p a) as [Hlt|Hge].
      * apply covers_app_l. eapply Hcov; eauto.
      * apply covers_last. rewrite Hzs, Hze. lia.
    + rewrite map_app, sumN_app, Hsum. cbn [map sumN].
      assert (Hcz : cov z = ae - a) by reflexivity. rewrite Hcz. lia.
  - intros Hne z' Hz'. injection Hz' as <-. rewrite Hze. split.
    + eapply Forall_impl; [|exact Hpre]. cbv beta. intros v [Hv1 Hv2] _. lia.
    + right. unfold ae in *. lia.
Qed.

(* the live record is extended by the head of the current value *)
Lemma step_extend pre cur post a C z0 : 1 <= size -> split_ok pre cur post ->
  Inv pre cur post a C (Some z0) -> a < v_end cur -> a < z_start z0 + size ->
  let ae := N.min (z_start z0 + size) (v_end cur) in
  let z := zrec_add fp z0 a ae (v_val cur) in
  Core pre cur post ae (C ++ [z]) /\ (ae <> z_start z0 + size -> LiveOk pre cur ae (Some z)).
Proof.
  intros Hsz [Hpre [Hcur Hpost]] [Hc Hlive] Ha Hne ae z. cbn [allrecs] in Hc.
  destruct Hc as [Hr Ho Hl Hrec Hcov Hsum].
  destruct (Hlive z0 eq_refl) as [Hlp Hlc].
  assert (Hlc' : z_end z0 <= v_start cur /\ a = v_start cur) by (destruct Hlc as [H|H]; [exact H|exfalso; lia]).
  clear Hlc. destruct Hlc' as [Hz0e Hav].
  apply ordered_app in Ho. destruct Ho as [HoC [HlC Hg0]]. destruct Hg0 as [Hg1 [Hg2 Hg3]].
  assert (Hae : a < ae /\ ae <= v_end cur /\ ae <= z_start z0 + size) by (unfold ae; lia).
  assert (Hzs : z_start z = z_start z0) by reflexivity. assert (Hze : z_end z = ae) by reflexivity.
  apply Forall_app in Hrec. destruct Hrec as [HrecC Hrec0]. pose proof (Forall_inv Hrec0) as Hrz0.
  split.
  - constructor.
    + lia.
    + apply ordered_app. split; [exact HoC|]. split; [rewrite Hzs; exact HlC|].
      unfold good. rewrite Hzs, Hze. split; [lia|split; [lia|exact Hg3]].
    + rewrite last_end_app, Hze. lia.
    + apply Forall_app. split; [exact HrecC|]. constructor; [|constructor].
      unfold rec_ok in *. rewrite Hzs, Hze.
      assert (Hnew : contribs (z_start z0) ae (pre ++ cur :: post)
                     = contribs (z_start z0) (z_end z0) (pre ++ cur :: post) ++ [(a, ae, v_val cur)]).
      { rewrite !contribs_app. change (cur :: post) with ([cur] ++ post). rewrite !contribs_app.
        rewrite (contribs_ext (z_start z0) (z_end z0) ae pre Hlp) by lia.
        rewrite (contribs_nil (z_start z0) ae post).
        2:{ eapply Forall_impl; [|exact Hpost]. cbv beta. intros w Hw. lia. }
        rewrite (contribs_nil (z_start z0) (z_end z0) post).
        2:{ eapply Forall_impl; [|exact Hpost]. cbv beta. intros w Hw. lia. }
        rewrite (contribs_nil (z_start z0) (z_end z0) [cur]).
        2:{ constructor; [lia|constructor]. }
        rewrite !app_nil_r. f_equal.
        unfold contribs. cbn [flat_map]. rewrite app_nil_r. unfold contrib.
        replace (N.max (v_start cur) (z_start z0)) with a by lia.
        replace (N.min (v_end cur) ae) with ae by lia.
        destruct (N.ltb_spec a ae); [reflexivity|exfalso; lia]. }
      rewrite Hnew. apply (build_snoc _ _ _ (a, ae, v_val cur) Hrz0).
    + intros v p Hin Hp Hpa. destruct (N.lt_ge_cases p a) as [Hlt|Hge].
      * destruct (Hcov v p Hin Hp Hlt) as [r [Hrin Hrp]]. apply in_app_or in Hrin. destruct Hrin as [Hrin|[<-|[]]].
        -- exists r. split; [apply in_or_app; now left|exact Hrp].
        -- apply covers_last. rewrite Hzs, Hze. lia.
      * apply covers_last. rewrite Hzs, Hze. lia.
    + rewrite map_app, sumN_app in *. cbn [map sumN] in *.
      assert (Hcz : cov z = cov z0 + (ae - a)) by reflexivity. rewrite Hcz. lia.
  - intros Hn z' Hz'. injection Hz' as <-. rewrite Hze. split.
    + eapply Forall_impl; [|exact Hlp]. cbv beta. intros v Hv Hlt. specialize (Hv Hlt). lia.
    + right. unfold ae in *. lia.
Qed.

(* the loop on one value: the invariant holds at the value's end, and nothing is live after the
   last value *)
Lemma aloop_inv pre cur post hn : 1 <= size -> split_ok pre cur post ->
  forall fuel a C L C' L', Inv pre cur post a C L ->
  aloop fuel fp size chrom cur hn a C L = Ok (C', L') ->
  Inv pre cur post (v_end cur) C' L' /\ (hn = false -> L' = None).
Proof.
  intros Hsz Hsp. induction fuel as [|f IH]; intros a C L C' L' HI Hrun; [discriminate|].
  cbn [aloop] in Hrun. destruct (N.leb_spec (v_end cur) a) as [Hge|Hlt].
  - assert (Ha : a = v_end cur) by (destruct HI as [[[? ?] _ _ _ _ _] _]; lia). subst a.
    destruct hn.
    + injection Hrun as <- <-. split; [exact HI|discriminate].
    + destruct L as [z|].
      * eapply IH; [|exact Hrun]. apply inv_close. exact HI.
      * injection Hrun as <- <-. split; [exact HI|reflexivity].
  - destruct L as [z0|].
    + (* a live record *)
      destruct (N.le_gt_cases (z_start z0 + size) a) as [Hstale|Hfresh].
      * (* it ended before the cursor: closed unchanged *)
        replace (N.min (z_start z0 + size) (v_end cur)) with (z_start z0 + size) in Hrun by lia.
        destruct (N.ltb_spec a (z_start z0 + size)) as [Hx|_]; [exfalso; lia|].
        rewrite N.eqb_refl in Hrun. replace (N.max (z_start z0 + size) a) with a in Hrun by lia.
        eapply IH; [|exact Hrun]. apply inv_close. exact HI.
      * destruct (step_extend pre cur post a C z0 Hsz Hsp HI Hlt Hfresh) as [Hcore Hlive].
        cbv zeta in Hcore, Hlive.
        set (ae := N.min (z_start z0 + size) (v_end cur)) in *.
        assert (Hae : a < ae) by (unfold ae; lia).
        destruct (N.ltb_spec a ae) as [_|Hx]; [|exfalso; lia].
        replace (N.max ae a) with ae in Hrun by lia.
        destruct (N.eqb_spec ae (z_start z0 + size)) as [Heq|Hneq].
        -- eapply IH; [|exact Hrun]. split; [exact Hcore|]. intros z' Hz'. discriminate.
        -- eapply IH; [|exact Hrun]. split; [exact Hcore|]. exact (Hlive Hneq).
    + destruct (step_new pre cur post a C Hsz Hsp HI Hlt) as [Hcore Hlive].
      cbv zeta in Hcore, Hlive. cbn [zrec_new z_start] in Hrun.
      set (ae := N.min (a + size) (v_end cur)) in *.
      assert (Hae : a < ae) by (unfold ae; lia).
      destruct (N.ltb_spec a ae) as [_|Hx]; [|exfalso; lia].
      replace (N.max ae a) with ae in Hrun by lia.
      destruct (N.eqb_spec ae (a + size)) as [Heq|Hneq].
      * eapply IH; [|exact Hrun]. split; [exact Hcore|]. intros z' Hz'. discriminate.
      * eapply IH; [|exact Hrun]. split; [exact Hcore|]. exact (Hlive Hneq).
Qed.

(* from the end of one value to the start of the next *)
Lemma inv_next pre cur nxt post C L : split_ok pre cur (nxt :: post) -> v_start nxt <= v_end nxt ->
  Inv pre cur (nxt :: post) (v_end cur) C L -> Inv (pre ++ [cur]) nxt post (v_start nxt) C L.
Proof.
  intros [Hpre [Hcur Hpost]] Hnxt [Hc Hlive].
  assert (Hcn : v_end cur <= v_start nxt) by (inversion Hpost; assumption).
  destruct Hc as [Hr Ho Hl Hrec Hcov Hsum]. split.
  - constructor.
    + lia.
    + exact Ho.
    + lia.
    + rewrite <- app_assoc. exact Hrec.
    + intros v p Hin Hp Hpa. apply in_app_or in Hin. destruct Hin as [Hin|[<-|[]]]; [|exfalso; lia].
      apply (Hcov v p Hin Hp). apply in_app_or in Hin. destruct Hin as [Hin|[<-|[]]]; [|lia].
      rewrite Forall_forall in Hpre. destruct (Hpre v Hin). lia.
    + rewrite Hsum, map_app, sumN_app. cbn [map sumN]. unfold vlen at 3. lia.
  - intros z Hz. destruct (Hlive z Hz) as [Hlp Hlc]. split.
    + apply Forall_app. split; [exact Hlp|]. constructor; [|constructor]. intros Hlt. lia.
    + left. split; [|reflexivity]. subst L. cbn [allrecs] in Hl. rewrite last_end_app in Hl. lia.
Qed.

(* ---- the whole chromosome ---- *)
Record Final (vals : list value) (R : list zrec) : Prop := {
  f_ord : ordered 0 R;
  f_rec : Forall (rec_ok vals) R;
  f_cover : forall v p, In v vals -> v_start v <= p < v_end v -> covers R p;
  f_sum : sumN (map cov R) = sumN (map vlen vals);
  f_end : forall r, In r R -> exists v, In v vals /\ z_end r <= v_end v }.

Lemma inv_final pre cur C : split_ok pre cur [] -> Inv pre cur [] (v_end cur) C None -> Final (pre ++ [cur]) C.
Proof.
  intros [Hpre [Hcur _]] [Hc _]. cbn [allrecs] in Hc. destruct Hc as [Hr Ho Hl Hrec Hcov Hsum]. constructor.
  - exact Ho.
  - exact Hrec.
  - intros v p Hin Hp. apply (Hcov v p Hin Hp).
    apply in_app_or in Hin. destruct Hin as [Hin|[<-|[]]]; [|lia].
    rewrite Forall_forall in Hpre. destruct (Hpre v Hin). lia.
  - rewrite Hsum, map_app, sumN_app. cbn [map sumN]. unfold vlen at 3. lia.
  - intros r Hin. exists cur. split; [apply in_or_app; right; now left|].
    destruct (ordered_in _ _ _ Ho Hin) as [_ [_ He]]. lia.
Qed.

Lemma final_nil : Final [] [].
Proof.
  constructor; cbn; auto.
  - intros v p [].
  - intros r [].
Qed.

Lemma inv_init v post : v_start v <= v_end v -> Inv [] v post (v_start v) [] None.
Proof.
  intros Hv. split; [|intros z Hz; discriminate]. cbn [allrecs]. constructor; cbn; auto; try lia.
  intros w p [<-|[]] Hp Hpa. exfalso. lia.
Qed.

(* accepted value lists give the ordering facts at every position *)
Lemma wf_split len : forall pre cur post, wf_vals len (pre ++ cur :: post) -> split_ok pre cur post.
Proof.
  induction pre as [|v pre IH]; intros cur post Hwf.
  - cbn [app] in Hwf. split; [constructor|]. destruct (wf_head _ _ _ Hwf) as [H1 _]. split; [exact H1|].
    exact (wf_after_head _ _ _ Hwf).
  - cbn [app] in Hwf. destruct (IH cur post (wf_tail _ _ _ Hwf)) as [Hpre [Hcur Hpost]].
    split; [|split; assumption]. constructor; [|exact Hpre].
    destruct (wf_head _ _ _ Hwf) as [H1 _]. split; [exact H1|].
    pose proof (wf_after_head _ _ _ Hwf) as Ha. rewrite Forall_forall in Ha. apply Ha.
    apply in_or_app. right. now left.
Qed.

(* the concrete loop leaves no pending section after the last value *)
Lemma zoom_loop_final ips cur : forall fuel a st st',
  zoom_loop fuel fp ips size chrom cur false a st = Ok st' -> zs_records st' = [] /\ zs_live st' = None.
Proof.
  induction fuel as [|f IH]; intros a st st' H; [discriminate|].
  rewrite zoom_loop_S in H. cbv zeta in H.
  destruct (v_end cur <=? a) eqn:E.
  - destruct (zs_live (flush ips cur false a st)) as [z|] eqn:El.
    + eapply IH. exact H.
    + injection H as <-. split; [|exact El]. rewrite flush_live in El.
      unfold flush. rewrite E, El. cbn [negb andb].
      destruct (zs_records st) as [|r rs] eqn:Er; cbn [negb orb].
      * destruct (Nlen [] =? ips); [reflexivity|exact Er].
      * reflexivity.
  - eapply IH. exact H.
Qed.

Lemma chrom_inv len ips : 1 <= size -> forall post pre cur st st',
  wf_vals len (pre ++ cur :: post) ->
  Inv pre cur post (v_start cur) (closed st) (zs_live st) ->
  zoom_chrom fp ips size chrom (cur :: post) st = Ok st' ->
  Final (pre ++ cur :: post) (closed st') /\ zs_live st' = None /\ zs_records st' = [].
Proof.
  intros Hsz. induction post as [|nxt post IH]; intros pre cur st st' Hwf HI Hrun.
  - cbn [zoom_chrom] in Hrun. destruct (zoom_step fp ips size chrom st cur false) as [st1| | |] eqn:E1; try discriminate.
    cbn [rbind] in Hrun. injection Hrun as <-. unfold zoom_step in E1.
    pose proof (zoom_loop_abs (zoom_fuel size cur) fp ips size chrom cur false (v_start cur) st) as Habs.
    rewrite E1 in Habs. cbn [rmap] in Habs. symmetry in Habs.
    pose proof (wf_split len _ _ _ Hwf) as Hsp.
    destruct (aloop_inv pre cur [] false Hsz Hsp _ _ _ _ _ _ HI Habs) as [HI' Hnone].
    specialize (Hnone eq_refl). destruct (zoom_loop_final _ _ _ _ _ _ E1) as [Hrecs _].
    split; [|split; assumption]. rewrite Hnone in HI'. apply inv_final; assumption.
  - cbn [zoom_chrom] in Hrun. destruct (zoom_step fp ips size chrom st cur true) as [st1| | |] eqn:E1; try discriminate.
    cbn [rbind] in Hrun. unfold zoom_step in E1.
    pose proof (zoom_loop_abs (zoom_fuel size cur) fp ips size chrom cur true (v_start cur) st) as Habs.
    rewrite E1 in Habs. cbn [rmap] in Habs. symmetry in Habs.
    pose proof (wf_split len _ _ _ Hwf) as Hsp.
    destruct (aloop_inv pre cur (nxt :: post) true Hsz Hsp _ _ _ _ _ _ HI Habs) as [HI' _].
    assert (Hwf' : wf_vals len ((pre ++ [cur]) ++ nxt :: post)) by (rewrite <- app_assoc; exact Hwf).
    pose proof (wf_split len _ _ _ Hwf') as [_ [Hn _]].
    pose proof (inv_next pre cur nxt post _ _ Hsp Hn HI') as HI2.
    specialize (IH (pre ++ [cur]) nxt st1 st' Hwf' HI2 Hrun).
    rewrite <- app_assoc in IH. exact IH.
Qed.

Theorem zoom_chrom_final len ips vals st : 1 <= size -> wf_vals len vals ->
  zoom_chrom fp ips size chrom vals zstate0 = Ok st ->
  Final vals (concat (zs_out st)) /\ zs_live st = None /\ zs_records st = [].
Proof.
  intros Hsz Hwf Hrun. destruct vals as [|v r].
  - cbn [zoom_chrom] in Hrun. injection Hrun as <-. cbn. split; [exact final_nil|split; reflexivity].
  - destruct (chrom_inv len ips Hsz r [] v zstate0 st Hwf) as [HF [Hl Hr]].
    + apply inv_init. destruct (wf_head _ _ _ Hwf). assumption.
    + exact Hrun.
    + split; [|split; assumption]. unfold closed in HF. rewrite Hr, app_nil_r in HF. exact HF.
Qed.
End ZoomInv.
