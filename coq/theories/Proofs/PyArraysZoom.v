(* C20: the zoom routines to_array_zoom / to_entry_array_zoom (`exact = False`) on the records of a zoom
   level (ordered, disjoint, inside the chromosome: the shape C07/C08 prove for stored levels).
   Both report, for a bin, the exact-mode statistic of the STEP FUNCTION whose value on the bases of a
   record is the record's mean / min_val / max_val ([zoom_at]); over the records this is the closed
   formula [zoom_stat] of Model/PyArrays.v (Proofs/PyArraysZoomFormula.v). *)
From BT Require Import Base.Util Model.PyArrays Proofs.PyArraysGeom Proofs.PyArraysEngine Proofs.PyArraysCover
  Proofs.PyArraysWig Proofs.PyArraysBed.
Local Open Scope Z_scope.

(* records of one zoom level: inside [lo, len), non-empty, disjoint, in start order; at least one covered
   base and a mean that the model's unit represents exactly (sum = mean * bases_covered) *)
Fixpoint zoom_ok (lo len : Z) (recs : list zrec) : Prop :=
  match recs with
  | [] => lo <= len
  | z :: r => lo <= z_start z /\ z_start z < z_end z /\ 0 < z_bases z /\ z_sum z = zmean z * z_bases z
              /\ zoom_ok (z_end z) len r
  end.

(* the value a record gives to each of its bases, per statistic; [c]: the mean clamped at 0
   (to_entry_array_zoom) or not (to_array_zoom) *)
Definition zsval (c : bool) (st : stat) (z : zrec) : Z :=
  match st with Mean => if c then zmean0 z else zmean z | Min => z_min z | Max => z_max z end.
Definition zwv (c : bool) (st : stat) (z : zrec) : wval :=
  {| w_start := z_start z; w_end := z_end z; w_val := zsval c st z |}.
(* the step function of the level *)
Definition zoom_at (c : bool) (st : stat) (recs : list zrec) : Z -> option Z := wig_at (map (zwv c st) recs).

Lemma zoom_ok_wig : forall c st recs lo len, zoom_ok lo len recs -> wig_ok lo len (map (zwv c st) recs).
Proof.
  intros c st. induction recs as [|z r IH]; intros lo len H; cbn [zoom_ok map wig_ok] in *; [exact H|].
  destruct H as [H1 [H2 [_ [_ H3]]]]. cbn [zwv w_start w_end]. split; [exact H1|]. split; [exact H2|]. apply IH. exact H3.
Qed.

Lemma zoom_ok_bounds : forall recs lo len, zoom_ok lo len recs ->
  lo <= len /\ Forall (fun z => lo <= z_start z /\ z_start z < z_end z /\ z_end z <= len) recs.
Proof.
  induction recs as [|z r IH]; intros lo len H; cbn [zoom_ok] in H; [split; [exact H|constructor]|].
  destruct H as [H1 [H2 [_ [_ H3]]]]. destruct (IH _ _ H3) as [H4 H5]. split; [lia|]. constructor; [lia|].
  eapply Forall_impl; [|exact H5]. cbn beta. intros u Hu. lia.
Qed.

Lemma flat_map_map : forall {X Y W} (g : X -> Y) (f : Y -> list W) l, flat_map f (map g l) = flat_map (fun x => f (g x)) l.
Proof. intros X Y W g f. induction l as [|x l IH]; cbn [map flat_map]; [reflexivity|rewrite IH; reflexivity]. Qed.

Definition zcov (z : zrec) (p : Z) : bool := covers (z_start z) (z_end z) p.

Lemma zoom_at_cons : forall c st z r p,
  zoom_at c st (z :: r) p = if zcov z p then Some (zsval c st z) else zoom_at c st r p.
Proof. intros. unfold zoom_at. cbn [map]. rewrite wig_at_cons. reflexivity. Qed.

Lemma fetch_zoom_fold : forall {A} (f : A -> zrec -> A) touch recs fs fe a,
  fold_left f (fetch_zoom touch recs fs fe) a
  = fold_left (fun a z => if keep touch fs fe (z_start z) (z_end z) then f a z else a) recs a.
Proof. intros. unfold fetch_zoom. apply fold_left_filter. Qed.

(* ---- to_array_zoom *)
Definition wigz_us (st : stat) (z : zrec) (sz : Z) (d : option (Z * fl)) : option (Z * fl) :=
  Some (match d with
        | Some (c, v) => match st with
                         | Min => (c + sz, fmin v (FV (z_min z)))
                         | Max => (c + sz, fmax v (FV (z_max z)))
                         | Mean => (c + sz, fadd v (FV (sz * zmean z)))
                         end
        | None => match st with
                  | Min => (sz, FV (z_min z))
                  | Max => (sz, FV (z_max z))
                  | Mean => (sz, FV (sz * zmean z))
                  end
        end).
Definition wigz_u (st : stat) (istart iend : Z) (z : zrec) (bs be : Z) (d : option (Z * fl)) : option (Z * fl) :=
  wigz_us st z (Z.min be iend - Z.max bs istart) d.

Lemma wigz_upd_u : forall st is_ ie z bs be d, wigz_upd st is_ ie z bs be d = Ok (wigz_u st is_ ie z bs be d).
Proof. intros. reflexivity. Qed.

(* one record applied to the bin [lo, hi), absolute positions *)
Definition zstep (st : stat) (lo hi : Z) (d : option (Z * fl)) (z : zrec) : option (Z * fl) :=
  if (lo <? z_end z) && (z_start z <? hi) then wigz_us st z (Z.min hi (z_end z) - Z.max lo (z_start z)) d else d.

(* the data of a bin after the records whose per-base values in the bin are [l] *)
Definition zrep (st : stat) (d : option (Z * fl)) (l : list Z) : Prop :=
  match l with
  | [] => d = None
  | x :: r => d = Some (Z.of_nat (length l),
                        FV (match st with
                            | Mean => fold_left Z.add l 0
                            | Min => fold_left Z.min r x
                            | Max => fold_left Z.max r x
                            end))
  end.

Lemma zrep_step : forall st lo hi d l z, lo < hi -> z_start z < z_end z -> zrep st d l ->
  zrep st (zstep st lo hi d z) (l ++ run_of lo hi (zwv false st z)).
Proof.
  intros st lo hi d l z Hlh Hv Hr. unfold zstep, run_of. cbn [zwv w_start w_end w_val].
  destruct (Z.ltb_spec lo (z_end z)) as [H1|H1]; cbn [andb].
  2:{ replace (Z.to_nat (Z.min hi (z_end z) - Z.max lo (z_start z))) with 0%nat by lia.
      cbn [repeat]. rewrite app_nil_r. exact Hr. }
  destruct (Z.ltb_spec (z_start z) hi) as [H2|H2].
  2:{ replace (Z.to_nat (Z.min hi (z_end z) - Z.max lo (z_start z))) with 0%nat by lia.
      cbn [repeat]. rewrite app_nil_r. exact Hr. }
  set (sz := Z.min hi (z_end z) - Z.max lo (z_start z)). assert (Hsz : 0 < sz) by (unfold sz; lia).
  destruct (Z.to_nat sz) as [|m] eqn:Em; [exfalso; lia|].
  assert (Hm : Z.of_nat (S m) = sz) by lia.
  set (v := zsval false st z).
  destruct l as [|x r]; cbn [zrep] in Hr; subst d; unfold wigz_us.
  - cbn [app repeat zrep]. f_equal. unfold v. destruct st; cbn [zsval fmin fmax fadd].
    + f_equal; [cbn [length]; rewrite repeat_length; lia|].
      f_equal. change (fold_left Z.add (zmean z :: repeat (zmean z) m) 0) with (fold_left Z.add (repeat (zmean z) (S m)) 0).
      rewrite fold_add_repeat. lia.
    + f_equal; [cbn [length]; rewrite repeat_length; lia|].
      f_equal. destruct m as [|m]; [reflexivity|]. rewrite fold_min_repeat by lia. lia.
    + f_equal; [cbn [length]; rewrite repeat_length; lia|].
      f_equal. destruct m as [|m]; [reflexivity|]. rewrite fold_max_repeat by lia. lia.
  - change ((x :: r) ++ repeat v (S m)) with (x :: (r ++ repeat v (S m))). cbn [zrep]. f_equal.
    assert (Hlen : Z.of_nat (length (x :: r)) + sz = Z.of_nat (length (x :: r ++ repeat v (S m)))).
    { cbn [length]. rewrite app_length, repeat_length. lia. }
    unfold v. destruct st; cbn [zsval fmin fmax fadd]; (apply f_equal2; [exact Hlen|]).
    + f_equal. change (x :: r ++ repeat (zmean z) (S m)) with ((x :: r) ++ repeat (zmean z) (S m)).
      rewrite fold_left_app, fold_add_repeat. lia.
    + f_equal. rewrite fold_left_app, fold_min_repeat by lia. reflexivity.
    + f_equal. rewrite fold_left_app, fold_max_repeat by lia. reflexivity.
Qed.

Lemma zrep_fold : forall st lo hi recs d l, lo < hi -> Forall (fun z => z_start z < z_end z) recs -> zrep st d l ->
  zrep st (fold_left (zstep st lo hi) recs d) (l ++ flat_map (fun z => run_of lo hi (zwv false st z)) recs).
Proof.
  intros st lo hi. induction recs as [|z r IH]; intros d l Hlh Hall Hr; cbn [fold_left flat_map].
  - rewrite app_nil_r. exact Hr.
  - inversion Hall as [|? ? Hv Hall']; subst. rewrite app_assoc. apply IH; [exact Hlh|exact Hall'|].
    apply zrep_step; assumption.
Qed.

Lemma zrep_fin : forall st missing d l, zrep st d l -> wig_fin st missing d = stat_of st missing l.
Proof.
  intros st missing d l Hr. destruct l as [|x r]; cbn [zrep] in Hr; subst d; [reflexivity|].
  unfold wig_fin, stat_of. destruct st; reflexivity.
Qed.

Section ZoomBins.
Variables (s e fs fe bins : Z) (st : stat) (missing : fl) (touch : bool).
Hypothesis Hse : s < e.
Hypothesis Hbins : 0 < bins <= e - s.

Let is_ := fun z => Z.max (z_start z) s - s.
Let ie := fun z => Z.min (z_end z) e - s.
Let Eb := fun k => bin_edge k (e - s) bins.

Lemma fetch_zoom_chain : forall recs b len lo0, zoom_ok b len recs -> lo0 <= Z.max b s - s ->
  chain is_ lo0 (fetch_zoom touch recs fs fe).
Proof.
  unfold fetch_zoom. induction recs as [|u r IH]; intros b len lo0 Hok Hlo; [exact I|].
  cbn [zoom_ok] in Hok. destruct Hok as [H1 [H2 [_ [_ H4]]]]. cbn [filter].
  destruct (keep touch fs fe (z_start u) (z_end u)).
  - cbn [chain]. split; [unfold is_; lia|]. apply (IH (z_end u) len); [exact H4|unfold is_; lia].
  - apply (IH (z_end u) len); [exact H4|lia].
Qed.

Lemma fetch_zoom_inside : forall recs, Forall (inside is_ ie (e - s)) (fetch_zoom touch recs fs fe).
Proof. intro recs. apply Forall_forall. intros z _. unfold inside, is_, ie. lia. Qed.

(* which records the loop applies to bin k, in terms of positions: those that overlap its span *)
Lemma zoom_hits : forall z k lo hi, 0 <= k < bins -> lo = s + Eb k -> hi = s + Eb (k + 1) ->
  fs <= lo -> hi <= fe -> z_start z < z_end z ->
  keep touch fs fe (z_start z) (z_end z) && hits is_ ie (e - s) bins z k = (lo <? z_end z) && (z_start z <? hi).
Proof.
  intros z k lo hi Hk Hlo Hhi Hfs Hfe Hz.
  assert (Hin : inside is_ ie (e - s) z) by (unfold inside, is_, ie; lia).
  rewrite (hits_iff is_ ie (e - s) bins ltac:(lia) z k Hin ltac:(lia)).
  unfold live, E. fold (Eb k). fold (Eb (k + 1)).
  assert (H1 : Eb k = lo - s) by lia. assert (H2 : Eb (k + 1) = hi - s) by lia. rewrite H1, H2.
  assert (Hlh : lo < hi).
  { subst lo hi. unfold Eb. pose proof (bin_edge_strict k (e - s) bins ltac:(lia) ltac:(lia)). lia. }
  assert (Hs : s <= lo).
  { subst lo. unfold Eb. pose proof (bin_edge_nonneg k (e - s) bins ltac:(lia) ltac:(lia) ltac:(lia)). lia. }
  assert (He : hi <= e).
  { subst hi. unfold Eb. pose proof (bin_edge_le_span (k + 1) (e - s) bins ltac:(lia) ltac:(lia) ltac:(lia)). lia. }
  unfold is_, ie, keep.
  destruct ((lo <? z_end z) && (z_start z <? hi)) eqn:HC.
  - b2p. apply andb_true_intro. split.
    + destruct touch; apply andb_true_intro; split; try apply Z.leb_le; try apply Z.ltb_lt; lia.
    + apply andb_true_intro; split; [apply andb_true_intro; split|]; apply Z.ltb_lt; lia.
  - apply andb_false_intro2.
    destruct ((Z.max (z_start z) s - s <? Z.min (z_end z) e - s) && (lo - s <? Z.min (z_end z) e - s)
              && (Z.max (z_start z) s - s <? hi - s)) eqn:HB; [|reflexivity].
    exfalso. b2p; lia.
Qed.

Theorem to_array_zoom_spec : forall recs b len, zoom_ok b len recs ->
  exists cells, to_array_zoom s e (fetch_zoom touch recs fs fe) st bins missing (Z.to_nat bins) = Ok cells
    /\ length cells = Z.to_nat bins
    /\ forall k, 0 <= k < bins -> fs <= s + Eb k -> s + Eb (k + 1) <= fe ->
         nth (Z.to_nat k) cells ONaN
         = stat_of st missing (covered_vals (zoom_at false st recs) (s + Eb k) (s + Eb (k + 1))).
Proof.
  intros recs b len Hok. unfold to_array_zoom.
  destruct (zoom_ok_bounds _ _ _ Hok) as [_ Hb].
  rewrite (run_bins_spec is_ ie (fun _ _ => Ok None)
             (fun z bs be d => wigz_upd st (is_ z) (ie z) z bs be d) (wig_fin st missing) (e - s) bins
             (fun _ _ => None) (fun z bs be d => wigz_u st (is_ z) (ie z) z bs be d)
             (fun _ _ _ => True) missing).
  - eexists. split; [reflexivity|]. split; [rewrite map_length, seqZ_length; reflexivity|].
    intros k Hk Hlo Hhi.
    set (cellf := fun k => wig_fin st missing
               (acc is_ ie (e - s) bins (fun _ _ => None)
                  (fun z bs be d => wigz_u st (is_ z) (ie z) z bs be d) (fetch_zoom touch recs fs fe) k)).
    rewrite (nth_indep _ ONaN (cellf 0)) by (rewrite map_length, seqZ_length; lia).
    rewrite (map_nth cellf). rewrite seqZ_nth by lia. rewrite Z2Nat.id by lia. cbn [Z.add]. unfold cellf. clear cellf.
    set (lo := s + Eb k) in *. set (hi := s + Eb (k + 1)) in *.
    assert (Hlh : lo < hi).
    { unfold lo, hi, Eb. pose proof (bin_edge_strict k (e - s) bins ltac:(lia) ltac:(lia)). lia. }
    assert (Hfs : s <= lo).
    { unfold lo, Eb. pose proof (bin_edge_nonneg k (e - s) bins ltac:(lia) ltac:(lia) ltac:(lia)). lia. }
    assert (Hfe : hi <= e).
    { unfold hi, Eb. pose proof (bin_edge_le_span (k + 1) (e - s) bins ltac:(lia) ltac:(lia) ltac:(lia)). lia. }
    apply zrep_fin. unfold zoom_at. rewrite (covered_vals_wig _ b len (zoom_ok_wig false st recs b len Hok)).
    rewrite flat_map_map.
    unfold acc. rewrite fetch_zoom_fold.
    rewrite (fold_left_ext_in _ (zstep st lo hi)).
    + apply (zrep_fold st lo hi recs None []); [exact Hlh| |reflexivity].
      eapply Forall_impl; [|exact Hb]. cbn beta. intros z Hz. lia.
    + intros z d Hz. rewrite Forall_forall in Hb. specialize (Hb z Hz).
      pose proof (zoom_hits z k lo hi Hk eq_refl eq_refl Hlo Hhi ltac:(lia)) as Hh.
      unfold zstep. rewrite <- Hh.
      destruct (keep touch fs fe (z_start z) (z_end z)); cbn [andb]; [|reflexivity].
      destruct (hits is_ ie (e - s) bins z k) eqn:Hhit; [|reflexivity].
      unfold wigz_u, E. fold (Eb k). fold (Eb (k + 1)). f_equal.
      cbn [andb] in Hh. symmetry in Hh. b2p. unfold is_, ie. fold lo in Hlo. fold hi in Hhi.
      assert (H1 : Eb k = lo - s) by (unfold lo; lia). assert (H2 : Eb (k + 1) = hi - s) by (unfold hi; lia).
      rewrite H1, H2. lia.
  - lia.
  - intros. split; [reflexivity|exact I].
  - intros. split; [apply wigz_upd_u|exact I].
  - reflexivity.
  - lia.
  - apply (fetch_zoom_chain recs b len); [exact Hok|lia].
  - apply fetch_zoom_inside.
Qed.
End ZoomBins.
