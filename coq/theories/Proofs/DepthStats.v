(* Statistics of a run-length encoded depth function: for a sorted list of segments the naive per-base
   statistics over a range equal the sums / extremes over the segments (C06, C08). *)
From BT Require Import Base.Util Model.BedSweep Spec.Depth.
Local Open Scope N_scope.

(* ---- ranges ---- *)
Lemma range_app : forall n m a, range a (n + m) = range a n ++ range (a + N.of_nat n) m.
Proof.
  induction n as [|n IH]; intros m a.
  - cbn [range Nat.add app N.of_nat]. now rewrite N.add_0_r.
  - cbn [range Nat.add app]. rewrite IH. f_equal. f_equal. f_equal. lia.
Qed.

Lemma In_range : forall n a x, In x (range a n) <-> a <= x < a + N.of_nat n.
Proof.
  induction n as [|n IH]; intros a x; cbn [range In].
  - split; [tauto | lia].
  - rewrite IH. lia.
Qed.

Lemma In_span : forall a b x, In x (span a b) <-> a <= x < b.
Proof.
  intros a b x. unfold span. rewrite In_range. rewrite N2Nat.id. lia.
Qed.

Lemma span_split : forall a b c, a <= b -> b <= c -> span a c = span a b ++ span b c.
Proof.
  intros a b c Hab Hbc. unfold span.
  replace (N.to_nat (c - a)) with (N.to_nat (b - a) + N.to_nat (c - b))%nat by lia.
  rewrite range_app. f_equal. f_equal. rewrite N2Nat.id. lia.
Qed.

Lemma span_nil : forall a b, b <= a -> span a b = [].
Proof. intros a b H. unfold span. replace (N.to_nat (b - a)) with 0%nat by lia. reflexivity. Qed.

Lemma length_span : forall a b, length (span a b) = N.to_nat (b - a).
Proof.
  intros a b. unfold span. generalize (N.to_nat (b - a)) as n. intro n. revert a.
  induction n as [|n IH]; intro a; cbn [range length]; [reflexivity | now rewrite IH].
Qed.

(* ---- sums ---- *)
Lemma sumN_app : forall l1 l2, sumN (l1 ++ l2) = sumN l1 + sumN l2.
Proof. induction l1 as [|x l1 IH]; intro l2; cbn [sumN app]; [lia | rewrite IH; lia]. Qed.

Lemma sumN_map_ext_in : forall (f g : N -> N) xs, (forall x, In x xs -> f x = g x) -> sumN (map f xs) = sumN (map g xs).
Proof. intros f g xs H. f_equal. now apply map_ext_in. Qed.

Lemma sumN_map_const : forall (c : N) (xs : list N), sumN (map (fun _ => c) xs) = Nlen xs * c.
Proof.
  intros c xs. unfold Nlen. induction xs as [|x xs IH]; cbn [map sumN length].
  - lia.
  - rewrite IH. lia.
Qed.

Lemma Nlen_span : forall a b, Nlen (span a b) = b - a.
Proof. intros. unfold Nlen. rewrite length_span. lia. Qed.

Lemma Nlen_filter_sum : forall (p : N -> bool) xs, Nlen (filter p xs) = sumN (map (fun x => if p x then 1 else 0) xs).
Proof.
  intros p xs. unfold Nlen. induction xs as [|x xs IH]; cbn [filter map sumN length]; [reflexivity|].
  destruct (p x); cbn [length]; lia.
Qed.

(* ---- the depth of a list of segments ---- *)
Lemma segs_depth_cons : forall g l x, segs_depth (g :: l) x = seg_at g x + segs_depth l x.
Proof. reflexivity. Qed.

Lemma segs_depth_app : forall l1 l2 x, segs_depth (l1 ++ l2) x = segs_depth l1 x + segs_depth l2 x.
Proof. intros. unfold segs_depth. rewrite map_app, sumN_app. reflexivity. Qed.

Lemma seg_at_in : forall g x, g_start g <= x < g_end g -> seg_at g x = g_val g.
Proof.
  intros g x H. unfold seg_at.
  destruct (N.leb_spec (g_start g) x); destruct (N.ltb_spec x (g_end g)); cbn [andb]; try reflexivity; exfalso; lia.
Qed.
Lemma seg_at_out : forall g x, x < g_start g \/ g_end g <= x -> seg_at g x = 0.
Proof.
  intros g x H. unfold seg_at.
  destruct (N.leb_spec (g_start g) x); destruct (N.ltb_spec x (g_end g)); cbn [andb]; try reflexivity; exfalso; lia.
Qed.

Lemma segs_sorted_weaken : forall l lo lo', lo' <= lo -> segs_sorted lo l -> segs_sorted lo' l.
Proof. destruct l as [|g r]; intros lo lo' H Hs; cbn [segs_sorted] in *; [exact I | intuition lia]. Qed.

Lemma sorted_depth_below : forall l lo x, segs_sorted lo l -> x < lo -> segs_depth l x = 0.
Proof.
  induction l as [|g r IH]; intros lo x Hs Hx; [reflexivity|].
  cbn [segs_sorted] in Hs. destruct Hs as (H1 & H2 & H3).
  rewrite segs_depth_cons, seg_at_out by lia. rewrite (IH (g_end g)) by (assumption || lia). reflexivity.
Qed.

Lemma segs_sorted_app : forall l1 l2 lo mid,
  segs_sorted lo l1 -> Forall (fun g => g_end g <= mid) l1 -> lo <= mid -> segs_sorted mid l2 -> segs_sorted lo (l1 ++ l2).
Proof.
  induction l1 as [|g r IH]; intros l2 lo mid H1 Hf Hle H2; cbn [app].
  - eapply segs_sorted_weaken; eassumption.
  - cbn [segs_sorted] in *. destruct H1 as (A & B & C). inversion Hf as [|? ? Hg Hr]; subst.
    repeat split; try assumption. eapply IH; try eassumption.
Qed.

(* ---- per-base sum of F(depth) over a range = sum over the segments of len * F(val) ---- *)
Section FSum.
Variable F : N -> N.
Hypothesis F0 : F 0 = 0.

Lemma fsum_zero : forall (d : N -> N) xs, (forall x, In x xs -> d x = 0) -> sumN (map (fun x => F (d x)) xs) = 0.
Proof.
  intros d xs H. rewrite (sumN_map_ext_in _ (fun _ => 0)).
  - rewrite sumN_map_const. lia.
  - intros x Hx. now rewrite H, F0.
Qed.

Lemma fsum_sorted : forall l lo hi,
  segs_sorted lo l -> Forall (fun g => g_end g <= hi) l -> lo <= hi ->
  sumN (map (fun x => F (segs_depth l x)) (span lo hi)) = sumN (map (fun g => seg_len g * F (g_val g)) l).
Proof.
  induction l as [|g r IH]; intros lo hi Hs Hf Hle.
  - cbn [map sumN]. apply fsum_zero. reflexivity.
  - cbn [segs_sorted] in Hs. destruct Hs as (H1 & H2 & H3).
    inversion Hf as [|? ? Hg Hr]; subst.
    rewrite (span_split lo (g_start g) hi) by lia.
    rewrite (span_split (g_start g) (g_end g) hi) by lia.
    rewrite !map_app, !sumN_app. cbn [map sumN].
    assert (E1 : sumN (map (fun x => F (segs_depth (g :: r) x)) (span lo (g_start g))) = 0).
    { apply fsum_zero. intros x Hx. apply In_span in Hx.
      rewrite segs_depth_cons, seg_at_out by lia.
      rewrite (sorted_depth_below r (g_end g)) by (assumption || lia). reflexivity. }
    assert (E2 : sumN (map (fun x => F (segs_depth (g :: r) x)) (span (g_start g) (g_end g))) = seg_len g * F (g_val g)).
    { rewrite (sumN_map_ext_in _ (fun _ => F (g_val g))).
      - rewrite sumN_map_const, Nlen_span. reflexivity.
      - intros x Hx. apply In_span in Hx. rewrite segs_depth_cons, seg_at_in by lia.
        rewrite (sorted_depth_below r (g_end g)) by (assumption || lia). f_equal. lia. }
    assert (E3 : sumN (map (fun x => F (segs_depth (g :: r) x)) (span (g_end g) hi))
                 = sumN (map (fun g => seg_len g * F (g_val g)) r)).
    { rewrite <- (IH (g_end g) hi) by assumption.
      apply sumN_map_ext_in. intros x Hx. apply In_span in Hx.
      rewrite segs_depth_cons, seg_at_out by lia. reflexivity. }
    rewrite E1, E2, E3. lia.
Qed.
End FSum.

(* ---- extremes ---- *)
Definition min_step (d : N -> N) (a : option N) (x : N) : option N := if 0 <? d x then opt_min a (d x) else a.
Definition max_step (d : N -> N) (a : option N) (x : N) : option N := if 0 <? d x then opt_max a (d x) else a.
Definition seg_min_step (a : option N) (g : seg) : option N := if seg_len g =? 0 then a else opt_min a (g_val g).
Definition seg_max_step (a : option N) (g : seg) : option N := if seg_len g =? 0 then a else opt_max a (g_val g).
Definition segs_min (l : list seg) : option N := fold_left seg_min_step l None.
Definition segs_max (l : list seg) : option N := fold_left seg_max_step l None.

Section Extreme.
(* one proof for min and max: [pick] is N.min or N.max *)
Variable pick : N -> N -> N.
Hypothesis pick_idem : forall v, pick v v = v.
Hypothesis pick_assoc : forall a b c, pick (pick a b) c = pick a (pick b c).
Definition opt_pick (a : option N) (v : N) : option N := match a with None => Some v | Some m => Some (pick m v) end.
Definition pstep (d : N -> N) (a : option N) (x : N) : option N := if 0 <? d x then opt_pick a (d x) else a.
Definition seg_pstep (a : option N) (g : seg) : option N := if seg_len g =? 0 then a else opt_pick a (g_val g).

Lemma pfold_ext : forall (d d' : N -> N) xs a, (forall x, In x xs -> d x = d' x) ->
  fold_left (pstep d) xs a = fold_left (pstep d') xs a.
Proof.
  intros d d' xs. induction xs as [|x xs IH]; intros a H; cbn [fold_left]; [reflexivity|].
  unfold pstep at 2 4. rewrite (H x (or_introl eq_refl)). apply IH. intros y Hy. apply H. now right.
Qed.

Lemma pfold_zero : forall (d : N -> N) xs a, (forall x, In x xs -> d x = 0) -> fold_left (pstep d) xs a = a.
Proof.
  intros d xs. induction xs as [|x xs IH]; intros a H; cbn [fold_left]; [reflexivity|].
  unfold pstep at 2. rewrite (H x (or_introl eq_refl)). cbn. apply IH. intros y Hy. apply H. now right.
Qed.

Lemma opt_pick_twice : forall a v, opt_pick (opt_pick a v) v = opt_pick a v.
Proof. intros [m|] v; cbn [opt_pick]; [now rewrite pick_assoc, pick_idem | now rewrite pick_idem]. Qed.

Lemma pfold_const : forall (d : N -> N) v xs a, 0 < v -> (forall x, In x xs -> d x = v) ->
  fold_left (pstep d) xs a = match xs with [] => a | _ => opt_pick a v end.
Proof.
  intros d v xs. induction xs as [|x xs IH]; intros a Hv H; cbn [fold_left]; [reflexivity|].
  assert (Hx : d x = v) by (apply H; now left).
  unfold pstep at 2. rewrite Hx. destruct (N.ltb_spec 0 v) as [_|C]; [|exfalso; lia].
  rewrite IH by (assumption || (intros y Hy; apply H; now right)).
  destruct xs; [reflexivity | apply opt_pick_twice].
Qed.

Lemma pfold_sorted : forall l lo hi a,
  segs_sorted lo l -> Forall (fun g => g_end g <= hi) l -> Forall (fun g => 1 <= g_val g) l -> lo <= hi ->
  fold_left (pstep (segs_depth l)) (span lo hi) a = fold_left seg_pstep l a.
Proof.
  induction l as [|g r IH]; intros lo hi a Hs Hf Hv Hle.
  - cbn [fold_left]. apply pfold_zero. reflexivity.
  - cbn [segs_sorted] in Hs. destruct Hs as (H1 & H2 & H3).
    inversion Hf as [|? ? Hg Hr]; subst. inversion Hv as [|? ? Hgv Hrv]; subst.
    rewrite (span_split lo (g_start g) hi) by lia.
    rewrite (span_split (g_start g) (g_end g) hi) by lia.
    rewrite !fold_left_app. cbn [fold_left].
    rewrite (pfold_zero _ (span lo (g_start g))).
    2:{ intros x Hx. apply In_span in Hx. rewrite segs_depth_cons, seg_at_out by lia.
        rewrite (sorted_depth_below r (g_end g)) by (assumption || lia). reflexivity. }
    rewrite (pfold_const _ (g_val g) (span (g_start g) (g_end g))).
    2:{ lia. }
    2:{ intros x Hx. apply In_span in Hx. rewrite segs_depth_cons, seg_at_in by lia.
        rewrite (sorted_depth_below r (g_end g)) by (assumption || lia). lia. }
    rewrite (pfold_ext _ (segs_depth r) (span (g_end g) hi)).
    2:{ intros x Hx. apply In_span in Hx. rewrite segs_depth_cons, seg_at_out by lia. reflexivity. }
    rewrite (IH (g_end g) hi) by assumption.
    f_equal. unfold seg_pstep, seg_len.
    destruct (N.eqb_spec (g_end g - g_start g) 0) as [E|E].
    + rewrite span_nil by lia. reflexivity.
    + assert (Hn : span (g_start g) (g_end g) <> []).
      { intro C. apply (f_equal (@length N)) in C. rewrite length_span in C. cbn in C. lia. }
      destruct (span (g_start g) (g_end g)); [congruence | reflexivity].
Qed.
End Extreme.

Lemma st_min_is_pfold : forall d xs, st_min d xs = fold_left (pstep N.min d) xs None.
Proof. reflexivity. Qed.
Lemma st_max_is_pfold : forall d xs, st_max d xs = fold_left (pstep N.max d) xs None.
Proof. reflexivity. Qed.
