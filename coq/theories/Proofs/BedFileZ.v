(* C02/C04, whole file, compressed: the reader-side theorems for the compressor-parametric bigBed writer
   model (Model/BigBedWriteZ.v).

   For every compressor [cmp] and every decompressor [infl] with  infl (cmp b) = b  (needed only when
   the blocks are compressed), for the bytes [f] of bb_write_gen_z (hence bb_write_z / bb_write_multipass_z,
   which take the flag from options.compress):
     - read_info f succeeds; the header's uncompress_buf_size is 0 iff the blocks are raw, fits u32 and is
       >= the uncompressed size of every data block;
     - bb_interval infl f i c s e = Ok (filter (bkeep s e) es) for every run (c, es) and every s e;
     - item count, autoSql, field counts, chromosome table as in the uncompressed theorem.
   The block sizes, hence every offset behind the first block (chromosome tree, index, zoom part), and the
   two-pass writer's automatic zoom selection (compressed data size) come from [cmp]; nothing is assumed
   about them.  The one new hypothesis is a field width: the header's uncompress_buf_size is a u32, so every
   UNCOMPRESSED block must be shorter than 2^32 bytes ([blocks_fit]: a data block holds at most
   items_per_slot entries but a rest-of-line has no length limit; [zoom_fit]: 32 * items_per_slot < 2^32).
   Also here: with compression off the parametric model IS Model/BigBedWrite.v. *)
From Coq Require Import Sorting.Sorted.
From BT Require Import Base.Util Base.LE Base.Float Generated.Consts Model.RTree Model.BBIFile Model.BigWigWrite Model.BigWigWriteZ
  Model.BBIRead Model.BigBedWrite Model.BigBedWriteZ Model.BBIReadBed Proofs.Chunks Proofs.RTreeAbs Proofs.RTreeBuild Proofs.RTreeCodec
  Proofs.RTreeLayout Proofs.RTreeShape Proofs.BedQuery Proofs.BedCodec Proofs.BedImage Proofs.BedAssemble Proofs.BedReadInfo Proofs.BedEndToEnd Proofs.BedZoomFit.
From BT Require Model.AutoSql Proofs.C09Data Proofs.C09BufSize Proofs.C09Whole Proofs.C09Zoom Proofs.C09BedZoom.
Local Open Scope N_scope.
Notation blk_mode := C09Data.blk_mode.

(* ---------- with compression off the parametric model is the plain one ---------- *)
Lemma map_id_ext {X} (f : X -> X) l : (forall x, f x = x) -> map f l = l.
Proof. intros H. induction l as [|x l IH]; cbn [map]; [reflexivity|]. now rewrite H, IH. Qed.

Theorem bb_write_zc_false cmp fp o sizes autosql input :
  bb_write_zc cmp false fp o sizes autosql input = bb_write fp o sizes autosql input
  /\ bb_write_multipass_zc cmp false fp o sizes autosql input = bb_write_multipass fp o sizes autosql input.
Proof.
  assert (Hz : forall l, map (zsec cmp false) l = l) by (intros l; apply map_id_ext; reflexivity).
  assert (Hzl : forall l, map (zlevel cmp false) l = l).
  { intros l. apply map_id_ext. intros [r s]. unfold zlevel. cbn [zl_res zl_secs]. now rewrite Hz. }
  split.
  - unfold bb_write_zc, bb_write, bb_write_gen_z, bb_write_gen. destruct (_ || _); [reflexivity|].
    destruct (bb_schema autosql) as [[sql fc]| | |]; cbn [rbind]; try reflexivity.
    destruct (bb_collect o sizes input) as [[ids outs]| | |]; cbn [rbind]; try reflexivity.
    destruct (bb_data o outs) as [data| | |]; cbn [rbind]; try reflexivity.
    rewrite Hz. unfold assemble_z, assemble, ubuf_of. cbv zeta.
    destruct (chrom_tree_bytes sizes ids); cbn [rbind]; try reflexivity.
    destruct (write_index _ _ _ _) as [[ix lv]| | |]; cbn [rbind]; try reflexivity.
    unfold bb_zoom_single_z, bb_zoom_single. destruct (mapM _ (zoom_sizes_single o)) as [zooms| | |]; cbn [rbind]; try reflexivity.
    rewrite Hzl. destruct (write_zooms_loop _ _ _ _ _ _) as [[zb zh]| | |]; cbn [rbind]; reflexivity.
  - unfold bb_write_multipass_zc, bb_write_multipass, bb_write_gen_z, bb_write_gen. destruct (_ || _); [reflexivity|].
    destruct (bb_schema autosql) as [[sql fc]| | |]; cbn [rbind]; try reflexivity.
    destruct (bb_collect o sizes input) as [[ids outs]| | |]; cbn [rbind]; try reflexivity.
    destruct (bb_data o outs) as [data| | |]; cbn [rbind]; try reflexivity.
    rewrite Hz. unfold assemble_z, assemble, ubuf_of. cbv zeta.
    destruct (chrom_tree_bytes sizes ids); cbn [rbind]; try reflexivity.
    destruct (write_index _ _ _ _) as [[ix lv]| | |]; cbn [rbind]; try reflexivity.
    unfold bb_zoom_two_pass_z, bb_zoom_two_pass. cbv zeta. destruct (mapM _ _) as [zooms| | |]; cbn [rbind]; try reflexivity.
    rewrite Hzl. destruct (write_zooms_two_pass _ _ _) as [[zb zh]| | |]; cbn [rbind]; reflexivity.
Qed.

Theorem bb_write_z_uncompressed cmp fp o sizes autosql input : o_compress o = false ->
  bb_write_z cmp fp o sizes autosql input = bb_write fp o sizes autosql input
  /\ bb_write_multipass_z cmp fp o sizes autosql input = bb_write_multipass fp o sizes autosql input.
Proof. intros Hc. unfold bb_write_z, bb_write_multipass_z. rewrite Hc. apply bb_write_zc_false. Qed.

(* ---------- what assemble_z returns (BedAssemble.assemble_layout with the buffer size) ---------- *)
Definition hdr_of_z (magic : N) (pre dbytes ct : list N) (fc dfc asql : N) (zhdrs : list zoom_header) (ubuf : N) : list N :=
  header_bytes magic (Nlen zhdrs) (Nlen pre + Nlen dbytes) (Nlen pre - 8) (Nlen pre + Nlen dbytes + Nlen ct)
               fc dfc asql (Nlen pre - 48) ubuf ++ flat_map zoom_header_bytes zhdrs.

Theorem assemble_z_layout o magic sizes chroms sum data dub pre fc dfc asql zoom_part dcount f :
  assemble_z o magic sizes chroms sum data dub pre fc dfc asql zoom_part dcount = Ok f ->
  exists ct ix lv zbytes zhdrs zu,
    chrom_tree_bytes sizes chroms = Ok ct
    /\ write_index (o_bs o) (o_ips o) (Nlen pre + Nlen (data_bytes data) + Nlen ct) (place (Nlen pre) data) = Ok (ix, lv)
    /\ zoom_part (Nlen (data_bytes data)) (Nlen pre + Nlen (data_bytes data) + Nlen ct + Nlen ix) = Ok (zbytes, zhdrs, zu)
    /\ ((64 + 24 * length zhdrs <= length pre - 48)%nat -> (48 <= length pre)%nat ->
        exists pre', length pre' = length pre
          /\ f = pre' ++ data_bytes data ++ ct ++ ix ++ zbytes ++ u32 magic
          /\ has_at pre' 0 (hdr_of_z magic pre (data_bytes data) ct fc dfc asql zhdrs (N.max dub zu))
          /\ has_at pre' (Nlen pre - 48) (summary_bytes sum)
          /\ has_at pre' (Nlen pre - 8) (u64 (dcount (Nlen (place (Nlen pre) data))))
          /\ (forall off x, has_at pre off x -> (64 + 24 * length zhdrs <= N.to_nat off)%nat ->
                            (N.to_nat off + length x <= length pre - 48)%nat -> has_at pre' off x)).
Proof.
  unfold assemble_z. intros H.
  destruct (chrom_tree_bytes sizes chroms) as [ct| | |] eqn:Ect; cbn [rbind] in H; try discriminate.
  destruct (write_index (o_bs o) (o_ips o) (Nlen pre + Nlen (data_bytes data) + Nlen ct) (place (Nlen pre) data))
    as [[ix lv]| | |] eqn:Eix; cbn [rbind] in H; try discriminate.
  destruct (zoom_part (Nlen (data_bytes data)) (Nlen pre + Nlen (data_bytes data) + Nlen ct + Nlen ix))
    as [[[zbytes zhdrs] zu]| | |] eqn:Ez; cbn [rbind] in H; try discriminate.
  exists ct, ix, lv, zbytes, zhdrs, zu. split; [first [reflexivity|assumption]|]. split; [first [reflexivity|assumption]|].
  split; [first [reflexivity|assumption]|].
  intros Hh H48. apply Ok_inj in H. subst f.
  set (hdr := hdr_of_z magic pre (data_bytes data) ct fc dfc asql zhdrs (N.max dub zu)).
  assert (Hhl : length hdr = (64 + 24 * length zhdrs)%nat).
  { unfold hdr, hdr_of_z. rewrite app_length, header_bytes_length, zoom_dir_length. reflexivity. }
  set (rest := data_bytes data ++ ct ++ ix ++ zbytes).
  set (tso := Nlen pre - 48). set (fdo := Nlen pre - 8).
  assert (Htso : N.to_nat tso = (length pre - 48)%nat) by (unfold tso, Nlen; lia).
  assert (Hfdo : N.to_nat fdo = (length pre - 8)%nat) by (unfold fdo, Nlen; lia).
  set (p1 := patch_at pre 0 hdr).
  set (p2 := patch_at p1 tso (summary_bytes sum)).
  set (p3 := patch_at p2 fdo (u64 (dcount (Nlen (place (Nlen pre) data))))).
  assert (L1 : length p1 = length pre) by (apply patch_at_length; cbn [N.to_nat]; rewrite ?Hhl; lia).
  assert (L2 : length p2 = length pre) by (unfold p2; rewrite patch_at_length; [exact L1|rewrite summary_bytes_length; lia]).
  assert (L3 : length p3 = length pre) by (unfold p3; rewrite patch_at_length; [exact L2|unfold u64; rewrite enc_len; lia]).
  exists p3. split; [exact L3|]. split.
  - (* the file *)
    change (header_bytes magic (Nlen zhdrs) (Nlen pre + Nlen (data_bytes data)) fdo (Nlen pre + Nlen (data_bytes data) + Nlen ct) fc dfc asql tso
              (N.max dub zu) ++ flat_map zoom_header_bytes zhdrs) with hdr.
    change (pre ++ data_bytes data ++ ct ++ ix ++ zbytes) with (pre ++ rest).
    rewrite (patch_at_app pre rest 0 hdr) by (cbn [N.to_nat]; rewrite ?Hhl; lia). fold p1.
    rewrite (patch_at_app p1 rest tso) by (rewrite summary_bytes_length; lia). fold p2.
    rewrite (patch_at_app p2 rest fdo) by (unfold u64; rewrite enc_len; lia). fold p3.
    unfold rest. now rewrite <- !app_assoc.
  - assert (A1 : has_at p1 0 hdr) by (apply patch_at_has; cbn [N.to_nat]; rewrite ?Hhl; lia).
    assert (A2 : has_at p2 0 hdr).
    { unfold p2. apply patch_at_keeps; [exact A1|rewrite summary_bytes_length; lia|left; cbn [N.to_nat]; rewrite ?Hhl; lia]. }
    assert (B2 : has_at p2 tso (summary_bytes sum)) by (apply patch_at_has; rewrite summary_bytes_length; lia).
    split; [|split; [|split]].
    + unfold p3. apply patch_at_keeps; [exact A2|unfold u64; rewrite enc_len; lia|left; cbn [N.to_nat]; rewrite ?Hhl; lia].
    + unfold p3. apply patch_at_keeps; [exact B2|unfold u64; rewrite enc_len; lia|left; rewrite summary_bytes_length; lia].
    + apply patch_at_has. unfold u64. rewrite enc_len. lia.
    + intros off x Hx Hlo Hhi.
      unfold p3. apply patch_at_keeps; [|unfold u64; rewrite enc_len; lia|left; lia].
      unfold p2. apply patch_at_keeps; [|rewrite summary_bytes_length; lia|left; lia].
      unfold p1. apply patch_at_keeps; [exact Hx|cbn [N.to_nat]; rewrite ?Hhl; lia|right; cbn [N.to_nat]; rewrite ?Hhl; lia].
Qed.

(* ---------- the sections as written ---------- *)
Lemma zsec_fields cmp cz d : sd_chrom (zsec cmp cz d) = sd_chrom d /\ sd_start (zsec cmp cz d) = sd_start d
  /\ sd_end (zsec cmp cz d) = sd_end d.
Proof. destruct cz; repeat split; reflexivity. Qed.

Lemma place_spans_z cmp cz : forall gs off, map sect_span (place off (map (zsec cmp cz) (map sd_of gs))) = map gspan gs.
Proof.
  induction gs as [|g gs IH]; intros off; [reflexivity|]. cbn [map place]. rewrite IH. f_equal.
  unfold sect_span, gspan. cbn [s_chrom s_start s_end]. destruct (zsec_fields cmp cz (sd_of g)) as (-> & -> & ->). reflexivity.
Qed.

Lemma place_fields_z cmp cz : forall gs off s, In s (place off (map (zsec cmp cz) (map sd_of gs))) ->
  exists g, In g gs /\ s_chrom s = fst g /\ s_start s = sd_start (sd_of g) /\ s_end s = sd_end (sd_of g).
Proof.
  induction gs as [|g gs IH]; intros off s Hin; [destruct Hin|].
  cbn [map place] in Hin. destruct Hin as [<-|Hin].
  - exists g. cbn [s_chrom s_start s_end]. destruct (zsec_fields cmp cz (sd_of g)) as (-> & -> & ->). rewrite sd_of_chrom. auto with datatypes.
  - destruct (IH _ _ Hin) as [g' [Hg' H]]. exists g'. split; [right; exact Hg'|exact H].
Qed.

(* ---------- reading blocks that went through the block store ---------- *)
Section ReaderZ.
Variables (cmp infl : list N -> list N) (cz : bool).
Variable i : info.
Hypothesis Hbig : h_big (i_hdr i) = false.
Hypothesis Hmode : blk_mode cz (h_ubuf (i_hdr i)).
Hypothesis Hrt : cz = true -> forall b, infl (cmp b) = b.

Lemma block_data_zb img b d : slice img (fst b) (N.to_nat (snd b)) = Some (sd_bytes (zsec cmp cz d)) ->
  block_data infl i img b = Ok (sd_bytes d).
Proof.
  intros H. unfold block_data. rewrite H. cbn [rdo rbind]. destruct Hmode as [[Ec Eu]|[Ec Eu]]; subst cz.
  - rewrite Eu. reflexivity.
  - replace (0 <? h_ubuf (i_hdr i)) with true by (symmetry; now apply N.ltb_lt).
    cbn [zsec sd_bytes]. now rewrite (Hrt eq_refl).
Qed.

Lemma overlaps_zsd q s e g off : snd g <> [] ->
  overlaps q s e (sect_span {| s_chrom := sd_chrom (zsec cmp cz (sd_of g)); s_start := sd_start (zsec cmp cz (sd_of g));
                               s_end := sd_end (zsec cmp cz (sd_of g)); s_off := off;
                               s_size := Nlen (sd_bytes (zsec cmp cz (sd_of g))) |}) = ghit q s e g.
Proof.
  intros Hne. rewrite <- (overlaps_sd q s e g off Hne). unfold sect_span. cbn [s_chrom s_start s_end].
  destruct (zsec_fields cmp cz (sd_of g)) as (-> & -> & ->). reflexivity.
Qed.

Lemma collect_scan_z img q s e : q < U32 -> forall (gs : list (N * list entry)) off,
  Forall (fun g => snd g <> [] /\ Forall entry_ok (snd g)) gs ->
  has_at img off (data_bytes (map (zsec cmp cz) (map sd_of gs))) ->
  collect_blocks (fun b => block_entries infl i img b q s e) (scan (place off (map (zsec cmp cz) (map sd_of gs))) q s e)
  = Ok (flat_map (fun g => filter (bkeep s e) (snd g)) (filter (ghit q s e) gs)).
Proof.
  intros Hq. induction gs as [|g gs IH]; intros off Hok Hat; [reflexivity|].
  inversion Hok as [|? ? [Hne Heok] Hrest]; subst.
  cbn [map place]. rewrite scan_cons.
  unfold data_bytes in Hat. cbn [map flat_map] in Hat. apply has_at_app in Hat as [Hat1 Hat2].
  fold (data_bytes (map (zsec cmp cz) (map sd_of gs))) in Hat2.
  rewrite overlaps_zsd by exact Hne. cbn [filter].
  destruct (ghit q s e g) eqn:Hh.
  - cbn [collect_blocks s_off s_size].
    unfold ghit in Hh. apply andb_true_iff in Hh as [Hc _]. apply N.eqb_eq in Hc.
    assert (Hblock : block_entries infl i img (off, Nlen (sd_bytes (zsec cmp cz (sd_of g)))) q s e = Ok (Some (filter (bkeep s e) (snd g)))).
    { unfold block_entries. rewrite (block_data_zb img _ (sd_of g)).
      - cbn [rbind]. rewrite sd_of_bytes. rewrite Hc. rewrite block_entries_of_encoded by assumption. reflexivity.
      - cbn [fst snd]. apply (has_at_slice_w img off _ _ Hat1). unfold Nlen. now rewrite Nat2N.id. }
    rewrite Hblock. cbn [rbind]. rewrite IH by assumption. cbn [rbind flat_map]. reflexivity.
  - cbn [flat_map]. apply IH; assumption.
Qed.

(* the whole reader path on an image holding the written sections at [pre_data] and their index at [index_off] *)
Theorem interval_on_image_z img (gs : list (N * list entry)) pre_data index_off b ips ix lv pre post c q s e :
  h_full_index_off (i_hdr i) = index_off -> chrom_id i c = Ok q -> q < U32 ->
  2 <= b <= 65535 -> gs <> [] ->
  Forall (fun g => snd g <> [] /\ Forall entry_ok (snd g)) gs ->
  sorted_starts (map sect_span (place pre_data (map (zsec cmp cz) (map sd_of gs)))) ->
  Forall sect_ok (place pre_data (map (zsec cmp cz) (map sd_of gs))) ->
  write_index b ips index_off (place pre_data (map (zsec cmp cz) (map sd_of gs))) = Ok (ix, lv) ->
  img = pre ++ ix ++ post -> Nlen pre = index_off -> index_off + Nlen ix <= U64 ->
  has_at img pre_data (data_bytes (map (zsec cmp cz) (map sd_of gs))) ->
  bb_interval infl img i c s e = Ok (flat_map (fun g => filter (bkeep s e) (snd g)) (filter (ghit q s e) gs)).
Proof.
  intros Hio Hcid Hq Hb Hne Hok Hsorted Hsok Hwi Himg Hpre Hend Hat.
  set (secs := place pre_data (map (zsec cmp cz) (map sd_of gs))) in *.
  assert (Hsne : secs <> []) by (unfold secs; destruct gs; [congruence|discriminate]).
  destruct (search_bytes_eq_scan b ips index_off secs Hb Hsne Hsorted Hsok) as [ix' [lv' [Hwi' Hsearch]]].
  rewrite Hwi in Hwi'. inversion Hwi'; subst ix' lv'. clear Hwi'.
  specialize (Hsearch Hend).
  assert (Hhdr : exists sp body, ix = index_header b ips (Nlen secs) sp index_off ++ body).
  { unfold write_index in Hwi. destruct (build (N.to_nat b) secs) as [[t l]| | |]; cbn [rbind] in Hwi; try discriminate.
    unfold rtree_bytes in Hwi. destruct (write_levels b t l l (index_off + 48)) as [body| | |]; cbn [rbind] in Hwi; try discriminate.
    inversion Hwi; subst. exists (span_of t), body. reflexivity. }
  destruct Hhdr as [sp [body Hix]].
  unfold bb_interval. rewrite Hcid. cbn [rbind]. rewrite Hbig, Hio.
  assert (Hroot : cir_tree_root false img index_off = Ok (index_off + 48)).
  { unfold cir_tree_root.
    assert (Hat48 : has_at img index_off (index_header b ips (Nlen secs) sp index_off)).
    { exists pre, (body ++ post). split; [rewrite Himg, Hix; now rewrite <- app_assoc|].
      rewrite <- Hpre. unfold Nlen. now rewrite Nat2N.id. }
    rewrite (has_at_slice_w _ _ _ 48 Hat48) by (now rewrite index_header_length).
    cbn [rdo rbind]. unfold index_header. rewrite firstn4_u32. rewrite dec_u32 by (vm_compute; reflexivity).
    rewrite N.eqb_refl. reflexivity. }
  rewrite Hroot. cbn [rbind].
  unfold search_blocks. rewrite Hbig.
  rewrite Himg. rewrite Hsearch; [|exact Hpre|rewrite !app_length; lia].
  cbn [rbind]. rewrite <- Himg. apply collect_scan_z; assumption.
Qed.
End ReaderZ.

(* ---------- the size of a block before compression ---------- *)
Definition block_len (blk : list entry) : N := sumN (map (fun x => 13 + Nlen (e_rest x)) blk).
(* every uncompressed data block fits the header's 32-bit uncompress_buf_size *)
Definition blocks_fit (o : opts) (input : list bitem) : Prop :=
  forall c es blk, In (c, es) (bruns input) -> In blk (sections_loop (o_ips o) [] es) -> block_len blk < U32.

Lemma entry_bytes_Nlen chrom x : Nlen (entry_bytes chrom x) = 13 + Nlen (e_rest x).
Proof. unfold entry_bytes, u32, Nlen. rewrite !app_length, !enc_le_length. cbn [length]. lia. Qed.
Lemma block_bytes_len chrom blk : Nlen (flat_map (entry_bytes chrom) blk) = block_len blk.
Proof.
  unfold block_len. induction blk as [|x blk IH]; [reflexivity|]. cbn [flat_map map sumN]. rewrite Nlen_app, entry_bytes_Nlen, IH. reflexivity.
Qed.

(* a sufficient condition in terms of field sizes alone *)
Lemma sumN_bound (l : list N) B : Forall (fun x => x <= B) l -> sumN l <= Nlen l * B.
Proof.
  induction 1 as [|x l Hx _ IH]; [cbn; lia|]. cbn [sumN]. rewrite Nlen_cons. lia.
Qed.
Lemma blocks_fit_of_bounds o input R : 1 <= o_ips o -> o_ips o * (13 + R) < U32 ->
  Forall (fun it : bitem => Nlen (e_rest (snd it)) <= R) input -> blocks_fit o input.
Proof.
  intros Hi Hb Hall c es blk Hce Hblk. unfold block_len.
  rewrite sections_are_chunks in Hblk.
  assert (Hs : (0 < slot (o_ips o))%nat) by (unfold slot; lia).
  pose proof (chunks_len_bound (slot (o_ips o)) es blk Hs Hblk) as Hl.
  assert (Hin : forall x, In x blk -> Nlen (e_rest x) <= R).
  { intros x Hx. rewrite Forall_forall in Hall. apply (Hall (c, x)).
    rewrite <- (bruns_untag input). unfold untag. apply in_flat_map. exists (c, es). split; [exact Hce|].
    cbn [fst snd]. unfold tag. apply in_map. rewrite <- (chunks_concat (slot (o_ips o)) es Hs). apply in_concat. exists blk. auto. }
  assert (Hsum : sumN (map (fun x => 13 + Nlen (e_rest x)) blk) <= Nlen (map (fun x => 13 + Nlen (e_rest x)) blk) * (13 + R)).
  { apply sumN_bound. rewrite Forall_map. apply Forall_forall. intros x Hx. specialize (Hin x Hx). lia. }
  assert (Hn : Nlen (map (fun x : entry => 13 + Nlen (e_rest x)) blk) <= o_ips o).
  { unfold Nlen. rewrite map_length. unfold slot in Hl. lia. }
  nia.
Qed.

(* ---------- the theorem ---------- *)
Section EndToEndZ.
Variables (cmp : list N -> list N) (cz : bool).
Variable sweep : list bchrom -> summary.
Variable zoom_part : list bchrom -> summary -> N -> N -> res (list N * list zoom_header * N).
(* at most MAX_ZOOM_LEVELS = 10 zoom levels; the zoom side's buffer size fits u32 and is 0 for raw blocks *)
Hypothesis zoom_fit : forall outs sum a b zb zh zu, zoom_part outs sum a b = Ok (zb, zh, zu) ->
  (length zh <= 10)%nat /\ zu < U32 /\ (cz = false -> zu = 0).

Theorem bb_write_read_z o sizes autosql input f :
  bb_write_gen_z cmp cz sweep zoom_part o sizes autosql input = Ok f ->
  o_bs o <= 65535 ->
  Nlen (bruns input) < U16 ->
  input_ok input ->
  Forall (fun s => snd s < U32) sizes ->
  Nlen f <= U64 ->
  (cz = true -> blocks_fit o input) ->
  exists i sql fc,
    read_info f = Ok i /\ bb_schema autosql = Ok (sql, fc)
    /\ (h_ubuf (i_hdr i) = 0 <-> cz = false) /\ h_ubuf (i_hdr i) < U32
    /\ (cz = true -> forall c es blk, In (c, es) (bruns input) -> In blk (sections_loop (o_ips o) [] es) ->
          block_len blk <= h_ubuf (i_hdr i))
    /\ (forall infl c es s e, (cz = true -> forall b, infl (cmp b) = b) -> In (c, es) (bruns input) ->
          bb_interval infl f i c s e = Ok (filter (bkeep s e) es))
    /\ (Nlen input < U64 -> bb_item_count f i = Ok (Nlen input))
    /\ bb_autosql f i = Ok (Some sql)
    /\ h_field_count (i_hdr i) = fc /\ h_defined_fc (i_hdr i) = fc
    /\ map (fun c => (ci_name c, ci_id c)) (i_chroms i) = combine (map fst (bruns input)) (seqN 0 (length (bruns input)))
    /\ Forall (fun c => lookup (ci_name c) sizes = Some (ci_len c)) (i_chroms i).
Proof.
  intros Hw Hbs' Hnchr Hin Hsizes Hflen Hfit.
  unfold bb_write_gen_z in Hw.
  destruct ((o_bs o <? 2) || (o_ips o <? 1)) eqn:Eopt; [discriminate|].
  apply orb_false_iff in Eopt as [Eopt _]. apply N.ltb_ge in Eopt.
  assert (Hbs : 2 <= o_bs o <= 65535) by (split; assumption).
  destruct (bb_schema autosql) as [[sql fc]| | |] eqn:Esch; cbn [rbind] in Hw; try discriminate.
  destruct (bb_collect o sizes input) as [[ids outs]| | |] eqn:Ecol; cbn [rbind] in Hw; try discriminate.
  rewrite bb_data_sections in Hw. cbn [rbind] in Hw.
  set (gs := gsecs (o_ips o) (groups_of outs)) in *.
  set (data := map sd_of gs) in *.
  set (wdata := map (zsec cmp cz) data) in *.
  set (pre := bb_pre sql) in *.
  destruct (bb_schema_verbatim _ _ _ Esch) as [_ Hsqlnn].
  (* facts about the accepted input *)
  destruct (collect_partition _ _ _ _ _ Ecol) as [Hpart [Houts Hcount]].
  assert (Hruns : map (fun c => (bc_name c, bc_entries c)) outs = bruns input /\
                  ids = combine (map fst (bruns input)) (seqN 0 (length (bruns input))) /\
                  map bc_id outs = seqN 0 (length (bruns input)) /\ NoDup (map fst (bruns input))).
  { unfold bb_collect in Ecol. destruct input as [|i0 rest]; [discriminate|].
    destruct (process_bruns_outs _ _ _ _ _ _ _ Ecol) as [H1 _].
    destruct (process_bruns_ids o sizes _ None [] ids outs Ecol) as [H2 [H3 [H4 _]]].
    split; [exact H1|]. split; [exact H2|]. split; [exact H3|exact H4]. }
  destruct Hruns as [Hruns [Hids [Hbcids Hnd]]].
  set (n := length (bruns input)) in *.
  assert (Hlen_outs : length outs = n) by (unfold n; rewrite <- Hruns; now rewrite map_length).
  (* layout of the file *)
  destruct (assemble_z_layout _ _ _ _ _ _ _ _ _ _ _ _ _ _ Hw) as [ct [ix [lv [zbytes [zhdrs [zu [Hct [Hix [Hz Hlay]]]]]]]]].
  assert (Lpre : length pre = (304 + length sql + 1 + 40 + 8)%nat).
  { unfold pre, bb_pre, u64. rewrite !app_length, blank_headers_length, repeatN_length, enc_len. cbn [length]. lia. }
  destruct (zoom_fit _ _ _ _ _ _ _ Hz) as (Hzl & Hzu & Hz0).
  destruct (Hlay ltac:(lia) ltac:(lia)) as [pre' [Lpre' [Hf [Hhdr [Hsum [Hcnt Hkeep]]]]]]. clear Hlay.
  set (ubuf := N.max (ubuf_of cz data) zu) in *.
  set (dbytes := data_bytes wdata) in *.
  set (cis := Nlen pre + Nlen dbytes) in *.
  set (ixs := Nlen pre + Nlen dbytes + Nlen ct) in *.
  assert (HNpre' : Nlen pre' = Nlen pre) by (unfold Nlen; now rewrite Lpre').
  (* sizes *)
  assert (Hfl : Nlen f = Nlen pre + Nlen dbytes + Nlen ct + Nlen ix + Nlen zbytes + 4).
  { rewrite Hf. rewrite !Nlen_app. rewrite HNpre'. unfold Nlen at 6. unfold u32. rewrite enc_len. lia. }
  (* every run's name and entries are fine *)
  assert (Hrun_ok : forall c es, In (c, es) (bruns input) -> no_nul_name c /\ Nlen c < U32 /\ Forall entry_ok es).
  { intros c es Hce. rewrite <- (bruns_untag input) in Hin. unfold input_ok, untag in Hin.
    rewrite Forall_forall in Hin.
    assert (Hall : forall x, In x es -> no_nul_name c /\ Nlen c < U32 /\ entry_ok x).
    { intros x Hx. specialize (Hin (c, x)). cbn [fst snd] in Hin. apply Hin.
      apply in_flat_map. exists (c, es). split; [exact Hce|]. cbn [fst snd]. unfold tag. apply in_map. exact Hx. }
    pose proof (bruns_nonempty _ _ _ Hce) as Hne.
    destruct es as [|x0 es']; [congruence|].
    destruct (Hall x0 (or_introl eq_refl)) as [A [B _]]. split; [exact A|]. split; [exact B|].
    apply Forall_forall. intros x Hx. apply (Hall x Hx). }
  (* the sections and the runs they come from *)
  assert (Hgs_run : forall g, In g gs -> exists bc, In bc outs /\ fst g = bc_id bc /\ In (bc_name bc, bc_entries bc) (bruns input)
                                           /\ In (snd g) (sections_loop (o_ips o) [] (bc_entries bc))).
  { intros g Hg. unfold gs, gsecs in Hg. apply in_flat_map in Hg as [g2 [Hg2 Hg]]. apply in_map_iff in Hg as [c [<- Hc]].
    unfold groups_of in Hg2. apply in_map_iff in Hg2 as [bc [<- Hbc]]. cbn [fst snd] in *.
    exists bc. split; [exact Hbc|]. split; [reflexivity|]. split; [|exact Hc].
    rewrite <- Hruns. apply (in_map (fun c => (bc_name c, bc_entries c))). exact Hbc. }
  assert (Hrun_gs : forall c es blk, In (c, es) (bruns input) -> In blk (sections_loop (o_ips o) [] es) ->
                     exists g, In g gs /\ snd g = blk).
  { intros c es blk Hce Hblk. rewrite <- Hruns in Hce. apply in_map_iff in Hce as [bc [E Hbc]]. inversion E; subst.
    exists (bc_id bc, blk). split; [|reflexivity]. unfold gs, gsecs. apply in_flat_map. exists (bc_id bc, bc_entries bc).
    split; [unfold groups_of; apply in_map_iff; exists bc; auto|]. cbn [fst snd]. apply in_map. exact Hblk. }
  (* the buffer size *)
  assert (Hdlen : forall g, In g gs -> Nlen (sd_bytes (sd_of g)) = block_len (snd g)).
  { intros g _. rewrite sd_of_bytes. apply block_bytes_len. }
  assert (Hgs_first : exists g0, In g0 gs /\ 13 <= block_len (snd g0)).
  { assert (Hne : bruns input <> []).
    { unfold bb_collect in Ecol. destruct input as [|[c0 v0] rest]; [discriminate|]. cbn [bruns]. clear. generalize [v0] as acc. revert c0.
      induction rest as [|[c' v'] r IH]; intros c acc; cbn [bruns_aux]; [discriminate|]. destruct (name_eqb c' c); [apply IH|discriminate]. }
    assert (Hex : exists c es, In (c, es) (bruns input)).
    { destruct (bruns input) as [|[c es] rs]; [congruence|]. exists c, es. now left. }
    destruct Hex as (c & es & Hce).
    pose proof (bruns_nonempty _ _ _ Hce) as Hes.
    assert (Hs : (0 < slot (o_ips o))%nat) by (unfold slot; lia).
    destruct (sections_loop (o_ips o) [] es) as [|blk rest] eqn:Esl.
    { exfalso. rewrite sections_are_chunks in Esl. apply chunks_nil_iff in Esl. congruence. }
    destruct (Hrun_gs c es blk Hce ltac:(rewrite Esl; now left)) as [g [Hg Eg]]. exists g. split; [exact Hg|]. rewrite Eg.
    assert (Hb : blk <> []).
    { pose proof (chunks_nonempty (slot (o_ips o)) es Hs) as Hn. rewrite <- sections_are_chunks, Esl in Hn. now apply Forall_inv in Hn. }
    destruct blk as [|x blk']; [congruence|]. unfold block_len. cbn [map sumN]. lia. }
  assert (Hmode : blk_mode cz ubuf).
  { unfold ubuf, ubuf_of. destruct cz; [right|left; split; [reflexivity|rewrite (Hz0 eq_refl); reflexivity]]. split; [reflexivity|].
    destruct Hgs_first as (g0 & Hg0 & Hl0).
    pose proof (C09BufSize.max_len_ge data (sd_of g0) ltac:(unfold data; now apply in_map)) as Hm. rewrite (Hdlen g0 Hg0) in Hm. lia. }
  assert (Hub : ubuf < U32).
  { unfold ubuf, ubuf_of. destruct cz; [|unfold U32 in *; lia].
    assert (max_len data < U32); [|lia]. apply C09Whole.max_len_lt; [unfold U32; lia|].
    unfold data. rewrite Forall_map. apply Forall_forall. intros g Hg. rewrite (Hdlen g Hg).
    destruct (Hgs_run g Hg) as (bc & _ & _ & Hr & Hb). exact (Hfit eq_refl _ _ _ Hr Hb). }
  (* the header *)
  assert (Hhdr_f : has_at f 0 (hdr_of_z BIGBED_MAGIC pre dbytes ct fc fc ASQL_OFFSET zhdrs ubuf)).
  { rewrite Hf. apply has_at_app_r. exact Hhdr. }
  unfold hdr_of_z in Hhdr_f. apply has_at_app in Hhdr_f as [Hh64 Hzdir].
  assert (Hfc16 : fc < U16).
  { unfold bb_schema, AutoSql.write_pre_schema in Esch.
    destruct (match AutoSql.parse _ with Ok _ => _ | Err _ => _ | Panic => _ | Fuel => _ end) as [x| | |]; cbn [rbind] in Esch; try discriminate.
    destruct (existsb _ _); [discriminate|]. apply Ok_inj in Esch. inversion Esch. apply N.mod_lt. discriminate. }
  assert (HNprelen : Nlen pre = 304 + Nlen sql + 1 + 40 + 8) by (unfold Nlen; rewrite Lpre; lia).
  pose proof (read_header_written f (Nlen zhdrs) cis (Nlen pre - 8) ixs fc fc ASQL_OFFSET (Nlen pre - 48) ubuf Hh64) as Hrh.
  assert (Hasql : ASQL_OFFSET = 304) by (unfold ASQL_OFFSET, Nlen; now rewrite blank_headers_length).
  specialize (Hrh ltac:(unfold hdr_ok, U16, U32, U64 in *; unfold cis, ixs; rewrite Hasql; unfold Nlen at 1; repeat split; lia)).
  set (h := {| h_big := false; h_bigwig := false; h_version := 4; h_zoom_levels := Nlen zhdrs; h_chrom_tree_off := cis;
               h_full_data_off := Nlen pre - 8; h_full_index_off := ixs; h_field_count := fc; h_defined_fc := fc;
               h_asql_off := ASQL_OFFSET; h_summary_off := Nlen pre - 48; h_ubuf := ubuf |}) in *.
  destruct (read_zoom_headers_total false f (N.to_nat (h_zoom_levels h)) 64) as [zs Hzs].
  { cbn [h_zoom_levels h]. unfold Nlen at 1. rewrite Nat2N.id.
    assert (length f >= length pre)%nat by (rewrite Hf, app_length; lia). lia. }
  (* the chromosome tree *)
  assert (Hct_at : has_at f cis ct).
  { rewrite Hf. unfold cis. rewrite <- HNpre'. apply has_at_shift.
    replace (Nlen dbytes) with (Nlen dbytes + 0) by lia.
    apply has_at_shift. apply has_at_here. }
  assert (Hnames : map fst ids = map fst (bruns input)).
  { rewrite Hids. unfold n. rewrite <- (map_length fst (bruns input)). apply combine_seqN_fst. }
  assert (Hidsnd : map snd ids = seqN 0 n).
  { rewrite Hids. unfold n. rewrite <- (map_length fst (bruns input)). apply combine_seqN_snd. }
  assert (Hlen_ids : length ids = n) by (rewrite <- (map_length fst), Hnames, map_length; reflexivity).
  assert (Htri : Forall (chrom_ok (max_key ids)) (triples sizes ids)).
  { unfold triples. apply Forall_forall. intros it Hit. apply in_map_iff in Hit as [[k id] [<- Hk]]. cbn [fst snd chrom_ok].
    assert (Hkin : In k (map fst (bruns input))) by (rewrite <- Hnames; change k with (fst (k, id)); apply in_map; exact Hk).
    apply in_map_iff in Hkin as [[k' es] [E Hr]]. cbn [fst] in E. subst k'.
    destruct (Hrun_ok _ _ Hr) as [Hnn [Hkl _]].
    split; [exact (max_key_ge ids (k, id) Hk)|]. split; [exact Hnn|]. split.
    - assert (Hidin : In id (seqN 0 n)) by (rewrite <- Hidsnd; change id with (snd (k, id)); apply in_map; exact Hk).
      apply seqN_bound in Hidin. unfold U16, U32 in *. unfold n in Hidin. unfold Nlen in Hnchr. lia.
    - destruct (lookup k sizes) as [len|] eqn:El; [|unfold U32; lia].
      destruct (lookup_in _ _ _ El) as [k2 Hk2]. rewrite Forall_forall in Hsizes. exact (Hsizes (k2, len) Hk2). }
  assert (Hmaxkey : N.of_nat (max_key ids) < U32).
  { unfold max_key. assert (G : forall (l : idmap) a, N.of_nat a < U32 -> Forall (fun c => Nlen (fst c) < U32) l ->
                               N.of_nat (fold_left (fun a c => Nat.max a (length (fst c))) l a) < U32).
    { induction l as [|c l IH]; intros a Ha Hl; [exact Ha|]. cbn [fold_left]. cbv beta. inversion Hl as [|? ? Hc Hl']; subst.
      apply IH; [|exact Hl']. unfold Nlen in Hc.
      apply (Nat.max_case a (length (fst c)) (fun k => N.of_nat k < U32)); assumption. }
    apply G; [unfold U32; lia|]. apply Forall_forall. intros [k id] Hk. cbn [fst].
    assert (Hkin : In k (map fst (bruns input))) by (rewrite <- Hnames; change k with (fst (k, id)); apply in_map; exact Hk).
    apply in_map_iff in Hkin as [[k' es] [E Hr]]. cbn [fst] in E. subst k'. apply (Hrun_ok _ _ Hr). }
  pose proof (read_info_written f h zs sizes ids ct Hrh eq_refl Hzs Hct Hct_at
                ltac:(unfold Nlen; rewrite Hlen_ids; exact Hnchr) Hmaxkey Htri) as Hri.
  set (i := {| i_hdr := h; i_zooms := zs;
               i_chroms := map (fun it => let '(k, id, len) := it in {| ci_name := k; ci_id := id; ci_len := len |}) (triples sizes ids) |}) in *.
  exists i, sql, fc. split; [exact Hri|]. split; [reflexivity|].
  split.
  { cbn [i_hdr i h_ubuf h]. destruct Hmode as [[E1 E2]|[E1 E2]]; rewrite E1; split; intros H; try reflexivity; try discriminate; try assumption.
    exfalso; lia. }
  split; [exact Hub|].
  split.
  { intros Ec c es blk Hce Hblk. cbn [i_hdr i h_ubuf h]. destruct (Hrun_gs c es blk Hce Hblk) as [g [Hg Eg]]. rewrite <- Eg, <- (Hdlen g Hg).
    pose proof (C09BufSize.max_len_ge data (sd_of g) ltac:(unfold data; now apply in_map)) as Hm.
    unfold ubuf, ubuf_of. rewrite Ec. lia. }
  (* groups *)
  assert (Hgid : map fst (groups_of outs) = seqN 0 n) by (unfold groups_of; rewrite map_map; exact Hbcids).
  assert (Hgsorted : StronglySorted N.lt (map fst (groups_of outs))) by (rewrite Hgid; apply seqN_lt_sorted).
  assert (Hgss : Forall (fun g => starts_sorted (snd g)) (groups_of outs)).
  { unfold groups_of. apply Forall_forall. intros g Hg. apply in_map_iff in Hg as [c [<- Hc]]. cbn [snd].
    rewrite Forall_forall in Houts. destruct (Houts c Hc) as [_ Hwf]. eapply wfe_sorted. exact Hwf. }
  assert (Hgs_ok : Forall (fun g => snd g <> [] /\ Forall entry_ok (snd g)) gs).
  { apply Forall_forall. intros a Ha. destruct (gsecs_in _ _ _ Ha) as [g [Hg [_ Hne]]]. split; [exact Hne|].
    destruct (Hgs_run a Ha) as (bc & Hbc & _ & Hr & Hc).
    destruct (Hrun_ok _ _ Hr) as [_ [_ Hall]].
    rewrite sections_are_chunks in Hc.
    apply Forall_forall. intros x Hx. rewrite Forall_forall in Hall. apply Hall.
    rewrite <- (chunks_concat (slot (o_ips o)) (bc_entries bc)) by (unfold slot; lia).
    apply in_concat. exists (snd a). split; assumption. }
  split.
  { (* interval queries *)
    intros infl c es s e Hrt Hce.
    assert (Hbc : exists bc, In bc outs /\ bc_name bc = c /\ bc_entries bc = es).
    { rewrite <- Hruns in Hce. apply in_map_iff in Hce as [bc [E Hbc]]. inversion E; subst. exists bc. auto. }
    destruct Hbc as [bc [Hbc [Hbn Hbe]]].
    assert (Hq : bc_id bc < U32).
    { assert (In (bc_id bc) (seqN 0 n)) by (rewrite <- Hbcids; apply in_map; exact Hbc).
      apply seqN_bound in H. unfold U16, U32, n, Nlen in *. lia. }
    assert (Hcid : chrom_id i c = Ok (bc_id bc)).
    { assert (Hpair : In (c, bc_id bc) ids).
      { rewrite Hids. rewrite <- Hbcids. rewrite <- Hruns. rewrite map_map. cbn [fst].
        clear -Hbc Hbn. induction outs as [|o1 outs IH]; [destruct Hbc|]. cbn [map combine].
        destruct Hbc as [->|Hbc]; [left; now rewrite Hbn|right; apply IH; exact Hbc]. }
      apply (chrom_id_written i (triples sizes ids) c (bc_id bc) (match lookup c sizes with Some l => l | None => 0 end)).
      - reflexivity.
      - unfold triples. rewrite map_map. rewrite <- Hnames in Hnd. erewrite map_ext; [exact Hnd|]. intros [k0 id0]. reflexivity.
      - unfold triples. apply in_map_iff. exists (c, bc_id bc). split; [reflexivity|exact Hpair]. }
    assert (Hix_at : exists preI postI, f = preI ++ ix ++ postI /\ Nlen preI = ixs).
    { exists (pre' ++ dbytes ++ ct), (zbytes ++ u32 BIGBED_MAGIC). split.
      - rewrite Hf. now rewrite <- !app_assoc.
      - rewrite !Nlen_app. rewrite HNpre'. unfold ixs. lia. }
    destruct Hix_at as [preI [postI [HfI HpreI]]].
    assert (Hdata_at : has_at f (Nlen pre) dbytes).
    { rewrite Hf. rewrite <- HNpre'. replace (Nlen pre') with (Nlen pre' + 0) by lia. apply has_at_shift. apply has_at_here. }
    rewrite (interval_on_image_z cmp infl cz i eq_refl Hmode Hrt f gs (Nlen pre) ixs (o_bs o) (o_ips o) ix lv preI postI c (bc_id bc) s e
               eq_refl Hcid Hq Hbs).
    - unfold gs. rewrite sections_to_chrom; [|apply SSorted_lt_NoDup; exact Hgsorted|exact Hgss].
      rewrite (find_group (groups_of outs) (bc_id bc) es); [reflexivity|apply SSorted_lt_NoDup; exact Hgsorted|].
      unfold groups_of. apply in_map_iff. exists bc. split; [now rewrite Hbe|exact Hbc].
    - unfold gs. apply (gsecs_nonempty (o_ips o) (groups_of outs) (bc_id bc) es); [|exact (bruns_nonempty _ _ _ Hce)].
      unfold groups_of. apply in_map_iff. exists bc. split; [now rewrite Hbe|exact Hbc].
    - exact Hgs_ok.
    - rewrite place_spans_z. unfold gs. apply gsecs_sorted; assumption.
    - (* fields in range *)
      apply Forall_forall. intros sct Hs. destruct (place_bounds _ _ _ Hs) as [B1 B2]. fold data wdata dbytes in B2.
      destruct (place_fields_z _ _ _ _ _ Hs) as [g [Hg [F1 [F2 F3]]]].
      rewrite Forall_forall in Hgs_ok. destruct (Hgs_ok g Hg) as [Hne Hok].
      destruct (sd_of_ok g Hne Hok) as [S1 S2].
      destruct (gsecs_in _ _ _ Hg) as [g' [Hg' [Efst _]]].
      assert (Hidb : fst g' < U32).
      { assert (In (fst g') (seqN 0 n)) by (rewrite <- Hgid; apply in_map; exact Hg').
        apply seqN_bound in H. unfold U16, U32, n, Nlen in *. lia. }
      unfold sect_ok. rewrite F1, F2, F3, Efst. unfold U64 in *. repeat split; try assumption; lia.
    - exact Hix.
    - exact HfI.
    - exact HpreI.
    - unfold ixs. unfold U64 in *. lia.
    - exact Hdata_at. }
  split.
  { (* item count *)
    intros Hn64. unfold bb_item_count. cbn [i_hdr i h_full_data_off h h_big].
    assert (Hc_at : has_at f (Nlen pre - 8) (u64 (bb_total_items outs))).
    { rewrite Hf. apply has_at_app_r. exact Hcnt. }
    rewrite (has_at_slice_w f _ _ 8 Hc_at) by (unfold u64; now rewrite enc_len). cbn [rdo rbind].
    unfold dec, u64. rewrite dec_enc_le by (rewrite pow64, Hcount; exact Hn64). now rewrite Hcount. }
  split.
  { (* autoSql *)
    unfold bb_autosql. cbn [i_hdr i h_asql_off h]. rewrite Hasql. replace (304 =? 0) with false by reflexivity.
    assert (Hsql_pre : has_at pre 304 (sql ++ [0])).
    { unfold pre, bb_pre. exists blank_headers, (repeatN 0 40 ++ u64 0). split; [now rewrite <- !app_assoc|].
      now rewrite blank_headers_length. }
    assert (Hsql_f : has_at f 304 (sql ++ [0])).
    { rewrite Hf. apply has_at_app_r. apply Hkeep; [exact Hsql_pre| |].
      - change (N.to_nat 304) with 304%nat. lia.
      - change (N.to_nat 304) with 304%nat. rewrite app_length. cbn [length]. lia. }
    destruct Hsql_f as [A [B [E L]]]. rewrite E. change (N.to_nat 304) with 304%nat in *. rewrite <- L.
    rewrite skipn_exact. rewrite <- app_assoc. cbn [app]. rewrite autosql_slot by exact Hsqlnn. reflexivity. }
  split; [reflexivity|]. split; [reflexivity|]. split.
  { cbn [i_chroms i]. fold n. rewrite <- Hids. unfold triples. rewrite !map_map.
    transitivity (map (fun x : name * N => x) ids); [apply map_ext; intros [k id]; reflexivity|apply map_id]. }
  { cbn [i_chroms i]. apply Forall_forall. intros ci Hci. apply in_map_iff in Hci as [[[k id] len] [<- Hk]]. cbn [ci_name ci_len].
    unfold triples in Hk. apply in_map_iff in Hk as [[k2 id2] [E Hk2]]. cbn [fst snd] in E. inversion E; subst.
    destruct (chrom_tree_bytes_inv _ _ _ Hct) as [Hall _]. rewrite Forall_forall in Hall.
    destruct (Hall (k, id) Hk2) as [len El]. cbn [fst] in El. rewrite El. reflexivity. }
Qed.
End EndToEndZ.
