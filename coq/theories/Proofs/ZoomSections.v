(* C07: the sections the zoom accumulator emits hold between 1 and items_per_slot records, so
   encode_zoom_section never sees an empty section (its `items_in_section[0]` would panic) and the
   bytes of a level are the records' encodings in order. *)
From BT Require Import Base.Util Base.Float Model.RTree Model.BBIFile Model.BigWigWrite Proofs.ZoomLoop.
Local Open Scope N_scope.

Definition sec_wf (ips : N) (s : list zrec) : Prop := s <> [] /\ Nlen s <= ips.
Definition sec_shape (ips : N) (st : zstate) : Prop :=
  Forall (sec_wf ips) (zs_out st) /\ Nlen (zs_records st) <= ips.

Lemma Nlen_snoc {X} (l : list X) x : Nlen (l ++ [x]) = Nlen l + 1.
Proof. unfold Nlen. rewrite app_length. cbn [length]. lia. Qed.

Lemma flush_shape ips cur hn a st : 1 <= ips -> sec_shape ips st ->
  Forall (sec_wf ips) (zs_out (flush ips cur hn a st)) /\ Nlen (zs_records (flush ips cur hn a st)) < ips.
Proof.
  intros Hi [Ho Hr]. unfold flush.
  destruct (N.eqb_spec (Nlen (zs_records st)) ips) as [Heq|Hne].
  - rewrite orb_true_r. cbn [zs_out zs_records]. split; [|unfold Nlen; cbn [length]; lia].
    apply Forall_app. split; [exact Ho|]. constructor; [|constructor]. split; [|lia].
    intros Hnil. rewrite Hnil in Heq. unfold Nlen in Heq. cbn [length] in Heq. lia.
  - rewrite orb_false_r.
    destruct ((v_end cur <=? a) && _ && _ && negb (match zs_records st with [] => true | _ => false end)) eqn:EA.
    + cbn [zs_out zs_records]. split; [|unfold Nlen; cbn [length]; lia].
      apply Forall_app. split; [exact Ho|]. constructor; [|constructor]. split; [|exact Hr].
      apply andb_true_iff in EA as [_ EA]. destruct (zs_records st); [discriminate|discriminate].
    + split; [exact Ho|lia].
Qed.

Lemma zoom_loop_shape fp ips size chrom cur hn : 1 <= ips -> forall fuel a st st',
  sec_shape ips st -> zoom_loop fuel fp ips size chrom cur hn a st = Ok st' -> sec_shape ips st'.
Proof.
  intros Hi. induction fuel as [|f IH]; intros a st st' Hs H; [discriminate|].
  rewrite zoom_loop_S in H. cbv zeta in H.
  destruct (flush_shape ips cur hn a st Hi Hs) as [Ho Hr].
  set (st1 := flush ips cur hn a st) in *.
  destruct (v_end cur <=? a).
  - destruct hn.
    + injection H as <-. split; [exact Ho|lia].
    + destruct (zs_live st1) as [z|].
      * eapply IH; [|exact H]. split; cbn [zs_out zs_records]; [exact Ho|]. rewrite Nlen_snoc. lia.
      * injection H as <-. split; [exact Ho|lia].
  - destruct (N.min _ _ =? _).
    + eapply IH; [|exact H]. split; cbn [zs_out zs_records]; [exact Ho|]. rewrite Nlen_snoc. lia.
    + eapply IH; [|exact H]. split; cbn [zs_out zs_records]; [exact Ho|lia].
Qed.

Lemma zoom_chrom_shape fp ips size chrom : 1 <= ips -> forall vals st st',
  sec_shape ips st -> zoom_chrom fp ips size chrom vals st = Ok st' -> sec_shape ips st'.
Proof.
  intros Hi. induction vals as [|v r IH]; intros st st' Hs H; cbn [zoom_chrom] in H.
  - injection H as <-. exact Hs.
  - destruct (zoom_step fp ips size chrom st v _) as [st1| | |] eqn:E; try discriminate. cbn [rbind] in H.
    eapply IH; [|exact H]. unfold zoom_step in E. eapply zoom_loop_shape; eauto.
Qed.

Lemma mapM_encode_ok fp : forall l, Forall (fun s : list zrec => s <> []) l ->
  exists sds, mapM (encode_zoom_section fp) l = Ok sds /\ length sds = length l
              /\ data_bytes sds = flat_map (zrec_bytes fp) (concat l).
Proof.
  induction 1 as [|s l Hs _ [sds [H1 [H2 H3]]]].
  - exists []. repeat split.
  - destruct s as [|f r]; [contradiction|]. cbn [mapM]. cbn [encode_zoom_section rbind]. rewrite H1. cbn [rbind].
    eexists. split; [reflexivity|]. split; [cbn [length]; now rewrite H2|].
    unfold data_bytes in *. cbn [flat_map sd_bytes concat]. rewrite flat_map_app, H3. reflexivity.
Qed.

Theorem zoom_sections_encoded fp ips size chrom vals : 1 <= size -> 1 <= ips ->
  exists st sds, zoom_chrom fp ips size chrom vals zstate0 = Ok st
    /\ zoom_sections fp ips size chrom vals = Ok sds
    /\ Forall (sec_wf ips) (zs_out st)
    /\ length sds = length (zs_out st)
    /\ data_bytes sds = flat_map (zrec_bytes fp) (concat (zs_out st)).
Proof.
  intros Hsz Hi. destruct (zoom_chrom_terminates fp ips size chrom Hsz vals zstate0) as [st Hst].
  assert (Hsh : sec_shape ips st).
  { eapply zoom_chrom_shape; [exact Hi| |exact Hst]. split; [constructor|]. unfold Nlen. cbn. lia. }
  destruct Hsh as [Ho _].
  destruct (mapM_encode_ok fp (zs_out st)) as [sds [H1 [H2 H3]]].
  { eapply Forall_impl; [|exact Ho]. intros s [Hs _]. exact Hs. }
  exists st, sds. unfold zoom_sections. rewrite Hst. cbn [rbind]. tauto.
Qed.

