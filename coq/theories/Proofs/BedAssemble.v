(* The byte layout [assemble] (Model/BigWigWrite.v: write_mid + write_zooms + write_info) produces:
   the file is  pre' ++ data ++ chromosome tree ++ index ++ zoom part ++ magic,  where pre' is the
   pre-data region with the header (and zoom directory), the total summary and the data count
   patched in; regions of pre the patches do not touch are unchanged. *)
From BT Require Import Base.Util Base.LE Base.Float Generated.Consts Model.RTree Model.BBIFile Model.BigWigWrite
  Proofs.RTreeCodec.
Local Open Scope N_scope.

(* ---- patch_at ---- *)
Lemma patch_at_app a b off p : (N.to_nat off + length p <= length a)%nat ->
  patch_at (a ++ b) off p = patch_at a off p ++ b.
Proof.
  intros H. unfold patch_at. rewrite firstn_app, skipn_app.
  replace (N.to_nat off - length a)%nat with 0%nat by lia.
  replace (N.to_nat off + length p - length a)%nat with 0%nat by lia.
  cbn [firstn skipn]. rewrite app_nil_r. now rewrite <- !app_assoc.
Qed.
Lemma patch_at_length a off p : (N.to_nat off + length p <= length a)%nat -> length (patch_at a off p) = length a.
Proof.
  intros H. unfold patch_at. rewrite !app_length, firstn_length, skipn_length. lia.
Qed.
Lemma patch_at_has a off p : (N.to_nat off + length p <= length a)%nat -> has_at (patch_at a off p) off p.
Proof.
  intros H. exists (firstn (N.to_nat off) a), (skipn (N.to_nat off + length p) a). split; [reflexivity|].
  rewrite firstn_length. lia.
Qed.
(* a region disjoint from the patch is unchanged *)
Lemma patch_at_keeps a off p off' x : has_at a off' x -> (N.to_nat off + length p <= length a)%nat ->
  (N.to_nat off' + length x <= N.to_nat off)%nat \/ (N.to_nat off + length p <= N.to_nat off')%nat ->
  has_at (patch_at a off p) off' x.
Proof.
  intros [A [B [E L]]] Hin Hdis. unfold patch_at. subst a. destruct Hdis as [Hd|Hd].
  - (* the region lies before the patch *)
    exists A, (firstn (N.to_nat off - length A - length x) B ++ p ++ skipn (N.to_nat off + length p) (A ++ x ++ B)).
    split; [|exact L].
    rewrite firstn_app. rewrite (firstn_all2 A) by lia. rewrite firstn_app. rewrite (firstn_all2 x) by lia.
    rewrite <- !app_assoc. reflexivity.
  - (* the region lies after the patch *)
    exists (firstn (N.to_nat off) A ++ p ++ skipn (N.to_nat off + length p) A), B. split.
    + rewrite firstn_app. replace (N.to_nat off - length A)%nat with 0%nat by lia. cbn [firstn]. rewrite app_nil_r.
      rewrite skipn_app. replace (N.to_nat off + length p - length A)%nat with 0%nat by lia. cbn [skipn].
      rewrite <- !app_assoc. reflexivity.
    + rewrite !app_length, firstn_length, skipn_length. lia.
Qed.

Lemma has_at_app_r a b off x : has_at a off x -> has_at (a ++ b) off x.
Proof. intros [A [B [E L]]]. exists A, (B ++ b). split; [|exact L]. rewrite E. now rewrite <- !app_assoc. Qed.
Lemma has_at_shift a b off x : has_at b off x -> has_at (a ++ b) (Nlen a + off) x.
Proof.
  intros [A [B [E L]]]. exists (a ++ A), B. split; [rewrite E; now rewrite <- app_assoc|].
  rewrite app_length, L. unfold Nlen. lia.
Qed.
Lemma has_at_here x b : has_at (x ++ b) 0 x.
Proof. exists [], b. split; reflexivity. Qed.
Lemma has_at_length a off x : has_at a off x -> (N.to_nat off + length x <= length a)%nat.
Proof. intros [A [B [E L]]]. subst a. rewrite !app_length. lia. Qed.

(* ---- lengths of the fixed-size pieces ---- *)
Lemma enc_len w x : length (enc_le w x) = w. Proof. apply enc_le_length. Qed.
Lemma header_bytes_length m nz a b c d e f g h : length (header_bytes m nz a b c d e f g h) = 64%nat.
Proof. unfold header_bytes, u16, u32, u64. repeat rewrite app_length. repeat rewrite enc_len. reflexivity. Qed.
Lemma zoom_header_bytes_length z : length (zoom_header_bytes z) = 24%nat.
Proof. unfold zoom_header_bytes, u32, u64. repeat rewrite app_length. repeat rewrite enc_len. reflexivity. Qed.
Lemma zoom_dir_length zs : length (flat_map zoom_header_bytes zs) = (24 * length zs)%nat.
Proof. induction zs as [|z zs IH]; [reflexivity|]. cbn [flat_map]. rewrite app_length, zoom_header_bytes_length, IH. cbn [length]. lia. Qed.
Lemma summary_bytes_length s : length (summary_bytes s) = 40%nat.
Proof. unfold summary_bytes, f64_bytes, u64. repeat rewrite app_length. repeat rewrite enc_len. reflexivity. Qed.
Lemma repeatN_length {X} (x : X) n : length (repeatN x n) = n.
Proof. induction n as [|n IH]; [reflexivity|]. cbn [repeatN length]. now rewrite IH. Qed.
Lemma blank_headers_length : length blank_headers = 304%nat.
Proof. unfold blank_headers. rewrite repeatN_length. vm_compute. reflexivity. Qed.

Lemma Ok_inj {X} (a b : X) : Ok a = Ok b -> a = b.
Proof. intros H. injection H. auto. Qed.

(* ---- what assemble returns ---- *)
Record layout := {
  ly_ct : list N; ly_ix : list N; ly_levels : nat; ly_zbytes : list N; ly_zhdrs : list zoom_header; ly_pre : list N }.

Definition hdr_of (magic : N) (pre data_bytes_ : list N) (ct : list N) (fc dfc asql : N) (zhdrs : list zoom_header) : list N :=
  header_bytes magic (Nlen zhdrs) (Nlen pre + Nlen data_bytes_) (Nlen pre - 8) (Nlen pre + Nlen data_bytes_ + Nlen ct)
               fc dfc asql (Nlen pre - 48) 0 ++ flat_map zoom_header_bytes zhdrs.

Theorem assemble_layout o magic sizes chroms sum data pre fc dfc asql zoom_part dcount f :
  assemble o magic sizes chroms sum data pre fc dfc asql zoom_part dcount = Ok f ->
  exists ct ix lv zbytes zhdrs,
    chrom_tree_bytes sizes chroms = Ok ct
    /\ write_index (o_bs o) (o_ips o) (Nlen pre + Nlen (data_bytes data) + Nlen ct) (place (Nlen pre) data) = Ok (ix, lv)
    /\ zoom_part (Nlen (data_bytes data)) (Nlen pre + Nlen (data_bytes data) + Nlen ct + Nlen ix) = Ok (zbytes, zhdrs)
    /\ ((64 + 24 * length zhdrs <= length pre - 48)%nat -> (48 <= length pre)%nat ->
        exists pre', length pre' = length pre
          /\ f = pre' ++ data_bytes data ++ ct ++ ix ++ zbytes ++ u32 magic
          /\ has_at pre' 0 (hdr_of magic pre (data_bytes data) ct fc dfc asql zhdrs)
          /\ has_at pre' (Nlen pre - 48) (summary_bytes sum)
          /\ has_at pre' (Nlen pre - 8) (u64 (dcount (Nlen (place (Nlen pre) data))))
          /\ (forall off x, has_at pre off x -> (64 + 24 * length zhdrs <= N.to_nat off)%nat ->
                            (N.to_nat off + length x <= length pre - 48)%nat -> has_at pre' off x)).
Proof.
  unfold assemble. intros H.
  destruct (chrom_tree_bytes sizes chroms) as [ct| | |] eqn:Ect; cbn [rbind] in H; try discriminate.
  destruct (write_index (o_bs o) (o_ips o) (Nlen pre + Nlen (data_bytes data) + Nlen ct) (place (Nlen pre) data))
    as [[ix lv]| | |] eqn:Eix; cbn [rbind] in H; try discriminate.
  destruct (zoom_part (Nlen (data_bytes data)) (Nlen pre + Nlen (data_bytes data) + Nlen ct + Nlen ix))
    as [[zbytes zhdrs]| | |] eqn:Ez; cbn [rbind] in H; try discriminate.
  exists ct, ix, lv, zbytes, zhdrs. split; [first [reflexivity|assumption]|]. split; [first [reflexivity|assumption]|]. split; [first [reflexivity|assumption]|].
  intros Hh H48. apply Ok_inj in H. subst f.
  set (hdr := hdr_of magic pre (data_bytes data) ct fc dfc asql zhdrs).
  assert (Hhl : length hdr = (64 + 24 * length zhdrs)%nat).
  { unfold hdr, hdr_of. rewrite app_length, header_bytes_length, zoom_dir_length. reflexivity. }
  set (rest := data_bytes data ++ ct ++ ix ++ zbytes).
  set (tso := Nlen pre - 48). set (fdo := Nlen pre - 8).
  assert (Htso : N.to_nat tso = (length pre - 48)%nat) by (unfold tso, Nlen; lia).
  assert (Hfdo : N.to_nat fdo = (length pre - 8)%nat) by (unfold fdo, Nlen; lia).
  set (p1 := patch_at pre 0 hdr).
  set (p2 := patch_at p1 tso (summary_bytes sum)).
  set (p3 := patch_at p2 fdo (u64 (dcount (Nlen (place (Nlen pre) data))))).
  assert (L1 : length p1 = length pre) by (apply patch_at_length; cbn [N.to_nat]; rewrite ?Hhl; lia).
  assert (L2 : length p2 = length pre) by (unfold p2; rewrite patch_at_length; [exact L1|rewrite summary_bytes_length; lia]).
  assert (L3 : length p3 = length pre) by (unfold p3; rewrite patch_at_length; [exact L2|unfold u64; rewrite enc_len; lia]).
  exists p3. split; [exact L3|]. split.
  - (* the file *)
    change (header_bytes magic (Nlen zhdrs) (Nlen pre + Nlen (data_bytes data)) fdo (Nlen pre + Nlen (data_bytes data) + Nlen ct) fc dfc asql tso 0 ++ flat_map zoom_header_bytes zhdrs) with hdr.
    change (pre ++ data_bytes data ++ ct ++ ix ++ zbytes) with (pre ++ rest).
    rewrite (patch_at_app pre rest 0 hdr) by (cbn [N.to_nat]; rewrite ?Hhl; lia). fold p1.
    rewrite (patch_at_app p1 rest tso) by (rewrite summary_bytes_length; lia). fold p2.
    rewrite (patch_at_app p2 rest fdo) by (unfold u64; rewrite enc_len; lia). fold p3.
    unfold rest. now rewrite <- !app_assoc.
  - assert (A1 : has_at p1 0 hdr) by (apply patch_at_has; cbn [N.to_nat]; rewrite ?Hhl; lia).
    assert (A2 : has_at p2 0 hdr).
    { unfold p2. apply patch_at_keeps; [exact A1|rewrite summary_bytes_length; lia|left; cbn [N.to_nat]; rewrite ?Hhl; lia]. }
    assert (B2 : has_at p2 tso (summary_bytes sum)) by (apply patch_at_has; rewrite summary_bytes_length; lia).
    split; [|split; [|split]].
    + unfold p3. apply patch_at_keeps; [exact A2|unfold u64; rewrite enc_len; lia|left; cbn [N.to_nat]; rewrite ?Hhl; lia].
    + unfold p3. apply patch_at_keeps; [exact B2|unfold u64; rewrite enc_len; lia|left; rewrite summary_bytes_length; lia].
    + apply patch_at_has. unfold u64. rewrite enc_len. lia.
    + intros off x Hx Hlo Hhi.
      unfold p3. apply patch_at_keeps; [|unfold u64; rewrite enc_len; lia|left; lia].
      unfold p2. apply patch_at_keeps; [|rewrite summary_bytes_length; lia|left; lia].
      unfold p1. apply patch_at_keeps; [exact Hx|cbn [N.to_nat]; rewrite ?Hhl; lia|right; cbn [N.to_nat]; rewrite ?Hhl; lia].
Qed.
