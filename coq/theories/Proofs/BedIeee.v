(* The IEEE-754 instance of the bigBed summary model (the one compared bit for bit with the
   implementation) computes the same numbers as the exact instance the theorems are about, as long as
   the sum of squared depths stays below 2^53: whole numbers below 2^53 are binary64 values and every
   intermediate of the fold is one of them. *)
From BT Require Import Base.Util Base.Float Model.BBIFile Model.BedSweep Spec.Depth Proofs.DepthStats Proofs.SweepRLE
  Proofs.BedSummary.
Local Open Scope N_scope.

Definition P53 : N := 2 ^ 53.

Lemma round53_small : forall n, n < P53 -> r64 ieee (Z.of_N n) 0 = f_of_N n.
Proof.
  intros n Hn. unfold ieee, r64, round_dy, f_of_N.
  destruct (Z.eqb_spec (Z.of_N n) 0) as [E|E]; [now rewrite E|].
  assert (Hpos : (0 < Z.of_N n)%Z) by lia.
  assert (Hb : (bitlen (Z.of_N n) <= 53)%Z).
  { unfold bitlen. destruct (Z.eqb_spec (Z.of_N n) 0); [lia|]. rewrite Z.abs_eq by lia.
    assert ((Z.log2 (Z.of_N n) < 53)%Z); [|lia].
    apply Z.log2_lt_pow2; [assumption|]. unfold P53 in Hn. change (2 ^ 53)%Z with (Z.of_N (2 ^ 53)). lia. }
  assert (Hb0 : (0 < bitlen (Z.of_N n))%Z).
  { unfold bitlen. destruct (Z.eqb_spec (Z.of_N n) 0); [lia|]. pose proof (Z.log2_nonneg (Z.abs (Z.of_N n))). lia. }
  destruct (Z.leb_spec (Z.max (0 + bitlen (Z.of_N n) - 53) (-1074)) 0) as [_|C]; [|exfalso; lia].
  destruct (Z.ltb_spec 1024 (0 + bitlen (Z.of_N n))) as [C|_]; [exfalso; lia|].
  destruct (Z.eqb_spec (Z.of_N n) 0); [contradiction | reflexivity].
Qed.

Lemma fmul_ieee_N : forall a b, a * b < P53 -> fmul64 ieee (f_of_N a) (f_of_N b) = f_of_N (a * b).
Proof.
  intros a b H. unfold fmul64, fmul_with. cbn [f_of_N]. rewrite <- N2Z.inj_mul. cbn [Z.add]. apply round53_small, H.
Qed.
Lemma fadd_ieee_N : forall a b, a + b < P53 -> fadd64 ieee (f_of_N a) (f_of_N b) = f_of_N (a + b).
Proof.
  intros a b H. unfold fadd64, fadd_with, align. cbn [f_of_N Z.min Z.compare Z.sub Z.opp Z.add].
  rewrite !Z.shiftl_0_r, <- N2Z.inj_add. apply round53_small, H.
Qed.

(* the invariant of BedSummary.rel, for the IEEE fold, under the bound *)
Lemma rel_step_ieee : forall s t g, rel s t -> (seg_len g = 0 \/ 1 <= g_val g) ->
  nsum t <= nsq t -> nsq (nstat_seg t g) < P53 ->
  rel (sum_seg ieee s g) (nstat_seg t g) /\ nsum (nstat_seg t g) <= nsq (nstat_seg t g).
Proof.
  intros s t g H Hv Hle Hb.
  assert (Hmono : nsum (nstat_seg t g) <= nsq (nstat_seg t g)).
  { cbn [nstat_seg nsum nsq]. destruct Hv as [E|Hv]; [rewrite E; lia|]. nia. }
  split; [|exact Hmono].
  unfold sum_seg, nstat_seg, seg_min_step, seg_max_step in *. cbn [nsq nsum] in Hb, Hmono.
  destruct (N.eqb_spec (seg_len g) 0) as [E|E].
  - rewrite E. destruct s as [s|]; cbn [rel] in *.
    + destruct H as (A & B & C & D & F & G). destruct t as [tb ts tq tmn tmx]; cbn [nb nsum nsq nmin nmax] in *.
      repeat split; try assumption; rewrite ?N.mul_0_l, ?N.add_0_r; assumption.
    + subst t. cbn [nstat0 nb nsum nsq nmin nmax]. reflexivity.
  - destruct Hv as [Hv|Hv]; [contradiction|].
    assert (B1 : seg_len g * g_val g < P53) by nia.
    assert (B2 : seg_len g * g_val g * g_val g < P53) by nia.
    destruct s as [s|]; cbn [rel] in *.
    + destruct H as (A & B & C & D & (m1 & F1 & F2) & (m2 & G1 & G2)).
      cbn [su_items su_bases su_sum su_sumsq su_min su_max nb nsum nsq nmin nmax].
      rewrite C, D, F1, F2, G1, G2.
      rewrite (fmul_ieee_N _ _ B1), (fmul_ieee_N _ _ B2), fadd_ieee_N by nia. rewrite fadd_ieee_N by nia.
      rewrite fmin_N, fmax_N. cbn [opt_min opt_max].
      repeat split; try (assumption || lia || reflexivity); eexists; split; reflexivity.
    + subst t. cbn [nstat0 su_items su_bases su_sum su_sumsq su_min su_max nb nsum nsq nmin nmax] in *.
      rewrite (fmul_ieee_N _ _ B1), (fmul_ieee_N _ _ B2). cbn [opt_min opt_max].
      repeat split; try (lia || reflexivity); try (f_equal; lia); eexists; split; reflexivity.
Qed.

Lemma nsq_fold_mono : forall em t, nsq t <= nsq (fold_left nstat_seg em t).
Proof.
  induction em as [|g r IH]; intro t; cbn [fold_left]; [lia|].
  specialize (IH (nstat_seg t g)). cbn [nstat_seg nsq] in IH. lia.
Qed.

Lemma rel_fold_ieee : forall em s t, rel s t -> Forall (fun g => seg_len g = 0 \/ 1 <= g_val g) em ->
  nsum t <= nsq t -> nsq (fold_left nstat_seg em t) < P53 ->
  rel (fold_left (sum_seg ieee) em s) (fold_left nstat_seg em t).
Proof.
  induction em as [|g r IH]; intros s t H Hv Hle Hb; cbn [fold_left] in *; [assumption|].
  inversion Hv as [|? ? Hg Hr]; subst.
  assert (Hb1 : nsq (nstat_seg t g) < P53) by (pose proof (nsq_fold_mono r (nstat_seg t g)); lia).
  destruct (rel_step_ieee s t g H Hg Hle Hb1) as (R1 & R2).
  apply IH; assumption.
Qed.

(* two summaries related to the same whole-number statistics are equal *)
Lemma rel_inj : forall s1 s2 t, rel s1 t -> rel s2 t -> s1 = s2.
Proof.
  intros [s1|] [s2|] t H1 H2; cbn [rel] in *.
  - destruct H1 as (A & B & C & D & (m1 & F1 & F2) & (m2 & G1 & G2)).
    destruct H2 as (A' & B' & C' & D' & (m1' & F1' & F2') & (m2' & G1' & G2')).
    rewrite F1 in F1'. inversion F1'; subst m1'. rewrite G1 in G1'. inversion G1'; subst m2'.
    destruct s1 as [a1 b1 c1 d1 e1 f1], s2 as [a2 b2 c2 d2 e2 f2]; cbn [su_items su_bases su_sum su_sumsq su_min su_max] in *. congruence.
  - subst t. destruct H1 as (_ & _ & _ & _ & (m & F & _) & _). discriminate.
  - subst t. destruct H2 as (_ & _ & _ & _ & (m & F & _) & _). discriminate.
  - reflexivity.
Qed.

(* one chromosome: the IEEE model is the exact model when the sum of squared depths is below 2^53 *)
Theorem bb_chrom_summary_ieee : forall U es, valid_chrom U es ->
  st_sumsq (depth es) (span 0 U) < P53 ->
  bb_chrom_summary ieee es = bb_chrom_summary exact es.
Proof.
  intros U es Hv Hb.
  destruct (stats_of_emitted U es Hv) as (_ & _ & S3 & _ & _).
  destruct (nstat_fold (sweep_emitted es) nstat0) as (_ & _ & T3 & _ & _).
  cbn [nstat0 nsq] in T3. rewrite N.add_0_l, S3 in T3.
  destruct Hv as (HU & Hok & Hs). destruct (sweep_eq_rle_depth U es HU Hok Hs) as (_ & B & _).
  assert (Hval : Forall (fun g => seg_len g = 0 \/ 1 <= g_val g) (sweep_emitted es)).
  { eapply Forall_impl; [|exact B]. intros g (_ & G). now right. }
  pose proof (rel_fold_ieee (sweep_emitted es) None nstat0 eq_refl Hval (N.le_refl _) ltac:(rewrite T3; exact Hb)) as Ri.
  pose proof (rel_fold (sweep_emitted es) None nstat0 eq_refl) as Re.
  unfold bb_chrom_summary. now rewrite (rel_inj _ _ _ Ri Re).
Qed.

(* ---- across chromosomes ---- *)
Lemma merge_ieee_eq : forall s1 s2 i1 b1 u1 q1 mn1 mx1 i2 b2 u2 q2 mn2 mx2,
  sform s1 i1 b1 u1 q1 mn1 mx1 -> sform s2 i2 b2 u2 q2 mn2 mx2 -> u1 + u2 < P53 -> q1 + q2 < P53 ->
  summary_merge ieee (Some s1) s2 = summary_merge exact (Some s1) s2.
Proof.
  intros s1 s2 i1 b1 u1 q1 mn1 mx1 i2 b2 u2 q2 mn2 mx2 (A1 & A2 & A3 & A4 & A5 & A6) (B1 & B2 & B3 & B4 & B5 & B6) Hu Hq.
  unfold summary_merge. rewrite A3, A4, B3, B4.
  rewrite (fadd_ieee_N _ _ Hu), (fadd_ieee_N _ _ Hq), !fadd_exact_N. reflexivity.
Qed.

Lemma st_sum_le_sumsq : forall d xs, st_sum d xs <= st_sumsq d xs.
Proof.
  intros d xs. unfold st_sum, st_sumsq. induction xs as [|x r IH]; cbn [map sumN]; [lia|]. nia.
Qed.

Section TotalIeee.
Variable U : N.

Lemma fold_merge_ieee : forall chroms s0 i b u q mn mx,
  Forall (valid_chrom U) chroms -> sform s0 i b u q mn mx -> u <= q ->
  q + sumN (map (c_sumsq U) chroms) < P53 ->
  fold_left (summary_merge ieee) (map (bb_chrom_summary exact) chroms) (Some s0)
  = fold_left (summary_merge exact) (map (bb_chrom_summary exact) chroms) (Some s0).
Proof.
  induction chroms as [|c r IH]; intros s0 i b u q mn mx Hv Hs0 Hle Hb; cbn [map fold_left sumN] in *; [reflexivity|].
  inversion Hv as [|? ? Hc Hr]; subst.
  pose proof (bb_chrom_summary_spec U c Hc) as Hcs. cbn zeta in Hcs.
  pose proof (st_sum_le_sumsq (depth c) (span 0 U)) as Hss.
  unfold c_sumsq in Hb at 1.
  rewrite (merge_ieee_eq _ _ _ _ _ _ _ _ _ _ _ _ _ _ Hs0 Hcs) by lia.
  destruct (merge_form _ _ _ _ _ _ _ _ _ _ _ _ _ _ Hs0 Hcs) as (s1 & E1 & F1).
  rewrite E1. eapply IH; try eassumption; lia.
Qed.

(* C06 for the IEEE model: below 2^53 it computes exactly what the exact model computes *)
Theorem bb_total_summary_ieee : forall c chroms,
  Forall (valid_chrom U) (c :: chroms) -> sumN (map (c_sumsq U) (c :: chroms)) < P53 ->
  bb_total_summary ieee (c :: chroms) = bb_total_summary exact (c :: chroms).
Proof.
  intros c chroms Hv Hb. unfold bb_total_summary.
  assert (Hmap : map (bb_chrom_summary ieee) (c :: chroms) = map (bb_chrom_summary exact) (c :: chroms)).
  { apply map_ext_in. intros es Hin. rewrite Forall_forall in Hv.
    apply (bb_chrom_summary_ieee U es (Hv es Hin)).
    assert (Hle : c_sumsq U es <= sumN (map (c_sumsq U) (c :: chroms))).
    { clear -Hin. induction (c :: chroms) as [|y l IH]; [contradiction|]. cbn [map sumN].
      destruct Hin as [->|Hin]; [lia | specialize (IH Hin); lia]. }
    unfold c_sumsq in Hle at 1. lia. }
  rewrite Hmap. cbn [map fold_left summary_merge sumN] in *.
  inversion Hv as [|? ? Hc Hr]; subst.
  pose proof (bb_chrom_summary_spec U c Hc) as Hcs. cbn zeta in Hcs.
  pose proof (st_sum_le_sumsq (depth c) (span 0 U)) as Hss.
  rewrite (fold_merge_ieee chroms _ _ _ _ _ _ _ Hr Hcs Hss); [reflexivity|]. unfold c_sumsq in Hb at 1. exact Hb.
Qed.
End TotalIeee.
