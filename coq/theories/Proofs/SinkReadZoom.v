(* C14: ZOOM queries on the destination at a crash point that includes the header operation.
   Proofs/SinkRead.v redoes C01's range-query theorem for any image that holds the header, the
   chromosome tree, the index and the data sections; this file redoes C07's file theorem
   (Proofs/ZoomReadFile.v core_zoom_query) the same way.  C07's proof takes [assembled .. bs p] --
   true of the finished file only -- and uses it for three things: what read_info returns, the
   chromosome table, and (through [level_at o bs zooms]) the bytes of each level's sections and
   index.  Here the finished file F keeps [assembled]; the image X only has to
     - give the same answer to read_info,
     - hold each directory entry's level: [Forall (level_at o X zooms) (fp_zhdrs p)]
       (ZoomReadRegions.wzl_regions / w2p_regions give that for ANY image with the zoom bytes at
       the zoom position),
     - be shorter than 2^64.
   A crash-point image after the header operation agrees with F outside [304,352) and the closing
   magic (SinkPhases.crash_after_complete), so it holds the zoom bytes ([agrees_transfer]) and reads
   the same info (SinkRead.agreeing_images_serve).  Result: for every level of the directory,
   every chromosome with data and every range, [zoom_interval] on the crash-point image returns
   what it returns on the finished file: C07_file_zoom_query's right-hand side. *)
From Coq Require Import Sorting.Sorted.
From BT Require Import Base.Util Base.LE Base.Float Generated.Consts Model.RTree Model.BBIFile
  Model.BigWigWrite Model.BBIRead Model.SinkTrace Proofs.Chunks Proofs.BigWigQuery Proofs.RTreeAbs Proofs.RTreeBuild
  Proofs.RTreeCodec Proofs.RTreeShape Proofs.RTreeLayout Proofs.FileRegions Proofs.BigWigFile
  Proofs.BigWigFileChroms Proofs.BigWigFileData Proofs.BigWigFileRoundTrip Proofs.BigWigFileThms
  Proofs.ZoomLoop Proofs.ZoomInv Proofs.ZoomThms Proofs.ZoomSections Proofs.ZoomBwLevels Proofs.ZoomQuery
  Proofs.ZoomSorted Proofs.ZoomFile Proofs.ZoomReadCodec Proofs.ZoomReadRegions Proofs.ZoomReadFile
  Proofs.SinkBytes Proofs.SinkExec Proofs.SinkPhases Proofs.SinkRefine Proofs.SinkRead Proofs.SinkServe.
Local Open Scope N_scope.

(* ---------- one image that holds the levels ---------- *)
Section ZoomImg.
Variables (fp : fpmode) (o : opts) (sizes : list (name * N)) (inp : list item).
Variables (ids : idmap) (outs : list chrom_out) (sum : summary) (data : list sdata).
Variables (zoom_part : N -> N -> res (list N * list zoom_header)) (dco : N -> N) (F : list N) (p : file_parts).
Variable zooms : list zoom_level.
Variable X : list N.
Hypothesis Hcol : bw_collect fp o sizes inp = Ok (ids, outs, sum, data).
Hypothesis HA : assembled o BIGWIG_MAGIC sizes ids sum data bw_pre 0 0 0 zoom_part dco F p.
Hypothesis Hopts : opts_ok o.
Hypothesis Hinp : input_ok sizes inp.
Hypothesis Hsize : Nlen F < U64.
Hypothesis HsizeX : Nlen X < U64.
(* the image holds every advertised level *)
Hypothesis HlvX : Forall (level_at o X zooms) (fp_zhdrs p).
Hypothesis Hzs : forall z, In z zooms -> 1 <= zl_res z /\ level_secs fp o outs (zl_res z) = Ok (zl_secs z).
Hypothesis Hzok : Forall zh_ok (fp_zhdrs p).

Theorem img_zoom_query (infl : list N -> list N) i c vs s e r :
  read_info F = Ok i -> In (c, vs) (runs inp) -> In r (map zh_res (i_zooms i)) ->
  exists c0, In c0 outs /\ co_name c0 = c /\ co_vals c0 = vs /\ 1 <= r
    /\ chrom_id i c = Ok (co_id c0)
    /\ zoom_interval infl X i c s e r
       = Ok (map (zrec_read fp) (filter (ztouch s e) (concat (zs_out (zst fp (o_ips o) r c0))))).
Proof.
  intros Hri Hin Hr.
  destruct (core_read_info _ _ _ _ _ _ _ _ _ _ _ _ Hcol HA Hinp Hsize) as [zs [Hri' [_ Hzs']]].
  rewrite (Hzs' Hzok) in Hri'. rewrite Hri' in Hri. apply Ok_inj in Hri. subst i. cbn [i_zooms] in Hr.
  destruct (core_runs _ _ _ _ _ _ _ _ Hcol) as (Eids & HF & Eouts).
  pose proof (collect_grouped _ _ _ _ _ Hcol) as Hnd. destruct Hopts as (Hb & Hi).
  destruct (Forall2_in_l _ _ _ _ HF Hin) as [c0 [Hc0 (Hn0 & Hv0 & Hl0 & Hk0)]]. cbn [fst snd] in *.
  pose proof (core_out_in _ _ _ _ _ _ _ _ Hcol c0 Hc0) as Hid. rewrite Hn0 in Hid.
  destruct (find_in_map zh_res r (fp_zhdrs p) Hr) as [zh [Hfind [Hzh Hres]]].
  rewrite Forall_forall in HlvX. destruct (HlvX zh Hzh) as (z & ix & lv & Hz & Hzres & Hidx & Hw & Hdat & Hixat).
  destruct (Hzs z Hz) as [Hpos Hsecs]. rewrite Hzres, Hres in Hpos, Hsecs.
  pose proof (level_secs_inv fp o r Hpos outs _ Hsecs) as Henc.
  pose proof (zr_outs_ok fp o sizes inp ids outs sum data F Hcol Hinp Hsize) as Houts.
  pose proof (core_ids_sorted _ _ _ _ _ _ _ _ Hcol) as Hids.
  assert (Hcid : chrom_id {| i_hdr := core_header data p; i_zooms := fp_zhdrs p;
                            i_chroms := map (ci_of sizes) (number 0 (map fst (runs inp))) |} c = Ok (co_id c0)).
  { unfold chrom_id. cbn [i_chroms]. rewrite (find_chrom sizes (map fst (runs inp)) 0 c (co_id c0) Hnd Hid). reflexivity. }
  exists c0. split; [exact Hc0|]. split; [exact Hn0|]. split; [exact Hv0|]. split; [exact Hpos|]. split; [exact Hcid|].
  unfold zoom_interval. cbn [i_zooms i_hdr]. rewrite Hfind.
  change (h_big (core_header data p)) with false.
  destruct (write_index_inv _ _ _ _ _ _ Hw) as [t [body [_ Eix]]].
  pose proof Hixat as Hixat'. rewrite Eix in Hixat'. rewrite (cir_tree_root_ok X _ _ _ _ _ _ _ Hixat'). cbn [rbind].
  rewrite Hcid. cbn [rbind].
  set (rsecs := level_rsecs fp (o_ips o) r outs) in *.
  rewrite <- (level_filter_chrom fp (o_ips o) r outs Hpos Houts Hids c0 s e Hc0). fold rsecs.
  pose proof (has_at_bound _ _ _ Hixat) as Hixend.
  assert (Hcase : zl_secs z = [] \/ zl_secs z <> []) by (destruct (zl_secs z); [now left|right; discriminate]).
  destruct Hcase as [Esds|Hne0].
  - (* a level without records: the index is the empty leaf *)
    assert (Ers : rsecs = []).
    { apply mapM_len in Henc. rewrite Esds in Henc. cbn [length] in Henc. destruct rsecs; [reflexivity|discriminate]. }
    rewrite Esds in Hw. cbn [place] in Hw. rewrite write_index_nil in Hw by lia. apply Ok_inj in Hw. apply (f_equal fst) in Hw. cbn [fst] in Hw.
    clear Eix Hixat' Hixend. subst ix.
    unfold search_blocks. cbn [i_hdr]. change (h_big (core_header data p)) with false.
    rewrite (search_empty_index X (zh_index zh) _ _ _ _ _ (co_id c0) s e (S (length X)) Hixat).
    + rewrite Ers. reflexivity.
    + apply has_at_bound in Hixat. unfold Nlen in Hixat. rewrite app_length in Hixat. cbn [length] in Hixat. lia.
  - assert (Hne : place (zh_data zh) (zl_secs z) <> []).
    { intros E. apply place_nil_iff in E. contradiction. }
    pose proof (has_at_bound _ _ _ Hdat) as Hdend.
    destruct (zoom_query_complete fp (o_bs o) (o_ips o) (zh_data zh) (zh_index zh) rsecs (zl_secs z)
                (level_sec_ok fp (o_ips o) r outs Hpos Houts) Henc Hb Hne
                (level_sorted fp (o_ips o) r outs Hpos Houts Hids (zl_secs z) (zh_data zh) Henc)
                (zoom_placed_ok fp (Nlen X) HsizeX rsecs (zl_secs z) (zh_data zh) Henc
                   (level_recs_u32 fp (o_ips o) r outs Hpos Houts) Hdend))
      as [ix' [lv' [Hw' Hq]]].
    rewrite Hw in Hw'. apply Ok_inj in Hw'. injection Hw' as <- <-.
    destruct Hixat as [A [B [EB LA]]].
    assert (LA' : Nlen A = zh_index zh) by (unfold Nlen; rewrite LA; apply N2Nat.id).
    specialize (Hq ltac:(unfold U64 in *; lia) A B (co_id c0) s e (S (length X)) LA'
                   ltac:(rewrite EB, !app_length; lia)).
    cbv zeta in Hq. destruct Hq as (Hsearch & Hflat & _). rewrite <- EB in Hsearch.
    unfold search_blocks. cbn [i_hdr]. change (h_big (core_header data p)) with false.
    rewrite Hsearch. cbn [rbind].
    rewrite (collect_zoom_sections infl {| i_hdr := core_header data p; i_zooms := fp_zhdrs p;
                 i_chroms := map (ci_of sizes) (number 0 (map fst (runs inp))) |} X eq_refl eq_refl fp (co_id c0) s e).
    + rewrite Hflat. reflexivity.
    + pose proof (zoom_placed_slices fp X rsecs (zl_secs z) (zh_data zh) Henc Hdat) as Hsl.
      pose proof (level_recs_u32 fp (o_ips o) r outs Hpos Houts) as Hu. fold rsecs in Hu.
      apply Forall_forall. intros q Hq. apply filter_In in Hq as [Hq _]. rewrite Forall_forall in Hsl, Hu.
      split; [exact (Hsl q Hq)|]. apply Hu. destruct q as [a b']. eapply in_combine_l. exact Hq.
Qed.
End ZoomImg.

(* ---------- the statement: the finished file F and an image X answer every zoom query alike ---------- *)
Definition serves_zoom (fp : fpmode) (o : opts) (sizes : list (name * N)) (inp : list item) (F X : list N) : Prop :=
  exists i, read_info F = Ok i /\ read_info X = Ok i /\
    forall (infl : list N -> list N) r c vs s e, In r (map zh_res (i_zooms i)) -> In (c, vs) (runs inp) ->
      exists id len st, chrom_id i c = Ok id /\ 1 <= r
        /\ lookup c sizes = Some len /\ wf_vals len vs
        /\ zoom_chrom fp (o_ips o) r id vs zstate0 = Ok st
        /\ zoom_interval infl X i c s e r
           = Ok (map (zrec_read fp) (filter (ztouch s e) (concat (zs_out st))))
        /\ zoom_interval infl F i c s e r
           = Ok (map (zrec_read fp) (filter (ztouch s e) (concat (zs_out st)))).

Lemma zoom_serves_of_assemble fp o sizes inp ids outs sum data zoom_part dco F X :
  bw_collect fp o sizes inp = Ok (ids, outs, sum, data) ->
  assemble o BIGWIG_MAGIC sizes ids sum data bw_pre 0 0 0 zoom_part dco = Ok F ->
  zoom_part_ok fp o outs zoom_part ->
  opts_ok o -> input_ok sizes inp -> Nlen F < U64 -> agrees X F -> serves_zoom fp o sizes inp F X.
Proof.
  intros Hcol Hasm Hzp Hopts Hinp Hsize HX.
  assert (Hz10 : forall ds zp zb zh, zoom_part ds zp = Ok (zb, zh) -> Nlen zh <= 10).
  { intros ds zp zb zh E. exact (proj1 (Hzp ds zp zb zh (repeatN 0 (N.to_nat zp) ++ zb) E
      ltac:(rewrite <- (app_nil_r zb) at 1; apply has_at_intro; rewrite Nlen_repeatN; apply N2Nat.id))). }
  destruct (assemble_roundtrip _ _ _ _ _ _ _ _ _ _ _ Hcol Hasm Hz10 Hopts Hinp Hsize)
    as (p & i & HA & Hri & _ & _ & _ & _ & _).
  pose proof (zooms_end_in_file o sizes F _ _ _ _ _ _ HA) as Hend.
  pose proof (asm_zooms _ _ _ _ _ _ _ _ _ _ _ _ _ _ HA) as Hzat.
  pose proof (asm_Nlen _ _ _ _ _ _ _ _ _ _ _ _ _ _ HA) as HNl. cbv zeta in HNl, Hzat.
  change (Nlen bw_pre) with 352 in HNl, Hzat.
  pose proof HA as (_ & _ & Hpart & _). cbv zeta in Hpart. change (Nlen bw_pre) with 352 in Hpart.
  assert (Hn10 : Nlen (fp_zhdrs p) <= 10) by exact (Hz10 _ _ _ _ Hpart).
  (* X reads the same info *)
  destruct (agreeing_images_serve fp o sizes inp ids outs sum data zoom_part dco F p Hcol HA Hn10 Hopts Hinp Hsize X HX)
    as (RF & RX & _).
  rewrite Hri in RF. rewrite <- RF in RX. clear RF.
  (* X holds the zoom bytes *)
  assert (H308 : (308 <= length F)%nat) by (unfold Nlen in HNl; lia).
  assert (HzatX : has_at X (352 + Nlen (data_bytes data) + Nlen (fp_ct p) + Nlen (fp_ix p)) (fp_zbytes p)).
  { apply (agrees_transfer X F _ _ HX H308 Hzat). right. unfold Nlen in *. lia. }
  assert (HsizeX : Nlen X < U64).
  { destruct HX as [[_ Hl] _]. unfold Nlen in *. unfold U64 in *. lia. }
  destruct (Hzp _ _ _ _ F Hpart Hzat) as (_ & Hb & Hu & zoomsF & HlvF & HzsF).
  destruct (Hzp _ _ _ _ X Hpart HzatX) as (_ & _ & _ & zoomsX & HlvX & HzsX).
  assert (Hok : Forall zh_ok (fp_zhdrs p)).
  { apply Forall_forall. intros h Hh. rewrite Forall_forall in Hb, Hu. destruct (Hb h Hh) as [A [B C]].
    unfold zh_ok. split; [exact (Hu h Hh)|]. change (Nlen bw_pre) with 352 in Hend. lia. }
  exists i. split; [exact Hri|]. split; [exact RX|]. intros infl r c vs s e Hr Hin.
  destruct (img_zoom_query fp o sizes inp ids outs sum data zoom_part dco F p zoomsX X Hcol HA Hopts Hinp Hsize HsizeX
              HlvX HzsX Hok infl i c vs s e r Hri Hin Hr) as (c0 & Hc0 & Hn0 & Hv0 & Hpos & Hcid & HqX).
  destruct (img_zoom_query fp o sizes inp ids outs sum data zoom_part dco F p zoomsF F Hcol HA Hopts Hinp Hsize Hsize
              HlvF HzsF Hok infl i c vs s e r Hri Hin Hr) as (c1 & Hc1 & Hn1 & Hv1 & _ & Hcid1 & HqF).
  (* the two chromosome records have the same id and values, hence the same accumulator state *)
  assert (Est : zst fp (o_ips o) r c1 = zst fp (o_ips o) r c0).
  { rewrite Hcid in Hcid1. apply Ok_inj in Hcid1. unfold zst. rewrite <- Hcid1, Hv1, Hv0. reflexivity. }
  rewrite Est in HqF.
  destruct (collect_accepted _ _ _ _ _ _ _ _ c vs Hcol Hin) as (len & Hl & Hwf & _).
  exists (co_id c0), len, (zst fp (o_ips o) r c0). split; [exact Hcid|]. split; [exact Hpos|].
  split; [exact Hl|]. split; [exact Hwf|]. split; [|split; [exact HqX|exact HqF]].
  rewrite <- Hv0. apply zst_run. exact Hpos.
Qed.

Theorem written_serves_zoom fp o sizes inp F X :
  (bw_write fp o sizes inp = Ok F /\ Forall (fun z => z < U32) (zoom_sizes_single o))
  \/ (bw_write_multipass fp o sizes inp = Ok F /\ manual_u32 o) ->
  opts_ok o -> input_ok sizes inp -> Nlen F < U64 -> agrees X F -> serves_zoom fp o sizes inp F X.
Proof.
  intros [[H Hu]|[H Hu]] Ho Hi Hs HX.
  - destruct (bw_write_inv fp o sizes inp F H) as (ids & outs & sum & data & zooms & Hcol & Hz & Hasm).
    exact (zoom_serves_of_assemble _ _ _ _ _ _ _ _ _ _ _ X Hcol Hasm (single_part_ok fp o outs zooms Hu Hz) Ho Hi Hs HX).
  - destruct (bw_write_multipass_inv fp o sizes inp F H) as (ids & outs & sum & data & Hcol & Hasm).
    exact (zoom_serves_of_assemble _ _ _ _ _ _ _ _ _ _ _ X Hcol Hasm (multi_part_ok fp o outs sum Hu) Ho Hi Hs HX).
Qed.

(* every crash point that includes the header operation answers every zoom query as the finished
   file does.  [kind] 0 = write (single pass), 1 = write_multipass; the u32 hypothesis on the
   resolutions is the one of C07_file_zoom_query / C07_file_zoom_query_two_pass for that writer *)
Theorem crash_after_serves_zoom ck fp kind o sizes input p n c :
  chunker_ok ck -> bw_parts fp kind o sizes input = Ok p ->
  (kind = 0 /\ Forall (fun z => z < U32) (zoom_sizes_single o)) \/ (kind = 1 /\ manual_u32 o) ->
  opts_ok o -> input_ok sizes input -> Nlen (final_bytes p) < U64 ->
  (header_index ck kind p < n)%nat ->
  let T := snd (bw_sink_run None ck fp kind o sizes input) in
  serves_zoom fp o sizes input (replay T) (replay (cut_ops T n c)).
Proof.
  intros Hck Hp Hkind Ho Hi Hs Hn T.
  pose proof (bw_parts_ok fp kind o sizes input p Hp (bw_parts_zooms_le fp kind o sizes input p Hp)) as K.
  assert (ET : T = snd (run None (Ok tt) (calls_accept ck false true kind p))).
  { unfold T, bw_sink_run, sink_run. rewrite Hp. reflexivity. }
  assert (EF : replay T = final_bytes p) by (rewrite ET; exact (replay_final ck kind p Hck K)).
  rewrite EF. apply (written_serves_zoom fp o sizes input).
  - destruct Hkind as [[-> Hu] | [-> Hu]].
    + left. split; [|exact Hu]. rewrite bw_write_refines, Hp. reflexivity.
    + right. split; [|exact Hu]. rewrite bw_write_multipass_refines, Hp. reflexivity.
  - exact Ho.
  - exact Hi.
  - exact Hs.
  - apply (complete_agrees p _ K). rewrite ET. exact (crash_after_complete ck kind p Hck K n c Hn).
Qed.
