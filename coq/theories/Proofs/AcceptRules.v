(* C13, stream level: the serial source's verdict is the class of the first offending item
   (Model/Accept.v item_class / rule_verdict); the bigWig writer model's input pass
   (BigWigWrite.v bw_collect) has the same verdict; acceptance = the declarative conditions. *)
From BT Require Import Base.Util Base.Float Model.RTree Model.BBIFile Model.BigWigWrite Model.Accept
  Proofs.Chunks Proofs.BigWigQuery.
Local Open Scope N_scope.

(* ---------- names ---------- *)
Lemma name_cmp_eq a : forall b, name_cmp a b = Eq -> a = b.
Proof.
  induction a as [|x r IH]; intros [|y s] H; cbn [name_cmp] in H; try discriminate; [reflexivity|].
  destruct (x ?= y) eqn:E; try discriminate. apply N.compare_eq in E. subst. f_equal. now apply IH.
Qed.
Lemma name_cmp_refl a : name_cmp a a = Eq.
Proof. induction a as [|x r IH]; [reflexivity|]. cbn [name_cmp]. now rewrite N.compare_refl. Qed.
Lemma name_eqb_eq a b : name_eqb a b = true -> a = b.
Proof. unfold name_eqb. destruct (name_cmp a b) eqn:E; try discriminate. intros _. now apply name_cmp_eq. Qed.
Lemma name_eqb_refl a : name_eqb a a = true.
Proof. unfold name_eqb. now rewrite name_cmp_refl. Qed.
Lemma name_eqb_neq a b : name_eqb a b = false -> a <> b.
Proof. intros H E. subst. rewrite name_eqb_refl in H. discriminate. Qed.
Lemma name_eqb_sym a b : name_eqb a b = name_eqb b a.
Proof.
  destruct (name_eqb a b) eqn:E1; destruct (name_eqb b a) eqn:E2; try reflexivity.
  - apply name_eqb_eq in E1. subst. rewrite name_eqb_refl in E2. discriminate.
  - apply name_eqb_eq in E2. subst. rewrite name_eqb_refl in E1. discriminate.
Qed.

(* ---------- verdicts ---------- *)
Definition verdict {X} (r : res X) : res unit :=
  match r with Ok _ => Ok tt | Err k => Err k | Panic => Panic | Fuel => Fuel end.
Definition class_verdict (c : option N) : res unit := match c with Some k => Err k | None => Ok tt end.
Definition chk_of {V} (vclass : N -> V -> option V -> option N) (len : N) (v : V) (n : option V) : res unit :=
  class_verdict (vclass len v n).

Lemma rbind_unit (r : res unit) : (do _ <- r; Ok tt) = r.
Proof. destruct r as [[]| | |]; reflexivity. Qed.
Lemma rbind_assoc {X Y Z} (r : res X) (f : X -> res Y) (g : Y -> res Z) :
  (do y <- (do x <- r; f x); g y) = (do x <- r; do y <- f x; g y).
Proof. destruct r; reflexivity. Qed.

Lemma check_val_class len v n : check_val len v n = chk_of bw_val_class len v n.
Proof.
  unfold check_val, chk_of, bw_val_class.
  destruct (v_end v <? v_start v); [reflexivity|]. destruct (len <? v_end v); [reflexivity|].
  destruct n as [n|]; [|reflexivity]. destruct (v_start n <? v_end v); reflexivity.
Qed.
Lemma bb_check_val_class len v n : bb_check_val len v n = chk_of bb_val_class len v n.
Proof.
  unfold bb_check_val, chk_of, bb_val_class.
  destruct (e_end v <? e_start v); [reflexivity|]. destruct (len <=? e_start v); [reflexivity|].
  destruct n as [n|]; [|reflexivity]. destruct (e_start n <? e_start v); reflexivity.
Qed.

(* ---------- serial source = first offending item ---------- *)
Section Rules.
Context {V : Type}.
Variable vclass : N -> V -> option V -> option N.
Variable sort_all : bool.
Variable sizes : list (name * N).

Definition next_same (c : name) (rest : list (name * V)) : option V :=
  match hd_error rest with
  | Some n => if name_eqb (fst n) c then Some (snd n) else None
  | None => None
  end.

Lemma serial_loop_rule : forall rest seen c len v, lookup c sizes = Some len ->
  serial_loop (chk_of vclass) sort_all sizes seen c len v (ok_lines rest)
  = class_verdict (first_some (vclass len v (next_same c rest) :: classes vclass sort_all sizes seen (Some (c, v)) rest)).
Proof.
  induction rest as [|[c' v'] rest IH]; intros seen c len v Hl.
  - cbn [ok_lines map serial_loop classes first_some next_same hd_error]. unfold chk_of.
    destruct (vclass len v None); reflexivity.
  - cbn [ok_lines map fst snd serial_loop]. fold (ok_lines rest).
    unfold next_same at 1. cbn [hd_error fst snd].
    destruct (name_eqb c' c) eqn:E.
    + apply name_eqb_eq in E. subst c'.
      unfold chk_of at 1. cbn [first_some].
      destruct (vclass len v (Some v')) as [k|]; [reflexivity|]. cbn [class_verdict rbind].
      rewrite (IH seen c len v' Hl). cbn [classes]. unfold item_class at 1, step_seen, new_run. cbn [fst snd].
      rewrite name_eqb_refl. cbn [negb andb]. rewrite Hl. reflexivity.
    + unfold chk_of at 1. cbn [first_some].
      destruct (vclass len v None) as [k|]; [reflexivity|]. cbn [class_verdict rbind].
      cbn [classes]. unfold item_class at 1, step_seen, new_run. cbn [fst snd]. rewrite E. cbn [negb andb].
      destruct (sort_all && negb (name_ltb c c')) eqn:Eo; cbn [first_some]; [reflexivity|].
      destruct (lookup c' sizes) as [len'|] eqn:El; cbn [first_some]; [|reflexivity].
      destruct (seen_b c' seen); cbn [first_some]; [reflexivity|].
      rewrite (IH (seen ++ [c']) c' len' v' El). reflexivity.
Qed.

Theorem serial_rule (items : list (name * V)) :
  serial (chk_of vclass) sort_all sizes (ok_lines items) = rule_verdict vclass sort_all sizes items.
Proof.
  destruct items as [|[c v] rest]; [reflexivity|].
  cbn [ok_lines map fst snd serial]. fold (ok_lines rest). unfold rule_verdict.
  cbn [classes]. unfold item_class at 1, step_seen, new_run. cbn [fst snd andb seen_b existsb app].
  destruct (lookup c sizes) as [len|] eqn:El; cbn [first_some]; [|reflexivity].
  rewrite (serial_loop_rule rest [c] c len v El). reflexivity.
Qed.

(* position independence: an offending item anywhere in the stream makes the verdict an error *)
Lemma first_some_app_some a b k : first_some b = Some k -> exists k', first_some (a ++ b) = Some k'.
Proof.
  intros H. induction a as [|[x|] a IH]; cbn [app first_some]; [eauto|eauto|exact IH].
Qed.
Definition ctx_prev (prev : option (name * V)) (pre : list (name * V)) : option (name * V) :=
  match last_opt pre with Some p => Some p | None => prev end.
Lemma ctx_prev_cons prev y pre : ctx_prev prev (y :: pre) = ctx_prev (Some y) pre.
Proof.
  unfold ctx_prev, last_opt. destruct pre as [|z pre]; [reflexivity|].
  rewrite (last_default z pre y z). destruct pre; reflexivity.
Qed.
(* the chromosomes begun before the item that follows [pre] *)
Fixpoint seen_at (seen : list name) (prev : option (name * V)) (pre : list (name * V)) : list name :=
  match pre with [] => seen | y :: r => seen_at (step_seen seen prev y) (Some y) r end.
Lemma classes_split x post : forall pre seen prev, exists front,
  classes vclass sort_all sizes seen prev (pre ++ x :: post)
  = front ++ item_class vclass sort_all sizes (seen_at seen prev pre) (ctx_prev prev pre) x (hd_error post)
             :: classes vclass sort_all sizes (step_seen (seen_at seen prev pre) (ctx_prev prev pre) x) (Some x) post.
Proof.
  induction pre as [|y pre IH]; intros seen prev.
  - exists []. reflexivity.
  - destruct (IH (step_seen seen prev y) (Some y)) as [front Hf]. cbn [app classes seen_at]. rewrite Hf.
    eexists (_ :: front). rewrite ctx_prev_cons. reflexivity.
Qed.
Theorem rule_position_independent pre x post k :
  item_class vclass sort_all sizes (seen_at [] None pre) (last_opt pre) x (hd_error post) = Some k ->
  exists k', rule_verdict vclass sort_all sizes (pre ++ x :: post) = Err k'.
Proof.
  intros Hc. unfold rule_verdict.
  destruct (pre ++ x :: post) eqn:E; [destruct pre; discriminate|]. rewrite <- E.
  destruct (classes_split x post pre [] None) as [front Hf]. rewrite Hf.
  unfold ctx_prev at 1. assert (Hp : match last_opt pre with Some p => Some p | None => None end = last_opt pre)
    by (destruct (last_opt pre); reflexivity).
  rewrite Hp, Hc.
  destruct (first_some_app_some front (Some k :: classes vclass sort_all sizes
              (step_seen (seen_at [] None pre) (ctx_prev None pre) x) (Some x) post) k eq_refl) as [k' Hk'].
  rewrite Hk'. eauto.
Qed.
End Rules.

(* ---------- declarative reading: every item is fine in its context ---------- *)
Section Declarative.
Context {V : Type}.
Variable vclass : N -> V -> option V -> option N.
Variable good_val : N -> V -> Prop.
Variable good_pair : V -> V -> Prop.
Hypothesis vclass_none : forall len v n,
  vclass len v n = None <-> good_val len v /\ (forall w, n = Some w -> good_pair v w).
Variable sort_all : bool.
Variable sizes : list (name * N).

Lemma seen_b_in c seen : seen_b c seen = true <-> In c seen.
Proof.
  unfold seen_b. rewrite existsb_exists. split.
  - intros [x [Hx He]]. apply name_eqb_eq in He. now subst.
  - intros H. exists c. split; [exact H|apply name_eqb_refl].
Qed.

Definition item_ok (seen : list name) (prev : option (name * V)) (cur : name * V) (next : option (name * V)) : Prop :=
  (forall p, prev = Some p -> fst p <> fst cur -> sort_all = true -> name_cmp (fst p) (fst cur) = Lt) /\
  (new_run prev cur = true -> ~ In (fst cur) seen) /\
  exists len, lookup (fst cur) sizes = Some len /\ good_val len (snd cur) /\
              (forall n, next = Some n -> fst n = fst cur -> good_pair (snd cur) (snd n)).
Fixpoint stream_ok (seen : list name) (prev : option (name * V)) (l : list (name * V)) : Prop :=
  match l with
  | [] => True
  | x :: r => item_ok seen prev x (hd_error r) /\ stream_ok (step_seen seen prev x) (Some x) r
  end.

Lemma item_class_none seen prev cur next :
  item_class vclass sort_all sizes seen prev cur next = None <-> item_ok seen prev cur next.
Proof.
  unfold item_class, item_ok. destruct cur as [c v]. cbn [fst snd].
  split.
  - intros H.
    assert (Hord : forall p, prev = Some p -> fst p <> c -> sort_all = true -> name_cmp (fst p) c = Lt).
    { intros [p pv] Hq Hne Hs. subst prev. unfold new_run in H. cbn [fst] in *.
      destruct (name_eqb c p) eqn:Ecp; [apply name_eqb_eq in Ecp; congruence|].
      rewrite Hs in H. cbn [negb andb] in H. unfold name_ltb in H.
      destruct (name_cmp p c); [discriminate|reflexivity|discriminate]. }
    destruct (match prev with None => false | Some p => new_run prev (c, v) && sort_all && negb (name_ltb (fst p) c) end);
      [discriminate|].
    destruct (lookup c sizes) as [len|]; [|discriminate].
    destruct (new_run prev (c, v) && seen_b c seen) eqn:En; [discriminate|].
    apply vclass_none in H as [Hg Hp]. split; [exact Hord|]. split.
    + intros Hn Hin. rewrite Hn in En. cbn [andb] in En. apply seen_b_in in Hin. congruence.
    + exists len. split; [reflexivity|]. split; [exact Hg|].
      intros n Hn Hc. apply Hp. subst next. rewrite Hc, name_eqb_refl. reflexivity.
  - intros [Ho [Hs [len [Hl [Hg Hp]]]]]. rewrite Hl.
    assert (Hv : vclass len v match next with
                              | Some n => if name_eqb (fst n) c then Some (snd n) else None
                              | None => None end = None).
    { apply vclass_none. split; [exact Hg|]. intros w Hw. destruct next as [n|]; [|discriminate].
      destruct (name_eqb (fst n) c) eqn:E; [|discriminate]. inversion Hw; subst w.
      apply (Hp n eq_refl). now apply name_eqb_eq. }
    assert (Hsp : new_run prev (c, v) && seen_b c seen = false).
    { destruct (new_run prev (c, v)) eqn:En; [|reflexivity]. cbn [andb].
      destruct (seen_b c seen) eqn:Es; [|reflexivity]. apply seen_b_in in Es. exfalso. exact (Hs eq_refl Es). }
    rewrite Hsp.
    destruct prev as [[p pv]|]; [|exact Hv].
    unfold new_run. cbn [fst].
    destruct (name_eqb c p) eqn:Ecp; cbn [negb andb]; [exact Hv|].
    destruct sort_all eqn:Es; cbn [andb]; [|exact Hv].
    assert (Hne : p <> c) by (intros E; subst; rewrite name_eqb_refl in Ecp; discriminate).
    specialize (Ho (p, pv) eq_refl Hne eq_refl). cbn [fst] in Ho. unfold name_ltb. rewrite Ho. cbn [negb]. exact Hv.
Qed.

Lemma classes_none : forall l seen prev,
  first_some (classes vclass sort_all sizes seen prev l) = None <-> stream_ok seen prev l.
Proof.
  induction l as [|x r IH]; intros seen prev; cbn [classes first_some stream_ok]; [tauto|].
  destruct (item_class vclass sort_all sizes seen prev x (hd_error r)) as [k|] eqn:E.
  - split; [discriminate|]. intros [Hi _]. apply item_class_none in Hi. congruence.
  - rewrite IH. apply item_class_none in E. tauto.
Qed.

Theorem rule_accept_iff l :
  rule_verdict vclass sort_all sizes l = Ok tt <-> l <> [] /\ stream_ok [] None l.
Proof.
  unfold rule_verdict. destruct l as [|x r]; [split; [discriminate|intros [H _]; congruence]|].
  destruct (first_some (classes vclass sort_all sizes [] None (x :: r))) as [k|] eqn:E.
  - split; [discriminate|]. intros [_ H]. apply classes_none in H. congruence.
  - split; [|reflexivity]. intros _. split; [discriminate|]. now apply classes_none.
Qed.
Lemma rule_verdict_total l : rule_verdict vclass sort_all sizes l = Ok tt \/ exists k, rule_verdict vclass sort_all sizes l = Err k.
Proof.
  unfold rule_verdict. destruct l; [right; eauto|].
  destruct (first_some _); [right; eauto|left; reflexivity].
Qed.
End Declarative.

(* the two instances *)
Definition bw_good_val (len : N) (v : value) : Prop := v_start v <= v_end v /\ v_end v <= len.
Definition bw_good_pair (v w : value) : Prop := v_end v <= v_start w.
Definition bb_good_val (len : N) (v : entry) : Prop := e_start v <= e_end v /\ e_start v < len.
Definition bb_good_pair (v w : entry) : Prop := e_start v <= e_start w.

Lemma bw_vclass_none len v n :
  bw_val_class len v n = None <-> bw_good_val len v /\ (forall w, n = Some w -> bw_good_pair v w).
Proof.
  unfold bw_val_class, bw_good_val, bw_good_pair.
  destruct (v_end v <? v_start v) eqn:E1; [apply N.ltb_lt in E1; split; [discriminate|intros [[? ?] _]; exfalso; lia]|].
  destruct (len <? v_end v) eqn:E2; [apply N.ltb_lt in E2; split; [discriminate|intros [[? ?] _]; exfalso; lia]|].
  apply N.ltb_ge in E1. apply N.ltb_ge in E2.
  destruct n as [n|].
  - destruct (v_start n <? v_end v) eqn:E3.
    + apply N.ltb_lt in E3. split; [discriminate|]. intros [_ H]. specialize (H n eq_refl). exfalso; lia.
    + apply N.ltb_ge in E3. split; [|reflexivity]. intros _. split; [lia|]. intros w Hw. inversion Hw; subst. exact E3.
  - split; [|reflexivity]. intros _. split; [lia|]. intros w Hw. discriminate.
Qed.
Lemma bb_vclass_none len v n :
  bb_val_class len v n = None <-> bb_good_val len v /\ (forall w, n = Some w -> bb_good_pair v w).
Proof.
  unfold bb_val_class, bb_good_val, bb_good_pair.
  destruct (e_end v <? e_start v) eqn:E1; [apply N.ltb_lt in E1; split; [discriminate|intros [[? ?] _]; exfalso; lia]|].
  destruct (len <=? e_start v) eqn:E2; [apply N.leb_le in E2; split; [discriminate|intros [[? ?] _]; exfalso; lia]|].
  apply N.ltb_ge in E1. apply N.leb_gt in E2.
  destruct n as [n|].
  - destruct (e_start n <? e_start v) eqn:E3.
    + apply N.ltb_lt in E3. split; [discriminate|]. intros [_ H]. specialize (H n eq_refl). exfalso; lia.
    + apply N.ltb_ge in E3. split; [|reflexivity]. intros _. split; [lia|]. intros w Hw. inversion Hw; subst. exact E3.
  - split; [|reflexivity]. intros _. split; [lia|]. intros w Hw. discriminate.
Qed.

(* ---------- lines that did not parse ---------- *)
Section Lines.
Context {V : Type}.
Variable chk1 chk2 : N -> V -> option V -> res unit.
Hypothesis chk_ext : forall len v n, chk1 len v n = chk2 len v n.
Variable sort_all : bool.
Variable sizes : list (name * N).
Lemma serial_loop_ext : forall rest seen c len v,
  serial_loop chk1 sort_all sizes seen c len v rest = serial_loop chk2 sort_all sizes seen c len v rest.
Proof.
  induction rest as [|[c' [e|v']] rest IH]; intros seen c len v; cbn [serial_loop]; [apply chk_ext|reflexivity|].
  rewrite !chk_ext. destruct (name_eqb c' c).
  - destruct (chk2 len v (Some v')); cbn [rbind]; try reflexivity. apply IH.
  - destruct (chk2 len v None); cbn [rbind]; try reflexivity.
    destruct (sort_all && negb (name_ltb c c')); [reflexivity|].
    destruct (lookup c' sizes); [|reflexivity]. destruct (seen_b c' seen); [reflexivity|apply IH].
Qed.
Lemma serial_ext l : serial chk1 sort_all sizes l = serial chk2 sort_all sizes l.
Proof.
  destruct l as [|[c [e|v]] rest]; cbn [serial]; try reflexivity.
  destruct (lookup c sizes); [apply serial_loop_ext|reflexivity].
Qed.
End Lines.

Lemma all_ok_lines {V} (items : list (name * V)) : all_ok (ok_lines items) = Some items.
Proof.
  induction items as [|[c v] r IH]; [reflexivity|]. cbn [ok_lines map fst snd all_ok].
  fold (ok_lines r). now rewrite IH.
Qed.
Lemma all_ok_some {V} : forall (l : list (pline V)) items, all_ok l = Some items -> l = ok_lines items.
Proof.
  induction l as [|[c [e|v]] r IH]; intros items H; cbn [all_ok] in H.
  - inversion H. reflexivity.
  - discriminate.
  - destruct (all_ok r) as [t|]; [|discriminate]. inversion H; subst.
    cbn [ok_lines map fst snd]. f_equal. apply IH. reflexivity.
Qed.

Section Malformed.
Context {V : Type}.
Variable vclass : N -> V -> option V -> option N.
Variable sort_all : bool.
Variable sizes : list (name * N).
(* the serial source never panics or hangs, and it accepts only streams whose lines all parsed *)
Lemma chk_of_cases len v n : chk_of vclass len v n = Ok tt \/ exists k, chk_of vclass len v n = Err k.
Proof. unfold chk_of. destruct (vclass len v n); cbn [class_verdict]; eauto. Qed.
Lemma serial_loop_ok_or_err : forall rest seen c len v,
  (serial_loop (chk_of vclass) sort_all sizes seen c len v rest = Ok tt /\ exists items, all_ok rest = Some items)
  \/ exists k, serial_loop (chk_of vclass) sort_all sizes seen c len v rest = Err k.
Proof.
  induction rest as [|[c' [e|v']] rest IH]; intros seen c len v; cbn [serial_loop all_ok].
  - destruct (chk_of_cases len v None) as [Hc|[k Hc]]; rewrite Hc; [left; eauto|right; eauto].
  - right; eauto.
  - destruct (name_eqb c' c).
    + destruct (chk_of_cases len v (Some v')) as [Hc|[k Hc]]; rewrite Hc; cbn [rbind]; [|right; eauto].
      destruct (IH seen c len v') as [[H [items Hi]]|[k H]]; [left|right; eauto].
      rewrite Hi. split; eauto.
    + destruct (chk_of_cases len v None) as [Hc|[k Hc]]; rewrite Hc; cbn [rbind]; [|right; eauto].
      destruct (sort_all && negb (name_ltb c c')); [right; eauto|].
      destruct (lookup c' sizes) as [len'|]; [|right; eauto].
      destruct (seen_b c' seen); [right; eauto|].
      destruct (IH (seen ++ [c']) c' len' v') as [[H [items Hi]]|[k H]]; [left|right; eauto].
      rewrite Hi. split; eauto.
Qed.
Theorem serial_ok_or_err l :
  (serial (chk_of vclass) sort_all sizes l = Ok tt /\ exists items, all_ok l = Some items)
  \/ exists k, serial (chk_of vclass) sort_all sizes l = Err k.
Proof.
  destruct l as [|[c [e|v]] rest]; cbn [serial all_ok]; [right; eauto|right; eauto|].
  destruct (lookup c sizes) as [len|]; [|right; eauto].
  destruct (serial_loop_ok_or_err rest [c] c len v) as [[H [items Hi]]|[k H]]; [left|right; eauto].
  rewrite Hi. split; eauto.
Qed.
(* a malformed line anywhere: refused *)
Corollary serial_malformed l : all_ok l = None -> exists k, serial (chk_of vclass) sort_all sizes l = Err k.
Proof. intros H. destruct (serial_ok_or_err l) as [[_ [items Hi]]|Hk]; [congruence|exact Hk]. Qed.
(* all lines parsed: the rules decide *)
Corollary serial_parsed l items : all_ok l = Some items ->
  serial (chk_of vclass) sort_all sizes l = rule_verdict vclass sort_all sizes items.
Proof. intros H. rewrite (all_ok_some l items H). apply serial_rule. Qed.
End Malformed.

(* ---------- the bigWig writer model's input pass (BigWigWrite.v bw_collect) ---------- *)
Fixpoint runs' (l : list item) : list (name * list value) :=
  match l with
  | [] => []
  | (c, v) :: r =>
      match runs' r with
      | (c2, vs) :: rs => if name_eqb c2 c then (c, v :: vs) :: rs else (c, [v]) :: (c2, vs) :: rs
      | [] => [(c, [v])]
      end
  end.
Lemma runs'_head c v l : exists vs rs, runs' (cons (A:=item) (c, v) l) = (c, v :: vs) :: rs.
Proof.
  cbn [runs']. destruct (runs' l) as [|[c2 vs] rs]; [eauto|]. destruct (name_eqb c2 c); eauto.
Qed.
Lemma runs_aux_eq : forall l cur acc,
  runs_aux cur acc l = match runs' l with
                       | (c2, vs) :: rs => if name_eqb c2 cur then (cur, rev acc ++ vs) :: rs
                                           else (cur, rev acc) :: (c2, vs) :: rs
                       | [] => [(cur, rev acc)]
                       end.
Proof.
  induction l as [|[c v] r IH]; intros cur acc; [reflexivity|].
  cbn [runs_aux]. destruct (runs'_head c v r) as [vs [rs Hh]]. rewrite Hh.
  destruct (name_eqb c cur) eqn:E.
  - apply name_eqb_eq in E. subst c. rewrite IH. cbn [runs'] in Hh.
    destruct (runs' r) as [|[c2 vs2] rs2].
    + inversion Hh; subst. cbn [rev]. reflexivity.
    + destruct (name_eqb c2 cur); inversion Hh; subst; cbn [rev]; try rewrite <- app_assoc; reflexivity.
  - rewrite IH. f_equal. cbn [runs'] in Hh. cbn [rev app].
    destruct (runs' r) as [|[c2 vs2] rs2]; [exact Hh|].
    destruct (name_eqb c2 c); exact Hh.
Qed.
Lemma runs_eq l : runs l = runs' l.
Proof.
  destruct l as [|[c v] r]; [reflexivity|]. unfold runs. rewrite runs_aux_eq. cbn [runs' rev app].
  destruct (runs' r) as [|[c2 vs] rs]; [reflexivity|]. destruct (name_eqb c2 c); reflexivity.
Qed.

Fixpoint runs_verdict (o : opts) (sizes : list (name * N)) (prev : option name) (seen : list name)
         (rs : list (name * list value)) : res unit :=
  match rs with
  | [] => Ok tt
  | (c, vals) :: rest =>
      let order_ok := match prev with
                      | Some p => if o_sort_all o then match name_cmp p c with Lt => true | _ => false end else true
                      | None => true end in
      if negb order_ok then Err E_CHROM_ORDER else
      match lookup c sizes with
      | None => Err E_UNKNOWN_CHROM
      | Some len => if seen_b c seen then Err E_SPLIT else
                    do _ <- check_chrom len vals; runs_verdict o sizes (Some c) (seen ++ [c]) rest
      end
  end.
Lemma lookup_seen {X} c (ids : list (name * X)) :
  match lookup c ids with Some _ => true | None => false end = seen_b c (map fst ids).
Proof.
  induction ids as [|[k x] r IH]; [reflexivity|]. cbn [lookup map fst]. unfold seen_b. cbn [existsb].
  destruct (name_eqb c k); [reflexivity|exact IH].
Qed.
Lemma process_runs_verdict o sizes : forall rs prev ids,
  verdict (process_runs o sizes prev ids rs) = runs_verdict o sizes prev (map fst ids) rs.
Proof.
  induction rs as [|[c vals] rest IH]; intros prev ids; [reflexivity|].
  cbn [process_runs runs_verdict].
  destruct (negb match prev with
                 | Some p => if o_sort_all o then match name_cmp p c with Lt => true | _ => false end else true
                 | None => true end); [reflexivity|].
  destruct (lookup c sizes) as [len|]; [|reflexivity].
  rewrite <- (lookup_seen c ids). unfold get_id.
  destruct (lookup c ids) as [id|] eqn:Eid; [reflexivity|].
  destruct (check_chrom len vals) as [[]| | |]; cbn [rbind verdict]; try reflexivity.
  specialize (IH (Some c) (ids ++ [(c, Nlen ids)])). rewrite map_app in IH. cbn [map fst] in IH.
  rewrite <- IH.
  destruct (process_runs o sizes (Some c) (ids ++ [(c, Nlen ids)]) rest) as [[ids'' outs]| | |]; reflexivity.
Qed.

Lemma serial_loop_runs o sizes : forall l seen c len v vs rs,
  runs' (cons (A:=item) (c, v) l) = (c, v :: vs) :: rs ->
  serial_loop check_val (o_sort_all o) sizes seen c len v (ok_lines l)
  = (do _ <- check_chrom len (v :: vs); runs_verdict o sizes (Some c) seen rs).
Proof.
  induction l as [|[c' v'] l IH]; intros seen c len v vs rs Hr.
  - cbn [runs'] in Hr. inversion Hr; subst. cbn [ok_lines map serial_loop check_chrom hd_error runs_verdict].
    now rewrite !rbind_unit.
  - destruct (runs'_head c' v' l) as [vs' [rs' Hh]].
    change (runs' (cons (A:=item) (c, v) (cons (A:=item) (c', v') l))) with
      (match runs' (cons (A:=item) (c', v') l) with
       | (c2, vs) :: rs => if name_eqb c2 c then (c, v :: vs) :: rs else (c, [v]) :: (c2, vs) :: rs
       | [] => [(c, [v])] end) in Hr.
    rewrite Hh in Hr. cbn [ok_lines map fst snd serial_loop]. fold (ok_lines l).
    destruct (name_eqb c' c) eqn:E.
    + apply name_eqb_eq in E. subst c'. inversion Hr; subst vs rs.
      rewrite (IH seen c len v' vs' rs' Hh).
      change (check_chrom len (v :: v' :: vs')) with (do _ <- check_val len v (Some v'); check_chrom len (v' :: vs')).
      rewrite rbind_assoc. reflexivity.
    + inversion Hr; subst vs rs.
      change (check_chrom len [v]) with (do _ <- check_val len v None; Ok tt).
      cbn [runs_verdict]. rewrite rbind_unit.
      destruct (check_val len v None) as [[]| | |]; cbn [rbind]; try reflexivity.
      assert (Ho : negb (if o_sort_all o then match name_cmp c c' with Lt => true | _ => false end else true)
                   = o_sort_all o && negb (name_ltb c c')).
      { unfold name_ltb. destruct (o_sort_all o); [|reflexivity]. destruct (name_cmp c c'); reflexivity. }
      rewrite Ho. destruct (o_sort_all o && negb (name_ltb c c')); [reflexivity|].
      destruct (lookup c' sizes) as [len'|]; [|reflexivity].
      destruct (seen_b c' seen); [reflexivity|].
      apply (IH (seen ++ [c']) c' len' v' vs' rs' Hh).
Qed.

Lemma mapM_ok {X Y} (f : X -> res Y) l : (forall x, In x l -> exists y, f x = Ok y) -> exists ys, mapM f l = Ok ys.
Proof.
  induction l as [|x r IH]; intros H; [eexists; reflexivity|].
  destruct (H x (or_introl eq_refl)) as [y Hy]. destruct IH as [ys Hys]; [intros z Hz; apply H; now right|].
  exists (y :: ys). cbn [mapM]. rewrite Hy. cbn [rbind]. rewrite Hys. reflexivity.
Qed.
Lemma concat_res_ok {X} (l : list (res (list X))) : Forall (fun r => exists x, r = Ok x) l -> exists x, concat_res l = Ok x.
Proof.
  induction 1 as [|r l [x Hx] _ [y Hy]]; [eexists; reflexivity|].
  unfold concat_res in *. cbn [fold_right]. rewrite Hx, Hy. cbn [rbind]. eauto.
Qed.
Lemma data_sections_ok ips chrom vals : 0 < ips -> exists secs, data_sections ips chrom vals = Ok secs.
Proof.
  intros Hi. unfold data_sections. apply mapM_ok. intros c Hc.
  pose proof (chunks_nonempty (N.to_nat ips) vals ltac:(lia)) as Hne. rewrite Forall_forall in Hne.
  specialize (Hne c Hc). destruct c as [|f r]; [congruence|]. unfold encode_section. eauto.
Qed.

Theorem collect_verdict fp o sizes input : 0 < o_ips o ->
  verdict (bw_collect fp o sizes input) = serial check_val (o_sort_all o) sizes (ok_lines input).
Proof.
  intros Hi. destruct input as [|[c v] rest]; [reflexivity|].
  unfold bw_collect. cbn [ok_lines map fst snd serial]. fold (ok_lines rest).
  destruct (runs'_head c v rest) as [vs [rs Hh]].
  assert (Hv : verdict (process_runs o sizes None [] (runs (cons (A:=item) (c, v) rest)))
               = match lookup c sizes with
                 | None => Err E_UNKNOWN_CHROM
                 | Some len => serial_loop check_val (o_sort_all o) sizes [c] c len v (ok_lines rest) end).
  { rewrite process_runs_verdict, runs_eq, Hh. cbn [runs_verdict negb map seen_b existsb app].
    destruct (lookup c sizes) as [len|]; [|reflexivity]. symmetry. now apply serial_loop_runs. }
  destruct (process_runs o sizes None [] (runs (cons (A:=item) (c, v) rest))) as [[ids outs]| | |]; cbn [rbind verdict] in *; try exact Hv.
  destruct (concat_res_ok (map (fun c0 => data_sections (o_ips o) (co_id c0) (co_vals c0)) outs)) as [data Hd].
  { rewrite Forall_map. apply Forall_forall. intros x _. now apply data_sections_ok. }
  rewrite Hd. cbn [rbind verdict]. exact Hv.
Qed.
