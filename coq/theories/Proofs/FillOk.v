(* fill / fill_start_to_end: the output is a gapless tiling, contains the input values unchanged and in order,
   and every added value is zero. *)
From BT Require Import Base.Util Model.Merge Model.Fill Proofs.MergeSig.
Local Open Scope N_scope.

(* [tiles s e l]: the values of l are non-empty, each begins where the previous one ended, from s to e *)
Fixpoint tiles (s e : N) (l : list value) : Prop :=
  match l with
  | [] => s = e
  | v :: r => v_start v = s /\ s < v_end v /\ tiles (v_end v) e r
  end.
(* [zeros_added ins outs]: outs is ins with zero-valued values inserted (every input value kept, in order) *)
Inductive zeros_added : list value -> list value -> Prop :=
| za_nil : zeros_added [] []
| za_keep v ins outs : zeros_added ins outs -> zeros_added (v :: ins) (v :: outs)
| za_zero s e ins outs : zeros_added ins outs -> zeros_added ins (mkV s e 0%Z :: outs).
(* where a sorted list ends (its start position when it is empty) *)
Fixpoint end_from (s : N) (l : list value) : N := match l with [] => s | v :: r => end_from (v_end v) r end.

(* the closed form of what FillValues yields *)
Definition gap (a b : N) : list value := if a <? b then [mkV a b 0%Z] else [].
Fixpoint fill_spec (le : N) (vs : list value) : list value :=
  match vs with [] => [] | v :: r => gap le (v_start v) ++ v :: fill_spec (v_end v) r end.
Definition fill_tail (ee : option N) (le : N) : list value := match ee with Some e => gap le e | None => [] end.

Lemma fv_collect_S f st :
  fv_collect (S f) st =
    match fv_next st with
    | (None, _) => Ok []
    | (Some it, st') => match fv_collect f st' with Ok r => Ok (it :: r) | other => other end
    end.
Proof. reflexivity. Qed.

Lemma fv_collect_eq ee : forall vs le n, (2 * length vs + 2 <= n)%nat ->
  fv_collect n (mkFS (map IV vs) None ee le) = Ok (map IV (fill_spec le vs ++ fill_tail ee (end_from le vs))).
Proof.
  induction vs as [|v r IH]; intros le n Hn.
  - destruct n as [|[|n]]; [exfalso; cbn [length] in Hn; lia|exfalso; cbn [length] in Hn; lia|].
    cbn [map fill_spec end_from app]. unfold fill_tail, gap. rewrite fv_collect_S. unfold fv_next.
    cbn [fs_last_val fs_iter fs_expected_end fs_last_end]. destruct ee as [e|]; [|reflexivity].
    destruct (le <? e) eqn:E; [|reflexivity].
    rewrite fv_collect_S. unfold fv_next. cbn [fs_last_val fs_iter fs_expected_end fs_last_end].
    rewrite N.ltb_irrefl. reflexivity.
  - cbn [length] in Hn. destruct n as [|[|n]]; [exfalso; lia|exfalso; lia|].
    cbn [map fill_spec end_from]. unfold gap at 1.
    rewrite fv_collect_S. unfold fv_next at 1. cbn [fs_last_val fs_iter fs_expected_end fs_last_end].
    destruct (le <? v_start v) eqn:E.
    + rewrite fv_collect_S. unfold fv_next at 1. cbn [fs_last_val fs_iter fs_expected_end fs_last_end].
      rewrite (IH (v_end v) n) by lia. reflexivity.
    + rewrite (IH (v_end v) (S n)) by lia. reflexivity.
Qed.

Lemma tiles_app s m e l1 l2 : tiles s m l1 -> tiles m e l2 -> tiles s e (l1 ++ l2).
Proof.
  revert s. induction l1 as [|v r IH]; intros s H1 H2; cbn [tiles app] in *.
  - subst m. exact H2.
  - destruct H1 as [Ha [Hb Hc]]. repeat split; auto.
Qed.
Lemma gap_tiles a b : a <= b -> tiles a b (gap a b).
Proof. intros H. unfold gap. destruct (N.ltb_spec a b); cbn [tiles v_start v_end]; [repeat split; lia|lia]. Qed.
Lemma fill_spec_tiles vs : forall le, sorted_from le vs -> tiles le (end_from le vs) (fill_spec le vs).
Proof.
  induction vs as [|v r IH]; intros le Hs; cbn [fill_spec end_from tiles]; [reflexivity|].
  cbn [sorted_from] in Hs. destruct Hs as [H1 [H2 H3]].
  apply (tiles_app le (v_start v)); [apply gap_tiles; exact H1|]. cbn [tiles]. repeat split; [exact H2|]. apply IH. exact H3.
Qed.
Lemma end_from_ge vs : forall le, sorted_from le vs -> le <= end_from le vs.
Proof.
  induction vs as [|v r IH]; intros le Hs; cbn [end_from]; [lia|].
  cbn [sorted_from] in Hs. destruct Hs as [H1 [H2 H3]]. specialize (IH _ H3). lia.
Qed.

Lemma gap_zeros a b ins outs : zeros_added ins outs -> zeros_added ins (gap a b ++ outs).
Proof. intros H. unfold gap. destruct (a <? b); cbn [app]; [constructor; exact H|exact H]. Qed.
Lemma fill_spec_zeros tl : zeros_added [] tl -> forall vs le, zeros_added vs (fill_spec le vs ++ tl).
Proof.
  intros Ht. induction vs as [|v r IH]; intros le; cbn [fill_spec app]; [exact Ht|].
  rewrite <- app_assoc. apply gap_zeros. cbn [app]. constructor. apply IH.
Qed.
Lemma fill_tail_zeros ee le : zeros_added [] (fill_tail ee le).
Proof. destruct ee as [e|]; cbn [fill_tail]; [|constructor]. rewrite <- (app_nil_r (gap le e)). apply gap_zeros. constructor. Qed.

Lemma fill_ok vs : sorted_from 0 vs ->
  exists out, fill (map IV vs) = Ok (map IV out) /\ tiles 0 (end_from 0 vs) out /\ zeros_added vs out.
Proof.
  intros Hs. eexists. unfold fill, fill_fuel. rewrite map_length. split; [apply fv_collect_eq; lia|].
  cbn [fill_tail]. rewrite app_nil_r. split; [apply fill_spec_tiles; exact Hs|].
  rewrite <- (app_nil_r (fill_spec 0 vs)). apply fill_spec_zeros. constructor.
Qed.

Lemma fill_start_to_end_ok vs start end_ : sorted_from start vs -> end_from start vs <= end_ ->
  exists out, fill_start_to_end (map IV vs) start end_ = Ok (map IV out) /\ tiles start end_ out /\ zeros_added vs out.
Proof.
  intros Hs He. eexists. unfold fill_start_to_end, fill_fuel. rewrite map_length. split; [apply fv_collect_eq; lia|]. split.
  - apply (tiles_app start (end_from start vs)); [apply fill_spec_tiles; exact Hs|]. cbn [fill_tail]. apply gap_tiles. exact He.
  - apply fill_spec_zeros. apply fill_tail_zeros.
Qed.

(* a tiling is sorted and disjoint; the per-base signal of the filled list extends the input's signal by zeros *)
Lemma tiles_sorted l : forall s e, tiles s e l -> sorted_from s l.
Proof.
  induction l as [|v r IH]; intros s e Ht; cbn [tiles sorted_from] in *; [exact I|].
  destruct Ht as [H1 [H2 H3]]. repeat split; try lia. apply (IH _ _ H3).
Qed.
Lemma tiles_cov l : forall s e x, tiles s e l -> cov l x = (s <=? x) && (x <? e).
Proof.
  induction l as [|v r IH]; intros s e x Ht; cbn [tiles] in Ht.
  - subst e. cbn [cov existsb]. destruct (N.leb_spec s x), (N.ltb_spec x s); try reflexivity; exfalso; lia.
  - destruct Ht as [H1 [H2 H3]]. unfold cov in *. cbn [existsb]. rewrite (IH _ _ x H3). unfold inb. rewrite H1.
    pose proof (end_from_ge r (v_end v) (tiles_sorted _ _ _ H3)) as Hge.
    assert (He : v_end v <= e).
    { clear -H3. revert H3. generalize (v_end v). induction r as [|w r' IHr]; intros a Ht; cbn [tiles] in Ht; [lia|].
      destruct Ht as [Ha [Hb Hc]]. specialize (IHr _ Hc). lia. }
    destruct (N.leb_spec s x), (N.ltb_spec x (v_end v)), (N.leb_spec (v_end v) x), (N.ltb_spec x e);
      try reflexivity; exfalso; lia.
Qed.
Lemma zeros_added_sigz ins outs x : zeros_added ins outs -> sigz outs x = sigz ins x.
Proof.
  induction 1 as [|v ins outs H IH|s e ins outs H IH]; cbn [sigz]; [reflexivity|rewrite IH; reflexivity|].
  rewrite IH. cbn [v_val]. destruct (inb (mkV s e 0%Z) x); lia.
Qed.

Lemma fill_signal ins outs s e : zeros_added ins outs -> tiles s e outs ->
  forall x, sigz outs x = sigz ins x /\ cov outs x = (s <=? x) && (x <? e).
Proof. intros Hz Ht x. split; [apply zeros_added_sigz; exact Hz|apply tiles_cov; exact Ht]. Qed.

Example fill_example :
  let vs := [mkV 10 15 4%Z; mkV 20 30 6%Z; mkV 30 35 7%Z] in
  sorted_from 5 vs /\ end_from 5 vs <= 40 /\
  fill (map IV vs) = Ok (map IV [mkV 0 10 0%Z; mkV 10 15 4%Z; mkV 15 20 0%Z; mkV 20 30 6%Z; mkV 30 35 7%Z]) /\
  fill_start_to_end (map IV vs) 5 40 =
    Ok (map IV [mkV 5 10 0%Z; mkV 10 15 4%Z; mkV 15 20 0%Z; mkV 20 30 6%Z; mkV 30 35 7%Z; mkV 35 40 0%Z]).
Proof.
  cbv zeta. split; [cbn [sorted_from v_start v_end]; lia|]. split; [cbn [end_from v_end]; lia|].
  split; vm_compute; reflexivity.
Qed.
