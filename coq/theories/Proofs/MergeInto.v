(* merge_into: the pieces are sorted, disjoint, and carry the per-base sum of the two values on their hull. *)
From BT Require Import Base.Util Model.Merge Proofs.MergeSig.
Local Open Scope N_scope.

Ltac decide_inb x :=
  repeat match goal with
         | |- context [inb ?v x] =>
             first [ rewrite (inb_true v x) by (cbn [v_start v_end]; lia)
                   | rewrite (inb_false v x) by (cbn [v_start v_end]; lia) ]
         end.

Lemma merge_into_ok one two :
  v_start one < v_end one -> v_start two < v_end two ->
  v_start two < v_end one -> v_start one < v_end two ->
  exists r, merge_into one two = Ok r /\
    sorted_from (N.min (v_start one) (v_start two)) (pieces r) /\
    forall x, sig (pieces r) x = if cov [one; two] x then Some (sigz [one; two] x) else None.
Proof.
  destruct one as [s1 e1 x1], two as [s2 e2 x2]. cbn [v_start v_end v_val]. intros H1 H2 H3 H4.
  unfold merge_into. cbn [v_start v_end v_val]. cbv zeta.
  rewrite (proj2 (N.leb_gt e1 s2)) by lia. rewrite (proj2 (N.leb_gt e2 s1)) by lia. cbn [orb].
  unfold isz.
  destruct (N.eqb_spec s1 s2); [|destruct (N.ltb_spec s1 s2)];
  (destruct (N.eqb_spec e1 e2); [|destruct (N.ltb_spec e1 e2)]);
  destruct (Z.eqb_spec x1 0); destruct (Z.eqb_spec x2 0); cbn [andb];
  (eexists; split; [reflexivity|]; split;
   [ cbn [pieces opt_list app sorted_from v_start v_end]; lia
   | intro x; cbn [pieces opt_list app sig cov existsb sigz v_val];
     destruct (N.lt_ge_cases x s1), (N.lt_ge_cases x e1), (N.lt_ge_cases x s2), (N.lt_ge_cases x e2);
     try (exfalso; lia); decide_inb x; cbn [orb]; try reflexivity; f_equal; lia ]).
Qed.

Lemma merge_into_no_overlap one two :
  v_end one <= v_start two \/ v_end two <= v_start one -> merge_into one two = Panic.
Proof.
  intros H. unfold merge_into. cbv zeta.
  destruct (N.leb_spec (v_end one) (v_start two)); [reflexivity|].
  destruct (N.leb_spec (v_end two) (v_start one)); [reflexivity|]. exfalso; lia.
Qed.
