(* C06 for bigWig: the total summary (per-chromosome accumulation in process_val, then the `advance`
   fold over chromosomes) in exact arithmetic equals the statistics of the stored values weighted by
   their lengths.  Values are arbitrary finite dyadics m * 2^e; they are measured in units of 2^E for
   any E below every exponent, which makes all sums whole numbers. *)
From BT Require Import Base.Util Base.Float Model.BBIFile Model.BigWigWrite.
Local Open Scope Z_scope.

(* the number a finite value denotes, in units of 2^E *)
Definition fval (E : Z) (a : fl) : Z := match a with FFin m e => m * 2 ^ (e - E) | _ => 0 end.
Definition fin_ge (E : Z) (a : fl) : Prop := match a with FFin _ e => E <= e | _ => False end.

Lemma shift_val : forall m k j, 0 <= k -> 0 <= j -> Z.shiftl m k * 2 ^ j = m * 2 ^ (k + j).
Proof. intros. rewrite Z.shiftl_mul_pow2, Z.pow_add_r by assumption. ring. Qed.

Lemma fadd_val : forall E a b, fin_ge E a -> fin_ge E b ->
  fin_ge E (fadd64 exact a b) /\ fval E (fadd64 exact a b) = fval E a + fval E b.
Proof.
  intros E [m1 e1| |] [m2 e2| |] Ha Hb; cbn [fin_ge] in *; try contradiction.
  unfold fadd64, fadd_with, exact, r64, align. cbn [fin_ge fval]. split; [lia|].
  rewrite Z.mul_add_distr_r, !shift_val by lia. f_equal; f_equal; f_equal; lia.
Qed.

Lemma fmul_val : forall E1 E2 a b, fin_ge E1 a -> fin_ge E2 b ->
  fin_ge (E1 + E2) (fmul64 exact a b) /\ fval (E1 + E2) (fmul64 exact a b) = fval E1 a * fval E2 b.
Proof.
  intros E1 E2 [m1 e1| |] [m2 e2| |] Ha Hb; cbn [fin_ge] in *; try contradiction.
  unfold fmul64, fmul_with, exact, r64. cbn [fin_ge fval]. split; [lia|].
  replace (e1 + e2 - (E1 + E2)) with ((e1 - E1) + (e2 - E2)) by lia.
  rewrite Z.pow_add_r by lia. ring.
Qed.

Lemma fin_ge_N : forall n, fin_ge 0 (f_of_N n).
Proof. intro. cbn. lia. Qed.
Lemma fval_N : forall n, fval 0 (f_of_N n) = Z.of_N n.
Proof. intro. cbn [fval f_of_N]. rewrite Z.sub_0_r, Z.pow_0_r. lia. Qed.

Lemma fcmp_val : forall E a b, fin_ge E a -> fin_ge E b -> fcmp a b = Some (fval E a ?= fval E b).
Proof.
  intros E [m1 e1| |] [m2 e2| |] Ha Hb; cbn [fin_ge] in *; try contradiction.
  unfold fcmp, align. cbn [fval]. f_equal.
  set (e := Z.min e1 e2).
  replace (m1 * 2 ^ (e1 - E)) with (Z.shiftl m1 (e1 - e) * 2 ^ (e - E)).
  2:{ rewrite shift_val by lia. f_equal. f_equal. lia. }
  replace (m2 * 2 ^ (e2 - E)) with (Z.shiftl m2 (e2 - e) * 2 ^ (e - E)).
  2:{ rewrite shift_val by lia. f_equal. f_equal. lia. }
  assert (0 < 2 ^ (e - E)) by (apply Z.pow_pos_nonneg; lia).
  apply Zmult_compare_compat_r. lia.
Qed.

Lemma fmin_val : forall E a b, fin_ge E a -> fin_ge E b ->
  fin_ge E (fmin a b) /\ fval E (fmin a b) = Z.min (fval E a) (fval E b) /\ (fmin a b = a \/ fmin a b = b).
Proof.
  intros E a b Ha Hb. unfold fmin. rewrite (fcmp_val E a b Ha Hb).
  destruct (Z.compare_spec (fval E a) (fval E b)); (split; [assumption | split; [lia | tauto]]).
Qed.
Lemma fmax_val : forall E a b, fin_ge E a -> fin_ge E b ->
  fin_ge E (fmax a b) /\ fval E (fmax a b) = Z.max (fval E a) (fval E b) /\ (fmax a b = a \/ fmax a b = b).
Proof.
  intros E a b Ha Hb. unfold fmax. rewrite (fcmp_val E a b Ha Hb).
  destruct (Z.compare_spec (fval E a) (fval E b)); (split; [assumption | split; [lia | tauto]]).
Qed.

(* ---- what a list of values should give ---- *)
Definition vlen (v : value) : Z := Z.of_N (v_end v - v_start v).
Definition zsum (l : list Z) : Z := fold_right Z.add 0 l.
Definition w_bases (vs : list value) : N := sumN (map (fun v => (v_end v - v_start v)%N) vs).
Definition w_sum (E : Z) (vs : list value) : Z := zsum (map (fun v => vlen v * fval E (v_val v)) vs).
Definition w_sumsq (E : Z) (vs : list value) : Z := zsum (map (fun v => vlen v * fval E (v_val v) * fval E (v_val v)) vs).
Definition w_min (E : Z) (vs : list value) (init : Z) : Z := fold_left Z.min (map (fun v => fval E (v_val v)) vs) init.
Definition w_max (E : Z) (vs : list value) (init : Z) : Z := fold_left Z.max (map (fun v => fval E (v_val v)) vs) init.

Lemma zsum_app : forall a b, zsum (a ++ b) = zsum a + zsum b.
Proof. unfold zsum. induction a as [|x a IH]; intro b; cbn [app fold_right]; [lia | rewrite IH; lia]. Qed.

(* a summary whose floating-point fields are finite with exponents above E (E+E for the squares) and
   denote the given whole numbers *)
Definition wform (E : Z) (s : summary) (items bases : N) (su sq mn mx : Z) : Prop :=
  su_items s = items /\ su_bases s = bases /\
  fin_ge E (su_sum s) /\ fval E (su_sum s) = su /\
  fin_ge (E + E) (su_sumsq s) /\ fval (E + E) (su_sumsq s) = sq /\
  fin_ge E (su_min s) /\ fval E (su_min s) = mn /\ fin_ge E (su_max s) /\ fval E (su_max s) = mx.

Definition vfin (E : Z) (v : value) : Prop := fin_ge E (v_val v).

Lemma summary_add_form : forall E s v items bases su sq mn mx, E <= 0 -> vfin E v ->
  wform E s items bases su sq mn mx ->
  wform E (summary_add exact s v) (items + 1)%N (bases + (v_end v - v_start v))%N
        (su + vlen v * fval E (v_val v)) (sq + vlen v * fval E (v_val v) * fval E (v_val v))
        (Z.min mn (fval E (v_val v))) (Z.max mx (fval E (v_val v))).
Proof.
  intros E s v items bases su sq mn mx HE Hv (A & B & C1 & C2 & D1 & D2 & M1 & M2 & X1 & X2).
  unfold vfin in Hv.
  pose proof (fmul_val 0 E (f_of_N (v_end v - v_start v)) (v_val v) (fin_ge_N _) Hv) as (P1 & P2).
  rewrite Z.add_0_l in P1, P2. rewrite fval_N in P2.
  pose proof (fmul_val E E _ (v_val v) P1 Hv) as (Q1 & Q2). rewrite P2 in Q2.
  pose proof (fadd_val E _ _ C1 P1) as (R1 & R2).
  pose proof (fadd_val (E + E) _ _ D1 Q1) as (S1 & S2).
  pose proof (fmin_val E _ _ M1 Hv) as (T1 & T2 & _).
  pose proof (fmax_val E _ _ X1 Hv) as (U1 & U2 & _).
  unfold wform, summary_add. cbn [su_items su_bases su_sum su_sumsq su_min su_max].
  unfold vlen. rewrite R2, S2, T2, U2, P2, Q2, C2, D2, M2, X2, A, B.
  repeat split; assumption.
Qed.

Lemma fold_add_form : forall E vs s items bases su sq mn mx, E <= 0 -> Forall (vfin E) vs ->
  wform E s items bases su sq mn mx ->
  wform E (fold_left (summary_add exact) vs s) (items + Nlen vs)%N (bases + w_bases vs)%N
        (su + w_sum E vs) (sq + w_sumsq E vs) (w_min E vs mn) (w_max E vs mx).
Proof.
  intros E vs. induction vs as [|v r IH]; intros s items bases su sq mn mx HE Hf Hs.
  - cbn [fold_left]. unfold Nlen, w_bases, w_sum, w_sumsq, w_min, w_max. cbn [length map sumN zsum fold_right fold_left N.of_nat].
    rewrite !N.add_0_r, !Z.add_0_r. exact Hs.
  - inversion Hf as [|? ? Hv Hr]; subst. cbn [fold_left].
    pose proof (IH _ _ _ _ _ _ _ HE Hr (summary_add_form E s v _ _ _ _ _ _ HE Hv Hs)) as H.
    unfold Nlen, w_bases, w_sum, w_sumsq, w_min, w_max in *. cbn [length map sumN zsum fold_right fold_left].
    rewrite Nat2N.inj_succ.
    replace (items + N.succ (N.of_nat (length r)))%N with (items + 1 + N.of_nat (length r))%N by lia.
    rewrite N.add_assoc, !Z.add_assoc. exact H.
Qed.

(* the extremes start from +-f64::MAX, which every f32 lies within *)
Definition in_range (E : Z) (v : value) : Prop :=
  fval E f64_min <= fval E (v_val v) <= fval E f64_max.

Lemma fold_min_le : forall l a, fold_left Z.min l a <= a.
Proof. induction l as [|x l IH]; intro a; cbn [fold_left]; [lia | specialize (IH (Z.min a x)); lia]. Qed.
Lemma fold_max_ge : forall l a, a <= fold_left Z.max l a.
Proof. induction l as [|x l IH]; intro a; cbn [fold_left]; [lia | specialize (IH (Z.max a x)); lia]. Qed.
Lemma fold_min_min : forall l a b, fold_left Z.min l (Z.min a b) = Z.min a (fold_left Z.min l b).
Proof. induction l as [|x l IH]; intros a b; cbn [fold_left]; [reflexivity|]. rewrite <- IH. f_equal. lia. Qed.
Lemma fold_max_max : forall l a b, fold_left Z.max l (Z.max a b) = Z.max a (fold_left Z.max l b).
Proof. induction l as [|x l IH]; intros a b; cbn [fold_left]; [reflexivity|]. rewrite <- IH. f_equal. lia. Qed.

Lemma init_form : forall E, E <= 0 ->
  wform E summary_init 0%N 0%N 0 0 (fval E f64_max) (fval E f64_min).
Proof.
  intros E HE. unfold wform, summary_init. cbn [su_items su_bases su_sum su_sumsq su_min su_max].
  unfold fzero, f64_max, f64_min. cbn [fin_ge fval]. repeat split; try reflexivity; try lia.
Qed.

(* one chromosome (chrom_summary), for a non-empty list of values *)
Lemma chrom_form : forall E vs, E <= 0 -> vs <> [] -> Forall (vfin E) vs ->
  wform E (chrom_summary exact vs) (Nlen vs) (w_bases vs) (w_sum E vs) (w_sumsq E vs)
        (w_min E vs (fval E f64_max)) (w_max E vs (fval E f64_min)).
Proof.
  intros E vs HE Hne Hf. unfold chrom_summary.
  pose proof (fold_add_form E vs _ _ _ _ _ _ _ HE Hf (init_form E HE)) as H.
  rewrite !N.add_0_l, !Z.add_0_l in H.
  destruct H as (A & H'). rewrite A.
  destruct (N.eqb_spec (Nlen vs) 0) as [C|C].
  - exfalso. destruct vs; [congruence | unfold Nlen in C; cbn [length] in C; lia].
  - split; assumption.
Qed.

Lemma merge_wform : forall E s1 s2 i1 b1 u1 q1 mn1 mx1 i2 b2 u2 q2 mn2 mx2,
  wform E s1 i1 b1 u1 q1 mn1 mx1 -> wform E s2 i2 b2 u2 q2 mn2 mx2 ->
  exists s, summary_merge exact (Some s1) s2 = Some s /\
    wform E s (i1 + i2)%N (b1 + b2)%N (u1 + u2) (q1 + q2) (Z.min mn1 mn2) (Z.max mx1 mx2).
Proof.
  intros E s1 s2 i1 b1 u1 q1 mn1 mx1 i2 b2 u2 q2 mn2 mx2
         (A & B & C1 & C2 & D1 & D2 & M1 & M2 & X1 & X2) (A' & B' & C1' & C2' & D1' & D2' & M1' & M2' & X1' & X2').
  eexists. split; [reflexivity|].
  pose proof (fadd_val E _ _ C1 C1') as (R1 & R2).
  pose proof (fadd_val (E + E) _ _ D1 D1') as (S1 & S2).
  pose proof (fmin_val E _ _ M1 M1') as (T1 & T2 & _).
  pose proof (fmax_val E _ _ X1 X1') as (U1 & U2 & _).
  unfold wform. cbn [su_items su_bases su_sum su_sumsq su_min su_max].
  rewrite R2, S2, T2, U2, A, B, A', B', C2, C2', D2, D2', M2, M2', X2, X2'.
  repeat split; assumption.
Qed.

Section Total.
Variable E : Z.
Hypothesis HE : E <= 0.
Let M := fval E f64_max.
Let m := fval E f64_min.

Lemma w_min_app : forall a b, w_min E (a ++ b) M = Z.min (w_min E a M) (w_min E b M).
Proof.
  intros a b. unfold w_min. rewrite map_app, fold_left_app.
  rewrite <- fold_min_min. f_equal. pose proof (fold_min_le (map (fun v => fval E (v_val v)) a) M). lia.
Qed.
Lemma w_max_app : forall a b, w_max E (a ++ b) m = Z.max (w_max E a m) (w_max E b m).
Proof.
  intros a b. unfold w_max. rewrite map_app, fold_left_app.
  rewrite <- fold_max_max. f_equal. pose proof (fold_max_ge (map (fun v => fval E (v_val v)) a) m). lia.
Qed.
Lemma w_bases_app : forall a b, w_bases (a ++ b) = (w_bases a + w_bases b)%N.
Proof.
  intros a b. unfold w_bases. rewrite map_app. induction (map (fun v => (v_end v - v_start v)%N) a) as [|x l IH]; cbn [app sumN]; lia.
Qed.
Lemma w_sum_app : forall a b, w_sum E (a ++ b) = w_sum E a + w_sum E b.
Proof. intros. unfold w_sum. now rewrite map_app, zsum_app. Qed.
Lemma w_sumsq_app : forall a b, w_sumsq E (a ++ b) = w_sumsq E a + w_sumsq E b.
Proof. intros. unfold w_sumsq. now rewrite map_app, zsum_app. Qed.
Lemma Nlen_app : forall {X} (a b : list X), Nlen (a ++ b) = (Nlen a + Nlen b)%N.
Proof. intros. unfold Nlen. rewrite app_length. lia. Qed.

Definition chrom_ok (vs : list value) : Prop := vs <> [] /\ Forall (vfin E) vs.

Lemma total_fold : forall chroms s0 done,
  Forall chrom_ok chroms ->
  wform E s0 (Nlen done) (w_bases done) (w_sum E done) (w_sumsq E done) (w_min E done M) (w_max E done m) ->
  exists s, fold_left (summary_merge exact) (map (chrom_summary exact) chroms) (Some s0) = Some s /\
    let all := done ++ concat chroms in
    wform E s (Nlen all) (w_bases all) (w_sum E all) (w_sumsq E all) (w_min E all M) (w_max E all m).
Proof.
  induction chroms as [|c r IH]; intros s0 done Hok Hs0; cbn [map fold_left concat].
  - exists s0. split; [reflexivity|]. cbn zeta. rewrite app_nil_r. exact Hs0.
  - inversion Hok as [|? ? (Hne & Hf) Hr]; subst.
    destruct (merge_wform E _ _ _ _ _ _ _ _ _ _ _ _ _ _ Hs0 (chrom_form E c HE Hne Hf)) as (s1 & E1 & F1).
    rewrite E1.
    rewrite <- Nlen_app, <- w_bases_app, <- w_sum_app, <- w_sumsq_app in F1.
    fold M in F1. fold m in F1. rewrite <- w_min_app, <- w_max_app in F1.
    destruct (IH s1 (done ++ c) Hr F1) as (s & E2 & F2).
    exists s. split; [exact E2|]. cbn zeta in *. rewrite <- app_assoc in F2. exact F2.
Qed.

(* the total as bw_collect computes it, over a non-empty list of chromosomes *)
Definition bw_total (chroms : list (list value)) : summary :=
  match fold_left (summary_merge exact) (map (chrom_summary exact) chroms) None with
  | Some s => s | None => summary_zero end.

Theorem bw_total_spec : forall c chroms, Forall chrom_ok (c :: chroms) ->
  let all := concat (c :: chroms) in
  wform E (bw_total (c :: chroms)) (Nlen all) (w_bases all) (w_sum E all) (w_sumsq E all) (w_min E all M) (w_max E all m).
Proof.
  intros c chroms Hok. inversion Hok as [|? ? (Hne & Hf) Hr]; subst.
  unfold bw_total. cbn [map fold_left summary_merge].
  pose proof (chrom_form E c HE Hne Hf) as F0. fold M in F0. fold m in F0.
  destruct (total_fold chroms _ c Hr F0) as (s & E1 & F1).
  rewrite E1. cbn [concat]. exact F1.
Qed.

(* the extremes are those of the values themselves once every value lies within +-f64::MAX *)
Lemma w_min_in_range : forall v r, in_range E v -> w_min E (v :: r) M = w_min E r (fval E (v_val v)).
Proof. intros v r (_ & H). unfold w_min. cbn [map fold_left]. f_equal. fold M in H. lia. Qed.
Lemma w_max_in_range : forall v r, in_range E v -> w_max E (v :: r) m = w_max E r (fval E (v_val v)).
Proof. intros v r (H & _). unfold w_max. cbn [map fold_left]. f_equal. fold m in H. lia. Qed.
End Total.
