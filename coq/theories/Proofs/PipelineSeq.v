(* The multi-lane machine with ONE sequential producer per chromosome (Model/PipelineSeq.v): it is the
   lanes machine with fewer producer steps (simulation: forget the producers' programs), and it still has
   no deadlock: when the main thread waits for the producer of chromosome a, the lane at the head of that
   producer's program has a section left; its channel has room, or is full and then that lane's own
   write / encode task can move (Proofs/PipelineLanesProgress.v lgood_progress_strong). *)
From BT Require Import Base.Util Model.RTree Model.BBIFile Model.Pipeline Model.PipelineSeq
  Proofs.PipelineInv Proofs.PipelineThms Proofs.PipelineLanes Proofs.PipelineLanesProgress.

(* ---------------------------------------------------------------- every step is a step of the lanes machine *)
Definition qtask_l (t : qtask) (s : qst) : ltask :=
  match t with
  | QMain => LMain
  | QProd k => LProd (hd 0%nat (nth k (q_ord s) [])) k
  | QEnc l k i => LEnc l k i
  | QWrite l k => LWrite l k
  | QSplice => LSplice
  end.

Lemma qstep_lstep g t s s' : qstep g t s = Some s' -> lstep g (qtask_l t s) (q_l s) = Some (q_l s').
Proof.
  destruct t as [|k|l k i|l k|]; cbn [qstep qtask_l]; unfold qlift, qprod_step.
  - destruct (lstep g LMain (q_l s)); [|discriminate]. intros H; inversion H; reflexivity.
  - destruct (nth_error (q_ord s) k) as [[|l r]|] eqn:E; try discriminate.
    rewrite (nth_error_nth_eq _ _ _ [] E). cbn [hd].
    destruct (lstep g (LProd l k) (q_l s)); [|discriminate]. intros H; inversion H; reflexivity.
  - destruct (lstep g (LEnc l k i) (q_l s)); [|discriminate]. intros H; inversion H; reflexivity.
  - destruct (lstep g (LWrite l k) (q_l s)); [|discriminate]. intros H; inversion H; reflexivity.
  - destruct (lstep g LSplice (q_l s)); [|discriminate]. intros H; inversion H; reflexivity.
Qed.

Lemma qrun_lrun g : forall sched s, exists sched', q_l (qrun g sched s) = lrun g sched' (q_l s).
Proof.
  induction sched as [|t r IH]; intros s; cbn [qrun].
  - exists []. reflexivity.
  - unfold qstep_or_stay. destruct (qstep g t s) as [s'|] eqn:E.
    + destruct (IH s') as [sched' H]. exists (qtask_l t s :: sched'). cbn [lrun]. unfold lstep_or_stay.
      rewrite (qstep_lstep _ _ _ _ E). exact H.
    + apply IH.
Qed.

(* ---------------------------------------------------------------- the programs account for what is left to submit *)
Definition QOrd (s : qst) : Prop :=
  Forall (Forall (fun l => (l < length (l_lanes (q_l s)))%nat)) (q_ord s) /\
  forall l k c, (l < length (l_lanes (q_l s)))%nat -> nth_error (nth l (l_lanes (q_l s)) []) k = Some c ->
    count_occ Nat.eq_dec (nth k (q_ord s) []) l = length (c_todo c).

(* steps other than a producer's leave every c_todo alone *)
Lemma lstep_todo g t s s' : lstep g t s = Some s' -> not_prod t ->
  forall l k c', nth_error (nth l (l_lanes s') []) k = Some c' ->
    exists c, nth_error (nth l (l_lanes s) []) k = Some c /\ c_todo c' = c_todo c.
Proof.
  intros Hs Hnp.
  assert (Hon : forall l0 k0 f, (forall c c', f c = Some c' -> c_todo c' = c_todo c) -> lon_chrom l0 k0 f s = Some s' ->
            forall l k c', nth_error (nth l (l_lanes s') []) k = Some c' ->
              exists c, nth_error (nth l (l_lanes s) []) k = Some c /\ c_todo c' = c_todo c).
  { intros l0 k0 f Hf. unfold lon_chrom. destruct (k0 <? l_started s)%nat; [|discriminate].
    destruct (nth_error (l_lanes s) l0) as [ln|] eqn:El; [|discriminate].
    destruct (nth_error ln k0) as [c0|] eqn:Ec; [|discriminate]. destruct (f c0) as [c0'|] eqn:Ef; [|discriminate].
    intros H; inversion H; subst s'; clear H. cbn [l_lanes]. intros l k c' Hc'.
    destruct (Nat.eq_dec l l0) as [->|Hne].
    - rewrite nth_set_nth_same in Hc' by (eapply nth_error_lt; eauto).
      rewrite (nth_error_nth_eq _ _ _ [] El).
      destruct (Nat.eq_dec k k0) as [->|Hnk].
      + rewrite nth_error_set_same in Hc' by (eapply nth_error_lt; eauto). inversion Hc'; subst c'.
        exists c0. split; [exact Ec|]. apply (Hf c0 c0' Ef).
      + rewrite nth_error_set_other in Hc' by exact Hnk. exists c'. auto.
    - rewrite nth_set_nth_other in Hc' by exact Hne. exists c'. auto. }
  destruct t as [|l0 k0|l0 k0 i|l0 k0|]; cbn [lstep] in Hs; [| destruct Hnp | | |].
  - unfold lmain_step in Hs. destruct (l_closed s); [discriminate|].
    destruct ((l_started s <? lane_K s)%nat && (l_started s - l_advanced s <? g_win g)%nat).
    + inversion Hs; subst s'. cbn. intros l k c' H. exists c'. auto.
    + destruct (l_advanced s <? l_started s)%nat.
      * destruct (forallb (todo_done (l_advanced s)) (l_lanes s)); [|discriminate].
        inversion Hs; subst s'. cbn [l_lanes]. intros l k c' H.
        rewrite (nth_map_fix (close_at (l_advanced s)) [] (close_at_nil _)) in H. unfold close_at in H.
        destruct (nth_error (nth l (l_lanes s) []) (l_advanced s)) as [ca|] eqn:Ea; [|exists c'; auto].
        destruct (Nat.eq_dec k (l_advanced s)) as [->|Hnk].
        -- rewrite nth_error_set_same in H by (eapply nth_error_lt; eauto). inversion H; subst c'. exists ca. auto.
        -- rewrite nth_error_set_other in H by exact Hnk. exists c'. auto.
      * destruct (lane_K s <=? l_started s)%nat; [|discriminate]. inversion Hs; subst s'. cbn. intros l k c' H. exists c'. auto.
  - eapply Hon; [|exact Hs]. intros c c'. unfold enc_step. destruct (complete_at i (c_fifo c)); [|discriminate].
    intros H; inversion H; reflexivity.
  - eapply Hon; [|exact Hs]. intros c c'. unfold write_step. destruct (c_wdone c); [discriminate|].
    destruct (c_fifo c) as [|y q].
    + destruct (c_open c); [discriminate|]. intros H; inversion H; reflexivity.
    + destruct (if g_fifo g then take_head (y :: q) else take_first_done (y :: q)) as [[x q']|]; [|discriminate].
      intros H; inversion H; reflexivity.
  - unfold lsplice_step in Hs. intros l k c' H.
    assert (Hl : l_lanes s' = l_lanes s).
    { destruct (l_ph s) as [|j|j|j|].
      - destruct (l_k s <? l_started s)%nat; [inversion Hs; reflexivity|]. destruct (l_closed s); [|discriminate]. inversion Hs; reflexivity.
      - destruct ((l_k s <? l_started s)%nat && (j <? length (l_lanes s))%nat); [|discriminate]. inversion Hs; reflexivity.
      - destruct (lane_wdone s j); [|discriminate]. inversion Hs; reflexivity.
      - destruct (lane_wdone s j); [|discriminate]. destruct (S j <? length (l_lanes s))%nat; inversion Hs; reflexivity.
      - discriminate. }
    rewrite Hl in H. exists c'. auto.
Qed.

Lemma nth_set_nth_same' {X} (x d : X) l k : (k < length l)%nat -> nth k (set_nth k x l) d = x.
Proof. apply nth_set_nth_same. Qed.

Lemma qord_step g t s s' : QOrd s -> qstep g t s = Some s' -> QOrd s'.
Proof.
  intros [HF HC] Hs. pose proof (qstep_lstep _ _ _ _ Hs) as Hl.
  pose proof (lstep_lanes_length _ _ _ _ Hl) as HLen.
  assert (Hother : q_ord s' = q_ord s -> not_prod (qtask_l t s) -> QOrd s').
  { intros Ho Hnp. split; rewrite Ho, HLen; [exact HF|].
    intros l k c' Hlt Hc'. destruct (lstep_todo _ _ _ _ Hl Hnp l k c' Hc') as [c [Hc Ht]]. rewrite Ht. apply (HC l k c Hlt Hc). }
  destruct t as [|k0|l0 k0 i|l0 k0|]; cbn [qstep] in Hs; unfold qlift in Hs.
  - apply Hother; [|exact I]. destruct (lstep g LMain (q_l s)); [|discriminate]. inversion Hs; reflexivity.
  - (* the producer of chromosome k0 submits to the lane at the head of its program *)
    clear Hother. unfold qprod_step in Hs.
    destruct (nth_error (q_ord s) k0) as [[|l0 r]|] eqn:Eo; try discriminate.
    destruct (lstep g (LProd l0 k0) (q_l s)) as [sl'|] eqn:Ep; [|discriminate]. inversion Hs; subst s'; clear Hs.
    cbn [q_l q_ord] in *. pose proof (nth_error_nth_eq _ _ _ [] Eo) as Hnth.
    pose proof (nth_error_lt _ _ _ Eo) as Hk0.
    cbn [lstep] in Ep. unfold lon_chrom in Ep. destruct (k0 <? l_started (q_l s))%nat; [|discriminate].
    destruct (nth_error (l_lanes (q_l s)) l0) as [ln|] eqn:El; [|discriminate].
    destruct (nth_error ln k0) as [c0|] eqn:Ec; [|discriminate].
    destruct (prod_step (g_cap g) c0) as [c0'|] eqn:Ef; [|discriminate]. inversion Ep; subst sl'; clear Ep.
    cbn [l_lanes] in *.
    assert (Htodo : c_todo c0 = hd {| sd_chrom := 0; sd_start := 0; sd_end := 0; sd_bytes := [] |} (c_todo c0) :: c_todo c0').
    { unfold prod_step in Ef. destruct (c_open c0); [|discriminate]. destruct (c_todo c0) as [|x r0]; [discriminate|].
      destruct (length (c_fifo c0) <? g_cap g)%nat; [|discriminate]. inversion Ef. reflexivity. }
    unfold QOrd. cbn [q_l q_ord l_lanes]. split.
    + rewrite set_nth_length. apply Forall_set_nth.
      * exact HF.
      * rewrite Forall_forall in HF. specialize (HF _ (nth_error_In _ _ Eo)). inversion HF; assumption.
    + rewrite set_nth_length. intros l k c' Hlt Hc'.
      destruct (Nat.eq_dec k k0) as [->|Hnk].
      * rewrite nth_set_nth_same by exact Hk0.
        destruct (Nat.eq_dec l l0) as [->|Hnl].
        -- rewrite nth_set_nth_same in Hc' by (eapply nth_error_lt; eauto).
           rewrite nth_error_set_same in Hc' by (eapply nth_error_lt; eauto). inversion Hc'; subst c'.
           assert (H0 : nth_error (nth l0 (l_lanes (q_l s)) []) k0 = Some c0) by (rewrite (nth_error_nth_eq _ _ _ [] El); exact Ec).
           pose proof (HC l0 k0 c0 Hlt H0) as Hcount. rewrite Hnth, Htodo in Hcount. cbn [count_occ length] in Hcount.
           destruct (Nat.eq_dec l0 l0) as [_|Hbad]; [|congruence]. lia.
        -- rewrite nth_set_nth_other in Hc' by exact Hnl.
           pose proof (HC l k0 c' Hlt Hc') as Hcount. rewrite Hnth in Hcount. cbn [count_occ] in Hcount.
           destruct (Nat.eq_dec l0 l) as [Hbad|_]; [congruence|]. exact Hcount.
      * rewrite nth_set_nth_other by exact Hnk.
        destruct (Nat.eq_dec l l0) as [->|Hnl].
        -- rewrite nth_set_nth_same in Hc' by (eapply nth_error_lt; eauto).
           rewrite nth_error_set_other in Hc' by exact Hnk.
           apply (HC l0 k c' Hlt). rewrite (nth_error_nth_eq _ _ _ [] El). exact Hc'.
        -- rewrite nth_set_nth_other in Hc' by exact Hnl. apply (HC l k c' Hlt Hc').
  - apply Hother; [|exact I]. destruct (lstep g (LEnc l0 k0 i) (q_l s)); [|discriminate]. inversion Hs; reflexivity.
  - apply Hother; [|exact I]. destruct (lstep g (LWrite l0 k0) (q_l s)); [|discriminate]. inversion Hs; reflexivity.
  - apply Hother; [|exact I]. destruct (lstep g LSplice (q_l s)); [|discriminate]. inversion Hs; reflexivity.
Qed.

Lemma qord_init Ps Sss ords : ord_ok Sss ords -> QOrd (qinit Ps Sss ords).
Proof.
  intros [HF HC]. split; cbn [qinit q_l q_ord linit l_lanes]; rewrite map_length; [exact HF|].
  intros l k c Hl Hc. rewrite (HC l k Hl).
  change (@nil chrom) with (map init_chrom []) in Hc. rewrite map_nth, nth_error_map in Hc.
  destruct (nth_error (nth l Sss []) k) as [S|] eqn:E; [|discriminate]. cbn in Hc. inversion Hc. cbn.
  rewrite (nth_error_nth_eq _ _ _ [] E). reflexivity.
Qed.

(* ---------------------------------------------------------------- the invariant of reachable states *)
Record QGood (Ps : list bytes) (Sss : list (list (list sdata))) (K : nat) (s : qst) : Prop := {
  qg_l : LGood Ps Sss K (q_l s);
  qg_ord : QOrd s }.

Lemma qgood_step g Ps Sss K t s s' : g_fifo g = true -> QGood Ps Sss K s -> qstep g t s = Some s' -> QGood Ps Sss K s'.
Proof.
  intros Hg [GL GO] Hs. split.
  - eapply lgood_step; [exact Hg|exact GL|]. eapply qstep_lstep; eauto.
  - eapply qord_step; eauto.
Qed.

Lemma qgood_run g Ps Sss K : g_fifo g = true -> forall sched s, QGood Ps Sss K s -> QGood Ps Sss K (qrun g sched s).
Proof.
  intros Hg. induction sched as [|t r IH]; intros s G; cbn [qrun]; [exact G|]. apply IH.
  unfold qstep_or_stay. destruct (qstep g t s) as [s'|] eqn:E; [eapply qgood_step; eauto|exact G].
Qed.

Lemma qgood_progress g Ps Sss K s : g_fifo g = true -> (1 <= g_cap g)%nat -> (1 <= g_win g)%nat ->
  QGood Ps Sss K s -> qterminal s = false -> exists t s', qstep g t s = Some s'.
Proof.
  intros Hg Hcap Hwin [GL [HF HC]] Ht. unfold qterminal in Ht.
  destruct (lgood_progress_strong g Ps Sss K (q_l s) Hg Hcap Hwin GL Ht) as [[t [sl' [Hs Hnp]]]|[Hc [Had [Hall Hp]]]].
  - destruct t as [|l k|l k i|l k|]; [| destruct Hnp | | |].
    + exists QMain. cbn [qstep]. rewrite Hs. eexists; reflexivity.
    + exists (QEnc l k i). cbn [qstep]. rewrite Hs. eexists; reflexivity.
    + exists (QWrite l k). cbn [qstep]. rewrite Hs. eexists; reflexivity.
    + exists QSplice. cbn [qstep]. rewrite Hs. eexists; reflexivity.
  - (* the main thread waits for producer [l_advanced]: the lane at the head of its program can be served *)
    set (a := l_advanced (q_l s)) in *.
    destruct (forallb_false _ _ Hall) as [ln [Hin Hf]].
    destruct (In_nth _ _ [] Hin) as [l [Hl Hnl]].
    pose proof (lg_L _ _ _ _ GL) as HL.
    pose proof (lgood_lane Ps Sss K (q_l s) l GL ltac:(lia)) as O.
    unfold todo_done in Hf. rewrite <- Hnl in Hf.
    destruct (nth_error (nth l (l_lanes (q_l s)) []) a) as [c|] eqn:Ec.
    2:{ exfalso. apply nth_error_None in Ec. rewrite (lo_len _ _ _ O) in Ec. pose proof (lo_started _ _ _ O). lia. }
    destruct (c_todo c) as [|x r] eqn:Et; [discriminate|].
    pose proof (HC l a c Hl Ec) as Hcount. rewrite Et in Hcount. cbn [length] in Hcount.
    destruct (nth a (q_ord s) []) as [|l0 r0] eqn:Eord; [cbn in Hcount; lia|].
    assert (Ea : nth_error (q_ord s) a = Some (l0 :: r0)).
    { destruct (nth_error (q_ord s) a) as [p|] eqn:E.
      - rewrite (nth_error_nth_eq _ _ _ [] E) in Eord. congruence.
      - apply nth_error_None in E. rewrite nth_overflow in Eord by exact E. discriminate. }
    assert (Hl0 : (l0 < length (l_lanes (q_l s)))%nat).
    { rewrite Forall_forall in HF. specialize (HF _ (nth_error_In _ _ Ea)). inversion HF; assumption. }
    pose proof (lgood_lane Ps Sss K (q_l s) l0 GL ltac:(lia)) as O0.
    destruct (nth_error (nth l0 (l_lanes (q_l s)) []) a) as [c0|] eqn:Ec0.
    2:{ exfalso. apply nth_error_None in Ec0. rewrite (lo_len _ _ _ O0) in Ec0. pose proof (lo_started _ _ _ O0). lia. }
    pose proof (HC l0 a c0 Hl0 Ec0) as Hcount0. rewrite Eord in Hcount0. cbn [count_occ] in Hcount0.
    destruct (Nat.eq_dec l0 l0) as [_|Hbad]; [|congruence].
    destruct (Hp l0 c0 Hl0 Ec0) as [sl' Hs]; [destruct (c_todo c0); [cbn in Hcount0; lia|discriminate]|].
    exists (QProd a). cbn [qstep]. unfold qprod_step. rewrite Ea, Hs. eexists; reflexivity.
Qed.

Lemma qrun_app g a : forall b s, qrun g (a ++ b) s = qrun g b (qrun g a s).
Proof. induction a as [|t r IH]; intros b s; cbn [app qrun]; [reflexivity|apply IH]. Qed.

Lemma qgood_completion g Ps Sss K : g_fifo g = true -> (1 <= g_cap g)%nat -> (1 <= g_win g)%nat -> (1 <= length Sss)%nat ->
  forall n s, (lmeasure (q_l s) <= n)%nat -> QGood Ps Sss K s -> exists more, qterminal (qrun g more s) = true.
Proof.
  intros Hg Hcap Hwin H1. induction n as [|n IH]; intros s Hm G.
  - destruct (qterminal s) eqn:Ht; [exists []; exact Ht|].
    destruct (qgood_progress g Ps Sss K s Hg Hcap Hwin G Ht) as [t [s' Hs]].
    pose proof (qg_l _ _ _ _ G) as GL. pose proof (lgood_lane Ps Sss K (q_l s) 0 GL H1) as O.
    pose proof (lstep_measure g K _ _ _ Hg (lg_w _ _ _ _ GL) (lg_ph _ _ _ _ GL) (lo_started _ _ _ O) (lo_adv _ _ _ O) (qstep_lstep _ _ _ _ Hs)). lia.
  - destruct (qterminal s) eqn:Ht; [exists []; exact Ht|].
    destruct (qgood_progress g Ps Sss K s Hg Hcap Hwin G Ht) as [t [s' Hs]].
    pose proof (qg_l _ _ _ _ G) as GL. pose proof (lgood_lane Ps Sss K (q_l s) 0 GL H1) as O.
    pose proof (lstep_measure g K _ _ _ Hg (lg_w _ _ _ _ GL) (lg_ph _ _ _ _ GL) (lo_started _ _ _ O) (lo_adv _ _ _ O) (qstep_lstep _ _ _ _ Hs)) as Hlt.
    destruct (IH s') as [more Hmore]; [lia|eapply qgood_step; eauto|].
    exists (t :: more). cbn [qrun]. unfold qstep_or_stay. rewrite Hs. exact Hmore.
Qed.

(* ---------------------------------------------------------------- the statements used by Properties/C11.v *)
Lemma qgood_init Ps Sss K ords : length Ps = length Sss -> (1 <= length Sss)%nat ->
  Forall (fun Ss => length Ss = K) Sss -> ord_ok Sss ords -> QGood Ps Sss K (qinit Ps Sss ords).
Proof. intros Hp H1 F Ho. split; [apply lgood_init; assumption|apply qord_init; exact Ho]. Qed.

(* the machine with sequential producers is the lanes machine with fewer steps: every run of it is a run of
   the lanes machine, so the per-lane safety theorems (C11_lanes_splice) hold of it *)
Theorem seq_lanes_refines : forall g Ps Sss ords sched,
  exists sched', q_l (qrun g sched (qinit Ps Sss ords)) = lrun g sched' (linit Ps Sss).
Proof. intros g Ps Sss ords sched. apply (qrun_lrun g sched (qinit Ps Sss ords)). Qed.

Theorem seq_lanes_progress : forall g Ps Sss K ords sched, g_fifo g = true -> (1 <= g_cap g)%nat -> (1 <= g_win g)%nat ->
  length Ps = length Sss -> (1 <= length Sss)%nat -> Forall (fun Ss => length Ss = K) Sss -> ord_ok Sss ords ->
  let s := qrun g sched (qinit Ps Sss ords) in
  qterminal s = false -> exists t s', qstep g t s = Some s'.
Proof.
  intros g Ps Sss K ords sched Hg Hcap Hwin Hp H1 F Ho s Ht.
  apply (qgood_progress g Ps Sss K s Hg Hcap Hwin); [|exact Ht].
  apply qgood_run; [exact Hg|]. apply qgood_init; assumption.
Qed.

Theorem seq_lanes_completion : forall g Ps Sss K ords sched, g_fifo g = true -> (1 <= g_cap g)%nat -> (1 <= g_win g)%nat ->
  length Ps = length Sss -> (1 <= length Sss)%nat -> Forall (fun Ss => length Ss = K) Sss -> ord_ok Sss ords ->
  exists more, qterminal (qrun g (sched ++ more) (qinit Ps Sss ords)) = true.
Proof.
  intros g Ps Sss K ords sched Hg Hcap Hwin Hp H1 F Ho.
  destruct (qgood_completion g Ps Sss K Hg Hcap Hwin H1 _ (qrun g sched (qinit Ps Sss ords)) (Nat.le_refl _)) as [more H].
  - apply qgood_run; [exact Hg|]. apply qgood_init; assumption.
  - exists more. rewrite qrun_app. exact H.
Qed.
