(* C06, last link, part 1: the binary64 field codec.  write_info stores the four statistics of the
   total summary as f64 bit patterns (Base/Float.v [bits_of_f64]); get_summary reads them back with
   [f64_of_bits].  For every value that IS a binary64 number (in whatever (mantissa, exponent) pair the
   model carries it; [rep64]) the pattern read back denotes the same number ([same_num]), with an
   exponent >= -1074.  NaN and the infinities come back as themselves.
   A value that is not a binary64 number is rounded by the encoder (that is outside this file). *)
From BT Require Import Base.Util Base.Float Proofs.BwSummary.
Local Open Scope Z_scope.

Definition f64_rt (x : fl) : fl := f64_of_bits (bits_of_f64 x).

(* the two values denote the same number (finite: compared at the smaller exponent) *)
Definition same_num (a b : fl) : Prop :=
  match a, b with
  | FFin m1 e1, FFin m2 e2 => m1 * 2 ^ (e1 - Z.min e1 e2) = m2 * 2 ^ (e2 - Z.min e1 e2)
  | FNaN, FNaN => True
  | FInf s, FInf t => s = t
  | _, _ => False
  end.

(* (m, e) is a binary64 number written with at most 53 significant bits *)
Definition canon64 (m e : Z) : Prop := Z.abs m < 2 ^ 53 /\ -1074 <= e /\ e + bitlen m <= 1024.
(* x is a binary64 number *)
Definition rep64 (x : fl) : Prop :=
  match x with
  | FFin m e => exists m' e', canon64 m' e' /\ same_num (FFin m e) (FFin m' e')
  | _ => True
  end.

(* ---------- same_num ---------- *)
Lemma pow_split a b : 0 <= a -> 0 <= b -> 2 ^ (a + b) = 2 ^ a * 2 ^ b.
Proof. intros. apply Z.pow_add_r; assumption. Qed.

Lemma same_num_at E m1 e1 m2 e2 : E <= e1 -> E <= e2 ->
  (same_num (FFin m1 e1) (FFin m2 e2) <-> m1 * 2 ^ (e1 - E) = m2 * 2 ^ (e2 - E)).
Proof.
  intros H1 H2. cbn [same_num]. set (mn := Z.min e1 e2).
  assert (Hm : E <= mn) by (unfold mn; lia).
  replace (e1 - E) with ((e1 - mn) + (mn - E)) by lia.
  replace (e2 - E) with ((e2 - mn) + (mn - E)) by lia.
  rewrite !pow_split by (unfold mn; lia).
  assert (Hp : 0 < 2 ^ (mn - E)) by (apply Z.pow_pos_nonneg; lia).
  split; intros H.
  - rewrite !Z.mul_assoc, H. reflexivity.
  - rewrite !Z.mul_assoc in H. apply Z.mul_reg_r in H; [exact H|lia].
Qed.

Lemma same_num_refl a : same_num a a.
Proof. destruct a; cbn [same_num]; auto. Qed.
Lemma same_num_sym a b : same_num a b -> same_num b a.
Proof.
  destruct a as [m1 e1| |s], b as [m2 e2| |t]; cbn [same_num]; auto.
  rewrite (Z.min_comm e2 e1). auto.
Qed.
Lemma same_num_trans a b c : same_num a b -> same_num b c -> same_num a c.
Proof.
  destruct a as [m1 e1| |s], b as [m2 e2| |t], c as [m3 e3| |u]; try (cbn [same_num]; tauto); [|cbn [same_num]; congruence].
  set (E := Z.min e1 (Z.min e2 e3)).
  intros H1 H2.
  apply (same_num_at E) in H1; [|unfold E; lia|unfold E; lia].
  apply (same_num_at E) in H2; [|unfold E; lia|unfold E; lia].
  apply (same_num_at E); [unfold E; lia|unfold E; lia|]. congruence.
Qed.

(* what [fval] / [fin_ge] (Proofs/BwSummary.v) see *)
Lemma same_num_fval E a b : same_num a b -> fin_ge E a -> fin_ge E b -> fval E a = fval E b.
Proof.
  destruct a as [m1 e1| |s], b as [m2 e2| |t]; cbn [fin_ge]; try tauto.
  intros H H1 H2. cbn [fval]. apply (same_num_at E); assumption.
Qed.
Lemma fval_same_num E a b : fin_ge E a -> fin_ge E b -> fval E a = fval E b -> same_num a b.
Proof.
  destruct a as [m1 e1| |s], b as [m2 e2| |t]; cbn [fin_ge]; try tauto.
  intros H1 H2 H. apply (same_num_at E); assumption.
Qed.

(* ---------- bit lengths ---------- *)
Lemma bitlen_abs m : bitlen (Z.abs m) = bitlen m.
Proof.
  unfold bitlen. rewrite Z.abs_involutive.
  destruct (Z.eqb_spec m 0) as [->|H]; [reflexivity|].
  destruct (Z.eqb_spec (Z.abs m) 0); [exfalso; lia|reflexivity].
Qed.
Lemma bitlen_pos a : 0 < a -> 2 ^ (bitlen a - 1) <= a < 2 ^ bitlen a /\ 1 <= bitlen a.
Proof.
  intros H. unfold bitlen. destruct (Z.eqb_spec a 0); [exfalso; lia|].
  rewrite Z.abs_eq by lia. pose proof (Z.log2_spec a H) as [L U]. pose proof (Z.log2_nonneg a).
  replace (Z.log2 a + 1 - 1) with (Z.log2 a) by lia. replace (Z.log2 a + 1) with (Z.succ (Z.log2 a)) by lia.
  split; [split; assumption|lia].
Qed.
Lemma bitlen_unique a n : 0 < a -> 2 ^ (n - 1) <= a < 2 ^ n -> bitlen a = n.
Proof.
  intros H [L U]. unfold bitlen. destruct (Z.eqb_spec a 0); [exfalso; lia|]. rewrite Z.abs_eq by lia.
  assert (Hn : 1 <= n).
  { destruct (Z_lt_le_dec n 1) as [C|C]; [|exact C]. exfalso.
    assert (2 ^ n <= 2 ^ 0) by (destruct (Z_lt_le_dec n 0); [rewrite Z.pow_neg_r by lia; cbn; lia|apply Z.pow_le_mono_r; lia]).
    cbn in H0. lia. }
  rewrite (Z.log2_unique a (n - 1)); [lia|lia|]. replace (Z.succ (n - 1)) with n by lia. split; assumption.
Qed.
Lemma bitlen_shift a k : 0 < a -> 0 <= k -> bitlen (a * 2 ^ k) = bitlen a + k.
Proof.
  intros H Hk. destruct (bitlen_pos a H) as [[L U] B].
  assert (P : 0 < 2 ^ k) by (apply Z.pow_pos_nonneg; lia).
  apply bitlen_unique; [nia|].
  replace (bitlen a + k - 1) with ((bitlen a - 1) + k) by lia. rewrite !pow_split by lia. split; nia.
Qed.
Lemma bitlen_le a k : 0 <= k -> Z.abs a < 2 ^ k -> bitlen a <= k.
Proof.
  intros Hk H. rewrite <- bitlen_abs. destruct (Z.eq_dec (Z.abs a) 0) as [E|E].
  - rewrite E. unfold bitlen. cbn. lia.
  - destruct (bitlen_pos (Z.abs a) ltac:(lia)) as [[L _] B].
    destruct (Z_lt_le_dec k (bitlen (Z.abs a))) as [C|C]; [|exact C]. exfalso.
    assert (2 ^ k <= 2 ^ (bitlen (Z.abs a) - 1)) by (apply Z.pow_le_mono_r; lia). lia.
Qed.
Lemma bitlen_lt_pow a : 0 <= a -> a < 2 ^ bitlen a.
Proof.
  intros H. destruct (Z.eq_dec a 0) as [->|E]; [cbn; lia|]. apply (bitlen_pos a). lia.
Qed.

(* the position of the leading bit is a property of the number *)
Lemma same_num_lead m1 e1 m2 e2 : m1 <> 0 -> same_num (FFin m1 e1) (FFin m2 e2) ->
  m2 <> 0 /\ e1 + bitlen m1 = e2 + bitlen m2 /\ (m1 <? 0) = (m2 <? 0).
Proof.
  intros H1 H. cbn [same_num] in H. set (mn := Z.min e1 e2) in *.
  assert (P1 : 0 < 2 ^ (e1 - mn)) by (apply Z.pow_pos_nonneg; unfold mn; lia).
  assert (P2 : 0 < 2 ^ (e2 - mn)) by (apply Z.pow_pos_nonneg; unfold mn; lia).
  assert (H2 : m2 <> 0) by (intros ->; nia).
  split; [exact H2|].
  assert (Ha : Z.abs m1 * 2 ^ (e1 - mn) = Z.abs m2 * 2 ^ (e2 - mn)).
  { rewrite <- (Z.abs_eq (2 ^ (e1 - mn))), <- (Z.abs_eq (2 ^ (e2 - mn))) by lia. rewrite <- !Z.abs_mul. now rewrite H. }
  split.
  - pose proof (bitlen_shift (Z.abs m1) (e1 - mn) ltac:(lia) ltac:(unfold mn; lia)) as B1.
    pose proof (bitlen_shift (Z.abs m2) (e2 - mn) ltac:(lia) ltac:(unfold mn; lia)) as B2.
    rewrite Ha, B2, !bitlen_abs in B1. lia.
  - destruct (Z.ltb_spec m1 0), (Z.ltb_spec m2 0); try reflexivity; exfalso; nia.
Qed.

(* ---------- the rounding step of the encoder is the identity on binary64 numbers ---------- *)
Lemma round_rep m e : m <> 0 -> rep64 (FFin m e) ->
  exists m2 e2, round_dy 53 (-1074) 1024 m e = FFin m2 e2 /\ m2 <> 0 /\ canon64 m2 e2 /\ same_num (FFin m2 e2) (FFin m e).
Proof.
  intros Hm (m' & e' & (C1 & C2 & C3) & Hs).
  destruct (same_num_lead _ _ _ _ Hm Hs) as (Hm' & Hlead & _).
  set (n := bitlen m) in *.
  assert (Hn' : bitlen m' <= 53) by (apply bitlen_le; [lia|exact C1]).
  destruct (bitlen_pos (Z.abs m) ltac:(lia)) as [[La Ua] Bn]. rewrite bitlen_abs in La, Ua, Bn. fold n in La, Ua, Bn.
  unfold round_dy. cbv zeta. destruct (Z.eqb_spec m 0) as [C|_]; [exfalso; exact (Hm C)|]. fold n.
  set (ex := Z.max (e + n - 53) (-1074)).
  destruct (Z.leb_spec ex e) as [Hle|Hgt].
  - (* nothing to shift *)
    destruct (Z.ltb_spec 1024 (e + bitlen m)) as [C|_]; [exfalso; fold n in C; lia|].
    destruct (Z.eqb_spec m 0) as [C|_]; [exfalso; exact (Hm C)|].
    exists m, e. split; [reflexivity|]. split; [exact Hm|]. split; [|apply same_num_refl].
    unfold canon64. fold n. split; [|unfold ex in Hle; lia].
    assert (n <= 53) by (unfold ex in Hle; lia).
    assert (2 ^ n <= 2 ^ 53) by (apply Z.pow_le_mono_r; lia). lia.
  - (* the shifted-out bits are zero *)
    set (sh := ex - e) in *. assert (Hsh : 0 < sh) by (unfold sh; lia).
    assert (He' : ex <= e') by (unfold ex; lia).
    set (a := Z.abs m) in *.
    (* a = a' * 2^(e' - e) *)
    assert (Ha : a = Z.abs m' * 2 ^ (e' - ex) * 2 ^ sh).
    { apply (same_num_at e) in Hs; [|lia|lia]. rewrite Z.sub_diag, Z.pow_0_r, Z.mul_1_r in Hs.
      unfold a. rewrite Hs, Z.abs_mul. rewrite (Z.abs_eq (2 ^ (e' - e))) by (apply Z.pow_nonneg; lia).
      rewrite <- Z.mul_assoc, <- pow_split by lia. f_equal. f_equal. unfold sh. lia. }
    set (q0 := Z.abs m' * 2 ^ (e' - ex)) in *.
    assert (Psh : 0 < 2 ^ sh) by (apply Z.pow_pos_nonneg; lia).
    assert (Hq0 : 0 < q0) by (unfold q0; assert (0 < 2 ^ (e' - ex)) by (apply Z.pow_pos_nonneg; lia); nia).
    assert (Eq : Z.shiftr a sh = q0) by (rewrite Z.shiftr_div_pow2 by lia; rewrite Ha; apply Z.div_mul; lia).
    rewrite Eq. rewrite (Z.shiftl_mul_pow2 q0 sh) by lia. rewrite (Z.shiftl_mul_pow2 1 (sh - 1)) by lia.
    rewrite <- Ha. rewrite Z.sub_diag.
    assert (Ph : 0 < 1 * 2 ^ (sh - 1)) by (apply Z.mul_pos_pos; [lia|apply Z.pow_pos_nonneg; lia]).
    destruct (Z.ltb_spec (1 * 2 ^ (sh - 1)) 0) as [C|_]; [exfalso; lia|].
    destruct (Z.eqb_spec 0 (1 * 2 ^ (sh - 1))) as [C|_]; [exfalso; lia|].
    set (m2 := if m <? 0 then - q0 else q0).
    assert (Hm2 : m2 <> 0) by (unfold m2; destruct (m <? 0); lia).
    assert (Ham2 : Z.abs m2 = q0) by (unfold m2; destruct (m <? 0); lia).
    assert (Bq : bitlen m2 = n - sh).
    { pose proof (bitlen_shift q0 sh Hq0 ltac:(lia)) as B. rewrite <- Ha in B. unfold a in B. rewrite bitlen_abs in B. fold n in B.
      rewrite <- bitlen_abs, Ham2. lia. }
    destruct (Z.ltb_spec 1024 (ex + bitlen m2)) as [C|_]; [exfalso; rewrite Bq in C; unfold sh in C; lia|].
    destruct (Z.eqb_spec m2 0) as [C|_]; [exfalso; exact (Hm2 C)|].
    exists m2, ex. split; [reflexivity|]. split; [exact Hm2|]. split.
    + unfold canon64. rewrite Bq. split; [|unfold sh, ex; lia].
      rewrite Ham2. assert (B53 : bitlen q0 <= 53) by (rewrite <- Ham2, bitlen_abs, Bq; unfold sh, ex; lia).
      pose proof (bitlen_lt_pow q0 ltac:(lia)). assert (2 ^ bitlen q0 <= 2 ^ 53) by (apply Z.pow_le_mono_r; lia). lia.
    + apply (same_num_at e); [lia|lia|]. rewrite Z.sub_diag, Z.pow_0_r, Z.mul_1_r. fold sh.
      unfold m2. destruct (Z.ltb_spec m 0); unfold a in Ha; nia.
Qed.

(* ---------- the three fields of a pattern ---------- *)
Lemma fields s ex frac : 0 <= frac < 4503599627370496 -> 0 <= ex < 2048 -> s = 0 \/ s = 1 ->
  let b := s * 9223372036854775808 + ex * 4503599627370496 + frac in
  0 <= b /\ b mod 4503599627370496 = frac /\ (b / 4503599627370496) mod 2048 = ex /\ (b / 9223372036854775808) mod 2 = s.
Proof.
  intros Hf He Hs b. unfold b. split; [lia|]. split; [|split].
  - Z.div_mod_to_equations. lia.
  - Z.div_mod_to_equations. lia.
  - Z.div_mod_to_equations. lia.
Qed.

Lemma land52 x : Z.land x (Z.shiftl 1 52 - 1) = x mod 4503599627370496.
Proof. change (Z.shiftl 1 52 - 1) with (Z.ones 52). rewrite Z.land_ones by lia. reflexivity. Qed.
Lemma land11 x : Z.land x (Z.shiftl 1 11 - 1) = x mod 2048.
Proof. change (Z.shiftl 1 11 - 1) with (Z.ones 11). rewrite Z.land_ones by lia. reflexivity. Qed.

Lemma decode64 b : 0 <= b ->
  f64_of_bits (Z.to_N b) =
    let frac := b mod 4503599627370496 in
    let ex := (b / 4503599627370496) mod 2048 in
    let neg := Z.testbit b 63 in
    if ex =? 2047 then (if frac =? 0 then FInf neg else FNaN)
    else
      let m := if ex =? 0 then frac else frac + 4503599627370496 in
      let e := (if ex =? 0 then 1 else ex) - 1023 - 52 in
      if m =? 0 then FFin 0 0 else FFin (if neg then - m else m) e.
Proof.
  intros Hb. unfold f64_of_bits, decode_bits. cbv zeta. rewrite Z2N.id by exact Hb.
  rewrite !land52, !land11. rewrite Z.shiftr_div_pow2 by lia. reflexivity.
Qed.

Lemma testbit63 b s : 0 <= b -> (b / 9223372036854775808) mod 2 = s -> Z.testbit b 63 = (s =? 1).
Proof.
  intros Hb H. destruct (Z.testbit b 63) eqn:E.
  - apply Z.testbit_true in E; [|lia]. change (2 ^ 63) with 9223372036854775808 in E. rewrite E in H. now subst.
  - apply Z.testbit_false in E; [|lia]. change (2 ^ 63) with 9223372036854775808 in E. rewrite E in H. now subst.
Qed.

(* ---------- encode, then decode, a canonical non-zero pair ---------- *)
Lemma encode64 m e : m <> 0 -> round_dy 53 (-1074) 1024 m e = FFin m e ->
  bits_of_f64 (FFin m e) =
    let sgn := if m <? 0 then Z.shiftl 1 63 else 0 in
    let a := Z.abs m in
    let n := bitlen a in
    let E := e + n - 1 in
    if E <? -1022 then Z.to_N (sgn + Z.shiftl a (e + 1074))
    else Z.to_N (sgn + Z.shiftl (E + 1023) 52 + (Z.shiftl a (53 - n) - Z.shiftl 1 52)).
Proof.
  intros Hm Hr. unfold bits_of_f64, encode_bits.
  change (52 + 1) with 53. change (1 - (Z.shiftl 1 (11 - 1) - 1) - 52) with (-1074).
  change (Z.shiftl 1 (11 - 1) - 1 + 1) with 1024. rewrite Hr.
  destruct (Z.eqb_spec m 0) as [C|_]; [exfalso; exact (Hm C)|]. reflexivity.
Qed.

Lemma canon_roundtrip m e : m <> 0 -> canon64 m e -> round_dy 53 (-1074) 1024 m e = FFin m e ->
  exists m3 e3, f64_rt (FFin m e) = FFin m3 e3 /\ -1074 <= e3 /\ same_num (FFin m3 e3) (FFin m e)
                /\ (bits_of_f64 (FFin m e) < 18446744073709551616)%N.
Proof.
  intros Hm (C1 & C2 & C3) Hr. unfold f64_rt. rewrite (encode64 m e Hm Hr). cbv zeta.
  set (a := Z.abs m). assert (Ha : 0 < a) by (unfold a; lia).
  set (n := bitlen a). assert (Hn : n = bitlen m) by (unfold n, a; apply bitlen_abs).
  destruct (bitlen_pos a Ha) as [[La Ua] Bn]. fold n in La, Ua, Bn.
  assert (Hn53 : n <= 53) by (rewrite Hn; apply bitlen_le; [lia|exact C1]).
  set (s := if m <? 0 then 1 else 0).
  assert (Hsg : (if m <? 0 then Z.shiftl 1 63 else 0) = s * 9223372036854775808) by (unfold s; destruct (m <? 0); reflexivity).
  assert (Hs01 : s = 0 \/ s = 1) by (unfold s; destruct (m <? 0); auto).
  assert (Hsm : m = if s =? 1 then - a else a).
  { unfold s, a. destruct (Z.ltb_spec m 0); [change (1 =? 1) with true|change (0 =? 1) with false]; cbv iota; lia. }
  rewrite Hsg.
  destruct (Z.ltb_spec (e + n - 1) (-1022)) as [Hsub|Hnorm].
  - (* subnormal *)
    rewrite Z.shiftl_mul_pow2 by lia. set (frac := a * 2 ^ (e + 1074)).
    assert (Pk : 0 < 2 ^ (e + 1074)) by (apply Z.pow_pos_nonneg; lia).
    assert (Hf : 0 < frac < 4503599627370496).
    { unfold frac. split; [nia|]. change 4503599627370496 with (2 ^ 52).
      assert (a * 2 ^ (e + 1074) < 2 ^ n * 2 ^ (e + 1074)) by nia.
      rewrite <- pow_split in H by lia. assert (2 ^ (n + (e + 1074)) <= 2 ^ 52) by (apply Z.pow_le_mono_r; lia). lia. }
    destruct (fields s 0 frac ltac:(lia) ltac:(lia) Hs01) as (B0 & B1 & B2 & B3). cbv zeta in B0, B1, B2, B3.
    replace (s * 9223372036854775808 + frac) with (s * 9223372036854775808 + 0 * 4503599627370496 + frac) by lia.
    rewrite (decode64 _ B0). cbv zeta. rewrite B1, B2, (testbit63 _ s B0 B3).
    cbn [Z.eqb]. destruct (Z.eqb_spec frac 0) as [C|_]; [exfalso; lia|].
    eexists _, _. split; [reflexivity|]. split; [cbn; lia|]. split; [|lia].
    apply (same_num_at (-1074)); [cbn; lia|lia|]. change (1 - 1023 - 52 - -1074) with 0. rewrite Z.pow_0_r, Z.mul_1_r.
    replace (e - -1074) with (e + 1074) by lia. rewrite Hsm. unfold frac. destruct (s =? 1); lia.
  - (* normal *)
    rewrite !Z.shiftl_mul_pow2 by lia. change (1 * 2 ^ 52) with 4503599627370496. change (2 ^ 52) with 4503599627370496.
    set (M := a * 2 ^ (53 - n)).
    assert (Pk : 0 < 2 ^ (53 - n)) by (apply Z.pow_pos_nonneg; lia).
    assert (HM : 4503599627370496 <= M < 9007199254740992).
    { assert (E52 : 4503599627370496 = 2 ^ (n - 1) * 2 ^ (53 - n)) by (rewrite <- pow_split by lia; replace (n - 1 + (53 - n)) with 52 by lia; reflexivity).
      assert (E53 : 9007199254740992 = 2 ^ n * 2 ^ (53 - n)) by (rewrite <- pow_split by lia; replace (n + (53 - n)) with 53 by lia; reflexivity).
      unfold M. rewrite E52, E53. split; [apply Z.mul_le_mono_nonneg_r; lia|apply Z.mul_lt_mono_pos_r; lia]. }
    set (ex := e + n - 1 + 1023). assert (Hex : 1 <= ex < 2047) by (unfold ex; rewrite Hn; lia).
    destruct (fields s ex (M - 4503599627370496) ltac:(lia) ltac:(lia) Hs01) as (B0 & B1 & B2 & B3). cbv zeta in B0, B1, B2, B3.
    rewrite (decode64 _ B0). cbv zeta. rewrite B1, B2, (testbit63 _ s B0 B3).
    destruct (Z.eqb_spec ex 2047) as [C|_]; [exfalso; lia|]. destruct (Z.eqb_spec ex 0) as [C|_]; [exfalso; lia|].
    replace (M - 4503599627370496 + 4503599627370496) with M by lia.
    destruct (Z.eqb_spec M 0) as [C|_]; [exfalso; lia|].
    eexists _, _. split; [reflexivity|]. split; [unfold ex; lia|]. split; [|fold ex; lia].
    apply (same_num_at (e + n - 53)); [unfold ex; lia|lia|].
    replace (ex - 1023 - 52 - (e + n - 53)) with 0 by (unfold ex; lia). rewrite Z.pow_0_r, Z.mul_1_r.
    replace (e - (e + n - 53)) with (53 - n) by lia. rewrite Hsm. unfold M. destruct (s =? 1); lia.
Qed.

(* rounding a canonical pair again changes nothing *)
Lemma round_canon m e : m <> 0 -> canon64 m e -> round_dy 53 (-1074) 1024 m e = FFin m e.
Proof.
  intros Hm (C1 & C2 & C3). unfold round_dy.
  destruct (Z.eqb_spec m 0) as [C|_]; [exfalso; exact (Hm C)|].
  assert (Hn : bitlen m <= 53) by (apply bitlen_le; [lia|exact C1]).
  destruct (Z.leb_spec (Z.max (e + bitlen m - 53) (-1074)) e) as [_|C]; [|exfalso; lia].
  destruct (Z.ltb_spec 1024 (e + bitlen m)) as [C|_]; [exfalso; lia|].
  destruct (Z.eqb_spec m 0) as [C|_]; [exfalso; exact (Hm C)|]. reflexivity.
Qed.

(* the encoder rounds first: the pattern of a value is the pattern of its rounding *)
Lemma bits_of_rounded m e m2 e2 : m2 <> 0 -> canon64 m2 e2 ->
  round_dy 53 (-1074) 1024 m e = FFin m2 e2 -> bits_of_f64 (FFin m e) = bits_of_f64 (FFin m2 e2).
Proof.
  intros Hm2 Hc Hr. pose proof (round_canon m2 e2 Hm2 Hc) as Hr2.
  unfold bits_of_f64, encode_bits.
  change (52 + 1) with 53. change (1 - (Z.shiftl 1 (11 - 1) - 1) - 52) with (-1074).
  change (Z.shiftl 1 (11 - 1) - 1 + 1) with 1024. rewrite Hr, Hr2. reflexivity.
Qed.

(* ---------- the codec theorem ---------- *)
Theorem f64_roundtrip x : rep64 x ->
  same_num (f64_rt x) x /\ match x with FFin _ _ => fin_ge (-1074) (f64_rt x) | _ => f64_rt x = x end
  /\ (bits_of_f64 x < 18446744073709551616)%N.
Proof.
  destruct x as [m e| |s]; intros Hrep.
  - destruct (Z.eq_dec m 0) as [->|Hm].
    + assert (E : bits_of_f64 (FFin 0 e) = 0%N).
      { unfold bits_of_f64, encode_bits, round_dy. cbn [Z.eqb]. reflexivity. }
      unfold f64_rt. rewrite E. replace (f64_of_bits 0) with (FFin 0 0) by (vm_compute; reflexivity).
      split; [cbn [same_num]; lia|]. split; [cbn; lia|lia].
    + destruct (round_rep m e Hm Hrep) as (m2 & e2 & Hr & Hm2 & Hc2 & Hs2).
      destruct (canon_roundtrip m2 e2 Hm2 Hc2 (round_canon m2 e2 Hm2 Hc2)) as (m3 & e3 & E3 & He3 & Hs3 & Hb3).
      unfold f64_rt in *. rewrite (bits_of_rounded m e m2 e2 Hm2 Hc2 Hr), E3.
      split; [eapply same_num_trans; eassumption|]. split; [cbn [fin_ge]; exact He3|exact Hb3].
  - split; [|split; vm_compute; reflexivity]. replace (f64_rt FNaN) with FNaN by (vm_compute; reflexivity). exact I.
  - split; [|split; destruct s; vm_compute; reflexivity].
    replace (f64_rt (FInf s)) with (FInf s) by (destruct s; vm_compute; reflexivity). reflexivity.
Qed.

(* ---------- what the summary fields hold ---------- *)
(* whole numbers below 2^53 (bigBed: bases, depth sums) *)
Lemma rep64_N n : (n < 2 ^ 53)%N -> rep64 (f_of_N n).
Proof.
  intros H. unfold f_of_N. exists (Z.of_N n), 0. split; [|apply same_num_refl].
  assert (Hz : Z.abs (Z.of_N n) < 2 ^ 53) by (change (2 ^ 53) with (Z.of_N (2 ^ 53)%N); lia).
  split; [exact Hz|]. split; [lia|]. pose proof (bitlen_le (Z.of_N n) 53 ltac:(lia) Hz). lia.
Qed.

Lemma rep64_zero : rep64 (FFin 0 0).
Proof. exists 0, 0. split; [|apply same_num_refl]. unfold canon64. vm_compute. repeat split; discriminate. Qed.

Lemma land23 x : Z.land x (Z.shiftl 1 23 - 1) = x mod 8388608.
Proof. change (Z.shiftl 1 23 - 1) with (Z.ones 23). rewrite Z.land_ones by lia. reflexivity. Qed.
Lemma land8 x : Z.land x (Z.shiftl 1 8 - 1) = x mod 256.
Proof. change (Z.shiftl 1 8 - 1) with (Z.ones 8). rewrite Z.land_ones by lia. reflexivity. Qed.

(* every finite binary32 pattern (the stored values: bigWig extremes) *)
Lemma rep64_f32 b : match f32_of_bits b with FFin m e => rep64 (FFin m e) | _ => True end.
Proof.
  unfold f32_of_bits, decode_bits. cbv zeta.
  rewrite !land23, !land8.
  set (frac := Z.of_N b mod 8388608). set (ex := Z.shiftr (Z.of_N b) 23 mod 256).
  assert (Hf : 0 <= frac < 8388608) by (apply Z.mod_pos_bound; lia).
  assert (Hx : 0 <= ex < 256) by (apply Z.mod_pos_bound; lia).
  change (Z.shiftl 1 8 - 1) with 255. change (Z.shiftl 1 (8 - 1) - 1) with 127. change (Z.shiftl 1 23) with 8388608.
  destruct (Z.eqb_spec ex 255) as [_|Hx255]; [destruct (frac =? 0); exact I|].
  set (m := if ex =? 0 then frac else frac + 8388608).
  set (e := (if ex =? 0 then 1 else ex) - 127 - 23).
  assert (Hm : 0 <= m < 2 ^ 24) by (unfold m; change (2 ^ 24) with 16777216; destruct (ex =? 0); lia).
  assert (He : -149 <= e <= 104) by (unfold e; destruct (Z.eqb_spec ex 0); lia).
  destruct (Z.eqb_spec m 0) as [_|Hm0].
  - exact rep64_zero.
  - set (m1 := if Z.testbit (Z.of_N b) (8 + 23) then - m else m).
    exists m1, e. split; [|apply same_num_refl].
    assert (Ha : Z.abs m1 = m) by (unfold m1; destruct (Z.testbit _ _); lia).
    assert (Hb : bitlen m1 <= 24) by (apply bitlen_le; [lia|rewrite Ha; lia]).
    unfold canon64. rewrite Ha. assert (2 ^ 24 < 2 ^ 53) by (apply Z.pow_lt_mono_r; lia). lia.
Qed.

Lemma rep64_f64_max : rep64 f64_max.
Proof. exists (Z.shiftl 1 53 - 1), 971. split; [|apply same_num_refl]. unfold canon64. vm_compute. repeat split; discriminate. Qed.
Lemma rep64_f64_min : rep64 f64_min.
Proof. exists (- (Z.shiftl 1 53 - 1)), 971. split; [|apply same_num_refl]. unfold canon64. vm_compute. repeat split; discriminate. Qed.

(* representability is a property of the number *)
Lemma rep64_same a b : same_num a b -> rep64 b -> rep64 a.
Proof.
  destruct a as [m1 e1| |s], b as [m2 e2| |t]; try (cbn [same_num rep64]; tauto).
  intros H (m' & e' & Hc & Hs). exists m', e'. split; [exact Hc|]. eapply same_num_trans; [exact H|exact Hs].
Qed.

(* non-vacuity: 0.1f32 widened, -2.5, the largest and the smallest positive binary64 *)
Example f64_roundtrip_examples :
  f64_rt (f32_of_bits 1036831949) = FFin 7205759511166976 (-56)
  /\ f64_rt (FFin (-5) (-1)) = FFin (-5629499534213120) (-51)
  /\ f64_rt f64_max = f64_max /\ f64_rt (FFin 1 (-1074)) = FFin 1 (-1074)
  /\ f64_rt (FFin 3 60) = FFin 6755399441055744 9.
Proof. vm_compute. repeat split. Qed.

(* ---------- every pattern the encoder emits fits the 8-byte field ---------- *)
(* what the encoder's rounding step can return *)
Lemma round_out m e : match round_dy 53 (-1074) 1024 m e with
  | FFin m2 e2 => m2 = 0 \/ (Z.abs m2 <= 2 ^ 53 /\ -1074 <= e2 /\ e2 + bitlen m2 <= 1024)
  | _ => True end.
Proof.
  unfold round_dy. cbv zeta. destruct (Z.eqb_spec m 0) as [_|Hm]; [left; reflexivity|].
  set (n := bitlen m). set (ex := Z.max (e + n - 53) (-1074)).
  destruct (bitlen_pos (Z.abs m) ltac:(lia)) as [[La Ua] Bn]. rewrite bitlen_abs in La, Ua, Bn. fold n in La, Ua, Bn.
  destruct (Z.leb_spec ex e) as [Hle|Hgt].
  - destruct (Z.ltb_spec 1024 (e + bitlen m)) as [_|Hov]; [exact I|].
    destruct (Z.eqb_spec m 0) as [_|_]; [left; reflexivity|]. right. fold n in Hov.
    assert (n <= 53) by (unfold ex in Hle; lia). assert (2 ^ n <= 2 ^ 53) by (apply Z.pow_le_mono_r; lia).
    split; [lia|]. split; [unfold ex in Hle; lia|exact Hov].
  - set (sh := ex - e). assert (Hsh : 0 < sh) by (unfold sh; lia).
    set (a := Z.abs m) in *. set (q := Z.shiftr a sh).
    assert (Hq : 0 <= q < 2 ^ 53).
    { unfold q. rewrite Z.shiftr_div_pow2 by lia. assert (Psh : 0 < 2 ^ sh) by (apply Z.pow_pos_nonneg; lia).
      split; [apply Z.div_pos; lia|]. apply Z.div_lt_upper_bound; [lia|].
      destruct (Z_lt_le_dec n sh) as [C|C].
      - assert (2 ^ n <= 2 ^ sh) by (apply Z.pow_le_mono_r; lia). assert (0 < 2 ^ 53) by (apply Z.pow_pos_nonneg; lia). nia.
      - assert (E : 2 ^ n = 2 ^ sh * 2 ^ (n - sh)) by (rewrite <- pow_split by lia; f_equal; lia).
        assert (2 ^ (n - sh) <= 2 ^ 53) by (apply Z.pow_le_mono_r; unfold sh, ex; lia).
        rewrite E in Ua. nia. }
    match goal with |- context [1024 <? ex + bitlen ?M] => set (m2 := M) end.
    assert (Hm2 : Z.abs m2 <= 2 ^ 53).
    { unfold m2. repeat match goal with |- context [if ?c then _ else _] => destruct c end; lia. }
    destruct (Z.ltb_spec 1024 (ex + bitlen m2)) as [_|Hov]; [exact I|].
    destruct (Z.eqb_spec m2 0) as [_|_]; [left; reflexivity|]. right.
    split; [exact Hm2|]. split; [unfold ex; lia|exact Hov].
Qed.

Lemma encode_bound m e : m <> 0 -> Z.abs m <= 2 ^ 53 -> -1074 <= e -> e + bitlen m <= 1024 ->
  let sgn := if m <? 0 then Z.shiftl 1 63 else 0 in
  let a := Z.abs m in
  let n := bitlen a in
  let E := e + n - 1 in
  let b := if E <? -1022 then Z.to_N (sgn + Z.shiftl a (e + 1074))
           else Z.to_N (sgn + Z.shiftl (E + 1023) 52 + (Z.shiftl a (53 - n) - Z.shiftl 1 52)) in
  (b < 18446744073709551616)%N.
Proof.
  intros Hm C1 C2 C3. cbv zeta.
  set (a := Z.abs m). assert (Ha : 0 < a) by (unfold a; lia).
  set (n := bitlen a). assert (Hn : n = bitlen m) by (unfold n, a; apply bitlen_abs).
  destruct (bitlen_pos a Ha) as [[La Ua] Bn]. fold n in La, Ua, Bn.
  assert (Hsg : 0 <= (if m <? 0 then Z.shiftl 1 63 else 0) <= 9223372036854775808) by (destruct (m <? 0); cbn; lia).
  set (sg := if m <? 0 then Z.shiftl 1 63 else 0) in *.
  destruct (Z.ltb_spec (e + n - 1) (-1022)) as [Hsub|Hnorm].
  - rewrite Z.shiftl_mul_pow2 by lia.
    assert (Pk : 0 < 2 ^ (e + 1074)) by (apply Z.pow_pos_nonneg; lia).
    assert (a * 2 ^ (e + 1074) < 2 ^ n * 2 ^ (e + 1074)) by nia.
    rewrite <- pow_split in H by lia. assert (2 ^ (n + (e + 1074)) <= 2 ^ 52) by (apply Z.pow_le_mono_r; lia).
    change (2 ^ 52) with 4503599627370496 in H0. lia.
  - rewrite (Z.shiftl_mul_pow2 (e + n - 1 + 1023) 52) by lia. change (2 ^ 52) with 4503599627370496. change (Z.shiftl 1 52) with 4503599627370496.
    assert (HM : Z.shiftl a (53 - n) <= 9007199254740992).
    { destruct (Z_le_gt_dec n 53) as [C|C].
      - rewrite Z.shiftl_mul_pow2 by lia.
        assert (E53 : 9007199254740992 = 2 ^ n * 2 ^ (53 - n)) by (rewrite <- pow_split by lia; replace (n + (53 - n)) with 53 by lia; reflexivity).
        rewrite E53. apply Z.mul_le_mono_nonneg_r; [apply Z.pow_nonneg|]; lia.
      - (* n = 54: a = 2^53 *)
        assert (n <= 54).
        { destruct (Z_le_gt_dec n 54) as [D|D]; [exact D|exfalso].
          assert (2 ^ 54 <= 2 ^ (n - 1)) by (apply Z.pow_le_mono_r; lia).
          assert (2 ^ 53 < 2 ^ 54) by (apply Z.pow_lt_mono_r; lia). fold a in C1. lia. }
        replace (53 - n) with (- 1) by lia. rewrite Z.shiftl_div_pow2 by lia. change (2 ^ - -1) with 2.
        fold a in C1. change (2 ^ 53) with 9007199254740992 in C1. Z.div_mod_to_equations. lia. }
    assert (0 <= Z.shiftl a (53 - n)) by (apply Z.shiftl_nonneg; lia).
    rewrite Hn in *. lia.
Qed.

Theorem bits_of_f64_bound x : (bits_of_f64 x < 18446744073709551616)%N.
Proof.
  destruct x as [m e| |s]; [|vm_compute; reflexivity|destruct s; vm_compute; reflexivity].
  unfold bits_of_f64, encode_bits.
  change (52 + 1) with 53. change (1 - (Z.shiftl 1 (11 - 1) - 1) - 52) with (-1074).
  change (Z.shiftl 1 (11 - 1) - 1 + 1) with 1024.
  pose proof (round_out m e) as Hr. destruct (round_dy 53 (-1074) 1024 m e) as [m2 e2| |s].
  - destruct (Z.eqb_spec m2 0) as [_|Hm2]; [reflexivity|].
    destruct Hr as [C|(C1 & C2 & C3)]; [exfalso; exact (Hm2 C)|].
    exact (encode_bound m2 e2 Hm2 C1 C2 C3).
  - vm_compute. reflexivity.
  - destruct s; vm_compute; reflexivity.
Qed.
