(* C16, through the file bytes: the converters of Model/CliFile.v (text -> bytes of the written file -> text) composed from
   the text layer (Proofs/CliTextRoundtrip.v, CliPipeline.v), the writers' accept rules (C13: Proofs/AcceptRules.v,
   WriterTotal.v, WriterTotalBed.v) and the whole-file read theorems (C01: Proofs/BigWigFileThms.v, BigWigFileInput.v;
   C02/C04: Proofs/BedZoomFit.v written_file_roundtrip / written_file_query).  Nothing about the file format is re-proved
   here; the only lemma about another property's model is [bb_written_is_bigbed] (the file type field of a written bigBed,
   which the exported C02 statement does not mention and BigBedRead::open tests). *)
From BT Require Import Base.Util Base.LE Base.Float Generated.Consts Model.RTree Model.BBIFile Model.BigWigWrite Model.BBIRead
  Model.AutoSql Model.BigBedWrite Model.BBIReadBed Model.CliText Model.CliFile.
From BT Require Import Proofs.RTreeCodec Proofs.FileRegions Proofs.BigWigFile Proofs.BigWigQuery Proofs.BigWigFileChroms Proofs.BigWigFileRoundTrip
  Proofs.BigWigFileThms Proofs.BigWigFileInput.
From BT Require Import Proofs.CliTextRoundtrip Proofs.CliQuery Proofs.CliPipeline.
From BT Require Model.Accept Model.AcceptBed Proofs.AcceptRules Proofs.WriterTotal Proofs.WriterTotalBed Proofs.AutoSqlStore.
From BT Require Proofs.BedQuery Proofs.BedCodec Proofs.BedReadInfo Proofs.BedEndToEnd Proofs.BedZoomFit Proofs.C09BedFile.
Local Open Scope N_scope.

(* ------------------------------------------------------------------ small list facts *)
Lemma Forall2_of_maps {A B K} (f : A -> K) (g : B -> K) (P : A -> B -> Prop) : forall l1 l2,
  map f l1 = map g l2 -> (forall a b, In a l1 -> In b l2 -> f a = g b -> P a b) -> Forall2 P l1 l2.
Proof.
  induction l1 as [|a l1 IH]; intros [|b l2] E H; try discriminate E; [constructor|].
  cbn [map] in E. injection E as E1 E2. constructor.
  - apply H; [now left|now left|exact E1].
  - apply IH; [exact E2|]. intros a' b' Ha Hb. apply H; now right.
Qed.

Lemma filter_flat_map {A B} (p : B -> bool) (f : A -> list B) l :
  filter p (flat_map f l) = flat_map (fun x => filter p (f x)) l.
Proof. induction l as [|x l IH]; [reflexivity|]. cbn [flat_map]. now rewrite filter_app, IH. Qed.

Lemma filter_map_comm {A B} (p : B -> bool) (f : A -> B) l : filter p (map f l) = map f (filter (fun x => p (f x)) l).
Proof. induction l as [|x l IH]; [reflexivity|]. cbn [map filter]. destruct (p (f x)); cbn [map]; now rewrite IH. Qed.

Lemma flat_map_ext_in {A B} (f g : A -> list B) l : (forall x, In x l -> f x = g x) -> flat_map f l = flat_map g l.
Proof.
  induction l as [|x l IH]; intros H; [reflexivity|]. cbn [flat_map]. rewrite (H x (or_introl eq_refl)). f_equal.
  apply IH. intros y Hy. apply H. now right.
Qed.

(* ------------------------------------------------------------------ the reading loop of the two text writers *)
Section ToolRead.
Context {X R : Type}.
Variable interval : name -> N -> N -> res (list X).

Definition one_chrom (ci : chrom_info) (s e : N) : res (list (name * X)) :=
  do vs <- interval (ci_name ci) s e; Ok (map (fun v => (ci_name ci, v)) vs).

Lemma tool_read_file_unfold i chrom start fin :
  tool_read_file interval i chrom start fin =
  match chrom with
  | None =>
      match start, fin with
      | None, None => do parts <- mapM (fun ci => one_chrom ci 0 (ci_len ci)) (i_chroms i); Ok (concat parts)
      | _, _ => Ok []
      end
  | Some c =>
      match find (fun ci => name_eqb (ci_name ci) c) (i_chroms i) with
      | None => Ok []
      | Some ci => one_chrom ci (match start with Some s => s | None => 0 end) (match fin with Some e => e | None => ci_len ci end)
      end
  end.
Proof. reflexivity. Qed.

(* every chromosome of the table, in table order: [nm r] / [ans r] are the name and the full-span answer of the r-th one *)
Lemma read_all_chroms (nm : R -> name) (ans : R -> list X) : forall chroms rs,
  Forall2 (fun ci r => ci_name ci = nm r /\ interval (nm r) 0 (ci_len ci) = Ok (ans r)) chroms rs ->
  mapM (fun ci => one_chrom ci 0 (ci_len ci)) chroms = Ok (map (fun r => map (fun v => (nm r, v)) (ans r)) rs).
Proof.
  induction 1 as [|ci r chroms rs [Hn Hq] _ IH]; [reflexivity|].
  cbn [mapM map]. unfold one_chrom at 1. rewrite Hn, Hq. cbn [rbind]. rewrite IH. reflexivity.
Qed.

Lemma tool_read_file_all (nm : R -> name) (ans : R -> list X) i rs :
  Forall2 (fun ci r => ci_name ci = nm r /\ interval (nm r) 0 (ci_len ci) = Ok (ans r)) (i_chroms i) rs ->
  tool_read_file interval i None None None = Ok (flat_map (fun r => map (fun v => (nm r, v)) (ans r)) rs).
Proof.
  intros H. rewrite tool_read_file_unfold, (read_all_chroms nm ans _ _ H). cbn [rbind].
  now rewrite flat_map_concat_map.
Qed.

(* --start / --end without --chrom: nothing is written *)
Lemma tool_read_file_no_chrom i st en : (st <> None \/ en <> None) -> tool_read_file interval i None st en = Ok [].
Proof. intros H. rewrite tool_read_file_unfold. destruct st, en; try reflexivity. destruct H as [H|H]; congruence. Qed.

(* --chrom c, c not in the table: nothing is written *)
Lemma tool_read_file_absent i c st en : ~ In c (map ci_name (i_chroms i)) -> tool_read_file interval i (Some c) st en = Ok [].
Proof.
  intros H. rewrite tool_read_file_unfold.
  destruct (find (fun ci => name_eqb (ci_name ci) c) (i_chroms i)) as [ci|] eqn:E; [|reflexivity].
  apply find_some in E as [Hin Hn]. apply BigWigFileChroms.name_eqb_eq in Hn. exfalso. apply H. rewrite <- Hn. now apply in_map.
Qed.

(* --chrom c, c in the table with length len: one get_interval(c, start or 0, end or len) *)
Lemma tool_read_file_chrom i c len st en :
  In c (map ci_name (i_chroms i)) -> (forall ci, In ci (i_chroms i) -> ci_name ci = c -> ci_len ci = len) ->
  tool_read_file interval i (Some c) st en =
  do vs <- interval c (match st with Some s => s | None => 0 end) (match en with Some e => e | None => len end);
  Ok (map (fun v => (c, v)) vs).
Proof.
  intros Hin Hlen. rewrite tool_read_file_unfold.
  destruct (find (fun ci => name_eqb (ci_name ci) c) (i_chroms i)) as [ci|] eqn:E.
  - apply find_some in E as [Hci Hn]. apply BigWigFileChroms.name_eqb_eq in Hn.
    unfold one_chrom. rewrite (Hlen ci Hci Hn), Hn. reflexivity.
  - exfalso. apply in_map_iff in Hin as [ci [Hn Hci]].
    pose proof (find_none _ _ E ci Hci) as Hf. cbv beta in Hf. rewrite Hn, name_eqb_refl in Hf. discriminate.
Qed.
End ToolRead.

(* ================================================================== bedGraph -> bigWig -> bedGraph *)
(* K1 (C01's known finding): a zero-length value at position 0 or at the end of its chromosome is written and not read back *)
Definition bzero (sizes : list (name * N)) (it : item) : bool := boundary_zero (len_of sizes (fst it)) (snd it).

Lemma runs_is_runs_g (l : list item) : runs l = runs_g l.
Proof. reflexivity. Qed.

Lemma runs_flat (l : list item) : flat_map (fun r => map (fun v => (fst r, v)) (snd r)) (runs l) = l.
Proof. rewrite runs_is_runs_g. apply runs_flatten. Qed.

Lemma expected_names sizes inp : map ci_name (expected_chroms sizes inp) = map fst (runs inp).
Proof.
  unfold expected_chroms. rewrite map_map.
  transitivity (map fst (number 0 (map fst (runs inp)))); [apply map_ext; intros [k id]; reflexivity|apply number_names].
Qed.
Lemma expected_len sizes inp ci : In ci (expected_chroms sizes inp) -> ci_len ci = len_of sizes (ci_name ci).
Proof. unfold expected_chroms. intros H. apply in_map_iff in H as [[k id] [<- _]]. reflexivity. Qed.

Lemma run_name_in_input (inp : list item) c vs : In (c, vs) (runs inp) -> In c (map fst inp).
Proof.
  intros H. rewrite <- (runs_flat inp).
  assert (Hne : vs <> []).
  { rewrite runs_is_runs_g in H. destruct inp as [|[c0 v0] r]; [destruct H|]. cbn [runs_g] in H.
    assert (G : forall (l : list item) cur (acc : list value) c (vs : list value), acc <> [] -> In (c, vs) (runs_aux_g cur acc l) -> vs <> []).
    { induction l as [|[c' v'] l IH]; intros cur acc c1 vs1 Ha Hin; cbn [runs_aux_g] in Hin.
      - destruct Hin as [E|[]]. inversion E; subst. intros E'. apply Ha. rewrite <- (rev_involutive acc), E'. reflexivity.
      - destruct (name_eqb c' cur).
        + apply (IH cur (v' :: acc) c1 vs1); [discriminate|exact Hin].
        + destruct Hin as [E|Hin].
          * inversion E; subst. intros E'. apply Ha. rewrite <- (rev_involutive acc), E'. reflexivity.
          * apply (IH c' [v'] c1 vs1); [discriminate|exact Hin]. }
    apply (G r c0 [v0] c vs); [discriminate|exact H]. }
  destruct vs as [|v vs']; [congruence|].
  apply in_map_iff. exists (c, v). split; [reflexivity|]. apply in_flat_map. exists (c, v :: vs'). split; [exact H|]. now left.
Qed.

Lemma no_empty_no_bzero sizes (items : list item) : Forall (fun it : item => v_start (snd it) < v_end (snd it)) items ->
  filter (fun it => negb (bzero sizes it)) items = items.
Proof.
  intros H. apply filter_all. intros it Hin. rewrite Forall_forall in H. specialize (H it Hin).
  unfold bzero, boundary_zero. replace (v_start (snd it) =? v_end (snd it)) with false; [reflexivity|].
  symmetry. apply N.eqb_neq. lia.
Qed.

Section BigWigFile.
Variables (fp : fpmode) (o : opts) (sizes : list (name * N)) (items : list item) (bs : list N).
Hypothesis Ho : BigWigFileRoundTrip.opts_ok o.
Hypothesis Hi : BigWigFileRoundTrip.input_ok sizes items.
Hypothesis Hs : Nlen bs < U64.
Hypothesis Hw : bw_write fp o sizes items = Ok bs \/ bw_write_multipass fp o sizes items = Ok bs.

(* BigWigRead::open succeeds on the written bytes; the chromosome table is the runs of the input in order *)
Lemma bw_open : exists i, open_bigwig bs = Ok i /\ read_info bs = Ok i /\ i_chroms i = expected_chroms sizes items.
Proof.
  destruct (write_roundtrip_for fp o sizes items bs Ho Hi Hs Hw) as (i & Hri & _ & Hbw & _ & _ & _ & _ & _ & _ & Hc & _).
  exists i. split; [|split; [exact Hri|exact Hc]]. unfold open_bigwig. rewrite Hri. cbn [rbind]. now rewrite Hbw.
Qed.

(* unrestricted conversion: every value of the input, in input order, bit-identical, except K1's *)
Theorem bw_file_read_all infl :
  bigwigtobedgraph_records infl bs None None None = Ok (filter (fun it => negb (bzero sizes it)) items).
Proof.
  destruct bw_open as (i & Hop & Hri & Hc). unfold bigwigtobedgraph_records. rewrite Hop. cbn [rbind].
  rewrite (tool_read_file_all (bw_interval infl bs i) fst
             (fun r => filter (fun v => negb (boundary_zero (len_of sizes (fst r)) v)) (snd r)) i (runs items)).
  - f_equal. rewrite <- (runs_flat items) at 2. rewrite filter_flat_map. apply flat_map_ext_in. intros [c vs] _.
    cbn [fst snd]. rewrite filter_map_comm. reflexivity.
  - rewrite Hc. apply (Forall2_of_maps ci_name fst); [apply expected_names|].
    intros ci [c vs] Hci Hr Hn. cbn [fst snd] in *. split; [exact Hn|].
    destruct (write_accepted fp o sizes items bs Hw c vs Hr) as (len & Hl & _).
    rewrite (expected_len sizes items ci Hci), Hn. unfold len_of. rewrite Hl.
    exact (write_full_span fp o sizes items bs Ho Hi Hs Hw i infl c vs len Hri Hr Hl).
Qed.

(* restricted conversion = the range query on the bytes *)
Theorem bw_file_read_chrom infl c st en : In c (map fst items) ->
  exists len i, lookup c sizes = Some len /\ read_info bs = Ok i /\
    let s := match st with Some s => s | None => 0 end in
    let e := match en with Some e => e | None => len end in
    bw_interval infl bs i c s e = Ok (clip_filter s e (vals_of items c)) /\
    bigwigtobedgraph_records infl bs (Some c) st en = Ok (map (fun v => (c, v)) (clip_filter s e (vals_of items c))).
Proof.
  intros Hin. destruct bw_open as (i & Hop & Hri & Hc).
  pose proof (chrom_has_run items c (write_grouped fp o sizes items bs Hw) Hin) as Hr.
  destruct (write_accepted fp o sizes items bs Hw c _ Hr) as (len & Hl & _).
  exists len, i. split; [exact Hl|]. split; [exact Hri|]. cbv zeta.
  pose proof (on_input_query fp o sizes items bs Ho Hi Hs Hw i infl c
                (match st with Some s => s | None => 0 end) (match en with Some e => e | None => len end) Hri Hin) as Hq.
  split; [exact Hq|]. unfold bigwigtobedgraph_records. rewrite Hop. cbn [rbind].
  rewrite (tool_read_file_chrom (bw_interval infl bs i) i c len st en).
  - rewrite Hq. reflexivity.
  - rewrite Hc, expected_names. apply in_map_iff. exists (c, vals_of items c). split; [reflexivity|exact Hr].
  - intros ci Hci Hn. rewrite Hc in Hci. rewrite (expected_len sizes items ci Hci), Hn. unfold len_of. now rewrite Hl.
Qed.

Theorem bw_file_read_absent infl c st en : ~ In c (map fst items) -> bigwigtobedgraph_records infl bs (Some c) st en = Ok [].
Proof.
  intros Hn. destruct bw_open as (i & Hop & Hri & Hc). unfold bigwigtobedgraph_records. rewrite Hop. cbn [rbind].
  apply tool_read_file_absent. rewrite Hc, expected_names. intros H. apply Hn.
  apply in_map_iff in H as [[c' vs] [E Hr]]. cbn [fst] in E. subst c'. exact (run_name_in_input items c vs Hr).
Qed.

Theorem bw_file_read_no_chrom infl st en : (st <> None \/ en <> None) -> bigwigtobedgraph_records infl bs None st en = Ok [].
Proof.
  intros H. destruct bw_open as (i & Hop & _). unfold bigwigtobedgraph_records. rewrite Hop. cbn [rbind].
  now apply tool_read_file_no_chrom.
Qed.
End BigWigFile.

(* ------------------------------------------------------------------ the writer rule (C13) gives the file *)
Import Proofs.AcceptRules.

Lemma opts_ok_bool o : BigWigFileRoundTrip.opts_ok o -> Accept.opts_ok o = true.
Proof. intros [[H1 _] [H2 _]]. apply WriterTotal.opts_ok_spec. split; assumption. Qed.

Lemma bw_rule_writes (fp : fpmode) (o : opts) (sizes : list (name * N)) (items : list item) (two_pass : bool) : Accept.opts_ok o = true -> items <> [] ->
  stream_ok bw_good_val bw_good_pair (o_sort_all o) sizes [] None items ->
  exists bs, (if two_pass then bw_write_multipass fp o sizes items else bw_write fp o sizes items) = Ok bs.
Proof.
  intros Ho Hne Hst.
  assert (Hrule : Accept.rule_verdict Accept.bw_val_class (o_sort_all o) sizes items = Ok tt).
  { apply (rule_accept_iff Accept.bw_val_class bw_good_val bw_good_pair bw_vclass_none). split; assumption. }
  assert (Hips : 0 < o_ips o) by (apply WriterTotal.opts_ok_spec in Ho; lia).
  assert (Hc : verdict (bw_collect fp o sizes items) = Ok tt).
  { rewrite (collect_verdict fp o sizes items Hips).
    rewrite (serial_ext check_val (chk_of Accept.bw_val_class) check_val_class), serial_rule. exact Hrule. }
  destruct two_pass.
  - pose proof (WriterTotal.bw_write_multipass_verdict fp o sizes items Ho) as H. rewrite Hc in H.
    destruct (bw_write_multipass fp o sizes items) as [f| | |]; try discriminate H. eauto.
  - pose proof (WriterTotal.bw_write_verdict fp o sizes items Ho) as H. rewrite Hc in H.
    destruct (bw_write fp o sizes items) as [f| | |]; try discriminate H. eauto.
Qed.

(* ------------------------------------------------------------------ what the bedGraph / BED parsers guarantee about a record *)
Lemma split_first_fst_no sep l : ~ In sep (fst (split_first sep l)).
Proof.
  induction l as [|c r IH]; cbn [split_first]; [intros []|].
  destruct (c =? sep) eqn:E; [intros []|]. destruct (split_first sep r) as [a b]. cbn [fst] in *.
  intros [H|H]; [apply N.eqb_neq in E; congruence|exact (IH H)].
Qed.
Lemma split_first_fst_incl sep l x : In x (fst (split_first sep l)) -> In x l.
Proof.
  induction l as [|c r IH]; cbn [split_first]; [intros []|].
  destruct (c =? sep); [intros []|]. destruct (split_first sep r) as [a b]. cbn [fst] in *.
  intros [H|H]; [now left|right; exact (IH H)].
Qed.

Lemma parse_digits_bound : forall l acc n, acc <= U32_MAX -> parse_digits acc l = Some n -> n <= U32_MAX.
Proof.
  induction l as [|c r IH]; intros acc n Ha H; cbn [parse_digits] in H; [injection H as <-; exact Ha|].
  destruct (is_digit c); [|discriminate]. cbv zeta in H.
  destruct (U32_MAX <? acc * 10 + (c - 48)) eqn:E; [discriminate|]. apply N.ltb_ge in E. exact (IH _ _ E H).
Qed.
Lemma parse_u32_bound l n : parse_u32 l = Some n -> n <= U32_MAX.
Proof.
  unfold parse_u32. destruct l as [|c r]; [discriminate|].
  destruct ((c =? 43) && negb _); apply parse_digits_bound; unfold U32_MAX; lia.
Qed.

Lemma trim_rev_incl : forall n l, (length l <= n)%nat -> forall x, In x (trim_rev l) -> In x l.
Proof.
  induction n as [|n IH]; intros l Hl x Hx.
  - destruct l; [exact Hx|cbn [length] in Hl; lia].
  - destruct l as [|a l1]; [exact Hx|]. cbn [length] in Hl. cbn [trim_rev] in Hx.
    destruct (ws1 a); [right; apply (IH l1); [lia|exact Hx]|].
    destruct l1 as [|b l2]; [exact Hx|]. cbn [length] in Hl.
    destruct (ws2 b a); [right; right; apply (IH l2); [lia|exact Hx]|].
    destruct l2 as [|c l3]; [exact Hx|]. cbn [length] in Hl.
    destruct (ws3 c b a); [right; right; right; apply (IH l3); [lia|exact Hx]|exact Hx].
Qed.
Lemma trim_end_incl l x : In x (trim_end l) -> In x l.
Proof.
  unfold trim_end. intros H. apply in_rev in H. apply (trim_rev_incl (length (rev l)) (rev l) (le_n _)) in H.
  now apply in_rev.
Qed.

Lemma lines_no_nl : forall t line, In line (lines t) -> ~ In NL line.
Proof.
  induction t as [|c r IH]; intros line H; cbn [lines] in H; [destruct H|].
  destruct (c =? NL) eqn:E.
  - destruct H as [<-|H]; [intros []|exact (IH line H)].
  - apply N.eqb_neq in E. destruct (lines r) as [|x xs] eqn:El.
    + destruct H as [<-|[]]. intros [H|[]]. congruence.
    + destruct H as [<-|H].
      * intros [H|H]; [congruence|]. apply (IH x (or_introl eq_refl)). exact H.
      * apply IH. now right.
Qed.

Lemma parse_three_facts s chrom st e r3 : parse_three s = Ok (chrom, st, e, r3) ->
  ~ In TAB chrom /\ (forall x, In x chrom -> In x s) /\ st <= U32_MAX /\ e <= U32_MAX.
Proof.
  unfold parse_three. intros H.
  pose proof (split_first_fst_no TAB s) as H1. pose proof (split_first_fst_incl TAB s) as H2.
  destruct (split_first TAB s) as [c r1]. cbn [fst] in H1, H2. destruct r1 as [a|]; [|discriminate].
  destruct (split_first TAB a) as [t1 r2]. destruct (parse_u32 t1) as [n1|] eqn:E1; [|discriminate].
  destruct r2 as [b|]; [|discriminate]. destruct (split_first TAB b) as [t2 r3'].
  destruct (parse_u32 t2) as [n2|] eqn:E2; [|discriminate]. injection H as <- <- <- <-.
  split; [exact H1|]. split; [exact H2|]. split; [exact (parse_u32_bound _ _ E1)|exact (parse_u32_bound _ _ E2)].
Qed.

Definition record_canonical {V} (start fin : V -> N) (it : name * V) : Prop :=
  ~ In TAB (fst it) /\ ~ In NL (fst it) /\ start (snd it) <= U32_MAX /\ fin (snd it) <= U32_MAX.

Lemma parse_bedgraph_facts pf line c v : ~ In NL line -> parse_bedgraph pf line = Ok (c, v) ->
  record_canonical v_start v_end (c, v).
Proof.
  intros Hnl H. unfold parse_bedgraph in H.
  destruct (parse_three (trim_end line)) as [[[[chrom st] e] r3]| | |] eqn:E; cbn [rbind] in H; try discriminate.
  destruct (parse_three_facts _ _ _ _ _ E) as (H1 & H2 & H3 & H4).
  destruct r3 as [t|]; [|discriminate]. destruct (pf (fst (split_first TAB t))); [|discriminate].
  injection H as <- <-. unfold record_canonical. cbn [fst snd v_start v_end].
  split; [exact H1|]. split; [|split; assumption]. intros Hx. apply Hnl. apply trim_end_incl. apply H2. exact Hx.
Qed.
Lemma parse_bed_facts line c e : ~ In NL line -> parse_bed line = Ok (c, e) -> record_canonical be_start be_end (c, e).
Proof.
  intros Hnl H. unfold parse_bed in H.
  destruct (parse_three (trim_end line)) as [[[[chrom st] en] r3]| | |] eqn:E; cbn [rbind] in H; try discriminate.
  destruct (parse_three_facts _ _ _ _ _ E) as (H1 & H2 & H3 & H4).
  injection H as <- <-. unfold record_canonical. cbn [fst snd be_start be_end].
  split; [exact H1|]. split; [|split; assumption]. intros Hx. apply Hnl. apply trim_end_incl. apply H2. exact Hx.
Qed.

Lemma mapM_Forall {A B} (f : A -> res B) (P : B -> Prop) (Q : A -> Prop) :
  (forall a b, Q a -> f a = Ok b -> P b) -> forall l r, Forall Q l -> mapM f l = Ok r -> Forall P r.
Proof.
  intros Hf. induction l as [|a l IH]; intros r HQ H; cbn [mapM] in H; [injection H as <-; constructor|].
  inversion HQ as [|? ? Qa Ql]; subst.
  destruct (f a) as [b| | |] eqn:Ea; cbn [rbind] in H; try discriminate.
  destruct (mapM f l) as [bs| | |] eqn:El; cbn [rbind] in H; try discriminate. injection H as <-.
  constructor; [exact (Hf a b Qa Ea)|exact (IH bs Ql eq_refl)].
Qed.

Lemma parsed_bedgraph_canonical pf txt items : mapM (parse_bedgraph pf) (lines txt) = Ok items ->
  Forall (record_canonical v_start v_end) items.
Proof.
  apply (mapM_Forall _ _ (fun line => ~ In NL line)).
  - intros line [c v] Hnl H. exact (parse_bedgraph_facts pf line c v Hnl H).
  - apply Forall_forall. apply lines_no_nl.
Qed.
Lemma parsed_bed_canonical txt items : mapM parse_bed (lines txt) = Ok items -> Forall (record_canonical be_start be_end) items.
Proof.
  apply (mapM_Forall _ _ (fun line => ~ In NL line)).
  - intros line [c v] Hnl H. exact (parse_bed_facts line c v Hnl H).
  - apply Forall_forall. apply lines_no_nl.
Qed.

(* ------------------------------------------------------------------ printing the values and reading them again *)
(* what the round trip needs of the printer/parser pair on one bit pattern: the printed token is a token (non-empty, no
   separator, no trailing white space) and the parser maps it back to the pattern *)
Definition printer_ok (pf : list N -> option N) (pr : N -> list N) (bits : N) : Prop :=
  pr bits <> [] /\ ~ In TAB (pr bits) /\ ~ In NL (pr bits) /\ trim_end (pr bits) = pr bits /\ pf (pr bits) = Some bits.

Definition bg_of (pr : N -> list N) (it : name * value) : bg_rec :=
  {| bg_chrom := fst it; bg_start := v_start (snd it); bg_end := v_end (snd it); bg_text := pr (v_bits (snd it)) |}.

Lemma format_records_is_text pr l : format_bedgraph_records pr l = format_bedgraph_text (map (bg_of pr) l).
Proof. unfold format_bedgraph_records, format_bedgraph_text. rewrite flat_map_concat_map, flat_map_concat_map, map_map. reflexivity. Qed.

Theorem bedgraph_records_reparse pf pr l :
  Forall (record_canonical v_start v_end) l -> Forall (fun it => printer_ok pf pr (v_bits (snd it))) l ->
  mapM (parse_bedgraph pf) (lines (format_bedgraph_records pr l)) = Ok l.
Proof.
  intros Hc Hp. rewrite format_records_is_text, (bedgraph_text_parse pf (map (bg_of pr) l)).
  - f_equal. rewrite map_map. rewrite <- (map_id l) at 2. apply map_ext_in. intros [c [s e b]] Hin.
    rewrite Forall_forall in Hp. destruct (Hp _ Hin) as (_ & _ & _ & _ & Hpf). cbn [snd v_bits] in Hpf.
    unfold bg_value, bg_of. cbn [bg_chrom bg_start bg_end bg_text fst snd v_start v_end v_bits]. now rewrite Hpf.
  - apply Forall_map. apply Forall_forall. intros it Hin. rewrite Forall_forall in Hc, Hp.
    destruct (Hc it Hin) as (A & B & C & D). destruct (Hp it Hin) as (P1 & P2 & P3 & P4 & P5).
    unfold canonical_bg, bg_of. cbn [bg_chrom bg_start bg_end bg_text].
    repeat (split; [assumption|]). rewrite P5. discriminate.
Qed.

(* ------------------------------------------------------------------ bedgraphtobigwig, then bigwigtobedgraph *)
Lemma bedgraphtobigwig_file_writer pf fp o two_pass cs_text in_text sizes items :
  parse_chrom_sizes cs_text = Ok sizes -> mapM (parse_bedgraph pf) (lines in_text) = Ok items ->
  bedgraphtobigwig_file pf fp o two_pass cs_text in_text =
  if two_pass then bw_write_multipass fp o sizes items else bw_write fp o sizes items.
Proof. intros H1 H2. unfold bedgraphtobigwig_file. rewrite H1. cbn [rbind]. rewrite H2. reflexivity. Qed.

Lemma either_writer fp o sizes items (two_pass : bool) bs :
  (if two_pass then bw_write_multipass fp o sizes items else bw_write fp o sizes items) = Ok bs ->
  bw_write fp o sizes items = Ok bs \/ bw_write_multipass fp o sizes items = Ok bs.
Proof. destruct two_pass; [now right|now left]. Qed.

(* C16_bedgraph_file_roundtrip *)
Theorem bedgraph_file_roundtrip pf fp o two_pass cs_text in_text sizes items :
  parse_chrom_sizes cs_text = Ok sizes -> mapM (parse_bedgraph pf) (lines in_text) = Ok items ->
  BigWigFileRoundTrip.opts_ok o -> BigWigFileRoundTrip.input_ok sizes items ->
  items <> [] -> stream_ok bw_good_val bw_good_pair (o_sort_all o) sizes [] None items ->
  exists bs, bedgraphtobigwig_file pf fp o two_pass cs_text in_text = Ok bs /\
    (Nlen bs < U64 -> forall infl,
       bigwigtobedgraph_records infl bs None None None = Ok (filter (fun it => negb (bzero sizes it)) items)
       /\ (Forall (fun it : item => v_start (snd it) < v_end (snd it)) items ->
           bigwigtobedgraph_records infl bs None None None = Ok items)).
Proof.
  intros Hcs Hin Ho Hi Hne Hst.
  destruct (bw_rule_writes fp o sizes items two_pass (opts_ok_bool o Ho) Hne Hst) as [bs Hw].
  exists bs. split; [rewrite (bedgraphtobigwig_file_writer pf fp o two_pass _ _ sizes items Hcs Hin); exact Hw|].
  intros Hs infl. apply either_writer in Hw.
  pose proof (bw_file_read_all fp o sizes items bs Ho Hi Hs Hw infl) as Hall.
  split; [exact Hall|]. intros Hpos. rewrite Hall. now rewrite (no_empty_no_bzero sizes items Hpos).
Qed.

(* C16_bedgraph_file_text: the printed text, and what it parses to *)
Theorem bedgraph_file_text pf pr fp o two_pass cs_text in_text sizes items :
  parse_chrom_sizes cs_text = Ok sizes -> mapM (parse_bedgraph pf) (lines in_text) = Ok items ->
  BigWigFileRoundTrip.opts_ok o -> BigWigFileRoundTrip.input_ok sizes items ->
  items <> [] -> stream_ok bw_good_val bw_good_pair (o_sort_all o) sizes [] None items ->
  Forall (fun it : item => v_start (snd it) < v_end (snd it)) items ->
  exists bs, bedgraphtobigwig_file pf fp o two_pass cs_text in_text = Ok bs /\
    (Nlen bs < U64 -> forall infl,
       bigwigtobedgraph_file infl pr bs None None None = Ok (format_bedgraph_records pr items)
       /\ (Forall (fun it : item => printer_ok pf pr (v_bits (snd it))) items ->
           mapM (parse_bedgraph pf) (lines (format_bedgraph_records pr items)) = Ok items)).
Proof.
  intros Hcs Hin Ho Hi Hne Hst Hpos.
  destruct (bedgraph_file_roundtrip pf fp o two_pass cs_text in_text sizes items Hcs Hin Ho Hi Hne Hst) as [bs [Hw Hr]].
  exists bs. split; [exact Hw|]. intros Hs infl. destruct (Hr Hs infl) as [_ Hex]. split.
  - unfold bigwigtobedgraph_file. rewrite (Hex Hpos). reflexivity.
  - intros Hp. apply bedgraph_records_reparse; [exact (parsed_bedgraph_canonical pf in_text items Hin)|exact Hp].
Qed.

(* C16_restrict_file, bigWig *)
Theorem restrict_file_bigwig pf fp o two_pass cs_text in_text sizes items bs :
  parse_chrom_sizes cs_text = Ok sizes -> mapM (parse_bedgraph pf) (lines in_text) = Ok items ->
  BigWigFileRoundTrip.opts_ok o -> BigWigFileRoundTrip.input_ok sizes items ->
  bedgraphtobigwig_file pf fp o two_pass cs_text in_text = Ok bs -> Nlen bs < U64 ->
  forall infl st en,
    (forall c, In c (map fst items) ->
       exists len i, lookup c sizes = Some len /\ read_info bs = Ok i /\
         let s := match st with Some s => s | None => 0 end in
         let e := match en with Some e => e | None => len end in
         bw_interval infl bs i c s e = Ok (clip_filter s e (vals_of items c)) /\
         bigwigtobedgraph_records infl bs (Some c) st en = Ok (map (fun v => (c, v)) (clip_filter s e (vals_of items c))))
    /\ (forall c, ~ In c (map fst items) -> bigwigtobedgraph_records infl bs (Some c) st en = Ok [])
    /\ ((st <> None \/ en <> None) -> bigwigtobedgraph_records infl bs None st en = Ok []).
Proof.
  intros Hcs Hin Ho Hi Hw Hs infl st en.
  rewrite (bedgraphtobigwig_file_writer pf fp o two_pass _ _ sizes items Hcs Hin) in Hw. apply either_writer in Hw.
  split; [|split].
  - intros c Hc. exact (bw_file_read_chrom fp o sizes items bs Ho Hi Hs Hw infl c st en Hc).
  - intros c Hc. exact (bw_file_read_absent fp o sizes items bs Ho Hi Hs Hw infl c st en Hc).
  - exact (bw_file_read_no_chrom fp o sizes items bs Ho Hi Hs Hw infl st en).
Qed.

(* ================================================================== BED -> bigBed -> BED *)
Import Proofs.BedZoomFit.

Lemma of_to_entry e : of_entry (to_entry e) = e.
Proof. destruct e; reflexivity. Qed.
Lemma to_of_entry e : to_entry (of_entry e) = e.
Proof. destruct e; reflexivity. Qed.
Lemma of_to_bitems l : map (fun it : bitem => (fst it, of_entry (snd it))) (to_bitems l) = l.
Proof.
  unfold to_bitems. rewrite map_map. rewrite <- (map_id l) at 2. apply map_ext. intros [c e]. cbn [fst snd].
  now rewrite of_to_entry.
Qed.

(* the file type BigBedRead::open tests: read_info keeps the header it read, and the header's type comes from the magic *)
Lemma read_info_filetype bs i bw big : read_info bs = Ok i -> detect_magic bs = Ok (bw, big) -> h_bigwig (i_hdr i) = bw.
Proof.
  unfold read_info. intros H Hd.
  destruct (read_header bs) as [h| | |] eqn:Eh; cbn [rbind] in H; try discriminate.
  destruct (read_zoom_headers _ _ _ _); cbn [rbind] in H; try discriminate.
  destruct (rdo _); cbn [rbind] in H; try discriminate.
  destruct (negb _); [discriminate|]. destruct (negb _); [discriminate|].
  destruct (read_chrom_block _ _ _ _ _); try discriminate.
  apply BigWigFile.Ok_inj in H. subst i. cbn [i_hdr].
  unfold read_header in Eh. destruct (rdo (LE.slice bs 0 64)); cbn [rbind] in Eh; try discriminate.
  rewrite Hd in Eh. cbn [rbind] in Eh. apply BigWigFile.Ok_inj in Eh. subst h. reflexivity.
Qed.

(* a file written by either bigBed write path starts with the little-endian bigBed magic *)
Lemma bb_written_is_bigbed two_pass fp o sizes autosql input f i :
  bb_write_either two_pass fp o sizes autosql input = Ok f -> read_info f = Ok i -> h_bigwig (i_hdr i) = false.
Proof.
  intros Hw Hri. apply (read_info_filetype f i false false Hri). apply BedReadInfo.detect_bigbed.
  assert (Hgen : exists sweep zoom_part, bb_write_gen sweep zoom_part o sizes autosql input = Ok f
                   /\ forall outs sum a b zb zh, zoom_part outs sum a b = Ok (zb, zh) -> (length zh <= 10)%nat).
  { destruct two_pass; unfold bb_write_either, bb_write, bb_write_multipass in Hw.
    - exists (bb_sweep fp), (bb_zoom_two_pass fp o). split; [exact Hw|]. intros outs sum a b zb zh. apply two_pass_fits.
    - exists (bb_sweep fp), (bb_zoom_single fp o). split; [exact Hw|]. intros outs sum a b zb zh. apply single_fits. }
  destruct Hgen as (sweep & zoom_part & Hgen & Hfit).
  destruct (C09BedFile.bb_write_gen_inv sweep zoom_part o sizes autosql input f Hgen Hfit) as (p & _ & _ & _ & _ & _ & HA).
  destruct HA as (_ & _ & E & _ & Hh & _). rewrite E. apply has_at_app_r.
  unfold header_bytes in Hh. rewrite <- !app_assoc in Hh. apply RTreeCodec.has_at_app in Hh. exact (proj1 Hh).
Qed.

Section BigBedFile.
Variables (two_pass : bool) (fp : fpmode) (o : opts) (sizes : list (name * N)) (autosql : option (list N))
          (input : list bitem) (f : list N).
Hypothesis Hw : bb_write_either two_pass fp o sizes autosql input = Ok f.
Hypothesis Hh : BedEndToEnd.file_hyps o sizes input f.

Lemma bb_open : exists i, open_bigbed f = Ok i /\ read_info f = Ok i
  /\ map ci_name (i_chroms i) = map fst (bruns input)
  /\ Forall (fun c => lookup (ci_name c) sizes = Some (ci_len c)) (i_chroms i)
  /\ (forall infl c es s e, In (c, es) (bruns input) -> bb_interval infl f i c s e = Ok (filter (bkeep s e) es))
  /\ (forall infl c es, In (c, es) (bruns input) -> exists len, lookup c sizes = Some len /\ bb_interval infl f i c 0 len = Ok es).
Proof.
  destruct (written_file_roundtrip two_pass fp o sizes autosql input f Hw Hh) as (i & Hri & Hfull & _ & _ & Hct & Hlen).
  destruct (written_file_query two_pass fp o sizes autosql input f Hw Hh) as (i' & Hri' & Hq).
  rewrite Hri in Hri'. apply BigWigFile.Ok_inj in Hri'. subst i'.
  exists i. split; [|split; [exact Hri|split; [|split; [exact Hlen|split; [exact Hq|exact Hfull]]]]].
  - unfold open_bigbed. rewrite Hri. cbn [rbind]. now rewrite (bb_written_is_bigbed two_pass fp o sizes autosql input f i Hw Hri).
  - apply (f_equal (map fst)) in Hct. rewrite map_map in Hct. cbn [fst] in Hct.
    rewrite <- (map_length fst (bruns input)) in Hct. rewrite BedEndToEnd.combine_seqN_fst in Hct. exact Hct.
Qed.

(* unrestricted conversion: every entry of the input, in input order, rest fields byte for byte *)
Theorem bb_file_read_all infl : bigbedtobed_records infl f None None None = Ok (map (fun it : bitem => (fst it, of_entry (snd it))) input).
Proof.
  destruct bb_open as (i & Hop & Hri & Hnames & Hlens & _ & Hfull). unfold bigbedtobed_records. rewrite Hop. cbn [rbind].
  rewrite (tool_read_file_all (bb_interval infl f i) fst snd i (bruns input)).
  - cbn [rbind]. do 2 f_equal. exact (BedQuery.bruns_untag input).
  - apply (Forall2_of_maps ci_name fst); [exact Hnames|].
    intros ci [c es] Hci Hr Hn. cbn [fst snd] in *. split; [exact Hn|].
    destruct (Hfull infl c es Hr) as (len & Hl & Hq). rewrite Forall_forall in Hlens. specialize (Hlens ci Hci).
    rewrite Hn, Hl in Hlens. injection Hlens as <-. exact Hq.
Qed.

(* restricted conversion = the overlap query on the bytes *)
Theorem bb_file_read_chrom infl c es st en : In (c, es) (bruns input) ->
  exists len i, lookup c sizes = Some len /\ read_info f = Ok i /\
    let s := match st with Some s => s | None => 0 end in
    let e := match en with Some e => e | None => len end in
    bb_interval infl f i c s e = Ok (filter (bkeep s e) es) /\
    bigbedtobed_records infl f (Some c) st en = Ok (map (fun x => (c, of_entry x)) (filter (bkeep s e) es)).
Proof.
  intros Hr. destruct bb_open as (i & Hop & Hri & Hnames & Hlens & Hq & Hfull).
  destruct (Hfull infl c es Hr) as (len & Hl & _).
  exists len, i. split; [exact Hl|]. split; [exact Hri|]. cbv zeta. split; [apply Hq; exact Hr|].
  unfold bigbedtobed_records. rewrite Hop. cbn [rbind].
  rewrite (tool_read_file_chrom (bb_interval infl f i) i c len st en).
  - rewrite (Hq infl c es _ _ Hr). cbn [rbind]. f_equal. rewrite map_map. reflexivity.
  - rewrite Hnames. apply in_map_iff. exists (c, es). split; [reflexivity|exact Hr].
  - intros ci Hci Hn. rewrite Forall_forall in Hlens. specialize (Hlens ci Hci). rewrite Hn, Hl in Hlens. now injection Hlens.
Qed.

Theorem bb_file_read_absent infl c st en : ~ In c (map fst input) -> bigbedtobed_records infl f (Some c) st en = Ok [].
Proof.
  intros Hn. destruct bb_open as (i & Hop & _ & Hnames & _). unfold bigbedtobed_records. rewrite Hop. cbn [rbind].
  rewrite tool_read_file_absent; [reflexivity|]. rewrite Hnames. intros H. apply Hn.
  apply in_map_iff in H as [[c' es] [E Hr]]. cbn [fst] in E. subst c'.
  rewrite <- (BedQuery.bruns_untag input). unfold BedQuery.untag.
  pose proof (BedEndToEnd.bruns_nonempty input c es Hr) as Hne. destruct es as [|x es']; [congruence|].
  apply in_map_iff. exists (c, x). split; [reflexivity|]. apply in_flat_map. exists (c, x :: es'). split; [exact Hr|]. now left.
Qed.

Theorem bb_file_read_no_chrom infl st en : (st <> None \/ en <> None) -> bigbedtobed_records infl f None st en = Ok [].
Proof.
  intros H. destruct bb_open as (i & Hop & _). unfold bigbedtobed_records. rewrite Hop. cbn [rbind].
  rewrite tool_read_file_no_chrom by exact H. reflexivity.
Qed.
End BigBedFile.

(* ------------------------------------------------------------------ bedtobigbed, then bigbedtobed *)
(* the autoSql the tool hands to the writer: total once the text parses, and never with a NUL unless --autosql has one *)
Lemma tool_autosql_total user in_text items : mapM parse_bed (lines in_text) = Ok items ->
  exists a, bed_tool_autosql user in_text = Ok a.
Proof.
  intros H. unfold bed_tool_autosql. destruct user as [s|]; [eauto|].
  destruct (lines in_text) as [|l ls]; [eauto|]. cbn [mapM] in H.
  destruct (parse_bed l) as [x| | |]; cbn [rbind] in H; try discriminate. cbn [rbind]. eauto.
Qed.

Lemma tool_autosql_no_nul user in_text a : bed_tool_autosql user in_text = Ok a ->
  (forall s, user = Some s -> AcceptBed.has_nul s = false) -> AcceptBed.has_nul (AcceptBed.schema_text a) = false.
Proof.
  unfold bed_tool_autosql. intros H Hu. destruct user as [s|].
  - injection H as <-. cbn [AcceptBed.schema_text]. now apply Hu.
  - destruct (lines in_text) as [|l ls]; [injection H as <-; exact WriterTotalBed.no_nul_library_default|].
    destruct (parse_bed l) as [x| | |]; cbn [rbind] in H; try discriminate. injection H as <-.
    cbn [AcceptBed.schema_text]. unfold bed_autosql. exact (AutoSqlStore.generated_no_nul _).
Qed.

Lemma bedtobigbed_file_writer fp o two_pass user cs_text in_text sizes asql items :
  parse_chrom_sizes cs_text = Ok sizes -> bed_tool_autosql user in_text = Ok asql -> mapM parse_bed (lines in_text) = Ok items ->
  bedtobigbed_file fp o two_pass user cs_text in_text = bb_write_either two_pass fp o sizes asql (to_bitems items).
Proof.
  intros H1 H2 H3. unfold bedtobigbed_file. rewrite H1. cbn [rbind]. rewrite H2. cbn [rbind]. rewrite H3. cbn [rbind].
  destruct two_pass; reflexivity.
Qed.

Lemma bb_rule_writes (two_pass : bool) (fp : fpmode) (o : opts) (sizes : list (name * N)) (asql : option (list N))
    (input : list bitem) :
  Accept.opts_ok o = true -> AcceptBed.has_nul (AcceptBed.schema_text asql) = false -> input <> [] ->
  stream_ok bb_good_val bb_good_pair (o_sort_all o) sizes [] None (AcceptBed.bb_items input) ->
  exists f, bb_write_either two_pass fp o sizes asql input = Ok f.
Proof.
  intros Ho Hn Hne Hst.
  destruct (WriterTotalBed.bb_accept_iff_file fp o sizes asql input) as (V1 & V2 & Hiff).
  assert (Hrule : AcceptBed.bb_file_rule o sizes asql (AcceptBed.bb_items input) = Ok tt) by (apply Hiff; repeat split; assumption).
  rewrite Hrule in V1, V2. unfold bb_write_either. destruct two_pass.
  - destruct (bb_write_multipass fp o sizes asql input) as [f| | |]; try discriminate V2. eauto.
  - destruct (bb_write fp o sizes asql input) as [f| | |]; try discriminate V1. eauto.
Qed.

Lemma to_bitems_nil l : to_bitems l = [] -> l = [].
Proof. destruct l; [reflexivity|discriminate]. Qed.

(* ---- the extra columns a parsed BED record carries have no trailing white space and no newline ---- *)
Lemma trim_rev_idem : forall n l, (length l <= n)%nat -> trim_rev (trim_rev l) = trim_rev l.
Proof.
  induction n as [|n IH]; intros l Hl.
  - destruct l; [reflexivity|cbn [length] in Hl; lia].
  - destruct l as [|a l1]; [reflexivity|]. cbn [length] in Hl. cbn [trim_rev].
    destruct (ws1 a) eqn:E1; [apply IH; lia|].
    destruct l1 as [|b l2]; [cbn [trim_rev]; now rewrite E1|]. cbn [length] in Hl.
    destruct (ws2 b a) eqn:E2; [apply IH; lia|].
    destruct l2 as [|c l3]; [cbn [trim_rev]; now rewrite E1, E2|]. cbn [length] in Hl.
    destruct (ws3 c b a) eqn:E3; [apply IH; lia|]. cbn [trim_rev]. now rewrite E1, E2, E3.
Qed.
Lemma trim_end_idem l : trim_end (trim_end l) = trim_end l.
Proof. unfold trim_end. rewrite rev_involutive. f_equal. apply (trim_rev_idem (length (rev l))). lia. Qed.

Lemma trim_rev_prefix p q : trim_rev (p ++ q) = p ++ q -> trim_rev p = p.
Proof.
  intros H. destruct p as [|a l1]; [reflexivity|]. cbn [app trim_rev] in H. cbn [trim_rev].
  destruct (ws1 a).
  { exfalso. pose proof (trim_rev_shorter (l1 ++ q)) as Hl. rewrite H in Hl. cbn [length] in Hl. lia. }
  destruct l1 as [|b l2]; [reflexivity|]. cbn [app] in H.
  destruct (ws2 b a).
  { exfalso. pose proof (trim_rev_shorter (l2 ++ q)) as Hl. rewrite H in Hl. cbn [length] in Hl. lia. }
  destruct l2 as [|c l3]; [reflexivity|]. cbn [app] in H.
  destruct (ws3 c b a); [|reflexivity].
  exfalso. pose proof (trim_rev_shorter (l3 ++ q)) as Hl. rewrite H in Hl. cbn [length] in Hl. lia.
Qed.
Lemma trim_end_suffix p q : trim_end (p ++ q) = p ++ q -> trim_end q = q.
Proof.
  intros H. apply trim_end_fixed_rev in H. rewrite rev_app_distr in H. apply trim_rev_prefix in H.
  unfold trim_end. rewrite H. apply rev_involutive.
Qed.

Lemma split_first_some sep l a b : split_first sep l = (a, Some b) -> l = a ++ sep :: b.
Proof.
  revert a b. induction l as [|c r IH]; intros a b H; cbn [split_first] in H; [discriminate|].
  destruct (c =? sep) eqn:E.
  - apply N.eqb_eq in E. subst c. injection H as <- <-. reflexivity.
  - destruct (split_first sep r) as [a' b'] eqn:Es. injection H as <- ->. cbn [app]. f_equal. now apply IH.
Qed.

Lemma parse_three_rest s chrom st e rest : parse_three s = Ok (chrom, st, e, Some rest) -> exists p, s = p ++ rest.
Proof.
  unfold parse_three. intros H.
  destruct (split_first TAB s) as [c r1] eqn:E0. destruct r1 as [a|]; [|discriminate].
  destruct (split_first TAB a) as [t1 r2] eqn:E1. destruct (parse_u32 t1); [|discriminate].
  destruct r2 as [b|]; [|discriminate]. destruct (split_first TAB b) as [t2 r3] eqn:E2.
  destruct (parse_u32 t2); [|discriminate]. injection H as <- _ _ ->.
  apply split_first_some in E0, E1, E2. subst s a b.
  exists (c ++ TAB :: t1 ++ TAB :: t2 ++ [TAB]). repeat (first [rewrite <- app_assoc | progress cbn [app]]). reflexivity.
Qed.

Lemma parse_bed_rest line c e : ~ In NL line -> parse_bed line = Ok (c, e) ->
  trim_end (be_rest e) = be_rest e /\ ~ In NL (be_rest e).
Proof.
  intros Hnl H. unfold parse_bed in H.
  destruct (parse_three (trim_end line)) as [[[[chrom st] en] r3]| | |] eqn:E; cbn [rbind] in H; try discriminate.
  injection H as _ <-. cbn [be_rest]. destruct r3 as [rest|]; [|split; [reflexivity|intros []]].
  destruct (parse_three_rest _ _ _ _ _ E) as [p Hp]. split.
  - apply (trim_end_suffix p). rewrite <- Hp. apply trim_end_idem.
  - intros Hx. apply Hnl. apply trim_end_incl. rewrite Hp. apply in_or_app. now right.
Qed.

Lemma parsed_bed_canonical_full txt items : mapM parse_bed (lines txt) = Ok items -> Forall canonical_bed items.
Proof.
  apply (mapM_Forall _ _ (fun line => ~ In NL line)).
  - intros line [c e] Hnl H. destruct (parse_bed_facts line c e Hnl H) as (A & B & C & D).
    destruct (parse_bed_rest line c e Hnl H) as [F G]. unfold canonical_bed. cbn [fst snd] in *. repeat (split; [assumption|]). exact G.
  - apply Forall_forall. apply lines_no_nl.
Qed.

(* C16_bed_file_roundtrip *)
Theorem bed_file_roundtrip fp o two_pass user cs_text in_text sizes items :
  parse_chrom_sizes cs_text = Ok sizes -> mapM parse_bed (lines in_text) = Ok items ->
  (forall s, user = Some s -> AcceptBed.has_nul s = false) ->
  Accept.opts_ok o = true -> items <> [] ->
  stream_ok bb_good_val bb_good_pair (o_sort_all o) sizes [] None (AcceptBed.bb_items (to_bitems items)) ->
  exists f, bedtobigbed_file fp o two_pass user cs_text in_text = Ok f /\
    (BedEndToEnd.file_hyps o sizes (to_bitems items) f -> forall infl,
       bigbedtobed_records infl f None None None = Ok items
       /\ bigbedtobed_file infl f None None None = Ok (format_bed_text items)
       /\ mapM parse_bed (lines (format_bed_text items)) = Ok items
       /\ (forall items0, Forall canonical_bed items0 -> in_text = format_bed_text items0 ->
             bigbedtobed_file infl f None None None = Ok in_text)).
Proof.
  intros Hcs Hin Hu Ho Hne Hst.
  destruct (tool_autosql_total user in_text items Hin) as [asql Ha].
  pose proof (tool_autosql_no_nul user in_text asql Ha Hu) as Hnn.
  destruct (bb_rule_writes two_pass fp o sizes asql (to_bitems items) Ho Hnn) as [f Hw]; [|exact Hst|].
  { intros E. apply Hne. now apply to_bitems_nil. }
  exists f. split; [rewrite (bedtobigbed_file_writer fp o two_pass user _ _ sizes asql items Hcs Ha Hin); exact Hw|].
  intros Hh infl.
  pose proof (bb_file_read_all two_pass fp o sizes asql (to_bitems items) f Hw Hh infl) as Hall. rewrite of_to_bitems in Hall.
  assert (Htxt : bigbedtobed_file infl f None None None = Ok (format_bed_text items)).
  { unfold bigbedtobed_file. rewrite Hall. reflexivity. }
  split; [exact Hall|]. split; [exact Htxt|]. split.
  - apply bed_text_roundtrip. exact (parsed_bed_canonical_full in_text items Hin).
  - intros items0 Hc0 E. rewrite Htxt. f_equal. rewrite E in Hin. rewrite (bed_text_roundtrip items0 Hc0) in Hin.
    injection Hin as <-. now rewrite E.
Qed.

(* C16_restrict_file, bigBed *)
Theorem restrict_file_bigbed fp o two_pass user cs_text in_text sizes items f :
  parse_chrom_sizes cs_text = Ok sizes -> mapM parse_bed (lines in_text) = Ok items ->
  bedtobigbed_file fp o two_pass user cs_text in_text = Ok f -> BedEndToEnd.file_hyps o sizes (to_bitems items) f ->
  forall infl st en,
    (forall c es, In (c, es) (bruns (to_bitems items)) ->
       exists len i, lookup c sizes = Some len /\ read_info f = Ok i /\
         let s := match st with Some s => s | None => 0 end in
         let e := match en with Some e => e | None => len end in
         bb_interval infl f i c s e = Ok (filter (bkeep s e) es) /\
         bigbedtobed_records infl f (Some c) st en = Ok (map (fun x => (c, of_entry x)) (filter (bkeep s e) es)))
    /\ (forall c, ~ In c (map fst items) -> bigbedtobed_records infl f (Some c) st en = Ok [])
    /\ ((st <> None \/ en <> None) -> bigbedtobed_records infl f None st en = Ok []).
Proof.
  intros Hcs Hin Hw Hh infl st en.
  destruct (tool_autosql_total user in_text items Hin) as [asql Ha].
  rewrite (bedtobigbed_file_writer fp o two_pass user _ _ sizes asql items Hcs Ha Hin) in Hw.
  split; [|split].
  - intros c es Hr. exact (bb_file_read_chrom two_pass fp o sizes asql (to_bitems items) f Hw Hh infl c es st en Hr).
  - intros c Hc. apply (bb_file_read_absent two_pass fp o sizes asql (to_bitems items) f Hw Hh infl c st en).
    unfold to_bitems. rewrite map_map. cbn [fst]. exact Hc.
  - exact (bb_file_read_no_chrom two_pass fp o sizes asql (to_bitems items) f Hw Hh infl st en).
Qed.

(* ================================================================== which hypotheses follow from the texts *)
(* The file theorems carry C01's [input_ok] and C02's [file_hyps] (field widths of the format).  For inputs that come out of the
   text parsers part of them is automatic: sizes and positions are u32 because parse_u32 refuses anything else, value patterns
   are u32 when the float parser returns f32 patterns.  What remains is stated on the records: chromosome names without a NUL
   byte and shorter than 2^32 bytes, fewer than 65536 chromosomes, (BED) extra columns without a NUL byte and no entry [0,0). *)
Lemma parse_sizes_line_bound line c n : parse_sizes_line line = Ok (c, n) -> n <= U32_MAX.
Proof.
  unfold parse_sizes_line. destruct (next_token line) as [[c' r]|]; [|discriminate].
  destruct (next_token r) as [[sz r']|]; [|discriminate]. destruct (parse_u32 sz) as [m|] eqn:E; [|discriminate].
  intros H. injection H as _ <-. exact (parse_u32_bound _ _ E).
Qed.

Lemma parse_chrom_sizes_bound cs sizes : parse_chrom_sizes cs = Ok sizes -> Forall (fun s : name * N => snd s < U32) sizes.
Proof.
  unfold parse_chrom_sizes.
  assert (G : forall ls (acc : res (list (name * N))) r,
            match acc with Ok m => Forall (fun s : name * N => snd s < U32) m | _ => True end ->
            fold_left (fun acc line => do m <- acc; match line with [] => Ok m | _ => do kv <- parse_sizes_line line; Ok (kv :: m) end) ls acc = Ok r ->
            Forall (fun s : name * N => snd s < U32) r).
  { induction ls as [|line ls IH]; intros acc r Ha H; cbn [fold_left] in H.
    - subst acc. exact Ha.
    - apply (IH _ r) in H; [exact H|]. destruct acc as [m| | |]; cbn [rbind]; try exact I.
      destruct line as [|x l]; [exact Ha|].
      destruct (parse_sizes_line (x :: l)) as [[c n]| | |] eqn:E; cbn [rbind]; try exact I.
      constructor; [|exact Ha]. cbn [snd]. pose proof (parse_sizes_line_bound _ _ _ E). unfold U32_MAX, U32 in *. lia. }
  apply G. constructor.
Qed.

Lemma parse_bedgraph_bits pf line c v : parse_bedgraph pf line = Ok (c, v) -> exists t, pf t = Some (v_bits v).
Proof.
  unfold parse_bedgraph. intros H.
  destruct (parse_three (trim_end line)) as [[[[chrom st] e] r3]| | |]; cbn [rbind] in H; try discriminate.
  destruct r3 as [t|]; [|discriminate]. destruct (pf (fst (split_first TAB t))) as [b|] eqn:E; [|discriminate].
  injection H as _ <-. cbn [v_bits]. eauto.
Qed.

Theorem bedgraph_input_ok pf cs_text in_text sizes items :
  parse_chrom_sizes cs_text = Ok sizes -> mapM (parse_bedgraph pf) (lines in_text) = Ok items ->
  (forall t b, pf t = Some b -> b < U32) ->
  Forall (fun it : item => no_zero (fst it) /\ Nlen (fst it) < U32) items -> Nlen (runs items) < U16 ->
  BigWigFileRoundTrip.input_ok sizes items.
Proof.
  intros Hcs Hin Hpf Hnames Hcount. unfold BigWigFileRoundTrip.input_ok.
  split; [|split; [exact Hcount|split; [exact (parse_chrom_sizes_bound _ _ Hcs)|]]].
  - apply Forall_forall. intros c Hc. apply in_map_iff in Hc as [[c' vs] [E Hr]]. cbn [fst] in E. subst c'.
    apply run_name_in_input in Hr. apply in_map_iff in Hr as [it [E Hit]]. rewrite Forall_forall in Hnames.
    rewrite <- E. exact (Hnames it Hit).
  - revert Hin. apply (mapM_Forall _ _ (fun _ => True)); [|apply Forall_forall; intros; exact I].
    intros line [c v] _ H. cbn [snd]. destruct (parse_bedgraph_bits pf line c v H) as [t Ht]. exact (Hpf t _ Ht).
Qed.

Theorem bed_file_hyps_of_text o cs_text in_text sizes items f :
  parse_chrom_sizes cs_text = Ok sizes -> mapM parse_bed (lines in_text) = Ok items ->
  o_bs o <= 65535 -> Nlen (bruns (to_bitems items)) < U16 ->
  Forall (fun it : name * bed_entry => BedReadInfo.no_nul_name (fst it) /\ Nlen (fst it) < U32 /\ BedCodec.no_nul (be_rest (snd it))
                                       /\ ~ (be_start (snd it) = 0 /\ be_end (snd it) = 0)) items ->
  Nlen f <= U64 -> BedEndToEnd.file_hyps o sizes (to_bitems items) f.
Proof.
  intros Hcs Hin Hbs Hcount Hrec Hlen. unfold BedEndToEnd.file_hyps.
  split; [exact Hbs|]. split; [exact Hcount|]. split; [|split; [exact (parse_chrom_sizes_bound _ _ Hcs)|exact Hlen]].
  unfold BedEndToEnd.input_ok, to_bitems. apply Forall_map. apply Forall_forall. intros it Hit.
  pose proof (parsed_bed_canonical in_text items Hin) as Hcan. rewrite Forall_forall in Hrec, Hcan.
  destruct (Hrec it Hit) as (A & B & C & D). destruct (Hcan it Hit) as (_ & _ & S & E).
  cbn [fst snd]. split; [exact A|]. split; [exact B|]. unfold BedCodec.entry_ok, to_entry. cbn [e_start e_end e_rest].
  unfold U32_MAX, U32 in *. repeat split; [lia|lia|exact C|exact D].
Qed.
