(* Several lanes (data region + zoom levels) sharing the main thread and the splice loop
   (Model/Pipeline.v part 3): the projection of every run onto one lane is a run of the single-lane
   machine, so the single-lane theorems hold for every lane of every run. *)
From BT Require Import Base.Util Model.RTree Model.BBIFile Model.Pipeline Proofs.PipelineInv Proofs.PipelineThms.

(* ---------------------------------------------------------------- lists *)
Lemma nth_set_nth_same {X} (x d : X) : forall l k, (k < length l)%nat -> nth k (set_nth k x l) d = x.
Proof.
  induction l as [|y r IH]; intros [|k]; cbn [set_nth length nth]; intros H; try lia; auto. apply IH. lia.
Qed.
Lemma nth_set_nth_other {X} (x d : X) : forall l k j, j <> k -> nth j (set_nth k x l) d = nth j l d.
Proof.
  induction l as [|y r IH]; intros [|k] [|j] H; cbn [set_nth nth]; auto; try congruence.
Qed.
Lemma nth_error_nth_eq {X} (l : list X) k x d : nth_error l k = Some x -> nth k l d = x.
Proof. intros H. apply nth_error_nth. exact H. Qed.

Lemma nth_map_fix {X} (f : X -> X) d : f d = d -> forall L l, nth l (map f L) d = f (nth l L d).
Proof. intros H. induction L as [|x r IH]; intros [|l]; cbn [map nth]; auto. Qed.
Lemma close_at_nil a : close_at a [] = [].
Proof. unfold close_at. destruct a; reflexivity. Qed.

(* ---------------------------------------------------------------- well-formed states *)
Record LW (K : nat) (s : lst) : Prop := {
  lw_lanes : Forall (fun ln => length ln = K) (l_lanes s);
  lw_files : length (l_files s) = length (l_lanes s);
  lw_some : (1 <= length (l_lanes s))%nat }.

Lemma lw_lane_len K s l : LW K s -> (l < length (l_lanes s))%nat -> length (nth l (l_lanes s) []) = K.
Proof.
  intros W Hl. pose proof (lw_lanes _ _ W) as F. rewrite Forall_forall in F. apply F. apply nth_In. exact Hl.
Qed.
Lemma lw_K K s : LW K s -> lane_K s = K.
Proof. intros W. unfold lane_K. apply (lw_lane_len K s 0 W). apply (lw_some _ _ W). Qed.

Lemma Forall_set_nth {X} (P : X -> Prop) x : forall l k, Forall P l -> P x -> Forall P (set_nth k x l).
Proof.
  induction l as [|y r IH]; intros [|k] F Hx; cbn [set_nth]; auto; inversion F; subst; constructor; auto.
Qed.

Lemma close_at_length a ln : length (close_at a ln) = length ln.
Proof. unfold close_at. destruct (nth_error ln a); [apply set_nth_length|reflexivity]. Qed.

Lemma lw_step K g t s s' : LW K s -> lstep g t s = Some s' -> LW K s'.
Proof.
  intros W. pose proof (lw_lanes _ _ W) as F. pose proof (lw_files _ _ W) as Hf. pose proof (lw_some _ _ W) as H1.
  assert (Hon : forall l k f, lon_chrom l k f s = Some s' -> LW K s').
  { intros l k f. unfold lon_chrom. destruct (k <? l_started s)%nat; [|discriminate].
    destruct (nth_error (l_lanes s) l) as [ln|] eqn:El; [|discriminate].
    destruct (nth_error ln k) as [c|]; [|discriminate]. destruct (f c) as [c'|]; [|discriminate].
    intros H. inversion H; subst s'; clear H. constructor; cbn.
    - apply Forall_set_nth; [exact F|]. rewrite set_nth_length. rewrite Forall_forall in F. apply F.
      eapply nth_error_In; eauto.
    - rewrite set_nth_length. exact Hf.
    - rewrite set_nth_length. exact H1. }
  destruct t as [|l k|l k i|l k|]; cbn [lstep]; try (apply Hon).
  - unfold lmain_step. destruct (l_closed s); [discriminate|].
    destruct ((l_started s <? lane_K s)%nat && (l_started s - l_advanced s <? g_win g)%nat).
    + intros H. inversion H; subst s'. constructor; cbn; assumption.
    + destruct (l_advanced s <? l_started s)%nat.
      * destruct (forallb (todo_done (l_advanced s)) (l_lanes s)); [|discriminate].
        intros H. inversion H; subst s'. constructor; cbn.
        -- rewrite Forall_map. eapply Forall_impl; [|exact F]. cbn. intros ln Hl. rewrite close_at_length. exact Hl.
        -- rewrite map_length. exact Hf.
        -- rewrite map_length. exact H1.
      * destruct (lane_K s <=? l_started s)%nat; [|discriminate].
        intros H. inversion H; subst s'. constructor; cbn; assumption.
  - unfold lsplice_step. destruct (l_ph s) as [|j|j|j|].
    + destruct (l_k s <? l_started s)%nat.
      * intros H. inversion H; subst s'. constructor; cbn; assumption.
      * destruct (l_closed s); [|discriminate]. intros H. inversion H; subst s'. constructor; cbn; assumption.
    + destruct ((l_k s <? l_started s)%nat && (j <? length (l_lanes s))%nat); [|discriminate].
      intros H. inversion H; subst s'. constructor; cbn; assumption.
    + destruct (lane_wdone s j); [|discriminate]. intros H. inversion H; subst s'. constructor; cbn; assumption.
    + destruct (lane_wdone s j); [|discriminate].
      destruct (S j <? length (l_lanes s))%nat; intros H; inversion H; subst s'; constructor; cbn;
        try assumption; rewrite set_nth_length; exact Hf.
    + discriminate.
Qed.

Lemma lw_init Ps Sss K : length Ps = length Sss -> (1 <= length Sss)%nat ->
  Forall (fun Ss => length Ss = K) Sss -> LW K (linit Ps Sss).
Proof.
  intros Hp H1 F. constructor; cbn.
  - rewrite Forall_map. eapply Forall_impl; [|exact F]. cbn. intros Ss H. rewrite map_length. exact H.
  - rewrite map_length. exact Hp.
  - rewrite map_length. exact H1.
Qed.

(* ---------------------------------------------------------------- the projection commutes with steps *)
Lemma lane_wdone_spec s j c : lane_wdone s j = Some c ->
  (j < length (l_lanes s))%nat /\ nth_error (nth j (l_lanes s) []) (l_k s) = Some c /\ c_wdone c = true.
Proof.
  unfold lane_wdone. destruct (nth_error (l_lanes s) j) as [ln|] eqn:El; [|discriminate].
  destruct (nth_error ln (l_k s)) as [c0|] eqn:Ec; [|discriminate].
  destruct (c_wdone c0) eqn:Ew; [|discriminate]. intros H. inversion H; subst c0.
  split; [eapply nth_error_lt; eauto|]. rewrite (nth_error_nth_eq _ _ _ [] El). auto.
Qed.

Lemma proj_sim K g s t l : LW K s -> (l < length (l_lanes s))%nat ->
  proj l (lstep_or_stay g t s) = proj l s \/
  exists t', step g t' (proj l s) = Some (proj l (lstep_or_stay g t s)).
Proof.
  intros W Hl. unfold lstep_or_stay. destruct (lstep g t s) as [s'|] eqn:Es; [|left; reflexivity].
  pose proof (lw_lane_len K s l W Hl) as HlenK. pose proof (lw_K K s W) as HK.
  pose proof (lw_files _ _ W) as Hfl.
  assert (Hon : forall l0 k f t', lon_chrom l0 k f s = Some s' ->
            (forall p, step g t' p = on_chrom k f p) ->
            proj l s' = proj l s \/ exists t', step g t' (proj l s) = Some (proj l s')).
  { intros l0 k f t' Hs Ht'. unfold lon_chrom in Hs. destruct (k <? l_started s)%nat eqn:Hk; [|discriminate].
    destruct (nth_error (l_lanes s) l0) as [ln|] eqn:El; [|discriminate].
    destruct (nth_error ln k) as [c|] eqn:Ec; [|discriminate]. destruct (f c) as [c'|] eqn:Ef; [|discriminate].
    inversion Hs; subst s'; clear Hs. unfold proj. cbn [l_lanes l_started l_advanced l_closed l_k l_ph l_files].
    destruct (proj_pos l (l_k s) (l_ph s)) as [pk ppc].
    destruct (Nat.eq_dec l l0) as [->|Hne].
    - right. exists t'. rewrite Ht'. unfold on_chrom. cbn [p_started p_chroms]. rewrite Hk.
      rewrite (nth_error_nth_eq _ _ _ [] El), Ec, Ef. cbn [p_advanced p_closed sp_k sp_pc sp_file].
      rewrite nth_set_nth_same by exact Hl. reflexivity.
    - left. rewrite nth_set_nth_other by exact Hne. reflexivity. }
  destruct t as [|l0 k|l0 k i|l0 k|]; cbn [lstep] in Es.
  - (* main *)
    right. exists TMain. cbn [step]. unfold lmain_step in Es. unfold main_step, proj.
    destruct (proj_pos l (l_k s) (l_ph s)) as [pk ppc] eqn:Epos. cbn [p_chroms p_started p_advanced p_closed sp_k sp_pc sp_file].
    rewrite HlenK. rewrite HK in Es.
    destruct (l_closed s) eqn:Hc; [discriminate|].
    destruct ((l_started s <? K)%nat && (l_started s - l_advanced s <? g_win g)%nat).
    + inversion Es; subst s'. cbn [l_lanes l_started l_advanced l_closed l_k l_ph l_files]. rewrite Epos. reflexivity.
    + destruct (l_advanced s <? l_started s)%nat.
      * destruct (forallb (todo_done (l_advanced s)) (l_lanes s)) eqn:Hall; [|discriminate].
        inversion Es; subst s'. cbn [l_lanes l_started l_advanced l_closed l_k l_ph l_files]. rewrite Epos.
        rewrite forallb_forall in Hall. specialize (Hall (nth l (l_lanes s) []) (nth_In _ _ Hl)).
        unfold todo_done in Hall.
        destruct (nth_error (nth l (l_lanes s) []) (l_advanced s)) as [c|] eqn:Ec; [|discriminate].
        destruct (c_todo c); [|discriminate].
        replace (nth l (map (close_at (l_advanced s)) (l_lanes s)) [])
          with (close_at (l_advanced s) (nth l (l_lanes s) [])).
        2:{ symmetry. apply nth_map_fix. apply close_at_nil. }
        unfold close_at. rewrite Ec. reflexivity.
      * destruct (K <=? l_started s)%nat; [|discriminate].
        inversion Es; subst s'. cbn [l_lanes l_started l_advanced l_closed l_k l_ph l_files]. rewrite Epos. reflexivity.
  - apply (Hon l0 k _ (TProd k) Es). reflexivity.
  - apply (Hon l0 k _ (TEnc k i) Es). reflexivity.
  - apply (Hon l0 k _ (TWrite k) Es). reflexivity.
  - (* splice *)
    unfold lsplice_step in Es. unfold proj.
    destruct (l_ph s) as [|j|j|j|] eqn:Hph; cbn [proj_pos].
    + (* LRecv *)
      destruct (l_k s <? l_started s)%nat eqn:Hks.
      * inversion Es; subst s'; clear Es. cbn [l_lanes l_started l_advanced l_closed l_k l_ph l_files].
        unfold after_switch. destruct (1 <? length (l_lanes s))%nat eqn:H1L; cbn [proj_pos].
        -- destruct l as [|l].
           ++ cbn [Nat.ltb Nat.leb]. right. exists TSplice. cbn [step]. unfold splice_step. cbn [sp_pc sp_k p_started p_closed p_chroms p_advanced sp_file]. rewrite Hks. reflexivity.
           ++ cbn [Nat.ltb Nat.leb]. left. reflexivity.
        -- apply Nat.ltb_ge in H1L. assert (l = 0)%nat by lia. subst l. cbn [Nat.ltb Nat.leb].
           right. exists TSplice. cbn [step]. unfold splice_step. cbn [sp_pc sp_k p_started p_closed p_chroms p_advanced sp_file]. rewrite Hks. reflexivity.
      * destruct (l_closed s) eqn:Hc; [|discriminate]. inversion Es; subst s'; clear Es.
        cbn [l_lanes l_started l_advanced l_closed l_k l_ph l_files proj_pos].
        right. exists TSplice. cbn [step]. unfold splice_step. cbn [sp_pc sp_k p_started p_closed p_chroms p_advanced sp_file]. rewrite Hks. reflexivity.
    + (* LSwitch j *)
      destruct ((l_k s <? l_started s)%nat && (j <? length (l_lanes s))%nat) eqn:Hg; [|discriminate].
      apply andb_prop in Hg. destruct Hg as [Hks HjL]. apply Nat.ltb_lt in HjL.
      inversion Es; subst s'; clear Es. cbn [l_lanes l_started l_advanced l_closed l_k l_ph l_files].
      unfold after_switch.
      destruct (Nat.ltb_spec l j) as [Hlj|Hlj].
      * left. destruct (S j <? length (l_lanes s))%nat; cbn [proj_pos]; [|reflexivity].
        destruct (Nat.ltb_spec l (S j)); [reflexivity|lia].
      * destruct (Nat.eq_dec l j) as [->|Hne].
        -- right. exists TSplice. cbn [step]. unfold splice_step. cbn [sp_pc sp_k p_started]. rewrite Hks.
           destruct (S j <? length (l_lanes s))%nat; cbn [proj_pos]; [|reflexivity].
           destruct (Nat.ltb_spec j (S j)); [reflexivity|lia].
        -- left. destruct (Nat.ltb_spec (S j) (length (l_lanes s))) as [HS|HS]; [|lia]. cbn [proj_pos].
           destruct (Nat.ltb_spec l (S j)); [lia|reflexivity].
    + (* LAwaitTask j *)
      destruct (lane_wdone s j) as [c|] eqn:Ew; [|discriminate]. inversion Es; subst s'; clear Es.
      cbn [l_lanes l_started l_advanced l_closed l_k l_ph l_files proj_pos].
      destruct (lane_wdone_spec s j c Ew) as [HjL [Hc Hwd]].
      destruct (Nat.ltb_spec l j) as [Hlj|Hlj]; [left; reflexivity|].
      destruct (Nat.eqb_spec l j) as [->|Hne]; [|left; reflexivity].
      right. exists TSplice. cbn [step]. unfold splice_step. cbn [sp_pc sp_k p_chroms]. rewrite Hc, Hwd. reflexivity.
    + (* LAwaitFile j *)
      destruct (lane_wdone s j) as [c|] eqn:Ew; [|discriminate].
      destruct (lane_wdone_spec s j c Ew) as [HjL [Hc Hwd]].
      destruct (S j <? length (l_lanes s))%nat eqn:HSj; inversion Es; subst s'; clear Es;
        cbn [l_lanes l_started l_advanced l_closed l_k l_ph l_files proj_pos].
      * destruct (Nat.ltb_spec l j) as [Hlj|Hlj].
        -- left. destruct (Nat.ltb_spec l (S j)); [|lia]. rewrite nth_set_nth_other by lia. reflexivity.
        -- destruct (Nat.eqb_spec l j) as [->|Hne].
           ++ right. exists TSplice. cbn [step]. unfold splice_step. cbn [sp_pc sp_k p_chroms]. rewrite Hc, Hwd.
              destruct (Nat.ltb_spec j (S j)); [|lia]. rewrite nth_set_nth_same by (rewrite Hfl; exact HjL). reflexivity.
           ++ left. destruct (Nat.ltb_spec l (S j)); [lia|]. rewrite nth_set_nth_other by exact Hne. reflexivity.
      * apply Nat.ltb_ge in HSj.
        destruct (Nat.ltb_spec l j) as [Hlj|Hlj].
        -- left. rewrite nth_set_nth_other by lia. reflexivity.
        -- destruct (Nat.eqb_spec l j) as [->|Hne]; [|lia].
           right. exists TSplice. cbn [step]. unfold splice_step. cbn [sp_pc sp_k p_chroms]. rewrite Hc, Hwd.
           rewrite nth_set_nth_same by (rewrite Hfl; exact HjL). reflexivity.
    + discriminate.
Qed.

Lemma lstep_lanes_length g t s s' : lstep g t s = Some s' -> length (l_lanes s') = length (l_lanes s).
Proof.
  destruct t as [|l k|l k i|l k|]; cbn [lstep].
  - unfold lmain_step. destruct (l_closed s); [discriminate|].
    destruct ((l_started s <? lane_K s)%nat && (l_started s - l_advanced s <? g_win g)%nat); [intros H; inversion H; reflexivity|].
    destruct (l_advanced s <? l_started s)%nat.
    + destruct (forallb (todo_done (l_advanced s)) (l_lanes s)); [|discriminate]. intros H; inversion H. cbn. apply map_length.
    + destruct (lane_K s <=? l_started s)%nat; [|discriminate]. intros H; inversion H; reflexivity.
  - unfold lon_chrom. destruct (k <? l_started s)%nat; [|discriminate]. destruct (nth_error (l_lanes s) l); [|discriminate].
    destruct (nth_error l0 k); [|discriminate]. destruct (prod_step (g_cap g) c); [|discriminate].
    intros H; inversion H. cbn. apply set_nth_length.
  - unfold lon_chrom. destruct (k <? l_started s)%nat; [|discriminate]. destruct (nth_error (l_lanes s) l); [|discriminate].
    destruct (nth_error l0 k); [|discriminate]. destruct (enc_step i c); [|discriminate].
    intros H; inversion H. cbn. apply set_nth_length.
  - unfold lon_chrom. destruct (k <? l_started s)%nat; [|discriminate]. destruct (nth_error (l_lanes s) l); [|discriminate].
    destruct (nth_error l0 k); [|discriminate]. destruct (write_step (g_fifo g) c); [|discriminate].
    intros H; inversion H. cbn. apply set_nth_length.
  - unfold lsplice_step. destruct (l_ph s) as [|j|j|j|].
    + destruct (l_k s <? l_started s)%nat; [intros H; inversion H; reflexivity|].
      destruct (l_closed s); [|discriminate]. intros H; inversion H; reflexivity.
    + destruct ((l_k s <? l_started s)%nat && (j <? length (l_lanes s))%nat); [|discriminate]. intros H; inversion H; reflexivity.
    + destruct (lane_wdone s j); [|discriminate]. intros H; inversion H; reflexivity.
    + destruct (lane_wdone s j); [|discriminate]. destruct (S j <? length (l_lanes s))%nat; intros H; inversion H; reflexivity.
    + discriminate.
Qed.

(* every run of the lanes machine, seen from lane l, is a run of the single-lane machine *)
Lemma proj_run K g l : forall sched s, LW K s -> (l < length (l_lanes s))%nat ->
  exists sched', proj l (lrun g sched s) = run g sched' (proj l s).
Proof.
  induction sched as [|t r IH]; intros s W Hl; cbn [lrun].
  - exists []. reflexivity.
  - assert (W' : LW K (lstep_or_stay g t s)).
    { unfold lstep_or_stay. destruct (lstep g t s) eqn:E; [eapply lw_step; eauto|exact W]. }
    assert (Hl' : (l < length (l_lanes (lstep_or_stay g t s)))%nat).
    { unfold lstep_or_stay. destruct (lstep g t s) eqn:E; [rewrite (lstep_lanes_length _ _ _ _ E)|]; exact Hl. }
    destruct (IH _ W' Hl') as [sched' Hrun].
    destruct (proj_sim K g s t l W Hl) as [Heq|[t' Hstep]].
    + exists sched'. rewrite Hrun, Heq. reflexivity.
    + exists (t' :: sched'). cbn [run]. unfold step_or_stay at 1. rewrite Hstep. exact Hrun.
Qed.

Lemma proj_init l Ps Sss : (l < length Sss)%nat ->
  proj l (linit Ps Sss) = init (nth l Ps []) (nth l Sss []).
Proof.
  intros Hl. unfold proj, linit, init. cbn. f_equal.
  change (@nil chrom) with (map init_chrom []). apply map_nth.
Qed.

(* ---------------------------------------------------------------- the single-lane theorems, per lane *)
Theorem lanes_splice : forall g Ps Sss K sched, g_fifo g = true ->
  length Ps = length Sss -> (1 <= length Sss)%nat -> Forall (fun Ss => length Ss = K) Sss ->
  let s := lrun g sched (linit Ps Sss) in
  forall l, (l < length Sss)%nat ->
    (* at every moment lane l's destination holds a whole number of chromosomes, in order *)
    (exists n, nth l (l_files s) [] = nth l Ps [] ++ data_bytes (concat (firstn n (nth l Sss [])))) /\
    (* FIFO order in every lane *)
    (forall k c, nth_error (nth l (l_lanes s) []) k = Some c ->
       c_out c ++ map fst (c_fifo c) ++ c_todo c = nth k (nth l Sss []) []) /\
    (* when the splice task has returned, lane l holds the sequential bytes and index *)
    (lterminal s = true ->
       nth l (l_files s) [] = seq_file (nth l Ps []) (nth l Sss []) /\
       place (Nlen (nth l Ps [])) (concat (map c_out (nth l (l_lanes s) []))) = seq_index (nth l Ps []) (nth l Sss [])).
Proof.
  intros g Ps Sss K sched Hg Hp H1 F s l Hl.
  pose proof (lw_init Ps Sss K Hp H1 F) as W.
  assert (Hl0 : (l < length (l_lanes (linit Ps Sss)))%nat) by (cbn; rewrite map_length; exact Hl).
  destruct (proj_run K g l sched (linit Ps Sss) W Hl0) as [sched' Hrun]. fold s in Hrun.
  rewrite proj_init in Hrun by exact Hl.
  pose proof (inv_reachable (nth l Ps []) (nth l Sss []) g sched' Hg) as I. rewrite <- Hrun in I.
  split; [|split].
  - exists (sp_k (proj l s)). pose proof (i_file _ _ _ I) as Hf. unfold proj in Hf at 1.
    destruct (proj_pos l (l_k s) (l_ph s)) as [pk ppc] eqn:Epos. cbn [sp_file] in Hf. rewrite Hf.
    unfold proj. rewrite Epos. reflexivity.
  - intros k c Hn. assert (Hn' : nth_error (p_chroms (proj l s)) k = Some c).
    { unfold proj. destruct (proj_pos l (l_k s) (l_ph s)). exact Hn. }
    apply (cl_order _ _ (cg_local _ _ _ _ _ _ (i_good _ _ _ I k c Hn'))).
  - intros Ht. unfold lterminal in Ht. destruct (l_ph s) eqn:Hph; try discriminate.
    assert (Hterm : terminal (run g sched' (init (nth l Ps []) (nth l Sss []))) = true).
    { rewrite <- Hrun. unfold proj. rewrite Hph. reflexivity. }
    destruct (pipeline_splice g (nth l Ps []) (nth l Sss []) sched' Hg Hterm) as [Hf Hi].
    rewrite <- Hrun in Hf, Hi. unfold proj in Hf, Hi. rewrite Hph in Hf, Hi. cbn [proj_pos] in Hf, Hi.
    split; [exact Hf|exact Hi].
Qed.
