(* C14, bigBed writer: what the READERS answer on the destination at a crash point that includes
   the header operation.  Such an image X agrees with the finished file F everywhere but in the
   total-summary slot and the item count (the 48 bytes before the data) and in the closing magic;
   the header, the zoom directory, the autoSql text, the data sections, the chromosome tree and the
   index are in place.  The whole-file theorem of C02/C04 (Proofs/BedEndToEnd.v bb_write_read) is
   stated for the bytes [assemble] returns; the same steps are redone here for ANY image that holds
   those regions ([readable]): read_info returns the same header, zoom directory and chromosome
   table on X and on F, every range query on a chromosome with data returns, on X as on F, exactly
   the stored entries the reader's filter keeps, in stored order, and the autoSql reads back. *)
From Coq Require Import Sorting.Sorted.
From BT Require Import Base.Util Base.LE Base.Float Generated.Consts Model.RTree Model.BBIFile Model.BigWigWrite Model.BBIRead
  Model.BigBedWrite Model.BBIReadBed Proofs.Chunks Proofs.RTreeAbs Proofs.RTreeBuild Proofs.RTreeCodec
  Proofs.BedQuery Proofs.BedCodec Proofs.BedImage Proofs.BedAssemble Proofs.BedReadInfo Proofs.BedEndToEnd.
From BT Require Model.AutoSql Proofs.SinkBytes Proofs.SinkRead Proofs.RTreeLayout.
Local Open Scope N_scope.

(* ---- agreement of a crash-point image with the finished file: everywhere but in the window
   [so, so+48) and the last four bytes ---- *)
Definition agrees_at (so : nat) (X F : list N) : Prop :=
  (length F <= length X + 4 /\ length X <= length F)%nat
  /\ forall i, (i + 4 < length F)%nat -> ~ (so <= i < so + 48)%nat -> nth i X 0 = nth i F 0.

Lemma agrees_at_refl so F : agrees_at so F F.
Proof. split; [lia|reflexivity]. Qed.

Lemma agrees_at_transfer so X F off x : agrees_at so X F -> has_at F off x ->
  ((N.to_nat off + length x <= so)%nat \/ ((so + 48 <= N.to_nat off)%nat /\ (N.to_nat off + length x + 4 <= length F)%nat)) ->
  (so + 52 <= length F)%nat -> has_at X off x.
Proof.
  intros [[Hl1 Hl2] Hn] H Hr HF. pose proof (has_at_length _ _ _ H) as Hb.
  apply (SinkRead.has_at_transfer X F off x H).
  - destruct Hr as [Hr|[Hr1 Hr2]]; lia.
  - intros i Hi. apply Hn; destruct Hr as [Hr|[Hr1 Hr2]]; lia.
Qed.

Section BedImages.
Variables (o : opts) (sizes : list (name * N)) (autosql : option (list N)) (input : list bitem).
Variables (sql : list N) (fc : N) (ids : idmap) (outs : list bchrom).
Variables (ct ix : list N) (lv : nat) (zhdrs : list zoom_header).
Hypothesis Hbs : 2 <= o_bs o <= 65535.
Hypothesis Esch : bb_schema autosql = Ok (sql, fc).
Hypothesis Ecol : bb_collect o sizes input = Ok (ids, outs).
Hypothesis Hnchr : Nlen (bruns input) < U16.
Hypothesis Hin : input_ok input.
Hypothesis Hsizes : Forall (fun s => snd s < U32) sizes.

Let gs := gsecs (o_ips o) (groups_of outs).
Let pre := bb_pre sql.
Let dbytes := data_bytes (map sd_of gs).
Let cis := Nlen pre + Nlen dbytes.
Let ixs := Nlen pre + Nlen dbytes + Nlen ct.
Hypothesis Hct : chrom_tree_bytes sizes ids = Ok ct.
Hypothesis Hix : write_index (o_bs o) (o_ips o) ixs (place (Nlen pre) (map sd_of gs)) = Ok (ix, lv).
Hypothesis Hzl : (length zhdrs <= 10)%nat.

Let hdr64 := header_bytes BIGBED_MAGIC (Nlen zhdrs) cis (Nlen pre - 8) ixs fc fc ASQL_OFFSET (Nlen pre - 48) 0.
Let zdir := flat_map zoom_header_bytes zhdrs.
Let h : header :=
  {| h_big := false; h_bigwig := false; h_version := 4; h_zoom_levels := Nlen zhdrs; h_chrom_tree_off := cis;
     h_full_data_off := Nlen pre - 8; h_full_index_off := ixs; h_field_count := fc; h_defined_fc := fc;
     h_asql_off := ASQL_OFFSET; h_summary_off := Nlen pre - 48; h_ubuf := 0 |}.
(* the zoom directory as the reader decodes it *)
Let zs : list zoom_header := match read_zoom_headers false zdir 0 (length zhdrs) with Ok z => z | _ => [] end.
Let the_info : info :=
  {| i_hdr := h; i_zooms := zs;
     i_chroms := map (fun it => let '(k, id, len) := it in {| ci_name := k; ci_id := id; ci_len := len |}) (triples sizes ids) |}.

(* what an image must hold for the readers *)
Record readable (X : list N) : Prop := {
  rd_hdr : has_at X 0 (hdr64 ++ zdir);
  rd_sql : has_at X 304 (sql ++ [0]);
  rd_data : has_at X (Nlen pre) dbytes;
  rd_ct : has_at X cis ct;
  rd_ix : has_at X ixs ix;
  rd_len : Nlen X <= U64 }.

(* ---- facts about the accepted input (as in bb_write_read) ---- *)
Let n := length (bruns input).

Lemma acc_runs : map (fun c => (bc_name c, bc_entries c)) outs = bruns input /\
                 ids = combine (map fst (bruns input)) (seqN 0 n) /\
                 map bc_id outs = seqN 0 n /\ NoDup (map fst (bruns input)).
Proof.
  pose proof Ecol as E. unfold bb_collect in E. destruct input as [|i0 rest]; [discriminate|].
  destruct (process_bruns_outs _ _ _ _ _ _ _ E) as [H1 _].
  destruct (process_bruns_ids o sizes _ None [] ids outs E) as [H2 [H3 [H4 _]]].
  split; [exact H1|]. split; [exact H2|]. split; [exact H3|exact H4].
Qed.

Lemma acc_names : map fst ids = map fst (bruns input).
Proof.
  destruct acc_runs as [_ [Hids _]]. rewrite Hids. unfold n. rewrite <- (map_length fst (bruns input)). apply combine_seqN_fst.
Qed.
Lemma acc_idsnd : map snd ids = seqN 0 n.
Proof.
  destruct acc_runs as [_ [Hids _]]. rewrite Hids. unfold n. rewrite <- (map_length fst (bruns input)). apply combine_seqN_snd.
Qed.
Lemma acc_len_ids : length ids = n.
Proof. rewrite <- (map_length fst), acc_names, map_length. reflexivity. Qed.

Lemma acc_run_ok c es : In (c, es) (bruns input) -> no_nul_name c /\ Nlen c < U32 /\ Forall entry_ok es.
Proof.
  intros Hce. pose proof Hin as Hin'. rewrite <- (bruns_untag input) in Hin'. unfold input_ok, untag in Hin'.
  rewrite Forall_forall in Hin'.
  assert (Hall : forall x, In x es -> no_nul_name c /\ Nlen c < U32 /\ entry_ok x).
  { intros x Hx. specialize (Hin' (c, x)). cbn [fst snd] in Hin'. apply Hin'.
    apply in_flat_map. exists (c, es). split; [exact Hce|]. cbn [fst snd]. unfold tag. apply in_map. exact Hx. }
  pose proof (bruns_nonempty _ _ _ Hce) as Hne.
  destruct es as [|x0 es']; [congruence|].
  destruct (Hall x0 (or_introl eq_refl)) as [A [B _]]. split; [exact A|]. split; [exact B|].
  apply Forall_forall. intros x Hx. apply (Hall x Hx).
Qed.

Lemma acc_tri : Forall (chrom_ok (max_key ids)) (triples sizes ids).
Proof.
  unfold triples. apply Forall_forall. intros it Hit. apply in_map_iff in Hit as [[k id] [<- Hk]]. cbn [fst snd chrom_ok].
  assert (Hkin : In k (map fst (bruns input))) by (rewrite <- acc_names; change k with (fst (k, id)); apply in_map; exact Hk).
  apply in_map_iff in Hkin as [[k' es] [E Hr]]. cbn [fst] in E. subst k'.
  destruct (acc_run_ok _ _ Hr) as [Hnn [Hkl _]].
  split; [exact (max_key_ge ids (k, id) Hk)|]. split; [exact Hnn|]. split.
  - assert (Hidin : In id (seqN 0 n)) by (rewrite <- acc_idsnd; change id with (snd (k, id)); apply in_map; exact Hk).
    apply seqN_bound in Hidin. unfold U16, U32 in *. unfold n in Hidin. unfold Nlen in Hnchr. lia.
  - destruct (lookup k sizes) as [len|] eqn:El; [|unfold U32; lia].
    destruct (lookup_in _ _ _ El) as [k2 Hk2]. pose proof Hsizes as Hs. rewrite Forall_forall in Hs. exact (Hs (k2, len) Hk2).
Qed.

Lemma acc_maxkey : N.of_nat (max_key ids) < U32.
Proof.
  unfold max_key. assert (G : forall (l : idmap) a, N.of_nat a < U32 -> Forall (fun c => Nlen (fst c) < U32) l ->
                               N.of_nat (fold_left (fun a c => Nat.max a (length (fst c))) l a) < U32).
  { induction l as [|c l IH]; intros a Ha Hl; [exact Ha|]. cbn [fold_left]. cbv beta. inversion Hl as [|? ? Hc Hl']; subst.
    apply IH; [|exact Hl']. unfold Nlen in Hc.
    apply (Nat.max_case a (length (fst c)) (fun k => N.of_nat k < U32)); assumption. }
  apply G; [unfold U32; lia|]. apply Forall_forall. intros [k id] Hk. cbn [fst].
  assert (Hkin : In k (map fst (bruns input))) by (rewrite <- acc_names; change k with (fst (k, id)); apply in_map; exact Hk).
  apply in_map_iff in Hkin as [[k' es] [E Hr]]. cbn [fst] in E. subst k'. apply (acc_run_ok _ _ Hr).
Qed.

Lemma acc_gid : map fst (groups_of outs) = seqN 0 n.
Proof. destruct acc_runs as [_ [_ [Hb _]]]. unfold groups_of. rewrite map_map. exact Hb. Qed.
Lemma acc_gsorted : StronglySorted N.lt (map fst (groups_of outs)).
Proof. rewrite acc_gid. apply seqN_lt_sorted. Qed.
Lemma acc_gss : Forall (fun g => starts_sorted (snd g)) (groups_of outs).
Proof.
  destruct (collect_partition _ _ _ _ _ Ecol) as [_ [Houts _]].
  unfold groups_of. apply Forall_forall. intros g Hg. apply in_map_iff in Hg as [c [<- Hc]]. cbn [snd].
  rewrite Forall_forall in Houts. destruct (Houts c Hc) as [_ Hwf]. eapply wfe_sorted. exact Hwf.
Qed.
Lemma acc_gs_ok : Forall (fun g => snd g <> [] /\ Forall entry_ok (snd g)) gs.
Proof.
  destruct acc_runs as [Hruns _].
  apply Forall_forall. intros a Ha. destruct (gsecs_in _ _ _ Ha) as [g [Hg [_ Hne]]]. split; [exact Hne|].
  unfold gs, gsecs in Ha. apply in_flat_map in Ha as [g2 [Hg2 Ha]]. apply in_map_iff in Ha as [c [<- Hc]]. cbn [snd].
  unfold groups_of in Hg2. apply in_map_iff in Hg2 as [bc [<- Hbc]]. cbn [snd fst] in *.
  assert (Hr : In (bc_name bc, bc_entries bc) (bruns input)).
  { rewrite <- Hruns. apply (in_map (fun c => (bc_name c, bc_entries c))). exact Hbc. }
  destruct (acc_run_ok _ _ Hr) as [_ [_ Hall]].
  rewrite sections_are_chunks in Hc.
  apply Forall_forall. intros x Hx. rewrite Forall_forall in Hall. apply Hall.
  rewrite <- (chunks_concat (slot (o_ips o)) (bc_entries bc)) by (unfold slot; lia).
  apply in_concat. exists c. split; assumption.
Qed.

Lemma Lpre : length pre = (304 + length sql + 1 + 40 + 8)%nat.
Proof. unfold pre, bb_pre, u64. rewrite !app_length, blank_headers_length, repeatN_length, enc_len. cbn [length]. lia. Qed.
Lemma HNprelen : Nlen pre = 304 + Nlen sql + 1 + 40 + 8.
Proof. unfold Nlen. rewrite Lpre. lia. Qed.
Lemma Hasql : ASQL_OFFSET = 304.
Proof. unfold ASQL_OFFSET, Nlen. now rewrite blank_headers_length. Qed.
Lemma Hfc16 : fc < U16.
Proof.
  pose proof Esch as E. unfold bb_schema, AutoSql.write_pre_schema in E.
  destruct (match AutoSql.parse _ with Ok _ => _ | Err _ => _ | Panic => _ | Fuel => _ end) as [x| | |]; cbn [rbind] in E; try discriminate.
  destruct (existsb _ _); [discriminate|]. apply Ok_inj in E. inversion E. apply N.mod_lt. discriminate.
Qed.

(* the index begins with its 48-byte header *)
Lemma ix_nonempty : 48 <= Nlen ix.
Proof.
  pose proof Hix as Hwi. unfold write_index in Hwi.
  destruct (build (N.to_nat (o_bs o)) _) as [[t l]| | |]; cbn [rbind] in Hwi; try discriminate.
  unfold rtree_bytes in Hwi. destruct (write_levels _ t l l _) as [body| | |]; cbn [rbind] in Hwi; try discriminate.
  apply Ok_inj in Hwi. apply (f_equal fst) in Hwi. cbn [fst] in Hwi. rewrite <- Hwi.
  rewrite Nlen_app. unfold Nlen at 1. rewrite RTreeLayout.index_header_length. lia.
Qed.

Section Image.
Variable X : list N.
Hypothesis R : readable X.

Lemma img_bounds : ixs + Nlen ix <= Nlen X /\ Nlen X <= U64.
Proof.
  pose proof (has_at_length _ _ _ (rd_ix X R)) as H. pose proof (rd_len X R). unfold Nlen. split; [lia|assumption].
Qed.

Theorem img_read_info : read_info X = Ok the_info.
Proof.
  destruct img_bounds as [HB HU]. pose proof ix_nonempty as H48.
  pose proof (rd_hdr X R) as HH. apply has_at_app in HH as [Hh64 Hzdir].
  pose proof (read_header_written X (Nlen zhdrs) cis (Nlen pre - 8) ixs fc fc ASQL_OFFSET (Nlen pre - 48) 0 Hh64) as Hrh.
  pose proof Hfc16 as Hfc. pose proof HNprelen as HNp. pose proof Hasql as Ha.
  specialize (Hrh ltac:(unfold hdr_ok, U16, U32, U64 in *; unfold cis, ixs in *; rewrite Ha; unfold Nlen at 1; repeat split; lia)).
  fold h in Hrh.
  assert (Hzs : read_zoom_headers false X 64 (N.to_nat (h_zoom_levels h)) = Ok zs).
  { cbn [h_zoom_levels h]. unfold Nlen at 1. rewrite Nat2N.id.
    replace (0 + Nlen hdr64) with 64 in Hzdir by (unfold hdr64, Nlen; rewrite header_bytes_length; reflexivity).
    rewrite (SinkRead.read_zoom_headers_region (length zhdrs) X zdir 64 Hzdir) by (unfold zdir; apply zoom_dir_length).
    destruct (read_zoom_headers_total false zdir (length zhdrs) 0) as [z Hz].
    { unfold zdir. rewrite zoom_dir_length. cbn [N.to_nat]. lia. }
    unfold zs. rewrite Hz. reflexivity. }
  exact (read_info_written X h zs sizes ids ct Hrh eq_refl Hzs Hct (rd_ct X R)
           ltac:(unfold Nlen; rewrite acc_len_ids; exact Hnchr) acc_maxkey acc_tri).
Qed.

Theorem img_interval infl c es s e : In (c, es) (bruns input) ->
  bb_interval infl X the_info c s e = Ok (filter (bkeep s e) es).
Proof.
  intros Hce. destruct acc_runs as [Hruns [Hids [Hbcids Hnd]]].
  destruct img_bounds as [HB HU].
  assert (Hbc : exists bc, In bc outs /\ bc_name bc = c /\ bc_entries bc = es).
  { rewrite <- Hruns in Hce. apply in_map_iff in Hce as [bc [E Hbc]]. inversion E; subst. exists bc. auto. }
  destruct Hbc as [bc [Hbc [Hbn Hbe]]].
  assert (Hq : bc_id bc < U32).
  { assert (In (bc_id bc) (seqN 0 n)) by (rewrite <- Hbcids; apply in_map; exact Hbc).
    apply seqN_bound in H. unfold U16, U32, n, Nlen in *. lia. }
  assert (Hcid : chrom_id the_info c = Ok (bc_id bc)).
  { assert (Hpair : In (c, bc_id bc) ids).
    { rewrite Hids. rewrite <- Hbcids. rewrite <- Hruns. rewrite map_map. cbn [fst].
      clear -Hbc Hbn. induction outs as [|o1 outs' IH]; [destruct Hbc|]. cbn [map combine].
      destruct Hbc as [->|Hbc]; [left; now rewrite Hbn|right; apply IH; exact Hbc]. }
    apply (chrom_id_written the_info (triples sizes ids) c (bc_id bc) (match lookup c sizes with Some l => l | None => 0 end)).
    - reflexivity.
    - unfold triples. rewrite map_map. rewrite <- acc_names in Hnd. erewrite map_ext; [exact Hnd|]. intros [k0 id0]. reflexivity.
    - unfold triples. apply in_map_iff. exists (c, bc_id bc). split; [reflexivity|exact Hpair]. }
  destruct (rd_ix X R) as [preI [postI [HfI HpreI]]].
  assert (HpreI' : Nlen preI = ixs) by (unfold Nlen; rewrite HpreI; apply N2Nat.id).
  pose proof acc_gs_ok as Hgs_ok.
  rewrite (interval_on_image infl the_info eq_refl eq_refl X gs (Nlen pre) ixs (o_bs o) (o_ips o) ix lv preI postI c (bc_id bc) s e
             eq_refl Hcid Hq Hbs).
  - unfold gs. rewrite sections_to_chrom; [|apply SSorted_lt_NoDup; exact acc_gsorted|exact acc_gss].
    rewrite (find_group (groups_of outs) (bc_id bc) es); [reflexivity|apply SSorted_lt_NoDup; exact acc_gsorted|].
    unfold groups_of. apply in_map_iff. exists bc. split; [now rewrite Hbe|exact Hbc].
  - unfold gs. apply (gsecs_nonempty (o_ips o) (groups_of outs) (bc_id bc) es); [|exact (bruns_nonempty _ _ _ Hce)].
    unfold groups_of. apply in_map_iff. exists bc. split; [now rewrite Hbe|exact Hbc].
  - exact Hgs_ok.
  - rewrite place_spans. unfold gs. apply gsecs_sorted; [exact acc_gsorted|exact acc_gss].
  - apply Forall_forall. intros sct Hs. destruct (place_bounds _ _ _ Hs) as [B1 B2]. fold dbytes in B2.
    destruct (place_fields _ _ _ Hs) as [g [Hg [F1 [F2 F3]]]].
    rewrite Forall_forall in Hgs_ok. destruct (Hgs_ok g Hg) as [Hne Hok].
    destruct (sd_of_ok g Hne Hok) as [S1 S2].
    destruct (gsecs_in _ _ _ Hg) as [g' [Hg' [Efst _]]].
    assert (Hidb : fst g' < U32).
    { assert (In (fst g') (seqN 0 n)) by (rewrite <- acc_gid; apply in_map; exact Hg').
      apply seqN_bound in H. unfold U16, U32, n, Nlen in *. lia. }
    unfold sect_ok. rewrite F1, F2, F3, Efst. unfold ixs in HB. pose proof ix_nonempty as H48. unfold U64 in *. repeat split; try assumption; lia.
  - exact Hix.
  - exact HfI.
  - exact HpreI'.
  - lia.
  - exact (rd_data X R).
Qed.

Theorem img_autosql : bb_autosql X the_info = Ok (Some sql).
Proof.
  destruct (bb_schema_verbatim _ _ _ Esch) as [_ Hsqlnn].
  unfold bb_autosql. cbn [i_hdr the_info h_asql_off h]. rewrite Hasql. replace (304 =? 0) with false by reflexivity.
  destruct (rd_sql X R) as [A [B [E L]]]. rewrite E. change (N.to_nat 304) with 304%nat in *. rewrite <- L.
  rewrite skipn_exact. rewrite <- app_assoc. cbn [app]. rewrite autosql_slot by exact Hsqlnn. reflexivity.
Qed.
End Image.

(* ---- the finished file is readable; so is every image that agrees with it ---- *)
Variables (sum : summary) (zoom_part : N -> N -> res (list N * list zoom_header)) (dco : N -> N) (zbytes F : list N).
Hypothesis Hasm : assemble o BIGBED_MAGIC sizes ids sum (map sd_of gs) pre fc fc ASQL_OFFSET zoom_part dco = Ok F.
Hypothesis Hzp : zoom_part (Nlen dbytes) (ixs + Nlen ix) = Ok (zbytes, zhdrs).
Hypothesis Hsize : Nlen F <= U64.

Lemma F_shape : exists pre', length pre' = length pre
  /\ F = pre' ++ dbytes ++ ct ++ ix ++ zbytes ++ u32 BIGBED_MAGIC
  /\ has_at pre' 0 (hdr64 ++ zdir) /\ has_at pre' 304 (sql ++ [0]).
Proof.
  destruct (assemble_layout _ _ _ _ _ _ _ _ _ _ _ _ _ Hasm) as [ct' [ix' [lv' [zb' [zh' [Hct' [Hix' [Hz' Hlay]]]]]]]].
  rewrite Hct in Hct'. apply Ok_inj in Hct'. subst ct'.
  fold dbytes in Hix', Hz', Hlay. fold ixs in Hix', Hz'.
  rewrite Hix in Hix'. apply Ok_inj in Hix'. inversion Hix'; subst ix' lv'.
  rewrite Hzp in Hz'. apply Ok_inj in Hz'. inversion Hz'; subst zb' zh'.
  pose proof Lpre as HL.
  destruct (Hlay ltac:(lia) ltac:(lia)) as [pre' [Lpre' [Hf [Hhdr [_ [_ Hkeep]]]]]].
  exists pre'. split; [exact Lpre'|]. split; [exact Hf|]. split; [exact Hhdr|].
  apply Hkeep.
  - unfold pre, bb_pre. exists blank_headers, (repeatN 0 40 ++ u64 0). split; [now rewrite <- !app_assoc|].
    now rewrite blank_headers_length.
  - change (N.to_nat 304) with 304%nat. lia.
  - change (N.to_nat 304) with 304%nat. rewrite app_length. cbn [length]. lia.
Qed.

Lemma F_Nlen : Nlen F = Nlen pre + Nlen dbytes + Nlen ct + Nlen ix + Nlen zbytes + 4.
Proof.
  destruct F_shape as [pre' [Lp [Hf _]]]. rewrite Hf. rewrite !Nlen_app.
  replace (Nlen pre') with (Nlen pre) by (unfold Nlen; now rewrite Lp).
  unfold Nlen at 6. unfold u32. rewrite enc_len. lia.
Qed.

Lemma F_readable : readable F.
Proof.
  destruct F_shape as [pre' [Lp [Hf [Hhdr Hsql]]]].
  assert (HNp : Nlen pre' = Nlen pre) by (unfold Nlen; now rewrite Lp).
  constructor.
  - rewrite Hf. apply has_at_app_r. exact Hhdr.
  - rewrite Hf. apply has_at_app_r. exact Hsql.
  - rewrite Hf. rewrite <- HNp. replace (Nlen pre') with (Nlen pre' + 0) by lia. apply has_at_shift. apply has_at_here.
  - rewrite Hf. unfold cis. rewrite <- HNp. apply has_at_shift.
    replace (Nlen dbytes) with (Nlen dbytes + 0) by lia. apply has_at_shift. apply has_at_here.
  - rewrite Hf. unfold ixs. rewrite <- HNp. rewrite <- !N.add_assoc. apply has_at_shift. apply has_at_shift.
    replace (Nlen ct) with (Nlen ct + 0) by lia. apply has_at_shift. apply has_at_here.
  - exact Hsize.
Qed.

Lemma agrees_readable X : agrees_at (305 + length sql) X F -> readable X.
Proof.
  intros HX. pose proof F_readable as [H1 H2 H3 H4 H5 H6]. pose proof F_Nlen as HN. pose proof HNprelen as HP.
  pose proof (has_at_length _ _ _ H3) as B3. pose proof (has_at_length _ _ _ H4) as B4. pose proof (has_at_length _ _ _ H5) as B5.
  assert (HF : (305 + length sql + 52 <= length F)%nat) by (unfold Nlen in *; lia).
  assert (Hhz : length (hdr64 ++ zdir) = (64 + 24 * length zhdrs)%nat).
  { unfold hdr64, zdir. rewrite app_length, header_bytes_length, zoom_dir_length. reflexivity. }
  constructor.
  - apply (agrees_at_transfer _ X F _ _ HX H1); [|exact HF]. left. rewrite Hhz. cbn [N.to_nat]. lia.
  - apply (agrees_at_transfer _ X F _ _ HX H2); [|exact HF]. left. rewrite app_length. cbn [length]. change (N.to_nat 304) with 304%nat. lia.
  - apply (agrees_at_transfer _ X F _ _ HX H3); [|exact HF]. right. unfold Nlen in *. lia.
  - apply (agrees_at_transfer _ X F _ _ HX H4); [|exact HF]. right. unfold cis, Nlen in *. lia.
  - apply (agrees_at_transfer _ X F _ _ HX H5); [|exact HF]. right. unfold ixs, Nlen in *. lia.
  - destruct HX as [[_ Hl] _]. unfold Nlen in *. unfold U64 in *. lia.
Qed.

Theorem agreeing_images_serve X : agrees_at (305 + length sql) X F ->
  read_info F = Ok the_info /\ read_info X = Ok the_info
  /\ (forall infl c es s e, In (c, es) (bruns input) ->
        bb_interval infl X the_info c s e = Ok (filter (bkeep s e) es)
        /\ bb_interval infl F the_info c s e = Ok (filter (bkeep s e) es))
  /\ bb_autosql X the_info = Ok (Some sql) /\ bb_autosql F the_info = Ok (Some sql).
Proof.
  intros HX. pose proof F_readable as RF. pose proof (agrees_readable X HX) as RX.
  split; [exact (img_read_info F RF)|]. split; [exact (img_read_info X RX)|]. split.
  - intros infl c es s e Hce. split; [exact (img_interval X RX infl c es s e Hce)|exact (img_interval F RF infl c es s e Hce)].
  - split; [exact (img_autosql X RX)|exact (img_autosql F RF)].
Qed.
End BedImages.
