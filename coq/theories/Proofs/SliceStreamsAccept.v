(* C18, the consequence, part 3: what the per-chromosome readers deliver is what C13's model of the
   parallel source (Model/Accept.v: [parallel] over [line_runs] of the parsed lines) is given.
   The indexer's parse_line (bed/indexer.rs) is parse_bed's first three fields: chromosome = the bytes
   before the first TAB of the trimmed line, start and end must parse as u32.  So the classification
   of raw lines is [bed_key cid]: 0 when parse_bed_line refuses the line, else the id [cid] gives the
   chromosome name.  [cid] is any numbering of names that keeps the names of this text apart.
   Then: task i of the parallel source = (name of index entry i, the parsed lines its reader delivers)
   is run i of [line_runs (lines of the text, parsed)], for bedGraph and for BED input; hence the
   parallel source on index + views IS [bw_text_parallel] / [bb_text_parallel], and by C13's theorem it
   accepts exactly the texts the serial source accepts. *)
From BT Require Import Base.Util Base.Float Model.RTree Model.BBIFile Model.BigWigWrite Model.Accept
  Proofs.AcceptRules Proofs.AcceptParallel.
From BT Require Import Model.FileView Model.Chunker Model.Indexer.
From BT Require Import Proofs.SliceStreams Proofs.SliceStreamsIndex.
Local Open Scope N_scope.

(* the chromosome field of a raw line, and the indexer's reading of the line *)
Definition chrom_of (l : list N) : name := fst (parse_bed_line l).
Definition bed_key (cid : name -> N) (l : list N) : N :=
  match snd (parse_bed_line l) with POk _ => cid (chrom_of l) | PErr _ => 0 end.

(* the parsers as the two sources apply them to a line *)
Definition bw_parse (fok : list N -> bool) (l : list N) : pline value :=
  map_pline mk_value (parse_bedgraph_line fok l).
Definition bb_parse (l : list N) : pline Accept.entry := map_pline mk_entry (parse_bed_line l).

(* one task of the parallel source: the chromosome name of the index entry (the chromosome field of
   the line at that offset) and the parsed lines of its reader *)
Definition task_of {V} (parse : list N -> pline V) (g : list (list N)) : name * list (pline V) :=
  (chrom_of (hd [] g), map parse g).
Definition tasks {V} (parse : list N -> pline V) (streams : list (list (list N))) :=
  map (task_of parse) streams.

(* ------------------------------------------------------------------ the final newline does not matter *)
Lemma frev_rev {X} (l : list X) : frev l = rev l.
Proof. unfold frev. rewrite rev_append_rev. apply app_nil_r. Qed.

Lemma trim_end_nl l : Accept.trim_end (l ++ [10]) = Accept.trim_end l.
Proof.
  unfold Accept.trim_end. rewrite !frev_rev, rev_app_distr. cbn [rev app skip_while].
  replace (Accept.is_ws 10) with true by reflexivity. reflexivity.
Qed.

Lemma parse_bed_nl l : parse_bed_line (l ++ [10]) = parse_bed_line l.
Proof. unfold parse_bed_line. rewrite trim_end_nl. reflexivity. Qed.
Lemma parse_bedgraph_nl fok l : parse_bedgraph_line fok (l ++ [10]) = parse_bedgraph_line fok l.
Proof. unfold parse_bedgraph_line. rewrite trim_end_nl. reflexivity. Qed.

(* C13's lines (newline dropped) and C18's raw lines (newline kept) parse alike *)
Lemma lines_map {Y} (parse : list N -> Y) : (forall l, parse (l ++ [10]) = parse l) ->
  forall text cur, map parse (lines_aux cur text) = map parse (split_lines_acc text cur).
Proof.
  intros Hp. induction text as [|b r IH]; intros cur; cbn [lines_aux split_lines_acc].
  - destruct cur; [reflexivity|]. cbn [map]. rewrite frev_rev. reflexivity.
  - change NL with 10. destruct (N.eqb_spec b 10) as [->|Hb].
    + cbn [map rev]. rewrite Hp, frev_rev, IH. reflexivity.
    + apply IH.
Qed.

Lemma lines_of_map {Y} (parse : list N -> Y) : (forall l, parse (l ++ [10]) = parse l) ->
  forall text, map parse (lines_of text) = map parse (split_lines text).
Proof. intros Hp text. apply lines_map. exact Hp. Qed.

Lemma bw_lines_split fok text : bw_lines fok text = map (bw_parse fok) (split_lines text).
Proof.
  unfold bw_lines. apply (lines_of_map (bw_parse fok)).
  intros l. unfold bw_parse. rewrite parse_bedgraph_nl. reflexivity.
Qed.
Lemma bb_lines_split text : bb_lines text = map bb_parse (split_lines text).
Proof.
  unfold bb_lines. apply (lines_of_map bb_parse).
  intros l. unfold bb_parse. rewrite parse_bed_nl. reflexivity.
Qed.

Lemma bw_parse_chrom fok l : fst (bw_parse fok l) = chrom_of l.
Proof.
  unfold bw_parse, chrom_of, map_pline, parse_bedgraph_line, parse_bed_line. cbn [fst].
  destruct (split_on TAB (Accept.trim_end l)). reflexivity.
Qed.
Lemma bb_parse_chrom l : fst (bb_parse l) = chrom_of l.
Proof. reflexivity. Qed.

(* ------------------------------------------------------------------ runs of raw lines = runs of parsed lines *)
Lemma groups_in {X} (k : X -> N) : forall l y g gs, groups k l = (y :: g) :: gs -> In y l.
Proof.
  intros l y g gs E. rewrite <- (groups_concat k l), E. cbn [concat app]. left. reflexivity.
Qed.

Lemma line_runs_groups {V} (parse : list N -> pline V) (key : list N -> N) : forall ls,
  (forall l, In l ls -> fst (parse l) = chrom_of l) ->
  (forall l1 l2, In l1 ls -> In l2 ls -> (key l1 = key l2 <-> chrom_of l1 = chrom_of l2)) ->
  line_runs' (map parse ls) = tasks parse (groups key ls).
Proof.
  induction ls as [|x r IH]; intros Hc Hk; [reflexivity|].
  cbn [map]. destruct (parse x) as [c p] eqn:Ex.
  rewrite line_runs'_cons, groups_cons.
  assert (Ec : c = chrom_of x).
  { rewrite <- (Hc x (or_introl eq_refl)), Ex. reflexivity. }
  rewrite IH; [|intros l Hl; apply Hc; right; exact Hl
               |intros l1 l2 H1 H2; apply Hk; right; assumption].
  pose proof (groups_nonempty key r) as Hne.
  destruct (groups key r) as [|[|y g] gs] eqn:Eg.
  - unfold tasks, task_of; cbn [map hd]. rewrite Ex, Ec. reflexivity.
  - inversion Hne; congruence.
  - unfold tasks, task_of; cbn [map hd].
    assert (Hy : In y r) by (eapply groups_in; exact Eg).
    destruct (N.eqb_spec (key x) (key y)) as [Exy|Exy].
    + apply (Hk x y (or_introl eq_refl) (or_intror Hy)) in Exy.
      rewrite Ec, Exy, name_eqb_refl. cbn [map hd]. rewrite Ex, Ec, Exy. reflexivity.
    + assert (Hn : name_eqb (chrom_of y) c = false).
      { destruct (name_eqb (chrom_of y) c) eqn:E; [|reflexivity].
        apply name_eqb_eq in E. exfalso. apply Exy.
        apply (Hk x y (or_introl eq_refl) (or_intror Hy)). congruence. }
      rewrite Hn. cbn [map hd]. rewrite Ex, Ec. reflexivity.
Qed.

(* with the indexer's own reading of lines: equal ids <-> equal names, on the lines of the text *)
Lemma bed_key_name cid l : bed_key cid l <> 0 -> bed_key cid l = cid (chrom_of l).
Proof. unfold bed_key. destruct (snd (parse_bed_line l)); [congruence|reflexivity]. Qed.

Lemma bed_key_equiv cid ls :
  (forall l, In l ls -> bed_key cid l <> 0) ->
  (forall l1 l2, In l1 ls -> In l2 ls -> cid (chrom_of l1) = cid (chrom_of l2) -> chrom_of l1 = chrom_of l2) ->
  forall l1 l2, In l1 ls -> In l2 ls -> (bed_key cid l1 = bed_key cid l2 <-> chrom_of l1 = chrom_of l2).
Proof.
  intros Hk Hinj l1 l2 H1 H2.
  rewrite (bed_key_name cid l1 (Hk _ H1)), (bed_key_name cid l2 (Hk _ H2)).
  split; [apply Hinj; assumption | intros ->; reflexivity].
Qed.

(* ------------------------------------------------------------------ C13's theorem at the level of its proofs *)
Lemma text_serial_parallel : forall fok o sizes text, text <> [] ->
  (bw_text_serial fok o sizes text = Ok tt <-> bw_text_parallel fok o sizes text = Ok tt) /\
  (bb_text_serial o sizes text = Ok tt <-> bb_text_parallel o sizes text = Ok tt).
Proof.
  intros fok o sizes text Hne.
  assert (Hl : split_lines text <> []).
  { intros E. apply Hne. rewrite <- (concat_split_lines text), E. reflexivity. }
  unfold bw_text_serial, bw_text_parallel, bb_text_serial, bb_text_parallel. split.
  - rewrite (serial_ext check_val (chk_of bw_val_class) check_val_class),
            (parallel_ext check_val (chk_of bw_val_class) check_val_class).
    rewrite <- !okb_true. rewrite (serial_parallel_ok bw_val_class); [reflexivity|].
    rewrite bw_lines_split. intros E. apply map_eq_nil in E. contradiction.
  - rewrite (serial_ext bb_check_val (chk_of bb_val_class) bb_check_val_class),
            (parallel_ext bb_check_val (chk_of bb_val_class) bb_check_val_class).
    rewrite <- !okb_true. rewrite (serial_parallel_ok bb_val_class); [reflexivity|].
    rewrite bb_lines_split. intros E. apply map_eq_nil in E. contradiction.
Qed.

(* ------------------------------------------------------------------ the composition *)
Lemma parallel_source_eq_serial : forall (cid : name -> N) fok o sizes (text : list N) (lim : nat)
    (sz : nat -> nat -> N) (fuel : nat),
  let key := bed_key cid in
  text <> [] ->
  (forall l, In l (split_lines text) -> key l <> 0) ->
  (forall l1 l2, In l1 (split_lines text) -> In l2 (split_lines text) ->
     cid (chrom_of l1) = cid (chrom_of l2) -> chrom_of l1 = chrom_of l2) ->
  grouped (lfile key text) ->
  Nlen text * Nlen text < 2 ^ N.of_nat lim -> Nlen text < 2 ^ 63 ->
  (forall i k, 1 <= sz i k) -> (length text < fuel)%nat ->
  exists ix streams,
    index_chroms (S lim) (lfile key text) = Ok (Some ix) /\
    par_streams fuel text sz ix = map Ok streams /\
    concat streams = split_lines text /\
    tasks (bw_parse fok) streams = line_runs (bw_lines fok text) /\
    tasks bb_parse streams = line_runs (bb_lines text) /\
    parallel check_val (o_sort_all o) sizes (tasks (bw_parse fok) streams) = bw_text_parallel fok o sizes text /\
    parallel bb_check_val (o_sort_all o) sizes (tasks bb_parse streams) = bb_text_parallel o sizes text /\
    (bw_text_serial fok o sizes text = Ok tt <->
     parallel check_val (o_sort_all o) sizes (tasks (bw_parse fok) streams) = Ok tt) /\
    (bb_text_serial o sizes text = Ok tt <->
     parallel bb_check_val (o_sort_all o) sizes (tasks bb_parse streams) = Ok tt).
Proof.
  intros cid fok o sizes text lim sz fuel key Hne Hk Hinj Hg Hsq Hlen Hsz Hfuel.
  destruct (parallel_stream_eq_serial key text lim sz fuel Hne Hk Hg Hsq Hlen Hsz Hfuel)
    as (ix & Hix & _ & Hstreams & _ & _ & Hcat).
  exists ix, (groups key (split_lines text)).
  pose proof (bed_key_equiv cid (split_lines text) Hk Hinj) as Heq.
  assert (Tw : tasks (bw_parse fok) (groups key (split_lines text)) = line_runs (bw_lines fok text)).
  { rewrite line_runs_eq, bw_lines_split. symmetry. apply line_runs_groups; [|exact Heq].
    intros l _. apply bw_parse_chrom. }
  assert (Tb : tasks bb_parse (groups key (split_lines text)) = line_runs (bb_lines text)).
  { rewrite line_runs_eq, bb_lines_split. symmetry. apply line_runs_groups; [|exact Heq].
    intros l _. apply bb_parse_chrom. }
  destruct (text_serial_parallel fok o sizes text Hne) as [Sw Sb].
  split; [exact Hix|]. split; [exact Hstreams|]. split; [exact Hcat|].
  split; [exact Tw|]. split; [exact Tb|].
  rewrite Tw, Tb. split; [reflexivity|]. split; [reflexivity|]. split; [exact Sw | exact Sb].
Qed.
