(* C06, last link, part 2: get_summary on the BYTES of a written file.
   [read_summary_at]: an image that holds summary_bytes at the header's summary offset and a u64 at the
   header's data offset is read back as [stored count summary]: bases and count verbatim, the four
   statistics through the binary64 field codec (Proofs/C06FileFloat.v).
   bigWig: for the bytes returned by bw_write / bw_write_multipass (every rounding mode) read_info
   succeeds and read_summary returns [stored (number of data sections) (the folded summary)]; in exact
   arithmetic, when sum and sum of squares are binary64 numbers, the reader's summary denotes the
   statistics of C06_bw_summary. *)
From BT Require Import Base.Util Base.LE Base.Float Generated.Consts Model.RTree Model.BBIFile Model.BigWigWrite Model.BBIRead
  Proofs.Chunks Proofs.BigWigQuery Proofs.RTreeCodec Proofs.FileRegions Proofs.BigWigFile Proofs.BigWigFileChroms
  Proofs.BigWigFileData Proofs.BigWigFileRoundTrip Proofs.BigWigFileThms Proofs.BwSummary Proofs.BwCollect Proofs.C06FileFloat.
Local Open Scope N_scope.

(* what get_summary returns for a file whose summary slot was written from [s] and whose count slot holds [cnt] *)
Definition stored (cnt : N) (s : summary) : summary :=
  {| su_items := cnt; su_bases := su_bases s; su_min := f64_rt (su_min s); su_max := f64_rt (su_max s);
     su_sum := f64_rt (su_sum s); su_sumsq := f64_rt (su_sumsq s) |}.

Lemma dec_f64_field x : dec false (u64 (bits_of_f64 x)) = bits_of_f64 x.
Proof. cbn [dec]. apply dec_u64. exact (bits_of_f64_bound x). Qed.

Theorem read_summary_at bs i so sum cnt :
  h_big (i_hdr i) = false -> h_summary_off (i_hdr i) = so -> so <> 0 ->
  has_at bs so (summary_bytes sum) -> has_at bs (h_full_data_off (i_hdr i)) (u64 cnt) ->
  su_bases sum < U64 -> cnt < U64 -> read_summary bs i = Ok (stored cnt sum).
Proof.
  intros Hbig Hso Hnz Hsum Hcnt Hb Hc. unfold read_summary. rewrite Hbig, Hso.
  destruct (N.eqb_spec so 0) as [C|_]; [exfalso; exact (Hnz C)|].
  rewrite (has_at_slice_w bs so (summary_bytes sum) 40 Hsum) by (now rewrite summary_bytes_length).
  cbn [rdo rbind].
  rewrite (has_at_slice_w bs _ (u64 cnt) 8 Hcnt) by reflexivity. cbn [rdo rbind].
  replace (firstn 8 (summary_bytes sum)) with (u64 (su_bases sum)) by reflexivity.
  replace (firstn 8 (skipn 8 (summary_bytes sum))) with (u64 (bits_of_f64 (su_min sum))) by reflexivity.
  replace (firstn 8 (skipn 16 (summary_bytes sum))) with (u64 (bits_of_f64 (su_max sum))) by reflexivity.
  replace (firstn 8 (skipn 24 (summary_bytes sum))) with (u64 (bits_of_f64 (su_sum sum))) by reflexivity.
  replace (firstn 8 (skipn 32 (summary_bytes sum))) with (u64 (bits_of_f64 (su_sumsq sum))) by reflexivity.
  rewrite !dec_f64_field. cbn [dec]. rewrite !dec_u64 by assumption. reflexivity.
Qed.

(* ---------- bigWig: bases of the folded summary, any rounding mode ---------- *)
Lemma fold_add_bases fp : forall vs s, su_bases (fold_left (summary_add fp) vs s) = su_bases s + w_bases vs.
Proof.
  induction vs as [|v r IH]; intros s; cbn [fold_left].
  - unfold w_bases. cbn [map sumN]. lia.
  - rewrite IH. unfold w_bases. cbn [map sumN summary_add su_bases]. lia.
Qed.
Lemma chrom_summary_bases fp vs : su_bases (chrom_summary fp vs) = w_bases vs.
Proof.
  unfold chrom_summary. cbv zeta. pose proof (fold_add_bases fp vs summary_init) as H. cbn [summary_init su_bases] in H.
  destruct (_ =? 0); cbn [su_bases]; rewrite H; lia.
Qed.
Lemma fold_merge_bases fp : forall l acc,
  su_bases (match fold_left (summary_merge fp) l acc with Some s => s | None => summary_zero end)
  = match acc with Some a => su_bases a | None => 0 end + sumN (map su_bases l).
Proof.
  induction l as [|c l IH]; intros acc; cbn [fold_left map sumN].
  - destruct acc; cbn [summary_zero su_bases]; lia.
  - rewrite IH. destruct acc; cbn [summary_merge su_bases]; lia.
Qed.

Lemma wf_bases len : forall vs, wf_vals len vs ->
  w_bases vs <= len - match vs with v :: _ => v_start v | [] => 0 end.
Proof.
  induction 1 as [|v H1 H2|v w r H1 H2 H3 Hw IH]; unfold w_bases in *; cbn [map sumN] in *; lia.
Qed.

Lemma sumN_bound {X} (f : X -> N) B : forall l, Forall (fun x => f x <= B) l -> sumN (map f l) <= Nlen l * B.
Proof.
  induction 1 as [|x l Hx _ IH]; cbn [map sumN]; [unfold Nlen; cbn; lia|].
  unfold Nlen in *. cbn [length]. rewrite Nat2N.inj_succ, N.mul_succ_l. lia.
Qed.

Lemma Forall2_len {A B} (R : A -> B -> Prop) l1 l2 : Forall2 R l1 l2 -> length l1 = length l2.
Proof. induction 1; cbn [length]; congruence. Qed.

Lemma collect_bases fp o sizes inp ids outs sum data :
  bw_collect fp o sizes inp = Ok (ids, outs, sum, data) -> input_ok sizes inp ->
  su_bases sum = sumN (map (fun c => w_bases (co_vals c)) outs) /\ su_bases sum < U64.
Proof.
  intros Hcol (_ & Hn & Hsz & _).
  destruct (bw_collect_inv _ _ _ _ _ _ _ _ Hcol) as (_ & Hp & _).
  destruct (process_runs_spec o sizes (runs inp) None [] ids outs Hp) as (_ & _ & _ & HF & _).
  assert (Hsum : su_bases sum = sumN (map (fun c => w_bases (co_vals c)) outs)).
  { unfold bw_collect in Hcol. destruct inp as [|it inp']; [discriminate|]. rewrite Hp in Hcol. cbn [rbind] in Hcol.
    destruct (concat_res _) as [d| | |]; cbn [rbind] in Hcol; try discriminate.
    apply Ok_inj in Hcol. inversion Hcol as [[E1 E2]]. clear Hcol.
    rewrite (fold_merge_bases fp _ None). rewrite map_map. cbn [N.add]. rewrite N.add_0_l.
    f_equal. apply map_ext. intros c. apply chrom_summary_bases. }
  split; [exact Hsum|]. rewrite Hsum.
  assert (Hb : Forall (fun c => w_bases (co_vals c) <= U32) outs).
  { clear -HF Hsz. induction HF as [|r c rs outs Hrc _ IH]; constructor; [|exact IH].
    destruct Hrc as (_ & Hv & Hl & Hc). pose proof (lookup_range sizes _ _ Hsz Hl) as Hlen.
    pose proof (wf_bases (co_len c) (co_vals c)) as Hw. rewrite Hv in Hw. specialize (Hw (check_chrom_wf _ _ Hc)). rewrite Hv. lia. }
  pose proof (sumN_bound (fun c => w_bases (co_vals c)) U32 outs Hb) as Hs.
  assert (Hlen : Nlen outs = Nlen (runs inp)) by (unfold Nlen; now rewrite (Forall2_len _ _ _ HF)).
  rewrite Hlen in Hs. unfold U16, U32, U64 in *. nia.
Qed.

(* ---------- bigWig: the count slot holds the number of data sections ---------- *)
Definition bw_section_count (o : opts) (inp : list item) : N :=
  sumN (map (fun r => Nlen (chunks (N.to_nat (o_ips o)) (snd r))) (runs inp)).

Lemma pieces_count sizes ips : forall rs outs, Forall2 (run_out sizes) rs outs ->
  Nlen (pieces_of ips outs) = sumN (map (fun r : name * list value => Nlen (chunks ips (snd r))) rs).
Proof.
  induction 1 as [|r c rs outs Hrc _ IH]; [reflexivity|].
  destruct Hrc as (_ & Hv & _).
  assert (E : length (pieces_of ips (c :: outs)) = (length (chunks ips (snd r)) + length (pieces_of ips outs))%nat).
  { unfold pieces_of. cbn [flat_map]. rewrite app_length, map_length, Hv. reflexivity. }
  cbn [map sumN]. unfold Nlen in *. rewrite E, Nat2N.inj_add, IH. reflexivity.
Qed.

Lemma collect_sections fp o sizes inp ids outs sum data :
  bw_collect fp o sizes inp = Ok (ids, outs, sum, data) -> opts_ok o -> Nlen data = bw_section_count o inp.
Proof.
  intros Hcol (_ & Hi).
  destruct (bw_collect_inv _ _ _ _ _ _ _ _ Hcol) as (_ & Hp & Hd).
  destruct (process_runs_spec o sizes (runs inp) None [] ids outs Hp) as (_ & _ & _ & HF & _).
  rewrite (collect_data (o_ips o) outs data ltac:(lia) Hd). unfold Nlen at 1. rewrite map_length.
  exact (pieces_count sizes (N.to_nat (o_ips o)) _ _ HF).
Qed.

(* ---------- the file ---------- *)
Section BwFile.
Variables (fp : fpmode) (o : opts) (sizes : list (name * N)) (inp : list item) (bs : list N).
Hypothesis Ho : opts_ok o.
Hypothesis Hi : input_ok sizes inp.
Hypothesis Hs : Nlen bs < U64.

Lemma assemble_stored ids outs sum data zoom_part :
  bw_collect fp o sizes inp = Ok (ids, outs, sum, data) ->
  assemble o BIGWIG_MAGIC sizes ids sum data bw_pre 0 0 0 zoom_part (fun n => n) = Ok bs ->
  (forall ds zp zb zh, zoom_part ds zp = Ok (zb, zh) -> Nlen zh <= 10) ->
  exists i, read_info bs = Ok i /\ read_summary bs i = Ok (stored (bw_section_count o inp) sum).
Proof.
  intros Hcol Hasm Hz.
  destruct (assemble_roundtrip _ _ _ _ _ _ _ _ _ _ _ Hcol Hasm Hz Ho Hi Hs) as (p & i & HA & Hri & Hh & _).
  exists i. split; [exact Hri|].
  pose proof (asm_summary _ _ _ _ _ _ _ _ _ _ _ _ _ _ HA) as Hsum.
  pose proof (asm_count _ _ _ _ _ _ _ _ _ _ _ _ _ _ HA) as Hcnt. cbv beta in Hcnt.
  change (Nlen bw_pre) with 352 in Hsum, Hcnt.
  destruct (collect_bases _ _ _ _ _ _ _ _ Hcol Hi) as (_ & Hb).
  rewrite (collect_sections _ _ _ _ _ _ _ _ Hcol Ho) in Hcnt.
  apply (read_summary_at bs i (352 - 48) sum (bw_section_count o inp)).
  - rewrite Hh. reflexivity.
  - rewrite Hh. reflexivity.
  - discriminate.
  - exact Hsum.
  - rewrite Hh. exact Hcnt.
  - exact Hb.
  - rewrite <- (collect_sections _ _ _ _ _ _ _ _ Hcol Ho).
    (* every section takes at least one byte of a file below 2^64 bytes *)
    pose proof (asm_Nlen _ _ _ _ _ _ _ _ _ _ _ _ _ _ HA) as HN. cbv zeta in HN.
    assert (Hd : Nlen data <= Nlen (data_bytes data)).
    { pose proof (core_pieces_ok fp o sizes inp ids outs sum data bs Hcol Ho Hi Hs) as Hpk.
      destruct Ho as (_ & Hips).
      destruct (bw_collect_inv _ _ _ _ _ _ _ _ Hcol) as (_ & _ & Hd).
      rewrite (collect_data (o_ips o) outs data ltac:(lia) Hd).
      clear -Hpk. induction Hpk as [|pc l Hpc _ IH]; [cbn; lia|].
      cbn [map]. unfold data_bytes in *. cbn [flat_map]. unfold Nlen in *. rewrite app_length. cbn [length].
      assert (1 <= length (sd_bytes (psec pc)))%nat.
      { destruct Hpc as (Hne & _). unfold psec, section_of. destruct (snd pc); [congruence|]. cbn [sd_bytes].
        unfold sec_hdr. rewrite !app_length. cbn [length u32 enc_le]. lia. }
      lia. }
    lia.
Qed.

Theorem bw_file_stored :
  bw_write fp o sizes inp = Ok bs \/ bw_write_multipass fp o sizes inp = Ok bs ->
  exists ids outs sum data i,
    bw_collect fp o sizes inp = Ok (ids, outs, sum, data)
    /\ read_info bs = Ok i /\ read_summary bs i = Ok (stored (bw_section_count o inp) sum).
Proof.
  intros [H|H].
  - destruct (bw_write_inv _ _ _ _ _ H) as (ids & outs & sum & data & zooms & Hcol & Hm & Hasm).
    destruct (assemble_stored ids outs sum data _ Hcol Hasm (single_zoom_bound fp o outs zooms Hm)) as (i & Hri & Hrs).
    exists ids, outs, sum, data, i. auto.
  - destruct (bw_write_multipass_inv _ _ _ _ _ H) as (ids & outs & sum & data & Hcol & Hasm).
    destruct (assemble_stored ids outs sum data _ Hcol Hasm (multi_zoom_bound fp o outs sum)) as (i & Hri & Hrs).
    exists ids, outs, sum, data, i. auto.
Qed.
End BwFile.

(* ---------- bigWig, exact arithmetic: the reader's summary denotes the statistics of the values ---------- *)
Local Open Scope Z_scope.

(* the whole number z of units 2^E is a binary64 number *)
Definition is_f64 (E z : Z) : Prop := rep64 (FFin z E).

Lemma fin_ge_mono E E' x : E' <= E -> fin_ge E x -> fin_ge E' x.
Proof. destruct x; cbn [fin_ge]; [lia|tauto|tauto]. Qed.

Lemma is_f64_of E x : fin_ge E x -> rep64 x -> is_f64 E (fval E x).
Proof.
  intros Hx Hr. unfold is_f64. apply (rep64_same _ x); [|exact Hr].
  apply (fval_same_num E); [cbn [fin_ge]; lia|exact Hx|]. cbn [fval]. rewrite Z.sub_diag, Z.pow_0_r. lia.
Qed.

(* a field that denotes a binary64 number comes back denoting the same number *)
Lemma field_back E x z : E <= -1074 -> fin_ge E x -> fval E x = z -> is_f64 E z ->
  fin_ge E (f64_rt x) /\ fval E (f64_rt x) = z.
Proof.
  intros HE Hx Hz Hr.
  assert (Hrx : rep64 x).
  { apply (rep64_same _ (FFin z E)); [|exact Hr].
    apply (fval_same_num E); [exact Hx|cbn [fin_ge]; lia|]. rewrite Hz. cbn [fval]. rewrite Z.sub_diag, Z.pow_0_r. lia. }
  destruct (f64_roundtrip x Hrx) as (Hs & Hf & _).
  destruct x as [m e| |s]; cbn [fin_ge] in Hx; try tauto.
  assert (Hf' : fin_ge E (f64_rt (FFin m e))) by (apply (fin_ge_mono (-1074)); [exact HE|exact Hf]).
  split; [exact Hf'|]. rewrite <- Hz. apply same_num_fval; [exact Hs|exact Hf'|cbn [fin_ge]; exact Hx].
Qed.

Lemma fold_min_in : forall l a, fold_left Z.min l a = a \/ In (fold_left Z.min l a) l.
Proof.
  induction l as [|x l IH]; intros a; cbn [fold_left]; [left; reflexivity|].
  destruct (IH (Z.min a x)) as [E|Hin]; [|right; right; exact Hin].
  rewrite E. destruct (Z.min_spec a x) as [[_ ->]|[_ ->]]; [left; reflexivity|right; left; reflexivity].
Qed.
Lemma fold_max_in : forall l a, fold_left Z.max l a = a \/ In (fold_left Z.max l a) l.
Proof.
  induction l as [|x l IH]; intros a; cbn [fold_left]; [left; reflexivity|].
  destruct (IH (Z.max a x)) as [E|Hin]; [|right; right; exact Hin].
  rewrite E. destruct (Z.max_spec a x) as [[_ ->]|[_ ->]]; [right; left; reflexivity|left; reflexivity].
Qed.

(* every stored value is a binary32, the initial extremes are +-f64::MAX: the extremes are binary64 numbers *)
Lemma vfin_is_f64 E v : vfin E v -> is_f64 E (fval E (v_val v)).
Proof.
  intros Hv. apply is_f64_of; [exact Hv|]. unfold vfin in Hv. unfold v_val in *.
  pose proof (rep64_f32 (v_bits v)) as H. destruct (f32_of_bits (v_bits v)); [exact H|exact I|exact I].
Qed.
Lemma w_min_is_f64 E vs : E <= 0 -> Forall (vfin E) vs -> is_f64 E (w_min E vs (fval E f64_max)).
Proof.
  intros HE Hf. unfold w_min. destruct (fold_min_in (map (fun v => fval E (v_val v)) vs) (fval E f64_max)) as [->|Hin].
  - apply is_f64_of; [cbn; lia|exact rep64_f64_max].
  - apply in_map_iff in Hin as (v & <- & Hv). rewrite Forall_forall in Hf. apply vfin_is_f64. exact (Hf v Hv).
Qed.
Lemma w_max_is_f64 E vs : E <= 0 -> Forall (vfin E) vs -> is_f64 E (w_max E vs (fval E f64_min)).
Proof.
  intros HE Hf. unfold w_max. destruct (fold_max_in (map (fun v => fval E (v_val v)) vs) (fval E f64_min)) as [->|Hin].
  - apply is_f64_of; [cbn; lia|exact rep64_f64_min].
  - apply in_map_iff in Hin as (v & <- & Hv). rewrite Forall_forall in Hf. apply vfin_is_f64. exact (Hf v Hv).
Qed.

Theorem bw_file_summary E o sizes inp bs :
  E <= -1074 -> Forall (fun it => vfin E (snd it)) inp ->
  opts_ok o -> input_ok sizes inp -> (Nlen bs < U64)%N ->
  bw_write exact o sizes inp = Ok bs \/ bw_write_multipass exact o sizes inp = Ok bs ->
  let all := map snd inp in
  is_f64 E (w_sum E all) -> is_f64 (E + E) (w_sumsq E all) ->
  exists i s, read_info bs = Ok i /\ read_summary bs i = Ok s /\
    wform E s (bw_section_count o inp) (w_bases all) (w_sum E all) (w_sumsq E all)
          (w_min E all (fval E f64_max)) (w_max E all (fval E f64_min)).
Proof.
  intros HE Hfin Ho Hi Hs Hw all Hsum Hsq.
  destruct (bw_file_stored exact o sizes inp bs Ho Hi Hs Hw) as (ids & outs & sum & data & i & Hcol & Hri & Hrs).
  pose proof (bw_collect_summary E o sizes inp ids outs sum data ltac:(lia) Hfin Hcol) as Hform. cbv zeta in Hform. fold all in Hform.
  destruct Hform as (A & B & C1 & C2 & D1 & D2 & M1 & M2 & X1 & X2).
  assert (Hall : Forall (vfin E) all) by (unfold all; rewrite Forall_map; exact Hfin).
  destruct (field_back E _ _ HE C1 C2 Hsum) as (S1 & S2).
  destruct (field_back (E + E) _ _ ltac:(lia) D1 D2 Hsq) as (Q1 & Q2).
  destruct (field_back E _ _ HE M1 M2 (w_min_is_f64 E all ltac:(lia) Hall)) as (N1 & N2).
  destruct (field_back E _ _ HE X1 X2 (w_max_is_f64 E all ltac:(lia) Hall)) as (Y1 & Y2).
  exists i, (stored (bw_section_count o inp) sum). split; [exact Hri|]. split; [exact Hrs|].
  unfold wform, stored. cbn [su_items su_bases su_sum su_sumsq su_min su_max].
  repeat (split; [first [reflexivity|assumption]|]). assumption.
Qed.

(* how [is_f64] is met: exhibit the 53-bit mantissa and the exponent *)
Lemma is_f64_intro E z m e : canon64 m e -> E <= e -> z = m * 2 ^ (e - E) -> is_f64 E z.
Proof.
  intros Hc He Hz. unfold is_f64. exists m, e. split; [exact Hc|].
  apply (same_num_at E); [lia|exact He|]. rewrite Z.sub_diag, Z.pow_0_r, Z.mul_1_r. exact Hz.
Qed.
