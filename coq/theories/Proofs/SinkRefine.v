(* C14: the regions kept apart by Model/SinkTrace.v are those of Model/BigWigWrite.v: the file the
   trace replays to is the file [bw_write] / [bw_write_multipass] describes. *)
From BT Require Import Base.Util Base.LE Base.Float Generated.Consts Model.RTree Model.BBIFile Model.BigWigWrite
  Model.SinkTrace Proofs.RTreeCodec Proofs.SinkBytes Proofs.SinkExec Proofs.SinkPhases.
Local Open Scope N_scope.

Lemma zoom_events_bytes o ds : forall zs pos lc zc,
  write_zooms_loop o ds pos zs lc zc
  = do (ev, hs) <- zoom_events o ds pos zs lc zc; Ok (flat_map zev_bytes ev, hs).
Proof.
  induction zs as [|z rest IH]; intros pos lc zc; [reflexivity|].
  cbn [write_zooms_loop zoom_events].
  destruct ((match o_manual o with None => true | Some _ => false end) && (ds / 2 <? Nlen (data_bytes (zl_secs z)))).
  - rewrite IH. destruct (zoom_events o ds pos rest lc zc) as [[ev hs]| | |]; reflexivity.
  - destruct ((match o_manual o with None => true | Some _ => false end)
              && match lc with None => false | Some l => l <=? Nlen (place pos (zl_secs z)) end).
    + rewrite IH. destruct (zoom_events o ds pos rest lc zc) as [[ev hs]| | |]; reflexivity.
    + destruct (write_index (o_bs o) (o_ips o) (pos + Nlen (data_bytes (zl_secs z))) (place pos (zl_secs z))) as [[ix lv]| | |];
        cbn [rbind]; try reflexivity.
      destruct ((match o_manual o with None => true | Some _ => false end) && (o_maxzooms o <=? zc + 1)).
      * cbn [rbind flat_map zev_bytes]. now rewrite app_nil_r.
      * rewrite IH. destruct (zoom_events o ds _ rest _ _) as [[ev hs]| | |]; reflexivity.
Qed.

Lemma zoom_events_two_bytes o : forall zs pos,
  write_zooms_two_pass o pos zs = do (ev, hs) <- zoom_events_two o pos zs; Ok (flat_map zev_bytes ev, hs).
Proof.
  induction zs as [|z rest IH]; intros pos; [reflexivity|].
  cbn [write_zooms_two_pass zoom_events_two].
  destruct (write_index (o_bs o) (o_ips o) (pos + Nlen (data_bytes (zl_secs z))) (place pos (zl_secs z))) as [[ix lv]| | |];
    cbn [rbind]; try reflexivity.
  rewrite IH. destruct (zoom_events_two o _ rest) as [[ev hs]| | |]; reflexivity.
Qed.

Lemma assemble_refines o magic sizes chroms sum data pre fc dfc asql zp zp' dco :
  (forall ds pos, zp ds pos = do (ev, hs) <- zp' ds pos; Ok (flat_map zev_bytes ev, hs)) ->
  assemble o magic sizes chroms sum data pre fc dfc asql zp dco
  = do p <- assemble_parts o magic sizes chroms sum data pre fc dfc asql zp' dco; Ok (final_bytes p).
Proof.
  intros H. unfold assemble, assemble_parts.
  destruct (chrom_tree_bytes sizes chroms) as [ct| | |]; cbn [rbind]; try reflexivity.
  destruct (write_index _ _ _ _) as [[ix lv]| | |]; cbn [rbind]; try reflexivity.
  rewrite H. destruct (zp' _ _) as [[ev hs]| | |]; cbn [rbind]; reflexivity.
Qed.

Theorem bw_write_refines fp o sizes input :
  bw_write fp o sizes input = do p <- bw_parts fp 0 o sizes input; Ok (final_bytes p).
Proof.
  unfold bw_write, bw_parts. destruct (bw_collect fp o sizes input) as [[[[ids outs] sum] data]| | |]; cbn [rbind]; try reflexivity.
  change (0 =? 0) with true. cbv iota. unfold zoom_levels_of.
  destruct (mapM _ (zoom_sizes_single o)) as [zooms| | |]; cbn [rbind]; try reflexivity.
  apply assemble_refines. intros ds pos. apply zoom_events_bytes.
Qed.

Theorem bw_write_multipass_refines fp o sizes input :
  bw_write_multipass fp o sizes input = do p <- bw_parts fp 1 o sizes input; Ok (final_bytes p).
Proof.
  unfold bw_write_multipass, bw_parts. destruct (bw_collect fp o sizes input) as [[[[ids outs] sum] data]| | |]; cbn [rbind]; try reflexivity.
  change (1 =? 0) with false. cbv iota.
  apply assemble_refines. intros ds pos. unfold zoom_levels_of.
  destruct (mapM _ (zoom_sizes_two_pass o sum (total_zoom_counts outs) ds)) as [zooms| | |]; cbn [rbind]; try reflexivity.
  apply zoom_events_two_bytes.
Qed.

(* ---- the parts bw_parts returns are laid out as parts_ok says ---- *)
Lemma header_bytes_len m nz a b c d e f g h : Nlen (header_bytes m nz a b c d e f g h) = 64.
Proof. unfold header_bytes, Nlen, u16, u32, u64. rewrite !app_length, !enc_le_length. reflexivity. Qed.
Lemma zoom_header_bytes_len z : length (zoom_header_bytes z) = 24%nat.
Proof. unfold zoom_header_bytes, u32, u64. rewrite !app_length, !enc_le_length. reflexivity. Qed.
Lemma zdir_len zh : Nlen (flat_map zoom_header_bytes zh) = 24 * Nlen zh.
Proof.
  unfold Nlen. induction zh as [|z zh IH]; [reflexivity|]. cbn [flat_map length]. rewrite app_length, zoom_header_bytes_len. lia.
Qed.
Lemma summary_bytes_len s : Nlen (summary_bytes s) = 40.
Proof. unfold summary_bytes, f64_bytes, Nlen, u64. rewrite !app_length, !enc_le_length. reflexivity. Qed.

Lemma assemble_parts_ok o magic sizes chroms sum data fc dfc asql zp dco p :
  assemble_parts o magic sizes chroms sum data bw_pre fc dfc asql zp dco = Ok p ->
  Nlen (p_zhdrs p) <= MAX_ZOOM_LEVELS -> parts_ok p.
Proof.
  unfold assemble_parts.
  destruct (chrom_tree_bytes sizes chroms) as [ct| | |]; cbn [rbind]; try discriminate.
  destruct (write_index _ _ _ _) as [[ix lv]| | |]; cbn [rbind]; try discriminate.
  destruct (zp _ _) as [[ev hs]| | |]; cbn [rbind]; try discriminate.
  intros H Hz. inversion H; subst p; clear H. cbn [p_zhdrs] in Hz.
  constructor; cbn [p_pre p_hdr p_zdir p_so p_sum p_fdo p_cnt p_magic].
  - reflexivity.
  - apply header_bytes_len.
  - rewrite zdir_len. unfold MAX_ZOOM_LEVELS in Hz. lia.
  - vm_compute. reflexivity.
  - apply summary_bytes_len.
  - vm_compute. reflexivity.
  - unfold Nlen, u64. now rewrite enc_le_length.
  - unfold Nlen, u32. now rewrite enc_le_length.
Qed.

Theorem bw_parts_ok fp kind o sizes input p :
  bw_parts fp kind o sizes input = Ok p -> Nlen (p_zhdrs p) <= MAX_ZOOM_LEVELS -> parts_ok p.
Proof.
  unfold bw_parts. destruct (bw_collect fp o sizes input) as [[[[ids outs] sum] data]| | |]; cbn [rbind]; try discriminate.
  destruct (kind =? 0).
  - destruct (zoom_levels_of fp o outs (zoom_sizes_single o)) as [zooms| | |]; cbn [rbind]; try discriminate.
    apply assemble_parts_ok.
  - apply assemble_parts_ok.
Qed.

(* the header operation writes the bigWig magic: from there on the file is no longer refused
   for its first four bytes *)
Lemma bw_parts_magic fp kind o sizes input p :
  bw_parts fp kind o sizes input = Ok p -> firstn 4 (p_hdr p) = u32 BIGWIG_MAGIC.
Proof.
  unfold bw_parts. destruct (bw_collect fp o sizes input) as [[[[ids outs] sum] data]| | |]; cbn [rbind]; try discriminate.
  assert (H : forall zp, assemble_parts o BIGWIG_MAGIC sizes ids sum data bw_pre 0 0 0 zp (fun n => n) = Ok p ->
                         firstn 4 (p_hdr p) = u32 BIGWIG_MAGIC).
  { intros zp. unfold assemble_parts.
    destruct (chrom_tree_bytes sizes ids) as [ct| | |]; cbn [rbind]; try discriminate.
    destruct (write_index _ _ _ _) as [[ix lv]| | |]; cbn [rbind]; try discriminate.
    destruct (zp _ _) as [[ev hs]| | |]; cbn [rbind]; try discriminate.
    intros H. inversion H; subst p. cbn [p_hdr]. unfold header_bytes. reflexivity. }
  destruct (kind =? 0).
  - destruct (zoom_levels_of fp o outs (zoom_sizes_single o)) as [zooms| | |]; cbn [rbind]; try discriminate. apply H.
  - apply H.
Qed.

(* ---- at most MAX_ZOOM_LEVELS levels are written (the zoom size lists are cut to that many) ---- *)
Lemma mapM_length {X Y} (f : X -> res Y) : forall l ys, mapM f l = Ok ys -> length ys = length l.
Proof.
  induction l as [|x l IH]; intros ys H; cbn [mapM] in H; [inversion H; reflexivity|].
  destruct (f x) as [y| | |]; cbn [rbind] in H; try discriminate.
  destruct (mapM f l) as [ys'| | |]; cbn [rbind] in H; try discriminate.
  inversion H; subst. cbn [length]. now rewrite (IH ys' eq_refl).
Qed.
Lemma take_while_length {X} (q : X -> bool) l : (length (take_while q l) <= length l)%nat.
Proof. induction l as [|x l IH]; cbn [take_while]; [lia|]. destruct (q x); cbn [length]; lia. Qed.

Lemma zoom_events_hdrs o ds : forall zs pos lc zc ev hs,
  zoom_events o ds pos zs lc zc = Ok (ev, hs) -> (length hs <= length zs)%nat.
Proof.
  induction zs as [|z rest IH]; intros pos lc zc ev hs H; cbn [zoom_events] in H; [inversion H; cbn; lia|].
  cbn [length].
  destruct ((match o_manual o with None => true | Some _ => false end) && (ds / 2 <? Nlen (data_bytes (zl_secs z)))).
  - destruct (zoom_events o ds pos rest lc zc) as [[ev' hs']| | |] eqn:E; cbn [rbind] in H; try discriminate.
    inversion H; subst. pose proof (IH _ _ _ _ _ E). lia.
  - destruct ((match o_manual o with None => true | Some _ => false end)
              && match lc with None => false | Some l => l <=? Nlen (place pos (zl_secs z)) end).
    + destruct (zoom_events o ds pos rest lc zc) as [[ev' hs']| | |] eqn:E; cbn [rbind] in H; try discriminate.
      inversion H; subst. pose proof (IH _ _ _ _ _ E). lia.
    + destruct (write_index _ _ _ _) as [[ix lv]| | |]; cbn [rbind] in H; try discriminate.
      destruct ((match o_manual o with None => true | Some _ => false end) && (o_maxzooms o <=? zc + 1)).
      * inversion H; subst. cbn [length]. lia.
      * destruct (zoom_events o ds _ rest _ _) as [[ev' hs']| | |] eqn:E; cbn [rbind] in H; try discriminate.
        inversion H; subst. pose proof (IH _ _ _ _ _ E). cbn [length]. lia.
Qed.
Lemma zoom_events_two_hdrs o : forall zs pos ev hs,
  zoom_events_two o pos zs = Ok (ev, hs) -> length hs = length zs.
Proof.
  induction zs as [|z rest IH]; intros pos ev hs H; cbn [zoom_events_two] in H; [inversion H; reflexivity|].
  destruct (write_index _ _ _ _) as [[ix lv]| | |]; cbn [rbind] in H; try discriminate.
  destruct (zoom_events_two o _ rest) as [[ev' hs']| | |] eqn:E; cbn [rbind] in H; try discriminate.
  inversion H; subst. cbn [length]. now rewrite (IH _ _ _ E).
Qed.

Lemma zoom_sizes_single_le o : (length (zoom_sizes_single o) <= N.to_nat MAX_ZOOM_LEVELS)%nat.
Proof. unfold zoom_sizes_single. apply firstn_le_length. Qed.
Lemma zoom_sizes_two_pass_le o sum counts ds : (length (zoom_sizes_two_pass o sum counts ds) <= N.to_nat MAX_ZOOM_LEVELS)%nat.
Proof.
  unfold zoom_sizes_two_pass. destruct (o_manual o); [apply firstn_le_length|].
  rewrite map_length. etransitivity; [apply take_while_length|]. etransitivity; [apply firstn_le_length|]. lia.
Qed.

Lemma assemble_parts_zhdrs o magic sizes chroms sum data pre fc dfc asql zp dco p :
  assemble_parts o magic sizes chroms sum data pre fc dfc asql zp dco = Ok p ->
  exists ds pos ev, zp ds pos = Ok (ev, p_zhdrs p).
Proof.
  unfold assemble_parts.
  destruct (chrom_tree_bytes sizes chroms) as [ct| | |]; cbn [rbind]; try discriminate.
  destruct (write_index _ _ _ _) as [[ix lv]| | |]; cbn [rbind]; try discriminate.
  destruct (zp _ _) as [[ev hs]| | |] eqn:E; cbn [rbind]; try discriminate.
  intros H. inversion H; subst p. cbn [p_zhdrs]. eauto.
Qed.

Theorem bw_parts_zooms_le fp kind o sizes input p :
  bw_parts fp kind o sizes input = Ok p -> Nlen (p_zhdrs p) <= MAX_ZOOM_LEVELS.
Proof.
  unfold bw_parts. destruct (bw_collect fp o sizes input) as [[[[ids outs] sum] data]| | |]; cbn [rbind]; try discriminate.
  destruct (kind =? 0).
  - destruct (zoom_levels_of fp o outs (zoom_sizes_single o)) as [zooms| | |] eqn:Ez; cbn [rbind]; try discriminate.
    intros H. destruct (assemble_parts_zhdrs _ _ _ _ _ _ _ _ _ _ _ _ _ H) as [ds [pos [ev E]]].
    pose proof (zoom_events_hdrs _ _ _ _ _ _ _ _ E). pose proof (mapM_length _ _ _ Ez). pose proof (zoom_sizes_single_le o).
    unfold Nlen. lia.
  - intros H. destruct (assemble_parts_zhdrs _ _ _ _ _ _ _ _ _ _ _ _ _ H) as [ds [pos [ev E]]].
    destruct (zoom_levels_of fp o outs _) as [zooms| | |] eqn:Ez; cbn [rbind] in E; try discriminate.
    pose proof (zoom_events_two_hdrs _ _ _ _ _ E). pose proof (mapM_length _ _ _ Ez).
    pose proof (zoom_sizes_two_pass_le o sum (total_zoom_counts outs) ds). unfold Nlen. lia.
Qed.
