(* C14, bigBed writer: the regions kept apart by Model/SinkTraceBed.v are those of
   Model/BigBedWrite.v: the file the trace replays to is the file [bb_write] / [bb_write_multipass]
   describes; the parts are laid out as [bparts_ok] says; at most MAX_ZOOM_LEVELS levels. *)
From BT Require Import Base.Util Base.LE Base.Float Generated.Consts Model.RTree Model.BBIFile Model.BigWigWrite
  Model.BigBedWrite Model.SinkTrace Model.SinkTraceBed
  Proofs.RTreeCodec Proofs.SinkBytes Proofs.SinkExec Proofs.SinkPhases Proofs.SinkRefine Proofs.SinkBedPhases.
Local Open Scope N_scope.

Lemma bb_single_events_bytes fp o outs sum ds pos :
  bb_zoom_single fp o outs sum ds pos
  = do (ev, hs) <- bb_zoom_events_single fp o outs ds pos; Ok (flat_map zev_bytes ev, hs).
Proof.
  unfold bb_zoom_single, bb_zoom_events_single.
  destruct (mapM (bb_zoom_level fp o outs) (zoom_sizes_single o)) as [zooms| | |]; cbn [rbind]; try reflexivity.
  apply zoom_events_bytes.
Qed.
Lemma bb_two_events_bytes fp o outs sum ds pos :
  bb_zoom_two_pass fp o outs sum ds pos
  = do (ev, hs) <- bb_zoom_events_two fp o outs sum ds pos; Ok (flat_map zev_bytes ev, hs).
Proof.
  unfold bb_zoom_two_pass, bb_zoom_events_two. cbv zeta.
  destruct (mapM (bb_zoom_level fp o outs) _) as [zooms| | |]; cbn [rbind]; try reflexivity.
  apply zoom_events_two_bytes.
Qed.

Lemma bb_write_gen_refines fp kind o sizes autosql input :
  bb_write_gen (bb_sweep fp) (if kind =? 0 then bb_zoom_single fp o else bb_zoom_two_pass fp o) o sizes autosql input
  = do sp <- bb_parts fp kind o sizes autosql input; Ok (final_bytes (snd sp)).
Proof.
  unfold bb_write_gen, bb_parts, bb_parts_after_pre.
  destruct ((o_bs o <? 2) || (o_ips o <? 1)); [reflexivity|].
  destruct (bb_schema autosql) as [[sql fc]| | |]; cbn [rbind]; try reflexivity.
  destruct (bb_collect o sizes input) as [[ids outs]| | |]; cbn [rbind]; try reflexivity.
  destruct (bb_data o outs) as [data| | |]; cbn [rbind]; try reflexivity.
  rewrite (assemble_refines o BIGBED_MAGIC sizes ids (bb_sweep fp outs) data (bb_pre sql) fc fc ASQL_OFFSET
             ((if kind =? 0 then bb_zoom_single fp o else bb_zoom_two_pass fp o) outs (bb_sweep fp outs))
             (if kind =? 0 then bb_zoom_events_single fp o outs else bb_zoom_events_two fp o outs (bb_sweep fp outs))).
  - destruct (assemble_parts _ _ _ _ _ _ _ _ _ _ _ _) as [p| | |]; reflexivity.
  - intros ds pos. destruct (kind =? 0); [apply bb_single_events_bytes|apply bb_two_events_bytes].
Qed.

Theorem bb_write_refines fp o sizes autosql input :
  bb_write fp o sizes autosql input = do sp <- bb_parts fp 0 o sizes autosql input; Ok (final_bytes (snd sp)).
Proof. exact (bb_write_gen_refines fp 0 o sizes autosql input). Qed.
Theorem bb_write_multipass_refines fp o sizes autosql input :
  bb_write_multipass fp o sizes autosql input = do sp <- bb_parts fp 1 o sizes autosql input; Ok (final_bytes (snd sp)).
Proof. exact (bb_write_gen_refines fp 1 o sizes autosql input). Qed.

(* ---- inversion of bb_parts ---- *)
Lemma bb_parts_inv fp kind o sizes autosql input sql p : bb_parts fp kind o sizes autosql input = Ok (sql, p) ->
  (o_bs o <? 2) || (o_ips o <? 1) = false
  /\ exists fc, bb_schema autosql = Ok (sql, fc) /\ bb_parts_after_pre fp kind o sizes sql fc input = Ok p.
Proof.
  unfold bb_parts. destruct ((o_bs o <? 2) || (o_ips o <? 1)); [discriminate|].
  destruct (bb_schema autosql) as [[sql' fc]| | |]; cbn [rbind]; try discriminate.
  destruct (bb_parts_after_pre fp kind o sizes sql' fc input) as [p'| | |] eqn:E; cbn [rbind]; try discriminate.
  intros H. inversion H; subst. split; [reflexivity|]. exists fc. split; [reflexivity|exact E].
Qed.

Lemma bb_after_pre_inv fp kind o sizes sql fc input p : bb_parts_after_pre fp kind o sizes sql fc input = Ok p ->
  exists ids outs data, bb_collect o sizes input = Ok (ids, outs) /\ bb_data o outs = Ok data
    /\ assemble_parts o BIGBED_MAGIC sizes ids (bb_sweep fp outs) data (bb_pre sql) fc fc ASQL_OFFSET
         (if kind =? 0 then bb_zoom_events_single fp o outs else bb_zoom_events_two fp o outs (bb_sweep fp outs))
         (fun _ => bb_total_items outs) = Ok p.
Proof.
  unfold bb_parts_after_pre.
  destruct (bb_collect o sizes input) as [[ids outs]| | |]; cbn [rbind]; try discriminate.
  destruct (bb_data o outs) as [data| | |] eqn:Ed; cbn [rbind]; try discriminate.
  intros H. exists ids, outs, data. split; [reflexivity|]. split; [exact Ed|exact H].
Qed.

(* ---- at most MAX_ZOOM_LEVELS levels ---- *)
Theorem bb_parts_zooms_le fp kind o sizes autosql input sql p :
  bb_parts fp kind o sizes autosql input = Ok (sql, p) -> Nlen (p_zhdrs p) <= MAX_ZOOM_LEVELS.
Proof.
  intros H. destruct (bb_parts_inv _ _ _ _ _ _ _ _ H) as [_ [fc [_ H1]]].
  destruct (bb_after_pre_inv _ _ _ _ _ _ _ _ H1) as [ids [outs [data [_ [_ H2]]]]].
  destruct (assemble_parts_zhdrs _ _ _ _ _ _ _ _ _ _ _ _ _ H2) as [ds [pos [ev E]]].
  destruct (kind =? 0).
  - unfold bb_zoom_events_single in E.
    destruct (mapM (bb_zoom_level fp o outs) (zoom_sizes_single o)) as [zooms| | |] eqn:Ez; cbn [rbind] in E; try discriminate.
    pose proof (zoom_events_hdrs _ _ _ _ _ _ _ _ E). pose proof (mapM_length _ _ _ Ez). pose proof (zoom_sizes_single_le o).
    unfold Nlen. lia.
  - unfold bb_zoom_events_two in E. cbv zeta in E.
    destruct (mapM (bb_zoom_level fp o outs) _) as [zooms| | |] eqn:Ez; cbn [rbind] in E; try discriminate.
    pose proof (zoom_events_two_hdrs _ _ _ _ _ E). pose proof (mapM_length _ _ _ Ez).
    pose proof (zoom_sizes_two_pass_le o (bb_sweep fp outs) (total_zoom_counts (map chrom_out_of outs)) ds). unfold Nlen. lia.
Qed.

(* ---- the parts are laid out as bparts_ok says ---- *)
Lemma assemble_parts_bok o sizes chroms sum data sql fc dfc asql zp dco p :
  assemble_parts o BIGBED_MAGIC sizes chroms sum data (bb_pre sql) fc dfc asql zp dco = Ok p ->
  Nlen (p_zhdrs p) <= MAX_ZOOM_LEVELS -> bparts_ok sql p /\ firstn 4 (p_hdr p) = u32 BIGBED_MAGIC.
Proof.
  unfold assemble_parts.
  destruct (chrom_tree_bytes sizes chroms) as [ct| | |]; cbn [rbind]; try discriminate.
  destruct (write_index _ _ _ _) as [[ix lv]| | |]; cbn [rbind]; try discriminate.
  destruct (zp _ _) as [[ev hs]| | |]; cbn [rbind]; try discriminate.
  intros H Hz. inversion H; subst p; clear H. cbn [p_zhdrs] in Hz. split.
  - constructor; cbn [p_pre p_hdr p_zdir p_so p_sum p_fdo p_cnt p_magic].
    + reflexivity.
    + apply header_bytes_len.
    + rewrite zdir_len. unfold MAX_ZOOM_LEVELS in Hz. lia.
    + rewrite bb_pre_Nlen. lia.
    + apply summary_bytes_len.
    + rewrite bb_pre_Nlen. lia.
    + unfold Nlen, u64. now rewrite enc_le_length.
    + unfold Nlen, u32. now rewrite enc_le_length.
  - cbn [p_hdr]. unfold header_bytes. reflexivity.
Qed.

Theorem bb_parts_ok fp kind o sizes autosql input sql p :
  bb_parts fp kind o sizes autosql input = Ok (sql, p) -> bparts_ok sql p /\ firstn 4 (p_hdr p) = u32 BIGBED_MAGIC.
Proof.
  intros H. pose proof (bb_parts_zooms_le _ _ _ _ _ _ _ _ H) as Hz.
  destruct (bb_parts_inv _ _ _ _ _ _ _ _ H) as [_ [fc [_ H1]]].
  destruct (bb_after_pre_inv _ _ _ _ _ _ _ _ H1) as [ids [outs [data [_ [_ H2]]]]].
  exact (assemble_parts_bok _ _ _ _ _ _ _ _ _ _ _ _ H2 Hz).
Qed.

(* the run of an accepted input *)
Lemma bb_sink_run_accepted f ck fp kind o sizes autosql input sql p :
  bb_parts fp kind o sizes autosql input = Ok (sql, p) ->
  bb_sink_run f ck fp kind o sizes autosql input = run f (Ok tt) (bb_calls_accept ck kind sql p).
Proof.
  intros H. destruct (bb_parts_inv _ _ _ _ _ _ _ _ H) as [Ho [fc [Es Ep]]].
  unfold bb_sink_run. rewrite Ho, Es, Ep. reflexivity.
Qed.
