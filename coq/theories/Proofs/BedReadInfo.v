(* Reading back what write_info / write_chrom_tree wrote: read_header on the 64 header bytes,
   read_zoom_headers on the directory, the chromosome tree (one leaf block, zero-padded keys) and
   hence read_info and chrom_id on a written file.  Little-endian files only (the writer is
   NativeEndian on a little-endian machine, as the model's u16/u32/u64 are). *)
From BT Require Import Base.Util Base.LE Base.Float Generated.Consts Model.RTree Model.BBIFile Model.BigWigWrite Model.BBIRead
  Proofs.RTreeCodec Proofs.BedAssemble.
Local Open Scope N_scope.

(* ---- fixed-width fields ---- *)
Lemma rd_field bs off w x : has_at bs off (enc_le w x) -> x < 256 ^ N.of_nat w -> rd false bs off w = Some x.
Proof.
  intros H Hx. unfold rd. rewrite (has_at_slice_w bs off (enc_le w x) w H) by (now rewrite enc_le_length).
  unfold dec. now rewrite dec_enc_le.
Qed.
Lemma has_at_field bs off w x rest off' : has_at bs off (enc_le w x ++ rest) -> off' = off + N.of_nat w ->
  has_at bs off (enc_le w x) /\ has_at bs off' rest.
Proof.
  intros H ->. apply has_at_app in H as [H1 H2]. split; [exact H1|].
  unfold Nlen in H2. now rewrite enc_le_length in H2.
Qed.
Lemma slice_in_range bs off w : (N.to_nat off + w <= length bs)%nat -> exists r, slice bs off w = Some r /\ length r = w.
Proof.
  intros H. unfold slice.
  assert (L : length (firstn w (skipn (N.to_nat off) bs)) = w) by (rewrite firstn_length, skipn_length; lia).
  rewrite L, Nat.eqb_refl. eexists. split; [reflexivity|exact L].
Qed.
Lemma slice_app_prefix a b w : length a = w -> slice (a ++ b) 0 w = Some a.
Proof. intros <-. unfold slice. cbn [N.to_nat skipn]. rewrite firstn_exact. now rewrite Nat.eqb_refl. Qed.

(* ---- the 64-byte header ---- *)
Definition hdr_ok (nz cis fdo ixs fc dfc asql tso ubuf : N) : Prop :=
  nz < U16 /\ cis < U64 /\ fdo < U64 /\ ixs < U64 /\ fc < U16 /\ dfc < U16 /\ asql < U64 /\ tso < U64 /\ ubuf < U32.

Lemma pow16 : 256 ^ N.of_nat 2 = U16. Proof. reflexivity. Qed.
Lemma pow32 : 256 ^ N.of_nat 4 = U32. Proof. reflexivity. Qed.
Lemma pow64 : 256 ^ N.of_nat 8 = U64. Proof. reflexivity. Qed.

Lemma detect_bigbed bs : has_at bs 0 (u32 BIGBED_MAGIC) -> detect_magic bs = Ok (false, false).
Proof.
  intros H. unfold detect_magic. rewrite (has_at_slice_w bs 0 (u32 BIGBED_MAGIC) 4 H) by reflexivity.
  vm_compute. reflexivity.
Qed.

Theorem read_header_written bs nz cis fdo ixs fc dfc asql tso ubuf :
  has_at bs 0 (header_bytes BIGBED_MAGIC nz cis fdo ixs fc dfc asql tso ubuf) ->
  hdr_ok nz cis fdo ixs fc dfc asql tso ubuf ->
  read_header bs = Ok {| h_big := false; h_bigwig := false; h_version := 4; h_zoom_levels := nz; h_chrom_tree_off := cis;
                         h_full_data_off := fdo; h_full_index_off := ixs; h_field_count := fc; h_defined_fc := dfc;
                         h_asql_off := asql; h_summary_off := tso; h_ubuf := ubuf |}.
Proof.
  intros H [Hnz [Hcis [Hfdo [Hixs [Hfc [Hdfc [Hasql [Htso Hubuf]]]]]]]].
  unfold read_header.
  rewrite (has_at_slice_w bs 0 _ 64 H) by (now rewrite header_bytes_length). cbn [rdo rbind].
  unfold header_bytes, u16, u32, u64 in H.
  apply (has_at_field bs 0 4 _ _ 4) in H as [M H]; [|reflexivity].
  rewrite (detect_bigbed bs M). cbn [rbind].
  apply (has_at_field bs 4 2 _ _ 6) in H as [F1 H]; [|reflexivity].
  apply (has_at_field bs 6 2 _ _ 8) in H as [F2 H]; [|reflexivity].
  apply (has_at_field bs 8 8 _ _ 16) in H as [F3 H]; [|reflexivity].
  apply (has_at_field bs 16 8 _ _ 24) in H as [F4 H]; [|reflexivity].
  apply (has_at_field bs 24 8 _ _ 32) in H as [F5 H]; [|reflexivity].
  apply (has_at_field bs 32 2 _ _ 34) in H as [F6 H]; [|reflexivity].
  apply (has_at_field bs 34 2 _ _ 36) in H as [F7 H]; [|reflexivity].
  apply (has_at_field bs 36 8 _ _ 44) in H as [F8 H]; [|reflexivity].
  apply (has_at_field bs 44 8 _ _ 52) in H as [F9 H]; [|reflexivity].
  apply (has_at_field bs 52 4 _ _ 56) in H as [F10 H]; [|reflexivity].
  rewrite (rd_field bs 4 2 4 F1) by (vm_compute; reflexivity).
  rewrite (rd_field bs 6 2 nz F2) by (rewrite pow16; exact Hnz).
  rewrite (rd_field bs 8 8 cis F3) by (rewrite pow64; exact Hcis).
  rewrite (rd_field bs 16 8 fdo F4) by (rewrite pow64; exact Hfdo).
  rewrite (rd_field bs 24 8 ixs F5) by (rewrite pow64; exact Hixs).
  rewrite (rd_field bs 32 2 fc F6) by (rewrite pow16; exact Hfc).
  rewrite (rd_field bs 34 2 dfc F7) by (rewrite pow16; exact Hdfc).
  rewrite (rd_field bs 36 8 asql F8) by (rewrite pow64; exact Hasql).
  rewrite (rd_field bs 44 8 tso F9) by (rewrite pow64; exact Htso).
  rewrite (rd_field bs 52 4 ubuf F10) by (rewrite pow32; exact Hubuf).
  reflexivity.
Qed.

Lemma read_zoom_headers_total big bs : forall n off, (N.to_nat off + 24 * n <= length bs)%nat ->
  exists zs, read_zoom_headers big bs off n = Ok zs.
Proof.
  induction n as [|n IH]; intros off H; [eexists; reflexivity|].
  cbn [read_zoom_headers]. destruct (slice_in_range bs off 24 ltac:(lia)) as [r [Hr _]]. rewrite Hr. cbn [rdo rbind].
  destruct (IH (off + 24) ltac:(lia)) as [zs Hzs]. rewrite Hzs. cbn [rbind]. eexists. reflexivity.
Qed.

(* ---- the chromosome tree ---- *)
Definition no_nul_name (k : name) : Prop := Forall (fun b => b <> 0) k.

Lemma drop_zeros_repeat k l : drop_zeros (repeatN 0 k ++ l) = drop_zeros l.
Proof. induction k as [|k IH]; [reflexivity|]. cbn [repeatN app drop_zeros]. exact IH. Qed.
Lemma drop_zeros_nonzero l : no_nul_name l -> drop_zeros l = l.
Proof. intros H. destruct H as [|b r Hb _]; [reflexivity|]. cbn [drop_zeros]. destruct b; [contradiction|reflexivity]. Qed.
Lemma no_nul_rev l : no_nul_name l -> no_nul_name (rev l).
Proof. unfold no_nul_name. intros H. apply Forall_rev. exact H. Qed.
Lemma rev_repeatN {X} (x : X) k : rev (repeatN x k) = repeatN x k.
Proof.
  induction k as [|k IH]; [reflexivity|]. cbn [repeatN rev]. rewrite IH.
  clear IH. induction k as [|k IH]; [reflexivity|]. cbn [repeatN app]. now rewrite IH.
Qed.
Lemma trim_padded k w : no_nul_name k -> trim_zeros (pad_key w k) = k.
Proof.
  intros H. unfold trim_zeros, pad_key.
  assert (E1 : drop_zeros (k ++ repeatN 0 (w - length k)) = k ++ repeatN 0 (w - length k) \/ k = []).
  { destruct H as [|b r Hb Hr]; [right; reflexivity|left]. cbn [app drop_zeros]. destruct b; [contradiction|reflexivity]. }
  destruct E1 as [E1|E1].
  - rewrite E1. rewrite rev_app_distr, rev_repeatN, drop_zeros_repeat.
    rewrite drop_zeros_nonzero by (apply no_nul_rev; exact H). apply rev_involutive.
  - subst k. cbn [app]. rewrite <- (app_nil_r (repeatN 0 _)). rewrite drop_zeros_repeat. reflexivity.
Qed.

Definition ctree_item (w : nat) (k : name) (id len : N) : list N := pad_key w k ++ u32 id ++ u32 len.
Lemma pad_key_length w k : (length k <= w)%nat -> length (pad_key w k) = w.
Proof. intros H. unfold pad_key. rewrite app_length, repeatN_length. lia. Qed.
Lemma ctree_item_length w k id len : (length k <= w)%nat -> length (ctree_item w k id len) = (w + 8)%nat.
Proof. intros H. unfold ctree_item, u32. rewrite !app_length, pad_key_length, !enc_le_length by exact H. lia. Qed.

Lemma firstn4_enc x r : firstn 4 (u32 x ++ r) = u32 x.
Proof. unfold u32. rewrite <- (enc_le_length 4 x) at 1. apply firstn_exact. Qed.

Lemma skipn4_enc x r : skipn 4 (u32 x ++ r) = r.
Proof. unfold u32. rewrite <- (enc_le_length 4 x) at 1. apply skipn_exact. Qed.
Lemma skipn_plus {X} (a b : nat) (l : list X) : skipn (a + b) l = skipn b (skipn a l).
Proof.
  revert l. induction a as [|a IH]; intros l; [reflexivity|].
  destruct l as [|x l]; [cbn [plus skipn]; now rewrite skipn_nil|]. cbn [plus skipn]. apply IH.
Qed.

(* parse of the leaf items *)
Lemma parse_chrom_leaf_written w : forall (items : list (name * N * N)) tail,
  Forall (fun it => let '(k, id, len) := it in (length k <= w)%nat /\ no_nul_name k /\ id < U32 /\ len < U32) items ->
  parse_chrom_leaf false w (length items) (flat_map (fun it => let '(k, id, len) := it in ctree_item w k id len) items ++ tail)
  = map (fun it => let '(k, id, len) := it in {| ci_name := k; ci_id := id; ci_len := len |}) items.
Proof.
  induction items as [|[[k id] len] items IH]; intros tail Hok; [reflexivity|].
  inversion Hok as [|? ? Hhd Hrest]; subst. cbn beta iota in Hhd. destruct Hhd as [Hl [Hn [Hid Hlen]]].
  cbn [length parse_chrom_leaf flat_map map]. rewrite <- app_assoc.
  set (rest := flat_map (fun it => let '(k0, id0, len0) := it in ctree_item w k0 id0 len0) items ++ tail).
  unfold ctree_item. rewrite <- !app_assoc.
  assert (Lp : length (pad_key w k) = w) by (apply pad_key_length; exact Hl).
  assert (E1 : firstn w (pad_key w k ++ u32 id ++ u32 len ++ rest) = pad_key w k) by (rewrite <- Lp at 1; apply firstn_exact).
  assert (E2 : skipn w (pad_key w k ++ u32 id ++ u32 len ++ rest) = u32 id ++ u32 len ++ rest) by (rewrite <- Lp at 1; apply skipn_exact).
  assert (E3 : skipn (w + 4) (pad_key w k ++ u32 id ++ u32 len ++ rest) = u32 len ++ rest).
  { rewrite <- (Nat.add_comm 4 w). rewrite <- BedAssemble.enc_len with (w := 4%nat) (x := id) at 1.
    replace (length (enc_le 4 id) + w)%nat with (w + length (u32 id))%nat by (unfold u32; lia).
    rewrite <- Lp at 1. rewrite <- app_length. rewrite app_assoc. apply skipn_exact. }
  assert (E4 : skipn (w + 8) (pad_key w k ++ u32 id ++ u32 len ++ rest) = rest).
  { replace (w + 8)%nat with (length (pad_key w k ++ u32 id ++ u32 len)).
    - rewrite !app_assoc. rewrite <- app_assoc with (l := pad_key w k). apply skipn_exact.
    - rewrite !app_length, Lp. unfold u32. rewrite !enc_le_length. lia. }
  rewrite E1, E2, E3, E4. rewrite trim_padded by exact Hn.
  rewrite !firstn4_enc.
  f_equal; [|apply IH; exact Hrest].
  unfold dec, u32. rewrite !dec_enc_le by (rewrite pow32; assumption). reflexivity.
Qed.

(* ---- chrom_tree_bytes in explicit form ---- *)
Definition max_key (chroms : idmap) : nat := fold_left (fun a c => Nat.max a (length (fst c))) chroms 0%nat.
Definition triples (sizes : list (name * N)) (chroms : idmap) : list (name * N * N) :=
  map (fun c => (fst c, snd c, match lookup (fst c) sizes with Some l => l | None => 0 end)) chroms.
Definition ctree_hdr (chroms : idmap) : list N :=
  u32 CHROM_TREE_MAGIC ++ u32 (N.max 256 (Nlen chroms)) ++ u32 (N.of_nat (max_key chroms)) ++ u32 8 ++ u64 (Nlen chroms) ++ u64 0.
Definition ctree_node_hdr (chroms : idmap) : list N := u8 1 ++ u8 0 ++ u16 (Nlen chroms).

Lemma fold_max_ge_acc (l : idmap) a : (a <= fold_left (fun a c => Nat.max a (length (fst c))) l a)%nat.
Proof. revert a. induction l as [|c l IH]; intros a; cbn [fold_left]; cbv beta; [lia|]. eapply Nat.le_trans; [|apply IH]. apply Nat.le_max_l. Qed.
Lemma max_key_ge chroms c : In c chroms -> (length (fst c) <= max_key chroms)%nat.
Proof.
  unfold max_key. generalize 0%nat. induction chroms as [|d l IH]; intros a Hin; [destruct Hin|].
  cbn [fold_left]. cbv beta. destruct Hin as [<-|Hin].
  - eapply Nat.le_trans; [|apply fold_max_ge_acc]. apply Nat.le_max_r.
  - apply IH. exact Hin.
Qed.

Lemma chrom_tree_bytes_inv sizes chroms ct : chrom_tree_bytes sizes chroms = Ok ct ->
  Forall (fun c => exists len, lookup (fst c) sizes = Some len) chroms
  /\ ct = ctree_hdr chroms ++ ctree_node_hdr chroms
          ++ flat_map (fun it => let '(k, id, len) := it in ctree_item (max_key chroms) k id len) (triples sizes chroms).
Proof.
  unfold chrom_tree_bytes. fold (max_key chroms). set (w := max_key chroms).
  set (items := map (fun c => match lookup (fst c) sizes with
                              | Some len => Some (pad_key w (fst c) ++ u32 (snd c) ++ u32 len)
                              | None => None end) chroms).
  destruct (forallb (fun i => match i with Some _ => true | None => false end) items) eqn:E; [|discriminate].
  intros H. apply Ok_inj in H. subst ct.
  assert (Hall : Forall (fun c => exists len, lookup (fst c) sizes = Some len) chroms).
  { unfold items in E. clearbody w. clear -E. induction chroms as [|c l IH]; [constructor|].
    cbn [map forallb] in E. apply andb_true_iff in E as [E1 E2]. constructor; [|apply IH; exact E2].
    destruct (lookup (fst c) sizes) as [len|]; [eexists; reflexivity|discriminate]. }
  split; [exact Hall|].
  unfold ctree_hdr, ctree_node_hdr. rewrite <- !app_assoc. do 9 f_equal.
  unfold items, triples. clear E. clearbody w. induction Hall as [|c l [len Hl] _ IH]; [reflexivity|].
  cbn [map flat_map]. rewrite Hl. rewrite IH. reflexivity.
Qed.

Definition chrom_ok (w : nat) (it : name * N * N) : Prop :=
  let '(k, id, len) := it in (length k <= w)%nat /\ no_nul_name k /\ id < U32 /\ len < U32.

Lemma flat_map_items_length w (items : list (name * N * N)) : Forall (chrom_ok w) items ->
  length (flat_map (fun it => let '(k, id, len) := it in ctree_item w k id len) items) = ((w + 8) * length items)%nat.
Proof.
  induction 1 as [|[[k id] len] l Hc _ IH]; [cbn; lia|].
  cbn [flat_map length]. rewrite app_length, IH. destruct Hc as [Hl _]. rewrite ctree_item_length by exact Hl. lia.
Qed.

(* read_info on a file whose header decodes to [h] and which holds the chromosome tree at its offset *)
Theorem read_info_written bs h zs sizes chroms ct :
  read_header bs = Ok h -> h_big h = false ->
  read_zoom_headers false bs 64 (N.to_nat (h_zoom_levels h)) = Ok zs ->
  chrom_tree_bytes sizes chroms = Ok ct -> has_at bs (h_chrom_tree_off h) ct ->
  Nlen chroms < U16 -> N.of_nat (max_key chroms) < U32 ->
  Forall (chrom_ok (max_key chroms)) (triples sizes chroms) ->
  read_info bs = Ok {| i_hdr := h; i_zooms := zs;
                       i_chroms := map (fun it => let '(k, id, len) := it in {| ci_name := k; ci_id := id; ci_len := len |})
                                       (triples sizes chroms) |}.
Proof.
  intros Hh Hbig Hz Hct Hat Hcnt Hkey Hok.
  destruct (chrom_tree_bytes_inv _ _ _ Hct) as [_ Ect]. subst ct.
  unfold read_info. rewrite Hh. cbn [rbind]. rewrite Hbig, Hz. cbn [rbind].
  set (cis := h_chrom_tree_off h) in *. set (w := max_key chroms) in *.
  apply has_at_app in Hat as [Hhdr Hat].
  assert (L32 : length (ctree_hdr chroms) = 32%nat).
  { unfold ctree_hdr, u32, u64. rewrite !app_length, !enc_le_length. reflexivity. }
  rewrite (has_at_slice_w bs cis _ 32 Hhdr) by (now rewrite L32). cbn [rdo rbind].
  unfold ctree_hdr at 1 2 3. fold w. rewrite firstn4_enc.
  replace (dec false (u32 CHROM_TREE_MAGIC) =? CHROM_TREE_MAGIC) with true by (vm_compute; reflexivity).
  cbn [negb].
  assert (K : firstn 4 (skipn 8 (u32 CHROM_TREE_MAGIC ++ u32 (N.max 256 (Nlen chroms)) ++ u32 (N.of_nat w) ++ u32 8 ++ u64 (Nlen chroms) ++ u64 0))
              = u32 (N.of_nat w)).
  { change 8%nat with (4 + 4)%nat. rewrite skipn_plus, !skipn4_enc. apply firstn4_enc. }
  assert (V : firstn 4 (skipn 12 (u32 CHROM_TREE_MAGIC ++ u32 (N.max 256 (Nlen chroms)) ++ u32 (N.of_nat w) ++ u32 8 ++ u64 (Nlen chroms) ++ u64 0))
              = u32 8).
  { change 12%nat with (4 + (4 + 4))%nat. rewrite !skipn_plus, !skipn4_enc. apply firstn4_enc. }
  rewrite K, V.
  replace (dec false (u32 8) =? 8) with true by (vm_compute; reflexivity). cbn [negb].
  assert (Kd : N.to_nat (dec false (u32 (N.of_nat w))) = w).
  { unfold dec, u32. rewrite dec_enc_le by (rewrite pow32; exact Hkey). apply Nat2N.id. }
  rewrite Kd.
  (* the leaf block *)
  unfold Nlen in Hat. rewrite L32 in Hat. change (N.of_nat 32) with 32 in Hat.
  apply has_at_app in Hat as [Hnode Hitems].
  assert (L4 : length (ctree_node_hdr chroms) = 4%nat).
  { unfold ctree_node_hdr, u8, u16. rewrite !app_length, !enc_le_length. reflexivity. }
  unfold Nlen in Hitems. rewrite L4 in Hitems. change (N.of_nat 4) with 4 in Hitems.
  cbn [read_chrom_block].
  rewrite (has_at_slice_w bs (cis + 32) _ 4 Hnode) by (now rewrite L4). cbn [rdo rbind].
  assert (Hleaf : nth 0 (ctree_node_hdr chroms) 0 = 1) by reflexivity.
  rewrite Hleaf.
  assert (Hcount : N.to_nat (dec false (skipn 2 (ctree_node_hdr chroms))) = length chroms).
  { unfold ctree_node_hdr. change (skipn 2 (u8 1 ++ u8 0 ++ u16 (Nlen chroms))) with (u16 (Nlen chroms)).
    unfold dec, u16. rewrite dec_enc_le by (rewrite pow16; exact Hcnt). unfold Nlen. apply Nat2N.id. }
  rewrite Hcount.
  assert (Lt : length (triples sizes chroms) = length chroms) by (unfold triples; apply map_length).
  assert (Li : length (flat_map (fun it => let '(k, id, len) := it in ctree_item w k id len) (triples sizes chroms))
               = ((w + 8) * length chroms)%nat) by (rewrite flat_map_items_length by exact Hok; now rewrite Lt).
  rewrite (has_at_slice_w bs (cis + 32 + 4) _ _ Hitems) by (now rewrite Li). cbn [rdo rbind].
  replace (1 =? 1) with true by reflexivity.
  rewrite <- Lt. rewrite <- (app_nil_r (flat_map _ (triples sizes chroms))).
  rewrite parse_chrom_leaf_written by exact Hok. reflexivity.
Qed.

(* chrom_id on the decoded table *)
Lemma name_eqb_refl k : name_eqb k k = true.
Proof. unfold name_eqb. induction k as [|b k IH]; [reflexivity|]. cbn [name_cmp]. rewrite N.compare_refl. exact IH. Qed.
Lemma name_eqb_true a b : name_eqb a b = true -> a = b.
Proof.
  unfold name_eqb. revert b. induction a as [|x a IH]; intros [|y b] H; cbn [name_cmp] in H; try discriminate; [reflexivity|].
  destruct (x ?= y) eqn:E; try discriminate. apply N.compare_eq in E. subst. f_equal. apply IH. exact H.
Qed.
Lemma chrom_id_written i (ts : list (name * N * N)) k id len :
  i_chroms i = map (fun it => let '(k, id, len) := it in {| ci_name := k; ci_id := id; ci_len := len |}) ts ->
  NoDup (map (fun it => fst (fst it)) ts) -> In (k, id, len) ts -> chrom_id i k = Ok id.
Proof.
  intros Hi Hnd Hin. unfold chrom_id. rewrite Hi. clear Hi.
  induction ts as [|[[k' id'] len'] ts IH]; [destruct Hin|].
  cbn [map find ci_name]. inversion Hnd as [|? ? Hnotin Hnd']; subst. cbn [fst] in Hnotin.
  destruct Hin as [E|Hin].
  - inversion E; subst. rewrite name_eqb_refl. reflexivity.
  - destruct (name_eqb k' k) eqn:E.
    + apply name_eqb_true in E. subst k'. exfalso. apply Hnotin.
      exact (in_map (fun it : name * N * N => fst (fst it)) ts (k, id, len) Hin).
    + apply IH; assumption.
Qed.
