(* C13, termination / no panic: once the input pass (bw_collect) has accepted, nothing in the
   rest of BigWigWrite::write / write_multipass can fail in the model: the index build terminates
   (block_size >= 2) and its levels are laid out without meeting a leaf above level 0, every zoom
   tiling loop terminates within its fuel and emits only non-empty sections (items_per_slot >= 1,
   zoom sizes >= 1: zero sizes are filtered), the level-selection loops are structural, and the
   chromosome tree finds a size for every id it was given.  Hence the writer's verdict is the
   input pass's verdict.  Zoom loop: Proofs/ZoomLoop.v, ZoomSections.v, ZoomLevels.v (C07). *)
From BT Require Import Base.Util Base.LE Base.Float Generated.Consts Model.RTree Model.BBIFile Model.BigWigWrite Model.Accept
  Proofs.Chunks Proofs.RTreeShape Proofs.RTreeLayout Proofs.ZoomLoop Proofs.ZoomSections Proofs.ZoomBwLevels Proofs.AcceptRules.
Local Open Scope N_scope.

(* ---------- index build ---------- *)
Lemma build_loop_total b : (2 <= b)%nat -> forall fuel cur lv,
  (length cur < fuel)%nat -> Forall (height lv) cur -> (cur = [] -> lv = 0%nat) ->
  exists t lv', build_loop fuel b cur lv = Ok (t, lv') /\ height lv' t.
Proof.
  intros Hb. induction fuel as [|f IH]; intros cur lv Hf Hh Hnil; [lia|].
  destruct cur as [|t0 [|t1 rest]]; cbn [build_loop].
  - rewrite (Hnil eq_refl). exists (Leaf []), 0%nat. split; [reflexivity|exact I].
  - exists t0, lv. split; [reflexivity|]. now inversion Hh.
  - apply IH.
    + rewrite map_length. pose proof (chunks_length_lt b (t0 :: t1 :: rest) Hb ltac:(cbn [length]; lia)). lia.
    + rewrite Forall_map. pose proof (chunks_concat b (t0 :: t1 :: rest) ltac:(lia)) as Hcat.
      rewrite <- Hcat in Hh. apply Forall_concat in Hh. eapply Forall_impl; [|exact Hh].
      intros c Hc. now apply height_mk_node.
    + intros E. apply map_eq_nil in E. apply chunks_nil_iff in E. discriminate.
Qed.

Theorem build_total b secs : (2 <= b)%nat -> exists t lv, build b secs = Ok (t, lv) /\ height lv t.
Proof.
  intros Hb. unfold build. destruct b as [|b']; [lia|].
  apply (build_loop_total (S b') Hb).
  - rewrite map_length. pose proof (chunks_length_le (S b') secs ltac:(lia)). lia.
  - rewrite Forall_map. apply Forall_forall. intros c _. exact I.
  - reflexivity.
Qed.

Lemma write_levels_total b t levels : height levels t -> forall level off, (level <= levels)%nat ->
  exists bs, write_levels b t levels level off = Ok bs.
Proof.
  intros Hh. induction level as [|l IH]; intros off Hl; cbn [write_levels].
  - rewrite (write_tree_eq b 0 levels t _ Hh Hl). cbn [rbind]. eauto.
  - rewrite (write_tree_eq b (S l) levels t _ Hh Hl). cbn [rbind].
    destruct (IH (off + level_bytes t levels (S l)) ltac:(lia)) as [bs Hbs].
    cbn [Nat.ltb Nat.leb] in *. rewrite Hbs. cbn [rbind]. eauto.
Qed.

Theorem write_index_total b ips pos secs : 2 <= b -> exists bs lv, write_index b ips pos secs = Ok (bs, lv).
Proof.
  intros Hb. unfold write_index.
  destruct (build_total (N.to_nat b) secs ltac:(lia)) as [t [lv [Hbuild Hh]]]. rewrite Hbuild. cbn [rbind].
  unfold rtree_bytes. destruct (write_levels_total b t lv Hh lv (pos + 48) (le_n _)) as [body Hbody].
  rewrite Hbody. cbn [rbind]. eauto.
Qed.

(* ---------- the level-selection loops ---------- *)
Lemma write_zooms_loop_total o data_size : 2 <= o_bs o -> forall zs pos lc zc,
  exists r, write_zooms_loop o data_size pos zs lc zc = Ok r.
Proof.
  intros Hb. induction zs as [|z rest IH]; intros pos lc zc; cbn [write_zooms_loop]; [eauto|].
  destruct (_ && (data_size / 2 <? _)); [apply IH|].
  destruct (_ && match lc with None => false | Some l => l <=? _ end); [apply IH|].
  destruct (write_index_total (o_bs o) (o_ips o) (pos + Nlen (data_bytes (zl_secs z))) (place pos (zl_secs z)) Hb)
    as [ix [lv Hix]].
  rewrite Hix. cbn [rbind].
  destruct (_ && (o_maxzooms o <=? zc + 1)); [eauto|].
  destruct (IH (pos + Nlen (data_bytes (zl_secs z) ++ ix)) (Some (Nlen (place pos (zl_secs z)))) (zc + 1)) as [[more hs] Hr].
  rewrite Hr. cbn [rbind]. eauto.
Qed.
Lemma write_zooms_two_pass_total o : 2 <= o_bs o -> forall zs pos, exists r, write_zooms_two_pass o pos zs = Ok r.
Proof.
  intros Hb. induction zs as [|z rest IH]; intros pos; cbn [write_zooms_two_pass]; [eauto|].
  destruct (write_index_total (o_bs o) (o_ips o) (pos + Nlen (data_bytes (zl_secs z))) (place pos (zl_secs z)) Hb)
    as [ix [lv Hix]].
  rewrite Hix. cbn [rbind].
  destruct (IH (pos + Nlen (data_bytes (zl_secs z) ++ ix))) as [[more hs] Hr]. rewrite Hr. cbn [rbind]. eauto.
Qed.

(* ---------- zoom levels: every size is >= 1, so every tiling loop terminates ---------- *)
Lemma inc_from_pos : forall l lo, inc_from lo l -> Forall (fun z => lo < z) l.
Proof.
  induction l as [|x r IH]; intros lo H; [constructor|]. destruct H as [H1 H2].
  constructor; [exact H1|]. eapply Forall_impl; [|apply (IH x H2)]. cbv beta. intros; lia.
Qed.

Lemma zoom_levels_total fp o (outs : list chrom_out) zsizes : 1 <= o_ips o -> Forall (fun z => 0 < z) zsizes ->
  exists zooms, mapM (fun size =>
                        do secs <- concat_res (map (fun c => zoom_sections fp (o_ips o) size (co_id c) (co_vals c)) outs);
                        Ok {| zl_res := size; zl_secs := secs |}) zsizes = Ok zooms.
Proof.
  intros Hi Hz. apply mapM_ok. intros size Hin. rewrite Forall_forall in Hz. specialize (Hz size Hin).
  destruct (concat_res_ok (map (fun c => zoom_sections fp (o_ips o) size (co_id c) (co_vals c)) outs)) as [secs Hs].
  { rewrite Forall_map. apply Forall_forall. intros c _.
    destruct (zoom_sections_encoded fp (o_ips o) size (co_id c) (co_vals c) ltac:(lia) Hi) as [st [sds [_ [H _]]]]. eauto. }
  rewrite Hs. cbn [rbind]. eauto.
Qed.

(* ---------- chromosome tree ---------- *)
Definition known (sizes : list (name * N)) (ids : idmap) : Prop :=
  Forall (fun c => exists len, lookup (fst c) sizes = Some len) ids.

Lemma chrom_tree_total sizes ids : known sizes ids -> exists bs, chrom_tree_bytes sizes ids = Ok bs.
Proof.
  intros Hk. unfold chrom_tree_bytes.
  assert (Hall : forallb (fun i : option (list N) => match i with Some _ => true | None => false end)
            (map (fun c => match lookup (fst c) sizes with
                           | Some len => Some (pad_key (fold_left (fun a c0 => Nat.max a (length (fst c0))) ids 0%nat) (fst c) ++ u32 (snd c) ++ u32 len)
                           | None => None end) ids) = true).
  { apply forallb_forall. intros i Hi. apply in_map_iff in Hi as [c [Hc Hin]].
    unfold known in Hk. rewrite Forall_forall in Hk. destruct (Hk c Hin) as [len Hl]. rewrite Hl in Hc. now subst i. }
  rewrite Hall. eauto.
Qed.

Lemma get_id_known sizes ids c len : known sizes ids -> lookup c sizes = Some len -> known sizes (fst (get_id ids c)).
Proof.
  intros Hk Hl. unfold get_id. destruct (lookup c ids); cbn [fst]; [exact Hk|].
  apply Forall_app. split; [exact Hk|]. constructor; [|constructor]. cbn [fst]. eauto.
Qed.
Lemma process_runs_known o sizes : forall rs prev ids ids' outs,
  known sizes ids -> process_runs o sizes prev ids rs = Ok (ids', outs) -> known sizes ids'.
Proof.
  induction rs as [|[c vals] rest IH]; intros prev ids ids' outs Hk H; cbn [process_runs] in H.
  - inversion H; subst. exact Hk.
  - destruct (negb _); [discriminate|]. destruct (lookup c sizes) as [len|] eqn:El; [|discriminate].
    pose proof (get_id_known sizes ids c len Hk El) as Hk'.
    (* after the repair the run is refused when the id map already has the chromosome *)
    try (destruct (lookup c ids) as [oldid|] eqn:Eid; [discriminate|]; unfold get_id in H, Hk'; rewrite Eid in H, Hk').
    try (destruct (get_id ids c) as [ids1 id]).
    cbn [fst] in Hk'.
    destruct (check_chrom len vals) as [[]| | |]; try discriminate. cbn [rbind] in H.
    match type of H with
    | context [process_runs o sizes (Some c) ?i rest] =>
        destruct (process_runs o sizes (Some c) i rest) as [[ids2 outs2]| | |] eqn:Er; try discriminate;
        cbn [rbind] in H; inversion H; subst; eapply IH; [exact Hk'|exact Er]
    end.
Qed.
Lemma collect_known fp o sizes input ids outs sum data :
  bw_collect fp o sizes input = Ok (ids, outs, sum, data) -> known sizes ids.
Proof.
  unfold bw_collect. destruct input as [|it rest]; [discriminate|].
  destruct (process_runs o sizes None [] (runs (it :: rest))) as [[ids1 outs1]| | |] eqn:Er; try discriminate.
  cbn [rbind]. destruct (concat_res _) as [d| | |]; try discriminate. cbn [rbind].
  intros H. inversion H; subst. eapply process_runs_known; [|exact Er]. constructor.
Qed.

(* ---------- assemble ---------- *)
Lemma assemble_total o magic sizes ids sum data pre fc dfc aoff zoom_part dco :
  2 <= o_bs o -> known sizes ids ->
  (forall ds zp, exists r, zoom_part ds zp = Ok r) ->
  exists f, assemble o magic sizes ids sum data pre fc dfc aoff zoom_part dco = Ok f.
Proof.
  intros Hb Hk Hz. unfold assemble.
  destruct (chrom_tree_total sizes ids Hk) as [ct Hct]. rewrite Hct. cbn [rbind].
  destruct (write_index_total (o_bs o) (o_ips o) (Nlen pre + Nlen (data_bytes data) + Nlen ct) (place (Nlen pre) data) Hb)
    as [ix [lv Hix]].
  rewrite Hix. cbn [rbind].
  destruct (Hz (Nlen (data_bytes data)) (Nlen pre + Nlen (data_bytes data) + Nlen ct + Nlen ix)) as [[zb zh] Hzp].
  rewrite Hzp. cbn [rbind]. eauto.
Qed.

(* ---------- the two write calls ---------- *)
Lemma opts_ok_spec o : opts_ok o = true <-> 2 <= o_bs o /\ 1 <= o_ips o.
Proof. unfold opts_ok. rewrite andb_true_iff, !N.leb_le. tauto. Qed.

Theorem bw_write_verdict fp o sizes input : opts_ok o = true ->
  verdict (bw_write fp o sizes input) = verdict (bw_collect fp o sizes input).
Proof.
  intros Ho. apply opts_ok_spec in Ho as [Hb Hi]. unfold bw_write.
  destruct (bw_collect fp o sizes input) as [[[[ids outs] sum] data]| | |] eqn:Ec; cbn [rbind verdict]; try reflexivity.
  destruct (zoom_levels_total fp o outs (zoom_sizes_single o) Hi) as [zooms Hzs].
  { apply inc_from_pos. apply zoom_sizes_single_inc. }
  rewrite Hzs. cbn [rbind].
  destruct (assemble_total o BIGWIG_MAGIC sizes ids sum data bw_pre 0 0 0
              (fun data_size zpos => write_zooms_loop o data_size zpos zooms None 0) (fun nsecs => nsecs) Hb
              (collect_known _ _ _ _ _ _ _ _ Ec)) as [f Hf].
  { intros ds zp. apply write_zooms_loop_total. exact Hb. }
  rewrite Hf. reflexivity.
Qed.

Theorem bw_write_multipass_verdict fp o sizes input : opts_ok o = true ->
  verdict (bw_write_multipass fp o sizes input) = verdict (bw_collect fp o sizes input).
Proof.
  intros Ho. apply opts_ok_spec in Ho as [Hb Hi]. unfold bw_write_multipass.
  destruct (bw_collect fp o sizes input) as [[[[ids outs] sum] data]| | |] eqn:Ec; cbn [rbind verdict]; try reflexivity.
  cbv zeta.
  match goal with
  | |- context [assemble ?o' ?m ?s ?i ?su ?d ?p ?a ?b ?c ?zp ?dc] =>
      destruct (assemble_total o' m s i su d p a b c zp dc Hb (collect_known _ _ _ _ _ _ _ _ Ec)) as [f Hf]
  end.
  { intros ds zp.
    destruct (zoom_levels_total fp o outs (zoom_sizes_two_pass o sum (total_zoom_counts outs) ds) Hi) as [zooms Hzs].
    { apply inc_from_pos. apply zoom_sizes_two_pass_inc. }
    rewrite Hzs. cbn [rbind]. apply write_zooms_two_pass_total. exact Hb. }
  rewrite Hf. reflexivity.
Qed.

(* never Fuel, never Panic: on ANY input *)
Theorem writer_total fp o sizes input : opts_ok o = true ->
  ((exists f, bw_write fp o sizes input = Ok f) \/ (exists k, bw_write fp o sizes input = Err k)) /\
  ((exists f, bw_write_multipass fp o sizes input = Ok f) \/ (exists k, bw_write_multipass fp o sizes input = Err k)).
Proof.
  intros Ho. pose proof (bw_write_verdict fp o sizes input Ho) as H1.
  pose proof (bw_write_multipass_verdict fp o sizes input Ho) as H2.
  pose proof Ho as Ho'. apply opts_ok_spec in Ho' as [_ Hi].
  rewrite (collect_verdict fp o sizes input ltac:(lia)) in H1, H2.
  rewrite (serial_ext check_val (chk_of bw_val_class) check_val_class) in H1, H2.
  destruct (serial_ok_or_err bw_val_class (o_sort_all o) sizes (ok_lines input)) as [[Hs _]|[k Hs]]; rewrite Hs in H1, H2.
  - split; left.
    + destruct (bw_write fp o sizes input); try discriminate. eauto.
    + destruct (bw_write_multipass fp o sizes input); try discriminate. eauto.
  - split; right.
    + destruct (bw_write fp o sizes input); try discriminate. cbn [verdict] in H1. inversion H1. eauto.
    + destruct (bw_write_multipass fp o sizes input); try discriminate. cbn [verdict] in H2. inversion H2. eauto.
Qed.
